import MsiModel.Res
import MsiModel.Wire
import MsiModel.Language
import MsiModel.Timestamp
