import MsiModel.Res
import MsiModel.Wire
import MsiModel.Language
import MsiModel.Timestamp
import MsiModel.Value
import MsiModel.Expr
import MsiModel.WireExpr
import MsiModel.CodePage
