import MsiModel.PropSet
import MsiProofs.Lemmas.Codec
/-
Property-set codec: what `PropertySet::write` writes, `PropertySet::read` reads back.
-/
set_option linter.unusedSimpArgs false
namespace MsiProofs.PropSetCodec
open MsiModel MsiModel.Bytes MsiProofs.Codec

/-- values the format can hold: integers in the range of their type; a string is one the code
page encodes and decodes back (`Codec.encode`/`decode`: the parameter standing for
`encoding_rs`), short enough for a 32-bit length -/
def ValOk (cp : Nat) : PropVal → Prop
  | .empty => True
  | .null => True
  | .i1 n => -128 ≤ n ∧ n ≤ 127
  | .i2 n => -32768 ≤ n ∧ n ≤ 32767
  | .i4 n => -2147483648 ≤ n ∧ n ≤ 2147483647
  | .fileTime t => t < 18446744073709551616
  | .lpstr s => ∃ bs, Codec.encode cp s = some bs ∧ Codec.decode cp bs = some s ∧ bs.length + 1 < 4294967296

theorem C10len.u32 (n : Nat) : (u32le n).length = 4 := rfl
theorem readU8_cons (b : UInt8) (rest : Bytes) : readU8 (b :: rest) = .ok (b.toNat, rest) := rfl

theorem readU64_u64le (n : Nat) (h : n < 18446744073709551616) (rest : Bytes) :
    readU64 (u64le n ++ rest) = .ok (n, rest) := by
  unfold readU64 u64le
  rw [List.append_assoc, readU32_u32le _ (by omega)]
  simp only [bind, Res.bind]
  rw [readU32_u32le _ (by omega)]
  simp only [pure]
  congr 2
  omega

theorem readBytes_spec (bs : Bytes) : ∀ (rest acc : Bytes),
    PropVal.readBytesOneByOne bs.length (bs ++ rest) acc = .ok (acc.reverse ++ bs, rest) := by
  induction bs with
  | nil => intro rest acc; simp [PropVal.readBytesOneByOne]
  | cons b bs ih =>
    intro rest acc
    simp only [List.length_cons, List.cons_append, PropVal.readBytesOneByOne]
    rw [ih]
    simp

theorem toI16_ofI16 (n : Int) (h1 : -32768 ≤ n) (h2 : n ≤ 32767) : toI16 (ofI16 n) = n := by
  unfold toI16 ofI16
  by_cases hn : 0 ≤ n
  · have : n % 65536 = n := Int.emod_eq_of_lt hn (by omega)
    rw [this]
    have : n.toNat < 32768 := by omega
    simp only [this, if_true]
    omega
  · have : n % 65536 = n + 65536 := by
      have := Int.emod_emod_of_dvd n (by decide : (65536 : Int) ∣ 65536)
      omega
    rw [this]
    have h3 : ¬ (n + 65536).toNat < 32768 := by omega
    simp only [h3, if_false]
    omega

theorem toI32_ofI32 (n : Int) (h1 : -2147483648 ≤ n) (h2 : n ≤ 2147483647) : toI32 (ofI32 n) = n := by
  unfold toI32 ofI32
  by_cases hn : 0 ≤ n
  · have : n % 4294967296 = n := Int.emod_eq_of_lt hn (by omega)
    rw [this]
    have : n.toNat < 2147483648 := by omega
    simp only [this, if_true]
    omega
  · have : n % 4294967296 = n + 4294967296 := by omega
    rw [this]
    have h3 : ¬ (n + 4294967296).toNat < 2147483648 := by omega
    simp only [h3, if_false]
    omega

theorem ofI16_lt (n : Int) : ofI16 n < 65536 := by unfold ofI16; omega
theorem ofI32_lt (n : Int) : ofI32 n < 4294967296 := by unfold ofI32; omega


/-- **value round trip**: reading what was written for a value the format can hold gives the
value back, whatever follows it -/
theorem val_roundtrip (cp : Nat) (v : PropVal) (hv : ValOk cp v) (bs : Bytes) (hw : v.write cp = .ok bs)
    (rest : Bytes) : PropVal.read cp (bs ++ rest) = .ok v := by
  cases v with
  | empty =>
    cases hw
    unfold PropVal.read
    rw [readU32_u32le 0 (by omega)]
    rfl
  | null =>
    cases hw
    unfold PropVal.read
    rw [readU32_u32le 1 (by omega)]
    rfl
  | i2 n =>
    cases hw
    obtain ⟨h1, h2⟩ := hv
    unfold PropVal.read
    rw [List.append_assoc, List.append_assoc, readU32_u32le 2 (by omega)]
    simp only [bind, Res.bind, pure]
    rw [readU16_u16le _ (ofI16_lt n)]
    simp only [toI16_ofI16 n h1 h2]
    rfl
  | i4 n =>
    cases hw
    obtain ⟨h1, h2⟩ := hv
    unfold PropVal.read
    rw [List.append_assoc, readU32_u32le 3 (by omega)]
    simp only [bind, Res.bind, pure]
    rw [readU32_u32le _ (ofI32_lt n)]
    simp only [toI32_ofI32 n h1 h2]
    rfl
  | i1 n =>
    cases hw
    obtain ⟨h1, h2⟩ := hv
    unfold PropVal.read
    rw [List.append_assoc, List.append_assoc, readU32_u32le 16 (by omega)]
    simp only [bind, Res.bind, pure, List.cons_append, readU8_cons]
    have hb : (UInt8.ofNat (n % 256).toNat).toNat = (n % 256).toNat := by
      simp only [UInt8.toNat_ofNat']
      omega
    simp only [hb]
    show Res.ok (PropVal.i1 _) = _
    congr 2
    by_cases hn : 0 ≤ n
    · have : n % 256 = n := Int.emod_eq_of_lt hn (by omega)
      rw [this]
      have : n.toNat < 128 := by omega
      simp only [this, if_true]
      omega
    · have : n % 256 = n + 256 := by omega
      rw [this]
      have h3 : ¬ (n + 256).toNat < 128 := by omega
      simp only [h3, if_false]
      omega
  | fileTime t =>
    cases hw
    unfold PropVal.read
    rw [List.append_assoc, readU32_u32le 64 (by omega)]
    simp only [bind, Res.bind, pure]
    rw [readU64_u64le t hv]
    rfl
  | lpstr s =>
    obtain ⟨enc, he, hd, hl⟩ := hv
    simp only [PropVal.write, he] at hw
    cases hw
    unfold PropVal.read
    simp only [List.append_assoc]
    rw [readU32_u32le 30 (by omega)]
    simp only [bind, Res.bind, pure]
    rw [readU32_u32le _ hl]
    have hne : enc.length + 1 ≠ 0 := by omega
    simp only [hne, if_false, Nat.add_sub_cancel]
    rw [readBytes_spec enc]
    simp only [List.reverse_nil, List.nil_append, List.cons_append, readU8_cons]
    simp [hd]


/-! ### the writer, characterised -/

/-- the bytes written for each value, in order -/
inductive Written (cp : Nat) : List (Nat × PropVal) → List Bytes → Prop
  | nil : Written cp [] []
  | cons {k : Nat} {v : PropVal} {b : Bytes} {rest : List (Nat × PropVal)} {bs : List Bytes} :
      v.write cp = .ok b → Written cp rest bs → Written cp ((k, v) :: rest) (b :: bs)

theorem written_exists (cp : Nat) (props : List (Nat × PropVal)) (h : ∀ kv ∈ props, ValOk cp kv.2) :
    ∃ vbs, Written cp props vbs := by
  induction props with
  | nil => exact ⟨[], .nil⟩
  | cons kv rest ih =>
    obtain ⟨k, v⟩ := kv
    obtain ⟨bs, hbs⟩ := ih (fun x hx => h x (by simp [hx]))
    have hv : ValOk cp v := h (k, v) (by simp)
    have : ∃ b, v.write cp = .ok b := by
      cases v with
      | lpstr s =>
        obtain ⟨enc, he, -, -⟩ := hv
        exact ⟨_, by simp only [PropVal.write, he]; rfl⟩
      | _ => exact ⟨_, rfl⟩
    obtain ⟨b, hb⟩ := this
    exact ⟨b :: bs, .cons hb hbs⟩

theorem values_spec (p : PropSet) (props : List (Nat × PropVal)) (vbs : List Bytes)
    (h : Written p.codepage props vbs) : ∀ acc, PropSet.write.values p props acc = .ok (acc ++ vbs.flatten) := by
  induction h with
  | nil => intro acc; simp [PropSet.write.values, pure]
  | cons hb _ ih =>
    intro acc
    simp only [PropSet.write.values, hb, bind, Res.bind]
    rw [ih]
    simp

/-- offsets of consecutive values starting at `size` -/
def offsFrom : Nat → List Bytes → List Nat
  | _, [] => []
  | size, b :: bs => size :: offsFrom (size + b.length) bs

def total : List Bytes → Nat
  | [] => 0
  | b :: bs => b.length + total bs

theorem total_eq_flatten (vbs : List Bytes) : total vbs = vbs.flatten.length := by
  induction vbs with
  | nil => rfl
  | cons b bs ih => simp [total, ih]

theorem value_size (cp : Nat) (v : PropVal) (bs : Bytes) (h : v.write cp = .ok bs) : v.size cp = .ok bs.length := by
  cases v with
  | lpstr s =>
    simp only [PropVal.write] at h
    cases he : Codec.encode cp s with
    | none => simp [he] at h
    | some enc =>
      simp only [he] at h
      cases h
      simp only [PropVal.size, he, List.length_append, C10len.u32, List.length_cons, List.length_nil,
        List.length_replicate]
      congr 1; omega
  | _ => cases h; rfl

theorem offsets_spec (p : PropSet) (props : List (Nat × PropVal)) (vbs : List Bytes)
    (h : Written p.codepage props vbs) : ∀ size acc, size + total vbs < 4294967296 →
      PropSet.write.offsets p props size acc = .ok (acc.reverse ++ offsFrom size vbs, size + total vbs) := by
  induction h with
  | nil => intro size acc _; simp [PropSet.write.offsets, pure, offsFrom, total]
  | @cons k v b rest bs hb _ ih =>
    intro size acc hlt
    simp only [PropSet.write.offsets, value_size _ _ _ hb, bind, Res.bind]
    simp only [total] at hlt
    have hm : (size + b.length) % 4294967296 = size + b.length := Nat.mod_eq_of_lt (by omega)
    rw [hm, ih (size + b.length) (size :: acc) (by omega)]
    simp [offsFrom, total, Nat.add_assoc]


/-! ### the reader on what the writer wrote -/

theorem written_length {cp : Nat} {props : List (Nat × PropVal)} {vbs : List Bytes} (h : Written cp props vbs) :
    props.length = vbs.length := by
  induction h with
  | nil => rfl
  | cons _ _ ih => simp [ih]

theorem offsFrom_length (size : Nat) (vbs : List Bytes) : (offsFrom size vbs).length = vbs.length := by
  induction vbs generalizing size with
  | nil => rfl
  | cons b bs ih => simp [offsFrom, ih]

theorem offsFrom_lt (vbs : List Bytes) : ∀ size, size + total vbs < 4294967296 →
    ∀ o ∈ offsFrom size vbs, o < 4294967296 := by
  induction vbs with
  | nil => intro size _ o ho; simp [offsFrom] at ho
  | cons b bs ih =>
    intro size h o ho
    simp only [offsFrom, List.mem_cons] at ho
    simp only [total] at h
    rcases ho with rfl | ho
    · omega
    · exact ih (size + b.length) (by omega) o ho

theorem insertSortedNat_append (k v : Nat) (acc : List (Nat × Nat)) (h : ∀ a ∈ acc, a.1 < k) :
    PropSet.insertSortedNat k v acc = acc ++ [(k, v)] := by
  induction acc with
  | nil => rfl
  | cons a rest ih =>
    obtain ⟨ak, av⟩ := a
    have h1 : ak < k := h (ak, av) (by simp)
    have : ¬ k < ak := by omega
    simp only [PropSet.insertSortedNat, this, if_false, List.cons_append]
    rw [ih (fun x hx => h x (by simp [hx]))]

theorem readOffsets_spec (props : List (Nat × PropVal)) : ∀ (offs : List Nat) (rest : Bytes) (acc : List (Nat × Nat)),
    props.length = offs.length →
    (props.map (·.1)).Pairwise (· < ·) → (∀ kv ∈ props, kv.1 < 4294967296) → (∀ o ∈ offs, o < 4294967296) →
    (∀ a ∈ acc, ∀ kv ∈ props, a.1 < kv.1) →
    PropSet.readOffsets props.length
      (((props.zip offs).flatMap fun x => u32le x.1.1 ++ u32le x.2) ++ rest) acc
      = .ok (acc ++ (props.map (·.1)).zip offs) := by
  induction props with
  | nil =>
    intro offs rest acc hl _ _ _ _
    simp [PropSet.readOffsets, pure]
  | cons kv props ih =>
    intro offs rest acc hl hasc hk ho hacc
    cases offs with
    | nil => simp at hl
    | cons o offs =>
      simp only [List.length_cons, List.zip_cons_cons, List.flatMap_cons, List.append_assoc, PropSet.readOffsets]
      rw [readU32_u32le _ (hk kv (by simp))]
      simp only [bind, Res.bind]
      rw [readU32_u32le _ (ho o (by simp))]
      simp only [Res.bind]
      have hany : acc.any (fun x => x.1 == kv.1) = false := by
        rw [List.any_eq_false]
        intro a ha
        have := hacc a ha kv (by simp)
        simp; omega
      simp only [hany, Bool.false_eq_true, if_false]
      rw [insertSortedNat_append _ _ _ (fun a ha => hacc a ha kv (by simp))]
      simp only [List.map_cons, List.pairwise_cons] at hasc
      rw [ih offs rest (acc ++ [(kv.1, o)]) (by simpa using hl) hasc.2 (fun x hx => hk x (by simp [hx]))
        (fun x hx => ho x (by simp [hx]))
        (by
          intro a ha x hx
          simp only [List.mem_append, List.mem_singleton] at ha
          rcases ha with ha | rfl
          · exact hacc a ha x (by simp [hx])
          · exact hasc.1 x.1 (List.mem_map.mpr ⟨x, hx, rfl⟩))]
      simp


theorem seekTo_append (a b : Bytes) : PropSet.seekTo (a ++ b) a.length = .ok b := by
  unfold PropSet.seekTo
  have : ¬ a.length > (a ++ b).length := by simp
  simp only [this, if_false, List.drop_left]

theorem write_cp_irrelevant (cp cp' : Nat) (n : Int) : (PropVal.i2 n).write cp = (PropVal.i2 n).write cp' := rfl

theorem readVals_spec (data : Bytes) (cp ver : Nat) (props : List (Nat × PropVal)) (vbs : List Bytes)
    (h : Written cp props vbs) : ∀ (pre : Bytes) (acc : List (Nat × PropVal)),
    (∀ kv ∈ props, ValOk cp kv.2) → (∀ kv ∈ props, kv.2.minVersion ≤ ver) →
    data = pre ++ vbs.flatten → 48 ≤ pre.length →
    PropSet.readVals data ver 48 cp ((props.map (·.1)).zip (offsFrom (pre.length - 48) vbs)) acc
      = .ok (acc.reverse ++ props) := by
  induction h with
  | nil => intro pre acc _ _ _ _; simp [PropSet.readVals, offsFrom, pure]
  | @cons k v b rest bs hb _ ih =>
    intro pre acc hok hver hdata hpre
    simp only [List.map_cons, offsFrom, List.zip_cons_cons, PropSet.readVals]
    have hpos : 48 + (pre.length - 48) = pre.length := by omega
    have hseek : PropSet.seekTo data pre.length = .ok (b ++ bs.flatten) := by
      rw [hdata]; simpa using seekTo_append pre (b ++ bs.flatten)
    rw [hpos, hseek]
    simp only [bind, Res.bind]
    rw [val_roundtrip cp v (hok (k, v) (by simp)) b hb]
    simp only [Res.bind]
    have hv : ¬ v.minVersion > ver := by
      have := hver (k, v) (by simp)
      simp only at this
      omega
    simp only [hv, if_false]
    have hd' : data = (pre ++ b) ++ bs.flatten := by rw [hdata]; simp
    have := ih (pre ++ b) ((k, v) :: acc) (fun x hx => hok x (by simp [hx])) (fun x hx => hver x (by simp [hx]))
      hd' (by simp; omega)
    have hl : (pre ++ b).length - 48 = pre.length - 48 + b.length := by simp; omega
    rw [hl] at this
    rw [this]
    simp

/-- property 1, when present, is a 16-bit integer naming the code page in use; when absent the
page is the default -/
def CpConsistent (props : List (Nat × PropVal)) (cpc : Nat) : Prop :=
  match props.find? (fun kv => kv.1 == Gen.propCodepage) with
  | some (_, .i2 n) => CodePage.fromId ((ofI16 n : Nat) : Int) = some cpc
  | some _ => False
  | none => cpc = Gen.cpDefault

theorem readCodepage_spec (data : Bytes) (cp cpc : Nat) (props : List (Nat × PropVal)) (vbs : List Bytes)
    (h : Written cp props vbs) : ∀ (pre : Bytes),
    (∀ kv ∈ props, ValOk cp kv.2) → CpConsistent props cpc →
    data = pre ++ vbs.flatten → 48 ≤ pre.length →
    PropSet.readCodepage data 48 ((props.map (·.1)).zip (offsFrom (pre.length - 48) vbs)) = .ok cpc := by
  induction h with
  | nil =>
    intro pre _ hc _ _
    simp only [CpConsistent, List.find?_nil] at hc
    simp [PropSet.readCodepage, offsFrom, pure, hc]
  | @cons k v b rest bs hb _ ih =>
    intro pre hok hc hdata hpre
    simp only [List.map_cons, offsFrom, List.zip_cons_cons, PropSet.readCodepage, List.find?_cons]
    simp only [CpConsistent, List.find?_cons] at hc
    by_cases hk : (k == Gen.propCodepage) = true
    · simp only [hk] at hc ⊢
      cases v with
      | i2 n =>
        simp only at hc
        have hpos : 48 + (pre.length - 48) = pre.length := by omega
        have hseek : PropSet.seekTo data pre.length = .ok (b ++ bs.flatten) := by
          rw [hdata]; simpa using seekTo_append pre (b ++ bs.flatten)
        rw [hpos, hseek]
        simp only [bind, Res.bind]
        have hv : ValOk Gen.cpDefault (.i2 n) := hok (k, .i2 n) (by simp)
        rw [val_roundtrip Gen.cpDefault (.i2 n) hv b hb]
        simp only [Res.bind, hc, Res.ofOption]
      | _ => simp only at hc
    · have hkf : (k == Gen.propCodepage) = false := by simpa using hk
      simp only [hkf] at hc ⊢
      have hd' : data = (pre ++ b) ++ bs.flatten := by rw [hdata]; simp
      have := ih (pre ++ b) (fun x hx => hok x (by simp [hx])) hc hd' (by simp; omega)
      have hl : (pre ++ b).length - 48 = pre.length - 48 + b.length := by simp; omega
      rw [hl] at this
      simpa [PropSet.readCodepage] using this


theorem foldl_max_ge (l : List Nat) : ∀ a, a ≤ l.foldl max a ∧ ∀ x ∈ l, x ≤ l.foldl max a := by
  induction l with
  | nil => intro a; simp
  | cons y l ih =>
    intro a
    have := ih (max a y)
    simp only [List.foldl_cons, List.mem_cons]
    refine ⟨by omega, ?_⟩
    rintro x (rfl | hx)
    · omega
    · exact this.2 x hx

theorem foldl_max_le_one (l : List Nat) (h : ∀ x ∈ l, x ≤ 1) : ∀ a, a ≤ 1 → l.foldl max a ≤ 1 := by
  induction l with
  | nil => intro a ha; simpa
  | cons y l ih =>
    intro a ha
    have hy := h y (by simp)
    exact ih (fun x hx => h x (by simp [hx])) (max a y) (by omega)

theorem table_length (props : List (Nat × PropVal)) : ∀ (offs : List Nat), props.length = offs.length →
    ((props.zip offs).flatMap fun x => u32le x.1.1 ++ u32le x.2).length = 8 * props.length := by
  induction props with
  | nil => intro offs _; simp
  | cons kv props ih =>
    intro offs hl
    cases offs with
    | nil => simp at hl
    | cons o offs =>
      simp only [List.zip_cons_cons, List.flatMap_cons, List.length_append, C10len.u32, List.length_cons]
      rw [ih offs (by simpa using hl)]
      omega

/-- property sets that survive a save -/
structure WF (p : PropSet) : Prop where
  os : p.os ≤ 2
  osVersion : p.osVersion < 65536
  clsid : p.clsid.length = 16
  fmtid : p.fmtid.length = 16
  asc : (p.props.map (·.1)).Pairwise (· < ·)
  ids : ∀ kv ∈ p.props, kv.1 < 4294967296
  vals : ∀ kv ∈ p.props, ValOk p.codepage kv.2
  cp : CpConsistent p.props p.codepage
  size : ∀ vbs, Written p.codepage p.props vbs → 8 + 8 * p.props.length + total vbs < 4294967296

theorem readExact_append (a b : Bytes) (n : Nat) (h : a.length = n) : readExact n (a ++ b) = .ok (a, b) := by
  unfold readExact
  have : ¬ (a ++ b).length < n := by simp; omega
  simp only [this, if_false]
  subst h
  simp

/-- **property-set round trip**: every well-formed property set is written, and reading the
written bytes gives the same property set back — header fields, code page, every property with
its value, in every code page whose codec round-trips the strings -/
theorem propset_roundtrip (p : PropSet) (h : WF p) :
    ∃ bytes, p.write = .ok bytes ∧ PropSet.read bytes = .ok p := by
  obtain ⟨vbs, hw⟩ := written_exists p.codepage p.props h.vals
  have hsz := h.size vbs hw
  have hlen := written_length hw
  let ver := (p.props.map fun kv => kv.2.minVersion).foldl max 0
  have hver1 : ver ≤ 1 := foldl_max_le_one _ (by
    intro x hx
    obtain ⟨kv, -, rfl⟩ := List.mem_map.mp hx
    cases kv.2 <;> simp [PropVal.minVersion]) 0 (by omega)
  have hverge : ∀ kv ∈ p.props, kv.2.minVersion ≤ ver := fun kv hkv =>
    (foldl_max_ge _ 0).2 _ (List.mem_map.mpr ⟨kv, hkv, rfl⟩)
  let offs := offsFrom (8 + 8 * p.props.length) vbs
  have hoffl : p.props.length = offs.length := by rw [offsFrom_length]; exact hlen
  let hdr : Bytes := u16le Gen.propsetByteOrderMark ++ u16le ver ++ u16le p.osVersion ++ u16le p.os ++ p.clsid
    ++ u32le 1 ++ p.fmtid ++ u32le 48
  let table : Bytes := (p.props.zip offs).flatMap fun x => u32le x.1.1 ++ u32le x.2
  let S := 8 + 8 * p.props.length + total vbs
  let data : Bytes := hdr ++ u32le S ++ u32le p.props.length ++ table ++ vbs.flatten
  have hwrite : p.write = .ok data := by
    unfold PropSet.write
    simp only [bind, Res.bind]
    rw [offsets_spec p p.props vbs hw _ [] hsz]
    simp only [Res.bind, List.reverse_nil, List.nil_append]
    rw [values_spec p p.props vbs hw []]
    simp only [Res.bind, pure, List.nil_append]
    rfl
  refine ⟨data, hwrite, ?_⟩
  have hhdr : hdr.length = 48 := by
    simp only [hdr, List.length_append, h.clsid, h.fmtid, C10len.u32]
    rfl
  have htab : table.length = 8 * p.props.length := table_length p.props offs hoffl
  -- the parts of the file
  have hsect : data = hdr ++ (u32le S ++ (u32le p.props.length ++ (table ++ vbs.flatten))) := by
    simp only [data, List.append_assoc]
  let pre : Bytes := hdr ++ u32le S ++ u32le p.props.length ++ table
  have hpre : data = pre ++ vbs.flatten := rfl
  have hprel : pre.length - 48 = 8 + 8 * p.props.length := by
    simp only [pre, List.length_append, hhdr, htab, C10len.u32]; omega
  have hpre48 : 48 ≤ pre.length := by
    simp only [pre, List.length_append, hhdr]; omega
  have hseek : PropSet.seekTo data 48 = .ok (u32le S ++ (u32le p.props.length ++ (table ++ vbs.flatten))) := by
    rw [hsect, ← hhdr]; exact seekTo_append _ _
  have hro := readOffsets_spec p.props offs vbs.flatten [] hoffl h.asc h.ids
    (offsFrom_lt vbs _ hsz) (by intro a ha; simp at ha)
  have hcp := readCodepage_spec data p.codepage p.codepage p.props vbs hw pre h.vals h.cp hpre hpre48
  have hvals := readVals_spec data p.codepage ver p.props vbs hw pre [] h.vals hverge hpre hpre48
  rw [hprel] at hcp hvals
  -- run the reader over the header
  have hdata : data = u16le Gen.propsetByteOrderMark ++ (u16le ver ++ (u16le p.osVersion ++ (u16le p.os ++
      (p.clsid ++ (u32le 1 ++ (p.fmtid ++ (u32le 48 ++ (u32le S ++ (u32le p.props.length ++
        (table ++ vbs.flatten)))))))))) := by
    simp only [data, hdr, List.append_assoc]
  unfold PropSet.read
  rw [show readU16 data = .ok (Gen.propsetByteOrderMark, _) from by
    rw [hdata]; exact readU16_u16le _ (by decide) _]
  simp only [bind, Res.bind, ne_eq, not_true_eq_false, if_false]
  rw [readU16_u16le ver (by omega)]
  simp only [Res.bind]
  have hv1 : ¬ ver > 1 := by omega
  simp only [hv1, if_false]
  rw [readU16_u16le _ h.osVersion]
  simp only [Res.bind]
  rw [readU16_u16le _ (by have := h.os; omega)]
  simp only [Res.bind]
  have hos : ¬ p.os > 2 := by have := h.os; omega
  simp only [hos, if_false]
  rw [readExact_append _ _ 16 h.clsid]
  simp only [Res.bind]
  rw [readU32_u32le 1 (by omega)]
  simp only [Res.bind]
  have h11 : ¬ (1 < 1) := by omega
  simp only [h11, if_false]
  rw [readExact_append _ _ 16 h.fmtid]
  simp only [Res.bind]
  rw [readU32_u32le 48 (by omega)]
  simp only [Res.bind]
  rw [hseek]
  simp only [Res.bind]
  rw [readU32_u32le S hsz]
  simp only [Res.bind]
  rw [readU32_u32le _ (by omega)]
  simp only [Res.bind]
  rw [hro]
  simp only [Res.bind, List.nil_append]
  rw [hcp]
  simp only [Res.bind]
  rw [hvals]
  simp only [Res.bind, pure, List.reverse_nil, List.nil_append]

end MsiProofs.PropSetCodec
