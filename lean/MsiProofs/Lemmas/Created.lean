import MsiProofs.Lemmas.FullHistory
/-
The state `Package::create` builds satisfies every invariant (non-vacuity of the invariants, and
the base case of "every package made with the library reopens as it was").
-/
namespace MsiProofs.Created
open MsiModel MsiModel.Bytes MsiModel.Pkg MsiProofs.CatalogOpen MsiProofs.CatalogCodec MsiProofs.CatalogSync
open MsiProofs.GlobalInv MsiProofs.SortedInv MsiProofs.CatalogRows MsiProofs.Frame MsiProofs.Refine
open MsiProofs.SaveOpen MsiProofs.CreateTable MsiProofs.FullHistory

/-- the state `create` starts from: an empty container, a fresh pool, the two built-in tables -/
def base (ptype : Nat) (summary : PropSet) : Pkg :=
  ⟨ptype, [], summary, true, Pool.new summary.codepage,
    insertTable (insertTable [] (Catalog.tablesTable false)) (Catalog.columnsTable false), false⟩

theorem base_tables (ptype : Nat) (summary : PropSet) :
    (base ptype summary).tables = [Catalog.columnsTable false, Catalog.tablesTable false] := by
  show insertTable (insertTable [] (Catalog.tablesTable false)) (Catalog.columnsTable false) = _
  decide

theorem base_loads (ptype : Nat) (summary : PropSet) (t : Table) : (base ptype summary).loadRows t = .ok [] := rfl

theorem base_cells (ptype : Nat) (summary : PropSet) (ts : List Table) : cellsOfTables (base ptype summary) ts = [] := by
  unfold cellsOfTables
  induction ts with
  | nil => rfl
  | cons t rest ih =>
    simp only [List.map_cons, List.flatten_cons, ih, List.append_nil]
    rfl

theorem base_reads (ptype : Nat) (summary : PropSet) (X : Table) (Q : Table → List Value → Prop) :
    Reads (base ptype summary) X (fun v => ∃ t ∈ ([] : List Table), Q t v) :=
  ⟨[], rfl, fun v => by simp⟩

theorem base_core (ptype : Nat) (summary : PropSet) : Core (fun _ => 0) (base ptype summary) [] := by
  have hsep : MsiProofs.Synced.TablesSeparate (base ptype summary) := by
    intro t ht
    rw [base_tables] at ht
    simp only [List.mem_cons, List.mem_nil_iff, or_false] at ht
    rcases ht with rfl | rfl
    · exact (MsiProofs.Synced.catalog_separate false).2.1
    · exact (MsiProofs.Synced.catalog_separate false).1
  refine ⟨⟨?_, fun t _ => ⟨[], rfl⟩, ?_, ?_, ?_, ?_⟩, ?_, ?_, hsep, ?_, rfl, ?_, ?_, ?_, ?_, ?_, ?_, ?_⟩
  · rw [base_tables]; decide
  · rw [base_cells]; intro r hr; cases hr
  · rw [base_cells]; intro r _; rfl
  · show (0 : Nat) ≤ 65535; omega
  · intro t ht
    rw [base_tables] at ht
    simp only [List.mem_cons, List.mem_nil_iff, or_false] at ht
    rcases ht with rfl | rfl
    · exact ⟨rfl, rowSize_pos _ (by decide)⟩
    · exact ⟨rfl, rowSize_pos _ (by decide)⟩
  · intro t _ rows hl
    rw [base_loads] at hl
    cases hl
    simp [KeysAscending]
  · exact ⟨fun h => (by cases h), fun h => (by cases h)⟩
  · exact ⟨base_reads ptype summary _ _, base_reads ptype summary _ _, base_reads ptype summary _ _⟩
  · exact List.Pairwise.nil
  · exact List.nodup_nil
  · intro t ht; cases ht
  · intro t ht; cases ht
  · intro t ht; cases ht
  · intro t ht; cases ht
  · intro t ht; cases ht

theorem base_noOrphans (ptype : Nat) (summary : PropSet) : NoOrphans (base ptype summary) := by
  refine ⟨?_, ?_⟩
  · intro t ht
    rw [base_tables] at ht
    simp only [List.mem_cons, List.mem_nil_iff, or_false] at ht
    rcases ht with rfl | rfl
    · exact (catalog_valid false).1
    · exact (catalog_valid false).2
  · intro n _ _ hd
    exact absurd rfl hd

/-- **the package `create` builds** (before its first flush) satisfies every invariant: the catalog
holds exactly the definition of `_Validation`, every count is exact, nothing is orphaned -/
theorem created_full (ptype : Nat) (summary : PropSet) (s1 : Pkg)
    (h : createTable (base ptype summary) Gen.nameValidation.toList Catalog.validationColumns = (s1, .ok ())) :
    Full (fun _ => 0) s1 [Catalog.validationTable false] ∧ NoOrphans s1 := by
  obtain ⟨hc, hL, -⟩ := createTable_core (fun _ => 0) (base ptype summary) [] (base_core ptype summary)
    Gen.nameValidation.toList Catalog.validationColumns s1 h rfl (Or.inr ⟨rfl, rfl, rfl⟩)
  have hno := noOrphans_createTable (base ptype summary) (base_noOrphans ptype summary)
    Gen.nameValidation.toList Catalog.validationColumns
  rw [h] at hno
  refine ⟨⟨hc, ?_⟩, hno⟩
  rw [hL]
  exact List.mem_singleton.mpr rfl

end MsiProofs.Created
