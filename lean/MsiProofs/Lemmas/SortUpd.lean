import MsiProofs.Lemmas.GlobalInvUpd
/-
Key order through `Update::exec`: `sortByKey` is an insertion sort by key; together with the
duplicate check it leaves the rows in strictly ascending key order.
-/
namespace MsiProofs.SortUpd
open MsiModel MsiModel.Bytes MsiModel.Pkg MsiProofs.Order

/-- `b` does not come before `a` -/
def Le (keys : List (List Value)) (a b : Nat) : Prop := keyLt (keys.getD b []) (keys.getD a []) = false

theorem insByKey_sorted (keys : List (List Value)) (x : Nat) (l : List Nat) (h : l.Pairwise (Le keys)) :
    (insByKey keys x l).Pairwise (Le keys) := by
  induction l with
  | nil => simp [insByKey]
  | cons y ys ih =>
    obtain ⟨h1, h2⟩ := List.pairwise_cons.mp h
    simp only [insByKey]
    split
    · rename_i hlt
      apply List.pairwise_cons.mpr
      refine ⟨?_, h⟩
      intro z hz
      simp only [List.mem_cons] at hz
      rcases hz with rfl | hz
      · exact keyLt_asymm hlt
      · -- x < y and ¬ (z < y): z < x would give z < y
        unfold Le
        cases hzx : keyLt (keys.getD z []) (keys.getD x []) with
        | false => rfl
        | true =>
          have := keyLt_trans hzx hlt
          have hyz := h1 z hz
          unfold Le at hyz
          rw [this] at hyz; cases hyz
    · rename_i hnlt
      apply List.pairwise_cons.mpr
      refine ⟨?_, ih h2⟩
      intro z hz
      have hperm : (insByKey keys x ys).Perm (x :: ys) := by
        clear ih h h1 h2 hz
        induction ys with
        | nil => exact List.Perm.refl _
        | cons w ws ihw =>
          simp only [insByKey]
          split
          · exact List.Perm.refl _
          · exact (ihw.cons w).trans (List.Perm.swap _ _ _)
      have := hperm.mem_iff.mp hz
      simp only [List.mem_cons] at this
      rcases this with rfl | hzy
      · unfold Le; simpa using hnlt
      · exact h1 z hzy

theorem sortByKey_sorted (keys : List (List Value)) (order : List Nat) :
    (sortByKey keys order).Pairwise (Le keys) := by
  unfold sortByKey
  generalize order.reverse = l
  have : ∀ (acc : List Nat), acc.Pairwise (Le keys) →
      (l.foldl (fun acc x => insByKey keys x acc) acc).Pairwise (Le keys) := by
    induction l with
    | nil => intro acc h; exact h
    | cons x xs ih => intro acc h; exact ih _ (insByKey_sorted keys x acc h)
  exact this [] List.Pairwise.nil

/-- sorted, and no two neighbours with the same key: strictly ascending -/
theorem strict_of_sorted_nodup (keys : List (List Value)) (l : List Nat) (hs : l.Pairwise (Le keys))
    (hd : ((l.zip (l.drop 1)).any fun x =>
      !keyLt (keys.getD x.1 []) (keys.getD x.2 []) && !keyLt (keys.getD x.2 []) (keys.getD x.1 [])) = false) :
    l.Pairwise fun a b => keyLt (keys.getD a []) (keys.getD b []) = true := by
  induction l with
  | nil => exact List.Pairwise.nil
  | cons a rest ih =>
    obtain ⟨h1, h2⟩ := List.pairwise_cons.mp hs
    cases rest with
    | nil => simp
    | cons b rest' =>
      simp only [List.drop_succ_cons, List.drop_zero, List.zip_cons_cons, List.any_cons, Bool.or_eq_false_iff] at hd
      obtain ⟨hab, hrest⟩ := hd
      have hablt : keyLt (keys.getD a []) (keys.getD b []) = true := by
        have hba : keyLt (keys.getD b []) (keys.getD a []) = false := h1 b (by simp)
        cases hlt : keyLt (keys.getD a []) (keys.getD b []) with
        | true => rfl
        | false =>
          simp only [List.getD_eq_getElem?_getD] at hlt hba
          simp [hlt, hba] at hab
      have ihr := ih h2 (by simpa using hrest)
      apply List.pairwise_cons.mpr
      refine ⟨?_, ihr⟩
      intro z hz
      simp only [List.mem_cons] at hz
      rcases hz with rfl | hz
      · exact hablt
      · have hbz := (List.pairwise_cons.mp ihr).1 z hz
        exact keyLt_trans hablt hbz


open MsiProofs.RefineUpdate MsiProofs.Refine MsiProofs.RefineDelete MsiProofs.RefineExact MsiProofs.GlobalInv
open MsiProofs.SortedInv MsiProofs.RowsOk MsiProofs.SaveOpen

/-- the plan's values are the assignments applied to the planned rows -/
theorem updPlan_applyPlan (t : Table) (p : Pool) (cond : Option Ast) (ups : List (Nat × Value))
    (rows : List (List Cell)) : ∀ (acc planned : List (List Value × Bool)),
    updPlan t p cond ups rows acc = .ok planned →
    ∃ tail, planned = acc.reverse ++ tail ∧ tail.length = rows.length ∧
      applyPlan ups (rows.map (rowValues p)) tail = tail.map (·.1) := by
  induction rows with
  | nil =>
    intro acc planned h
    simp only [updPlan, pure, Res.ok.injEq] at h
    exact ⟨[], by simp [h], rfl, rfl⟩
  | cons r rs ih =>
    intro acc planned h
    simp only [updPlan, bind, Res.bind] at h
    cases he : evalCond t p cond r with
    | ok m =>
      simp only [he] at h
      obtain ⟨tail, h1, h2, h3⟩ := ih _ planned h
      refine ⟨((if m = true then List.foldl (fun vs x => vs.set x.fst x.snd) (rowValues p r) ups else rowValues p r), m) :: tail,
        by rw [h1]; simp, by simp [h2], ?_⟩
      simp only [List.map_cons, applyPlan]
      rw [h3]
      cases m <;> simp [applyUps]
    | err e => simp [he] at h
    | panic w => simp [he] at h

theorem getD_set_ne {α} (l : List α) (i j : Nat) (v d : α) (h : i ≠ j) : (l.set i v).getD j d = l.getD j d := by
  simp [List.getD, List.getElem?_set_ne h]

/-- assignments that touch no key column leave the key as it is -/
theorem keyOf_applyUps (keyIdx : List Nat) (ups : List (Nat × Value)) (h : ∀ x ∈ ups, x.1 ∉ keyIdx) :
    ∀ (vals : List Value), keyOf keyIdx (applyUps ups vals) = keyOf keyIdx vals := by
  induction ups with
  | nil => intro vals; rfl
  | cons u rest ih =>
    intro vals
    simp only [applyUps, List.foldl_cons]
    have := ih (fun x hx => h x (by simp [hx])) (vals.set u.1 u.2)
    simp only [applyUps] at this
    rw [this]
    unfold keyOf
    apply List.map_congr_left
    intro j hj
    exact getD_set_ne vals u.1 j u.2 .null (fun e => h u (by simp) (e ▸ hj))


/-- the key of each planned row -/
def planKeys (t : Table) (planned : List (List Value × Bool)) : List (List Value) :=
  planned.map fun x => keyOf t.keyIndices x.1
/-- does an assignment touch a key column? -/
def touchesKeys (t : Table) (ups : List (Nat × Value)) : Bool := ups.any fun x => t.keyIndices.contains x.1
/-- the order in which `Update::exec` writes the rows back -/
def writeOrder (t : Table) (ups : List (Nat × Value)) (planned : List (List Value × Bool)) (n : Nat) : List Nat :=
  if touchesKeys t ups then sortByKey (planKeys t planned) (List.range n) else List.range n

theorem upd_tail_dup (s : Pkg) (t : Table) (ups : List (Nat × Value)) (rows : List (List Cell))
    (planned : List (List Value × Bool)) (dup : Bool) (order : List Nat) (s' : Pkg)
    (h : (if dup = true then (s, Res.err ErrKind.alreadyExists) else
      match updApply ups s.pool rows planned [] with
      | .err k => (s, .err k)
      | .panic w => (s, .panic w)
      | .ok (pool', rows') => storeRows { s with pool := pool' } t (order.map fun i => rows'.getD i [])) = (s', .ok ())) :
    dup = false := by
  cases dup with
  | true => simp only [if_true] at h; cases (Prod.mk.inj h).2
  | false => rfl

/-- a successful `Update::exec`, with the order it wrote the rows in and the duplicate check it passed -/
theorem updateExec_ok_inv2 (s : Pkg) (tname : List Char) (updates : List (List Char × Value)) (cond : Option Ast)
    (s' : Pkg) (h : updateExec s tname updates cond = (s', .ok ()))
    (t : Table) (ht : s.findTable tname = some t) (rows : List (List Cell)) (hl : s.loadRows t = .ok rows) :
    ∃ (planned : List (List Value × Bool)) (pool' : Pool) (rows' : List (List Cell)) (bs : Bytes),
      updPlan t s.pool cond (upsOf t updates) rows [] = .ok planned ∧
      updApply (upsOf t updates) s.pool rows planned [] = .ok (pool', rows') ∧
      (touchesKeys t (upsOf t updates) &&
        ((writeOrder t (upsOf t updates) planned rows.length).zip
          ((writeOrder t (upsOf t updates) planned rows.length).drop 1)).any fun x =>
          !keyLt ((planKeys t planned).getD x.1 []) ((planKeys t planned).getD x.2 []) &&
          !keyLt ((planKeys t planned).getD x.2 []) ((planKeys t planned).getD x.1 [])) = false ∧
      t.writeRows ((writeOrder t (upsOf t updates) planned rows.length).map fun i => rows'.getD i []) = .ok bs ∧
      s' = { s with pool := pool', cont := Cont.put s.cont t.streamName bs } := by
  unfold updateExec at h
  simp only [ht] at h
  cases hv : validateUpdates t updates with
  | some k => simp only [hv] at h; cases (Prod.mk.inj h).2
  | none =>
    simp only [hv] at h
    by_cases hm : condMissing t cond = true
    · rw [if_pos hm] at h; cases (Prod.mk.inj h).2
    rw [if_neg hm] at h
    simp only [hl] at h
    cases hp : updPlan t s.pool cond
        (List.filterMap (fun x => Option.map (fun i => (i, storable x.snd)) (t.indexOfColumn x.fst)) updates) rows [] with
    | err k => simp only [hp] at h; cases (Prod.mk.inj h).2
    | panic w => simp only [hp] at h; cases (Prod.mk.inj h).2
    | ok planned =>
      simp only [hp] at h
      have hdup := upd_tail_dup s t _ rows planned _ _ s' h
      obtain ⟨pool', rows', bs, h1, h2, h3⟩ := upd_tail_ok_inv s t _ rows planned _ _ s' h
      exact ⟨planned, pool', rows', bs, hp, h1, hdup, h2, h3⟩


theorem validateOk (s : Pkg) (tname : List Char) (updates : List (List Char × Value)) (cond : Option Ast)
    (s' : Pkg) (h : updateExec s tname updates cond = (s', .ok ()))
    (t : Table) (ht : s.findTable tname = some t) (rows : List (List Cell)) (hl : s.loadRows t = .ok rows) :
    validateUpdates t updates = none := by
  obtain ⟨_, _, _, _, _, hv, _⟩ := updateExec_ok_inv s tname updates cond s' h t ht rows hl
  exact hv

theorem map_getD_map {α β} (l : List α) (f : α → β) (d : α) (order : List Nat) (h : ∀ i ∈ order, i < l.length) :
    order.map (fun i => f (l.getD i d)) = order.map (fun i => (l.map f).getD i (f d)) := by
  apply List.map_congr_left
  intro i hi
  have := h i hi
  simp [List.getD, this]

/-- **a successful update keeps every table in ascending key order** -/
theorem update_sorted (slack : Nat → Nat) (s : Pkg) (tname : List Char) (updates : List (List Char × Value))
    (cond : Option Ast) (s' : Pkg) (hI : Inv slack s) (hS : SortedAll s)
    (h : updateExec s tname updates cond = (s', .ok ())) : SortedAll s' := by
  cases hf : s.findTable tname with
  | none =>
    unfold updateExec at h
    simp only [hf] at h
    cases (Prod.mk.inj h).2
  | some t =>
    have htm := findTable_spec s tname t hf
    obtain ⟨existing, hl⟩ := hI.loads t htm
    obtain ⟨pre, post, hsplit⟩ := split_at_table s.tables t htm
    have hcells : cellsOfTables s s.tables =
        cellsOfTables s pre ++ existing.flatten ++ cellsOfTables s post := by
      rw [hsplit, cellsOfTables_split, rowsOf_ok hl]
    let others := cellsOfTables s pre ++ cellsOfTables s post
    have hperm : (cellsOfTables s s.tables).Perm (existing.flatten ++ others) := by
      rw [hcells]
      simp only [others, List.append_assoc]
      exact List.perm_append_comm_assoc _ _ _
    have hacc : AccountedWith slack s.pool (existing.flatten ++ others) := accountedWith_perm hperm hI.counts
    have hposAll : PosRefs (existing.flatten ++ others) := fun r hr => hI.pos r (hperm.mem_iff.mpr hr)
    obtain ⟨hlr, hrs⟩ := hI.widths t htm
    obtain ⟨planned0, rows0, final, hp0, hstored, -, -, -, -, hvo, hframe, htabs, -, -⟩ :=
      update_then_load slack s tname updates cond s' h t hf existing hl others hposAll hacc hI.sized hlr hrs
    obtain ⟨planned, pool', rows', bs, hp, hu, hdup, hw, hs'⟩ :=
      updateExec_ok_inv2 s tname updates cond s' h t hf existing hl
    intro x hx rws hrws
    rw [htabs] at hx
    by_cases hxt : key t.streamName = key x.streamName
    · have : x = t := (eq_of_same_stream s.tables hI.distinct htm hx hxt).symm
      subst this
      -- what was written, and that it is what the new state reads
      have hv := (validateOk s tname updates cond s' h x hf existing hl)
      obtain ⟨husok, hidx⟩ := upsOf_ok x updates hv
      have hwid := MsiProofs.C09.loadRows_width s x existing hl
      obtain ⟨news, h1, h2, h3, h4, h5, h6, h7⟩ := updApply_spec slack (upsOf x updates) x.columns.length hidx existing
        s.pool planned [] [] others pool' rows' hwid (by simpa using hposAll) (by simpa using hacc) hu
      simp only [List.reverse_nil, List.nil_append] at h1
      subst h1
      have hrok := MsiProofs.RefineLoad.loadRows_rowOk s x existing hl
      obtain ⟨hr1, -, -⟩ := updApply_rowOk x.columns (upsOf x updates) husok existing s.pool planned [] pool' rows' hI.sized
        (by rw [hlr]; exact hrok) (fun _ hx => by simp at hx) hu
      rw [hlr] at hr1
      have hordperm : (writeOrder x (upsOf x updates) planned existing.length).Perm (List.range rows'.length) := by
        rw [h2]
        unfold writeOrder
        split
        · exact MsiProofs.C05.sortByKey_perm _ _
        · exact List.Perm.refl _
      have hfperm := map_getD_perm rows' _ hordperm
      obtain ⟨bs2, hw2, hr2⟩ := write_read x _ (fun r hr => hr1 r (hfperm.mem_iff.mp hr)) hrs (by
        rw [hfperm.length_eq, h2]
        exact MsiProofs.RefineLoad.loadRows_length s x existing hl)
      rw [hw] at hw2
      cases hw2
      have hload : s'.loadRows x = .ok ((writeOrder x (upsOf x updates) planned existing.length).map fun i => rows'.getD i []) := by
        rw [hs', MsiProofs.RefineLoad.loadRows_of_data _ x bs (dataOf_put_same _ _ _)]
        exact hr2
      rw [hload] at hrws
      cases hrws
      -- the keys of the rows written are the planned keys, in the order written
      obtain ⟨tail, ht1, ht2, ht3⟩ := updPlan_applyPlan x s.pool cond (upsOf x updates) existing [] planned hp
      simp only [List.reverse_nil, List.nil_append] at ht1
      subst ht1
      have hvals : rows'.map (rowValues pool') = planned.map (·.1) := by rw [h7, ht3]
      have hpool : s'.pool = pool' := by rw [hs']
      have hkeys : ∀ i, i < rows'.length →
          keyOf x.keyIndices (rowValues pool' (rows'.getD i [])) = (planKeys x planned).getD i [] := by
        intro i hi
        have h8 : (rows'.map (rowValues pool'))[i]? = (planned.map (·.1))[i]? := by rw [hvals]
        have hi2 : i < planned.length := by rw [ht2, ← h2]; exact hi
        simp only [List.getElem?_map, List.getElem?_eq_getElem hi, List.getElem?_eq_getElem hi2,
          Option.map_some, Option.some.injEq] at h8
        unfold planKeys
        simp only [List.getD, List.getElem?_map, List.getElem?_eq_getElem hi, List.getElem?_eq_getElem hi2,
          Option.map_some, Option.getD_some]
        rw [h8]
      unfold KeysAscending
      rw [hpool, List.map_map]
      have hmapeq : (writeOrder x (upsOf x updates) planned existing.length).map
            ((fun cells => keyOf x.keyIndices (rowValues pool' cells)) ∘ fun i => rows'.getD i []) =
          (writeOrder x (upsOf x updates) planned existing.length).map fun i => (planKeys x planned).getD i [] := by
        apply List.map_congr_left
        intro i hi
        have : i < rows'.length := by
          have := hordperm.mem_iff.mp hi
          simpa using this
        exact hkeys i this
      rw [hmapeq]
      by_cases htk : touchesKeys x (upsOf x updates) = true
      · -- re-sorted by key, and the duplicate check passed
        simp only [htk, Bool.true_and] at hdup
        have hord : writeOrder x (upsOf x updates) planned existing.length =
            sortByKey (planKeys x planned) (List.range existing.length) := by unfold writeOrder; rw [if_pos htk]
        rw [hord] at hdup ⊢
        have := strict_of_sorted_nodup (planKeys x planned) _ (sortByKey_sorted _ _) hdup
        rw [List.pairwise_map]
        exact this
      · -- no key column assigned: the stored order is kept and so are the keys
        have hord : writeOrder x (upsOf x updates) planned existing.length = List.range existing.length := by
          unfold writeOrder; rw [if_neg htk]
        rw [hord]
        have hnot : ∀ u ∈ upsOf x updates, u.1 ∉ x.keyIndices := by
          intro u hu hin
          apply htk
          unfold touchesKeys
          exact List.any_eq_true.mpr ⟨u, hu, by simpa using hin⟩
        have hold := hS x htm existing hl
        unfold KeysAscending at hold
        have hkeq : (List.range existing.length).map (fun i => (planKeys x planned).getD i []) =
            existing.map fun cells => keyOf x.keyIndices (rowValues s.pool cells) := by
          apply List.ext_getElem
          · simp
          · intro i hi1 hi2
            simp only [List.length_map, List.length_range] at hi1
            have hi3 : i < planned.length := by rw [ht2]; exact hi1
            simp only [List.getElem_map, List.getElem_range, planKeys, List.getD, List.getElem?_map,
              List.getElem?_eq_getElem hi3, Option.map_some, Option.getD_some]
            -- the planned values of row `i`
            have h9 : (applyPlan (upsOf x updates) (existing.map (rowValues s.pool)) planned)[i]? =
                (planned.map (·.1))[i]? := by rw [ht3]
            have hgen : ∀ (vs : List (List Value)) (pl : List (List Value × Bool)) (j : Nat) (hj : j < vs.length)
                (hj2 : j < pl.length),
                keyOf x.keyIndices ((applyPlan (upsOf x updates) vs pl).getD j []) = keyOf x.keyIndices vs[j] := by
              intro vs
              induction vs with
              | nil => intro pl j hj; simp at hj
              | cons v vs' ihv =>
                intro pl j hj hj2
                cases pl with
                | nil => simp at hj2
                | cons e pl' =>
                  obtain ⟨a, m⟩ := e
                  cases j with
                  | zero =>
                    simp only [applyPlan, List.getD_cons_zero, List.getElem_cons_zero]
                    cases m
                    · rfl
                    · exact keyOf_applyUps x.keyIndices (upsOf x updates) hnot v
                  | succ j' =>
                    simp only [applyPlan, List.getD_cons_succ, List.getElem_cons_succ]
                    exact ihv pl' j' (by simpa using hj) (by simpa using hj2)
            have h10 := hgen (existing.map (rowValues s.pool)) planned i (by simpa using hi1) hi3
            rw [ht3] at h10
            simp only [List.getD, List.getElem?_map, List.getElem?_eq_getElem hi3, Option.map_some,
              Option.getD_some, List.getElem_map] at h10
            exact h10
        rw [hkeq]; exact hold
    · have hsame : s'.loadRows x = s.loadRows x := loadRows_congr s s' x (hframe _ hxt)
      rw [hsame] at hrws
      refine keysAscending_congr ?_ (hS x hx rws hrws)
      intro r hr
      unfold rowValues
      apply List.map_congr_left
      intro c hc
      apply hvo c
      have hxo : x ∈ pre ∨ x ∈ post := by
        rw [hsplit] at hx
        simp only [List.mem_append, List.mem_cons] at hx
        rcases hx with h1 | h1 | h1
        · exact Or.inl h1
        · exact absurd (by rw [h1]) hxt
        · exact Or.inr h1
      simp only [others, List.mem_append]
      rcases hxo with h1 | h1
      · exact Or.inl (mem_cellsOfTables h1 hrws hr hc)
      · exact Or.inr (mem_cellsOfTables h1 hrws hr hc)


/-- **every history of inserts, updates and deletes, on any tables, accepted or refused, keeps the
package invariant and keeps every table's keys unique and ascending** -/
theorem history_sorted (slack : Nat → Nat) (ops : List MsiProofs.GlobalInvUpd.Op) : ∀ (s : Pkg),
    Inv slack s → SortedAll s →
    Inv slack (ops.foldl MsiProofs.GlobalInvUpd.Op.run s) ∧ SortedAll (ops.foldl MsiProofs.GlobalInvUpd.Op.run s) := by
  induction ops with
  | nil => intro s h1 h2; exact ⟨h1, h2⟩
  | cons op ops ih =>
    intro s h1 h2
    refine ih _ (MsiProofs.GlobalInvUpd.op_inv slack s op h1) ?_
    cases op with
    | insert t rows =>
      by_cases hr : (insertExec s t rows).2 = .ok ()
      · exact insert_sorted slack s t rows _ h1 h2 (by rw [← hr]; rfl)
      · show SortedAll (insertExec s t rows).1
        rw [insert_refused_noop slack s t rows h1 hr]; exact h2
    | delete t cond =>
      by_cases hr : (deleteExec s t cond).2 = .ok ()
      · exact delete_sorted slack s t cond _ h1 h2 (by rw [← hr]; rfl)
      · show SortedAll (deleteExec s t cond).1
        rw [delete_refused_noop slack s t cond h1 hr]; exact h2
    | update t ups cond =>
      by_cases hr : (updateExec s t ups cond).2 = .ok ()
      · exact update_sorted slack s t ups cond _ h1 h2 (by rw [← hr]; rfl)
      · show SortedAll (updateExec s t ups cond).1
        rw [MsiProofs.GlobalInvUpd.update_refused_noop slack s t ups cond h1 hr]; exact h2

end MsiProofs.SortUpd
