import MsiProofs.Lemmas.CreateAtomic
import MsiProofs.Lemmas.DropTotal
/-
The life of a package with NO restriction on `create_table` beyond "it does not hit the capacity
panic" and with no restriction at all on `drop_table`: since `create_table` is atomic (`createTable_atomic`), a call that passes the up-front
checks and is then refused has changed nothing but the pending-finisher flag, so the histories the
lifecycle theorem covers now include every `create_table` call that returns — accepted, refused up
front, or refused by the row bound of the catalog.
-/
namespace MsiProofs.Lifecycle2
open MsiModel MsiModel.Bytes MsiModel.Pkg MsiProofs.GlobalInv MsiProofs.SortedInv MsiProofs.Frame
open MsiProofs.SaveOpen MsiProofs.CreateTable MsiProofs.FullHistory MsiProofs.Created MsiProofs.Lifecycle
open MsiProofs.ValidCells MsiProofs.RelationalLife MsiProofs.CreateAtomic MsiProofs.Relational

/-- as `Step.Admissible`, but any `create_table` call that does not panic and ANY `drop_table` call
are covered -/
def AdmissibleW1 (s : Pkg) : Step → Prop
  | .create n c => ∀ w, (createTable s n c).2 ≠ .panic w
  | .drop _ => True
  | st => st.Admissible s

def AdmissibleW : Pkg → List Step → Prop
  | _, [] => True
  | s, st :: rest => AdmissibleW1 s st ∧ AdmissibleW (st.run s) rest

theorem valid_setFinisher (s : Pkg) (b : Bool) (h : ValidAll s) : ValidAll { s with finisher := b } := h

/-- **one call keeps every invariant and every cell valid** -/
theorem step_all (slack : Nat → Nat) (s : Pkg) (tabs : List Table) (hF : Full slack s tabs) (hN : NoOrphans s)
    (hV : ValidAll s) (st : Step) (ha : AdmissibleW1 s st) :
    ∃ tabs', Full slack (st.run s) tabs' ∧ NoOrphans (st.run s) ∧ ValidAll (st.run s) := by
  have old : st.Admissible s → ∃ tabs', Full slack (st.run s) tabs' ∧ NoOrphans (st.run s) ∧ ValidAll (st.run s) := by
    intro h
    obtain ⟨tabs', h1, h2⟩ := step_full slack s tabs hF hN st h
    exact ⟨tabs', h1, h2, step_valid slack s tabs hF hN hV st h⟩
  cases st with
  | create n c =>
    cases hce : createError s n c with
    | some k => exact old (Or.inl (by rw [hce]; exact fun e => by cases e))
    | none =>
      rcases createTable_atomic slack s tabs hF hN hV n c hce with hok | ⟨w, hw⟩ | ⟨-, hst⟩
      · exact old (Or.inr hok)
      · exact absurd hw (ha w)
      · show ∃ tabs', Full slack (createTable s n c).1 tabs' ∧ NoOrphans (createTable s n c).1 ∧
          ValidAll (createTable s n c).1
        rw [hst]; exact ⟨tabs, hF, hN, hV⟩
  | dml op => exact old ha
  | drop n =>
    -- refused by the checks on the name, or accepted: `drop_table` cannot fail midway
    apply old
    by_cases hres : Catalog.isReserved n = true
    · exact Or.inl (Or.inl hres)
    by_cases hvn : Table.isValidName n = true
    · cases hf : s.findTable n with
      | none => exact Or.inl (Or.inr (Or.inr hf))
      | some t => exact Or.inr (MsiProofs.DropTotal.dropTable_total slack s tabs hF n (by simpa using hres) hvn t hf)
    · exact Or.inl (Or.inr (Or.inl (by simpa using hvn)))
  | writeStream n d => exact old ha
  | removeStream n => exact old ha
  | removeSignature => exact old ha
  | setSummary f => exact old ha
  | setCodepage cp => exact old ha
  | save => exact old ha
  | reopen => exact old ha

/-- **every reachable state satisfies every invariant** -/
theorem history_all (slack : Nat → Nat) (steps : List Step) : ∀ (s : Pkg) (tabs : List Table),
    Full slack s tabs → NoOrphans s → ValidAll s → AdmissibleW s steps →
    ∃ tabs', Full slack (runAll s steps) tabs' ∧ NoOrphans (runAll s steps) ∧ ValidAll (runAll s steps) := by
  induction steps with
  | nil => intro s tabs hF hN hV _; exact ⟨tabs, hF, hN, hV⟩
  | cons st rest ih =>
    intro s tabs hF hN hV ha
    obtain ⟨tabs', hF', hN', hV'⟩ := step_all slack s tabs hF hN hV st ha.1
    exact ih _ tabs' hF' hN' hV' ha.2

/-- **a package made with the library reopens as it was — every `create_table` call that returns is
covered**: from the state `create` builds, after any sequence of calls (statements accepted or
refused; `create_table` accepted, refused up front or refused at the catalog's row bound;
`drop_table`; streams; signature; summary; code page; saves; close-and-reopen) and a successful
save of a state expressible in the format, `open` on the saved container yields a package with
the same container, summary, string pool and table definitions, every table reading the same rows -/
theorem created_reopens_all (ptype : Nat) (summary : PropSet) (s0 : Pkg)
    (hc : createTable (base ptype summary) Gen.nameValidation.toList Catalog.validationColumns = (s0, .ok ()))
    (steps : List Step) (ha : AdmissibleW s0 steps)
    (E : List Char → Bytes) (hsav : Savable (runAll s0 steps) E)
    (s1 : Pkg) (hf : finish (runAll s0 steps) = (s1, .ok ())) :
    ∃ s2, open_ (some s1.ptype) s1.cont = .ok s2 ∧
      s2.cont = s1.cont ∧ s2.summary = s1.summary ∧ s2.pool = s1.pool ∧ s2.tables = s1.tables ∧
      (∀ t, s2.loadRows t = s1.loadRows t) := by
  obtain ⟨hF0, hN0⟩ := created_full ptype summary s0 hc
  obtain ⟨tabs, hF, -, -⟩ := history_all _ steps s0 _ hF0 hN0 (created_valid ptype summary s0 hc) ha
  have h := full_allInv _ _ tabs hF
  obtain ⟨hsaved, -, -⟩ := MsiProofs.Synced.finish_step _ s1 E h.metaSync h.sep hsav hf
  have hcat := MsiProofs.CatalogSync.finish_catalogSynced _ s1 tabs h.cat hf
  obtain ⟨s2, ho, hc', hs, hp, ht⟩ := MsiProofs.CatalogSync.reopen_same_tables s1 tabs hsaved hcat
  exact ⟨s2, ho, hc', hs, hp, ht, fun t => rows_same_after_reopen s1 s2 hc' t⟩

/-- **a rejected `create_table` changes nothing observable** (property C04, including the failures
discovered late): in every state with the invariants, a `create_table` call that returns an error
leaves the package exactly as it was: table list, rows, container, summary, even the pending flags -/
theorem createTable_rejected_view (slack : Nat → Nat) (s : Pkg) (tabs : List Table) (hF : Full slack s tabs)
    (hN : NoOrphans s) (hV : ValidAll s) (name : List Char) (cols : List Column) (k : ErrKind)
    (h : (createTable s name cols).2 = .err k) :
    (createTable s name cols).1 = s := by
  cases hce : createError s name cols with
  | some k' =>
    unfold createTable; rw [hce]
  | none =>
    rcases createTable_atomic slack s tabs hF hN hV name cols hce with hok | ⟨w, hw⟩ | ⟨-, hst⟩
    · rw [hok] at h; cases h
    · rw [hw] at h; cases h
    · exact hst

end MsiProofs.Lifecycle2
