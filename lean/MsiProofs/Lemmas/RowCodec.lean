import MsiProofs.Lemmas.Codec
/-
The row block codec: `write_rows` writes a whole number of column-major rows of the widths
the column types dictate, and `read_rows` reads exactly those rows back.
-/
namespace MsiProofs.RowCodec
open MsiModel MsiModel.Bytes MsiProofs.Codec

/-- cell `i` of every row -/
def colCells (i : Nat) (rows : List (List Cell)) : List Cell := rows.map fun r => r.getD i .null

/-- every row has a cell at `i`, storable in a column of type `ty` -/
def ColOk (long : Bool) (ty : ColType) (i : Nat) (rows : List (List Cell)) : Prop :=
  ∀ r ∈ rows, ∃ c, r[i]? = some c ∧ Storable long ty c

/-- one column is written as the concatenation of its cells' codes, each `width` bytes long -/
theorem writeCol_spec (long : Bool) (ty : ColType) (i : Nat) (rows : List (List Cell)) (acc : Bytes)
    (h : ColOk long ty i rows) :
    ∃ bs, Table.writeCol long ty i rows acc = .ok (acc ++ bs) ∧ bs.length = rows.length * ty.width long ∧
      ∀ (partialRows : List (List Cell)) (rest : Bytes) (racc : List (List Cell)),
        partialRows.length = rows.length →
        Table.readColumn long ty partialRows (bs ++ rest) racc =
          .ok (racc.reverse ++ List.zipWith (fun p c => p ++ [c]) partialRows (colCells i rows), rest) := by
  induction rows generalizing acc with
  | nil =>
    refine ⟨[], by simp [Table.writeCol, pure], by simp, ?_⟩
    intro pr rest racc hlen
    have : pr = [] := List.eq_nil_of_length_eq_zero (by simpa using hlen)
    subst this
    simp [Table.readColumn, colCells, pure]
  | cons r rest ih =>
    obtain ⟨c, hc, hs⟩ := h r (by simp)
    obtain ⟨cb, hw, hwl, hrd⟩ := cell_roundtrip long ty c hs []
    have hrest : ColOk long ty i rest := fun x hx => h x (by simp [hx])
    obtain ⟨bs, hbs, hlen, hread⟩ := ih (acc ++ cb) hrest
    refine ⟨cb ++ bs, ?_, ?_, ?_⟩
    · unfold Table.writeCol
      simp only [hc, hw, bind, Res.bind]
      rw [hbs, List.append_assoc]
    · simp only [List.length_append, List.length_cons, hwl, hlen]
      rw [Nat.add_mul, Nat.one_mul, Nat.add_comm]
    · intro pr rest' racc hpl
      cases pr with
      | nil => simp at hpl
      | cons p ps =>
        simp only [Table.readColumn, List.append_assoc]
        obtain ⟨cb', hw', _, hrd'⟩ := cell_roundtrip long ty c hs (bs ++ rest')
        have : cb' = cb := by rw [hw] at hw'; injection hw' with e; exact e.symm
        subst this
        rw [hrd']
        simp only [bind, Res.bind]
        rw [hread ps rest' ((p ++ [c]) :: racc) (by simpa using hpl)]
        simp only [colCells, List.map_cons, List.zipWith_cons_cons, List.reverse_cons, List.append_assoc,
          List.singleton_append]
        have : r.getD i Cell.null = c := by simp [List.getD, hc]
        rw [this]

/-- the columns of a table from index `k` on are well-formed for the rows -/
def ColsOk (long : Bool) (rows : List (List Cell)) : List Column → Nat → Prop
  | [], _ => True
  | c :: cs, k => ColOk long c.coltype k rows ∧ ColsOk long rows cs (k + 1)

/-- first `k` cells of every row -/
def prefixes (k : Nat) (rows : List (List Cell)) : List (List Cell) := rows.map (·.take k)

theorem zip_prefix (k : Nat) (rows : List (List Cell)) (h : ∀ r ∈ rows, k < r.length) :
    List.zipWith (fun p c => p ++ [c]) (prefixes k rows) (colCells k rows) = prefixes (k + 1) rows := by
  induction rows with
  | nil => rfl
  | cons r rest ih =>
    simp only [prefixes, colCells, List.map_cons, List.zipWith_cons_cons]
    have hk := h r (by simp)
    have e : List.take k r ++ [r.getD k Cell.null] = List.take (k + 1) r := by
      rw [List.take_succ]
      simp [List.getD, List.getElem?_eq_getElem hk]
    rw [e]
    have := ih (fun x hx => h x (by simp [hx]))
    simp only [prefixes, colCells] at this
    rw [this]

theorem colOk_lt {long ty k rows} (h : ColOk long ty k rows) : ∀ r ∈ rows, k < r.length := by
  intro r hr
  obtain ⟨c, hc, _⟩ := h r hr
  rcases Nat.lt_or_ge k r.length with hlt | hge
  · exact hlt
  · have : r[k]? = none := List.getElem?_eq_none hge
    rw [this] at hc; cases hc

/-- all columns from `k` on: written column after column, read back column after column -/
theorem writeCols_spec (long : Bool) (rows : List (List Cell)) (cols : List Column) (k : Nat) (acc : Bytes)
    (h : ColsOk long rows cols k) :
    ∃ bs, Table.writeCols long rows cols k acc = .ok (acc ++ bs) ∧
      bs.length = rows.length * (cols.map fun c => c.coltype.width long).sum ∧
      ∀ rest, Table.readCols long cols (prefixes k rows) (bs ++ rest) = .ok (prefixes (k + cols.length) rows) := by
  induction cols generalizing k acc with
  | nil =>
    refine ⟨[], by simp [Table.writeCols, pure], by simp, ?_⟩
    intro rest; simp [Table.readCols, pure]
  | cons c cs ih =>
    obtain ⟨hc, hcs⟩ := h
    obtain ⟨b1, hw1, hl1, hr1⟩ := writeCol_spec long c.coltype k rows acc hc
    obtain ⟨b2, hw2, hl2, hr2⟩ := ih (k + 1) (acc ++ b1) hcs
    refine ⟨b1 ++ b2, ?_, ?_, ?_⟩
    · unfold Table.writeCols
      simp only [hw1, bind, Res.bind]
      rw [hw2, List.append_assoc]
    · simp only [List.length_append, hl1, hl2, List.map_cons, List.sum_cons]
      rw [Nat.mul_add]
    · intro rest
      unfold Table.readCols
      rw [List.append_assoc, hr1 (prefixes k rows) (b2 ++ rest) [] (by simp [prefixes])]
      simp only [bind, Res.bind, List.reverse_nil, List.nil_append]
      rw [zip_prefix k rows (colOk_lt hc), hr2 rest]
      congr 2
      simp only [List.length_cons]; omega

theorem map_nil_replicate (l : List (List Cell)) :
    l.map (fun _ => ([] : List Cell)) = List.replicate l.length [] := by
  induction l with
  | nil => rfl
  | cons a b ih => simp [List.replicate_succ, ih]

/-- **row block round trip**: for every table and every list of at most 65,536 rows whose
cells fit their columns, the stream written holds exactly `rows × row size` bytes (a whole
number of rows) and reads back as the same rows -/
theorem rows_roundtrip (t : Table) (rows : List (List Cell))
    (harity : ∀ r ∈ rows, r.length = t.columns.length)
    (hcols : ColsOk t.longRefs rows t.columns 0)
    (hpos : 0 < t.rowSize) (hmax : rows.length ≤ Gen.maxTableRows) :
    ∃ bs, t.writeRows rows = .ok bs ∧ bs.length = rows.length * t.rowSize ∧ t.readRows bs = .ok rows := by
  obtain ⟨bs, hw, hl, hr⟩ := writeCols_spec t.longRefs rows t.columns 0 [] hcols
  refine ⟨bs, by simpa [Table.writeRows] using hw, by simpa [Table.rowSize] using hl, ?_⟩
  unfold Table.readRows
  have hlen : bs.length = rows.length * t.rowSize := by simpa [Table.rowSize] using hl
  have hn : bs.length / t.rowSize = rows.length := by
    rw [hlen]; exact Nat.mul_div_cancel _ hpos
  simp only [hpos, if_true, hn]
  have : ¬ rows.length > Gen.maxTableRows := by omega
  simp only [this, if_false]
  have h0 : prefixes 0 rows = List.replicate rows.length [] := by
    simp only [prefixes, List.take_zero]
    exact map_nil_replicate rows
  have := hr []
  simp only [List.append_nil, Nat.zero_add] at this
  rw [← h0, this]
  congr 1
  simp only [prefixes]
  conv => rhs; rw [← List.map_id rows]
  apply List.map_congr_left
  intro r hr
  rw [← harity r hr]
  simp

end MsiProofs.RowCodec
