import MsiModel.PkgApi
import MsiProofs.Lemmas.PoolCodec
import MsiProofs.Lemmas.PropSetCodec
/-
The save step and the open step, composed: the streams `finish` writes are the ones `open`
reads, and reading them gives the in-memory summary and string pool back.
-/
namespace MsiProofs.SaveOpen
open MsiModel MsiModel.Bytes MsiModel.Pkg MsiProofs.PoolCodec MsiProofs.PropSetCodec

/-! ### the container as a map under cfb's name comparison -/

/-- what cfb compares -/
def key (n : List Char) : Nat × List Char := (StreamName.utf16Len n, n.map Cont.upper)

theorem nameEq_iff (a b : List Char) : Cont.nameEq a b = true ↔ key a = key b := by
  unfold Cont.nameEq key
  simp [Prod.ext_iff]

theorem nameEq_refl (a : List Char) : Cont.nameEq a a = true := (nameEq_iff a a).mpr rfl

theorem nameEq_false_iff (a b : List Char) : Cont.nameEq a b = false ↔ key a ≠ key b := by
  rw [← Bool.not_eq_true, nameEq_iff]

/-- the data of the stream `n`, if any -/
def dataOf (c : List Entry) (n : List Char) : Option Bytes := (Cont.find c n).map (·.data)

theorem dataOf_append_singleton_of_none (c : List Entry) (n : List Char) (d : Bytes)
    (h : Cont.find c n = none) : dataOf (c ++ [⟨n, d⟩]) n = some d := by
  unfold dataOf Cont.find at *
  rw [List.find?_append, h]
  simp [nameEq_refl]

theorem find_map_same (c : List Entry) (n : List Char) (d : Bytes) (h : (Cont.find c n).isSome = true) :
    ((c.map fun e => if Cont.nameEq e.name n then { e with data := d } else e).find?
      (fun e => Cont.nameEq e.name n)).map (·.data) = some d := by
  induction c with
  | nil => simp [Cont.find] at h
  | cons e rest ih =>
    simp only [List.map_cons, List.find?_cons]
    by_cases he : Cont.nameEq e.name n = true
    · simp [he]
    · have hef : Cont.nameEq e.name n = false := by simpa using he
      simp only [hef, Bool.false_eq_true, if_false]
      apply ih
      simpa [Cont.find, List.find?_cons, hef] using h

/-- after `put`, the stream holds the data put -/
theorem dataOf_put_same (c : List Entry) (n : List Char) (d : Bytes) : dataOf (Cont.put c n d) n = some d := by
  unfold Cont.put Cont.exists_
  by_cases h : (Cont.find c n).isSome = true
  · simp only [h, if_true]
    exact find_map_same c n d h
  · simp only [h, Bool.false_eq_true, if_false]
    exact dataOf_append_singleton_of_none c n d (by simpa using h)

theorem find_map_other (c : List Entry) (n m : List Char) (d : Bytes) (hnm : key n ≠ key m) :
    ((c.map fun e => if Cont.nameEq e.name n then { e with data := d } else e).find?
      (fun e => Cont.nameEq e.name m)).map (·.data) = (c.find? (fun e => Cont.nameEq e.name m)).map (·.data) := by
  induction c with
  | nil => rfl
  | cons e rest ih =>
    simp only [List.map_cons, List.find?_cons]
    by_cases he : Cont.nameEq e.name n = true
    · have hk : key e.name = key n := (nameEq_iff _ _).mp he
      have hem : Cont.nameEq e.name m = false := (nameEq_false_iff _ _).mpr (hk ▸ hnm)
      simp only [he, if_true, hem]
      exact ih
    · have hef : Cont.nameEq e.name n = false := by simpa using he
      simp only [hef, Bool.false_eq_true, if_false]
      cases hm : Cont.nameEq e.name m
      · exact ih
      · rfl

/-- `put` leaves every other stream alone -/
theorem dataOf_put_other (c : List Entry) (n m : List Char) (d : Bytes) (hnm : key n ≠ key m) :
    dataOf (Cont.put c n d) m = dataOf c m := by
  unfold Cont.put Cont.exists_ dataOf Cont.find
  have hnmf : Cont.nameEq n m = false := (nameEq_false_iff n m).mpr hnm
  split
  · exact find_map_other c n m d hnm
  · rw [List.find?_append]
    cases List.find? (fun e => Cont.nameEq e.name m) c <;> simp [hnmf]

/-- the three metadata streams have different names -/
theorem meta_names_distinct :
    key sPool ≠ key sData ∧ key sPool ≠ key sSummary ∧ key sData ≠ key sSummary := by
  decide


theorem streamOf_of_dataOf {c : List Entry} {n : List Char} {d : Bytes} (h : dataOf c n = some d) :
    streamOf c n = .ok d := by
  unfold dataOf at h
  unfold streamOf
  cases hf : Cont.find c n with
  | none => simp [hf] at h
  | some e => simp only [hf, Option.map_some, Option.some.injEq] at h; simp [h, pure]

/-! ### what the finisher leaves in the container -/

/-- the metadata streams of the container decode to the in-memory summary and string pool -/
structure Saved (s : Pkg) : Prop where
  summary : ∃ sb, dataOf s.cont sSummary = some sb ∧ Summary.read sb = .ok s.summary
  pool : ∃ pb db, dataOf s.cont sPool = some pb ∧ dataOf s.cont sData = some db ∧ Pool.read pb db = .ok s.pool

/-- what must hold of the in-memory state for a save to be readable: the summary is a
well-formed property set with the summary format id; the pool is expressible in the format
(`PoolOk`: in particular no live empty string) -/
structure Savable (s : Pkg) (E : List Char → Bytes) : Prop where
  summary : WF s.summary
  fmtid : s.summary.fmtid = Gen.summaryFmtid
  pool : PoolOk s.pool E

/-- **save, then read**: after a successful `finish` with both parts pending, the streams in
the container decode to the in-memory summary and pool, and nothing is pending -/
theorem finish_saved (s s' : Pkg) (E : List Char → Bytes) (hs : Savable s E)
    (hsm : s.summaryModified = true) (hpm : s.pool.modified = true)
    (h : finish s = (s', .ok ())) :
    Saved s' ∧ s'.summary = s.summary ∧ s'.pool = { s.pool with modified := false } ∧
    s'.summaryModified = false := by
  obtain ⟨sb, hsw, hsr⟩ := propset_roundtrip s.summary hs.summary
  obtain ⟨pb, db, hpw, hdw, hpr⟩ := pool_roundtrip s.pool E hs.pool
  unfold finish at h
  simp only [hsm, if_true, hsw, hpm, hpw, hdw] at h
  have h' := (Prod.mk.inj h).1
  subst h'
  refine ⟨⟨⟨sb, ?_, ?_⟩, ⟨pb, db, ?_, ?_, ?_⟩⟩, rfl, rfl, rfl⟩
  · show dataOf (Cont.put (Cont.put (Cont.put s.cont sSummary sb) sPool pb) sData db) sSummary = some sb
    rw [dataOf_put_other _ _ _ _ meta_names_distinct.2.2, dataOf_put_other _ _ _ _ meta_names_distinct.2.1,
      dataOf_put_same]
  · show Summary.read sb = .ok s.summary
    unfold Summary.read
    simp only [hsr, bind, Res.bind, hs.fmtid, ne_eq, not_true_eq_false, if_false, pure]
  · show dataOf (Cont.put (Cont.put (Cont.put s.cont sSummary sb) sPool pb) sData db) sPool = some pb
    rw [dataOf_put_other _ _ _ _ (Ne.symm meta_names_distinct.1), dataOf_put_same]
  · show dataOf (Cont.put (Cont.put (Cont.put s.cont sSummary sb) sPool pb) sData db) sData = some db
    rw [dataOf_put_same]
  · exact hpr

/-- the same when only one part is pending and the other is already in the container -/
theorem finish_saved_general (s s' : Pkg) (E : List Char → Bytes) (hs : Savable s E)
    (hsum : s.summaryModified = false → ∃ sb, dataOf s.cont sSummary = some sb ∧ Summary.read sb = .ok s.summary)
    (hpool : s.pool.modified = false →
      ∃ pb db, dataOf s.cont sPool = some pb ∧ dataOf s.cont sData = some db ∧ Pool.read pb db = .ok s.pool)
    (h : finish s = (s', .ok ())) :
    Saved s' ∧ s'.summary = s.summary ∧ s'.pool = { s.pool with modified := false } ∧
    s'.summaryModified = false := by
  obtain ⟨sb, hsw, hsr⟩ := propset_roundtrip s.summary hs.summary
  obtain ⟨pb, db, hpw, hdw, hpr⟩ := pool_roundtrip s.pool E hs.pool
  have hsread : Summary.read sb = .ok s.summary := by
    unfold Summary.read
    simp only [hsr, bind, Res.bind, hs.fmtid, ne_eq, not_true_eq_false, if_false, pure]
  unfold finish at h
  cases hsm : s.summaryModified <;> cases hpm : s.pool.modified
  · -- nothing pending
    simp only [hsm, hpm, Bool.false_eq_true, if_false] at h
    have h' := (Prod.mk.inj h).1
    subst h'
    obtain ⟨sb0, h1, h2⟩ := hsum hsm
    obtain ⟨pb0, db0, h3, h4, h5⟩ := hpool hpm
    refine ⟨⟨⟨sb0, h1, h2⟩, ⟨pb0, db0, h3, h4, h5⟩⟩, rfl, ?_, hsm⟩
    cases hp : s.pool; simp [hp] at hpm ⊢; exact hpm
  · -- pool only
    simp only [hsm, hpm, Bool.false_eq_true, if_false, if_true, hpw, hdw] at h
    have h' := (Prod.mk.inj h).1
    subst h'
    obtain ⟨sb0, h1, h2⟩ := hsum hsm
    refine ⟨⟨⟨sb0, ?_, h2⟩, ⟨pb, db, ?_, ?_, hpr⟩⟩, rfl, rfl, rfl⟩
    · show dataOf (Cont.put (Cont.put s.cont sPool pb) sData db) sSummary = some sb0
      rw [dataOf_put_other _ _ _ _ meta_names_distinct.2.2, dataOf_put_other _ _ _ _ meta_names_distinct.2.1, h1]
    · show dataOf (Cont.put (Cont.put s.cont sPool pb) sData db) sPool = some pb
      rw [dataOf_put_other _ _ _ _ (Ne.symm meta_names_distinct.1), dataOf_put_same]
    · show dataOf (Cont.put (Cont.put s.cont sPool pb) sData db) sData = some db
      rw [dataOf_put_same]
  · -- summary only
    simp only [hsm, hpm, Bool.false_eq_true, if_false, if_true, hsw] at h
    have h' := (Prod.mk.inj h).1
    subst h'
    obtain ⟨pb0, db0, h3, h4, h5⟩ := hpool hpm
    refine ⟨⟨⟨sb, ?_, hsread⟩, ⟨pb0, db0, ?_, ?_, h5⟩⟩, rfl, ?_, rfl⟩
    · show dataOf (Cont.put s.cont sSummary sb) sSummary = some sb
      rw [dataOf_put_same]
    · show dataOf (Cont.put s.cont sSummary sb) sPool = some pb0
      rw [dataOf_put_other _ _ _ _ (Ne.symm meta_names_distinct.2.1), h3]
    · show dataOf (Cont.put s.cont sSummary sb) sData = some db0
      rw [dataOf_put_other _ _ _ _ (Ne.symm meta_names_distinct.2.2), h4]
    · cases hp : s.pool; simp [hp] at hpm ⊢; exact hpm
  · exact finish_saved s s' E hs hsm hpm (by unfold finish; exact h)


/-! ### what `open` makes of a saved container -/

/-- `Pool.read` succeeding means the header checks `open` makes first succeed too -/
theorem pool_read_prechecks (pb db : Bytes) (p : Pool) (h : Pool.read pb db = .ok p) :
    ∃ hdr r, readU32 pb = .ok (hdr, r) ∧
      (∃ cp, CodePage.fromId ((hdr % Gen.longStringRefsBit : Nat) : Int) = some cp) ∧
      (∃ es, Pool.readEntries (r.length + 1) r [] = .ok es) := by
  unfold Pool.read at h
  cases h1 : readU32 pb with
  | err k => simp [h1, bind, Res.bind] at h
  | panic w => simp [h1, bind, Res.bind] at h
  | ok x =>
    obtain ⟨hdr, r⟩ := x
    simp only [h1, bind, Res.bind] at h
    cases h2 : CodePage.fromId ((hdr % Gen.longStringRefsBit : Nat) : Int) with
    | none => simp only [h2, Res.ofOption] at h; cases h
    | some cp =>
      simp only [h2, Res.ofOption] at h
      cases h3 : Pool.readEntries (r.length + 1) r [] with
      | err k => simp only [h3] at h; cases h
      | panic w => simp only [h3] at h; cases h
      | ok es => exact ⟨hdr, r, rfl, ⟨cp, h2⟩, ⟨es, h3⟩⟩

/-- **open after save**: on a container whose metadata streams are `Saved`, `open` reads back
exactly the in-memory summary and string pool; what remains is the catalog pass over the same
container with that pool -/
theorem openCore_of_saved (s : Pkg) (pt : Nat) (h : Saved s) :
    openCore (some pt) s.cont =
      (openTables pt s.cont s.summary s.pool).bind fun ts => .ok (pt, s.summary, s.pool, ts) := by
  obtain ⟨sb, hs1, hs2⟩ := h.summary
  obtain ⟨pb, db, hp1, hp2, hp3⟩ := h.pool
  obtain ⟨hdr, r, hr1, ⟨cp, hr2⟩, ⟨es, hr3⟩⟩ := pool_read_prechecks pb db s.pool hp3
  unfold openCore
  simp only [Res.ofOption, bind, Res.bind, streamOf_of_dataOf hs1, hs2, streamOf_of_dataOf hp1, hr1, hr2, hr3,
    streamOf_of_dataOf hp2, hp3, pure]

/-- hence the reopened package, when the catalog pass succeeds, has the same container, the same
summary and the same string pool as the package that was saved; only the table definitions are
re-derived (from the catalog tables in that container, with that pool) -/
theorem reopen_same_meta (s : Pkg) (h : Saved s) (s2 : Pkg) (ho : open_ (some s.ptype) s.cont = .ok s2) :
    s2.cont = s.cont ∧ s2.summary = s.summary ∧ s2.pool = s.pool ∧ s2.ptype = s.ptype ∧
    s2.summaryModified = false ∧ s2.finisher = false ∧
    openTables s.ptype s.cont s.summary s.pool = .ok s2.tables := by
  unfold open_ at ho
  rw [openCore_of_saved s s.ptype h] at ho
  cases ht : openTables s.ptype s.cont s.summary s.pool with
  | err k => simp [ht, Res.bind] at ho
  | panic w => simp [ht, Res.bind] at ho
  | ok ts =>
    simp only [ht, Res.bind, Res.ok.injEq] at ho
    subst ho
    exact ⟨rfl, rfl, rfl, rfl, rfl, rfl, rfl⟩

/-- rows are read from the container with the pool and the table's definition, so with the same
container and pool every table definition reads the same rows before and after reopening -/
theorem rows_same_after_reopen (s s2 : Pkg) (hc : s2.cont = s.cont) (t : Table) :
    s2.loadRows t = s.loadRows t := by
  unfold Pkg.loadRows; rw [hc]

end MsiProofs.SaveOpen
