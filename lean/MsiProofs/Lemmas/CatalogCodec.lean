import MsiModel.PkgApi
import MsiProofs.Props.C06
/-
The catalog rows of a column decode to that column: what `create_table` writes into `_Columns`
and `_Validation` for a storable column is what `open` builds the column from.
-/
namespace MsiProofs.CatalogCodec
open MsiModel MsiModel.Pkg

/-- every category's text form is read back as that category (regenerated tables) -/
theorem category_roundtrip : ∀ k ∈ Category.all, ∃ st, k.asStr = some st ∧
    Category.fromStr (String.ofList st.toList) = some k ∧ st.toList ≠ [] := by
  decide

theorem category_all_mem (k : Category) : k ∈ Category.all := by cases k <;> decide

/-- `split(';')` undoes `join(";")` when no part contains the separator -/
theorem splitOn_intercalate (sep : Char) (parts : List (List Char)) (hne : parts ≠ [])
    (h : ∀ p ∈ parts, sep ∉ p) : Category.splitOn sep (List.intercalate [sep] parts) = parts := by
  have single : ∀ p : List Char, sep ∉ p → ∀ rest : List Char,
      Category.splitOn sep (p ++ sep :: rest) = p :: Category.splitOn sep rest := by
    intro p
    induction p with
    | nil => intro _ rest; simp [Category.splitOn]
    | cons c cs ih =>
      intro hc rest
      have h1 : c ≠ sep := fun e => hc (by simp [e])
      have h2 : sep ∉ cs := fun e => hc (by simp [e])
      simp only [List.cons_append, Category.splitOn, h1, if_false]
      rw [ih h2 rest]
  have last : ∀ p : List Char, sep ∉ p → Category.splitOn sep p = [p] := by
    intro p
    induction p with
    | nil => intro _; rfl
    | cons c cs ih =>
      intro hc
      have h1 : c ≠ sep := fun e => hc (by simp [e])
      have h2 : sep ∉ cs := fun e => hc (by simp [e])
      simp only [Category.splitOn, h1, if_false, ih h2]
  induction parts with
  | nil => exact absurd rfl hne
  | cons p rest ih =>
    cases rest with
    | nil => simpa [List.intercalate] using last p (h p (by simp))
    | cons q rest' =>
      have : List.intercalate [sep] (p :: q :: rest') = p ++ sep :: List.intercalate [sep] (q :: rest') := by
        simp [List.intercalate]
      rw [this, single p (h p (by simp)), ih (by simp) (fun x hx => h x (by simp [hx]))]


/-- the `_Validation` row `create_table` writes for one column, as stored ("" is stored as null) -/
def valRow (tn : List Char) (c : Column) : List Value :=
  match catalogRowsValidation tn [c] with
  | [row] => row.map storable
  | _ => []

@[simp] theorem storable_null : storable .null = .null := rfl
@[simp] theorem storable_int (n : Int32) : storable (.int n) = .int n := rfl

theorem storable_str_ne (s : List Char) (h : s ≠ []) : storable (.str s) = .str s := by
  cases s with
  | nil => exact absurd rfl h
  | cons c cs => rfl

theorem typeOfBits_storable (c : Column) (hs : isStorable c = true) :
    match c.coltype with | .str n => n ≤ 255 | _ => True := by
  unfold isStorable at hs
  simp only [Bool.and_eq_true] at hs
  have h := hs.1
  cases hc : c.coltype with
  | int16 => trivial
  | int32 => trivial
  | str n =>
    rw [hc] at h
    have e : Gen.colFieldSizeMask = 255 := rfl
    simpa [e] using h

theorem enums_ok (c : Column) (hs : isStorable c = true) : ∀ v ∈ c.enumValues, v ≠ [] ∧ ';' ∉ v := by
  unfold isStorable at hs
  simp only [Bool.and_eq_true, Bool.not_eq_true', List.any_eq_false, Bool.or_eq_true, not_or,
    Bool.not_eq_true] at hs
  intro v hv
  have := hs.2 v hv
  constructor
  · intro e; subst e; simp at this
  · intro hm; simp [hm] at this

theorem valRow_eq (tn : List Char) (c : Column) : valRow tn c =
    [storable (.str tn), storable (.str c.name), storable (.str (if c.isNullable then ['Y'] else ['N'])),
     storable (match c.valueRange with | some (a, _) => .int a | none => .null),
     storable (match c.valueRange with | some (_, b) => .int b | none => .null),
     storable (match c.foreignKey with | some (t, _) => .str t | none => .null),
     storable (match c.foreignKey with | some (_, i) => .int i | none => .null),
     storable (match c.category with
      | some k => match k.asStr with
        | some st => .str st.toList
        | none => .null
      | none => .null),
     storable (if c.enumValues.isEmpty then .null else .str (List.intercalate [';'] c.enumValues)),
     storable .null] := by
  obtain ⟨name, ct, loc, nul, key, rg, fk, cat, en⟩ := c
  unfold valRow catalogRowsValidation
  cases rg with
  | none => cases fk with
    | none => rfl
    | some f => obtain ⟨t, i⟩ := f; rfl
  | some r =>
    obtain ⟨a, b⟩ := r
    cases fk with
    | none => rfl
    | some f => obtain ⟨t, i⟩ := f; rfl

theorem val_nullable (tn : List Char) (c : Column) : valNullable (valRow tn c) = c.isNullable := by
  rw [valRow_eq]
  unfold valNullable
  cases c.isNullable <;> rfl

theorem val_range (tn : List Char) (c : Column) : valRange (valRow tn c) = c.valueRange := by
  rw [valRow_eq]
  unfold valRange
  cases c.valueRange with
  | none => rfl
  | some r => obtain ⟨a, b⟩ := r; rfl

theorem val_fk (tn : List Char) (c : Column) (hfk : ∀ t i, c.foreignKey = some (t, i) → t ≠ []) :
    valForeignKey (valRow tn c) = c.foreignKey := by
  rw [valRow_eq]
  unfold valForeignKey
  cases hf : c.foreignKey with
  | none => rfl
  | some r =>
    obtain ⟨t, i⟩ := r
    have := storable_str_ne t (hfk t i hf)
    simp [this]

theorem val_category (tn : List Char) (c : Column) : valCategory (valRow tn c) = c.category := by
  rw [valRow_eq]
  unfold valCategory
  cases hc : c.category with
  | none => rfl
  | some k =>
    obtain ⟨st, h1, h2, h3⟩ := category_roundtrip k (category_all_mem k)
    have := storable_str_ne _ h3
    simp only [h1, List.getD_cons_succ, List.getD_cons_zero, this, h2]

theorem val_enum (tn : List Char) (c : Column) (hs : isStorable c = true) :
    valEnum (valRow tn c) = c.enumValues := by
  rw [valRow_eq]
  unfold valEnum
  cases he : c.enumValues with
  | nil => rfl
  | cons e es =>
    have hok := enums_ok c hs
    have hne : List.intercalate [';'] (e :: es) ≠ [] := by
      have := (hok e (by simp [he])).1
      cases e with
      | nil => exact absurd rfl this
      | cons x xs => cases es <;> simp [List.intercalate]
    have h1 := storable_str_ne _ hne
    have h2 := splitOn_intercalate ';' (e :: es) (by simp) (fun p hp => (hok p (by rw [he]; exact hp)).2)
    simp [h1, h2]

/-- **the catalog rows of a storable column decode to that column**: the builder `open` makes
from the column's `_Validation` row, completed by the type word from `_Columns`, is the column
`create_table` was given — name, type and width, the three flags, value range, foreign key,
category and enumeration -/
theorem column_roundtrip (tn : List Char) (c : Column) (hs : isStorable c = true)
    (hfk : ∀ t i, c.foreignKey = some (t, i) → t ≠ [])
    (specs : List ((List Char × List Char) × List Value))
    (hfind : specs.find? (fun e => e.1 == (tn, c.name)) = some ((tn, c.name), valRow tn c)) :
    (openBuilder specs tn c.name).withBitfield c.bitfield = .ok c := by
  obtain ⟨d, hd, h1, h2, h3, h4, h5, h6, h7, h8, h9⟩ := MsiProofs.C06.typeword_roundtrip c (typeOfBits_storable c hs)
  have hb : openBuilder specs tn c.name =
      { name := c.name, coltype := .int16, isNullable := c.isNullable, valueRange := c.valueRange,
        foreignKey := c.foreignKey, category := c.category, enumValues := c.enumValues } := by
    unfold openBuilder
    rw [hfind]
    simp only [val_nullable, val_range, val_fk tn c hfk, val_category, val_enum tn c hs]
  rw [hb, hd]
  congr 1
  cases c; cases d; simp_all


/-! ### the type word through the `_Columns` cell -/
open MsiModel.Bytes in
theorem ofI32_toI32 (x : Nat) (h : x < 4294967296) : ofI32 (toI32 x) = x := by
  unfold ofI32 toI32
  split
  · rename_i h1
    have : ((x : Int) % 4294967296) = x := Int.emod_eq_of_lt (by omega) (by omega)
    rw [this]; omega
  · rename_i h1
    have : (((x : Int) - 4294967296) % 4294967296) = x := by omega
    rw [this]; omega

theorem bitfield_lt (c : Column) (hs : isStorable c = true) : c.bitfield < 65536 := by
  have hw := typeOfBits_storable c hs
  have htb : Column.typeBits c.coltype < 65536 := by
    cases hc : c.coltype with
    | int16 => decide
    | int32 => decide
    | str n =>
      rw [hc] at hw
      simp only [Column.typeBits]
      have : n % 4294967296 < 65536 := by omega
      exact Nat.or_lt_two_pow (n := 16) (by decide) this
  have step : ∀ a b : Nat, a < 65536 → b < 65536 → a ||| b < 65536 :=
    fun a b ha hb => Nat.or_lt_two_pow (n := 16) ha hb
  have ite_or : ∀ (p : Prop) [Decidable p] (x y : Nat), x < 65536 → y < 65536 →
      (if p then x ||| y else x) < 65536 := by
    intro p _ x y hx hy
    split
    · exact step _ _ hx hy
    · exact hx
  have b1 := step _ _ htb (by decide : Gen.colValidBit < 65536)
  unfold Column.bitfield
  simp only
  refine ite_or _ _ _ ?_ (by decide)
  refine ite_or _ _ _ ?_ (by decide)
  refine ite_or _ _ _ ?_ (by decide)
  refine ite_or _ _ _ ?_ (by decide)
  exact b1

open MsiModel.Bytes in
/-- the `_Columns` cell holding the type word gives the word back -/
theorem typeword_cell (c : Column) (hs : isStorable c = true) :
    (match bitfieldValue c with | .int b => ofI32 b.toInt | _ => 0) = c.bitfield := by
  have h := bitfield_lt c hs
  unfold bitfieldValue
  simp only
  have hm : c.bitfield % 4294967296 = c.bitfield := Nat.mod_eq_of_lt (by omega)
  rw [hm]
  have hi : toI32 c.bitfield = (c.bitfield : Int) := by
    unfold toI32
    have : c.bitfield < 2147483648 := by omega
    simp [this]
  rw [hi]
  have : (Int32.ofInt (c.bitfield : Int)).toInt = (c.bitfield : Int) := by
    rw [Int32.toInt_ofInt_of_le] <;> omega
  rw [this]
  unfold ofI32
  have : ((c.bitfield : Int) % 4294967296) = c.bitfield := Int.emod_eq_of_lt (by omega) (by omega)
  rw [this]; omega


open MsiModel.Bytes in
/-- the 32-bit cell of `_Columns.Type` for a column -/
def bitsOf (c : Column) : Int32 := Int32.ofInt (toI32 (c.bitfield % 4294967296))

theorem bitfieldValue_eq (c : Column) : bitfieldValue c = .int (bitsOf c) := rfl

open MsiModel.Bytes in
theorem bitsOf_word (c : Column) (hs : isStorable c = true) : ofI32 (bitsOf c).toInt = c.bitfield := by
  have := typeword_cell c hs
  rw [bitfieldValue_eq] at this
  exact this

/-- a column `create_table` accepts as far as the catalog codec is concerned -/
def ColOk (c : Column) : Prop := isStorable c = true ∧ ∀ t i, c.foreignKey = some (t, i) → t ≠ []

/-- **the columns of a table are rebuilt from its catalog rows**: given the `_Columns` entries
numbered `i0, i0+1, …` with the columns' names and type words, and the columns' `_Validation`
rows, the loop of `open` returns exactly the columns, in order -/
theorem openColumns_spec (tn : List Char) (cols : List Column)
    (specs : List (List Char × Nat × List Char × Int32))
    (valSpecs : List ((List Char × List Char) × List Value)) :
    ∀ (i0 : Nat) (acc : List Column),
    (∀ c ∈ cols, ColOk c) →
    (∀ j (hj : j < cols.length), ∃ x, specs.find? (fun e => e.2.1 == i0 + j) = some (x, i0 + j, cols[j].name, bitsOf cols[j])) →
    (∀ c ∈ cols, valSpecs.find? (fun e => e.1 == (tn, c.name)) = some ((tn, c.name), valRow tn c)) →
    openColumns specs valSpecs tn cols.length i0 acc = .ok (acc.reverse ++ cols) := by
  induction cols with
  | nil => intro i0 acc _ _ _; simp [openColumns, pure]
  | cons c rest ih =>
    intro i0 acc hok hspec hval
    obtain ⟨x, h0⟩ := hspec 0 (by simp)
    simp only [Nat.add_zero, List.getElem_cons_zero] at h0
    simp only [List.length_cons, openColumns, h0, bind, Res.bind]
    have hc := hok c (by simp)
    rw [bitsOf_word c hc.1, column_roundtrip tn c hc.1 hc.2 valSpecs (hval c (by simp))]
    simp only
    rw [ih (i0 + 1) (c :: acc) (fun d hd => hok d (by simp [hd]))
      (by
        intro j hj
        obtain ⟨y, hy⟩ := hspec (j + 1) (by simp; omega)
        refine ⟨y, ?_⟩
        have e : i0 + (j + 1) = i0 + 1 + j := by omega
        rw [e] at hy
        simpa using hy)
      (fun d hd => hval d (by simp [hd]))]
    simp

end MsiProofs.CatalogCodec
