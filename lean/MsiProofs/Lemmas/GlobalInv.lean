import MsiProofs.Lemmas.RefineExact
/-
The package-level invariant behind C03/C05/C08 for whole histories: every table loads, table
streams are pairwise distinct, and the string pool's reference counts account — exactly, up to a
fixed slack — for the references held by the cells of ALL tables.  Every successful insert or
delete on any table re-establishes it; a refused one changes nothing.
-/
namespace MsiProofs.GlobalInv
open MsiModel MsiModel.Bytes MsiModel.Pkg MsiProofs.Refine MsiProofs.RefineDelete MsiProofs.RefineExact
open MsiProofs.SaveOpen MsiProofs.RowsOk

/-- the rows of a table as the state reads them (nothing if the stream does not decode) -/
def rowsOf (s : Pkg) (t : Table) : List (List Cell) :=
  match s.loadRows t with
  | .ok rows => rows
  | _ => []

/-- all cells of the listed tables -/
def cellsOfTables (s : Pkg) (ts : List Table) : List Cell := (ts.map fun t => (rowsOf s t).flatten).flatten

theorem loadRows_congr (s s' : Pkg) (t : Table) (h : dataOf s'.cont t.streamName = dataOf s.cont t.streamName) :
    s'.loadRows t = s.loadRows t := by
  unfold dataOf at h
  unfold Pkg.loadRows
  cases h1 : Cont.find s'.cont t.streamName with
  | none =>
    cases h2 : Cont.find s.cont t.streamName with
    | none => rfl
    | some e => simp [h1, h2] at h
  | some e1 =>
    cases h2 : Cont.find s.cont t.streamName with
    | none => simp [h1, h2] at h
    | some e2 =>
      simp only [h1, h2, Option.map_some, Option.some.injEq] at h
      simp only [h]

theorem cellsOfTables_congr (s s' : Pkg) (ts : List Table)
    (h : ∀ t ∈ ts, s'.loadRows t = s.loadRows t) : cellsOfTables s' ts = cellsOfTables s ts := by
  unfold cellsOfTables
  congr 1
  apply List.map_congr_left
  intro t ht
  unfold rowsOf
  rw [h t ht]

structure Inv (slack : Nat → Nat) (s : Pkg) : Prop where
  /-- the tables are stored in pairwise different streams -/
  distinct : s.tables.Pairwise fun a b => key a.streamName ≠ key b.streamName
  /-- every table's stream decodes -/
  loads : ∀ t ∈ s.tables, ∃ rows, s.loadRows t = .ok rows
  /-- string cells refer to positions ≥ 1 -/
  pos : PosRefs (cellsOfTables s s.tables)
  /-- reference counts = references from all tables + slack -/
  counts : AccountedWith slack s.pool (cellsOfTables s s.tables)
  sized : PoolSized s.pool
  widths : ∀ t ∈ s.tables, s.pool.longRefs = t.longRefs ∧ 0 < t.rowSize

theorem split_at_table (ts : List Table) (t : Table) (ht : t ∈ ts) : ∃ pre post, ts = pre ++ t :: post :=
  List.append_of_mem ht

theorem cellsOfTables_split (s : Pkg) (pre post : List Table) (t : Table) :
    cellsOfTables s (pre ++ t :: post) = cellsOfTables s pre ++ (rowsOf s t).flatten ++ cellsOfTables s post := by
  unfold cellsOfTables
  simp [List.map_append, List.flatten_append]

theorem findTable_spec (s : Pkg) (n : List Char) (t : Table) (h : s.findTable n = some t) : t ∈ s.tables :=
  MsiProofs.Synced.findTable_mem h

/-- cells counted in a sub-list are live when the whole is accounted -/
theorem live_of_accounted (slack : Nat → Nat) (p : Pool) (cells : List Cell) (hpos : PosRefs cells)
    (h : AccountedWith slack p cells) : ∀ c ∈ cells, LiveCell p c := by
  intro c hc
  cases c with
  | null => trivial
  | int n => trivial
  | str r =>
    have hr := hpos r hc
    have := h r hr
    have hcnt : 1 ≤ cells.count (.str r) := List.count_pos_iff.mpr hc
    show 0 < p.refcount r
    omega


theorem posRefs_sub {a b : List Cell} (h : PosRefs b) (hsub : ∀ c ∈ a, c ∈ b) : PosRefs a :=
  fun r hr => h r (hsub _ hr)

theorem rowsOf_ok {s : Pkg} {t : Table} {rows : List (List Cell)} (h : s.loadRows t = .ok rows) : rowsOf s t = rows := by
  unfold rowsOf; rw [h]

/-- **a successful insert re-establishes the invariant** (same slack) -/
theorem insert_inv (slack : Nat → Nat) (s : Pkg) (tname : List Char) (rows : List (List Value)) (s' : Pkg)
    (hI : Inv slack s) (h : insertExec s tname rows = (s', .ok ())) : Inv slack s' := by
  cases hf : s.findTable tname with
  | none =>
    unfold insertExec at h
    simp only [hf] at h
    cases (Prod.mk.inj h).2
  | some t =>
    have htm := findTable_spec s tname t hf
    obtain ⟨existing, hl⟩ := hI.loads t htm
    obtain ⟨pre, post, hsplit⟩ := split_at_table s.tables t htm
    have hcells : cellsOfTables s s.tables =
        cellsOfTables s pre ++ existing.flatten ++ cellsOfTables s post := by
      rw [hsplit, cellsOfTables_split, rowsOf_ok hl]
    let others := cellsOfTables s pre ++ cellsOfTables s post
    have hperm : (cellsOfTables s s.tables).Perm (existing.flatten ++ others) := by
      rw [hcells]
      simp only [others, List.append_assoc]
      exact List.perm_append_comm_assoc _ _ _
    have hacc : AccountedWith slack s.pool (existing.flatten ++ others) := accountedWith_perm hperm hI.counts
    have hposAll : PosRefs (existing.flatten ++ others) := fun r hr => hI.pos r (hperm.mem_iff.mpr hr)
    have hposE : PosRefs existing.flatten := posRefs_sub hposAll (fun c hc => by simp [hc])
    have hliveAll := live_of_accounted slack s.pool _ hposAll hacc
    have hlive : ∀ r ∈ existing, ∀ c ∈ r, LiveCell s.pool c := by
      intro r hr c hc
      apply hliveAll
      simp only [List.mem_append, List.mem_flatten]
      exact Or.inl ⟨r, hr, hc⟩
    obtain ⟨hlr, hrs⟩ := hI.widths t htm
    obtain ⟨stored, hstored, hacc', hpos'⟩ := insert_accountedW slack s tname rows s' h t hf existing hl others
      hposE hacc hlive hI.sized hlr hrs
    obtain ⟨stored2, hstored2, -, -, -, -, -, hsized', hlr', -⟩ :=
      MsiProofs.RefineLoad.insert_then_load s tname rows s' h t hf existing hl hlive hI.sized hlr hrs
    obtain ⟨-, -, -, -, -, -, -, hframe, htabs, -⟩ :=
      MsiProofs.Refine.insert_refines s tname rows s' h t hf existing hl hlive
    -- the other tables read the same rows
    have hdist := hI.distinct
    rw [hsplit] at hdist
    have hdpre : ∀ x ∈ pre, key t.streamName ≠ key x.streamName := by
      intro x hx
      have := (List.pairwise_append.mp hdist).2.2 x hx t (by simp)
      exact fun e => this e.symm
    have hdpost : ∀ x ∈ post, key t.streamName ≠ key x.streamName := by
      intro x hx
      have := (List.pairwise_cons.mp (List.pairwise_append.mp hdist).2.1).1 x hx
      exact this
    have hsame_pre : ∀ x ∈ pre, s'.loadRows x = s.loadRows x :=
      fun x hx => loadRows_congr s s' x (hframe _ (hdpre x hx))
    have hsame_post : ∀ x ∈ post, s'.loadRows x = s.loadRows x :=
      fun x hx => loadRows_congr s s' x (hframe _ (hdpost x hx))
    have hcells' : cellsOfTables s' s'.tables =
        cellsOfTables s pre ++ stored.flatten ++ cellsOfTables s post := by
      rw [htabs, hsplit, cellsOfTables_split, rowsOf_ok hstored,
        cellsOfTables_congr s s' pre hsame_pre, cellsOfTables_congr s s' post hsame_post]
    have hperm' : (cellsOfTables s' s'.tables).Perm (stored.flatten ++ others) := by
      rw [hcells']
      simp only [others, List.append_assoc]
      exact List.perm_append_comm_assoc _ _ _
    refine ⟨by rw [htabs]; exact hI.distinct, ?_, ?_, accountedWith_perm hperm'.symm hacc', hsized', ?_⟩
    · intro x hx
      rw [htabs, hsplit] at hx
      simp only [List.mem_append, List.mem_cons] at hx
      rcases hx with hx | rfl | hx
      · obtain ⟨r, hr⟩ := hI.loads x (by rw [hsplit]; simp [hx])
        exact ⟨r, by rw [hsame_pre x hx]; exact hr⟩
      · exact ⟨stored, hstored⟩
      · obtain ⟨r, hr⟩ := hI.loads x (by rw [hsplit]; simp [hx])
        exact ⟨r, by rw [hsame_post x hx]; exact hr⟩
    · intro r hr
      have := hperm'.mem_iff.mp hr
      simp only [List.mem_append] at this
      rcases this with h1 | h1
      · exact hpos' r h1
      · exact hposAll r (by simp only [List.mem_append]; exact Or.inr h1)
    · intro x hx
      rw [htabs] at hx
      obtain ⟨h1, h2⟩ := hI.widths x hx
      exact ⟨by rw [hlr', ← hlr, h1], h2⟩


/-- **a successful delete re-establishes the invariant** (same slack) -/
theorem delete_inv (slack : Nat → Nat) (s : Pkg) (tname : List Char) (cond : Option Ast) (s' : Pkg)
    (hI : Inv slack s) (h : deleteExec s tname cond = (s', .ok ())) : Inv slack s' := by
  cases hf : s.findTable tname with
  | none =>
    unfold deleteExec at h
    simp only [hf] at h
    cases (Prod.mk.inj h).2
  | some t =>
    have htm := findTable_spec s tname t hf
    obtain ⟨existing, hl⟩ := hI.loads t htm
    obtain ⟨pre, post, hsplit⟩ := split_at_table s.tables t htm
    have hcells : cellsOfTables s s.tables =
        cellsOfTables s pre ++ existing.flatten ++ cellsOfTables s post := by
      rw [hsplit, cellsOfTables_split, rowsOf_ok hl]
    let others := cellsOfTables s pre ++ cellsOfTables s post
    have hperm : (cellsOfTables s s.tables).Perm (existing.flatten ++ others) := by
      rw [hcells]
      simp only [others, List.append_assoc]
      exact List.perm_append_comm_assoc _ _ _
    have hacc : AccountedWith slack s.pool (existing.flatten ++ others) := accountedWith_perm hperm hI.counts
    have hposAll : PosRefs (existing.flatten ++ others) := fun r hr => hI.pos r (hperm.mem_iff.mpr hr)
    obtain ⟨hlr, hrs⟩ := hI.widths t htm
    obtain ⟨hstored, hacc'⟩ := delete_accountedW slack s tname cond s' h t hf existing hl others hposAll hacc hrs
    obtain ⟨bytes, -, -, -, -, hframe, htabs, -⟩ :=
      delete_refines s tname cond s' h t hf existing hl others hposAll (hacc.accounted hposAll)
    obtain ⟨kept, hd⟩ := deleteExec_ok_inv s tname cond s' h t hf existing hl
    have hdist := hI.distinct
    rw [hsplit] at hdist
    have hdpre : ∀ x ∈ pre, key t.streamName ≠ key x.streamName := by
      intro x hx
      have := (List.pairwise_append.mp hdist).2.2 x hx t (by simp)
      exact fun e => this e.symm
    have hdpost : ∀ x ∈ post, key t.streamName ≠ key x.streamName := by
      intro x hx
      exact (List.pairwise_cons.mp (List.pairwise_append.mp hdist).2.1).1 x hx
    have hsame_pre : ∀ x ∈ pre, s'.loadRows x = s.loadRows x :=
      fun x hx => loadRows_congr s s' x (hframe _ (hdpre x hx))
    have hsame_post : ∀ x ∈ post, s'.loadRows x = s.loadRows x :=
      fun x hx => loadRows_congr s s' x (hframe _ (hdpost x hx))
    have hcells' : cellsOfTables s' s'.tables =
        cellsOfTables s pre ++ (existing.filter fun r => evalCond t s.pool cond r == .ok false).flatten ++
          cellsOfTables s post := by
      rw [htabs, hsplit, cellsOfTables_split, rowsOf_ok hstored,
        cellsOfTables_congr s s' pre hsame_pre, cellsOfTables_congr s s' post hsame_post]
    have hperm' : (cellsOfTables s' s'.tables).Perm
        ((existing.filter fun r => evalCond t s.pool cond r == .ok false).flatten ++ others) := by
      rw [hcells']
      simp only [others, List.append_assoc]
      exact List.perm_append_comm_assoc _ _ _
    -- the pool keeps its size and reference width
    have hsz : PoolSized s'.pool ∧ s'.pool.longRefs = s.pool.longRefs := by
      have hstep : ∀ (rows : List (List Cell)) (p : Pool) (acc : List (List Cell)) (p' : Pool) (k : List (List Cell)),
          deleteGo t cond p rows acc = .ok (p', k) →
          p'.strings.length = p.strings.length ∧ p'.longRefs = p.longRefs := by
        intro rows
        induction rows with
        | nil =>
          intro p acc p' k h
          simp only [deleteGo, pure, Res.ok.injEq, Prod.mk.injEq] at h
          rw [← h.1]; exact ⟨rfl, rfl⟩
        | cons r rs ih =>
          intro p acc p' k h
          simp only [deleteGo, bind, Res.bind] at h
          cases he : evalCond t p cond r with
          | ok del =>
            simp only [he] at h
            have hfold : ∀ (cells : List Cell) (q : Pool),
                (cells.foldl Cell.remove q).strings.length = q.strings.length ∧
                (cells.foldl Cell.remove q).longRefs = q.longRefs := by
              intro cells
              induction cells with
              | nil => intro q; exact ⟨rfl, rfl⟩
              | cons c cs ihc =>
                intro q
                simp only [List.foldl_cons]
                obtain ⟨a, b⟩ := ihc (Cell.remove q c)
                have hone : (Cell.remove q c).strings.length = q.strings.length ∧
                    (Cell.remove q c).longRefs = q.longRefs := by
                  cases c with
                  | str x =>
                    refine ⟨MsiProofs.C09.decref_length q x, ?_⟩
                    simp only [Cell.remove, Pool.decref]
                    split <;> rfl
                  | null => exact ⟨rfl, rfl⟩
                  | int n => exact ⟨rfl, rfl⟩
                exact ⟨a.trans hone.1, b.trans hone.2⟩
            cases del with
            | true =>
              simp only [if_true] at h
              obtain ⟨a, b⟩ := ih _ _ p' k h
              obtain ⟨c, d⟩ := hfold r p
              exact ⟨a.trans c, b.trans d⟩
            | false =>
              simp only [Bool.false_eq_true, if_false] at h
              exact ih _ _ p' k h
          | err e => simp [he] at h
          | panic w => simp [he] at h
      obtain ⟨a, b⟩ := hstep existing s.pool [] s'.pool kept hd
      refine ⟨?_, b⟩
      have := hI.sized
      unfold PoolSized at *
      rw [a, b]; exact this
    refine ⟨by rw [htabs]; exact hI.distinct, ?_, ?_, accountedWith_perm hperm'.symm hacc', hsz.1, ?_⟩
    · intro x hx
      rw [htabs, hsplit] at hx
      simp only [List.mem_append, List.mem_cons] at hx
      rcases hx with hx | rfl | hx
      · obtain ⟨r, hr⟩ := hI.loads x (by rw [hsplit]; simp [hx])
        exact ⟨r, by rw [hsame_pre x hx]; exact hr⟩
      · exact ⟨_, hstored⟩
      · obtain ⟨r, hr⟩ := hI.loads x (by rw [hsplit]; simp [hx])
        exact ⟨r, by rw [hsame_post x hx]; exact hr⟩
    · intro r hr
      have := hperm'.mem_iff.mp hr
      apply hposAll r
      simp only [List.mem_append, List.mem_flatten] at this ⊢
      rcases this with ⟨row, hrow, hc⟩ | h1
      · exact Or.inl ⟨row, (List.mem_filter.mp hrow).1, hc⟩
      · exact Or.inr h1
    · intro x hx
      rw [htabs] at hx
      obtain ⟨h1, h2⟩ := hI.widths x hx
      exact ⟨by rw [hsz.2]; exact h1, h2⟩


/-! ### refused requests change nothing -/

theorem storeRows_ok_of_rowOk (s : Pkg) (t : Table) (rows : List (List Cell))
    (h : ∀ r ∈ rows, RowOk t.longRefs t.columns r) (hpos : 0 < t.rowSize) (hmax : rows.length ≤ Gen.maxTableRows) :
    (storeRows s t rows).2 = .ok () := by
  obtain ⟨bs, hw, -⟩ := write_read t rows h hpos hmax
  unfold storeRows
  rw [hw]

/-- **an insert that does not succeed leaves the state as it was** (under the invariant there is no
late failure: the rows to be written always fit their columns) -/
theorem insert_refused_noop (slack : Nat → Nat) (s : Pkg) (tname : List Char) (rows : List (List Value))
    (hI : Inv slack s) (hne : (insertExec s tname rows).2 ≠ .ok ()) : (insertExec s tname rows).1 = s := by
  unfold insertExec at hne ⊢
  cases hf : s.findTable tname with
  | none => rfl
  | some t =>
    simp only [hf] at hne ⊢
    have htm := findTable_spec s tname t hf
    obtain ⟨hlr, hrs⟩ := hI.widths t htm
    by_cases h1 : (rows.any fun r => r.length ≠ t.columns.length) = true
    · rw [if_pos h1]
    rw [if_neg h1] at hne ⊢
    by_cases h2 : (rows.any fun r => (t.columns.zip r).any fun x => !x.1.isValidValue x.2) = true
    · rw [if_pos h2]
    rw [if_neg h2] at hne ⊢
    cases hl : s.loadRows t with
    | err k => rfl
    | panic w => rfl
    | ok existing =>
      simp only [hl] at hne ⊢
      cases hm : loadMap s.pool t.keyIndices existing [] with
      | none => rfl
      | some m =>
        simp only [hm] at hne ⊢
        cases hc : checkNew t.keyIndices m (rows.map fun r => r.map storable) [] with
        | some k => rfl
        | none =>
          simp only [hc] at hne ⊢
          by_cases h3 : m.length + (rows.map fun r => r.map storable).length > Gen.maxTableRows
          · rw [if_pos h3]
          rw [if_neg h3] at hne ⊢
          cases ha : addRows t.keyIndices s.pool (rows.map fun r => r.map storable) m with
          | err k => rfl
          | panic w => rfl
          | ok x =>
            obtain ⟨pool', m'⟩ := x
            simp only [ha] at hne ⊢
            exfalso
            apply hne
            have hsm : MsiProofs.Order.Sorted m := MsiProofs.C05.loadMap_sorted (by simp [MsiProofs.Order.Sorted]) hm
            have hrows := loadMap_rows s.pool t.keyIndices existing [] m (by simp [MsiProofs.Order.Sorted]) hm
            have hexok := MsiProofs.RefineLoad.loadRows_rowOk s t existing hl
            have hmok : ∀ e ∈ m, RowOk t.longRefs t.columns e.2 := by
              intro e he
              have := (hrows e.2).mp (List.mem_map.mpr ⟨e, he, rfl⟩)
              exact hexok e.2 (by simpa using this)
            have hlen : ∀ r ∈ rows, r.length = t.columns.length := by
              intro r hr
              have h1' : (rows.any fun r => r.length ≠ t.columns.length) = false := by simpa using h1
              have := List.any_eq_false.mp h1' r hr
              simpa using this
            have hval : ∀ r ∈ rows, ∀ x ∈ t.columns.zip r, x.1.isValidValue x.2 = true := by
              intro r hr x hx
              have h2' : (rows.any fun r => (t.columns.zip r).any fun x => !x.1.isValidValue x.2) = false := by
                simpa using h2
              have h4 := List.any_eq_false.mp h2' r hr
              simp only [List.any_eq_true, not_exists, not_and, Bool.not_eq_true', Bool.not_eq_false] at h4
              simpa using h4 x hx
            obtain ⟨hok', -, -, hlen'⟩ := MsiProofs.RefineLoad.addRows_rowOk t rows s.pool m pool' m' hsm hlen hval
              hI.sized hlr hmok ha
            apply storeRows_ok_of_rowOk
            · intro r hr
              obtain ⟨e, he, rfl⟩ := List.mem_map.mp hr
              exact hok' e he
            · exact hrs
            · simp only [List.length_map] at h3 ⊢
              rw [hlen']; omega

/-- **a delete that does not succeed leaves the state as it was** -/
theorem delete_refused_noop (slack : Nat → Nat) (s : Pkg) (tname : List Char) (cond : Option Ast)
    (hI : Inv slack s) (hne : (deleteExec s tname cond).2 ≠ .ok ()) : (deleteExec s tname cond).1 = s := by
  unfold deleteExec at hne ⊢
  cases hf : s.findTable tname with
  | none => rfl
  | some t =>
    simp only [hf] at hne ⊢
    have htm := findTable_spec s tname t hf
    obtain ⟨hlr, hrs⟩ := hI.widths t htm
    by_cases h1 : condMissing t cond = true
    · rw [if_pos h1]
    rw [if_neg h1] at hne ⊢
    cases hl : s.loadRows t with
    | err k => rfl
    | panic w => rfl
    | ok existing =>
      simp only [hl] at hne ⊢
      cases hd : deleteGo t cond s.pool existing [] with
      | err k => rfl
      | panic w => rfl
      | ok x =>
        obtain ⟨pool', kept⟩ := x
        simp only [hd] at hne ⊢
        exfalso
        apply hne
        have hexok := MsiProofs.RefineLoad.loadRows_rowOk s t existing hl
        have hkept := MsiProofs.C09.deleteGo_kept t cond existing s.pool [] pool' kept hd
        have hklen : kept.length ≤ existing.length := by
          have hlenlem : ∀ (rows : List (List Cell)) (p : Pool) (acc : List (List Cell)) (p' : Pool) (k : List (List Cell)),
              deleteGo t cond p rows acc = .ok (p', k) → k.length ≤ acc.length + rows.length := by
            intro rows
            induction rows with
            | nil =>
              intro p acc p' k h
              simp only [deleteGo, pure, Res.ok.injEq, Prod.mk.injEq] at h
              rw [← h.2]; simp
            | cons r rs ih =>
              intro p acc p' k h
              simp only [deleteGo, bind, Res.bind] at h
              cases he : evalCond t p cond r with
              | ok del =>
                simp only [he] at h
                cases del with
                | true => simp only [if_true] at h; have := ih _ _ p' k h; simp; omega
                | false =>
                  simp only [Bool.false_eq_true, if_false] at h
                  have := ih _ _ p' k h; simp at this ⊢; omega
              | err e => simp [he] at h
              | panic w => simp [he] at h
          simpa using hlenlem existing s.pool [] pool' kept hd
        apply storeRows_ok_of_rowOk
        · intro r hr
          rcases hkept r hr with h2 | h2
          · simp at h2
          · exact hexok r h2
        · exact hrs
        · have := MsiProofs.RefineLoad.loadRows_length s t existing hl
          omega

/-- an insert or a delete, as the API runs it -/
inductive Op
  | insert (t : List Char) (rows : List (List Value))
  | delete (t : List Char) (cond : Option Ast)

def Op.run (s : Pkg) : Op → Pkg
  | .insert t rows => (insertExec s t rows).1
  | .delete t cond => (deleteExec s t cond).1

/-- **one request**: accepted or refused, it keeps the invariant -/
theorem op_inv (slack : Nat → Nat) (s : Pkg) (op : Op) (hI : Inv slack s) : Inv slack (op.run s) := by
  cases op with
  | insert t rows =>
    by_cases hr : (insertExec s t rows).2 = .ok ()
    · exact insert_inv slack s t rows _ hI (by rw [← hr]; rfl)
    · show Inv slack (insertExec s t rows).1
      rw [insert_refused_noop slack s t rows hI hr]; exact hI
  | delete t cond =>
    by_cases hr : (deleteExec s t cond).2 = .ok ()
    · exact delete_inv slack s t cond _ hI (by rw [← hr]; rfl)
    · show Inv slack (deleteExec s t cond).1
      rw [delete_refused_noop slack s t cond hI hr]; exact hI

/-- **every history of inserts and deletes, on any tables, accepted or refused, keeps the
invariant**: every table still loads, the streams stay distinct, and the reference counts still
equal the references held by the cells of all tables plus the same slack -/
theorem history_inv (slack : Nat → Nat) (ops : List Op) : ∀ (s : Pkg), Inv slack s → Inv slack (ops.foldl Op.run s) := by
  induction ops with
  | nil => intro s h; exact h
  | cons op ops ih => intro s h; exact ih _ (op_inv slack s op h)

end MsiProofs.GlobalInv
