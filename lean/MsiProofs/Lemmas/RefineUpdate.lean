import MsiProofs.Lemmas.GlobalInv
/-
`Update::exec` against the relational reading: one assignment to one cell releases the old
cell's reference and interns the new value — the accounting keeps its slack, every other cell
keeps its value, the row reads as the old row with that column replaced.
-/
namespace MsiProofs.RefineUpdate
open MsiModel MsiModel.Bytes MsiModel.Pkg MsiProofs.Refine MsiProofs.RefineDelete MsiProofs.RefineExact
open MsiProofs.SaveOpen MsiProofs.RowsOk MsiProofs.GlobalInv MsiProofs.Codec

theorem set_eq_take_drop {α} (l : List α) (i : Nat) (x : α) (h : i < l.length) :
    l.set i x = l.take i ++ x :: l.drop (i + 1) := by
  induction l generalizing i with
  | nil => simp at h
  | cons a rest ih =>
    cases i with
    | zero => simp
    | succ j => simp [ih j (by simpa using h)]

theorem eq_take_get_drop {α} (l : List α) (i : Nat) (h : i < l.length) :
    l = l.take i ++ l[i] :: l.drop (i + 1) := by
  induction l generalizing i with
  | nil => simp at h
  | cons a rest ih =>
    cases i with
    | zero => simp
    | succ j =>
      simp only [List.take_succ_cons, List.getElem_cons_succ, List.drop_succ_cons, List.cons_append]
      congr 1
      exact ih j (by simpa using h)

/-- **one assignment**: release the old cell, intern the new value, put the new cell in place -/
theorem assign_spec (slack : Nat → Nat) (p : Pool) (pre cells post : List Cell) (i : Nat) (v : Value)
    (hi : i < cells.length) (hpos : PosRefs (pre ++ cells ++ post))
    (hacc : AccountedWith slack p (pre ++ cells ++ post))
    (p2 : Pool) (c : Cell) (hc : Cell.create (Cell.remove p (cells.getD i .null)) v = .ok (p2, c)) :
    AccountedWith slack p2 (pre ++ cells.set i c ++ post) ∧ PosRefs (pre ++ cells.set i c ++ post) ∧
    (∀ d ∈ pre ++ post, Cell.toValue p2 d = Cell.toValue p d) ∧
    rowValues p2 (cells.set i c) = (rowValues p cells).set i v := by
  have hold : cells.getD i .null = cells[i] := by simp [List.getD, hi]
  rw [hold] at hc
  have hsplit := eq_take_get_drop cells i hi
  have hset := set_eq_take_drop cells i c hi
  generalize ha : cells.take i = a at hsplit hset
  generalize hb : cells.drop (i + 1) = b at hsplit hset
  generalize hold' : cells[i] = old at hc hsplit
  have hal : a.length = i := by rw [← ha]; simp; omega
  -- release the old cell
  have e1 : pre ++ cells ++ post = (pre ++ a) ++ old :: (b ++ post) := by rw [hsplit]; simp
  rw [e1] at hpos hacc
  have hacc1 := remove_accountedW slack p (pre ++ a) old (b ++ post) hpos hacc
  obtain ⟨-, hv1⟩ := remove_accounted p (pre ++ a) old (b ++ post) hpos (hacc.accounted hpos)
  have hpos1 : PosRefs ((pre ++ a) ++ (b ++ post)) := by
    intro r hr
    apply hpos r
    simp only [List.mem_append, List.mem_cons] at hr ⊢
    rcases hr with (h1 | h1) | (h1 | h1)
    · exact Or.inl (Or.inl h1)
    · exact Or.inl (Or.inr h1)
    · exact Or.inr (Or.inr (Or.inl h1))
    · exact Or.inr (Or.inr (Or.inr h1))
  -- intern the new value
  obtain ⟨hacc2, hposc⟩ := create_accountedW slack (Cell.remove p old) v p2 c _ hacc1 hc
  obtain ⟨hext, hval, hlivec⟩ := create_ext (Cell.remove p old) v p2 c hc
  have hlive1 := live_of_accounted slack (Cell.remove p old) _ hpos1 hacc1
  have hv2 : ∀ d ∈ (pre ++ a) ++ (b ++ post), Cell.toValue p2 d = Cell.toValue p d := by
    intro d hd
    rw [(toValue_ext hext d (hlive1 d hd)).1]
    exact hv1 d hd
  have hperm : (c :: ((pre ++ a) ++ (b ++ post))).Perm (pre ++ (a ++ c :: b) ++ post) := by
    have : pre ++ (a ++ c :: b) ++ post = (pre ++ a) ++ c :: (b ++ post) := by simp
    rw [this]
    exact List.perm_middle.symm
  rw [hset]
  refine ⟨accountedWith_perm hperm hacc2, ?_, ?_, ?_⟩
  · intro r hr
    have := hperm.mem_iff.mpr hr
    simp only [List.mem_cons] at this
    rcases this with h1 | h1
    · exact hposc r (by simp [h1])
    · exact hpos1 r h1
  · intro d hd
    apply hv2 d
    simp only [List.mem_append] at hd ⊢
    rcases hd with h1 | h1
    · exact Or.inl (Or.inl h1)
    · exact Or.inr (Or.inr h1)
  · unfold rowValues
    rw [hsplit]
    simp only [List.map_append, List.map_cons]
    have hla : (List.map (Cell.toValue p) a).length = i := by simp [hal]
    have hseti : (List.map (Cell.toValue p) a ++ Cell.toValue p old :: List.map (Cell.toValue p) b).set i v
        = List.map (Cell.toValue p) a ++ v :: List.map (Cell.toValue p) b := by
      rw [List.set_append_right _ _ (by omega)]
      simp [hla]
    rw [hseti, hval]
    congr 1
    · apply List.map_congr_left
      intro d hd
      apply hv2 d
      simp only [List.mem_append]
      exact Or.inl (Or.inr hd)
    · congr 1
      apply List.map_congr_left
      intro d hd
      apply hv2 d
      simp only [List.mem_append]
      exact Or.inr (Or.inl hd)


/-- the assignments applied to a row of values -/
def applyUps (ups : List (Nat × Value)) (vals : List Value) : List Value :=
  ups.foldl (fun vs x => vs.set x.1 x.2) vals

/-- **all assignments to one row** -/
theorem cellsUpd_spec (slack : Nat → Nat) (us : List (Nat × Value)) :
    ∀ (p : Pool) (pre cells post : List Cell) (p' : Pool) (cells' : List Cell),
    (∀ x ∈ us, x.1 < cells.length) → PosRefs (pre ++ cells ++ post) →
    AccountedWith slack p (pre ++ cells ++ post) → cellsUpd p cells us = .ok (p', cells') →
    AccountedWith slack p' (pre ++ cells' ++ post) ∧ PosRefs (pre ++ cells' ++ post) ∧
    (∀ d ∈ pre ++ post, Cell.toValue p' d = Cell.toValue p d) ∧
    rowValues p' cells' = applyUps us (rowValues p cells) ∧ cells'.length = cells.length := by
  induction us with
  | nil =>
    intro p pre cells post p' cells' _ hpos hacc h
    simp only [cellsUpd, pure, Res.ok.injEq, Prod.mk.injEq] at h
    obtain ⟨rfl, rfl⟩ := h
    exact ⟨hacc, hpos, fun _ _ => rfl, rfl, rfl⟩
  | cons u rest ih =>
    intro p pre cells post p' cells' hidx hpos hacc h
    obtain ⟨i, v⟩ := u
    simp only [cellsUpd, bind, Res.bind] at h
    generalize hg : cells.getD i Cell.null = old at h
    cases hc : Cell.create (Cell.remove p old) v with
    | ok x =>
      obtain ⟨p2, c⟩ := x
      simp only [hc] at h
      rw [← hg] at hc
      have hi : i < cells.length := hidx (i, v) (by simp)
      obtain ⟨ha2, hp2, hv2, hrow2⟩ := assign_spec slack p pre cells post i v hi hpos hacc p2 c hc
      obtain ⟨ha3, hp3, hv3, hrow3, hlen3⟩ := ih p2 pre (cells.set i c) post p' cells'
        (fun x hx => by simpa using hidx x (by simp [hx])) hp2 ha2 h
      refine ⟨ha3, hp3, fun d hd => (hv3 d hd).trans (hv2 d hd), ?_, by simpa using hlen3⟩
      rw [hrow3, hrow2]
      simp [applyUps]
    | err e => simp [hc] at h
    | panic w => simp [hc] at h

/-- what `updApply` makes of the rows: matched rows get the assignments, the others stay -/
def applyPlan (ups : List (Nat × Value)) : List (List Value) → List (List Value × Bool) → List (List Value)
  | [], _ => []
  | r :: rs, [] => r :: rs
  | r :: rs, (_, m) :: pl => (if m then applyUps ups r else r) :: applyPlan ups rs pl

/-- **all rows**: with the references of the rows (and of any other cells `pre`, `post`)
accounted, the loop keeps the slack, keeps every other cell's value, and the new rows read as the
old rows with the assignments applied to exactly the matched ones -/
theorem updApply_spec (slack : Nat → Nat) (ups : List (Nat × Value)) (n : Nat) (hups : ∀ x ∈ ups, x.1 < n)
    (rows : List (List Cell)) :
    ∀ (p : Pool) (pl : List (List Value × Bool)) (acc : List (List Cell)) (pre post : List Cell)
      (p' : Pool) (rows' : List (List Cell)),
    (∀ r ∈ rows, r.length = n) →
    PosRefs (pre ++ acc.reverse.flatten ++ rows.flatten ++ post) →
    AccountedWith slack p (pre ++ acc.reverse.flatten ++ rows.flatten ++ post) →
    updApply ups p rows pl acc = .ok (p', rows') →
    ∃ news, rows' = acc.reverse ++ news ∧ news.length = rows.length ∧ (∀ r ∈ news, r.length = n) ∧
      AccountedWith slack p' (pre ++ acc.reverse.flatten ++ news.flatten ++ post) ∧
      PosRefs (pre ++ acc.reverse.flatten ++ news.flatten ++ post) ∧
      (∀ d ∈ pre ++ acc.reverse.flatten ++ post, Cell.toValue p' d = Cell.toValue p d) ∧
      news.map (rowValues p') = applyPlan ups (rows.map (rowValues p)) pl := by
  induction rows with
  | nil =>
    intro p pl acc pre post p' rows' _ hpos hacc h
    simp only [updApply, pure, Res.ok.injEq, Prod.mk.injEq] at h
    obtain ⟨rfl, rfl⟩ := h
    exact ⟨[], by simp, rfl, fun _ hx => by simp at hx, by simpa using hacc, by simpa using hpos,
      fun _ _ => rfl, rfl⟩
  | cons r rs ih =>
    intro p pl acc pre post p' rows' hw hpos hacc h
    have hrn := hw r (by simp)
    cases pl with
    | nil =>
      simp only [updApply, pure, Res.ok.injEq, Prod.mk.injEq] at h
      obtain ⟨rfl, rfl⟩ := h
      exact ⟨r :: rs, by simp, rfl, hw, hacc, hpos, fun _ _ => rfl, by simp [applyPlan]⟩
    | cons e pl' =>
      obtain ⟨vs, m⟩ := e
      have eflat : pre ++ acc.reverse.flatten ++ (r :: rs).flatten ++ post =
          (pre ++ acc.reverse.flatten) ++ r ++ (rs.flatten ++ post) := by simp
      cases m with
      | false =>
        simp only [updApply, Bool.false_eq_true, if_false] at h
        have e2 : pre ++ (r :: acc).reverse.flatten ++ rs.flatten ++ post =
            pre ++ acc.reverse.flatten ++ (r :: rs).flatten ++ post := by simp
        obtain ⟨news, h1, h2, h3, h4, h5, h6, h7⟩ := ih p pl' (r :: acc) pre post p' rows'
          (fun x hx => hw x (by simp [hx])) (by rw [e2]; exact hpos) (by rw [e2]; exact hacc) h
        refine ⟨r :: news, by rw [h1]; simp, by simp [h2], ?_, ?_, ?_, ?_, ?_⟩
        · intro x hx
          simp only [List.mem_cons] at hx
          rcases hx with rfl | hx
          · exact hrn
          · exact h3 x hx
        · have : pre ++ acc.reverse.flatten ++ (r :: news).flatten ++ post =
              pre ++ (r :: acc).reverse.flatten ++ news.flatten ++ post := by simp
          rw [this]; exact h4
        · have : pre ++ acc.reverse.flatten ++ (r :: news).flatten ++ post =
              pre ++ (r :: acc).reverse.flatten ++ news.flatten ++ post := by simp
          rw [this]; exact h5
        · intro d hd
          apply h6 d
          simp only [List.mem_append, List.reverse_cons, List.flatten_append, List.flatten_cons,
            List.flatten_nil, List.append_nil] at hd ⊢
          rcases hd with (h8 | h8) | h8
          · exact Or.inl (Or.inl h8)
          · exact Or.inl (Or.inr (Or.inl h8))
          · exact Or.inr h8
        · simp only [List.map_cons, applyPlan, Bool.false_eq_true, if_false]
          congr 1
          · unfold rowValues
            apply List.map_congr_left
            intro d hd
            apply h6 d
            simp only [List.mem_append, List.reverse_cons, List.flatten_append, List.flatten_cons,
              List.flatten_nil, List.append_nil]
            exact Or.inl (Or.inr (Or.inr hd))
      | true =>
        simp only [updApply, if_true, bind, Res.bind] at h
        cases hc : cellsUpd p r ups with
        | ok x =>
          obtain ⟨p1, cells'⟩ := x
          simp only [hc] at h
          rw [eflat] at hpos hacc
          obtain ⟨ha1, hp1, hv1, hrow1, hlen1⟩ := cellsUpd_spec slack ups p (pre ++ acc.reverse.flatten) r
            (rs.flatten ++ post) p1 cells' (fun x hx => by rw [hrn]; exact hups x hx) hpos hacc hc
          have e3 : (pre ++ acc.reverse.flatten) ++ cells' ++ (rs.flatten ++ post) =
              pre ++ (cells' :: acc).reverse.flatten ++ rs.flatten ++ post := by simp
          rw [e3] at ha1 hp1
          obtain ⟨news, h1, h2, h3, h4, h5, h6, h7⟩ := ih p1 pl' (cells' :: acc) pre post p' rows'
            (fun x hx => hw x (by simp [hx])) hp1 ha1 h
          refine ⟨cells' :: news, by rw [h1]; simp, by simp [h2], ?_, ?_, ?_, ?_, ?_⟩
          · intro x hx
            simp only [List.mem_cons] at hx
            rcases hx with rfl | hx
            · rw [hlen1]; exact hrn
            · exact h3 x hx
          · have : pre ++ acc.reverse.flatten ++ (cells' :: news).flatten ++ post =
                pre ++ (cells' :: acc).reverse.flatten ++ news.flatten ++ post := by simp
            rw [this]; exact h4
          · have : pre ++ acc.reverse.flatten ++ (cells' :: news).flatten ++ post =
                pre ++ (cells' :: acc).reverse.flatten ++ news.flatten ++ post := by simp
            rw [this]; exact h5
          · intro d hd
            have hd1 : d ∈ pre ++ (cells' :: acc).reverse.flatten ++ post := by
              simp only [List.mem_append, List.reverse_cons, List.flatten_append, List.flatten_cons,
                List.flatten_nil, List.append_nil] at hd ⊢
              rcases hd with (h8 | h8) | h8
              · exact Or.inl (Or.inl h8)
              · exact Or.inl (Or.inr (Or.inl h8))
              · exact Or.inr h8
            rw [h6 d hd1]
            apply hv1 d
            simp only [List.mem_append] at hd ⊢
            rcases hd with (h8 | h8) | h8
            · exact Or.inl (Or.inl h8)
            · exact Or.inl (Or.inr h8)
            · exact Or.inr (Or.inr h8)
          · simp only [List.map_cons, applyPlan, if_true]
            congr 1
            · have : rowValues p' cells' = rowValues p1 cells' := by
                unfold rowValues
                apply List.map_congr_left
                intro d hd
                apply h6 d
                simp only [List.mem_append, List.reverse_cons, List.flatten_append, List.flatten_cons,
                  List.flatten_nil, List.append_nil]
                exact Or.inl (Or.inr (Or.inr hd))
              rw [this, hrow1]
            · rw [h7]
              congr 1
              apply List.map_congr_left
              intro x hx
              unfold rowValues
              apply List.map_congr_left
              intro d hd
              apply hv1 d
              simp only [List.mem_append, List.mem_flatten]
              exact Or.inr (Or.inl ⟨x, hx, hd⟩)
        | err e => simp [hc] at h
        | panic w => simp [hc] at h


/-! ### the new cells fit their columns -/

/-- every assignment names a column of the table and a value that column accepts ("" as null) -/
def UpsOk (cols : List Column) (us : List (Nat × Value)) : Prop :=
  ∀ x ∈ us, ∃ col v0, cols[x.1]? = some col ∧ x.2 = storable v0 ∧ col.isValidValue v0 = true

theorem remove_sized (p : Pool) (c : Cell) (h : PoolSized p) :
    PoolSized (Cell.remove p c) ∧ (Cell.remove p c).longRefs = p.longRefs := by
  cases c with
  | str r =>
    have hl := MsiProofs.C09.decref_length p r
    have hr : (p.decref r).longRefs = p.longRefs := by
      unfold Pool.decref; split <;> rfl
    refine ⟨?_, hr⟩
    show (p.decref r).strings.length ≤ (if (p.decref r).longRefs then 16777215 else 65535)
    simp only [hl, hr]
    exact h
  | null => exact ⟨h, rfl⟩
  | int n => exact ⟨h, rfl⟩

theorem pref_set (long : Bool) (cols : List Column) (cells : List Cell) (i : Nat) (c : Cell) (col : Column)
    (hp : RowOk long cols cells) (hcol : cols[i]? = some col) (hc : Storable long col.coltype c) :
    RowOk long cols (cells.set i c) := by
  obtain ⟨hl, hj⟩ := hp
  refine ⟨by simpa using hl, ?_⟩
  intro j hjlt
  by_cases hji : j = i
  · subst hji
    refine ⟨c, col, ?_, hcol, hc⟩
    rw [List.getElem?_set_self (by omega)]
  · obtain ⟨c', col', h1, h2, h3⟩ := hj j hjlt
    exact ⟨c', col', by rw [List.getElem?_set_ne (fun e => hji e.symm)]; exact h1, h2, h3⟩

theorem cellsUpd_rowOk (cols : List Column) (us : List (Nat × Value)) (hus : UpsOk cols us) :
    ∀ (p : Pool) (cells : List Cell) (p' : Pool) (cells' : List Cell),
    PoolSized p → RowOk p.longRefs cols cells → cellsUpd p cells us = .ok (p', cells') →
    RowOk p.longRefs cols cells' ∧ PoolSized p' ∧ p'.longRefs = p.longRefs := by
  induction us with
  | nil =>
    intro p cells p' cells' hs hr h
    simp only [cellsUpd, pure, Res.ok.injEq, Prod.mk.injEq] at h
    obtain ⟨rfl, rfl⟩ := h
    exact ⟨hr, hs, rfl⟩
  | cons u rest ih =>
    intro p cells p' cells' hs hr h
    obtain ⟨i, v⟩ := u
    obtain ⟨col, v0, hcol, hv, hval⟩ := hus (i, v) (by simp)
    simp only at hcol hv
    simp only [cellsUpd, bind, Res.bind] at h
    generalize hg : cells.getD i Cell.null = old at h
    obtain ⟨hs1, hl1⟩ := remove_sized p old hs
    cases hc : Cell.create (Cell.remove p old) v with
    | ok x =>
      obtain ⟨p2, c⟩ := x
      simp only [hc] at h
      rw [hv] at hc
      obtain ⟨hst, hs2, hl2⟩ := create_storable (Cell.remove p old) col v0 p2 c hs1 hval hc
      rw [hl1] at hst
      have hr2 : RowOk p2.longRefs cols (cells.set i c) := by
        rw [hl2, hl1]; exact pref_set p.longRefs cols cells i c col hr hcol hst
      obtain ⟨h1, h2, h3⟩ := ih (fun x hx => hus x (by simp [hx])) p2 (cells.set i c) p' cells' hs2 hr2 h
      rw [hl2, hl1] at h1 h3
      exact ⟨h1, h2, h3⟩
    | err e => simp [hc] at h
    | panic w => simp [hc] at h

theorem updApply_rowOk (cols : List Column) (ups : List (Nat × Value)) (hus : UpsOk cols ups)
    (rows : List (List Cell)) : ∀ (p : Pool) (pl : List (List Value × Bool)) (acc : List (List Cell))
      (p' : Pool) (rows' : List (List Cell)),
    PoolSized p → (∀ r ∈ rows, RowOk p.longRefs cols r) → (∀ r ∈ acc, RowOk p.longRefs cols r) →
    updApply ups p rows pl acc = .ok (p', rows') →
    (∀ r ∈ rows', RowOk p.longRefs cols r) ∧ PoolSized p' ∧ p'.longRefs = p.longRefs := by
  induction rows with
  | nil =>
    intro p pl acc p' rows' hs _ hacc h
    simp only [updApply, pure, Res.ok.injEq, Prod.mk.injEq] at h
    obtain ⟨rfl, rfl⟩ := h
    exact ⟨fun r hr => hacc r (List.mem_reverse.mp hr), hs, rfl⟩
  | cons r rs ih =>
    intro p pl acc p' rows' hs hrows hacc h
    cases pl with
    | nil =>
      simp only [updApply, pure, Res.ok.injEq, Prod.mk.injEq] at h
      obtain ⟨rfl, rfl⟩ := h
      refine ⟨?_, hs, rfl⟩
      intro x hx
      simp only [List.mem_append, List.mem_reverse, List.mem_cons] at hx
      rcases hx with (rfl | hx) | hx
      · exact hrows _ (by simp)
      · exact hacc x hx
      · exact hrows x (by simp [hx])
    | cons e pl' =>
      obtain ⟨vs, m⟩ := e
      cases m with
      | false =>
        simp only [updApply, Bool.false_eq_true, if_false] at h
        exact ih p pl' (r :: acc) p' rows' hs (fun x hx => hrows x (by simp [hx]))
          (by
            intro x hx
            simp only [List.mem_cons] at hx
            rcases hx with rfl | hx
            · exact hrows _ (by simp)
            · exact hacc x hx) h
      | true =>
        simp only [updApply, if_true, bind, Res.bind] at h
        cases hc : cellsUpd p r ups with
        | ok x =>
          obtain ⟨p1, cells'⟩ := x
          simp only [hc] at h
          obtain ⟨hr1, hs1, hl1⟩ := cellsUpd_rowOk cols ups hus p r p1 cells' hs (hrows r (by simp)) hc
          obtain ⟨h1, h2, h3⟩ := ih p1 pl' (cells' :: acc) p' rows' hs1
            (fun x hx => by rw [hl1]; exact hrows x (by simp [hx]))
            (by
              intro x hx
              rw [hl1]
              simp only [List.mem_cons] at hx
              rcases hx with rfl | hx
              · exact hr1
              · exact hacc x hx) h
          rw [hl1] at h1 h3
          exact ⟨h1, h2, h3⟩
        | err e => simp [hc] at h
        | panic w => simp [hc] at h


/-! ### `Update::exec` -/

/-- the assignments as (column index, stored value) -/
def upsOf (t : Table) (updates : List (List Char × Value)) : List (Nat × Value) :=
  updates.filterMap fun x => (t.indexOfColumn x.1).map fun i => (i, storable x.2)

theorem upd_tail_ok_inv (s : Pkg) (t : Table) (ups : List (Nat × Value)) (rows : List (List Cell))
    (planned : List (List Value × Bool)) (dup : Bool) (order : List Nat) (s' : Pkg)
    (h : (if dup = true then (s, Res.err ErrKind.alreadyExists) else
      match updApply ups s.pool rows planned [] with
      | .err k => (s, .err k)
      | .panic w => (s, .panic w)
      | .ok (pool', rows') => storeRows { s with pool := pool' } t (order.map fun i => rows'.getD i [])) = (s', .ok ())) :
    ∃ pool' rows' bs, updApply ups s.pool rows planned [] = .ok (pool', rows') ∧
      t.writeRows (order.map fun i => rows'.getD i []) = .ok bs ∧
      s' = { s with pool := pool', cont := Cont.put s.cont t.streamName bs } := by
  cases dup with
  | true => simp only [if_true] at h; cases (Prod.mk.inj h).2
  | false =>
    simp only [Bool.false_eq_true, if_false] at h
    cases hu : updApply ups s.pool rows planned [] with
    | err k => simp only [hu] at h; cases (Prod.mk.inj h).2
    | panic w => simp only [hu] at h; cases (Prod.mk.inj h).2
    | ok x =>
      obtain ⟨pool', rows'⟩ := x
      simp only [hu] at h
      unfold storeRows at h
      cases hw : t.writeRows (order.map fun i => rows'.getD i []) with
      | err k => simp only [hw] at h; cases (Prod.mk.inj h).2
      | panic w => simp only [hw] at h; cases (Prod.mk.inj h).2
      | ok bs =>
        simp only [hw] at h
        exact ⟨pool', rows', bs, rfl, hw, ((Prod.mk.inj h).1).symm⟩

/-- what a successful `Update::exec` did, step by step -/
theorem updateExec_ok_inv (s : Pkg) (tname : List Char) (updates : List (List Char × Value)) (cond : Option Ast)
    (s' : Pkg) (h : updateExec s tname updates cond = (s', .ok ()))
    (t : Table) (ht : s.findTable tname = some t) (rows : List (List Cell)) (hl : s.loadRows t = .ok rows) :
    ∃ (planned : List (List Value × Bool)) (pool' : Pool) (rows' : List (List Cell)) (order : List Nat) (bs : Bytes),
      validateUpdates t updates = none ∧ condMissing t cond = false ∧
      updPlan t s.pool cond (upsOf t updates) rows [] = .ok planned ∧
      updApply (upsOf t updates) s.pool rows planned [] = .ok (pool', rows') ∧
      order.Perm (List.range rows.length) ∧
      t.writeRows (order.map fun i => rows'.getD i []) = .ok bs ∧
      s' = { s with pool := pool', cont := Cont.put s.cont t.streamName bs } := by
  unfold updateExec at h
  simp only [ht] at h
  cases hv : validateUpdates t updates with
  | some k => simp only [hv] at h; cases (Prod.mk.inj h).2
  | none =>
    simp only [hv] at h
    by_cases hm : condMissing t cond = true
    · rw [if_pos hm] at h; cases (Prod.mk.inj h).2
    rw [if_neg hm] at h
    simp only [hl] at h
    cases hp : updPlan t s.pool cond
        (List.filterMap (fun x => Option.map (fun i => (i, storable x.snd)) (t.indexOfColumn x.fst)) updates) rows [] with
    | err k => simp only [hp] at h; cases (Prod.mk.inj h).2
    | panic w => simp only [hp] at h; cases (Prod.mk.inj h).2
    | ok planned =>
      simp only [hp] at h
      obtain ⟨pool', rows', bs, h1, h2, h3⟩ := upd_tail_ok_inv s t _ rows planned _ _ s' h
      refine ⟨planned, pool', rows', _, bs, rfl, by simpa using hm, hp, h1, ?_, h2, h3⟩
      split
      · exact MsiProofs.C05.sortByKey_perm _ _
      · exact List.Perm.refl _


theorem validateUpdates_none (t : Table) (updates : List (List Char × Value)) (h : validateUpdates t updates = none) :
    ∀ x ∈ updates, ∃ i c, t.indexOfColumn x.1 = some i ∧ t.columns[i]? = some c ∧ c.isValidValue x.2 = true := by
  induction updates with
  | nil => intro x hx; simp at hx
  | cons u rest ih =>
    obtain ⟨n, v⟩ := u
    simp only [validateUpdates] at h
    cases hi : t.indexOfColumn n with
    | none => simp [hi] at h
    | some i =>
      simp only [hi] at h
      cases hc : t.columns[i]? with
      | none => simp [hc] at h
      | some c =>
        simp only [hc] at h
        by_cases hv : c.isValidValue v = true
        · rw [if_pos hv] at h
          intro x hx
          simp only [List.mem_cons] at hx
          rcases hx with rfl | hx
          · exact ⟨i, c, hi, hc, hv⟩
          · exact ih h x hx
        · rw [if_neg hv] at h; cases h

theorem upsOf_ok (t : Table) (updates : List (List Char × Value)) (h : validateUpdates t updates = none) :
    UpsOk t.columns (upsOf t updates) ∧ ∀ x ∈ upsOf t updates, x.1 < t.columns.length := by
  have hv := validateUpdates_none t updates h
  constructor
  · intro x hx
    unfold upsOf at hx
    simp only [List.mem_filterMap] at hx
    obtain ⟨u, hu, hxu⟩ := hx
    obtain ⟨i, c, h1, h2, h3⟩ := hv u hu
    simp only [h1, Option.map_some, Option.some.injEq] at hxu
    subst hxu
    exact ⟨c, u.2, h2, rfl, h3⟩
  · intro x hx
    unfold upsOf at hx
    simp only [List.mem_filterMap] at hx
    obtain ⟨u, hu, hxu⟩ := hx
    obtain ⟨i, c, h1, h2, h3⟩ := hv u hu
    simp only [h1, Option.map_some, Option.some.injEq] at hxu
    subst hxu
    exact (List.getElem?_eq_some_iff.mp h2).1

theorem map_getD_range (l : List (List Cell)) : (List.range l.length).map (fun i => l.getD i []) = l := by
  apply List.ext_getElem
  · simp
  · intro i h1 h2
    simp only [List.getElem_map, List.getElem_range, List.getD]
    simp at h1
    simp [h1]

theorem map_getD_perm (l : List (List Cell)) (order : List Nat) (h : order.Perm (List.range l.length)) :
    (order.map fun i => l.getD i []).Perm l := by
  have := h.map (fun i => l.getD i [])
  rw [map_getD_range] at this
  exact this

/-- **`Update::exec`, then read the table**: with the references of the table's cells and of any
other cells of interest accounted (`slack`), after a successful update the new state reads the
table as a re-ordering (`final`) of rows (`rows'`) that are, as values, the old rows with the
assignments ("" as null) applied to exactly the rows the plan marks; the accounting keeps the same
slack; every other cell keeps its value; no other stream is touched -/
theorem update_then_load (slack : Nat → Nat) (s : Pkg) (tname : List Char) (updates : List (List Char × Value))
    (cond : Option Ast) (s' : Pkg) (h : updateExec s tname updates cond = (s', .ok ()))
    (t : Table) (ht : s.findTable tname = some t) (rows : List (List Cell)) (hl : s.loadRows t = .ok rows)
    (others : List Cell) (hposr : PosRefs (rows.flatten ++ others))
    (hacc : AccountedWith slack s.pool (rows.flatten ++ others))
    (hs : PoolSized s.pool) (hlr : s.pool.longRefs = t.longRefs) (hpos : 0 < t.rowSize) :
    ∃ planned rows' final,
      updPlan t s.pool cond (upsOf t updates) rows [] = .ok planned ∧
      s'.loadRows t = .ok final ∧ final.Perm rows' ∧
      rows'.map (rowValues s'.pool) = applyPlan (upsOf t updates) (rows.map (rowValues s.pool)) planned ∧
      AccountedWith slack s'.pool (final.flatten ++ others) ∧ PosRefs (final.flatten ++ others) ∧
      (∀ d ∈ others, Cell.toValue s'.pool d = Cell.toValue s.pool d) ∧
      (∀ n, key t.streamName ≠ key n → dataOf s'.cont n = dataOf s.cont n) ∧
      s'.tables = s.tables ∧ PoolSized s'.pool ∧ s'.pool.longRefs = s.pool.longRefs := by
  obtain ⟨planned, pool', rows', order, bs, hv, hm, hp, hu, hperm, hw, hs'⟩ :=
    updateExec_ok_inv s tname updates cond s' h t ht rows hl
  obtain ⟨husok, hidx⟩ := upsOf_ok t updates hv
  have hwid := MsiProofs.C09.loadRows_width s t rows hl
  obtain ⟨news, h1, h2, h3, h4, h5, h6, h7⟩ := updApply_spec slack (upsOf t updates) t.columns.length hidx rows
    s.pool planned [] [] others pool' rows' hwid (by simpa using hposr) (by simpa using hacc) hu
  simp only [List.reverse_nil, List.nil_append] at h1
  subst h1
  simp only [List.reverse_nil, List.flatten_nil, List.nil_append, List.append_nil] at h4 h5 h6
  have hrok := MsiProofs.RefineLoad.loadRows_rowOk s t rows hl
  obtain ⟨hr1, hs1, hl1⟩ := updApply_rowOk t.columns (upsOf t updates) husok rows s.pool planned [] pool' rows' hs
    (by rw [hlr]; exact hrok) (fun _ hx => by simp at hx) hu
  rw [hlr] at hr1
  have hord : order.Perm (List.range rows'.length) := by rw [h2]; exact hperm
  have hfperm := map_getD_perm rows' order hord
  have hfok : ∀ r ∈ order.map (fun i => rows'.getD i []), RowOk t.longRefs t.columns r :=
    fun r hr => hr1 r (hfperm.mem_iff.mp hr)
  obtain ⟨bs2, hw2, hr2⟩ := write_read t _ hfok hpos (by
    rw [hfperm.length_eq, h2]
    exact MsiProofs.RefineLoad.loadRows_length s t rows hl)
  rw [hw] at hw2
  cases hw2
  subst hs'
  refine ⟨planned, rows', order.map (fun i => rows'.getD i []), hp, ?_, hfperm, h7, ?_, ?_, h6, ?_, rfl, hs1, hl1⟩
  · rw [MsiProofs.RefineLoad.loadRows_of_data _ t bs (dataOf_put_same _ _ _)]
    exact hr2
  · exact accountedWith_perm (List.Perm.append_right _ hfperm.flatten.symm) h4
  · intro r hr
    apply h5 r
    have := (List.Perm.append_right others hfperm.flatten).mem_iff.mp hr
    exact this
  · intro n hn
    exact dataOf_put_other _ _ _ _ hn

end MsiProofs.RefineUpdate
