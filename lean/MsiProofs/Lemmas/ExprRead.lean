import MsiModel.ExprRead
/-
Lemmas for C19: the precedence-climbing reader inverts the token form of the printer.
-/
namespace MsiProofs.ExprRead
open MsiModel

theorem parse_mono : ∀ (f : Nat) (md : Mode) (ts : List Tok) (r : Ast × List Tok),
    parse f md ts = some r → parse (f+1) md ts = some r := by
  intro f
  induction f with
  | zero => intro md ts r h; simp [parse] at h
  | succ f ih =>
    intro md ts r h
    cases md with
    | prim =>
      unfold parse at h ⊢
      split at h
      · exact h
      · exact h
      · rename_i r0
        split at h
        · rename_i e r' heq
          rw [ih _ _ _ heq]; exact h
        · simp at h
      · split at h
        · rename_i e r' heq
          rw [ih _ _ _ heq]; exact h
        · simp at h
      · split at h
        · rename_i e r' heq
          rw [ih _ _ _ heq]; exact h
        · simp at h
      · split at h
        · rename_i e r' heq
          rw [ih _ _ _ heq]; exact h
        · simp at h
      · simp at h
    | expr m =>
      unfold parse at h ⊢
      split at h
      · rename_i l r0 heq
        rw [ih _ _ _ heq]; exact ih _ _ _ h
      · simp at h
    | loop m l =>
      unfold parse at h ⊢
      split at h
      · exact h
      · rename_i t r0
        split at h
        · rename_i o ho
          split at h
          · rename_i hm
            split at h
            · rename_i rhs r' heq
              simp only [hm, if_true, ih _ _ _ heq]; exact ih _ _ _ h
            · simp at h
          · rename_i hm
            simp only [hm, if_false]; exact h
        · exact h

theorem parse_mono_le {f f' : Nat} (hle : f ≤ f') {md : Mode} {ts : List Tok} {r : Ast × List Tok}
    (h : parse f md ts = some r) : parse f' md ts = some r := by
  induction hle with
  | refl => exact h
  | step _ ih => exact parse_mono _ _ _ _ ih


/-! one-step equations of the reader -/
theorem expr_step {f m : Nat} {ts r : List Tok} {l : Ast} {x : Ast × List Tok}
    (h1 : parse f .prim ts = some (l, r)) (h2 : parse f (.loop m l) r = some x) :
    parse (f+1) (.expr m) ts = some x := by
  unfold parse; simp only [h1]; exact h2

theorem prim_lit (f : Nat) (v : Value) (r : List Tok) : parse (f+1) .prim (.lit v :: r) = some (.lit v, r) := by
  unfold parse; rfl
theorem prim_ident (f : Nat) (n : List Char) (r : List Tok) : parse (f+1) .prim (.ident n :: r) = some (.col n, r) := by
  unfold parse; rfl
theorem prim_lp {f : Nat} {r r' : List Tok} {e : Ast} (h : parse f (.expr 0) r = some (e, .rp :: r')) :
    parse (f+1) .prim (.lp :: r) = some (e, r') := by
  unfold parse; simp only [h]
theorem prim_minus {f : Nat} {r r' : List Tok} {e : Ast} (h : parse f (.expr readPrecNeg) r = some (e, r')) :
    parse (f+1) .prim (.minus :: r) = some (.un .neg e, r') := by
  unfold parse; simp only [h]
theorem prim_tilde {f : Nat} {r r' : List Tok} {e : Ast} (h : parse f (.expr readPrecNeg) r = some (e, r')) :
    parse (f+1) .prim (.tilde :: r) = some (.un .bitNot e, r') := by
  unfold parse; simp only [h]
theorem prim_not {f : Nat} {r r' : List Tok} {e : Ast} (h : parse f (.expr readPrecNot) r = some (e, r')) :
    parse (f+1) .prim (.not :: r) = some (.un .boolNot e, r') := by
  unfold parse; simp only [h]
theorem loop_step {f m : Nat} {t : Tok} {o : IOp} {r r' : List Tok} {l rhs : Ast} {x : Ast × List Tok}
    (ho : infixOf t = some o) (hm : m ≤ o.prec)
    (h1 : parse f (.expr (o.prec + 1)) r = some (rhs, r'))
    (h2 : parse f (.loop m (o.mk l rhs)) r' = some x) :
    parse (f+1) (.loop m l) (t :: r) = some x := by
  unfold parse; simp only [ho, hm, if_true, h1]; exact h2

/-- the token after an operand does not continue a level-`k` chain -/
def Stops (k : Nat) (rest : List Tok) : Prop :=
  ∀ t r o, rest = t :: r → infixOf t = some o → o.prec < k

theorem Stops.weaken {k k' : Nat} {rest : List Tok} (h : Stops k rest) (hk : k ≤ k') : Stops k' rest :=
  fun t r o h1 h2 => Nat.lt_of_lt_of_le (h t r o h1 h2) hk

theorem stops_nil (k : Nat) : Stops k [] := fun _ _ _ h _ => by cases h

theorem stops_rp (k : Nat) (r : List Tok) : Stops k (.rp :: r) := by
  intro t r' o h1 h2
  cases h1
  simp [infixOf] at h2

theorem loop_stop {k m : Nat} {rest : List Tok} (h : Stops k rest) (hk : k ≤ m) (l : Ast) (f : Nat) :
    parse (f+1) (.loop m l) rest = some (l, rest) := by
  unfold parse
  cases rest with
  | nil => rfl
  | cons t r =>
    simp only
    cases ho : infixOf t with
    | none => rfl
    | some o =>
      have := h t r o rfl ho
      have hn : ¬ m ≤ o.prec := by omega
      simp [hn]

/-- fuel that suffices to read the token form of an expression -/
def cost : Ast → Nat
  | .lit _ => 2
  | .col _ => 2
  | .un _ a => cost a + 6
  | .bin _ a b => cost a + cost b + 6
  | .and a b => cost a + cost b + 6
  | .or a b => cost a + cost b + 6

/-- what the main induction proves for one expression -/
def Reads (e : Ast) (c : Nat) : Prop :=
  ∀ (p m : Nat) (rest : List Tok) (f : Nat) (r : Ast × List Tok),
    m ≤ p → Stops (p+1) rest → parse f (.loop m e) rest = some r →
    parse (f + c) (.expr m) (toks e p ++ rest) = some r

/-- parenthesised iff looser than the context: both branches from the unparenthesised body -/
theorem wrap (e : Ast) (body : List Tok) (q c : Nat)
    (hU : ∀ (m : Nat) (rest : List Tok) (f : Nat) (r : Ast × List Tok),
      m ≤ q → Stops (q+1) rest → parse f (.loop m e) rest = some r →
      parse (f + c) (.expr m) (body ++ rest) = some r)
    (p m : Nat) (rest : List Tok) (f : Nat) (r : Ast × List Tok)
    (hm : m ≤ p) (hs : Stops (p+1) rest) (h : parse f (.loop m e) rest = some r) :
    parse (f + (c + 3)) (.expr m) (parT (decide (q < p)) body ++ rest) = some r := by
  by_cases hq : q < p
  · have hlist : parT (decide (q < p)) body ++ rest = Tok.lp :: (body ++ (Tok.rp :: rest)) := by
      simp [parT, hq]
    rw [hlist]
    have h1 : parse (1 + c) (.expr 0) (body ++ (Tok.rp :: rest)) = some (e, Tok.rp :: rest) :=
      hU 0 (Tok.rp :: rest) 1 _ (Nat.zero_le _) (stops_rp _ _) (loop_stop (stops_rp 0 rest) (Nat.le_refl _) e 0)
    have h1' : parse (f + c + 1) (.expr 0) (body ++ (Tok.rp :: rest)) = some (e, Tok.rp :: rest) :=
      parse_mono_le (by omega) h1
    have h3 : parse (f + c + 2) (.loop m e) rest = some r := parse_mono_le (by omega) h
    exact expr_step (prim_lp h1') h3
  · have hlist : parT (decide (q < p)) body ++ rest = body ++ rest := by simp [parT, hq]
    rw [hlist]
    have := hU m rest f r (by omega) (hs.weaken (by omega)) h
    exact parse_mono_le (by omega) this

theorem reads_lit (v : Value) : Reads (.lit v) 2 := by
  intro p m rest f r _ _ h
  exact expr_step (prim_lit f v rest) (parse_mono _ _ _ _ h)

theorem reads_col (n : List Char) : Reads (.col n) 2 := by
  intro p m rest f r _ _ h
  exact expr_step (prim_ident f n rest) (parse_mono _ _ _ _ h)

/-- no infix operator sits on a prefix operator's level -/
theorem infix_prec_ne (o : IOp) : o.prec ≠ readPrecNot ∧ o.prec ≠ readPrecNeg := by
  cases o with
  | bin b => cases b <;> decide
  | and => decide
  | or => decide

theorem unary_body (op : UnOp) (a : Ast) (ca : Nat) (iha : Reads a ca)
    (m : Nat) (rest : List Tok) (f : Nat) (r : Ast × List Tok)
    (_hm : m ≤ op.prec) (hs : Stops (op.prec + 1) rest) (h : parse f (.loop m (.un op a)) rest = some r) :
    parse (f + (ca + 3)) (.expr m) ((unTok op :: toks a op.prec) ++ rest) = some r := by
  have hstop : Stops op.prec rest := by
    intro t r' o h1 h2
    have := hs t r' o h1 h2
    have hne := infix_prec_ne o
    cases op <;> simp only [UnOp.prec, Gen.precNeg, Gen.precBitNot, Gen.precBoolNot, readPrecNot, readPrecNeg] at * <;> omega
  have h1 : parse (1 + ca) (.expr op.prec) (toks a op.prec ++ rest) = some (a, rest) :=
    iha op.prec op.prec rest 1 _ (Nat.le_refl _) hs (loop_stop hstop (Nat.le_refl _) a 0)
  have h1' : parse (f + ca + 1) (.expr op.prec) (toks a op.prec ++ rest) = some (a, rest) :=
    parse_mono_le (by omega) h1
  have h2 : parse (f + ca + 1 + 1) .prim (unTok op :: (toks a op.prec ++ rest)) = some (.un op a, rest) := by
    cases op
    · exact prim_minus h1'
    · exact prim_tilde h1'
    · exact prim_not h1'
  have h3 : parse (f + ca + 1 + 1) (.loop m (.un op a)) rest = some r := parse_mono_le (by omega) h
  exact expr_step h2 h3

theorem infix_body (o : IOp) (tk : Tok) (hk : infixOf tk = some o) (a b : Ast) (ca cb : Nat)
    (iha : Reads a ca) (ihb : Reads b cb)
    (m : Nat) (rest : List Tok) (f : Nat) (r : Ast × List Tok)
    (hm : m ≤ o.prec) (hs : Stops (o.prec + 1) rest) (h : parse f (.loop m (o.mk a b)) rest = some r) :
    parse (f + (ca + cb + 3)) (.expr m) ((toks a o.prec ++ tk :: toks b (o.prec + 1)) ++ rest) = some r := by
  have hb : parse (1 + cb) (.expr (o.prec + 1)) (toks b (o.prec + 1) ++ rest) = some (b, rest) :=
    ihb (o.prec + 1) (o.prec + 1) rest 1 _ (Nat.le_refl _) (hs.weaken (by omega))
      (loop_stop hs (Nat.le_refl _) b 0)
  have hb' : parse (f + cb + 2) (.expr (o.prec + 1)) (toks b (o.prec + 1) ++ rest) = some (b, rest) :=
    parse_mono_le (by omega) hb
  have hl : parse (f + cb + 2 + 1) (.loop m a) (tk :: (toks b (o.prec + 1) ++ rest)) = some r :=
    loop_step hk hm hb' (parse_mono_le (by omega) h)
  have hst : Stops (o.prec + 1) (tk :: (toks b (o.prec + 1) ++ rest)) := by
    intro t r' o' h1 h2
    cases h1
    rw [hk] at h2
    cases h2
    omega
  have := iha o.prec m _ (f + cb + 2 + 1) r hm hst hl
  have hlist : (toks a o.prec ++ tk :: toks b (o.prec + 1)) ++ rest
      = toks a o.prec ++ tk :: (toks b (o.prec + 1) ++ rest) := by simp
  rw [hlist]
  exact parse_mono_le (by omega) this

theorem infixOf_binTok (op : BinOp) : infixOf (binTok op) = some (.bin op) := by cases op <;> rfl

/-- the reader's ladder is the printer's (regenerated) precedence table -/
theorem ladder_bin (op : BinOp) : (IOp.bin op).prec = op.prec := by cases op <;> rfl
theorem ladder_and : IOp.and.prec = Gen.precAnd := rfl
theorem ladder_or : IOp.or.prec = Gen.precOr := rfl

/-- **key lemma**: reading the tokens of `e` (printed in any context `p`) from any start level
`m ≤ p`, followed by anything that does not continue a level above `p`, yields `e` as the left
operand and continues with what follows -/
theorem reads (e : Ast) : Reads e (cost e) := by
  induction e with
  | lit v => exact reads_lit v
  | col n => exact reads_col n
  | un op a iha =>
    intro p m rest f r hm hs h
    have := wrap (.un op a) (unTok op :: toks a op.prec) op.prec (cost a + 3)
      (fun m rest f r hm hs h => unary_body op a (cost a) iha m rest f r hm hs h) p m rest f r hm hs h
    simpa only [toks, cost] using this
  | bin op a b iha ihb =>
    intro p m rest f r hm hs h
    have hU := fun m rest f r hm hs h =>
      infix_body (.bin op) (binTok op) (infixOf_binTok op) a b (cost a) (cost b) iha ihb m rest f r hm hs h
    rw [ladder_bin] at hU
    have := wrap (.bin op a b) _ op.prec (cost a + cost b + 3) hU p m rest f r hm hs h
    simpa only [toks, cost] using this
  | and a b iha ihb =>
    intro p m rest f r hm hs h
    have hU := fun m rest f r hm hs h =>
      infix_body .and Tok.and rfl a b (cost a) (cost b) iha ihb m rest f r hm hs h
    rw [ladder_and] at hU
    have := wrap (.and a b) _ Gen.precAnd (cost a + cost b + 3) hU p m rest f r hm hs h
    simpa only [toks, cost] using this
  | or a b iha ihb =>
    intro p m rest f r hm hs h
    have hU := fun m rest f r hm hs h =>
      infix_body .or Tok.or rfl a b (cost a) (cost b) iha ihb m rest f r hm hs h
    rw [ladder_or] at hU
    have := wrap (.or a b) _ Gen.precOr (cost a + cost b + 3) hU p m rest f r hm hs h
    simpa only [toks, cost] using this


theorem length_parT (b : Bool) (ts : List Tok) : ts.length ≤ (parT b ts).length := by
  cases b <;> simp [parT] <;> omega

theorem cost_le (e : Ast) : ∀ p, cost e + 4 ≤ 6 * (toks e p).length := by
  induction e with
  | lit v => intro p; simp [toks, cost]
  | col n => intro p; simp [toks, cost]
  | un op a iha =>
    intro p
    have h1 := length_parT (decide (op.prec < p)) (unTok op :: toks a op.prec)
    have h2 := iha op.prec
    simp only [toks, cost, List.length_cons] at *
    omega
  | bin op a b iha ihb =>
    intro p
    have h1 := length_parT (decide (op.prec < p)) (toks a op.prec ++ binTok op :: toks b (op.prec + 1))
    have h2 := iha op.prec
    have h3 := ihb (op.prec + 1)
    simp only [toks, cost, List.length_cons, List.length_append] at *
    omega
  | and a b iha ihb =>
    intro p
    have h1 := length_parT (decide (Gen.precAnd < p)) (toks a Gen.precAnd ++ Tok.and :: toks b (Gen.precAnd + 1))
    have h2 := iha Gen.precAnd
    have h3 := ihb (Gen.precAnd + 1)
    simp only [toks, cost, List.length_cons, List.length_append] at *
    omega
  | or a b iha ihb =>
    intro p
    have h1 := length_parT (decide (Gen.precOr < p)) (toks a Gen.precOr ++ Tok.or :: toks b (Gen.precOr + 1))
    have h2 := iha Gen.precOr
    have h3 := ihb (Gen.precOr + 1)
    simp only [toks, cost, List.length_cons, List.length_append] at *
    omega

/-- **the reader inverts the printer** (token level): for every expression tree, reading the
tokens the printer writes, with the grammar's ladder, gives the tree back -/
theorem readExpr_toks (e : Ast) : readExpr (toks e 0) = some e := by
  have h := reads e 0 0 [] 1 (e, []) (Nat.le_refl _) (stops_nil _) (loop_stop (stops_nil 0) (Nat.le_refl _) e 0)
  have hc := cost_le e 0
  rw [List.append_nil] at h
  have h' : parse (6 * (toks e 0).length + 6) (.expr 0) (toks e 0) = some (e, []) :=
    parse_mono_le (by omega) h
  unfold readExpr
  rw [h']

/-- the same inside any context: an expression printed at level `p` and followed by anything
that does not continue level `p` or above is read back whole -/
theorem parse_toks_in_context (e : Ast) (p : Nat) (rest : List Tok) (hs : Stops p rest) :
    ∃ f, parse f (.expr p) (toks e p ++ rest) = some (e, rest) :=
  ⟨1 + cost e, reads e p p rest 1 _ (Nat.le_refl _) (hs.weaken (by omega)) (loop_stop hs (Nat.le_refl _) e 0)⟩


/-! ### the token form is the printer's text -/

/-- "the tokens `ts` spell the text `x` and end an operand" -/
def Spells (ts : List Tok) (x : Option (List Char)) : Prop :=
  ∀ rest, render true (ts ++ rest) =
    match x, render false rest with
    | some s, some t => some (s ++ t)
    | _, _ => none

theorem spells_par (b : Bool) (body : List Tok) (x : Option (List Char)) (h : Spells body x) :
    Spells (parT b body) (x.map (Ast.paren b)) := by
  intro rest
  cases b with
  | false =>
    have := h rest
    cases x <;> simpa [parT, Ast.paren] using this
  | true =>
    have := h (Tok.rp :: rest)
    have hl : parT true body ++ rest = Tok.lp :: (body ++ (Tok.rp :: rest)) := by simp [parT]
    rw [hl]
    show (match spell true Tok.lp, render (operandNext Tok.lp) (body ++ Tok.rp :: rest) with
      | some s, some r => some (s ++ r) | _, _ => none) = _
    have hr : render false (Tok.rp :: rest) =
        match render false rest with | some t => some (')' :: t) | none => none := by
      show (match spell false Tok.rp, render (operandNext Tok.rp) rest with
        | some s, some r => some (s ++ r) | _, _ => none) = _
      simp only [spell, operandNext]
      cases render false rest <;> rfl
    simp only [operandNext, this, hr, spell]
    cases x <;> cases render false rest <;> simp [Ast.paren]

theorem spells_un (op : UnOp) (ta : List Tok) (xa : Option (List Char)) (h : Spells ta xa) :
    Spells (unTok op :: ta) (xa.map fun s => op.text.toList ++ s) := by
  intro rest
  have := h rest
  show (match spell true (unTok op), render (operandNext (unTok op)) (ta ++ rest) with
      | some s, some r => some (s ++ r) | _, _ => none) = _
  have h1 : operandNext (unTok op) = true := by cases op <;> rfl
  have h2 : spell true (unTok op) = some op.text.toList := by cases op <;> rfl
  rw [h1, h2, this]
  cases xa <;> cases render false rest <;> simp

def join2 (txt : List Char) : Option (List Char) → Option (List Char) → Option (List Char)
  | some x, some y => some (x ++ txt ++ y)
  | _, _ => none

theorem spells_infix (tk : Tok) (txt : List Char) (h1 : operandNext tk = true) (h2 : spell false tk = some txt)
    (ta tb : List Tok) (xa xb : Option (List Char)) (ha : Spells ta xa) (hb : Spells tb xb) :
    Spells (ta ++ tk :: tb) (join2 txt xa xb) := by
  intro rest
  have hl : (ta ++ tk :: tb) ++ rest = ta ++ (tk :: (tb ++ rest)) := by simp
  rw [hl, ha]
  have : render false (tk :: (tb ++ rest)) =
      match xb, render false rest with | some y, some t => some (txt ++ (y ++ t)) | _, _ => none := by
    show (match spell false tk, render (operandNext tk) (tb ++ rest) with
      | some s, some r => some (s ++ r) | _, _ => none) = _
    rw [h1, h2, hb]
    cases xb <;> cases render false rest <;> rfl
  rw [this]
  cases xa <;> cases xb <;> cases render false rest <;> simp [join2]

theorem spell_binTok (op : BinOp) : operandNext (binTok op) = true ∧ spell false (binTok op) = some op.text.toList := by
  cases op <;> exact ⟨rfl, rfl⟩

/-- **the token form of the printer is the printer**: rendering `toks e p` (each token with the
spelling regenerated from the source, `-` by position) gives exactly `fmtP e p`, the model of
`format_with_precedence` that is diffed against the real `to_string()` on every run -/
theorem spells_toks (e : Ast) : ∀ p, Spells (toks e p) (e.fmtP p) := by
  induction e with
  | lit v =>
    intro p rest
    show (match spell true (Tok.lit v), render false rest with
      | some s, some r => some (s ++ r) | _, _ => none) = _
    rfl
  | col n =>
    intro p rest
    show (match spell true (Tok.ident n), render false rest with
      | some s, some r => some (s ++ r) | _, _ => none) = _
    rfl
  | un op a iha =>
    intro p
    have := spells_par (decide (op.prec < p)) _ _ (spells_un op _ _ (iha op.prec))
    have he : (Ast.un op a).fmtP p =
        Option.map (Ast.paren (decide (op.prec < p))) (Option.map (fun s => op.text.toList ++ s) (a.fmtP op.prec)) := by
      simp only [Ast.fmtP]
      cases a.fmtP op.prec <;> rfl
    rw [he]
    exact this
  | bin op a b iha ihb =>
    intro p
    have := spells_par (decide (op.prec < p)) _ _
      (spells_infix (binTok op) op.text.toList (spell_binTok op).1 (spell_binTok op).2 _ _ _ _ (iha op.prec) (ihb (op.prec + 1)))
    have he : (Ast.bin op a b).fmtP p = Option.map (Ast.paren (decide (op.prec < p)))
        (join2 op.text.toList (a.fmtP op.prec) (b.fmtP (op.prec + 1))) := by
      simp only [Ast.fmtP]
      cases a.fmtP op.prec <;> cases b.fmtP (op.prec + 1) <;> rfl
    rw [he]
    exact this
  | and a b iha ihb =>
    intro p
    have := spells_par (decide (Gen.precAnd < p)) _ _
      (spells_infix Tok.and Gen.textAnd.toList rfl rfl _ _ _ _ (iha Gen.precAnd) (ihb (Gen.precAnd + 1)))
    have he : (Ast.and a b).fmtP p = Option.map (Ast.paren (decide (Gen.precAnd < p)))
        (join2 Gen.textAnd.toList (a.fmtP Gen.precAnd) (b.fmtP (Gen.precAnd + 1))) := by
      simp only [Ast.fmtP]
      cases a.fmtP Gen.precAnd <;> cases b.fmtP (Gen.precAnd + 1) <;> rfl
    rw [he]
    exact this
  | or a b iha ihb =>
    intro p
    have := spells_par (decide (Gen.precOr < p)) _ _
      (spells_infix Tok.or Gen.textOr.toList rfl rfl _ _ _ _ (iha Gen.precOr) (ihb (Gen.precOr + 1)))
    have he : (Ast.or a b).fmtP p = Option.map (Ast.paren (decide (Gen.precOr < p)))
        (join2 Gen.textOr.toList (a.fmtP Gen.precOr) (b.fmtP (Gen.precOr + 1))) := by
      simp only [Ast.fmtP]
      cases a.fmtP Gen.precOr <;> cases b.fmtP (Gen.precOr + 1) <;> rfl
    rw [he]
    exact this

theorem render_toks (e : Ast) : render true (toks e 0) = e.fmt := by
  have := spells_toks e 0 []
  rw [List.append_nil] at this
  rw [this]
  show (match e.fmtP 0, some [] with | some s, some t => some (s ++ t) | _, _ => none) = e.fmtP 0
  cases e.fmtP 0 <;> simp

end MsiProofs.ExprRead
