import MsiProofs.Lemmas.Frame
import MsiProofs.Lemmas.SortUpd
import Batteries.Data.List.Perm
/-
Refinement to the relational model (property C03).  The *view* of a package is what the API
shows of its tables: for every table definition, its rows as values.  Each statement —
`Insert::exec`, `Delete::exec`, `Update::exec` — changes the view exactly as the plain relational
model says, in every state satisfying the package invariant:

* insert: the target table's rows become a permutation of the old rows plus the given rows
  ("" stored as null), in strictly ascending key order;
* delete: exactly the rows on which the condition (evaluated on the row's values) is false
  remain, in order;
* update: a permutation of the old rows with the assignments applied to exactly the rows on
  which the condition is true, in strictly ascending key order;
* every other table shows exactly the same rows, the table list is the same, and a refused
  statement changes nothing at all.

Strictly ascending lists that are permutations of each other are equal (`ascending_perm_unique`),
so "ascending + permutation of X" determines the result list uniquely: the view after a statement
is a function of the view before it and of the statement.
-/
namespace MsiProofs.Relational
open MsiModel MsiModel.Bytes MsiModel.Pkg MsiProofs.GlobalInv MsiProofs.SortedInv MsiProofs.Frame
open MsiProofs.Refine MsiProofs.RefineDelete MsiProofs.RefineExact MsiProofs.RowsOk MsiProofs.SaveOpen
open MsiProofs.RefineUpdate

/-- the rows of a table as the API reports them: values, not cells -/
def tableView (s : Pkg) (t : Table) : List (List Value) := (rowsOf s t).map (rowValues s.pool)

/-- the abstract database: every table definition with its rows -/
def view (s : Pkg) : List (Table × List (List Value)) := s.tables.map fun t => (t, tableView s t)

/-- the key of a row of values -/
def keyV (t : Table) (vals : List Value) : List Value := keyOf t.keyIndices vals

/-- strictly ascending key order -/
def Ascending (t : Table) (rows : List (List Value)) : Prop :=
  (rows.map (keyV t)).Pairwise fun a b => keyLt a b = true

/-- a condition evaluated on the values of a row (what the relational model evaluates) -/
def condV (t : Table) (cond : Option Ast) (vals : List Value) : Res Bool :=
  match cond with
  | none => pure true
  | some e => do
    let v ← e.eval (mkRow t vals)
    pure v.toBool

theorem evalCond_eq (t : Table) (p : Pool) (cond : Option Ast) (r : List Cell) :
    evalCond t p cond r = condV t cond (rowValues p r) := by
  cases cond <;> rfl

theorem tableView_ok {s : Pkg} {t : Table} {rows : List (List Cell)} (h : s.loadRows t = .ok rows) :
    tableView s t = rows.map (rowValues s.pool) := by
  unfold tableView; rw [rowsOf_ok h]

theorem ascending_of_keys {p : Pool} {t : Table} {rows : List (List Cell)} (h : KeysAscending p t rows) :
    Ascending t (rows.map (rowValues p)) := by
  unfold Ascending keyV
  unfold KeysAscending at h
  rw [List.map_map]
  exact h

/-- in a sorted package every table's view is in strictly ascending key order -/
theorem view_ascending (s : Pkg) (hS : SortedAll s) (t : Table) (ht : t ∈ s.tables) : Ascending t (tableView s t) := by
  unfold tableView rowsOf
  cases hl : s.loadRows t with
  | ok rows => exact ascending_of_keys (hS t ht rows hl)
  | err k => simp [Ascending]
  | panic w => simp [Ascending]

/-- strictly ascending rows are pairwise different -/
theorem ascending_nodup {t : Table} {rows : List (List Value)} (h : Ascending t rows) : rows.Nodup := by
  unfold Ascending at h
  rw [List.pairwise_map] at h
  exact h.imp fun hab e => by rw [e, MsiProofs.Order.keyLt_irrefl] at hab; cases hab

/-- **ascending order + the same rows = the same list**: the relational result is unique -/
theorem ascending_perm_unique (t : Table) : ∀ (l1 l2 : List (List Value)), Ascending t l1 → Ascending t l2 →
    l1.Perm l2 → l1 = l2
  | [], l2, _, _, hp => by rw [List.nil_perm] at hp; exact hp.symm
  | a :: l1, [], _, _, hp => by rw [List.perm_nil] at hp; cases hp
  | a :: l1, b :: l2, h1, h2, hp => by
    unfold Ascending at h1 h2
    simp only [List.map_cons, List.pairwise_cons, List.mem_map, forall_exists_index, and_imp,
      forall_apply_eq_imp_iff₂] at h1 h2
    have hab : a = b := by
      have ha : a ∈ b :: l2 := hp.subset (List.mem_cons_self ..)
      have hb : b ∈ a :: l1 := hp.symm.subset (List.mem_cons_self ..)
      simp only [List.mem_cons] at ha hb
      rcases ha with rfl | ha
      · rfl
      · rcases hb with rfl | hb
        · rfl
        · have x1 := h2.1 a ha
          have x2 := h1.1 b hb
          rw [MsiProofs.Order.keyLt_asymm x1] at x2; cases x2
    subst hab
    have := ascending_perm_unique t l1 l2 h1.2 h2.2 (List.Perm.cons_inv hp)
    rw [this]

/-- rows with the same members, of which one list has no duplicates and is not shorter, are
permutations of each other -/
theorem perm_of_mem_iff {α} [DecidableEq α] (R L : List α) (hn : R.Nodup) (hm : ∀ a, a ∈ R ↔ a ∈ L)
    (hl : R.length = L.length) : R.Perm L :=
  (List.subperm_of_subset hn fun a ha => (hm a).mp ha).perm_of_length_le (by omega)

/-! ### insert -/

/-- **`Insert::exec` refines the relational insert** -/
theorem insert_view (slack : Nat → Nat) (s : Pkg) (hI : Inv slack s) (tname : List Char)
    (rows : List (List Value)) (s' : Pkg) (h : insertExec s tname rows = (s', .ok ()))
    (t : Table) (ht : s.findTable tname = some t) :
    s'.tables = s.tables ∧
    (tableView s' t).Perm (tableView s t ++ rows.map fun r => r.map storable) ∧
    Ascending t (tableView s' t) ∧
    (∀ x ∈ s.tables, x.name ≠ tname → tableView s' x = tableView s x) := by
  have htm := findTable_spec s tname t ht
  obtain ⟨existing, hl⟩ := hI.loads t htm
  have hliveAll := live_of_accounted slack s.pool _ hI.pos hI.counts
  have hlive : ∀ r ∈ existing, ∀ c ∈ r, LiveCell s.pool c :=
    fun r hr c hc => hliveAll c (mem_cellsOfTables htm hl hr hc)
  obtain ⟨hlr, hrs⟩ := hI.widths t htm
  obtain ⟨stored, hl', hmem, hsorted, hlen, -⟩ :=
    MsiProofs.RefineLoad.insert_then_load s tname rows s' h t ht existing hl hlive hI.sized hlr hrs
  have hk := insert_kept slack s tname rows s' hI h
  have hasc : Ascending t (tableView s' t) := by
    rw [tableView_ok hl']; exact ascending_of_keys hsorted
  refine ⟨hk.tables, ?_, hasc, ?_⟩
  · apply perm_of_mem_iff _ _ (ascending_nodup hasc)
    · intro v
      rw [tableView_ok hl', tableView_ok hl, List.mem_append]
      exact hmem v
    · rw [tableView_ok hl', tableView_ok hl]
      simp only [List.length_map, List.length_append]
      exact hlen
  · intro x hx hne
    unfold tableView rowsOf
    rw [hk.rows x hx hne]
    cases hlx : s.loadRows x with
    | ok rws =>
      simp only
      exact List.map_congr_left fun r hr => hk.vals x hx hne rws hlx r hr
    | err k => rfl
    | panic w => rfl


/-- every other table shows the same rows -/
theorem others_same {s s' : Pkg} {tname : List Char} (hk : Kept s s' tname) :
    ∀ x ∈ s.tables, x.name ≠ tname → tableView s' x = tableView s x := by
  intro x hx hne
  unfold tableView rowsOf
  rw [hk.rows x hx hne]
  cases hlx : s.loadRows x with
  | ok rws =>
    simp only
    exact List.map_congr_left fun r hr => hk.vals x hx hne rws hlx r hr
  | err k => rfl
  | panic w => rfl

/-- splitting the cells of all tables at one table -/
theorem cells_split (slack : Nat → Nat) (s : Pkg) (hI : Inv slack s) (t : Table) (htm : t ∈ s.tables)
    (existing : List (List Cell)) (hl : s.loadRows t = .ok existing) :
    ∃ others, PosRefs (existing.flatten ++ others) ∧ AccountedWith slack s.pool (existing.flatten ++ others) := by
  obtain ⟨pre, post, hsplit⟩ := split_at_table s.tables t htm
  have hcells : cellsOfTables s s.tables =
      cellsOfTables s pre ++ existing.flatten ++ cellsOfTables s post := by
    rw [hsplit, cellsOfTables_split, rowsOf_ok hl]
  have hperm : (cellsOfTables s s.tables).Perm (existing.flatten ++ (cellsOfTables s pre ++ cellsOfTables s post)) := by
    rw [hcells]
    simp only [List.append_assoc]
    exact List.perm_append_comm_assoc _ _ _
  exact ⟨_, fun r hr => hI.pos r (hperm.mem_iff.mpr hr), accountedWith_perm hperm hI.counts⟩

/-! ### delete -/

/-- **`Delete::exec` refines the relational delete**: exactly the rows on which the condition,
evaluated on the row's values, is false remain — in order, with their values -/
theorem delete_view (slack : Nat → Nat) (s : Pkg) (hI : Inv slack s) (tname : List Char)
    (cond : Option Ast) (s' : Pkg) (h : deleteExec s tname cond = (s', .ok ()))
    (t : Table) (ht : s.findTable tname = some t) :
    s'.tables = s.tables ∧
    tableView s' t = (tableView s t).filter (fun vals => condV t cond vals == .ok false) ∧
    (∀ x ∈ s.tables, x.name ≠ tname → tableView s' x = tableView s x) := by
  have htm := findTable_spec s tname t ht
  obtain ⟨existing, hl⟩ := hI.loads t htm
  obtain ⟨others, hpos, hacc⟩ := cells_split slack s hI t htm existing hl
  obtain ⟨-, hrs⟩ := hI.widths t htm
  obtain ⟨hl', hv, -⟩ := MsiProofs.RefineLoad.delete_then_load s tname cond s' h t ht existing hl others hpos
    (hacc.accounted hpos) hrs
  have hk := delete_kept slack s tname cond s' hI h
  refine ⟨hk.tables, ?_, others_same hk⟩
  rw [tableView_ok hl', tableView_ok hl, List.filter_map]
  have hf : (fun r => evalCond t s.pool cond r == .ok false) =
      ((fun vals => condV t cond vals == .ok false) ∘ rowValues s.pool) := by
    funext r; simp only [Function.comp, evalCond_eq]
  rw [← hf]
  apply List.map_congr_left
  intro r hr
  unfold rowValues
  apply List.map_congr_left
  intro c hc
  exact hv c (List.mem_append_left _ (List.mem_flatten.mpr ⟨r, hr, hc⟩))


/-! ### update -/

/-- what the relational model makes of one row under an UPDATE -/
def updRow (t : Table) (cond : Option Ast) (ups : List (Nat × Value)) (vals : List Value) : List Value :=
  if condV t cond vals == .ok true then applyUps ups vals else vals

/-- the plan of `Update::exec` marks exactly the rows on which the condition is true -/
theorem updPlan_view (t : Table) (p : Pool) (cond : Option Ast) (ups : List (Nat × Value))
    (rows : List (List Cell)) : ∀ (acc planned : List (List Value × Bool)),
    updPlan t p cond ups rows acc = .ok planned →
    ∃ tail, planned = acc.reverse ++ tail ∧
      applyPlan ups (rows.map (rowValues p)) tail = (rows.map (rowValues p)).map (updRow t cond ups) := by
  induction rows with
  | nil =>
    intro acc planned h
    simp only [updPlan, pure, Res.ok.injEq] at h
    exact ⟨[], by simp [h], rfl⟩
  | cons r rs ih =>
    intro acc planned h
    simp only [updPlan, bind, Res.bind] at h
    cases he : evalCond t p cond r with
    | ok m =>
      simp only [he] at h
      obtain ⟨tail, h1, h2⟩ := ih _ planned h
      refine ⟨((if m = true then List.foldl (fun vs x => vs.set x.fst x.snd) (rowValues p r) ups else rowValues p r), m) :: tail,
        by rw [h1]; simp, ?_⟩
      simp only [List.map_cons, applyPlan]
      rw [h2]
      congr 1
      unfold updRow
      rw [← evalCond_eq, he]
      cases m <;> rfl
    | err e => simp [he] at h
    | panic w => simp [he] at h

/-- **`Update::exec` refines the relational update**: the table's rows become a permutation of the
old rows with the assignments ("" as null) applied to exactly the rows on which the condition is
true, in strictly ascending key order -/
theorem update_view (slack : Nat → Nat) (s : Pkg) (hI : Inv slack s) (hS : SortedAll s) (tname : List Char)
    (updates : List (List Char × Value)) (cond : Option Ast) (s' : Pkg)
    (h : updateExec s tname updates cond = (s', .ok ()))
    (t : Table) (ht : s.findTable tname = some t) :
    s'.tables = s.tables ∧
    (tableView s' t).Perm ((tableView s t).map (updRow t cond (upsOf t updates))) ∧
    Ascending t (tableView s' t) ∧
    (∀ x ∈ s.tables, x.name ≠ tname → tableView s' x = tableView s x) := by
  have htm := findTable_spec s tname t ht
  obtain ⟨existing, hl⟩ := hI.loads t htm
  obtain ⟨others, hpos, hacc⟩ := cells_split slack s hI t htm existing hl
  obtain ⟨hlr, hrs⟩ := hI.widths t htm
  obtain ⟨planned, rows', final, hp, hl', hperm, hvals, -, -, -, -, htabs, -⟩ :=
    update_then_load slack s tname updates cond s' h t ht existing hl others hpos hacc hI.sized hlr hrs
  have hk := update_kept slack s tname updates cond s' hI h
  have hS' := MsiProofs.SortUpd.update_sorted slack s tname updates cond s' hI hS h
  refine ⟨htabs, ?_, view_ascending s' hS' t (by rw [htabs]; exact htm), others_same hk⟩
  obtain ⟨tail, h1, h2⟩ := updPlan_view t s.pool cond (upsOf t updates) existing [] planned hp
  simp only [List.reverse_nil, List.nil_append] at h1
  subst h1
  rw [tableView_ok hl', tableView_ok hl, ← h2, ← hvals]
  exact hperm.map _


/-! ### statements, accepted or refused; histories -/

open MsiProofs.GlobalInvUpd in
/-- what the call returns -/
def reply (s : Pkg) : MsiProofs.GlobalInvUpd.Op → Res Unit
  | .insert t rows => (insertExec s t rows).2
  | .delete t cond => (deleteExec s t cond).2
  | .update t ups cond => (updateExec s t ups cond).2

/-- **the relational model of one statement**: what table `t` holds afterwards (`new`), given what
it held before (`old`) -/
def SpecResult (t : Table) : MsiProofs.GlobalInvUpd.Op → List (List Value) → List (List Value) → Prop
  | .insert _ rows, old, new => new.Perm (old ++ rows.map fun r => r.map storable) ∧ Ascending t new
  | .delete _ cond, old, new => new = old.filter fun vals => condV t cond vals == .ok false
  | .update _ ups cond, old, new => new.Perm (old.map (updRow t cond (upsOf t ups))) ∧ Ascending t new

/-- the model determines the result: it is a function of the old rows and the statement -/
theorem specResult_unique (t : Table) (op : MsiProofs.GlobalInvUpd.Op) (old n1 n2 : List (List Value))
    (h1 : SpecResult t op old n1) (h2 : SpecResult t op old n2) : n1 = n2 := by
  cases op with
  | insert _ rows => exact ascending_perm_unique t n1 n2 h1.2 h2.2 (h1.1.trans h2.1.symm)
  | delete _ cond => rw [h1, h2]
  | update _ ups cond => exact ascending_perm_unique t n1 n2 h1.2 h2.2 (h1.1.trans h2.1.symm)

/-- one statement, from state `s` to state `s'` with the given reply, behaves as the relational
model says -/
structure Refines (s s' : Pkg) (op : MsiProofs.GlobalInvUpd.Op) (r : Res Unit) : Prop where
  /-- the table definitions are untouched -/
  tables : s'.tables = s.tables
  /-- every other table shows exactly the rows it showed -/
  others : ∀ x ∈ s.tables, x.name ≠ target op → tableView s' x = tableView s x
  /-- a refused statement changes nothing at all -/
  refused : r ≠ .ok () → s' = s
  /-- an accepted statement changes its table as the model says -/
  accepted : r = .ok () → ∃ t, s.findTable (target op) = some t ∧
    SpecResult t op (tableView s t) (tableView s' t)

/-- **every statement refines the relational model**, in every state with the package invariant
and ascending keys -/
theorem op_refines (slack : Nat → Nat) (s : Pkg) (hI : Inv slack s) (hS : SortedAll s)
    (op : MsiProofs.GlobalInvUpd.Op) : Refines s (op.run s) op (reply s op) := by
  have hk := op_kept slack s hI op
  refine ⟨hk.tables, others_same hk, ?_, ?_⟩
  · intro hr
    cases op with
    | insert t rows => exact insert_refused_noop slack s t rows hI hr
    | delete t cond => exact delete_refused_noop slack s t cond hI hr
    | update t ups cond => exact MsiProofs.GlobalInvUpd.update_refused_noop slack s t ups cond hI hr
  · intro hr
    cases op with
    | insert tn rows =>
      have h : insertExec s tn rows = ((insertExec s tn rows).1, .ok ()) := by rw [← hr]; rfl
      cases hf : s.findTable tn with
      | none =>
        unfold insertExec at h
        simp only [hf] at h
        cases (Prod.mk.inj h).2
      | some t =>
        obtain ⟨-, h2, h3, -⟩ := insert_view slack s hI tn rows _ h t hf
        exact ⟨t, hf, h2, h3⟩
    | delete tn cond =>
      have h : deleteExec s tn cond = ((deleteExec s tn cond).1, .ok ()) := by rw [← hr]; rfl
      cases hf : s.findTable tn with
      | none =>
        unfold deleteExec at h
        simp only [hf] at h
        cases (Prod.mk.inj h).2
      | some t =>
        obtain ⟨-, h2, -⟩ := delete_view slack s hI tn cond _ h t hf
        exact ⟨t, hf, h2⟩
    | update tn ups cond =>
      have h : updateExec s tn ups cond = ((updateExec s tn ups cond).1, .ok ()) := by rw [← hr]; rfl
      cases hf : s.findTable tn with
      | none =>
        unfold updateExec at h
        simp only [hf] at h
        cases (Prod.mk.inj h).2
      | some t =>
        obtain ⟨-, h2, h3, -⟩ := update_view slack s hI hS tn ups cond _ h t hf
        exact ⟨t, hf, h2, h3⟩

/-- **every step of every history refines the relational model**: whatever statements came before
(accepted or refused, on any tables), the next one changes the view exactly as the model says -/
theorem history_refines (slack : Nat → Nat) (s : Pkg) (hI : Inv slack s) (hS : SortedAll s)
    (before : List MsiProofs.GlobalInvUpd.Op) (op : MsiProofs.GlobalInvUpd.Op) :
    Refines (before.foldl MsiProofs.GlobalInvUpd.Op.run s) (op.run (before.foldl MsiProofs.GlobalInvUpd.Op.run s)) op
      (reply (before.foldl MsiProofs.GlobalInvUpd.Op.run s) op) := by
  obtain ⟨hi', hs'⟩ := MsiProofs.SortUpd.history_sorted slack before s hI hS
  exact op_refines slack _ hi' hs' op

end MsiProofs.Relational
