import MsiProofs.Lemmas.StreamsMap
import MsiProofs.Props.C05
import MsiProofs.Props.C08
/-
`Insert::exec` against the relational reading of the package: the values of the rows it
writes are exactly the values of the rows that were stored plus the new rows (with "" stored
as null), in key order; the values of all other stored cells are unchanged (the string pool only
grows: live entries keep their text); no other stream of the container is touched.
-/
namespace MsiProofs.Refine
open MsiModel MsiModel.Bytes MsiModel.Pkg MsiProofs.Order MsiProofs.SaveOpen MsiProofs.Synced

/-- `p'` extends `p`: every live entry of `p` is live in `p'` with the same text -/
def Ext (p p' : Pool) : Prop := ∀ q, 0 < p.refcount q → p'.get q = p.get q ∧ 0 < p'.refcount q

theorem Ext.refl (p : Pool) : Ext p p := fun _ h => ⟨rfl, h⟩
theorem Ext.trans {a b c : Pool} (h1 : Ext a b) (h2 : Ext b c) : Ext a c := by
  intro q hq
  obtain ⟨e1, l1⟩ := h1 q hq
  obtain ⟨e2, l2⟩ := h2 q l1
  exact ⟨e2.trans e1, l2⟩

theorem increfScan_stable (s : List Char) (l : List (List Char × Nat)) : ∀ (i : Nat) (l' : List (List Char × Nat)) (r : Nat),
    Pool.increfScan s l i = some (l', r) →
    ∀ (j : Nat) (st : List Char) (rc : Nat), l[j]? = some (st, rc) → 0 < rc → ∃ rc', l'[j]? = some (st, rc') ∧ 0 < rc' := by
  induction l with
  | nil => intro i l' r h; simp [Pool.increfScan] at h
  | cons e rest ih =>
    intro i l' r h j st rc hj hpos
    obtain ⟨st0, rc0⟩ := e
    simp only [Pool.increfScan] at h
    split at h
    · rename_i h0
      cases h
      cases j with
      | zero => simp only [List.getElem?_cons_zero, Option.some.injEq, Prod.mk.injEq] at hj; omega
      | succ j' => exact ⟨rc, by simpa using hj, hpos⟩
    · split at h
      · rename_i hne heq
        cases h
        cases j with
        | zero =>
          simp only [List.getElem?_cons_zero, Option.some.injEq, Prod.mk.injEq] at hj
          exact ⟨rc0 + 1, by simp [hj.1], by omega⟩
        | succ j' => exact ⟨rc, by simpa using hj, hpos⟩
      · cases hr : Pool.increfScan s rest (i + 1) with
        | none => simp [hr] at h
        | some x =>
          obtain ⟨rest', r'⟩ := x
          simp only [hr, Option.some.injEq, Prod.mk.injEq] at h
          obtain ⟨rfl, rfl⟩ := h
          cases j with
          | zero => exact ⟨rc, by simpa using hj, hpos⟩
          | succ j' =>
            obtain ⟨rc', h1, h2⟩ := ih (i + 1) rest' r' hr j' st rc (by simpa using hj) hpos
            exact ⟨rc', by simpa using h1, h2⟩

theorem get_refcount_of_entry (p : Pool) (q : Nat) (st : List Char) (rc : Nat) (h : p.strings[q - 1]? = some (st, rc)) :
    p.get q = st ∧ p.refcount q = rc := by
  unfold Pool.get Pool.refcount
  simp [h]

theorem live_entry (p : Pool) (q : Nat) (h : 0 < p.refcount q) : ∃ st rc, p.strings[q - 1]? = some (st, rc) ∧ 0 < rc := by
  unfold Pool.refcount at h
  cases he : p.strings[q - 1]? with
  | none => simp [he] at h
  | some e => obtain ⟨st, rc⟩ := e; exact ⟨st, rc, rfl, by simpa [he] using h⟩

/-- **`incref` only extends the pool**: the returned reference reads as the string, and every
live entry keeps its text and stays live -/
theorem incref_ext (p : Pool) (s : List Char) (p' : Pool) (r : Nat) (h : p.incref s = .ok (p', r)) :
    Ext p p' ∧ p'.get r = s ∧ 0 < p'.refcount r := by
  obtain ⟨-, -, rc, hent, hpos⟩ := MsiProofs.C08.incref_accounting p s p' r h
  obtain ⟨hg, hr⟩ := get_refcount_of_entry p' r s rc hent
  refine ⟨?_, hg, by rw [hr]; exact hpos⟩
  intro q hq
  obtain ⟨st, rcq, hqe, hqpos⟩ := live_entry p q hq
  obtain ⟨hg0, -⟩ := get_refcount_of_entry p q st rcq hqe
  unfold Pool.incref at h
  cases hs : Pool.increfScan s p.strings 0 with
  | some x =>
    obtain ⟨strings, r'⟩ := x
    simp only [hs, Res.ok.injEq, Prod.mk.injEq] at h
    obtain ⟨rfl, rfl⟩ := h
    obtain ⟨rc', h1, h2⟩ := increfScan_stable s p.strings 0 strings r' hs (q - 1) st rcq hqe hqpos
    obtain ⟨hg1, hr1⟩ := get_refcount_of_entry { p with strings := strings, modified := true } q st rc' h1
    exact ⟨hg1.trans hg0.symm, by rw [hr1]; exact h2⟩
  | none =>
    simp only [hs] at h
    split at h
    · cases h
    · split at h
      · cases h
      · cases h
        have hlt : q - 1 < p.strings.length := by
          have := List.getElem?_eq_some_iff.mp hqe
          exact this.1
        have h1 : (p.strings ++ [(s, 1)])[q - 1]? = some (st, rcq) := by
          rw [List.getElem?_append_left hlt]; exact hqe
        obtain ⟨hg1, hr1⟩ := get_refcount_of_entry
          { p with strings := p.strings ++ [(s, 1)], modified := true } q st rcq h1
        exact ⟨hg1.trans hg0.symm, by rw [hr1]; exact hqpos⟩

/-- a stored cell that refers to a live pool entry (or to none) -/
def LiveCell (p : Pool) : Cell → Prop
  | .str r => 0 < p.refcount r
  | _ => True

theorem toValue_ext {p p' : Pool} (h : Ext p p') (c : Cell) (hc : LiveCell p c) :
    Cell.toValue p' c = Cell.toValue p c ∧ LiveCell p' c := by
  cases c with
  | null => exact ⟨rfl, trivial⟩
  | int n => exact ⟨rfl, trivial⟩
  | str r =>
    obtain ⟨h1, h2⟩ := h r hc
    exact ⟨by simp [Cell.toValue, h1], h2⟩

theorem rowValues_ext {p p' : Pool} (h : Ext p p') (cells : List Cell) (hc : ∀ c ∈ cells, LiveCell p c) :
    rowValues p' cells = rowValues p cells ∧ ∀ c ∈ cells, LiveCell p' c := by
  unfold rowValues
  refine ⟨List.map_congr_left fun c hcm => (toValue_ext h c (hc c hcm)).1, fun c hcm => (toValue_ext h c (hc c hcm)).2⟩

theorem create_ext (p : Pool) (v : Value) (p' : Pool) (c : Cell) (h : Cell.create p v = .ok (p', c)) :
    Ext p p' ∧ Cell.toValue p' c = v ∧ LiveCell p' c := by
  cases v with
  | null => cases h; exact ⟨.refl _, rfl, trivial⟩
  | int n => cases h; exact ⟨.refl _, rfl, trivial⟩
  | str s =>
    simp only [Cell.create, bind, Res.bind] at h
    cases hi : p.incref s with
    | ok x =>
      obtain ⟨q, r⟩ := x
      simp only [hi, pure, Res.ok.injEq, Prod.mk.injEq] at h
      obtain ⟨rfl, rfl⟩ := h
      obtain ⟨he, hg, hl⟩ := incref_ext p s q r hi
      exact ⟨he, by simp [Cell.toValue, hg], hl⟩
    | err k => simp [hi] at h
    | panic w => simp [hi] at h

theorem createCells_ext (vs : List Value) : ∀ (p : Pool) (acc : List Cell) (p' : Pool) (cs : List Cell),
    (∀ c ∈ acc, LiveCell p c) → createCells p vs acc = .ok (p', cs) →
    Ext p p' ∧ rowValues p' cs = rowValues p acc.reverse ++ vs ∧ ∀ c ∈ cs, LiveCell p' c := by
  induction vs with
  | nil =>
    intro p acc p' cs hacc h
    simp only [createCells, pure, Res.ok.injEq, Prod.mk.injEq] at h
    obtain ⟨rfl, rfl⟩ := h
    exact ⟨.refl _, by simp, fun c hc => hacc c (List.mem_reverse.mp hc)⟩
  | cons v rest ih =>
    intro p acc p' cs hacc h
    simp only [createCells, bind, Res.bind] at h
    cases hc : Cell.create p v with
    | ok x =>
      obtain ⟨p1, c⟩ := x
      simp only [hc] at h
      obtain ⟨he1, hv1, hl1⟩ := create_ext p v p1 c hc
      have hacc1 : ∀ d ∈ c :: acc, LiveCell p1 d := by
        intro d hd
        simp only [List.mem_cons] at hd
        rcases hd with rfl | hd
        · exact hl1
        · exact (toValue_ext he1 d (hacc d hd)).2
      obtain ⟨he2, hv2, hl2⟩ := ih p1 (c :: acc) p' cs hacc1 h
      refine ⟨he1.trans he2, ?_, hl2⟩
      rw [hv2]
      have hrev : rowValues p1 (c :: acc).reverse = rowValues p acc.reverse ++ [v] := by
        have h1 := (rowValues_ext he1 acc.reverse (fun d hd => hacc d (List.mem_reverse.mp hd))).1
        simp only [List.reverse_cons]
        unfold rowValues at h1 ⊢
        rw [List.map_append, h1]
        simp [hv1]
      rw [hrev]
      simp
    | err k => simp [hc] at h
    | panic w => simp [hc] at h


/-- all cells of all rows of a key-sorted map refer to live entries -/
def LiveMap (p : Pool) (m : RowMap) : Prop := ∀ e ∈ m, ∀ c ∈ e.2, LiveCell p c

/-- the rows of a map as values -/
def mapValues (p : Pool) (m : RowMap) : List (List Value) := m.map fun e => rowValues p e.2

theorem mapValues_ext {p p' : Pool} (h : Ext p p') (m : RowMap) (hl : LiveMap p m) :
    mapValues p' m = mapValues p m ∧ LiveMap p' m := by
  unfold mapValues
  refine ⟨List.map_congr_left fun e he => (rowValues_ext h e.2 (hl e he)).1, fun e he => (rowValues_ext h e.2 (hl e he)).2⟩

/-- **adding rows to the map**: the pool is only extended, the map stays sorted and live, and its
rows as values are the old rows plus the new ones -/
theorem addRows_ext (keyIdx : List Nat) (rows : List (List Value)) : ∀ (p : Pool) (m : RowMap) (p' : Pool) (m' : RowMap),
    Sorted m → LiveMap p m → addRows keyIdx p rows m = .ok (p', m') →
    Ext p p' ∧ Sorted m' ∧ LiveMap p' m' ∧
    (∀ v, v ∈ mapValues p' m' ↔ v ∈ mapValues p m ∨ v ∈ rows) := by
  induction rows with
  | nil =>
    intro p m p' m' hs hl h
    simp only [addRows, pure, Res.ok.injEq, Prod.mk.injEq] at h
    obtain ⟨rfl, rfl⟩ := h
    exact ⟨.refl _, hs, hl, fun v => by simp⟩
  | cons r rs ih =>
    intro p m p' m' hs hl h
    simp only [addRows, bind, Res.bind] at h
    cases hc : createCells p r [] with
    | ok x =>
      obtain ⟨p1, cells⟩ := x
      simp only [hc] at h
      obtain ⟨he1, hv1, hl1⟩ := createCells_ext r p [] p1 cells (fun _ hx => by simp at hx) hc
      simp only [List.reverse_nil, rowValues, List.map_nil, List.nil_append] at hv1
      cases hm : mapInsert (keyOf keyIdx r) cells m with
      | none => simp [hm] at h
      | some m1 =>
        simp only [hm] at h
        obtain ⟨hs1, hmem⟩ := mapInsert_sorted hs hm
        obtain ⟨hmv, hml⟩ := mapValues_ext he1 m hl
        have hl1' : LiveMap p1 m1 := by
          intro e he
          rcases (hmem e).mp he with rfl | he
          · exact hl1
          · exact hml e he
        obtain ⟨he2, hs2, hl2, hmem2⟩ := ih p1 m1 p' m' hs1 hl1' h
        refine ⟨he1.trans he2, hs2, hl2, ?_⟩
        intro v
        rw [hmem2 v]
        have hm1 : v ∈ mapValues p1 m1 ↔ v = r ∨ v ∈ mapValues p m := by
          unfold mapValues
          simp only [List.mem_map]
          constructor
          · rintro ⟨e, he, rfl⟩
            rcases (hmem e).mp he with rfl | he
            · left; simpa [rowValues] using hv1
            · right
              refine ⟨e, he, ?_⟩
              exact ((rowValues_ext he1 e.2 (hl e he)).1).symm
          · rintro (rfl | ⟨e, he, rfl⟩)
            · exact ⟨(keyOf keyIdx _, cells), (hmem _).mpr (Or.inl rfl), by simpa [rowValues] using hv1⟩
            · exact ⟨e, (hmem e).mpr (Or.inr he), (rowValues_ext he1 e.2 (hl e he)).1⟩
        rw [hm1]
        simp only [List.mem_cons]
        constructor
        · rintro ((h1 | h1) | h1)
          · exact Or.inr (Or.inl h1)
          · exact Or.inl h1
          · exact Or.inr (Or.inr h1)
        · rintro (h1 | h1 | h1)
          · exact Or.inl (Or.inr h1)
          · exact Or.inl (Or.inl h1)
          · exact Or.inr h1
    | err k => simp [hc] at h
    | panic w => simp [hc] at h

/-- loading the stored rows: the map holds exactly those rows -/
theorem loadMap_rows (p : Pool) (keyIdx : List Nat) (rows : List (List Cell)) :
    ∀ (m m' : RowMap), Sorted m → loadMap p keyIdx rows m = some m' →
    ∀ cells, cells ∈ m'.map (·.2) ↔ cells ∈ m.map (·.2) ∨ cells ∈ rows := by
  induction rows with
  | nil => intro m m' _ h cells; simp only [loadMap, Option.some.injEq] at h; subst h; simp
  | cons r rs ih =>
    intro m m' hs h cells
    simp only [loadMap] at h
    cases hm : mapInsert (keyOf keyIdx (rowValues p r)) r m with
    | none => simp [hm] at h
    | some m1 =>
      rw [hm] at h
      obtain ⟨hs1, hmem⟩ := mapInsert_sorted hs hm
      rw [ih m1 m' hs1 h cells]
      have : cells ∈ m1.map (·.2) ↔ cells = r ∨ cells ∈ m.map (·.2) := by
        simp only [List.mem_map]
        constructor
        · rintro ⟨e, he, rfl⟩
          rcases (hmem e).mp he with rfl | he
          · exact Or.inl rfl
          · exact Or.inr ⟨e, he, rfl⟩
        · rintro (rfl | ⟨e, he, rfl⟩)
          · exact ⟨_, (hmem _).mpr (Or.inl rfl), rfl⟩
          · exact ⟨e, (hmem e).mpr (Or.inr he), rfl⟩
      rw [this]
      simp only [List.mem_cons]
      constructor
      · rintro ((h1 | h1) | h1)
        · exact Or.inr (Or.inl h1)
        · exact Or.inl h1
        · exact Or.inr (Or.inr h1)
      · rintro (h1 | h1 | h1)
        · exact Or.inl (Or.inr h1)
        · exact Or.inl (Or.inl h1)
        · exact Or.inr h1

/-- the key stored with each row of the map is the key of that row's values -/
def KeyOk (p : Pool) (keyIdx : List Nat) (m : RowMap) : Prop := ∀ e ∈ m, e.1 = keyOf keyIdx (rowValues p e.2)

theorem loadMap_keyOk (p : Pool) (keyIdx : List Nat) (rows : List (List Cell)) :
    ∀ (m m' : RowMap), Sorted m → KeyOk p keyIdx m → loadMap p keyIdx rows m = some m' → KeyOk p keyIdx m' := by
  induction rows with
  | nil => intro m m' _ hk h; simp only [loadMap, Option.some.injEq] at h; subst h; exact hk
  | cons r rs ih =>
    intro m m' hs hk h
    simp only [loadMap] at h
    cases hm : mapInsert (keyOf keyIdx (rowValues p r)) r m with
    | none => simp [hm] at h
    | some m1 =>
      rw [hm] at h
      obtain ⟨hs1, hmem⟩ := mapInsert_sorted hs hm
      refine ih m1 m' hs1 ?_ h
      intro e he
      rcases (hmem e).mp he with rfl | he
      · rfl
      · exact hk e he

theorem addRows_keyOk (keyIdx : List Nat) (rows : List (List Value)) : ∀ (p : Pool) (m : RowMap) (p' : Pool) (m' : RowMap),
    Sorted m → LiveMap p m → KeyOk p keyIdx m → addRows keyIdx p rows m = .ok (p', m') → KeyOk p' keyIdx m' := by
  induction rows with
  | nil =>
    intro p m p' m' _ _ hk h
    simp only [addRows, pure, Res.ok.injEq, Prod.mk.injEq] at h
    obtain ⟨rfl, rfl⟩ := h
    exact hk
  | cons r rs ih =>
    intro p m p' m' hs hl hk h
    simp only [addRows, bind, Res.bind] at h
    cases hc : createCells p r [] with
    | ok x =>
      obtain ⟨p1, cells⟩ := x
      simp only [hc] at h
      obtain ⟨he1, hv1, hl1⟩ := createCells_ext r p [] p1 cells (fun _ hx => by simp at hx) hc
      simp only [List.reverse_nil, rowValues, List.map_nil, List.nil_append] at hv1
      cases hm : mapInsert (keyOf keyIdx r) cells m with
      | none => simp [hm] at h
      | some m1 =>
        simp only [hm] at h
        obtain ⟨hs1, hmem⟩ := mapInsert_sorted hs hm
        obtain ⟨hmv, hml⟩ := mapValues_ext he1 m hl
        refine ih p1 m1 p' m' hs1 ?_ ?_ h
        · intro e he
          rcases (hmem e).mp he with rfl | he
          · exact hl1
          · exact hml e he
        · intro e he
          rcases (hmem e).mp he with rfl | he
          · simp only [rowValues]; rw [hv1]
          · rw [hk e he, (rowValues_ext he1 e.2 (hl e he)).1]
    | err k => simp [hc] at h
    | panic w => simp [hc] at h

/-- **`Insert::exec` refines the relational insert.**  If it succeeds on a table whose stored
cells refer to live pool entries, then the rows it writes (`stored`, the bytes of the table's
stream being `write_rows stored`) are, as values under the new pool, exactly the old rows as
values under the old pool plus the new rows with "" stored as null — in strictly ascending key
order —, the pool has only been extended (so the value of every other live cell of the package
is unchanged), every other stream of the container is untouched, and nothing else of the state
changes -/
theorem insert_refines (s : Pkg) (tname : List Char) (rows : List (List Value)) (s' : Pkg)
    (h : insertExec s tname rows = (s', .ok ()))
    (t : Table) (ht : s.findTable tname = some t) (existing : List (List Cell))
    (hl : s.loadRows t = .ok existing) (hlive : ∀ r ∈ existing, ∀ c ∈ r, LiveCell s.pool c) :
    ∃ stored bytes,
      t.writeRows stored = .ok bytes ∧ dataOf s'.cont t.streamName = some bytes ∧
      (∀ v, v ∈ stored.map (rowValues s'.pool) ↔
        v ∈ existing.map (rowValues s.pool) ∨ v ∈ rows.map (fun r => r.map storable)) ∧
      (stored.map fun cells => keyOf t.keyIndices (rowValues s'.pool cells)).Pairwise (fun a b => keyLt a b = true) ∧
      Ext s.pool s'.pool ∧
      (∀ n, key t.streamName ≠ key n → dataOf s'.cont n = dataOf s.cont n) ∧
      s'.tables = s.tables ∧ s'.summary = s.summary := by
  unfold insertExec at h
  simp only [ht] at h
  split at h; · cases (Prod.mk.inj h).2
  split at h; · cases (Prod.mk.inj h).2
  simp only [hl] at h
  cases hm : loadMap s.pool t.keyIndices existing [] with
  | none => simp only [hm] at h; cases (Prod.mk.inj h).2
  | some m =>
    simp only [hm] at h
    cases hc : checkNew t.keyIndices m (rows.map fun r => r.map storable) [] with
    | some k => simp only [hc] at h; cases (Prod.mk.inj h).2
    | none =>
      simp only [hc] at h
      split at h; · cases (Prod.mk.inj h).2
      cases ha : addRows t.keyIndices s.pool (rows.map fun r => r.map storable) m with
      | err k => simp only [ha] at h; cases (Prod.mk.inj h).2
      | panic w => simp only [ha] at h; cases (Prod.mk.inj h).2
      | ok x =>
        obtain ⟨pool', m'⟩ := x
        simp only [ha] at h
        have hsm : Sorted m := MsiProofs.C05.loadMap_sorted (by simp [Sorted]) hm
        have hrows := loadMap_rows s.pool t.keyIndices existing [] m (by simp [Sorted]) hm
        have hlm : LiveMap s.pool m := by
          intro e he c hc
          have : e.2 ∈ existing := by
            have := (hrows e.2).mp (List.mem_map.mpr ⟨e, he, rfl⟩)
            simpa using this
          exact hlive e.2 this c hc
        obtain ⟨hext, hs', hl', hmem⟩ := addRows_ext t.keyIndices _ s.pool m pool' m' hsm hlm ha
        unfold storeRows at h
        cases hw : t.writeRows (m'.map (·.2)) with
        | err k => simp only [hw] at h; cases (Prod.mk.inj h).2
        | panic w => simp only [hw] at h; cases (Prod.mk.inj h).2
        | ok bs =>
          simp only [hw] at h
          have hs'eq := (Prod.mk.inj h).1
          subst hs'eq
          have hk0 : KeyOk s.pool t.keyIndices m :=
            loadMap_keyOk s.pool t.keyIndices existing [] m (by simp [Sorted]) (fun _ hx => by simp at hx) hm
          have hk' : KeyOk pool' t.keyIndices m' := addRows_keyOk t.keyIndices _ s.pool m pool' m' hsm hlm hk0 ha
          have hsorted : ((m'.map (·.2)).map fun cells => keyOf t.keyIndices (rowValues pool' cells)).Pairwise
              (fun a b => keyLt a b = true) := by
            rw [List.map_map, List.pairwise_map]
            refine List.Pairwise.imp_of_mem ?_ hs'
            intro a b ha hb hab
            simp only [Function.comp]
            rw [← hk' a ha, ← hk' b hb]
            exact hab
          refine ⟨m'.map (·.2), bs, hw, dataOf_put_same _ _ _, ?_, hsorted, hext,
            fun n hn => dataOf_put_other _ _ _ _ hn, rfl, rfl⟩
          intro v
          have h1 : v ∈ (m'.map (·.2)).map (rowValues pool') ↔ v ∈ mapValues pool' m' := by
            unfold mapValues; simp [List.map_map]
          have h2 : v ∈ existing.map (rowValues s.pool) ↔ v ∈ mapValues s.pool m := by
            unfold mapValues
            simp only [List.mem_map]
            constructor
            · rintro ⟨cells, hc1, rfl⟩
              have := (hrows cells).mpr (Or.inr hc1)
              obtain ⟨e, he, rfl⟩ := List.mem_map.mp this
              exact ⟨e, he, rfl⟩
            · rintro ⟨e, he, rfl⟩
              have := (hrows e.2).mp (List.mem_map.mpr ⟨e, he, rfl⟩)
              exact ⟨e.2, by simpa using this, rfl⟩
          rw [h1, h2]
          exact hmem v

end MsiProofs.Refine
