import MsiProofs.Lemmas.RowCodec
import MsiProofs.Lemmas.Refine
/-
Rows that `read_rows` returns, and rows that `Insert::exec` builds from validated values, fit
their columns (`RowOk`), so writing them and reading the stream back gives the same rows.
-/
namespace MsiProofs.RowsOk
open MsiModel MsiModel.Bytes MsiModel.Pkg MsiProofs.Codec MsiProofs.RowCodec

/-- the first `k` cells of the row fit the first `k` columns, and there are exactly `k` -/
def Pref (long : Bool) (cols : List Column) (k : Nat) (r : List Cell) : Prop :=
  r.length = k ∧ ∀ j (hj : j < k), ∃ c col, r[j]? = some c ∧ cols[j]? = some col ∧ Storable long col.coltype c

/-- a whole row fits the table's columns -/
def RowOk (long : Bool) (cols : List Column) (r : List Cell) : Prop := Pref long cols cols.length r

theorem readValue_storable (long : Bool) (ty : ColType) (bs : Bytes) (c : Cell) (rest : Bytes)
    (h : ty.readValue long bs = .ok (c, rest)) : Storable long ty c := by
  cases ty with
  | int16 =>
    simp only [ColType.readValue, bind, Res.bind] at h
    cases hr : readU16 bs with
    | ok x =>
      obtain ⟨w, r⟩ := x
      simp only [hr, pure, Res.ok.injEq, Prod.mk.injEq] at h
      have hw : w < 65536 := by
        unfold readU16 at hr
        split at hr
        · rename_i a b rest'
          simp only [Res.ok.injEq, Prod.mk.injEq] at hr
          have := a.toNat_lt; have := b.toNat_lt
          omega
        · cases hr
      rw [← h.1]
      split
      · trivial
      · rename_i hne
        simp only [Storable]
        have h1 : -2147483648 ≤ (w : Int) - 32768 := by omega
        have h2 : (w : Int) - 32768 ≤ 2147483647 := by omega
        rw [Int32.toInt_ofInt_of_le (by omega) (by omega)]
        omega
    | err k => simp [hr] at h
    | panic w => simp [hr] at h
  | int32 =>
    simp only [ColType.readValue, bind, Res.bind] at h
    cases hr : readU32 bs with
    | ok x =>
      obtain ⟨w, r⟩ := x
      simp only [hr, pure, Res.ok.injEq, Prod.mk.injEq] at h
      have hw : w < 4294967296 := by
        unfold readU32 at hr
        split at hr
        · rename_i a b c d rest'
          simp only [Res.ok.injEq, Prod.mk.injEq] at hr
          have := a.toNat_lt; have := b.toNat_lt; have := c.toNat_lt; have := d.toNat_lt
          omega
        · cases hr
      rw [← h.1]
      split
      · trivial
      · rename_i hne
        simp only [Storable]
        rw [Int32.toInt_ofInt_of_le (by omega) (by omega)]
        omega
    | err k => simp [hr] at h
    | panic w => simp [hr] at h
  | str n =>
    simp only [ColType.readValue, bind, Res.bind] at h
    cases hr : readU16 bs with
    | ok x =>
      obtain ⟨lo, r⟩ := x
      simp only [hr] at h
      have hlo : lo < 65536 := by
        unfold readU16 at hr
        split at hr
        · rename_i a b rest'
          simp only [Res.ok.injEq, Prod.mk.injEq] at hr
          have := a.toNat_lt; have := b.toNat_lt
          omega
        · cases hr
      cases long with
      | true =>
        simp only [if_true] at h
        cases hr2 : readU8 r with
        | ok y =>
          obtain ⟨hi, r2⟩ := y
          simp only [hr2, pure, Res.ok.injEq, Prod.mk.injEq] at h
          have hhi : hi < 256 := by
            unfold readU8 at hr2
            split at hr2
            · rename_i b rest'
              simp only [Res.ok.injEq, Prod.mk.injEq] at hr2
              have := b.toNat_lt; omega
            · cases hr2
          rw [← h.1]
          split
          · trivial
          · rename_i hne
            simp only [Storable, if_true]
            omega
        | err k => simp [hr2] at h
        | panic w => simp [hr2] at h
      | false =>
        simp only [Bool.false_eq_true, if_false, pure, Res.ok.injEq, Prod.mk.injEq] at h
        rw [← h.1]
        split
        · trivial
        · rename_i hne
          simp only [Storable, Bool.false_eq_true, if_false]
          omega
    | err k => simp [hr] at h
    | panic w => simp [hr] at h


theorem pref_snoc (long : Bool) (cols : List Column) (k : Nat) (r : List Cell) (c : Cell) (col : Column)
    (hp : Pref long cols k r) (hcol : cols[k]? = some col) (hc : Storable long col.coltype c) :
    Pref long cols (k + 1) (r ++ [c]) := by
  obtain ⟨hl, hj⟩ := hp
  refine ⟨by simp [hl], ?_⟩
  intro j hjlt
  by_cases hjk : j < k
  · obtain ⟨c', col', h1, h2, h3⟩ := hj j hjk
    exact ⟨c', col', by rw [List.getElem?_append_left (by omega)]; exact h1, h2, h3⟩
  · have : j = k := by omega
    subst this
    refine ⟨c, col, ?_, hcol, hc⟩
    rw [List.getElem?_append_right (by omega)]
    simp [hl]

theorem readColumn_pref (long : Bool) (cols : List Column) (k : Nat) (col : Column) (hcol : cols[k]? = some col)
    (rows : List (List Cell)) : ∀ (bs : Bytes) (acc rows' : List (List Cell)) (r : Bytes),
    (∀ x ∈ rows, Pref long cols k x) → (∀ x ∈ acc, Pref long cols (k + 1) x) →
    Table.readColumn long col.coltype rows bs acc = .ok (rows', r) →
    ∀ x ∈ rows', Pref long cols (k + 1) x := by
  induction rows with
  | nil =>
    intro bs acc rows' r _ hacc h
    simp only [Table.readColumn, pure, Res.ok.injEq, Prod.mk.injEq] at h
    rw [← h.1]
    intro x hx
    exact hacc x (List.mem_reverse.mp hx)
  | cons row rest ih =>
    intro bs acc rows' r hrows hacc h
    simp only [Table.readColumn, bind, Res.bind] at h
    cases hv : col.coltype.readValue long bs with
    | ok y =>
      obtain ⟨c, r1⟩ := y
      simp only [hv] at h
      refine ih r1 ((row ++ [c]) :: acc) rows' r (fun x hx => hrows x (by simp [hx])) ?_ h
      intro x hx
      simp only [List.mem_cons] at hx
      rcases hx with rfl | hx
      · exact pref_snoc long cols k row c col (hrows row (by simp)) hcol (readValue_storable long _ bs c r1 hv)
      · exact hacc x hx
    | err e => simp [hv] at h
    | panic w => simp [hv] at h

theorem readCols_pref (long : Bool) (all : List Column) (cs : List Column) :
    ∀ (k : Nat) (rows : List (List Cell)) (bs : Bytes) (out : List (List Cell)),
    all.drop k = cs → (∀ x ∈ rows, Pref long all k x) →
    Table.readCols long cs rows bs = .ok out → ∀ x ∈ out, Pref long all (k + cs.length) x := by
  induction cs with
  | nil =>
    intro k rows bs out _ hrows h
    simp only [Table.readCols, pure, Res.ok.injEq] at h
    subst h
    simpa using hrows
  | cons c cs ih =>
    intro k rows bs out hdrop hrows h
    simp only [Table.readCols, bind, Res.bind] at h
    have hk : all[k]? = some c := by
      have := congrArg List.head? hdrop
      simpa [List.head?_drop] using this
    have hdrop' : all.drop (k + 1) = cs := by
      have := congrArg List.tail hdrop
      simpa [List.tail_drop] using this
    cases hc : Table.readColumn long c.coltype rows bs [] with
    | ok y =>
      obtain ⟨rows', r⟩ := y
      simp only [hc] at h
      have hp := readColumn_pref long all k c hk rows bs [] rows' r hrows (fun _ hx => by simp at hx) hc
      have := ih (k + 1) rows' r out hdrop' hp h
      simpa [Nat.add_assoc, Nat.add_comm 1] using this
    | err e => simp [hc] at h
    | panic w => simp [hc] at h

/-- **every row `read_rows` returns fits the table's columns** -/
theorem readRows_rowOk (t : Table) (data : Bytes) (rows : List (List Cell)) (h : t.readRows data = .ok rows) :
    ∀ r ∈ rows, RowOk t.longRefs t.columns r := by
  unfold Table.readRows at h
  simp only at h
  by_cases hbig : (if t.rowSize > 0 then data.length / t.rowSize else 0) > Gen.maxTableRows
  · rw [if_pos hbig] at h; cases h
  · rw [if_neg hbig] at h
    have := readCols_pref t.longRefs t.columns t.columns 0 _ data rows (by simp)
      (fun x hx => by
        rw [List.eq_of_mem_replicate hx]
        exact ⟨rfl, fun j hj => absurd hj (by omega)⟩) h
    simpa [RowOk] using this

/-- rows that fit their columns satisfy the writer's precondition -/
theorem colsOk_of_rowOk (long : Bool) (all : List Column) (rows : List (List Cell))
    (h : ∀ r ∈ rows, RowOk long all r) : ∀ (cs : List Column) (k : Nat), all.drop k = cs →
    ColsOk long rows cs k := by
  intro cs
  induction cs with
  | nil => intro k _; trivial
  | cons c cs ih =>
    intro k hdrop
    have hk : all[k]? = some c := by
      have := congrArg List.head? hdrop
      simpa [List.head?_drop] using this
    have hdrop' : all.drop (k + 1) = cs := by
      have := congrArg List.tail hdrop
      simpa [List.tail_drop] using this
    have hklt : k < all.length := by
      have := List.getElem?_eq_some_iff.mp hk
      exact this.1
    refine ⟨?_, ih (k + 1) hdrop'⟩
    intro r hr
    obtain ⟨-, hj⟩ := h r hr
    obtain ⟨cell, col, h1, h2, h3⟩ := hj k hklt
    rw [hk] at h2
    cases h2
    exact ⟨cell, h1, h3⟩

theorem rowOk_length {long : Bool} {cols : List Column} {r : List Cell} (h : RowOk long cols r) :
    r.length = cols.length := h.1

/-- **write, then read**: rows that fit the table's columns (at most 65,536 of them, a non-empty
column list) are read back from the stream `write_rows` produces -/
theorem write_read (t : Table) (rows : List (List Cell)) (h : ∀ r ∈ rows, RowOk t.longRefs t.columns r)
    (hpos : 0 < t.rowSize) (hmax : rows.length ≤ Gen.maxTableRows) :
    ∃ bs, t.writeRows rows = .ok bs ∧ t.readRows bs = .ok rows := by
  obtain ⟨bs, h1, -, h3⟩ := rows_roundtrip t rows (fun r hr => rowOk_length (h r hr))
    (colsOk_of_rowOk t.longRefs t.columns rows h t.columns 0 (by simp)) hpos hmax
  exact ⟨bs, h1, h3⟩


/-! ### cells created from validated values -/

/-- the pool is within what its reference width can address -/
def PoolSized (p : Pool) : Prop := p.strings.length ≤ (if p.longRefs then 16777215 else 65535)

theorem incref_bound (p : Pool) (s : List Char) (p' : Pool) (r : Nat) (hs : PoolSized p)
    (h : p.incref s = .ok (p', r)) :
    0 < r ∧ r ≤ p'.strings.length ∧ PoolSized p' ∧ p'.longRefs = p.longRefs := by
  obtain ⟨-, hpos, rc, hent, -⟩ := MsiProofs.C08.incref_accounting p s p' r h
  have hle : r ≤ p'.strings.length := by
    have := (List.getElem?_eq_some_iff.mp hent).1
    omega
  refine ⟨hpos, hle, ?_, ?_⟩
  · unfold Pool.incref at h
    cases hsc : Pool.increfScan s p.strings 0 with
    | some x =>
      obtain ⟨l', r'⟩ := x
      simp only [hsc, Res.ok.injEq, Prod.mk.injEq] at h
      obtain ⟨rfl, rfl⟩ := h
      unfold PoolSized at *
      simp only [(MsiProofs.C08.increfScan_total s p.strings 0 l' r' hsc).2]
      exact hs
    | none =>
      simp only [hsc] at h
      have e1 : Gen.maxShortRefStrings = 65535 := rfl
      have e2 : Gen.maxStringRef = 16777215 := rfl
      split at h
      · cases h
      · rename_i h1
        split at h
        · cases h
        · rename_i h2
          cases h
          unfold PoolSized
          simp only [List.length_append, List.length_cons, List.length_nil]
          rw [e1] at h1; rw [e2] at h2
          cases hl : p.longRefs
          · simp only [hl, Bool.not_false, and_true, ge_iff_le] at h1
            simp; omega
          · simp; omega
  · unfold Pool.incref at h
    cases hsc : Pool.increfScan s p.strings 0 with
    | some x => simp only [hsc, Res.ok.injEq, Prod.mk.injEq] at h; rw [← h.1]
    | none =>
      simp only [hsc] at h
      split at h
      · cases h
      · split at h
        · cases h
        · cases h; rfl

/-- a cell created from a value the column accepts (after "" → null) fits the column -/
theorem create_storable (p : Pool) (col : Column) (v0 : Value) (p' : Pool) (c : Cell)
    (hs : PoolSized p) (hv : col.isValidValue v0 = true) (h : Cell.create p (storable v0) = .ok (p', c)) :
    Storable p.longRefs col.coltype c ∧ PoolSized p' ∧ p'.longRefs = p.longRefs := by
  cases v0 with
  | null =>
    cases h
    exact ⟨by cases col.coltype <;> trivial, hs, rfl⟩
  | int n =>
    cases h
    refine ⟨?_, hs, rfl⟩
    simp only [Column.isValidValue, Bool.and_eq_true] at hv
    cases hc : col.coltype with
    | int16 => rw [hc] at hv; simpa [Storable] using hv.2
    | int32 => rw [hc] at hv; simpa [Storable] using hv.2
    | str m => rw [hc] at hv; simp at hv
  | str s =>
    cases hc : col.coltype with
    | int16 => simp [Column.isValidValue, hc] at hv
    | int32 => simp [Column.isValidValue, hc] at hv
    | str m =>
      cases s with
      | nil =>
        cases h
        exact ⟨trivial, hs, rfl⟩
      | cons x xs =>
        simp only [storable, Cell.create, bind, Res.bind] at h
        cases hi : p.incref (x :: xs) with
        | ok y =>
          obtain ⟨q, r⟩ := y
          simp only [hi, pure, Res.ok.injEq, Prod.mk.injEq] at h
          obtain ⟨rfl, rfl⟩ := h
          obtain ⟨h1, h2, h3, h4⟩ := incref_bound p (x :: xs) q r hs hi
          refine ⟨?_, h3, h4⟩
          simp only [Storable]
          refine ⟨h1, ?_⟩
          unfold PoolSized at h3
          rw [h4] at h3
          cases hlr : p.longRefs
          · simp only [hlr, Bool.false_eq_true, if_false] at h3 ⊢; omega
          · simp only [hlr, if_true] at h3 ⊢; omega
        | err k => simp [hi] at h
        | panic w => simp [hi] at h

theorem createCells_pref (all : List Column) (cols : List Column) : ∀ (vs0 : List Value) (k : Nat) (p : Pool)
    (acc : List Cell) (p' : Pool) (cs : List Cell),
    all.drop k = cols → vs0.length = cols.length →
    (∀ x ∈ cols.zip vs0, x.1.isValidValue x.2 = true) →
    PoolSized p → Pref p.longRefs all k acc.reverse →
    createCells p (vs0.map storable) acc = .ok (p', cs) →
    Pref p.longRefs all (k + cols.length) cs ∧ PoolSized p' ∧ p'.longRefs = p.longRefs := by
  induction cols with
  | nil =>
    intro vs0 k p acc p' cs _ hl _ hs hp h
    have : vs0 = [] := List.eq_nil_of_length_eq_zero (by simpa using hl)
    subst this
    simp only [List.map_nil, createCells, pure, Res.ok.injEq, Prod.mk.injEq] at h
    obtain ⟨rfl, rfl⟩ := h
    exact ⟨by simpa using hp, hs, rfl⟩
  | cons col cols ih =>
    intro vs0 k p acc p' cs hdrop hl hval hs hp h
    cases vs0 with
    | nil => simp at hl
    | cons v vs =>
      have hk : all[k]? = some col := by
        have := congrArg List.head? hdrop
        simpa [List.head?_drop] using this
      have hdrop' : all.drop (k + 1) = cols := by
        have := congrArg List.tail hdrop
        simpa [List.tail_drop] using this
      simp only [List.map_cons, createCells, bind, Res.bind] at h
      cases hc : Cell.create p (storable v) with
      | ok y =>
        obtain ⟨p1, c⟩ := y
        simp only [hc] at h
        obtain ⟨hst, hs1, hl1⟩ := create_storable p col v p1 c hs (hval (col, v) (by simp)) hc
        have hp1 : Pref p1.longRefs all (k + 1) (c :: acc).reverse := by
          rw [hl1]
          simp only [List.reverse_cons]
          exact pref_snoc p.longRefs all k acc.reverse c col hp hk hst
        obtain ⟨h1, h2, h3⟩ := ih vs (k + 1) p1 (c :: acc) p' cs hdrop' (by simpa using hl)
          (fun x hx => hval x (by simp [hx])) hs1 hp1 h
        rw [hl1] at h1 h3
        refine ⟨?_, h2, h3⟩
        have e : k + (col :: cols).length = k + 1 + cols.length := by simp; omega
        rw [e]; exact h1
      | err e => simp [hc] at h
      | panic w => simp [hc] at h

end MsiProofs.RowsOk
