import MsiProofs.Lemmas.AsciiCodec
import MsiProofs.Lemmas.PoolCodec
import MsiProofs.Lemmas.PropSetCodec
/-
For ASCII text the codec hypotheses of the round-trip theorems hold under every code page, so
"expressible in the format" reduces to structural conditions (no live empty string, counts and
lengths within their fields, well-formed property set).
-/
namespace MsiProofs.AsciiSavable
open MsiModel MsiProofs.AsciiCodec MsiProofs.PoolCodec MsiProofs.PropSetCodec

def IsAscii (s : List Char) : Prop := ∀ c ∈ s, c.toNat < 128

theorem asciiBytes_length (s : List Char) : (asciiBytes s).length = s.length := by simp [asciiBytes]

/-- a pool of ASCII strings is expressible under any supported code page as soon as no live entry
is the empty string and counts and lengths fit their fields -/
theorem poolOk_ascii (p : Pool) (hcp : p.codepage < Gen.cpVariants.length)
    (hascii : ∀ e ∈ p.strings, IsAscii e.1)
    (hfit : ∀ e ∈ p.strings, e.1.length < 4294967296 ∧ e.2 < 65536 ∧ (e.1 = [] → e.2 = 0)) :
    PoolOk p asciiBytes where
  cp := hcp
  enc := fun e he => (ascii_roundtrip' p.codepage e.1 (hascii e he)).1
  dec := fun e he => (ascii_roundtrip' p.codepage e.1 (hascii e he)).2
  fits := fun e he => by
    obtain ⟨h1, h2, h3⟩ := hfit e he
    refine ⟨by rw [asciiBytes_length]; exact h1, h2, ?_⟩
    intro h0
    rw [asciiBytes_length] at h0
    exact h3 (List.eq_nil_of_length_eq_zero h0)

/-- an ASCII string property is a value the property-set format can hold, under any code page -/
theorem valOk_ascii (cp : Nat) (s : List Char) (h : IsAscii s) (hl : s.length + 1 < 4294967296) :
    ValOk cp (.lpstr s) :=
  ⟨asciiBytes s, (ascii_roundtrip' cp s h).1, (ascii_roundtrip' cp s h).2, by rw [asciiBytes_length]; exact hl⟩

end MsiProofs.AsciiSavable
