import MsiModel.PkgApi
/-
`drop_table` deletes the `_Validation` rows of the table when there is a `_Validation` table
(fix D24): the two cases of `deleteValidation`.
-/
namespace MsiProofs.DeleteValidation
open MsiModel MsiModel.Pkg

theorem deleteValidation_some (s : Pkg) (name : List Char)
    (h : (s.findTable Gen.nameValidation.toList).isSome = true) :
    deleteValidation s name = deleteRows s Gen.nameValidation.toList (eqStr "Table" name) := by
  unfold deleteValidation; rw [if_pos h]

theorem deleteValidation_cases (s : Pkg) (name : List Char) :
    deleteValidation s name = deleteRows s Gen.nameValidation.toList (eqStr "Table" name) ∨
    deleteValidation s name = (s, .ok ()) := by
  unfold deleteValidation
  split
  · exact Or.inl rfl
  · exact Or.inr rfl

end MsiProofs.DeleteValidation
