import MsiProofs.Lemmas.CatalogSync
/-
Property C01 on the model, end to end for histories of data manipulation: from any state that
satisfies the package invariants, run any sequence of inserts, updates and deletes on user tables
(accepted or refused), save; reopening the saved container yields a package with the same
container, summary information, string pool and table definitions — in which every table reads
the same rows with the same values.
-/
namespace MsiProofs.EndToEnd
open MsiModel MsiModel.Bytes MsiModel.Pkg MsiProofs.GlobalInv MsiProofs.SortedInv MsiProofs.CatalogSync
open MsiProofs.SaveOpen

/-- all the invariants together -/
structure AllInv (slack : Nat → Nat) (s : Pkg) (tabs : List Table) : Prop where
  inv : Inv slack s
  sorted : SortedAll s
  metaSync : MsiProofs.Synced.Synced s
  sep : MsiProofs.Synced.TablesSeparate s
  cat : CatalogSynced s tabs
  hasVal : Catalog.validationTable s.pool.longRefs ∈ tabs

/-- a statement on a user table -/
def UserOp (op : MsiProofs.GlobalInvUpd.Op) : Prop := isCatalogName (MsiProofs.Frame.target op) = false

theorem effect_of_op (s : Pkg) (hsep : MsiProofs.Synced.TablesSeparate s) (op : MsiProofs.GlobalInvUpd.Op) :
    MsiProofs.Synced.Effect s (op.run s) ∧ (op.run s).tables = s.tables := by
  cases op with
  | insert t rows => exact MsiProofs.Synced.insertExec_effect s hsep t rows
  | delete t cond => exact MsiProofs.Synced.deleteExec_effect s hsep t cond
  | update t ups cond => exact MsiProofs.Synced.updateExec_effect s hsep t ups cond

/-- **one statement keeps every invariant** -/
theorem op_allInv (slack : Nat → Nat) (s : Pkg) (tabs : List Table) (h : AllInv slack s tabs)
    (op : MsiProofs.GlobalInvUpd.Op) (hu : UserOp op) : AllInv slack (op.run s) tabs := by
  obtain ⟨he, ht⟩ := effect_of_op s h.sep op
  have hk := MsiProofs.Frame.op_kept slack s h.inv op
  obtain ⟨hi', hs'⟩ := MsiProofs.SortUpd.history_sorted slack [op] s h.inv h.sorted
  refine ⟨hi', hs', MsiProofs.Synced.synced_of_effect _ _ h.metaSync he, ?_,
    op_catalogSynced slack s tabs h.inv h.cat h.hasVal op hu, ?_⟩
  · intro t htm
    exact h.sep t (by rw [← ht]; exact htm)
  · rw [hk.long]; exact h.hasVal

theorem history_allInv (slack : Nat → Nat) (tabs : List Table) (ops : List MsiProofs.GlobalInvUpd.Op)
    (hu : ∀ op ∈ ops, UserOp op) : ∀ (s : Pkg), AllInv slack s tabs →
    AllInv slack (ops.foldl MsiProofs.GlobalInvUpd.Op.run s) tabs := by
  induction ops with
  | nil => intro s h; exact h
  | cons op ops ih =>
    intro s h
    exact ih (fun o ho => hu o (by simp [ho])) _ (op_allInv slack s tabs h op (hu op (by simp)))

/-- **save and reopen after any history**: the reopened package has the same container, summary
information, string pool and table definitions; hence every table reads the same rows with the
same values as before closing -/
theorem reopen_after_history (slack : Nat → Nat) (tabs : List Table) (s0 : Pkg) (h0 : AllInv slack s0 tabs)
    (ops : List MsiProofs.GlobalInvUpd.Op) (hu : ∀ op ∈ ops, UserOp op)
    (E : List Char → Bytes) (hsav : Savable (ops.foldl MsiProofs.GlobalInvUpd.Op.run s0) E)
    (s1 : Pkg) (hf : finish (ops.foldl MsiProofs.GlobalInvUpd.Op.run s0) = (s1, .ok ())) :
    ∃ s2, open_ (some s1.ptype) s1.cont = .ok s2 ∧
      s2.cont = s1.cont ∧ s2.summary = s1.summary ∧ s2.pool = s1.pool ∧ s2.tables = s1.tables ∧
      (∀ t, s2.loadRows t = s1.loadRows t) := by
  have h := history_allInv slack tabs ops hu s0 h0
  obtain ⟨hsaved, -, -⟩ := MsiProofs.Synced.finish_step _ s1 E h.metaSync h.sep hsav hf
  have hcat := finish_catalogSynced _ s1 tabs h.cat hf
  obtain ⟨s2, ho, hc, hs, hp, ht⟩ := reopen_same_tables s1 tabs hsaved hcat
  exact ⟨s2, ho, hc, hs, hp, ht, fun t => rows_same_after_reopen s1 s2 hc t⟩

end MsiProofs.EndToEnd
