import MsiProofs.Lemmas.Synced
/-
User streams behave like a map from names to byte strings (property C11, second half):
reading returns the last write, writing or removing one name leaves every other name alone,
and nothing a table operation does touches a user stream.
-/
namespace MsiProofs.StreamsMap
open MsiModel MsiModel.Bytes MsiModel.Pkg MsiModel.StreamName MsiProofs.SaveOpen MsiProofs.Synced

theorem find_of_dataOf {c : List Entry} {n : List Char} {d : Bytes} (h : dataOf c n = some d) :
    ∃ e, Cont.find c n = some e ∧ e.data = d := by
  unfold dataOf at h
  cases hf : Cont.find c n with
  | none => simp [hf] at h
  | some e => exact ⟨e, rfl, by simpa [hf] using h⟩

/-- `read_stream` in terms of the container map -/
theorem readStream_eq (s : Pkg) (n : List Char) (hv : isValid n false = true) :
    readStream s n = match dataOf s.cont (encode n false) with
      | some d => .ok d
      | none => .err .notFound := by
  unfold readStream dataOf
  simp only [hv, Bool.not_true, Bool.false_eq_true, if_false]
  cases Cont.find s.cont (encode n false) <;> rfl

/-- two accepted user stream names that cfb would take for the same stream are the same name -/
theorem user_stream_injective (a b : List Char) (ha : isValid a false = true) (hb : isValid b false = true)
    (h : key (encode a false) = key (encode b false)) : a = b := by
  unfold key at h
  have h2 := (Prod.mk.inj h).2
  rw [map_upper_unpackable _ (user_encoded_unpackable a), map_upper_unpackable _ (user_encoded_unpackable b)] at h2
  exact MsiProofs.C11.encode_injective a b ha hb h2

/-- **read returns the last write** -/
theorem read_after_write (s : Pkg) (n : List Char) (d : Bytes) (hv : isValid n false = true) :
    (writeStream s n d).2 = .ok () ∧ readStream (writeStream s n d).1 n = .ok d := by
  unfold writeStream
  simp only [hv, Bool.not_true, Bool.false_eq_true, if_false, true_and]
  rw [readStream_eq _ n hv]
  simp only [dataOf_put_same]

/-- **a write to one name leaves every other name as it was** -/
theorem write_other (s : Pkg) (n m : List Char) (d : Bytes) (hn : isValid n false = true)
    (hm : isValid m false = true) (hne : n ≠ m) :
    readStream (writeStream s n d).1 m = readStream s m := by
  unfold writeStream
  simp only [hn, Bool.not_true, Bool.false_eq_true, if_false]
  rw [readStream_eq _ m hm, readStream_eq _ m hm]
  simp only
  rw [dataOf_put_other _ _ _ _ (fun h => hne (user_stream_injective n m hn hm h))]

theorem dataOf_remove_same (c : List Entry) (n : List Char) : dataOf (Cont.remove c n) n = none := by
  unfold dataOf Cont.remove Cont.find
  rw [Option.map_eq_none_iff, List.find?_eq_none]
  intro e he
  simp only [List.mem_filter, Bool.not_eq_true'] at he
  simp [he.2]

/-- **a removed stream is gone, the others stay** -/
theorem remove_then_read (s : Pkg) (n : List Char) (hv : isValid n false = true)
    (hex : hasStream s n = true) :
    (removeStream s n).2 = .ok () ∧ readStream (removeStream s n).1 n = .err .notFound := by
  unfold removeStream
  unfold hasStream at hex
  simp only [hv, Bool.not_true, Bool.false_eq_true, if_false, hex, true_and]
  rw [readStream_eq _ n hv]
  simp only [dataOf_remove_same]

theorem remove_other (s : Pkg) (n m : List Char) (hn : isValid n false = true)
    (hm : isValid m false = true) (hne : n ≠ m) :
    readStream (removeStream s n).1 m = readStream s m := by
  unfold removeStream
  simp only [hn, Bool.not_true, Bool.false_eq_true, if_false]
  split
  · rfl
  · rw [readStream_eq _ m hm, readStream_eq _ m hm]
    simp only
    rw [dataOf_remove_other _ _ _ (fun h => hne (user_stream_injective n m hn hm h))]

/-- a user stream and a table stream are never the same stream -/
theorem user_ne_table (n tn : List Char) (hv : isValid n false = true) :
    key (encode tn true) ≠ key (encode n false) := by
  intro h
  have hsep := MsiProofs.C11.separated n hv
  unfold key at h
  have h2 := (Prod.mk.inj h).2
  rw [map_upper_encoded, map_upper_unpackable _ (user_encoded_unpackable n)] at h2
  apply hsep.2.1
  rw [← h2]
  unfold encode
  simp

/-- **streams are independent of tables**: writing a table's rows leaves every user stream as it was -/
theorem storeRows_keeps_streams (s : Pkg) (t : Table) (rows : List (List Cell)) (n : List Char)
    (hv : isValid n false = true) :
    readStream (storeRows s t rows).1 n = readStream s n := by
  rw [readStream_eq _ n hv, readStream_eq _ n hv]
  unfold storeRows Table.streamName
  cases t.writeRows rows with
  | ok bs => simp only; rw [dataOf_put_other _ _ _ _ (user_ne_table n t.name hv)]
  | err k => simp only; rw [dataOf_put_other _ _ _ _ (user_ne_table n t.name hv)]
  | panic w => rfl


/-- what a data-manipulation statement leaves behind: the state it was given, or that state with
a stepped pool and the rows of the one table rewritten -/
def DmlShape (s s' : Pkg) (tname : List Char) : Prop :=
  s' = s ∨ ∃ t pool' rows, s.findTable tname = some t ∧ PoolStep s.pool pool' ∧
    s' = (storeRows { s with pool := pool' } t rows).1

theorem insertExec_shape (s : Pkg) (tname : List Char) (rows : List (List Value)) :
    DmlShape s (insertExec s tname rows).1 tname := by
  unfold insertExec
  cases hf : s.findTable tname with
  | none => exact Or.inl rfl
  | some t =>
    simp only
    split; · exact Or.inl rfl
    split; · exact Or.inl rfl
    cases hl : s.loadRows t with
    | err k => exact Or.inl rfl
    | panic w => exact Or.inl rfl
    | ok existing =>
      simp only
      cases hm : loadMap s.pool t.keyIndices existing [] with
      | none => exact Or.inl rfl
      | some m =>
        simp only
        cases hc : checkNew t.keyIndices m (rows.map fun r => r.map storable) [] with
        | some k => exact Or.inl rfl
        | none =>
          simp only
          split; · exact Or.inl rfl
          cases ha : addRows t.keyIndices s.pool (rows.map fun r => r.map storable) m with
          | err k => exact Or.inl rfl
          | panic w => exact Or.inl rfl
          | ok x =>
            obtain ⟨pool', m'⟩ := x
            exact Or.inr ⟨t, pool', _, hf, addRows_step _ _ _ _ _ _ ha, rfl⟩

theorem deleteExec_shape (s : Pkg) (tname : List Char) (cond : Option Ast) :
    DmlShape s (deleteExec s tname cond).1 tname := by
  unfold deleteExec
  cases hf : s.findTable tname with
  | none => exact Or.inl rfl
  | some t =>
    simp only
    split; · exact Or.inl rfl
    cases hl : s.loadRows t with
    | err k => exact Or.inl rfl
    | panic w => exact Or.inl rfl
    | ok rows =>
      simp only
      cases hd : deleteGo t cond s.pool rows [] with
      | err k => exact Or.inl rfl
      | panic w => exact Or.inl rfl
      | ok x =>
        obtain ⟨pool', kept⟩ := x
        exact Or.inr ⟨t, pool', _, hf, deleteGo_step _ _ _ _ _ _ _ hd, rfl⟩

theorem upd_tail_shape (s : Pkg) (tname : List Char) (t : Table) (hf : s.findTable tname = some t)
    (ups : List (Nat × Value))
    (rows : List (List Cell)) (planned : List (List Value × Bool)) (dup : Bool) (order : List Nat) :
    DmlShape s (if dup = true then (s, Res.err ErrKind.alreadyExists) else
      match updApply ups s.pool rows planned [] with
      | .err k => (s, .err k)
      | .panic w => (s, .panic w)
      | .ok (pool', rows') => storeRows { s with pool := pool' } t (order.map fun i => rows'.getD i [])).1 tname := by
  cases dup with
  | true => exact Or.inl rfl
  | false =>
    simp only [Bool.false_eq_true, if_false]
    cases hu : updApply ups s.pool rows planned [] with
    | err k => exact Or.inl rfl
    | panic w => exact Or.inl rfl
    | ok x =>
      obtain ⟨pool', rows'⟩ := x
      exact Or.inr ⟨t, pool', _, hf, updApply_step _ _ _ _ _ _ _ hu, rfl⟩

theorem updateExec_shape (s : Pkg) (tname : List Char) (ups : List (List Char × Value)) (cond : Option Ast) :
    DmlShape s (updateExec s tname ups cond).1 tname := by
  unfold updateExec
  cases hf : s.findTable tname with
  | none => exact Or.inl rfl
  | some t =>
    simp only
    cases hv : validateUpdates t ups with
    | some k => exact Or.inl rfl
    | none =>
      simp only
      split; · exact Or.inl rfl
      cases hl : s.loadRows t with
      | err k => exact Or.inl rfl
      | panic w => exact Or.inl rfl
      | ok rows =>
        simp only
        cases hp : updPlan t s.pool cond
            (List.filterMap (fun x => Option.map (fun i => (i, storable x.snd)) (t.indexOfColumn x.fst)) ups) rows [] with
        | err k => exact Or.inl rfl
        | panic w => exact Or.inl rfl
        | ok planned => exact upd_tail_shape s tname t hf _ _ _ _ _

/-- **streams are independent of tables**: no insert, update or delete — accepted or refused —
changes what any user stream reads as -/
theorem dml_keeps_streams (s s' : Pkg) (tname : List Char) (h : DmlShape s s' tname) (n : List Char)
    (hv : isValid n false = true) : readStream s' n = readStream s n := by
  rcases h with rfl | ⟨t, pool', rows, -, -, rfl⟩
  · rfl
  · rw [storeRows_keeps_streams _ t rows n hv]
    rw [readStream_eq _ n hv, readStream_eq _ n hv]

/-- and the other way round: writing or removing a user stream changes no table's stored rows -/
theorem write_keeps_rows (s : Pkg) (n : List Char) (d : Bytes) (t : Table) :
    (writeStream s n d).1.loadRows t = s.loadRows t := by
  unfold writeStream
  split
  · rfl
  · rename_i hv
    have hv' : isValid n false = true := by simpa using hv
    unfold Pkg.loadRows Table.streamName
    simp only
    have hd : dataOf (Cont.put s.cont (encode n false) d) (encode t.name true) = dataOf s.cont (encode t.name true) :=
      dataOf_put_other _ _ _ _ (fun h => user_ne_table n t.name hv' h.symm)
    unfold dataOf at hd
    cases h1 : Cont.find (Cont.put s.cont (encode n false) d) (encode t.name true) <;>
      cases h2 : Cont.find s.cont (encode t.name true) <;> simp_all

end MsiProofs.StreamsMap
