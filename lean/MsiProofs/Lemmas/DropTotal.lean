import MsiProofs.Lemmas.Lifecycle
import MsiProofs.Lemmas.SelectTree
/-
`Delete::exec` and `drop_table` always succeed once their arguments are accepted (properties C03,
C04, C09): in every state with the package invariant the reply of a delete is decided by the names
alone — unknown table, or a condition naming an unknown column — and an accepted `drop_table`
cannot fail midway: releasing the rows and the three catalog deletes all succeed.
-/
namespace MsiProofs.DropTotal
open MsiModel MsiModel.Bytes MsiModel.Pkg MsiProofs.GlobalInv MsiProofs.SortedInv MsiProofs.Frame
open MsiProofs.SaveOpen MsiProofs.CreateTable MsiProofs.FullHistory MsiProofs.Lifecycle MsiProofs.RowsOk
open MsiProofs.C09 MsiProofs.C03 MsiProofs.DropTable MsiProofs.CatalogSync

/-- the `retain` loop of a delete always completes when the condition names only columns of the table -/
theorem deleteGo_total (t : Table) (cond : Option Ast) (hm : condMissing t cond = false) :
    ∀ (rows : List (List Cell)) (p : Pool) (acc : List (List Cell)), Width t.columns.length rows →
    ∃ x, deleteGo t cond p rows acc = .ok x := by
  intro rows
  induction rows with
  | nil => intro p acc _; exact ⟨_, rfl⟩
  | cons r rs ih =>
    intro p acc hw
    obtain ⟨b, hb⟩ := MsiProofs.SelectTree.condVal_total t p cond hm r (hw r (by simp))
    have he : evalCond t p cond r = .ok b := by
      unfold condVal at hb
      cases h : evalCond t p cond r with
      | ok v => rw [h] at hb; simp at hb; rw [hb]
      | err k => rw [h] at hb; simp at hb
      | panic w => rw [h] at hb; simp at hb
    simp only [deleteGo, he, bind, Res.bind]
    cases b
    · simp only [Bool.false_eq_true, if_false]; exact ih _ _ (fun x hx => hw x (by simp [hx]))
    · simp only [if_true]; exact ih _ _ (fun x hx => hw x (by simp [hx]))

theorem deleteGo_length (t : Table) (cond : Option Ast) : ∀ (rows : List (List Cell)) (p : Pool) (acc : List (List Cell))
    (p' : Pool) (k : List (List Cell)), deleteGo t cond p rows acc = .ok (p', k) → k.length ≤ acc.length + rows.length := by
  intro rows
  induction rows with
  | nil =>
    intro p acc p' k h
    simp only [deleteGo, pure, Res.ok.injEq, Prod.mk.injEq] at h
    rw [← h.2]; simp
  | cons r rs ih =>
    intro p acc p' k h
    simp only [deleteGo, bind, Res.bind] at h
    cases he : evalCond t p cond r with
    | ok del =>
      simp only [he] at h
      cases del with
      | true => simp only [if_true] at h; have := ih _ _ p' k h; simp; omega
      | false =>
        simp only [Bool.false_eq_true, if_false] at h
        have := ih _ _ p' k h; simp at this ⊢; omega
    | err e => simp [he] at h
    | panic w => simp [he] at h

/-- **the reply of `Delete::exec`**: with the package invariant, a delete on an existing table is
refused exactly when its condition names an unknown column; otherwise it succeeds -/
theorem delete_reply (slack : Nat → Nat) (s : Pkg) (hI : Inv slack s) (tname : List Char) (cond : Option Ast)
    (t : Table) (ht : s.findTable tname = some t) :
    (deleteExec s tname cond).2 = if condMissing t cond then .err .invalidInput else .ok () := by
  have htm := findTable_spec s tname t ht
  obtain ⟨existing, hl⟩ := hI.loads t htm
  obtain ⟨hlr, hrs⟩ := hI.widths t htm
  unfold deleteExec
  simp only [ht]
  by_cases h1 : condMissing t cond = true
  · simp only [h1, if_true]
  have hm : condMissing t cond = false := by simpa using h1
  simp only [hm, Bool.false_eq_true, if_false, hl]
  have hw := loadRows_width s t existing hl
  obtain ⟨⟨pool', kept⟩, hd⟩ := deleteGo_total t cond hm existing s.pool [] hw
  simp only [hd]
  have hexok := MsiProofs.RefineLoad.loadRows_rowOk s t existing hl
  have hkept := deleteGo_kept t cond existing s.pool [] pool' kept hd
  have hklen := deleteGo_length t cond existing s.pool [] pool' kept hd
  apply storeRows_ok_of_rowOk
  · intro r hr
    rcases hkept r hr with h2 | h2
    · simp at h2
    · exact hexok r h2
  · exact hrs
  · have := MsiProofs.RefineLoad.loadRows_length s t existing hl
    simp at hklen
    omega

theorem cond_table_ok (long : Bool) (name : List Char) :
    condMissing (Catalog.validationTable long) (eqStr "Table" name) = false ∧
    condMissing (Catalog.columnsTable long) (eqStr "Table" name) = false ∧
    condMissing (Catalog.tablesTable long) (eqStr "Name" name) = false := by
  refine ⟨?_, ?_, ?_⟩ <;> rfl

/-- an accepted catalog delete through `delete_rows`: it succeeds and keeps the invariants -/
theorem deleteRows_ok (slack : Nat → Nat) (s : Pkg) (hI : Inv slack s) (hS : SortedAll s) (tn : List Char)
    (cond : Option Ast) (t : Table) (ht : s.findTable tn = some t) (hm : condMissing t cond = false) :
    (deleteRows s tn cond).2 = .ok () ∧ Inv slack (deleteRows s tn cond).1 ∧ SortedAll (deleteRows s tn cond).1 ∧
    (deleteRows s tn cond).1.tables = s.tables ∧ (deleteRows s tn cond).1.pool.longRefs = s.pool.longRefs := by
  have hIA := inv_finisher slack s hI
  have hSA := sorted_finisher s hS
  have hr : (deleteExec { s with finisher := true } tn cond).2 = .ok () := by
    rw [delete_reply slack _ hIA tn cond t ht, hm]; rfl
  have hrun : deleteExec { s with finisher := true } tn cond = ((deleteExec { s with finisher := true } tn cond).1, .ok ()) := by
    rw [← hr]
  have hk := delete_kept slack _ tn cond _ hIA hrun
  exact ⟨hr, delete_inv slack _ tn cond _ hIA hrun, delete_sorted slack _ tn cond _ hIA hSA hrun, hk.tables, hk.long⟩

/-- **`drop_table` cannot fail midway**: with the full invariant, a call whose name passes the
checks (not reserved, valid, an existing table) succeeds -/
theorem dropTable_total (slack : Nat → Nat) (s : Pkg) (tabs : List Table) (hF : Full slack s tabs) (name : List Char)
    (hres : Catalog.isReserved name = false) (hvalid : Table.isValidName name = true) (t : Table)
    (hf : s.findTable name = some t) : (dropTable s name).2 = .ok () := by
  have hC := hF.core
  have htm := findTable_spec s name t hf
  -- after the rows are released (or when there is no stream) the invariants hold and the catalog tables are found
  have tail : ∀ s1 : Pkg, Inv slack s1 → SortedAll s1 → s1.tables = s.tables → s1.pool.longRefs = s.pool.longRefs →
      (dropTail s1 name).2 = .ok () := by
    intro s1 hI1 hS1 ht1 hl1
    have hct : Catalog.columnsTable s.pool.longRefs ∈ s.tables := (hC.mem _).mpr (Or.inl rfl)
    have htt : Catalog.tablesTable s.pool.longRefs ∈ s.tables := (hC.mem _).mpr (Or.inr (Or.inl rfl))
    have hvt : Catalog.validationTable s.pool.longRefs ∈ s.tables := (hC.mem _).mpr (Or.inr (Or.inr hF.hasVal))
    have hXc : s.findTable Gen.nameColumns.toList = some (Catalog.columnsTable s.pool.longRefs) := hC.find _ hct
    have hXt : s.findTable Gen.nameTables.toList = some (Catalog.tablesTable s.pool.longRefs) := hC.find _ htt
    have hXv : s.findTable Gen.nameValidation.toList = some (Catalog.validationTable s.pool.longRefs) := hC.find _ hvt
    obtain ⟨c1, c2, c3⟩ := cond_table_ok s.pool.longRefs name
    unfold dropTail
    rw [MsiProofs.DeleteValidation.deleteValidation_some s1 name (by rw [findTable_congr ht1, hXv]; rfl)]
    obtain ⟨r2, hI2, hS2, ht2, hl2⟩ := deleteRows_ok slack s1 hI1 hS1 Gen.nameValidation.toList (eqStr "Table" name) _
      (by rw [findTable_congr ht1]; exact hXv) c1
    generalize hg2 : deleteRows s1 Gen.nameValidation.toList (eqStr "Table" name) = x2 at r2 hI2 hS2 ht2 hl2
    obtain ⟨s2, res2⟩ := x2
    simp only at r2 hI2 hS2 ht2 hl2
    subst r2
    simp only
    obtain ⟨r3, hI3, hS3, ht3, hl3⟩ := deleteRows_ok slack s2 hI2 hS2 Gen.nameColumns.toList (eqStr "Table" name) _
      (by rw [findTable_congr (ht2.trans ht1)]; exact hXc) c2
    generalize hg3 : deleteRows s2 Gen.nameColumns.toList (eqStr "Table" name) = x3 at r3 hI3 hS3 ht3 hl3
    obtain ⟨s3, res3⟩ := x3
    simp only at r3 hI3 hS3 ht3 hl3
    subst r3
    simp only
    obtain ⟨r4, -, -, -, -⟩ := deleteRows_ok slack s3 hI3 hS3 Gen.nameTables.toList (eqStr "Name" name) _
      (by rw [findTable_congr (ht3.trans (ht2.trans ht1))]; exact hXt) c3
    generalize hg4 : deleteRows s3 Gen.nameTables.toList (eqStr "Name" name) = x4 at r4
    obtain ⟨s4, res4⟩ := x4
    simp only at r4
    subst r4
    rfl
  unfold dropTable
  simp only [hres, Bool.false_eq_true, if_false, hvalid, Bool.not_true, hf]
  by_cases hex : Cont.exists_ s.cont t.streamName = true
  · simp only [hex, if_true]
    obtain ⟨rows, hl⟩ := hC.inv.loads t htm
    simp only [hl]
    obtain ⟨hI1, hS1, hK1, -⟩ := release_stage slack s hC.inv hC.sorted t htm rows hl
    exact tail (released s t rows) hI1 hS1 hK1.tables hK1.long
  · simp only [hex, Bool.false_eq_true, if_false]
    exact tail s hC.inv hC.sorted rfl rfl

end MsiProofs.DropTotal
