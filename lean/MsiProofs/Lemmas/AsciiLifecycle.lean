import MsiProofs.Lemmas.PoolText
import MsiProofs.Lemmas.AsciiSavable
/-
The `Savable` hypothesis of the lifecycle theorem, discharged for ASCII text: when every string
handed to the library is ASCII (and shorter than 4 GiB), the pool of every reachable state can be
written and read back under any supported code page — only the well-formedness of the summary
remains an assumption at a save.
-/
namespace MsiProofs.AsciiLifecycle
open MsiModel MsiModel.Bytes MsiModel.Pkg MsiProofs.PoolText MsiProofs.Lifecycle MsiProofs.SaveOpen
open MsiProofs.CreateTable MsiProofs.FullHistory MsiProofs.Created MsiProofs.CatalogSync

section
variable (C : Nat → Prop) (A : List Char → Prop)

/-- the texts a call hands over satisfy `A`; a new code page satisfies `C` -/
def StepA : Step → Prop
  | .dml (.insert _ rows) => RowsA A rows
  | .dml (.update _ ups _) => ∀ u ∈ ups, ValA A u.2
  | .create n c => RowsA A (catalogRowsColumns n c) ∧ RowsA A [[.str n]] ∧ RowsA A (catalogRowsValidation n c)
  | .setCodepage cp => C cp
  | _ => True

theorem pt_of_strings {p p' : Pool} (hs : p'.strings = p.strings) (hc : p'.codepage = p.codepage) (h : PT C A p) :
    PT C A p' := by
  unfold PT at *
  rw [hs, hc]; exact h

/-- **one call keeps the pool fit to be written** -/
theorem step_pt (h0 : A []) (slack : Nat → Nat) (s : Pkg) (tabs : List Table) (hF : Full slack s tabs)
    (st : Step) (ha : st.Admissible s) (hA : StepA C A st) (hp : PT C A s.pool) : PT C A (st.run s).pool := by
  cases st with
  | dml op =>
    cases op with
    | insert t rows => exact insertExec_pt C A { s with finisher := true } t rows hA hp
    | delete t cond => exact deleteExec_pt C A h0 { s with finisher := true } t cond hp
    | update t ups cond => exact updateExec_pt C A h0 { s with finisher := true } t ups cond hA hp
  | create n c => exact createTable_pt C A s n c hA.1 hA.2.1 hA.2.2 hp
  | drop n => exact dropTable_pt C A h0 s n hp
  | writeStream n d =>
    show PT C A (writeStream s n d).1.pool
    unfold writeStream; split <;> exact hp
  | removeStream n =>
    show PT C A (removeStream s n).1.pool
    unfold removeStream
    split
    · exact hp
    · simp only; split <;> exact hp
  | removeSignature => exact hp
  | setSummary f => exact hp
  | setCodepage cp => exact ⟨hA, hp.2⟩
  | save =>
    show PT C A (flush s).1.pool
    unfold flush
    split
    · obtain ⟨-, h2, h3, -⟩ := finish_keeps { s with finisher := false }
      exact pt_of_strings C A h2 h3 hp
    · exact hp
  | reopen =>
    have hAll := full_allInv slack s tabs hF
    obtain ⟨s2, ho, -, -, hpool, -⟩ := reopen_same_tables s tabs ha hAll.cat
    show PT C A (match open_ (some s.ptype) s.cont with | .ok s2 => s2 | _ => s).pool
    rw [ho]
    simp only
    rw [hpool]; exact hp

end

/-- a supported code page -/
def Supported (cp : Nat) : Prop := cp < Gen.cpVariants.length

/-- ASCII text shorter than 4 GiB -/
def AsciiShort (s : List Char) : Prop := MsiProofs.AsciiSavable.IsAscii s ∧ s.length < 4294967296

theorem asciiShort_nil : AsciiShort [] := ⟨fun _ h => (by cases h), (by simp)⟩

/-- a pool of such texts can be written and read back under its code page -/
theorem poolOk_of_pt (p : Pool) (h : PT Supported AsciiShort p) : MsiProofs.PoolCodec.PoolOk p MsiProofs.AsciiCodec.asciiBytes :=
  MsiProofs.AsciiSavable.poolOk_ascii p h.1 (fun e he => (h.2 e he).1.1)
    (fun e he => ⟨(h.2 e he).1.2, (h.2 e he).2.1, (h.2 e he).2.2⟩)

/-- the calls covered, with `Savable` at a save reduced to the summary's well-formedness -/
def StepOk (s : Pkg) (st : Step) : Prop :=
  StepA Supported AsciiShort st ∧
  match st with
  | .save => (flush s).2 = .ok () ∧ MsiProofs.PropSetCodec.WF s.summary ∧ s.summary.fmtid = Gen.summaryFmtid
  | st => st.Admissible s

def AdmissibleA : Pkg → List Step → Prop
  | _, [] => True
  | s, st :: rest => StepOk s st ∧ AdmissibleA (st.run s) rest

theorem admissible_of_stepOk (s : Pkg) (st : Step) (h : StepOk s st) (hp : PT Supported AsciiShort s.pool) :
    st.Admissible s := by
  obtain ⟨-, h2⟩ := h
  cases st with
  | save => exact ⟨h2.1, _, ⟨h2.2.1, h2.2.2, poolOk_of_pt s.pool hp⟩⟩
  | dml op => exact h2
  | create n c => exact h2
  | drop n => exact h2
  | writeStream n d => exact h2
  | removeStream n => exact h2
  | removeSignature => exact h2
  | setSummary f => exact h2
  | setCodepage cp => exact h2
  | reopen => exact h2

/-- **every reachable state keeps every invariant and a pool fit to be written** -/
theorem historyA (slack : Nat → Nat) (steps : List Step) : ∀ (s : Pkg) (tabs : List Table),
    Full slack s tabs → NoOrphans s → PT Supported AsciiShort s.pool → AdmissibleA s steps →
    Admissible s steps ∧ PT Supported AsciiShort (runAll s steps).pool ∧
    ∃ tabs', Full slack (runAll s steps) tabs' ∧ NoOrphans (runAll s steps) := by
  induction steps with
  | nil => intro s tabs hF hN hp _; exact ⟨trivial, hp, tabs, hF, hN⟩
  | cons st rest ih =>
    intro s tabs hF hN hp ha
    have hadm := admissible_of_stepOk s st ha.1 hp
    obtain ⟨tabs', hF', hN'⟩ := step_full slack s tabs hF hN st hadm
    have hp' := step_pt Supported AsciiShort asciiShort_nil slack s tabs hF st hadm ha.1.1 hp
    obtain ⟨h1, h2, h3⟩ := ih _ tabs' hF' hN' hp' ha.2
    exact ⟨⟨hadm, h1⟩, h2, h3⟩

theorem base_pt (ptype : Nat) (summary : PropSet) (hcp : summary.codepage < Gen.cpVariants.length) :
    PT Supported AsciiShort (base ptype summary).pool :=
  ⟨hcp, fun e he => by cases he⟩

/-- executable form of "every text of these rows is ASCII and short" -/
def valAsciiB : Value → Bool
  | .str s => s.all (fun c => decide (c.toNat < 128)) && decide (s.length < 4294967296)
  | _ => true
def rowsAsciiB (rows : List (List Value)) : Bool := rows.all fun r => r.all valAsciiB

theorem rowsA_of_check (rows : List (List Value)) (h : rowsAsciiB rows = true) : RowsA AsciiShort rows := by
  intro r hr v hv
  have h1 := List.all_eq_true.mp (List.all_eq_true.mp h r hr) v hv
  cases v with
  | null => trivial
  | int n => trivial
  | str st =>
    simp only [valAsciiB, Bool.and_eq_true, List.all_eq_true, decide_eq_true_eq] at h1
    exact ⟨fun c hc => h1.1 c hc, h1.2⟩

theorem validation_rows_ascii :
    RowsA AsciiShort (catalogRowsColumns Gen.nameValidation.toList Catalog.validationColumns) ∧
    RowsA AsciiShort [[.str Gen.nameValidation.toList]] ∧
    RowsA AsciiShort (catalogRowsValidation Gen.nameValidation.toList Catalog.validationColumns) :=
  ⟨rowsA_of_check _ (by decide +kernel), rowsA_of_check _ (by decide +kernel), rowsA_of_check _ (by decide +kernel)⟩

/-- the pool of the state `create` builds is fit to be written -/
theorem created_pt (ptype : Nat) (summary : PropSet) (hcp : summary.codepage < Gen.cpVariants.length) (s0 : Pkg)
    (hc : createTable (base ptype summary) Gen.nameValidation.toList Catalog.validationColumns = (s0, .ok ())) :
    PT Supported AsciiShort s0.pool := by
  have := createTable_pt Supported AsciiShort (base ptype summary) Gen.nameValidation.toList Catalog.validationColumns
    validation_rows_ascii.1 validation_rows_ascii.2.1 validation_rows_ascii.2.2 (base_pt ptype summary hcp)
  rw [hc] at this; exact this

/-- **packages holding ASCII text reopen as they were, with no assumption on the pool**: from the
state `create` builds, after any sequence of calls whose texts are ASCII (statements, create_table,
drop_table, streams, signature, summary, code page, saves, close-and-reopen), a successful save of
a state whose summary is well-formed can be reopened, and the reopened package has the same
container, summary, string pool, table definitions and rows -/
theorem created_ascii_reopens (ptype : Nat) (summary : PropSet) (hcp : summary.codepage < Gen.cpVariants.length)
    (s0 : Pkg)
    (hc : createTable (base ptype summary) Gen.nameValidation.toList Catalog.validationColumns = (s0, .ok ()))
    (steps : List Step) (ha : AdmissibleA s0 steps)
    (hwf : MsiProofs.PropSetCodec.WF (runAll s0 steps).summary) (hfmt : (runAll s0 steps).summary.fmtid = Gen.summaryFmtid)
    (s1 : Pkg) (hf : finish (runAll s0 steps) = (s1, .ok ())) :
    ∃ s2, open_ (some s1.ptype) s1.cont = .ok s2 ∧
      s2.cont = s1.cont ∧ s2.summary = s1.summary ∧ s2.pool = s1.pool ∧ s2.tables = s1.tables ∧
      (∀ t, s2.loadRows t = s1.loadRows t) := by
  obtain ⟨hF0, hN0⟩ := created_full ptype summary s0 hc
  obtain ⟨hadm, hp, -⟩ := historyA _ steps s0 _ hF0 hN0 (created_pt ptype summary hcp s0 hc) ha
  exact created_reopens ptype summary s0 hc steps hadm _ ⟨hwf, hfmt, poolOk_of_pt _ hp⟩ s1 hf

end MsiProofs.AsciiLifecycle
