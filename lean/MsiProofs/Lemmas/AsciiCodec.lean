import MsiModel.Codec
/-
ASCII text round-trips through every code page of the model (UTF-8, US-ASCII and the 24
ASCII-transparent table pages): the codec hypotheses of the pool and property-set round trips
hold for every ASCII string under every code page.
-/
namespace MsiProofs.AsciiCodec
open MsiModel MsiModel.Codec

theorem char_byte_char (c : Char) (h : c.toNat < 128) : Char.ofNat (UInt8.ofNat c.toNat).toNat = c := by
  have h1 : (UInt8.ofNat c.toNat).toNat = c.toNat := by
    simp only [UInt8.toNat_ofNat']
    omega
  rw [h1]
  exact Char.ofNat_toNat c

theorem byte_lt (c : Char) (h : c.toNat < 128) : (UInt8.ofNat c.toNat).toNat < 128 := by
  simp only [UInt8.toNat_ofNat']
  omega

theorem utf8_ascii_char (c : Char) (h : c.toNat < 128) : String.utf8EncodeChar c = [UInt8.ofNat c.toNat] := by
  have hs : c.utf8Size = 1 := by
    unfold Char.utf8Size
    have : c.val ≤ 127 := by
      have : c.val.toNat < 128 := h
      exact UInt32.le_iff_toNat_le.mpr (by simp; omega)
    simp [this]
  rw [String.utf8EncodeChar_eq_singleton hs]
  congr 1

theorem utf8_lossy_ascii (s : List Char) (h : ∀ c ∈ s, c.toNat < 128) : ∀ (fuel : Nat) (acc : List Char),
    s.length < fuel →
    utf8DecodeLossy fuel (s.map fun c => UInt8.ofNat c.toNat) acc = acc.reverse ++ s := by
  induction s with
  | nil => intro fuel acc hf; cases fuel <;> simp [utf8DecodeLossy]
  | cons c cs ih =>
    intro fuel acc hf
    cases fuel with
    | zero => simp at hf
    | succ f =>
      have hc := h c (by simp)
      simp only [List.map_cons, utf8DecodeLossy]
      have hb : (UInt8.ofNat c.toNat).toNat < 0x80 := byte_lt c hc
      simp only [hb, if_true]
      rw [char_byte_char c hc, ih (fun d hd => h d (by simp [hd])) f (c :: acc) (by simpa using hf)]
      simp

/-- **ASCII text round-trips under every code page of the model** -/
theorem ascii_roundtrip (cp : Nat) (s : List Char) (h : ∀ c ∈ s, c.toNat < 128) :
    ∃ bs, encode cp s = some bs ∧ decode cp bs = some s ∧ bs.length = s.length := by
  have hall : isAsciiStr s = true := by
    unfold isAsciiStr
    simpa using h
  have hbytes : (s.map fun c => UInt8.ofNat c.toNat).all (fun b => decide (b.toNat < 128)) = true := by
    simp only [List.all_map, List.all_eq_true, Function.comp, decide_eq_true_eq]
    intro c hc
    exact byte_lt c (h c hc)
  have hback : (s.map fun c => UInt8.ofNat c.toNat).map (fun b => Char.ofNat b.toNat) = s := by
    rw [List.map_map]
    conv => rhs; rw [← List.map_id s]
    apply List.map_congr_left
    intro c hc
    exact char_byte_char c (h c hc)
  by_cases h1 : some cp = utf8Name
  · refine ⟨s.map fun c => UInt8.ofNat c.toNat, ?_, ?_, by simp⟩
    · unfold encode
      simp only [h1, if_true]
      congr 1
      induction s with
      | nil => rfl
      | cons c cs ih =>
        simp only [List.flatMap_cons, List.map_cons]
        rw [utf8_ascii_char c (h c (by simp)), ih (fun d hd => h d (by simp [hd]))
          (by unfold isAsciiStr; simpa using fun d hd => h d (by simp [hd]))
          (by
            simp only [List.all_map, List.all_eq_true, Function.comp, decide_eq_true_eq]
            intro d hd; exact byte_lt d (h d (by simp [hd])))
          (by
            rw [List.map_map]
            conv => rhs; rw [← List.map_id cs]
            apply List.map_congr_left
            intro d hd
            exact char_byte_char d (h d (by simp [hd])))]
        rfl
    · unfold decode
      simp only [h1, if_true]
      rw [utf8_lossy_ascii s h _ [] (by simp)]
      simp
  · by_cases h2 : some cp = asciiName
    · have hne : ¬ (asciiName = utf8Name) := by decide
      refine ⟨CodePage.asciiEncode s, ?_, ?_, by simp [CodePage.asciiEncode]⟩
      · unfold encode; simp only [h2, hne, if_false, if_true]
      · unfold decode; simp only [h2, hne, if_false, if_true]
        congr 1
        unfold CodePage.asciiDecode CodePage.asciiEncode
        rw [List.map_map]
        conv => rhs; rw [← List.map_id s]
        apply List.map_congr_left
        intro c hc
        have hc' := h c hc
        simp only [Function.comp, hc', if_true, byte_lt c hc', id]
        exact char_byte_char c hc'
    · refine ⟨s.map fun c => UInt8.ofNat c.toNat, ?_, ?_, by simp⟩
      · unfold encode; simp only [h1, h2, if_false, hall, if_true]
      · unfold decode; simp only [h1, h2, if_false, hbytes, if_true, hback]


/-- the bytes of an ASCII string -/
def asciiBytes (s : List Char) : List UInt8 := s.map fun c => UInt8.ofNat c.toNat

/-- the same with the encoding made explicit: one byte per character, under every code page -/
theorem ascii_roundtrip' (cp : Nat) (s : List Char) (h : ∀ c ∈ s, c.toNat < 128) :
    encode cp s = some (asciiBytes s) ∧ decode cp (asciiBytes s) = some s := by
  obtain ⟨bs, h1, h2, -⟩ := ascii_roundtrip cp s h
  have hbs : bs = asciiBytes s := by
    by_cases c1 : some cp = utf8Name
    · unfold encode at h1
      simp only [c1, if_true, Option.some.injEq] at h1
      rw [← h1]
      unfold asciiBytes
      clear h1 h2
      induction s with
      | nil => rfl
      | cons c cs ih =>
        simp only [List.flatMap_cons, List.map_cons]
        rw [utf8_ascii_char c (h c (by simp)), ih (fun d hd => h d (by simp [hd]))]
        rfl
    · by_cases c2 : some cp = asciiName
      · have hne : ¬ (asciiName = utf8Name) := by decide
        unfold encode at h1
        simp only [c2, hne, if_false, if_true, Option.some.injEq] at h1
        rw [← h1]
        unfold asciiBytes CodePage.asciiEncode
        apply List.map_congr_left
        intro c hc
        simp [h c hc]
      · have hall : isAsciiStr s = true := by unfold isAsciiStr; simpa using h
        unfold encode at h1
        simp only [c1, c2, if_false, hall, if_true, Option.some.injEq] at h1
        exact h1.symm
  rw [hbs] at h1 h2
  exact ⟨h1, h2⟩

end MsiProofs.AsciiCodec
