import MsiProofs.Lemmas.GlobalInv
/-
Keys stay unique and ascending (property C05 over histories): in every table, the rows the state
reads are in strictly ascending key order — hence have pairwise distinct keys — and every insert
or delete, accepted or refused, keeps it so for all tables.
-/
namespace MsiProofs.SortedInv
open MsiModel MsiModel.Bytes MsiModel.Pkg MsiProofs.Refine MsiProofs.RefineDelete MsiProofs.RefineExact
open MsiProofs.SaveOpen MsiProofs.RowsOk MsiProofs.GlobalInv

/-- the rows are in strictly ascending key order (keys = the values of the key columns) -/
def KeysAscending (p : Pool) (t : Table) (rows : List (List Cell)) : Prop :=
  (rows.map fun cells => keyOf t.keyIndices (rowValues p cells)).Pairwise fun a b => keyLt a b = true

/-- every table of the package is in ascending key order -/
def SortedAll (s : Pkg) : Prop := ∀ t ∈ s.tables, ∀ rows, s.loadRows t = .ok rows → KeysAscending s.pool t rows

theorem keysAscending_congr {p p' : Pool} {t : Table} {rows : List (List Cell)}
    (h : ∀ r ∈ rows, rowValues p' r = rowValues p r) (hs : KeysAscending p t rows) : KeysAscending p' t rows := by
  unfold KeysAscending at *
  have : (rows.map fun cells => keyOf t.keyIndices (rowValues p' cells)) =
      (rows.map fun cells => keyOf t.keyIndices (rowValues p cells)) :=
    List.map_congr_left fun r hr => by rw [h r hr]
  rw [this]; exact hs

theorem mem_cellsOfTables {s : Pkg} {ts : List Table} {t : Table} {rows : List (List Cell)} {r : List Cell} {c : Cell}
    (ht : t ∈ ts) (hl : s.loadRows t = .ok rows) (hr : r ∈ rows) (hc : c ∈ r) : c ∈ cellsOfTables s ts := by
  unfold cellsOfTables
  simp only [List.mem_flatten, List.mem_map]
  exact ⟨(rowsOf s t).flatten, ⟨t, ht, rfl⟩, by rw [rowsOf_ok hl]; exact List.mem_flatten.mpr ⟨r, hr, hc⟩⟩

theorem eq_of_same_stream (ts : List Table) (hd : ts.Pairwise fun a b => key a.streamName ≠ key b.streamName)
    {a b : Table} (ha : a ∈ ts) (hb : b ∈ ts) (h : key a.streamName = key b.streamName) : a = b := by
  induction ts with
  | nil => simp at ha
  | cons x rest ih =>
    obtain ⟨h1, h2⟩ := List.pairwise_cons.mp hd
    simp only [List.mem_cons] at ha hb
    rcases ha with rfl | ha <;> rcases hb with rfl | hb
    · rfl
    · exact absurd h (h1 b hb)
    · exact absurd h.symm (h1 a ha)
    · exact ih h2 ha hb

/-- a successful insert keeps every table in ascending key order -/
theorem insert_sorted (slack : Nat → Nat) (s : Pkg) (tname : List Char) (rows : List (List Value)) (s' : Pkg)
    (hI : Inv slack s) (hS : SortedAll s) (h : insertExec s tname rows = (s', .ok ())) : SortedAll s' := by
  cases hf : s.findTable tname with
  | none =>
    unfold insertExec at h
    simp only [hf] at h
    cases (Prod.mk.inj h).2
  | some t =>
    have htm := findTable_spec s tname t hf
    obtain ⟨existing, hl⟩ := hI.loads t htm
    have hliveAll := live_of_accounted slack s.pool _ hI.pos hI.counts
    have hlive : ∀ r ∈ existing, ∀ c ∈ r, LiveCell s.pool c :=
      fun r hr c hc => hliveAll c (mem_cellsOfTables htm hl hr hc)
    obtain ⟨hlr, hrs⟩ := hI.widths t htm
    obtain ⟨stored, hstored, -, hsorted, -, hext, -, -, -, -⟩ :=
      MsiProofs.RefineLoad.insert_then_load s tname rows s' h t hf existing hl hlive hI.sized hlr hrs
    obtain ⟨-, -, -, -, -, -, -, hframe, htabs, -⟩ :=
      MsiProofs.Refine.insert_refines s tname rows s' h t hf existing hl hlive
    intro x hx rws hrws
    rw [htabs] at hx
    by_cases hxt : key t.streamName = key x.streamName
    · -- the same stream: `x` reads what `t` reads only if it is the same table definition
      have : x = t := (eq_of_same_stream s.tables hI.distinct htm hx hxt).symm
      subst this
      rw [hstored] at hrws
      cases hrws
      exact hsorted
    · have hsame : s'.loadRows x = s.loadRows x := loadRows_congr s s' x (hframe _ hxt)
      rw [hsame] at hrws
      refine keysAscending_congr ?_ (hS x hx rws hrws)
      intro r hr
      exact (rowValues_ext hext r (fun c hc => hliveAll c (mem_cellsOfTables hx hrws hr hc))).1


/-- a successful delete keeps every table in ascending key order -/
theorem delete_sorted (slack : Nat → Nat) (s : Pkg) (tname : List Char) (cond : Option Ast) (s' : Pkg)
    (hI : Inv slack s) (hS : SortedAll s) (h : deleteExec s tname cond = (s', .ok ())) : SortedAll s' := by
  cases hf : s.findTable tname with
  | none =>
    unfold deleteExec at h
    simp only [hf] at h
    cases (Prod.mk.inj h).2
  | some t =>
    have htm := findTable_spec s tname t hf
    obtain ⟨existing, hl⟩ := hI.loads t htm
    obtain ⟨pre, post, hsplit⟩ := split_at_table s.tables t htm
    have hcells : cellsOfTables s s.tables =
        cellsOfTables s pre ++ existing.flatten ++ cellsOfTables s post := by
      rw [hsplit, cellsOfTables_split, rowsOf_ok hl]
    let others := cellsOfTables s pre ++ cellsOfTables s post
    have hperm : (cellsOfTables s s.tables).Perm (existing.flatten ++ others) := by
      rw [hcells]
      simp only [others, List.append_assoc]
      exact List.perm_append_comm_assoc _ _ _
    have hacc : AccountedWith slack s.pool (existing.flatten ++ others) := accountedWith_perm hperm hI.counts
    have hposAll : PosRefs (existing.flatten ++ others) := fun r hr => hI.pos r (hperm.mem_iff.mpr hr)
    obtain ⟨hlr, hrs⟩ := hI.widths t htm
    obtain ⟨hstored, hv, -⟩ := MsiProofs.RefineLoad.delete_then_load s tname cond s' h t hf existing hl others
      hposAll (hacc.accounted hposAll) hrs
    obtain ⟨bytes, -, -, -, -, hframe, htabs, -⟩ :=
      delete_refines s tname cond s' h t hf existing hl others hposAll (hacc.accounted hposAll)
    intro x hx rws hrws
    rw [htabs] at hx
    by_cases hxt : key t.streamName = key x.streamName
    · have : x = t := (eq_of_same_stream s.tables hI.distinct htm hx hxt).symm
      subst this
      rw [hstored] at hrws
      cases hrws
      have h0 := hS x htm existing hl
      -- a sub-list of an ascending list, with the same values
      have hsub : KeysAscending s.pool x (existing.filter fun r => evalCond x s.pool cond r == .ok false) := by
        unfold KeysAscending at *
        exact List.Pairwise.sublist ((List.filter_sublist).map _) h0
      refine keysAscending_congr ?_ hsub
      intro r hr
      unfold rowValues
      apply List.map_congr_left
      intro c hc
      apply hv c
      simp only [List.mem_append, List.mem_flatten]
      exact Or.inl ⟨r, hr, hc⟩
    · have hsame : s'.loadRows x = s.loadRows x := loadRows_congr s s' x (hframe _ hxt)
      rw [hsame] at hrws
      refine keysAscending_congr ?_ (hS x hx rws hrws)
      intro r hr
      unfold rowValues
      apply List.map_congr_left
      intro c hc
      apply hv c
      -- `x` is one of the other tables
      have hxo : x ∈ pre ∨ x ∈ post := by
        rw [hsplit] at hx
        simp only [List.mem_append, List.mem_cons] at hx
        rcases hx with h1 | h1 | h1
        · exact Or.inl h1
        · exact absurd (by rw [h1]) hxt
        · exact Or.inr h1
      simp only [List.mem_append]
      right
      simp only [others, List.mem_append]
      rcases hxo with h1 | h1
      · exact Or.inl (mem_cellsOfTables h1 hrws hr hc)
      · exact Or.inr (mem_cellsOfTables h1 hrws hr hc)

/-- **every history of inserts and deletes keeps every table's keys unique and ascending** -/
theorem history_sorted (slack : Nat → Nat) (ops : List GlobalInv.Op) : ∀ (s : Pkg), Inv slack s → SortedAll s →
    Inv slack (ops.foldl GlobalInv.Op.run s) ∧ SortedAll (ops.foldl GlobalInv.Op.run s) := by
  induction ops with
  | nil => intro s h1 h2; exact ⟨h1, h2⟩
  | cons op ops ih =>
    intro s h1 h2
    refine ih _ (op_inv slack s op h1) ?_
    cases op with
    | insert t rows =>
      by_cases hr : (insertExec s t rows).2 = .ok ()
      · exact insert_sorted slack s t rows _ h1 h2 (by rw [← hr]; rfl)
      · show SortedAll (insertExec s t rows).1
        rw [insert_refused_noop slack s t rows h1 hr]; exact h2
    | delete t cond =>
      by_cases hr : (deleteExec s t cond).2 = .ok ()
      · exact delete_sorted slack s t cond _ h1 h2 (by rw [← hr]; rfl)
      · show SortedAll (deleteExec s t cond).1
        rw [delete_refused_noop slack s t cond h1 hr]; exact h2

/-- ascending keys are pairwise distinct keys -/
theorem keys_distinct {p : Pool} {t : Table} {rows : List (List Cell)} (h : KeysAscending p t rows) :
    (rows.map fun cells => keyOf t.keyIndices (rowValues p cells)).Pairwise (· ≠ ·) :=
  h.imp fun hab e => by rw [e, MsiProofs.Order.keyLt_irrefl] at hab; cases hab

end MsiProofs.SortedInv
