import MsiModel.ExprLex
import MsiProofs.Lemmas.ExprRead
/-
Lemmas for C19, lexical layer: the lexer reads the printed text of an expression back as
the token form of the printer.
-/
namespace MsiProofs.ExprLex
open MsiModel MsiProofs.ExprRead

theorem lexFrom_nil (st : LexSt) : lexFrom st [] = endTok st := by unfold lexFrom; rfl

theorem lexFrom_cons (st : LexSt) (c : Char) (r : List Char) :
    lexFrom st (c :: r) = (step st c).bind fun x => (lexFrom x.1 r).map (x.2 ++ ·) := by
  rw [lexFrom]

/-- one step that emits `out` and moves to `st'` -/
theorem lexFrom_step {st st' : LexSt} {c : Char} {r : List Char} {out ts : List Tok}
    (h1 : step st c = some (st', out)) (h2 : lexFrom st' r = some ts) :
    lexFrom st (c :: r) = some (out ++ ts) := by
  rw [lexFrom_cons, h1]; simp [h2]

/-- a pending token ends where the following text does not continue it -/
theorem lex_pending {st : LexSt} {out : List Tok} {rest : List Char} {rt : List Tok}
    (he : endTok st = some out)
    (hc : ∀ c r, rest = c :: r → step st c = flushThen st c)
    (hr : lexFrom .idle rest = some rt) :
    lexFrom st rest = some (out ++ rt) := by
  cases rest with
  | nil =>
    rw [lexFrom_nil] at hr ⊢
    simp only [endTok, Option.some.injEq] at hr
    subst hr
    simpa using he
  | cons c r =>
    rw [lexFrom_cons] at hr ⊢
    rw [hc c r rfl]
    simp only [step] at hr
    unfold flushThen
    rw [he]
    cases hs : stepIdle c with
    | none => simp [hs] at hr
    | some p =>
      obtain ⟨st', o'⟩ := p
      simp only [hs, Option.bind_some] at hr ⊢
      cases hl : lexFrom st' r with
      | none => simp [hl] at hr
      | some ts =>
        simp only [hl, Option.map_some, Option.some.injEq] at hr ⊢
        subst hr
        simp

/-- what may follow an operand in printed text -/
def Follow (rest : List Char) : Prop := ∀ c r, rest = c :: r → c = ' ' ∨ c = ')'

theorem follow_nil : Follow [] := fun _ _ h => by cases h
theorem follow_space (r : List Char) : Follow (' ' :: r) := fun _ _ h => by cases h; exact Or.inl rfl
theorem follow_rp (r : List Char) : Follow (')' :: r) := fun _ _ h => by cases h; exact Or.inr rfl

/-- "the text `s` lexes to the tokens `ts`" wherever an operand may stand -/
def LexesTo (s : List Char) (ts : List Tok) : Prop :=
  ∀ rest rt, Follow rest → lexFrom .idle rest = some rt → lexFrom .idle (s ++ rest) = some (ts ++ rt)

/-- the same for text that ends by itself (operators with their blanks, quotes, parentheses) -/
def LexesTo' (s : List Char) (ts : List Tok) : Prop :=
  ∀ rest rt, lexFrom .idle rest = some rt → lexFrom .idle (s ++ rest) = some (ts ++ rt)

/-! ### runs of characters -/

theorem word_run (w : List Char) : ∀ (acc rest : List Char), (∀ c ∈ w, isIdChar c = true) →
    lexFrom (.word acc) (w ++ rest) = lexFrom (.word (acc ++ w)) rest := by
  induction w with
  | nil => intro acc rest _; simp
  | cons c w ih =>
    intro acc rest h
    have hc : isIdChar c = true := h c (by simp)
    have hs : step (.word acc) c = some (.word (acc ++ [c]), []) := by simp [step, hc]
    rw [List.cons_append, lexFrom_cons, hs]
    simp only [Option.bind_some]
    rw [ih (acc ++ [c]) rest (fun d hd => h d (by simp [hd]))]
    simp

theorem num_run (w : List Char) : ∀ (neg : Bool) (acc rest : List Char), (∀ c ∈ w, isDigitC c = true) →
    lexFrom (.num neg acc) (w ++ rest) = lexFrom (.num neg (acc ++ w)) rest := by
  induction w with
  | nil => intro neg acc rest _; simp
  | cons c w ih =>
    intro neg acc rest h
    have hc : isDigitC c = true := h c (by simp)
    have hs : step (.num neg acc) c = some (.num neg (acc ++ [c]), []) := by simp [step, hc]
    rw [List.cons_append, lexFrom_cons, hs]
    simp only [Option.bind_some]
    rw [ih neg (acc ++ [c]) rest (fun d hd => h d (by simp [hd]))]
    simp

theorem str_run (w : List Char) : ∀ (acc rest : List Char), (∀ c ∈ w, Value.plainChar c = true) →
    lexFrom (.str acc) (w ++ rest) = lexFrom (.str (acc ++ w)) rest := by
  induction w with
  | nil => intro acc rest _; simp
  | cons c w ih =>
    intro acc rest h
    have hc : Value.plainChar c = true := h c (by simp)
    have h1 : c ≠ '"' := by
      rintro rfl; revert hc; decide
    have h2 : c ≠ '\\' := by
      rintro rfl; revert hc; decide
    have hs : step (.str acc) c = some (.str (acc ++ [c]), []) := by simp [step, h1, h2]
    rw [List.cons_append, lexFrom_cons, hs]
    simp only [Option.bind_some]
    rw [ih (acc ++ [c]) rest (fun d hd => h d (by simp [hd]))]
    simp


/-! ### single characters -/

theorem idStart_range {c : Char} (h : isIdStart c = true) :
    (65 ≤ c.toNat ∧ c.toNat ≤ 90) ∨ (97 ≤ c.toNat ∧ c.toNat ≤ 122) ∨ c.toNat = 95 := by
  simpa [isIdStart, or_assoc] using h

theorem digit_range {c : Char} (h : isDigitC c = true) : 48 ≤ c.toNat ∧ c.toNat ≤ 57 := by
  simpa [isDigitC] using h

theorem stepIdle_idStart (c : Char) (h : isIdStart c = true) : stepIdle c = some (.word [c], []) := by
  have hn := idStart_range h
  have ne : ∀ d : Char, (d.toNat < 65 ∨ d.toNat = 94 ∨ 122 < d.toNat) → c ≠ d := by
    intro d hd e; subst e; omega
  have hd : isDigitC c = false := by
    cases hdc : isDigitC c with
    | false => rfl
    | true => have := digit_range hdc; omega
  unfold stepIdle
  rw [if_neg (ne ' ' (by decide)), if_neg (ne '(' (by decide)), if_neg (ne ')' (by decide)),
    if_neg (ne '~' (by decide)), if_neg (ne '=' (by decide)), if_neg (ne '+' (by decide)),
    if_neg (ne '*' (by decide)), if_neg (ne '/' (by decide)), if_neg (ne '&' (by decide)),
    if_neg (ne '|' (by decide)), if_neg (ne '^' (by decide)), if_neg (ne '<' (by decide)),
    if_neg (ne '>' (by decide)), if_neg (ne '!' (by decide)), if_neg (ne '-' (by decide)),
    if_neg (ne '"' (by decide))]
  simp [hd, h]

theorem stepIdle_digit (c : Char) (h : isDigitC c = true) : stepIdle c = some (.num false [c], []) := by
  have hn := digit_range h
  have ne : ∀ d : Char, (d.toNat < 48 ∨ 57 < d.toNat) → c ≠ d := by
    intro d hd e; subst e; omega
  unfold stepIdle
  rw [if_neg (ne ' ' (by decide)), if_neg (ne '(' (by decide)), if_neg (ne ')' (by decide)),
    if_neg (ne '~' (by decide)), if_neg (ne '=' (by decide)), if_neg (ne '+' (by decide)),
    if_neg (ne '*' (by decide)), if_neg (ne '/' (by decide)), if_neg (ne '&' (by decide)),
    if_neg (ne '|' (by decide)), if_neg (ne '^' (by decide)), if_neg (ne '<' (by decide)),
    if_neg (ne '>' (by decide)), if_neg (ne '!' (by decide)), if_neg (ne '-' (by decide)),
    if_neg (ne '"' (by decide))]
  simp [h]

theorem word_delim {acc rest : List Char} (hf : Follow rest) :
    ∀ c r, rest = c :: r → step (.word acc) c = flushThen (.word acc) c := by
  intro c r h
  rcases hf c r h with rfl | rfl
  · have : isIdChar ' ' = false := by decide
    simp [step, this]
  · have : isIdChar ')' = false := by decide
    simp [step, this]

theorem num_delim {neg : Bool} {acc rest : List Char} (hf : Follow rest) :
    ∀ c r, rest = c :: r → step (.num neg acc) c = flushThen (.num neg acc) c := by
  intro c r h
  rcases hf c r h with rfl | rfl
  · have h1 : isIdChar ' ' = false := by decide
    have h2 : isDigitC ' ' = false := by decide
    simp [step, h1, h2]
  · have h1 : isIdChar ')' = false := by decide
    have h2 : isDigitC ')' = false := by decide
    simp [step, h1, h2]

/-! ### atoms -/

/-- a word (identifier or keyword literal) -/
theorem lex_word (c : Char) (w : List Char) (tk : Tok) (hc : isIdStart c = true)
    (hw : ∀ d ∈ w, isIdChar d = true) (ht : wordTok (c :: w) = some tk) : LexesTo (c :: w) [tk] := by
  intro rest rt hf hr
  have h1 : lexFrom (.word [c]) (w ++ rest) = some ([tk] ++ rt) := by
    rw [word_run w [c] rest hw]
    exact lex_pending (by simp [endTok, ht]) (word_delim hf) hr
  have := lexFrom_step (show step .idle c = _ from stepIdle_idStart c hc) h1
  simpa using this

/-- a run of digits, with or without a sign directly in front -/
theorem lex_digits (d : Char) (ds : List Char) (tk : Tok) (hd : ∀ x ∈ d :: ds, isDigitC x = true)
    (ht : numTok false (d :: ds) = some tk) : LexesTo (d :: ds) [tk] := by
  intro rest rt hf hr
  have h1 : lexFrom (.num false [d]) (ds ++ rest) = some ([tk] ++ rt) := by
    rw [num_run ds false [d] rest (fun x hx => hd x (by simp [hx]))]
    exact lex_pending (by simp [endTok, ht]) (num_delim hf) hr
  have := lexFrom_step (show step .idle d = _ from stepIdle_digit d (hd d (by simp))) h1
  simpa using this

theorem lex_neg_digits (d : Char) (ds : List Char) (tk : Tok) (hd : ∀ x ∈ d :: ds, isDigitC x = true)
    (ht : numTok true (d :: ds) = some tk) : LexesTo ('-' :: d :: ds) [tk] := by
  intro rest rt hf hr
  have h1 : lexFrom (.num true [d]) (ds ++ rest) = some ([tk] ++ rt) := by
    rw [num_run ds true [d] rest (fun x hx => hd x (by simp [hx]))]
    exact lex_pending (by simp [endTok, ht]) (num_delim hf) hr
  have h2 : step .minus d = some (.num true [d], []) := by simp [step, hd d (by simp)]
  have h3 := lexFrom_step h2 h1
  have h4 : step .idle '-' = some (.minus, []) := rfl
  have := lexFrom_step h4 h3
  simpa using this

/-- a quoted string without escapes -/
theorem lex_str (s : List Char) (hs : ∀ c ∈ s, Value.plainChar c = true) :
    LexesTo' ('"' :: s ++ ['"']) [.lit (.str s)] := by
  intro rest rt hr
  have h0 : step (.str s) '"' = some (.idle, [.lit (.str s)]) := by simp [step]
  have h1 : lexFrom (.str []) (s ++ ('"' :: rest)) = some ([.lit (.str s)] ++ rt) := by
    rw [str_run s [] _ hs]
    exact lexFrom_step h0 hr
  have h2 : step .idle '"' = some (.str [], []) := rfl
  have := lexFrom_step h2 h1
  simpa using this


theorem LexesTo'.toLexesTo {s : List Char} {ts : List Tok} (h : LexesTo' s ts) : LexesTo s ts :=
  fun rest rt _ hr => h rest rt hr

theorem isDigitC_of_isDigit (c : Char) (h : c.isDigit = true) : isDigitC c = true := by
  simp only [Char.isDigit, Bool.and_eq_true, decide_eq_true_eq] at h
  simp only [isDigitC, Bool.and_eq_true, decide_eq_true_eq]
  have h1 := UInt32.le_iff_toNat_le.mp h.1
  have h2 := UInt32.le_iff_toNat_le.mp h.2
  have h3 : c.toNat = c.val.toNat := rfl
  simp at h1 h2
  omega

theorem natDigits_eq (k : Nat) : Value.natDigits k = Nat.toDigits 10 k := by
  simp [Value.natDigits]

theorem natDigits_spec (k : Nat) :
    ∃ d ds, Value.natDigits k = d :: ds ∧ (∀ x ∈ d :: ds, isDigitC x = true) ∧
      Nat.ofDigitChars 10 (d :: ds) 0 = k := by
  rw [natDigits_eq]
  cases h : Nat.toDigits 10 k with
  | nil => exact absurd h Nat.toDigits_ne_nil
  | cons d ds =>
    refine ⟨d, ds, rfl, ?_, ?_⟩
    · intro x hx
      exact isDigitC_of_isDigit x (Nat.isDigit_of_mem_toDigits (by decide) (by decide) (h ▸ hx))
    · rw [← h]; exact Nat.ofDigitChars_ten_toDigits

/-- every literal the printer can write (no escapes) is read back as that literal -/
theorem lex_lit (v : Value) (s : List Char) (h : v.display = some s) : LexesTo s [.lit v] := by
  cases v with
  | null =>
    have hs : s = 'N' :: ['U', 'L', 'L'] := by
      simp only [Value.display, Option.some.injEq] at h
      rw [← h]; decide
    rw [hs]
    exact lex_word 'N' ['U', 'L', 'L'] _ (by decide) (by decide) (by decide)
  | str t =>
    simp only [Value.display] at h
    split at h
    · rename_i hall
      simp only [Option.some.injEq] at h
      rw [← h]
      have := (lex_str t (by simpa using hall)).toLexesTo
      simpa using this
    · cases h
  | int n =>
    simp only [Value.display, Option.some.injEq, Value.intDisplay] at h
    have hlo := Int32.le_toInt n
    have hhi := Int32.toInt_lt n
    split at h
    · rename_i hneg
      obtain ⟨d, ds, hd, hdig, hval⟩ := natDigits_spec n.toInt.natAbs
      rw [← h, hd]
      refine lex_neg_digits d ds _ hdig ?_
      have hk : n.toInt.natAbs ≤ 2147483648 := by omega
      have he : -(n.toInt.natAbs : Int) = n.toInt := by omega
      simp only [numTok, hval, hk, if_true, he, Int32.ofInt_toInt]
    · rename_i hnn
      obtain ⟨d, ds, hd, hdig, hval⟩ := natDigits_spec n.toInt.toNat
      rw [← h, hd]
      refine lex_digits d ds _ hdig ?_
      have hk : n.toInt.toNat < 2147483648 := by omega
      have he : (n.toInt.toNat : Int) = n.toInt := by omega
      simp only [numTok, hval, hk, if_true, he, Int32.ofInt_toInt]
      rfl


/-! ### operators, parentheses -/

/-- evaluate the lexer over a fixed piece of text that ends by itself -/
theorem lex_fixed {txt : List Char} {tk : List Tok}
    (h : ∀ rest, lexFrom .idle (txt ++ rest) = (lexFrom .idle rest).map (tk ++ ·)) : LexesTo' txt tk := by
  intro rest rt hr
  rw [h, hr]; rfl

theorem lex_binop (op : BinOp) : LexesTo' op.text.toList [binTok op] := by
  apply lex_fixed
  intro rest
  cases op <;>
    simp [BinOp.text, Gen.textEq, Gen.textNe, Gen.textLt, Gen.textLe, Gen.textGt, Gen.textGe, Gen.textAdd,
      Gen.textSub, Gen.textMul, Gen.textDiv, Gen.textBitAnd, Gen.textBitOr, Gen.textBitXor, Gen.textShl,
      Gen.textShr, binTok, lexFrom_cons, step, stepIdle, flushThen, endTok, isDigitC] <;>
    cases lexFrom .idle rest <;> rfl


theorem lex_and : LexesTo' Gen.textAnd.toList [Tok.and] := by
  apply lex_fixed
  intro rest
  have : Gen.textAnd.toList = [' ', 'A', 'N', 'D', ' '] := by decide
  rw [this]
  have hw : wordTok ['A', 'N', 'D'] = some Tok.and := by decide
  simp [lexFrom_cons, step, stepIdle, flushThen, endTok, isDigitC, isIdStart, isIdChar, hw]

theorem lex_or : LexesTo' Gen.textOr.toList [Tok.or] := by
  apply lex_fixed
  intro rest
  have : Gen.textOr.toList = [' ', 'O', 'R', ' '] := by decide
  rw [this]
  have hw : wordTok ['O', 'R'] = some Tok.or := by decide
  simp [lexFrom_cons, step, stepIdle, flushThen, endTok, isDigitC, isIdStart, isIdChar, hw]

theorem lex_not : LexesTo' Gen.textBoolNot.toList [Tok.not] := by
  apply lex_fixed
  intro rest
  have : Gen.textBoolNot.toList = ['N', 'O', 'T', ' '] := by decide
  rw [this]
  have hw : wordTok ['N', 'O', 'T'] = some Tok.not := by decide
  simp [lexFrom_cons, step, stepIdle, flushThen, endTok, isDigitC, isIdStart, isIdChar, hw]

theorem lex_tilde : LexesTo' Gen.textBitNot.toList [Tok.tilde] := by
  apply lex_fixed
  intro rest
  have : Gen.textBitNot.toList = ['~'] := by decide
  rw [this]
  simp [lexFrom_cons, step, stepIdle]

theorem lex_lp : LexesTo' ['('] [Tok.lp] := by
  apply lex_fixed
  intro rest
  simp [lexFrom_cons, step, stepIdle]

theorem lex_rp : LexesTo' [')'] [Tok.rp] := by
  apply lex_fixed
  intro rest
  simp [lexFrom_cons, step, stepIdle]

/-- a prefix `-` followed by something that does not start with a digit -/
theorem lex_prefix_minus (c : Char) (r : List Char) (ts : List Tok) (hc : isDigitC c = false)
    (h : lexFrom .idle (c :: r) = some ts) :
    lexFrom .idle (Gen.textNeg.toList ++ c :: r) = some (Tok.minus :: ts) := by
  have : Gen.textNeg.toList = ['-'] := by decide
  rw [this]
  have h1 : lexFrom .minus (c :: r) = some ([Tok.minus] ++ ts) :=
    lex_pending rfl (fun c' r' e => by cases e; simp [step, hc]) h
  have h4 : step .idle '-' = some (.minus, []) := rfl
  have := lexFrom_step h4 h1
  simpa using this

/-! ### combinators -/

theorem lexesTo_append' {s1 s2 : List Char} {t1 t2 : List Tok} (h1 : LexesTo' s1 t1) (h2 : LexesTo s2 t2) :
    LexesTo (s1 ++ s2) (t1 ++ t2) := by
  intro rest rt hf hr
  have := h1 (s2 ++ rest) (t2 ++ rt) (h2 rest rt hf hr)
  simpa using this

theorem lexesTo_par (b : Bool) {x : List Char} {tx : List Tok} (h : LexesTo x tx) :
    LexesTo (Ast.paren b x) (parT b tx) := by
  cases b with
  | false => simpa [Ast.paren, parT] using h
  | true =>
    intro rest rt _ hr
    have h1 : lexFrom .idle (')' :: rest) = some (Tok.rp :: rt) := by
      have := lex_rp rest rt hr
      simpa using this
    have h2 := h (')' :: rest) _ (follow_rp rest) h1
    have h3 := lex_lp (x ++ ')' :: rest) _ h2
    simpa [Ast.paren, parT] using h3

/-- `x <op> y` where the operator's text starts with a blank and ends by itself -/
theorem lexesTo_infix {x y txt : List Char} {tx ty : List Tok} {tk : Tok}
    (hx : LexesTo x tx) (hy : LexesTo y ty) (ho : LexesTo' txt [tk]) (hsp : ∃ t, txt = ' ' :: t) :
    LexesTo (x ++ txt ++ y) (tx ++ tk :: ty) := by
  intro rest rt hf hr
  have h1 := hy rest rt hf hr
  have h2 := ho (y ++ rest) _ h1
  obtain ⟨t, ht⟩ := hsp
  have hf' : Follow (txt ++ (y ++ rest)) := by rw [ht]; exact follow_space _
  have h3 := hx (txt ++ (y ++ rest)) _ hf' h2
  simpa using h3

theorem binop_text_space (op : BinOp) : ∃ t, op.text.toList = ' ' :: t :=
  ⟨op.text.toList.tail, by cases op <;> decide⟩


/-! ### the printed text of an expression lexes to its token form -/

/-- an identifier of the grammar: a letter or `_`, then letters, digits, `_`, `.`; not a keyword -/
def GoodIdent (n : List Char) : Prop :=
  ∃ c w, n = c :: w ∧ isIdStart c = true ∧ (∀ d ∈ w, isIdChar d = true) ∧ wordTok n = some (.ident n)

/-- the domain of the lexical theorem: column names are identifiers, and a prefix minus is not
applied directly to a non-negative integer literal (`Expr`'s constructors fold that case to a
literal, see `good_build`; the text `-5` is the literal) -/
def Good : Ast → Prop
  | .lit _ => True
  | .col n => GoodIdent n
  | .un op a => Good a ∧ (op = .neg → ∀ n, a = .lit (.int n) → n.toInt < 0)
  | .bin _ a b => Good a ∧ Good b
  | .and a b => Good a ∧ Good b
  | .or a b => Good a ∧ Good b

theorem fmtP_un (op : UnOp) (a : Ast) (p : Nat) : (Ast.un op a).fmtP p =
    Option.map (Ast.paren (decide (op.prec < p))) (Option.map (fun s => op.text.toList ++ s) (a.fmtP op.prec)) := by
  simp only [Ast.fmtP]
  cases a.fmtP op.prec <;> rfl
theorem fmtP_bin (op : BinOp) (a b : Ast) (p : Nat) : (Ast.bin op a b).fmtP p =
    Option.map (Ast.paren (decide (op.prec < p))) (join2 op.text.toList (a.fmtP op.prec) (b.fmtP (op.prec + 1))) := by
  simp only [Ast.fmtP]
  cases a.fmtP op.prec <;> cases b.fmtP (op.prec + 1) <;> rfl
theorem fmtP_and (a b : Ast) (p : Nat) : (Ast.and a b).fmtP p =
    Option.map (Ast.paren (decide (Gen.precAnd < p)))
      (join2 Gen.textAnd.toList (a.fmtP Gen.precAnd) (b.fmtP (Gen.precAnd + 1))) := by
  simp only [Ast.fmtP]
  cases a.fmtP Gen.precAnd <;> cases b.fmtP (Gen.precAnd + 1) <;> rfl
theorem fmtP_or (a b : Ast) (p : Nat) : (Ast.or a b).fmtP p =
    Option.map (Ast.paren (decide (Gen.precOr < p)))
      (join2 Gen.textOr.toList (a.fmtP Gen.precOr) (b.fmtP (Gen.precOr + 1))) := by
  simp only [Ast.fmtP]
  cases a.fmtP Gen.precOr <;> cases b.fmtP (Gen.precOr + 1) <;> rfl

theorem join2_some {txt : List Char} {xa xb : Option (List Char)} {s : List Char}
    (h : join2 txt xa xb = some s) : ∃ x y, xa = some x ∧ xb = some y ∧ s = x ++ txt ++ y := by
  cases xa <;> cases xb <;> simp [join2] at h
  exact ⟨_, _, rfl, rfl, by rw [← h]; simp⟩

/-- what a prefix minus is printed in front of does not start with a digit -/
theorem head_not_digit (a : Ast) (hg : Good a) (hnl : ∀ n, a = .lit (.int n) → n.toInt < 0)
    (s : List Char) (h : a.fmtP Gen.precNeg = some s) : ∃ c r, s = c :: r ∧ isDigitC c = false := by
  cases a with
  | lit v =>
    cases v with
    | null =>
      simp only [Ast.fmtP, Value.display, Option.some.injEq] at h
      exact ⟨'N', ['U', 'L', 'L'], by rw [← h]; decide, by decide⟩
    | int n =>
      have := hnl n rfl
      simp only [Ast.fmtP, Value.display, Value.intDisplay, this, if_true, Option.some.injEq] at h
      exact ⟨'-', _, h.symm, by decide⟩
    | str t =>
      simp only [Ast.fmtP, Value.display] at h
      split at h
      · simp only [Option.some.injEq] at h
        exact ⟨'"', _, by rw [← h]; rfl, by decide⟩
      · cases h
  | col n =>
    obtain ⟨c, w, rfl, hc, -, -⟩ := hg
    simp only [Ast.fmtP, Option.some.injEq] at h
    refine ⟨c, w, h.symm, ?_⟩
    have := idStart_range hc
    cases hd : isDigitC c with
    | false => rfl
    | true => have := digit_range hd; omega
  | un op b =>
    rw [fmtP_un] at h
    cases hb : b.fmtP op.prec with
    | none => simp [hb] at h
    | some sb =>
      simp only [hb, Option.map_some, Option.some.injEq] at h
      cases op with
      | neg => exact ⟨'-', sb, by rw [← h]; rfl, by decide⟩
      | bitNot => exact ⟨'~', sb, by rw [← h]; rfl, by decide⟩
      | boolNot => exact ⟨'(', _, by rw [← h]; rfl, by decide⟩
  | bin op x y =>
    rw [fmtP_bin] at h
    have hp : decide (op.prec < Gen.precNeg) = true := by cases op <;> decide
    rw [hp] at h
    cases hj : join2 op.text.toList (x.fmtP op.prec) (y.fmtP (op.prec + 1)) with
    | none => simp [hj] at h
    | some sj =>
      simp only [hj, Option.map_some, Option.some.injEq] at h
      exact ⟨'(', _, by rw [← h]; rfl, by decide⟩
  | and x y =>
    rw [fmtP_and] at h
    cases hj : join2 Gen.textAnd.toList (x.fmtP Gen.precAnd) (y.fmtP (Gen.precAnd + 1)) with
    | none => simp [hj] at h
    | some sj =>
      simp only [hj, Option.map_some, Option.some.injEq] at h
      exact ⟨'(', _, by rw [← h]; rfl, by decide⟩
  | or x y =>
    rw [fmtP_or] at h
    cases hj : join2 Gen.textOr.toList (x.fmtP Gen.precOr) (y.fmtP (Gen.precOr + 1)) with
    | none => simp [hj] at h
    | some sj =>
      simp only [hj, Option.map_some, Option.some.injEq] at h
      exact ⟨'(', _, by rw [← h]; rfl, by decide⟩

/-- **the lexer reads the printed text back as the printer's token form** -/
theorem lex_fmtP (e : Ast) : Good e → ∀ p s, e.fmtP p = some s → LexesTo s (toks e p) := by
  induction e with
  | lit v =>
    intro _ p s h
    exact lex_lit v s h
  | col n =>
    intro hg p s h
    obtain ⟨c, w, rfl, hc, hw, ht⟩ := hg
    simp only [Ast.fmtP, Option.some.injEq] at h
    rw [← h]
    exact lex_word c w _ hc hw ht
  | un op a iha =>
    intro hg p s h
    rw [fmtP_un] at h
    cases ha : a.fmtP op.prec with
    | none => simp [ha] at h
    | some sa =>
      simp only [ha, Option.map_some, Option.some.injEq] at h
      rw [← h]
      have ih := iha hg.1 op.prec sa ha
      have hbody : LexesTo (op.text.toList ++ sa) (unTok op :: toks a op.prec) := by
        cases op with
        | bitNot => exact lexesTo_append' lex_tilde ih
        | boolNot => exact lexesTo_append' lex_not ih
        | neg =>
          obtain ⟨c, r, hs, hc⟩ := head_not_digit a hg.1 (hg.2 rfl) sa ha
          intro rest rt hf hr
          have h1 := ih rest rt hf hr
          rw [hs] at h1 ⊢
          have := lex_prefix_minus c (r ++ rest) _ hc (by simpa using h1)
          simpa [UnOp.text, unTok] using this
      exact lexesTo_par _ hbody
  | bin op a b iha ihb =>
    intro hg p s h
    rw [fmtP_bin] at h
    cases hj : join2 op.text.toList (a.fmtP op.prec) (b.fmtP (op.prec + 1)) with
    | none => simp [hj] at h
    | some sj =>
      simp only [hj, Option.map_some, Option.some.injEq] at h
      obtain ⟨x, y, hx, hy, rfl⟩ := join2_some hj
      rw [← h]
      exact lexesTo_par _ (lexesTo_infix (iha hg.1 _ _ hx) (ihb hg.2 _ _ hy) (lex_binop op) (binop_text_space op))
  | and a b iha ihb =>
    intro hg p s h
    rw [fmtP_and] at h
    cases hj : join2 Gen.textAnd.toList (a.fmtP Gen.precAnd) (b.fmtP (Gen.precAnd + 1)) with
    | none => simp [hj] at h
    | some sj =>
      simp only [hj, Option.map_some, Option.some.injEq] at h
      obtain ⟨x, y, hx, hy, rfl⟩ := join2_some hj
      rw [← h]
      exact lexesTo_par _ (lexesTo_infix (iha hg.1 _ _ hx) (ihb hg.2 _ _ hy) lex_and ⟨Gen.textAnd.toList.tail, by decide⟩)
  | or a b iha ihb =>
    intro hg p s h
    rw [fmtP_or] at h
    cases hj : join2 Gen.textOr.toList (a.fmtP Gen.precOr) (b.fmtP (Gen.precOr + 1)) with
    | none => simp [hj] at h
    | some sj =>
      simp only [hj, Option.map_some, Option.some.injEq] at h
      obtain ⟨x, y, hx, hy, rfl⟩ := join2_some hj
      rw [← h]
      exact lexesTo_par _ (lexesTo_infix (iha hg.1 _ _ hx) (ihb hg.2 _ _ hy) lex_or ⟨Gen.textOr.toList.tail, by decide⟩)

/-- **read (print e) = e, from characters**: for every expression in the domain whose printed
text exists (no literal needs an escape), lexing that text and reading the tokens with the
grammar's ladder gives the expression back -/
theorem readText_fmt (e : Ast) (hg : Good e) (s : List Char) (h : e.fmt = some s) : readText s = some e := by
  have := lex_fmtP e hg 0 s h [] [] follow_nil (by rw [lexFrom_nil]; rfl)
  simp only [List.append_nil] at this
  unfold readText lex
  rw [this]
  exact readExpr_toks e


/-! ### expressions built through the API are in the domain -/

theorem good_mkUn (op : UnOp) (a : Ast) (h : Good a) : Good (Ast.mkUn op a) := by
  cases a with
  | lit v => trivial
  | col n => exact ⟨h, fun _ _ e => by cases e⟩
  | un o x => exact ⟨h, fun _ _ e => by cases e⟩
  | bin o x y => exact ⟨h, fun _ _ e => by cases e⟩
  | and x y => exact ⟨h, fun _ _ e => by cases e⟩
  | or x y => exact ⟨h, fun _ _ e => by cases e⟩

theorem good_mkBin (op : BinOp) (a b : Ast) (ha : Good a) (hb : Good b) : Good (Ast.mkBin op a b) := by
  cases a <;> cases b <;> first | trivial | exact ⟨ha, hb⟩

/-- whatever tree of constructor calls the user writes, the expression the API builds from it
(literal arguments folded) is in the domain as soon as its column names are identifiers -/
theorem good_build (e : Ast) (h : ∀ n ∈ e.columns, GoodIdent n) : Good e.build := by
  induction e with
  | lit v => trivial
  | col n => exact h n (by simp [Ast.columns])
  | un op a iha => exact good_mkUn op _ (iha h)
  | bin op a b iha ihb =>
    exact good_mkBin op _ _ (iha fun n hn => h n (by simp [Ast.columns, hn]))
      (ihb fun n hn => h n (by simp [Ast.columns, hn]))
  | and a b iha ihb =>
    exact ⟨iha fun n hn => h n (by simp [Ast.columns, hn]), ihb fun n hn => h n (by simp [Ast.columns, hn])⟩
  | or a b iha ihb =>
    exact ⟨iha fun n hn => h n (by simp [Ast.columns, hn]), ihb fun n hn => h n (by simp [Ast.columns, hn])⟩

end MsiProofs.ExprLex
