import MsiProofs.Lemmas.RefineLoad
/-
Reference counting, exactly (property C08 as an invariant of the operations): with
`AccountedWith slack p cells` — for every pool entry, (number of cells referring to it) + slack =
its reference count — releasing a cell's reference and interning a new cell's string both keep the
SAME slack.  With slack 0 this is "reference counts equal the number of references".
-/
namespace MsiProofs.RefineExact
open MsiModel MsiModel.Bytes MsiModel.Pkg MsiProofs.Refine MsiProofs.RefineDelete MsiProofs.Order

/-- (references from `cells`) + `slack` = reference count, for every entry (references start at 1) -/
def AccountedWith (slack : Nat → Nat) (p : Pool) (cells : List Cell) : Prop :=
  ∀ r, 0 < r → cells.count (.str r) + slack r = p.refcount r

theorem AccountedWith.accounted {slack : Nat → Nat} {p : Pool} {cells : List Cell}
    (hpos : PosRefs cells) (h : AccountedWith slack p cells) : Accounted p cells := by
  intro r
  by_cases hr : 0 < r
  · have := h r hr; omega
  · have : cells.count (.str r) = 0 := List.count_eq_zero.mpr (fun hm => hr (hpos r hm))
    omega

/-- counting is insensitive to the order of the cells -/
theorem accountedWith_perm {slack : Nat → Nat} {p : Pool} {a b : List Cell} (hp : a.Perm b)
    (h : AccountedWith slack p a) : AccountedWith slack p b := fun r hr => by rw [← hp.count_eq]; exact h r hr

theorem remove_accountedW (slack : Nat → Nat) (p : Pool) (pre : List Cell) (c : Cell) (rest : List Cell)
    (hpos : PosRefs (pre ++ c :: rest)) (hacc : AccountedWith slack p (pre ++ c :: rest)) :
    AccountedWith slack (Cell.remove p c) (pre ++ rest) := by
  have hcount : ∀ q, (pre ++ c :: rest).count (.str q) = (if c = .str q then 1 else 0) + (pre ++ rest).count (.str q) := by
    intro q
    rw [List.count_append, count_str_cons, List.count_append]; omega
  cases c with
  | null =>
    intro r hr0
    have := hacc r hr0; rw [hcount] at this
    show (pre ++ rest).count (.str r) + slack r = p.refcount r
    simpa using this
  | int n =>
    intro r hr0
    have := hacc r hr0; rw [hcount] at this
    show (pre ++ rest).count (.str r) + slack r = p.refcount r
    simpa using this
  | str r =>
    have hr : 0 < r := hpos r (by simp)
    obtain ⟨h1, h2, -⟩ := decref_spec p r hr
    intro q hq0
    have hq := hacc q hq0
    rw [hcount] at hq
    by_cases hqr : q = r
    · subst hqr
      simp only [Cell.remove, if_true] at hq ⊢
      rw [h2]; omega
    · have hne : ¬ (Cell.str r = Cell.str q) := by intro e; injection e with e; exact hqr e.symm
      simp only [hne, if_false, Nat.zero_add] at hq
      simp only [Cell.remove]; rw [(h1 q hq0 hqr).2]; exact hq

theorem foldl_remove_accountedW (slack : Nat → Nat) (row : List Cell) : ∀ (p : Pool) (pre rest : List Cell),
    PosRefs (pre ++ row ++ rest) → AccountedWith slack p (pre ++ row ++ rest) →
    AccountedWith slack (row.foldl Cell.remove p) (pre ++ rest) := by
  induction row with
  | nil => intro p pre rest _ h; simpa using h
  | cons c cs ih =>
    intro p pre rest hpos hacc
    have e : pre ++ (c :: cs) ++ rest = pre ++ c :: (cs ++ rest) := by simp
    rw [e] at hpos hacc
    have h1 := remove_accountedW slack p pre c (cs ++ rest) hpos hacc
    have e2 : pre ++ (cs ++ rest) = pre ++ cs ++ rest := by simp
    rw [e2] at h1
    have hpos2 : PosRefs (pre ++ cs ++ rest) := by
      intro r hr
      apply hpos r
      simp only [List.mem_append, List.mem_cons] at hr ⊢
      rcases hr with (hr | hr) | hr
      · exact Or.inl hr
      · exact Or.inr (Or.inr (Or.inl hr))
      · exact Or.inr (Or.inr (Or.inr hr))
    simp only [List.foldl_cons]
    exact ih (Cell.remove p c) pre rest hpos2 h1

/-- **the `retain` loop of `Delete::exec` keeps the slack**: what remains is accounted with the
same slack (with slack 0: reference counts stay equal to the number of references) -/
theorem deleteGo_accountedW (slack : Nat → Nat) (t : Table) (cond : Option Ast) (rows : List (List Cell)) :
    ∀ (p : Pool) (acc : List (List Cell)) (pre post : List Cell) (p' : Pool) (kept : List (List Cell)),
    PosRefs (pre ++ rows.flatten ++ post) → AccountedWith slack p (pre ++ rows.flatten ++ post) →
    deleteGo t cond p rows acc = .ok (p', kept) →
    AccountedWith slack p' (pre ++ (rows.filter fun r => evalCond t p cond r == .ok false).flatten ++ post) := by
  intro p acc pre post p' kept hpos hacc h
  -- the kept rows are those of the value-level theorem; redo the recursion for the counts
  induction rows generalizing p acc pre with
  | nil =>
    simp only [deleteGo, pure, Res.ok.injEq, Prod.mk.injEq] at h
    obtain ⟨rfl, rfl⟩ := h
    simpa using hacc
  | cons r rs ih =>
    simp only [deleteGo, bind, Res.bind] at h
    cases he : evalCond t p cond r with
    | err k => simp [he] at h
    | panic w => simp [he] at h
    | ok del =>
      simp only [he] at h
      cases del with
      | false =>
        simp only [Bool.false_eq_true, if_false] at h
        have eflat : pre ++ (r :: rs).flatten ++ post = (pre ++ r) ++ rs.flatten ++ post := by simp
        rw [eflat] at hpos hacc
        have h3 := ih p (r :: acc) (pre ++ r) hpos hacc h
        have hfilter : (r :: rs).filter (fun x => evalCond t p cond x == .ok false) =
            r :: rs.filter (fun x => evalCond t p cond x == .ok false) := by
          simp [List.filter_cons, he]
        rw [hfilter]
        have e3 : pre ++ (r :: rs.filter fun x => evalCond t p cond x == .ok false).flatten ++ post =
            (pre ++ r) ++ (rs.filter fun x => evalCond t p cond x == .ok false).flatten ++ post := by simp
        rw [e3]; exact h3
      | true =>
        simp only [if_true] at h
        have e1 : pre ++ (r :: rs).flatten ++ post = pre ++ r ++ (rs.flatten ++ post) := by simp
        rw [e1] at hpos hacc
        have ha := foldl_remove_accountedW slack r p pre (rs.flatten ++ post) hpos hacc
        obtain ⟨-, hv⟩ := foldl_remove_accounted r p pre (rs.flatten ++ post) hpos (hacc.accounted hpos)
        have hpos' : PosRefs (pre ++ rs.flatten ++ post) := by
          intro q hq
          apply hpos q
          simp only [List.mem_append] at hq ⊢
          rcases hq with (hq | hq) | hq
          · exact Or.inl (Or.inl hq)
          · exact Or.inr (Or.inl hq)
          · exact Or.inr (Or.inr hq)
        have e2 : pre ++ (rs.flatten ++ post) = pre ++ rs.flatten ++ post := by simp
        rw [e2] at ha hv
        have h3 := ih (r.foldl Cell.remove p) acc pre hpos' ha h
        have hsame : ∀ x ∈ rs, evalCond t (r.foldl Cell.remove p) cond x = evalCond t p cond x := by
          intro x hx
          apply evalCond_congr
          unfold rowValues
          apply List.map_congr_left
          intro d hd
          apply hv d
          simp only [List.mem_append, List.mem_flatten]
          exact Or.inl (Or.inr ⟨x, hx, hd⟩)
        have hfeq : rs.filter (fun x => evalCond t (r.foldl Cell.remove p) cond x == .ok false) =
            rs.filter (fun x => evalCond t p cond x == .ok false) := by
          apply List.filter_congr
          intro x hx
          rw [hsame x hx]
        rw [hfeq] at h3
        have hfilter : (r :: rs).filter (fun x => evalCond t p cond x == .ok false) =
            rs.filter (fun x => evalCond t p cond x == .ok false) := by
          simp only [List.filter_cons, he]
          rfl
        rw [hfilter]
        exact h3


/-! ### interning, exactly -/

def rcAt (l : List (List Char × Nat)) (j : Nat) : Nat := (l[j]?.map (·.2)).getD 0

theorem refcount_eq_rcAt (p : Pool) (q : Nat) : p.refcount q = rcAt p.strings (q - 1) := by
  unfold Pool.refcount rcAt
  cases p.strings[q - 1]? with
  | none => rfl
  | some e => obtain ⟨st, rc⟩ := e; rfl

theorem increfScan_exact (s : List Char) (l : List (List Char × Nat)) : ∀ (i : Nat) (l' : List (List Char × Nat)) (r : Nat),
    Pool.increfScan s l i = some (l', r) →
    i < r ∧ ∀ j, rcAt l' j = rcAt l j + (if j = r - 1 - i then 1 else 0) := by
  induction l with
  | nil => intro i l' r h; simp [Pool.increfScan] at h
  | cons e rest ih =>
    intro i l' r h
    obtain ⟨st, rc⟩ := e
    simp only [Pool.increfScan] at h
    split at h
    · rename_i h0
      cases h
      refine ⟨by omega, ?_⟩
      intro j
      cases j with
      | zero => simp [rcAt, h0]
      | succ j' =>
        have : ¬ (j' + 1 = i + 1 - 1 - i) := by omega
        simp [rcAt, this]
    · split at h
      · cases h
        refine ⟨by omega, ?_⟩
        intro j
        cases j with
        | zero => simp [rcAt]
        | succ j' =>
          have : ¬ (j' + 1 = i + 1 - 1 - i) := by omega
          simp [rcAt, this]
      · cases hr : Pool.increfScan s rest (i + 1) with
        | none => simp [hr] at h
        | some x =>
          obtain ⟨rest', r'⟩ := x
          simp only [hr, Option.some.injEq, Prod.mk.injEq] at h
          obtain ⟨rfl, rfl⟩ := h
          obtain ⟨hlt, hrc⟩ := ih (i + 1) rest' r' hr
          refine ⟨by omega, ?_⟩
          intro j
          cases j with
          | zero =>
            have : ¬ (0 = r' - 1 - i) := by omega
            simp [rcAt, this]
          | succ j' =>
            have := hrc j'
            simp only [rcAt, List.getElem?_cons_succ] at this ⊢
            rw [this]
            have e : (j' = r' - 1 - (i + 1)) ↔ (j' + 1 = r' - 1 - i) := by omega
            by_cases hj : j' = r' - 1 - (i + 1)
            · have h2 : j' + 1 = r' - 1 - i := e.mp hj
              rw [if_pos hj, if_pos h2]
            · have h2 : ¬ (j' + 1 = r' - 1 - i) := fun h => hj (e.mpr h)
              rw [if_neg hj, if_neg h2]

/-- **`incref` adds one reference to the entry it returns and changes no other count** -/
theorem incref_exact (p : Pool) (s : List Char) (p' : Pool) (r : Nat) (h : p.incref s = .ok (p', r)) :
    0 < r ∧ ∀ q, 0 < q → p'.refcount q = p.refcount q + (if q = r then 1 else 0) := by
  unfold Pool.incref at h
  cases hs : Pool.increfScan s p.strings 0 with
  | some x =>
    obtain ⟨l', r'⟩ := x
    simp only [hs, Res.ok.injEq, Prod.mk.injEq] at h
    obtain ⟨rfl, rfl⟩ := h
    obtain ⟨hlt, hrc⟩ := increfScan_exact s p.strings 0 l' r' hs
    refine ⟨hlt, ?_⟩
    intro q hq
    rw [refcount_eq_rcAt, refcount_eq_rcAt]
    simp only
    rw [hrc (q - 1)]
    have e : (q - 1 = r' - 1 - 0) ↔ q = r' := by omega
    by_cases hqr : q = r'
    · rw [if_pos (e.mpr hqr), if_pos hqr]
    · have h2 : ¬ (q - 1 = r' - 1 - 0) := fun h => hqr (e.mp h)
      rw [if_neg h2, if_neg hqr]
  | none =>
    simp only [hs] at h
    split at h
    · cases h
    · split at h
      · cases h
      · cases h
        refine ⟨by omega, ?_⟩
        intro q hq
        rw [refcount_eq_rcAt, refcount_eq_rcAt]
        simp only [rcAt]
        by_cases hqr : q = p.strings.length + 1
        · subst hqr
          simp
        · by_cases hlt : q - 1 < p.strings.length
          · rw [List.getElem?_append_left hlt]; simp [hqr]
          · have h1 : (p.strings ++ [(s, 1)])[q - 1]? = none := by
              apply List.getElem?_eq_none
              simp; omega
            have h2 : p.strings[q - 1]? = none := List.getElem?_eq_none (by omega)
            simp [h1, h2, hqr]

/-- creating a cell keeps the slack when the cell is added to the cells counted -/
theorem create_accountedW (slack : Nat → Nat) (p : Pool) (v : Value) (p' : Pool) (c : Cell) (cells : List Cell)
    (hacc : AccountedWith slack p cells) (h : Cell.create p v = .ok (p', c)) :
    AccountedWith slack p' (c :: cells) ∧ PosRefs [c] := by
  cases v with
  | null =>
    cases h
    exact ⟨fun r hr => by rw [count_str_cons]; simpa using hacc r hr, fun r hr => by simp at hr⟩
  | int n =>
    cases h
    exact ⟨fun r hr => by rw [count_str_cons]; simpa using hacc r hr, fun r hr => by simp at hr⟩
  | str s =>
    simp only [Cell.create, bind, Res.bind] at h
    cases hi : p.incref s with
    | ok x =>
      obtain ⟨q, r⟩ := x
      simp only [hi, pure, Res.ok.injEq, Prod.mk.injEq] at h
      obtain ⟨rfl, rfl⟩ := h
      obtain ⟨hr0, hex⟩ := incref_exact p s q r hi
      refine ⟨?_, ?_⟩
      · intro k hk
        rw [count_str_cons, hex k hk]
        have := hacc k hk
        by_cases hkr : k = r
        · subst hkr; simp; omega
        · have : ¬ (Cell.str r = Cell.str k) := by intro e; injection e with e; exact hkr e.symm
          simp [this, hkr]; omega
      · intro k hk
        simp only [List.mem_singleton, Cell.str.injEq] at hk
        omega
    | err k => simp [hi] at h
    | panic w => simp [hi] at h


theorem posRefs_append {a b : List Cell} (ha : PosRefs a) (hb : PosRefs b) : PosRefs (a ++ b) := by
  intro r hr
  simp only [List.mem_append] at hr
  rcases hr with h | h
  · exact ha r h
  · exact hb r h

theorem createCells_accountedW (slack : Nat → Nat) (ctx : List Cell) (vs : List Value) :
    ∀ (p : Pool) (acc : List Cell) (p' : Pool) (cs : List Cell),
    AccountedWith slack p (ctx ++ acc) → PosRefs acc → createCells p vs acc = .ok (p', cs) →
    AccountedWith slack p' (ctx ++ cs) ∧ PosRefs cs := by
  induction vs with
  | nil =>
    intro p acc p' cs hacc hpos h
    simp only [createCells, pure, Res.ok.injEq, Prod.mk.injEq] at h
    obtain ⟨rfl, rfl⟩ := h
    refine ⟨accountedWith_perm ?_ hacc, fun r hr => hpos r (List.mem_reverse.mp hr)⟩
    exact List.Perm.append_left _ (List.reverse_perm acc).symm
  | cons v rest ih =>
    intro p acc p' cs hacc hpos h
    simp only [createCells, bind, Res.bind] at h
    cases hc : Cell.create p v with
    | ok x =>
      obtain ⟨p1, c⟩ := x
      simp only [hc] at h
      obtain ⟨h1, h2⟩ := create_accountedW slack p v p1 c (ctx ++ acc) hacc hc
      have h1' : AccountedWith slack p1 (ctx ++ (c :: acc)) :=
        accountedWith_perm (List.perm_middle.symm) h1
      exact ih p1 (c :: acc) p' cs h1' (by
        intro r hr
        simp only [List.mem_cons] at hr
        rcases hr with hr | hr
        · exact h2 r (by simp [hr])
        · exact hpos r hr) h
    | err k => simp [hc] at h
    | panic w => simp [hc] at h

theorem mapInsert_perm (k : List Value) (v : List Cell) : ∀ (m m' : RowMap),
    mapInsert k v m = some m' → m'.Perm ((k, v) :: m) := by
  intro m
  induction m with
  | nil => intro m' h; simp only [mapInsert, Option.some.injEq] at h; subst h; exact List.Perm.refl _
  | cons e rest ih =>
    intro m' h
    obtain ⟨k', v'⟩ := e
    simp only [mapInsert] at h
    split at h
    · cases h; exact List.Perm.refl _
    · split at h
      · cases hr : mapInsert k v rest with
        | none => simp [hr] at h
        | some r =>
          simp only [hr, Option.map_some, Option.some.injEq] at h
          subst h
          exact ((ih r hr).cons (k', v')).trans (List.Perm.swap _ _ _)
      · cases h

def cellsOf (m : RowMap) : List Cell := (m.map (·.2)).flatten

theorem cellsOf_perm {a b : RowMap} (h : a.Perm b) : (cellsOf a).Perm (cellsOf b) :=
  (h.map _).flatten

theorem addRows_accountedW (slack : Nat → Nat) (keyIdx : List Nat) (ctx : List Cell) (rows : List (List Value)) :
    ∀ (p : Pool) (m : RowMap) (p' : Pool) (m' : RowMap),
    AccountedWith slack p (ctx ++ cellsOf m) → PosRefs (cellsOf m) →
    addRows keyIdx p rows m = .ok (p', m') →
    AccountedWith slack p' (ctx ++ cellsOf m') ∧ PosRefs (cellsOf m') := by
  induction rows with
  | nil =>
    intro p m p' m' hacc hpos h
    simp only [addRows, pure, Res.ok.injEq, Prod.mk.injEq] at h
    obtain ⟨rfl, rfl⟩ := h
    exact ⟨hacc, hpos⟩
  | cons r rs ih =>
    intro p m p' m' hacc hpos h
    simp only [addRows, bind, Res.bind] at h
    cases hc : createCells p r [] with
    | ok x =>
      obtain ⟨p1, cells⟩ := x
      simp only [hc] at h
      obtain ⟨h1, h2⟩ := createCells_accountedW slack (ctx ++ cellsOf m) r p [] p1 cells
        (by simpa using hacc) (fun _ hx => by simp at hx) hc
      cases hm : mapInsert (keyOf keyIdx r) cells m with
      | none => simp [hm] at h
      | some m1 =>
        simp only [hm] at h
        have hperm : (cellsOf m1).Perm (cells ++ cellsOf m) := by
          have := cellsOf_perm (mapInsert_perm _ _ m m1 hm)
          simpa [cellsOf] using this
        have h1' : AccountedWith slack p1 (ctx ++ cellsOf m1) := by
          refine accountedWith_perm ?_ h1
          rw [List.append_assoc]
          exact List.Perm.append_left _ (List.perm_append_comm.trans hperm.symm)
        have hpos1 : PosRefs (cellsOf m1) := by
          intro q hq
          have := hperm.mem_iff.mp hq
          exact posRefs_append h2 hpos q this
        exact ih p1 m1 p' m' h1' hpos1 h
    | err k => simp [hc] at h
    | panic w => simp [hc] at h

theorem loadMap_perm (p : Pool) (keyIdx : List Nat) (rows : List (List Cell)) :
    ∀ (m m' : RowMap), loadMap p keyIdx rows m = some m' → (cellsOf m').Perm (rows.flatten ++ cellsOf m) := by
  induction rows with
  | nil => intro m m' h; simp only [loadMap, Option.some.injEq] at h; subst h; simp
  | cons r rs ih =>
    intro m m' h
    simp only [loadMap] at h
    cases hm : mapInsert (keyOf keyIdx (rowValues p r)) r m with
    | none => simp [hm] at h
    | some m1 =>
      rw [hm] at h
      have h1 := ih m1 m' h
      have h2 : (cellsOf m1).Perm (r ++ cellsOf m) := by
        have := cellsOf_perm (mapInsert_perm _ _ m m1 hm)
        simpa [cellsOf] using this
      refine h1.trans ?_
      simp only [List.flatten_cons, List.append_assoc]
      exact (List.Perm.append_left _ h2).trans (by
        rw [← List.append_assoc, ← List.append_assoc]
        exact List.Perm.append_right _ List.perm_append_comm)

/-- **`Insert::exec` keeps the slack**: if the references of the table's stored cells and of any
other cells of interest, plus `slack`, equal the reference counts, the same holds after a
successful insert for the cells the new state reads (with slack 0: counts stay exact) -/
theorem insert_accountedW (slack : Nat → Nat) (s : Pkg) (tname : List Char) (rows : List (List Value)) (s' : Pkg)
    (h : insertExec s tname rows = (s', .ok ()))
    (t : Table) (ht : s.findTable tname = some t) (existing : List (List Cell))
    (hl : s.loadRows t = .ok existing) (others : List Cell)
    (hposr : PosRefs existing.flatten)
    (hacc : AccountedWith slack s.pool (existing.flatten ++ others))
    (hlive : ∀ r ∈ existing, ∀ c ∈ r, LiveCell s.pool c)
    (hs : MsiProofs.RowsOk.PoolSized s.pool) (hlr : s.pool.longRefs = t.longRefs) (hpos : 0 < t.rowSize) :
    ∃ stored, s'.loadRows t = .ok stored ∧
      AccountedWith slack s'.pool (stored.flatten ++ others) ∧ PosRefs stored.flatten := by
  obtain ⟨stored, hstored, -, -, -, -, -, -, -, m, m', hm, ha, hst⟩ :=
    MsiProofs.RefineLoad.insert_then_load s tname rows s' h t ht existing hl hlive hs hlr hpos
  have hperm0 := loadMap_perm s.pool t.keyIndices existing [] m hm
  simp only [cellsOf, List.map_nil, List.flatten_nil, List.append_nil] at hperm0
  have hacc0 : AccountedWith slack s.pool (others ++ cellsOf m) :=
    accountedWith_perm (List.perm_append_comm.trans (List.Perm.append_left _ hperm0.symm)) hacc
  have hpos0 : PosRefs (cellsOf m) := fun q hq => hposr q (hperm0.mem_iff.mp hq)
  obtain ⟨h1, h2⟩ := addRows_accountedW slack t.keyIndices others _ s.pool m s'.pool m' hacc0 hpos0 ha
  subst hst
  exact ⟨_, hstored, accountedWith_perm List.perm_append_comm h1, h2⟩


theorem deleteExec_ok_inv (s : Pkg) (tname : List Char) (cond : Option Ast) (s' : Pkg)
    (h : deleteExec s tname cond = (s', .ok ()))
    (t : Table) (ht : s.findTable tname = some t) (existing : List (List Cell)) (hl : s.loadRows t = .ok existing) :
    ∃ kept, deleteGo t cond s.pool existing [] = .ok (s'.pool, kept) := by
  unfold deleteExec at h
  simp only [ht] at h
  split at h; · cases (Prod.mk.inj h).2
  simp only [hl] at h
  cases hd : deleteGo t cond s.pool existing [] with
  | err k => simp only [hd] at h; cases (Prod.mk.inj h).2
  | panic w => simp only [hd] at h; cases (Prod.mk.inj h).2
  | ok x =>
    obtain ⟨pool', kept⟩ := x
    simp only [hd] at h
    unfold storeRows at h
    cases hw : t.writeRows kept with
    | err k => simp only [hw] at h; cases (Prod.mk.inj h).2
    | panic w => simp only [hw] at h; cases (Prod.mk.inj h).2
    | ok bs =>
      simp only [hw] at h
      have := (Prod.mk.inj h).1
      subst this
      exact ⟨kept, rfl⟩

/-- **`Delete::exec` keeps the slack** for the cells the new state reads and any other cells of
interest (with slack 0: counts stay exact) -/
theorem delete_accountedW (slack : Nat → Nat) (s : Pkg) (tname : List Char) (cond : Option Ast) (s' : Pkg)
    (h : deleteExec s tname cond = (s', .ok ()))
    (t : Table) (ht : s.findTable tname = some t) (existing : List (List Cell))
    (hl : s.loadRows t = .ok existing) (others : List Cell)
    (hposr : PosRefs (existing.flatten ++ others))
    (hacc : AccountedWith slack s.pool (existing.flatten ++ others)) (hpos : 0 < t.rowSize) :
    s'.loadRows t = .ok (existing.filter fun r => evalCond t s.pool cond r == .ok false) ∧
    AccountedWith slack s'.pool ((existing.filter fun r => evalCond t s.pool cond r == .ok false).flatten ++ others) := by
  obtain ⟨hload, -, -⟩ := MsiProofs.RefineLoad.delete_then_load s tname cond s' h t ht existing hl others hposr
    (hacc.accounted hposr) hpos
  obtain ⟨kept, hd⟩ := deleteExec_ok_inv s tname cond s' h t ht existing hl
  have := deleteGo_accountedW slack t cond existing s.pool [] [] others s'.pool kept
    (by simpa using hposr) (by simpa using hacc) hd
  exact ⟨hload, by simpa using this⟩

/-- with no slack, "accounted" says the reference counts are exactly the numbers of references -/
theorem exact_iff (p : Pool) (cells : List Cell) :
    AccountedWith (fun _ => 0) p cells ↔ ∀ r, 0 < r → p.refcount r = cells.count (.str r) := by
  unfold AccountedWith
  constructor
  · intro h r hr; have := h r hr; simp only [Nat.add_zero] at this; exact this.symm
  · intro h r hr; have := h r hr; simp only [Nat.add_zero]; exact this.symm

end MsiProofs.RefineExact
