import MsiModel.Pkg
/-
The derived ordering of `Value` and of key tuples is a strict total order; the
key-sorted association list (`BTreeMap` of the code) stays strictly sorted.
-/
namespace MsiProofs.Order
open MsiModel MsiModel.Value

/-! ### strings -/

theorem strLt_irrefl (a : List Char) : strLt a a = false := by
  induction a with
  | nil => rfl
  | cons c cs ih => simp [strLt, ih]

theorem strLt_trans {a b c : List Char} (h1 : strLt a b = true) (h2 : strLt b c = true) :
    strLt a c = true := by
  induction a generalizing b c with
  | nil =>
    cases b with
    | nil => simp [strLt] at h1
    | cons y ys =>
      cases c with
      | nil => simp [strLt] at h2
      | cons z zs => simp [strLt]
  | cons x xs ih =>
    cases b with
    | nil => simp [strLt] at h1
    | cons y ys =>
      cases c with
      | nil => simp [strLt] at h2
      | cons z zs =>
        simp only [strLt] at h1 h2 ⊢
        by_cases hxy : x.val < y.val
        · by_cases hyz : y.val < z.val
          · have : x.val < z.val := UInt32.lt_trans hxy hyz
            simp [this]
          · simp only [hyz, if_false] at h2
            by_cases hzy : z.val < y.val
            · simp [hzy] at h2
            · have e : y.val = z.val := UInt32.le_antisymm (UInt32.not_lt.mp hzy) (UInt32.not_lt.mp hyz)
              rw [← e]; simp [hxy]
        · simp only [hxy, if_false] at h1
          by_cases hyx : y.val < x.val
          · simp [hyx] at h1
          · simp only [hyx, if_false] at h1
            have e : x.val = y.val := UInt32.le_antisymm (UInt32.not_lt.mp hyx) (UInt32.not_lt.mp hxy)
            rw [e]
            by_cases hyz : y.val < z.val
            · simp [hyz]
            · simp only [hyz, if_false] at h2 ⊢
              by_cases hzy : z.val < y.val
              · simp [hzy] at h2
              · simp only [hzy, if_false] at h2 ⊢
                exact ih h1 h2

theorem strLt_connected {a b : List Char} (h1 : strLt a b = false) (h2 : strLt b a = false) : a = b := by
  induction a generalizing b with
  | nil =>
    cases b with
    | nil => rfl
    | cons y ys => simp [strLt] at h1
  | cons x xs ih =>
    cases b with
    | nil => simp [strLt] at h2
    | cons y ys =>
      simp only [strLt] at h1 h2
      by_cases hxy : x.val < y.val
      · simp [hxy] at h1
      · by_cases hyx : y.val < x.val
        · simp [hyx] at h2
        · simp only [hxy, hyx, if_false] at h1 h2
          have e : x.val = y.val := UInt32.le_antisymm (UInt32.not_lt.mp hyx) (UInt32.not_lt.mp hxy)
          have : x = y := Char.ext e
          rw [this, ih h1 h2]

/-! ### values -/

theorem lt_irrefl (a : Value) : lt a a = false := by
  cases a with
  | null => rfl
  | int n => simp [lt]
  | str s => simp [lt, strLt_irrefl]

theorem lt_trans {a b c : Value} (h1 : lt a b = true) (h2 : lt b c = true) : lt a c = true := by
  cases a <;> cases b <;> cases c <;> simp [lt] at h1 h2 ⊢
  · exact Int32.lt_trans h1 h2
  · exact strLt_trans h1 h2

theorem lt_connected {a b : Value} (h1 : lt a b = false) (h2 : lt b a = false) : a = b := by
  cases a <;> cases b <;> simp [lt] at h1 h2 ⊢
  · exact Int32.le_antisymm h2 h1
  · exact strLt_connected h1 h2

/-! ### key tuples -/

open MsiModel.Pkg

theorem keyLt_irrefl (a : List Value) : keyLt a a = false := by
  induction a with
  | nil => rfl
  | cons x xs ih => simp [keyLt, lt_irrefl, ih]

theorem keyLt_trans {a b c : List Value} (h1 : keyLt a b = true) (h2 : keyLt b c = true) :
    keyLt a c = true := by
  induction a generalizing b c with
  | nil =>
    cases b with
    | nil => simp [keyLt] at h1
    | cons y ys =>
      cases c with
      | nil => simp [keyLt] at h2
      | cons z zs => simp [keyLt]
  | cons x xs ih =>
    cases b with
    | nil => simp [keyLt] at h1
    | cons y ys =>
      cases c with
      | nil => simp [keyLt] at h2
      | cons z zs =>
        simp only [keyLt] at h1 h2 ⊢
        cases hxy : lt x y
        · simp only [hxy] at h1
          cases hyx : lt y x
          · simp only [hyx] at h1
            have e := lt_connected hxy hyx
            subst e
            cases hxz : lt x z
            · simp only [hxz] at h2 ⊢
              cases hzx : lt z x
              · simp only [hzx] at h2 ⊢
                simp at h1 h2 ⊢
                exact ih h1 h2
              · simp [hzx] at h2
            · simp
          · simp [hyx] at h1
        · cases hyz : lt y z
          · simp only [hyz] at h2
            cases hzy : lt z y
            · simp only [hzy] at h2
              have e := lt_connected hyz hzy
              subst e
              simp [hxy]
            · simp [hzy] at h2
          · simp [lt_trans hxy hyz]

theorem keyLt_asymm {a b : List Value} (h : keyLt a b = true) : keyLt b a = false := by
  cases hb : keyLt b a with
  | false => rfl
  | true => have := keyLt_trans h hb; rw [keyLt_irrefl] at this; cases this

theorem keyLt_connected {a b : List Value} (h1 : keyLt a b = false) (h2 : keyLt b a = false) : a = b := by
  induction a generalizing b with
  | nil =>
    cases b with
    | nil => rfl
    | cons y ys => simp [keyLt] at h1
  | cons x xs ih =>
    cases b with
    | nil => simp [keyLt] at h2
    | cons y ys =>
      simp only [keyLt] at h1 h2
      cases hxy : lt x y
      · cases hyx : lt y x
        · simp only [hxy, hyx] at h1 h2
          simp at h1 h2
          rw [lt_connected hxy hyx, ih h1 h2]
        · simp [hyx] at h2
      · simp [hxy] at h1

/-! ### the key-sorted map -/

def Sorted (m : List (List Value × List Cell)) : Prop :=
  m.Pairwise fun x y => keyLt x.1 y.1 = true

theorem mapInsert_sorted {k v m m'} (hs : Sorted m) (h : mapInsert k v m = some m') : Sorted m' ∧
    (∀ x, x ∈ m' ↔ x = (k, v) ∨ x ∈ m) := by
  induction m generalizing m' with
  | nil =>
    simp only [mapInsert, Option.some.injEq] at h
    subst h
    exact ⟨by simp [Sorted], by simp⟩
  | cons e rest ih =>
    obtain ⟨k', v'⟩ := e
    simp only [mapInsert] at h
    have hs' := List.pairwise_cons.mp hs
    split at h
    · rename_i hlt
      cases h
      refine ⟨?_, by simp⟩
      apply List.pairwise_cons.mpr
      refine ⟨?_, hs⟩
      intro y hy
      simp only [List.mem_cons] at hy
      rcases hy with rfl | hy
      · exact hlt
      · exact keyLt_trans hlt (hs'.1 y hy)
    · split at h
      · rename_i hnlt hgt
        cases hr : mapInsert k v rest with
        | none => simp [hr] at h
        | some r =>
          simp only [hr, Option.map_some, Option.some.injEq] at h
          subst h
          obtain ⟨hsr, hmem⟩ := ih hs'.2 hr
          refine ⟨?_, ?_⟩
          · apply List.pairwise_cons.mpr
            refine ⟨?_, hsr⟩
            intro y hy
            rcases (hmem y).mp hy with rfl | hy
            · exact hgt
            · exact hs'.1 y hy
          · intro x
            simp only [List.mem_cons, hmem]
            constructor
            · rintro (h | h | h)
              · exact Or.inr (Or.inl h)
              · exact Or.inl h
              · exact Or.inr (Or.inr h)
            · rintro (h | h | h)
              · exact Or.inr (Or.inl h)
              · exact Or.inl h
              · exact Or.inr (Or.inr h)
      · cases h

/-- a strictly key-sorted list has pairwise distinct keys -/
theorem sorted_keys_distinct {m : List (List Value × List Cell)} (hs : Sorted m) :
    (m.map (·.1)).Pairwise (· ≠ ·) := by
  rw [List.pairwise_map]
  exact hs.imp fun h e => by rw [e, keyLt_irrefl] at h; cases h

/-- `mapInsert` refuses exactly the keys that are present -/
theorem mapInsert_none_iff {k v m} (hs : Sorted m) :
    mapInsert k v m = none ↔ mapContains k m = true := by
  induction m with
  | nil => simp [mapInsert, mapContains]
  | cons e rest ih =>
    obtain ⟨k', v'⟩ := e
    have hs' := List.pairwise_cons.mp hs
    simp only [mapInsert, mapContains, List.any_cons]
    split
    · rename_i hlt
      simp only [hlt, Bool.not_true, Bool.false_and, Bool.false_or]
      constructor
      · intro h; cases h
      · intro h
        rw [List.any_eq_true] at h
        obtain ⟨y, hy, hc⟩ := h
        have h1 := hs'.1 y hy
        have := keyLt_trans hlt h1
        simp [this] at hc
    · split
      · rename_i hnlt hgt
        have hnlt' : keyLt k k' = false := by simpa using hnlt
        simp only [hnlt', hgt, Bool.not_true, Bool.and_false, Bool.false_or]
        rw [Option.map_eq_none_iff, ih hs'.2]
        rfl
      · rename_i hnlt hngt
        have h1 : keyLt k k' = false := by simpa using hnlt
        have h2 : keyLt k' k = false := by simpa using hngt
        simp [h1, h2]

end MsiProofs.Order
