import MsiProofs.Lemmas.CatalogRows
/-
`create_table` keeps the package invariants and extends the catalog invariant by the new table.
-/
namespace MsiProofs.CreateTable
open MsiModel MsiModel.Bytes MsiModel.Pkg MsiProofs.CatalogOpen MsiProofs.CatalogCodec MsiProofs.CatalogSync
open MsiProofs.GlobalInv MsiProofs.SortedInv MsiProofs.CatalogRows MsiProofs.Frame MsiProofs.Refine
open MsiProofs.RefineExact MsiProofs.RefineDelete MsiProofs.SaveOpen MsiProofs.RowsOk

/-- "table `Y` reads, as values, exactly the rows satisfying `P`" -/
def Reads (s : Pkg) (Y : Table) (P : List Value → Prop) : Prop :=
  ∃ rows, s.loadRows Y = .ok rows ∧ ∀ v, v ∈ rows.map (rowValues s.pool) ↔ P v

theorem reads_kept {s s' : Pkg} {tn : List Char} (hk : Kept s s' tn) {Y : Table} (hY : Y ∈ s.tables)
    (hne : Y.name ≠ tn) {P : List Value → Prop} (h : Reads s Y P) : Reads s' Y P := by
  obtain ⟨rows, hl, hm⟩ := h
  refine ⟨rows, by rw [hk.rows Y hY hne]; exact hl, ?_⟩
  intro v
  rw [← hm v]
  have : rows.map (rowValues s'.pool) = rows.map (rowValues s.pool) :=
    List.map_congr_left fun r hr => hk.vals Y hY hne rows hl r hr
  rw [this]

/-- the target of an insert reads the old rows plus the new ones ("" as null) -/
theorem reads_insert (slack : Nat → Nat) (s : Pkg) (hI : Inv slack s) (tn : List Char) (R : List (List Value))
    (s' : Pkg) (h : insertExec s tn R = (s', .ok ())) (X : Table) (hX : s.findTable tn = some X)
    {P : List Value → Prop} (hr : Reads s X P) :
    Reads s' X (fun v => P v ∨ v ∈ R.map (fun r => r.map storable)) := by
  obtain ⟨rows, hl, hm⟩ := hr
  have htm := findTable_spec s tn X hX
  have hliveAll := live_of_accounted slack s.pool _ hI.pos hI.counts
  have hlive : ∀ r ∈ rows, ∀ c ∈ r, LiveCell s.pool c :=
    fun r hr c hc => hliveAll c (mem_cellsOfTables htm hl hr hc)
  obtain ⟨hlr, hrs⟩ := hI.widths X htm
  obtain ⟨stored, hstored, hmem, -⟩ :=
    MsiProofs.RefineLoad.insert_then_load s tn R s' h X hX rows hl hlive hI.sized hlr hrs
  exact ⟨stored, hstored, fun v => by rw [hmem v, hm v]⟩

/-- the invariants do not mention the finisher flag -/
theorem inv_finisher (slack : Nat → Nat) (s : Pkg) (h : Inv slack s) : Inv slack { s with finisher := true } :=
  ⟨h.distinct, h.loads, h.pos, h.counts, h.sized, h.widths⟩

theorem sorted_finisher (s : Pkg) (h : SortedAll s) : SortedAll { s with finisher := true } := h

theorem reads_finisher {s : Pkg} {Y : Table} {P : List Value → Prop} (h : Reads s Y P) :
    Reads { s with finisher := true } Y P := h


/-! ### adding the new table to the table list -/

theorem cellsOfTables_perm (s : Pkg) {a b : List Table} (h : a.Perm b) :
    (cellsOfTables s a).Perm (cellsOfTables s b) := by
  unfold cellsOfTables
  exact (h.map _).flatten

theorem insertTable_perm (ts : List Table) (t : Table) (hnew : ∀ x ∈ ts, x.name ≠ t.name) :
    (insertTable ts t).Perm (t :: ts) := by
  induction ts with
  | nil => exact List.Perm.refl _
  | cons x rest ih =>
    simp only [insertTable]
    split
    · exact List.Perm.refl _
    · have hne : x.name ≠ t.name := hnew x (by simp)
      have hneq : (t.name == x.name) = false := by
        simp only [beq_eq_false_iff_ne, ne_eq]; exact fun e => hne e.symm
      simp only [hneq, Bool.false_eq_true, if_false]
      exact ((ih (fun y hy => hnew y (by simp [hy]))).cons x).trans (List.Perm.swap _ _ _)

/-- the state with one more (still empty) table in its list -/
def withTable (s : Pkg) (t : Table) : Pkg := { s with tables := insertTable s.tables t }

theorem loadRows_withTable (s : Pkg) (t x : Table) : (withTable s t).loadRows x = s.loadRows x := rfl

theorem inv_add_table (slack : Nat → Nat) (s : Pkg) (hI : Inv slack s) (t : Table)
    (hnew : ∀ x ∈ s.tables, x.name ≠ t.name)
    (hkey : ∀ x ∈ s.tables, key t.streamName ≠ key x.streamName)
    (hempty : Cont.find s.cont t.streamName = none)
    (hlong : s.pool.longRefs = t.longRefs) (hpos : 0 < t.rowSize) : Inv slack (withTable s t) := by
  have hperm := insertTable_perm s.tables t hnew
  have hload : s.loadRows t = .ok [] := by unfold Pkg.loadRows; rw [hempty]; rfl
  have hcells : (cellsOfTables (withTable s t) (withTable s t).tables).Perm (cellsOfTables s s.tables) := by
    have h1 : cellsOfTables (withTable s t) (withTable s t).tables = cellsOfTables s (insertTable s.tables t) := rfl
    rw [h1]
    refine (cellsOfTables_perm s hperm).trans ?_
    unfold cellsOfTables
    simp only [List.map_cons, List.flatten_cons, rowsOf, hload, List.flatten_nil, List.nil_append]
    exact List.Perm.refl _
  refine ⟨?_, ?_, ?_, accountedWith_perm hcells.symm hI.counts, hI.sized, ?_⟩
  · show (insertTable s.tables t).Pairwise _
    rw [hperm.pairwise_iff (fun {a b} h e => h e.symm)]
    exact List.pairwise_cons.mpr ⟨hkey, hI.distinct⟩
  · intro x hx
    have := hperm.mem_iff.mp hx
    simp only [List.mem_cons] at this
    rcases this with rfl | hx'
    · exact ⟨[], hload⟩
    · exact hI.loads x hx'
  · intro r hr
    exact hI.pos r (hcells.mem_iff.mp hr)
  · intro x hx
    have := hperm.mem_iff.mp hx
    simp only [List.mem_cons] at this
    rcases this with rfl | hx'
    · exact ⟨hlong, hpos⟩
    · exact hI.widths x hx'

theorem sorted_add_table (s : Pkg) (hS : SortedAll s) (t : Table) (hnew : ∀ x ∈ s.tables, x.name ≠ t.name)
    (hempty : Cont.find s.cont t.streamName = none) : SortedAll (withTable s t) := by
  have hperm := insertTable_perm s.tables t hnew
  intro x hx rows hl
  have := hperm.mem_iff.mp hx
  simp only [List.mem_cons] at this
  rcases this with rfl | hx'
  · have hload : s.loadRows x = .ok [] := by unfold Pkg.loadRows; rw [hempty]; rfl
    rw [loadRows_withTable, hload] at hl
    cases hl
    simp [KeysAscending]
  · exact hS x hx' rows hl

theorem reads_withTable {s : Pkg} {t Y : Table} {P : List Value → Prop} (h : Reads s Y P) :
    Reads (withTable s t) Y P := h


/-! ### the rows `create_table` inserts are the catalog rows of the new table -/

theorem colRows_new (name : List Char) (cols : List Column) (long : Bool) (hn : name ≠ [])
    (hc : ∀ c ∈ cols, c.name ≠ []) :
    (catalogRowsColumns name cols).map (fun r => r.map storable) = colRowsOf ⟨name, cols, long⟩ := by
  unfold catalogRowsColumns colRowsOf entriesOf
  simp only [List.map_map]
  apply List.map_congr_left
  intro x hx
  obtain ⟨c, i⟩ := x
  have hcm : c ∈ cols := (List.mem_zipIdx hx).2.2 ▸ List.getElem_mem _
  simp only [Function.comp, List.map_cons, List.map_nil, storable_str_ne name hn, storable_str_ne c.name (hc c hcm),
    bitfieldValue_eq, storable_int]

theorem tabRows_new (name : List Char) (hn : name ≠ []) :
    ([[Value.str name]] : List (List Value)).map (fun r => r.map storable) = [[Value.str name]] := by
  simp [storable_str_ne name hn]

theorem valRows_new (name : List Char) (cols : List Column) (long : Bool) :
    (catalogRowsValidation name cols).map (fun r => r.map storable) = valRowsOf ⟨name, cols, long⟩ := by
  unfold valRowsOf
  simp only
  induction cols with
  | nil => rfl
  | cons c rest ih =>
    have h1 : catalogRowsValidation name (c :: rest) = catalogRowsValidation name [c] ++ catalogRowsValidation name rest := by
      unfold catalogRowsValidation; rfl
    rw [h1, List.map_append, ih]
    simp only [List.map_cons]
    congr 1

/-! ### looking tables up by name -/

theorem findTable_none_ne (s : Pkg) (n : List Char) (h : s.findTable n = none) : ∀ x ∈ s.tables, x.name ≠ n := by
  intro x hx e
  unfold Pkg.findTable at h
  have := List.find?_eq_none.mp h x hx
  simp [e] at this

theorem find_insertTable_other (ts : List Table) (t : Table) (n : List Char) (hne : t.name ≠ n)
    (hnew : ∀ x ∈ ts, x.name ≠ t.name) :
    (insertTable ts t).find? (·.name == n) = ts.find? (·.name == n) := by
  induction ts with
  | nil =>
    have : (t.name == n) = false := by simpa using hne
    simp [insertTable, List.find?_cons, this]
  | cons x rest ih =>
    simp only [insertTable]
    have htn : (t.name == n) = false := by simpa using hne
    split
    · simp [List.find?_cons, htn]
    · have hne' : x.name ≠ t.name := hnew x (by simp)
      have hneq : (t.name == x.name) = false := by
        simp only [beq_eq_false_iff_ne, ne_eq]; exact fun e => hne' e.symm
      simp only [hneq, Bool.false_eq_true, if_false, List.find?_cons]
      rw [ih (fun y hy => hnew y (by simp [hy]))]


/-! ### what `create_table` checked -/

theorem nodup_of_no_dups (l : List (List Char)) (h : hasDuplicateNames l = false) : l.Nodup := by
  induction l with
  | nil => simp
  | cons x rest ih =>
    simp only [hasDuplicateNames, Bool.or_eq_false_iff] at h
    simp only [List.nodup_cons]
    exact ⟨by simpa using h.1, ih h.2⟩

theorem identifier_ne_nil (n : List Char) (h : Category.validate .identifier n = true) : n ≠ [] := by
  intro e; subst e; simp [Category.validate, Category.isIdentifier] at h

structure CreateFacts (s : Pkg) (name : List Char) (cols : List Column) : Prop where
  validName : Table.isValidName name = true
  notPool : isPoolName name = false
  nonempty : cols ≠ []
  colNames : ∀ c ∈ cols, c.name ≠ []
  colNodup : (cols.map fun (c : Column) => c.name).Nodup
  fresh : s.findTable name = none
  storable : ∀ c ∈ cols, isStorable c = true
  small : cols.length < 2147483647
  fkOk : ∀ c ∈ cols, ∀ t i, c.foreignKey = some (t, i) → t ≠ []

theorem fk_of_valid (name : List Char) (cols : List Column)
    (h : rowsValidFor (Catalog.validationTable false) (catalogRowsValidation name cols) = true) :
    ∀ c ∈ cols, ∀ t i, c.foreignKey = some (t, i) → t ≠ [] := by
  intro c hc t i hfk ht
  subst ht
  unfold rowsValidFor catalogRowsValidation at h
  rw [List.all_map] at h
  have := List.all_eq_true.mp h c hc
  simp only [Function.comp, hfk, Catalog.validationTable, Catalog.validationColumns] at this
  simp [List.zip, List.all, Column.isValidValue, Category.validate, Category.isIdentifier, Catalog.mkCol] at this

theorem createError_facts (s : Pkg) (name : List Char) (cols : List Column) (h : createError s name cols = none) :
    CreateFacts s name cols := by
  unfold createError at h
  by_cases h1 : (!Table.isValidName name) = true
  · rw [if_pos h1] at h; cases h
  rw [if_neg h1] at h
  by_cases hres : isPoolName name = true
  · rw [if_pos hres] at h; cases h
  rw [if_neg hres] at h
  by_cases h2 : cols.isEmpty = true
  · rw [if_pos h2] at h; cases h
  rw [if_neg h2] at h
  by_cases h3 : cols.length > Gen.maxTableColumns
  · rw [if_pos h3] at h; cases h
  rw [if_neg h3] at h
  by_cases h4 : (!cols.any (·.isPrimaryKey)) = true
  · rw [if_pos h4] at h; cases h
  rw [if_neg h4] at h
  by_cases h5 : cols.any (fun c => !Category.validate .identifier c.name) = true
  · rw [if_pos h5] at h; cases h
  rw [if_neg h5] at h
  by_cases h6 : hasDuplicateNames (cols.map (·.name)) = true
  · rw [if_pos h6] at h; cases h
  rw [if_neg h6] at h
  by_cases h7 : (s.findTable name).isSome = true
  · rw [if_pos h7] at h; cases h
  rw [if_neg h7] at h
  by_cases h8 : cols.any (fun c => !isStorable c) = true
  · rw [if_pos h8] at h; cases h
  rw [if_neg h8] at h
  by_cases h9 : (!rowsValidFor (Catalog.columnsTable false) (catalogRowsColumns name cols)) = true
  · rw [if_pos h9] at h; cases h
  rw [if_neg h9] at h
  by_cases h10 : (!rowsValidFor (Catalog.tablesTable false) [[.str name]]) = true
  · rw [if_pos h10] at h; cases h
  rw [if_neg h10] at h
  by_cases h11 : (!rowsValidFor (Catalog.validationTable false) (catalogRowsValidation name cols)) = true
  · rw [if_pos h11] at h; cases h
  have e32 : Gen.maxTableColumns = 32 := rfl
  refine ⟨by simpa using h1, by simpa using hres, by simpa [List.isEmpty_iff] using h2, ?_,
    nodup_of_no_dups _ (by simpa using h6), by simpa using h7, ?_, by rw [e32] at h3; omega,
    fk_of_valid name cols (by simpa using h11)⟩
  · intro c hc
    apply identifier_ne_nil
    simp only [List.any_eq_true, not_exists, not_and, Bool.not_eq_true', Bool.not_eq_false] at h5
    simpa using h5 c hc
  · intro c hc
    simp only [List.any_eq_true, not_exists, not_and, Bool.not_eq_true', Bool.not_eq_false] at h8
    simpa using h8 c hc

theorem width_pos (long : Bool) (ty : ColType) : 0 < ty.width long := by
  cases ty <;> simp [ColType.width] <;> split <;> omega

theorem rowSize_pos (t : Table) (h : t.columns ≠ []) : 0 < t.rowSize := by
  unfold Table.rowSize
  cases hc : t.columns with
  | nil => exact absurd hc h
  | cons c rest =>
    simp only [List.map_cons, List.sum_cons]
    have := width_pos t.longRefs c.coltype
    omega

end MsiProofs.CreateTable
