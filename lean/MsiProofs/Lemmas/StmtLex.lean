import MsiProofs.Lemmas.ExprLex
import MsiModel.QueryFmt
import MsiModel.StmtLex
/-
C19 for the statements, from characters: a reader of the printed TEXT of `UPDATE`, `DELETE` and
`INSERT` statements (`QueryFmt.fmtUpdate` / `fmtDelete` / `fmtInsert`, the models of the three
`Display` implementations), and the theorems that it gives the statement back.

The reader follows the grammar's shape: fixed keywords with their blanks, an identifier (a run of
identifier characters), a literal (a quoted run without quotes or backslashes, or a run up to the
next `,`, blank or `)`, handed to the expression lexer `lex`, which must answer with exactly one
literal token), `, ` between assignments, values and rows, and after ` WHERE ` the expression
reader of C19 (`readText`) on the rest of the text.
-/
namespace MsiProofs.StmtLex
open MsiModel MsiProofs.ExprLex MsiModel.QueryFmt MsiModel.StmtLex

theorem strip_append (p s : List Char) : strip p (p ++ s) = some s := by
  induction p with
  | nil => cases s <;> rfl
  | cons a p ih => simp [strip, ih]

/-- the text that follows does not continue the run -/
def Stops (p : Char → Bool) (rest : List Char) : Prop := ∀ c r, rest = c :: r → p c = false

theorem stops_nil (p : Char → Bool) : Stops p [] := fun _ _ h => by cases h
theorem stops_cons {p : Char → Bool} {c : Char} (r : List Char) (h : p c = false) : Stops p (c :: r) :=
  fun _ _ e => by cases e; exact h

theorem spanP_append (p : Char → Bool) (n rest : List Char) (hn : ∀ c ∈ n, p c = true)
    (hr : Stops p rest) : spanP p (n ++ rest) = (n, rest) := by
  induction n with
  | nil =>
    cases rest with
    | nil => rfl
    | cons c r => simp [spanP, hr c r rfl]
  | cons a n ih =>
    have ha : p a = true := hn a (by simp)
    have := ih (fun c hc => hn c (by simp [hc]))
    simp [spanP, ha, this]

/-! ### literals -/

theorem lex_display (v : Value) (s : List Char) (h : v.display = some s) : lex s = some [.lit v] := by
  have := lex_lit v s h [] [] follow_nil (by rw [lexFrom_nil]; rfl)
  simpa [lex] using this

theorem digit_litChar {c : Char} (h : isDigitC c = true) : litChar c = true ∧ c ≠ '"' := by
  have := digit_range h
  constructor
  · simp only [litChar, Bool.and_eq_true, bne_iff_ne, ne_eq]
    refine ⟨⟨?_, ?_⟩, ?_⟩ <;> (intro e; subst e; revert this; decide)
  · intro e; subst e; revert this; decide

theorem natDigits_lit (k : Nat) :
    ∃ d ds, Value.natDigits k = d :: ds ∧ (∀ c ∈ d :: ds, litChar c = true) ∧ d ≠ '"' := by
  obtain ⟨d, ds, h, hd, _⟩ := natDigits_spec k
  exact ⟨d, ds, h, fun c hc => (digit_litChar (hd c hc)).1, (digit_litChar (hd d (by simp))).2⟩

theorem takeLit_plain (c : Char) (w rest : List Char) (hq : c ≠ '"')
    (hall : ∀ x ∈ c :: w, litChar x = true) (hr : Stops litChar rest) :
    takeLit (c :: w ++ rest) = some (c :: w, rest) := by
  have hsp := spanP_append litChar (c :: w) rest hall hr
  simp only [List.cons_append] at hsp ⊢
  simp only [takeLit, if_neg hq, hsp]

theorem takeLit_quoted (t rest : List Char) (hnq : ∀ c ∈ t, notQuote c = true) :
    takeLit ('"' :: t ++ ['"'] ++ rest) = some ('"' :: t ++ ['"'], rest) := by
  have hsp := spanP_append notQuote t ('"' :: rest) hnq (stops_cons rest (by decide))
  have e : '"' :: t ++ ['"'] ++ rest = '"' :: (t ++ '"' :: rest) := by simp
  rw [e]
  simp only [takeLit, if_pos, hsp]

/-- a printed literal, followed by what may follow a literal in a statement, is cut off and read
back as that literal -/
theorem readLit_display (v : Value) (s : List Char) (h : v.display = some s) (rest : List Char)
    (hr : Stops litChar rest) : readLit (s ++ rest) = some (v, rest) := by
  have hlex := lex_display v s h
  have key : takeLit (s ++ rest) = some (s, rest) := by
    cases v with
    | null =>
      have hs : s = 'N' :: ['U', 'L', 'L'] := by
        simp only [Value.display, Option.some.injEq] at h
        rw [← h]; decide
      rw [hs]
      exact takeLit_plain 'N' _ rest (by decide) (by decide) hr
    | int n =>
      simp only [Value.display, Option.some.injEq, Value.intDisplay] at h
      split at h
      · obtain ⟨d, ds, hd, hl, _⟩ := natDigits_lit n.toInt.natAbs
        rw [← h, hd]
        refine takeLit_plain '-' (d :: ds) rest (by decide) ?_ hr
        intro x hx
        rcases List.mem_cons.mp hx with rfl | hx
        · decide
        · exact hl x hx
      · obtain ⟨d, ds, hd, hl, hq⟩ := natDigits_lit n.toInt.toNat
        rw [← h, hd]
        exact takeLit_plain d ds rest hq hl hr
    | str t =>
      simp only [Value.display] at h
      split at h
      · rename_i hall
        simp only [Option.some.injEq] at h
        have hnq : ∀ c ∈ t, notQuote c = true := by
          intro c hc
          have := (List.all_eq_true.mp hall) c hc
          simp only [Value.plainChar, Bool.and_eq_true, bne_iff_ne, ne_eq] at this
          simp only [notQuote, bne_iff_ne, ne_eq]
          exact this.1.2
        rw [← h]
        exact takeLit_quoted t rest hnq
      · cases h
  simp only [readLit, key, hlex]

/-! ### identifiers -/

def IdChars (n : List Char) : Prop := ∀ c ∈ n, isIdChar c = true

theorem goodIdent_idChars {n : List Char} (h : GoodIdent n) : IdChars n := by
  obtain ⟨c, w, rfl, hc, hw, _⟩ := h
  intro x hx
  rcases List.mem_cons.mp hx with rfl | hx
  · simp [isIdChar, hc]
  · exact hw x hx

theorem readIdent_append (n rest : List Char) (hn : IdChars n) (hr : Stops isIdChar rest) :
    spanP isIdChar (n ++ rest) = (n, rest) := spanP_append _ n rest hn hr

theorem stops_space (r : List Char) : Stops isIdChar (' ' :: r) := stops_cons r (by decide)

/-! ### DELETE -/

theorem strip_where_nil : strip " WHERE ".toList [] = none := rfl
theorem strip_comma_nil : strip ", ".toList [] = none := rfl
theorem strip_comma_where (x : List Char) : strip ", ".toList (" WHERE ".toList ++ x) = none := by
  show strip (',' :: [' ']) (' ' :: ("WHERE ".toList ++ x)) = none
  simp [strip]

/-- the conditions in the domain of the lexical theorem -/
def GoodCond : Option Ast → Prop
  | none => True
  | some e => Good e

theorem optWhere_cases (cond : Option Ast) (w : List Char) (h : optWhere cond = some w) :
    (cond = none ∧ w = []) ∨ (∃ e x, cond = some e ∧ e.fmt = some x ∧ w = " WHERE ".toList ++ x) := by
  cases cond with
  | none => left; simp [optWhere] at h; exact ⟨rfl, h⟩
  | some e =>
    right
    simp only [optWhere] at h
    cases hx : e.fmt with
    | none => simp [hx] at h
    | some x => simp [hx] at h; exact ⟨e, x, rfl, hx, h.symm⟩

theorem readWhereText_opt (cond : Option Ast) (hg : GoodCond cond) (w : List Char)
    (h : optWhere cond = some w) : readWhereText w = some cond ∧ Stops isIdChar w := by
  rcases optWhere_cases cond w h with ⟨rfl, rfl⟩ | ⟨e, x, rfl, hx, rfl⟩
  · exact ⟨by simp only [readWhereText, strip_where_nil], stops_nil _⟩
  · constructor
    · have hr := readText_fmt e hg x hx
      simp only [readWhereText, strip_append, hr, Option.map_some]
    · exact stops_space _

/-- **reading a printed DELETE gives the statement back** -/
theorem readDeleteText_fmt (t : List Char) (cond : Option Ast) (ht : IdChars t) (hg : GoodCond cond)
    (s : List Char) (h : fmtDelete t cond = some s) : readDeleteText s = some (t, cond) := by
  simp only [fmtDelete, Option.bind_eq_bind, Option.pure_def] at h
  cases hw : optWhere cond with
  | none => simp [hw] at h
  | some w =>
    simp only [hw, Option.bind_some, Option.some.injEq] at h
    obtain ⟨h1, h2⟩ := readWhereText_opt cond hg w hw
    have hsp := readIdent_append t w ht h2
    rw [← h, List.append_assoc]
    simp only [readDeleteText, strip_append, hsp, h1]
    rfl

/-! ### UPDATE -/

/-- the printed assignments of `fmtUpdate`, one text per assignment -/
def assignTexts : List (List Char × Value) → Option (List (List Char))
  | [] => some []
  | (c, v) :: rest =>
    match v.display, assignTexts rest with
    | some s, some ps => some ((c ++ " = ".toList ++ s) :: ps)
    | _, _ => none

theorem mapM_assign (ups : List (List Char × Value)) :
    ups.mapM (fun (x : List Char × Value) => (x.2.display).map fun s => x.1 ++ " = ".toList ++ s) = assignTexts ups := by
  induction ups with
  | nil => rfl
  | cons a rest ih =>
    obtain ⟨c, v⟩ := a
    simp only [List.mapM_cons, ih, assignTexts]
    cases v.display <;> cases assignTexts rest <;> rfl

/-- the tail of an UPDATE after the assignments -/
inductive Tail : List Char → Option (List Char) → Prop
  | none : Tail [] none
  | wh (x : List Char) : Tail (" WHERE ".toList ++ x) (some x)

theorem tail_stops {w : List Char} {o : Option (List Char)} (h : Tail w o) : Stops litChar w := by
  cases h with
  | none => exact stops_nil _
  | wh x => exact stops_cons _ (by decide)

theorem readAssignsText_fmt (ups : List (List Char × Value)) :
    ∀ (parts : List (List Char)) (fuel : Nat) (w : List Char) (o : Option (List Char)),
      ups ≠ [] → (∀ p ∈ ups, IdChars p.1) → assignTexts ups = some parts → ups.length ≤ fuel → Tail w o →
      readAssignsText fuel (joinWith ", ".toList parts ++ w) = some (ups, o) := by
  induction ups with
  | nil => intro _ _ _ _ h; exact absurd rfl h
  | cons a rest ih =>
    intro parts fuel w o _ hid hp hf ht
    obtain ⟨c, v⟩ := a
    cases fuel with
    | zero => simp at hf
    | succ fuel =>
      simp only [assignTexts] at hp
      cases hd : v.display with
      | none => simp [hd] at hp
      | some sv =>
        cases hrest : assignTexts rest with
        | none => simp [hd, hrest] at hp
        | some ps =>
          simp only [hd, hrest, Option.some.injEq] at hp
          subst hp
          have hc : IdChars c := hid (c, v) (by simp)
          cases rest with
          | nil =>
            simp only [assignTexts, Option.some.injEq] at hrest
            subst hrest
            -- the last assignment: followed by the tail
            have e1 : joinWith ", ".toList [c ++ " = ".toList ++ sv] ++ w = c ++ (" = ".toList ++ (sv ++ w)) := by
              simp [joinWith]
            have hsp := readIdent_append c (" = ".toList ++ (sv ++ w)) hc (stops_space _)
            have hl := readLit_display v sv hd w (tail_stops ht)
            rw [e1, readAssignsText, hsp]
            simp only [strip_append, hl]
            cases ht with
            | none => simp only [strip_comma_nil, strip_where_nil]
            | wh x => simp only [strip_comma_where, strip_append]
          | cons b rest' =>
            obtain ⟨p2, ps', rfl⟩ : ∃ p2 ps', ps = p2 :: ps' := by
              obtain ⟨c2, v2⟩ := b
              simp only [assignTexts] at hrest
              cases h1 : v2.display <;> cases h2 : assignTexts rest' <;> simp [h1, h2] at hrest
              exact ⟨_, _, hrest.symm⟩
            have e1 : joinWith ", ".toList ((c ++ " = ".toList ++ sv) :: p2 :: ps') ++ w
                = c ++ (" = ".toList ++ (sv ++ (", ".toList ++ (joinWith ", ".toList (p2 :: ps') ++ w)))) := by
              simp [joinWith]
            have hsp := readIdent_append c (" = ".toList ++ (sv ++ (", ".toList ++ (joinWith ", ".toList (p2 :: ps') ++ w)))) hc (stops_space _)
            have hl := readLit_display v sv hd (", ".toList ++ (joinWith ", ".toList (p2 :: ps') ++ w))
              (stops_cons _ (by decide))
            have hrec := ih (p2 :: ps') fuel w o (by simp) (fun p hp => hid p (by simp [hp])) hrest
              (by simp at hf ⊢; omega) ht
            rw [e1, readAssignsText, hsp]
            simp only [strip_append, hl, hrec, Option.map_some]

theorem assignTexts_length (ups : List (List Char × Value)) :
    ∀ parts, assignTexts ups = some parts → ups.length ≤ (joinWith ", ".toList parts).length + 1 := by
  induction ups with
  | nil => intro _ _; simp
  | cons a rest ih =>
    intro parts hp
    obtain ⟨c, v⟩ := a
    simp only [assignTexts] at hp
    cases hd : v.display with
    | none => simp [hd] at hp
    | some sv =>
      cases hrest : assignTexts rest with
      | none => simp [hd, hrest] at hp
      | some ps =>
        simp only [hd, hrest, Option.some.injEq] at hp
        subst hp
        have := ih ps hrest
        cases ps with
        | nil =>
          cases rest with
          | nil => simp
          | cons b r =>
            obtain ⟨c2, v2⟩ := b
            simp only [assignTexts] at hrest
            cases h1 : v2.display <;> cases h2 : assignTexts r <;> simp [h1, h2] at hrest
        | cons p ps =>
          simp only [joinWith, List.length_append, List.length_cons] at this ⊢
          have : (" = ".toList).length = 3 := rfl
          have : (", ".toList).length = 2 := rfl
          omega

/-- **reading a printed UPDATE gives the statement back**: the table, every assignment with its
value in order (a column assigned twice stays assigned twice), and the condition -/
theorem readUpdateText_fmt (t : List Char) (ups : List (List Char × Value)) (cond : Option Ast)
    (ht : IdChars t) (hne : ups ≠ []) (hid : ∀ p ∈ ups, IdChars p.1) (hg : GoodCond cond)
    (s : List Char) (h : fmtUpdate t ups cond = some s) : readUpdateText s = some (t, ups, cond) := by
  unfold fmtUpdate at h
  have hm := mapM_assign ups
  simp only [Option.bind_eq_bind, Option.pure_def] at h
  rw [show (List.mapM (fun (x : List Char × Value) => match x with
      | (c, v) => Option.map (fun s => c ++ " = ".toList ++ s) v.display) ups) = assignTexts ups from by
    rw [← hm]] at h
  cases hp : assignTexts ups with
  | none => simp [hp] at h
  | some parts =>
    cases hw : optWhere cond with
    | none => simp [hp, hw] at h
    | some w =>
      simp only [hp, hw, Option.bind_some, Option.some.injEq] at h
      have hlen := assignTexts_length ups parts hp
      have e1 : s = "UPDATE ".toList ++ (t ++ (" SET ".toList ++ (joinWith ", ".toList parts ++ w))) := by
        rw [← h]; simp
      have hsp := readIdent_append t (" SET ".toList ++ (joinWith ", ".toList parts ++ w)) ht (stops_space _)
      rw [e1]
      simp only [readUpdateText, strip_append, hsp]
      rcases optWhere_cases cond w hw with ⟨rfl, rfl⟩ | ⟨e, x, rfl, hx, rfl⟩
      · have := readAssignsText_fmt ups parts ((joinWith ", ".toList parts ++ []).length + 1) [] none hne hid hp
          (by simp only [List.length_append]; omega) Tail.none
        simp only [this]
      · have := readAssignsText_fmt ups parts ((joinWith ", ".toList parts ++ (" WHERE ".toList ++ x)).length + 1)
          (" WHERE ".toList ++ x) (some x) hne hid hp (by simp only [List.length_append]; omega) (Tail.wh x)
        simp only [this, readText_fmt e hg x hx, Option.map_some]

/-! ### INSERT -/

/-- the printed values of a row, one text per value -/
def valTexts : List Value → Option (List (List Char))
  | [] => some []
  | v :: rest =>
    match v.display, valTexts rest with
    | some s, some ps => some (s :: ps)
    | _, _ => none

theorem mapM_display (vs : List Value) : vs.mapM Value.display = valTexts vs := by
  induction vs with
  | nil => rfl
  | cons v rest ih =>
    simp only [List.mapM_cons, ih, valTexts]
    cases v.display <;> cases valTexts rest <;> rfl

theorem strip_comma_rp (x : List Char) : strip ", ".toList (')' :: x) = none := by
  show strip (',' :: [' ']) (')' :: x) = none
  simp [strip]

theorem strip_rp (x : List Char) : strip [')'] (')' :: x) = some x := by
  simp [strip]

theorem valTexts_cons_ne {b : Value} {rest : List Value} {ps : List (List Char)}
    (h : valTexts (b :: rest) = some ps) : ∃ p ps', ps = p :: ps' := by
  simp only [valTexts] at h
  cases h1 : b.display <;> cases h2 : valTexts rest <;> simp [h1, h2] at h
  exact ⟨_, _, h.symm⟩

theorem readValsText_fmt (vs : List Value) :
    ∀ (parts : List (List Char)) (fuel : Nat) (x : List Char),
      vs ≠ [] → valTexts vs = some parts → vs.length ≤ fuel →
      readValsText fuel (joinWith ", ".toList parts ++ ')' :: x) = some (vs, x) := by
  induction vs with
  | nil => intro _ _ _ h; exact absurd rfl h
  | cons v rest ih =>
    intro parts fuel x _ hp hf
    cases fuel with
    | zero => simp at hf
    | succ fuel =>
      simp only [valTexts] at hp
      cases hd : v.display with
      | none => simp [hd] at hp
      | some sv =>
        cases hrest : valTexts rest with
        | none => simp [hd, hrest] at hp
        | some ps =>
          simp only [hd, hrest, Option.some.injEq] at hp
          subst hp
          cases rest with
          | nil =>
            simp only [valTexts, Option.some.injEq] at hrest
            subst hrest
            have e1 : joinWith ", ".toList [sv] ++ ')' :: x = sv ++ ')' :: x := by simp [joinWith]
            have hl := readLit_display v sv hd (')' :: x) (stops_cons _ (by decide))
            rw [e1, readValsText]
            simp only [hl, strip_comma_rp, strip_rp]
          | cons b rest' =>
            obtain ⟨p2, ps', rfl⟩ := valTexts_cons_ne hrest
            have e1 : joinWith ", ".toList (sv :: p2 :: ps') ++ ')' :: x
                = sv ++ (", ".toList ++ (joinWith ", ".toList (p2 :: ps') ++ ')' :: x)) := by
              simp [joinWith]
            have hl := readLit_display v sv hd (", ".toList ++ (joinWith ", ".toList (p2 :: ps') ++ ')' :: x))
              (stops_cons _ (by decide))
            have hrec := ih (p2 :: ps') fuel x (by simp) hrest (by simp at hf ⊢; omega)
            rw [e1, readValsText]
            simp only [hl, strip_append, hrec, Option.map_some]

theorem valTexts_length (vs : List Value) :
    ∀ parts, valTexts vs = some parts → vs.length ≤ (joinWith ", ".toList parts).length + 1 := by
  induction vs with
  | nil => intro _ _; simp
  | cons v rest ih =>
    intro parts hp
    simp only [valTexts] at hp
    cases hd : v.display with
    | none => simp [hd] at hp
    | some sv =>
      cases hrest : valTexts rest with
      | none => simp [hd, hrest] at hp
      | some ps =>
        simp only [hd, hrest, Option.some.injEq] at hp
        subst hp
        have := ih ps hrest
        cases ps with
        | nil =>
          cases rest with
          | nil => simp
          | cons b r =>
            obtain ⟨_, _, h⟩ := valTexts_cons_ne hrest
            cases h
        | cons p ps =>
          simp only [joinWith, List.length_append, List.length_cons] at this ⊢
          have : (", ".toList).length = 2 := rfl
          omega

theorem fmtValues_eq (vs : List Value) (s : List Char) (h : fmtValues vs = some s) :
    ∃ parts, valTexts vs = some parts ∧ s = '(' :: (joinWith ", ".toList parts ++ [')']) := by
  simp only [fmtValues, Option.bind_eq_bind, Option.pure_def, mapM_display] at h
  cases hp : valTexts vs with
  | none => simp [hp] at h
  | some parts =>
    simp only [hp, Option.bind_some, Option.some.injEq] at h
    exact ⟨parts, rfl, by rw [← h]; simp⟩

theorem strip_lprp_lit (c : Char) (hc : c ≠ ')') (r : List Char) : strip ['(', ')'] ('(' :: c :: r) = none := by
  simp only [strip, if_pos]
  rw [if_neg (fun e => hc e.symm)]

/-- the first character of a printed literal is not `)` -/
theorem display_head (v : Value) (s : List Char) (h : v.display = some s) :
    ∃ c r, s = c :: r ∧ c ≠ ')' := by
  cases v with
  | null => simp only [Value.display, Option.some.injEq] at h; exact ⟨'N', ['U', 'L', 'L'], by rw [← h]; decide, by decide⟩
  | int n =>
    simp only [Value.display, Option.some.injEq, Value.intDisplay] at h
    split at h
    · exact ⟨'-', _, h.symm, by decide⟩
    · obtain ⟨d, ds, hd, hl, _⟩ := natDigits_lit n.toInt.toNat
      refine ⟨d, ds, by rw [← h, hd], ?_⟩
      intro e
      have := hl d (by simp)
      rw [e] at this
      exact absurd this (by decide)
  | str t =>
    simp only [Value.display] at h
    split at h
    · simp only [Option.some.injEq] at h
      exact ⟨'"', _, h.symm, by decide⟩
    · cases h

/-- a printed row, followed by anything, reads back as the row -/
theorem readRowText_fmt (vs : List Value) (s : List Char) (h : fmtValues vs = some s) (x : List Char) :
    readRowText (s ++ x) = some (vs, x) := by
  obtain ⟨parts, hp, rfl⟩ := fmtValues_eq vs s h
  cases vs with
  | nil =>
    simp only [valTexts, Option.some.injEq] at hp
    subst hp
    show readRowText ('(' :: ')' :: x) = _
    have : strip ['(', ')'] ('(' :: ')' :: x) = some x := by simp [strip]
    simp only [readRowText, this]
  | cons v rest =>
    obtain ⟨p, ps, rfl⟩ := valTexts_cons_ne hp
    have hlen := valTexts_length (v :: rest) (p :: ps) hp
    have hvals := readValsText_fmt (v :: rest) (p :: ps)
      ((joinWith ", ".toList (p :: ps) ++ ')' :: x).length + 1) x (by simp) hp
      (by simp only [List.length_append]; omega)
    -- the first printed value starts the text after `(`
    have hhead : ∃ c r, joinWith ", ".toList (p :: ps) = c :: r ∧ c ≠ ')' := by
      simp only [valTexts] at hp
      cases hd : v.display with
      | none => simp [hd] at hp
      | some sv =>
        cases hr : valTexts rest with
        | none => simp [hd, hr] at hp
        | some q =>
          simp only [hd, hr, Option.some.injEq, List.cons.injEq] at hp
          obtain ⟨c, r, hs, hc⟩ := display_head v sv hd
          obtain ⟨rfl, rfl⟩ := hp
          subst hs
          cases q with
          | nil => exact ⟨c, r, rfl, hc⟩
          | cons a b => exact ⟨c, _, rfl, hc⟩
    obtain ⟨c, r, hj, hc⟩ := hhead
    have e1 : '(' :: (joinWith ", ".toList (p :: ps) ++ [')']) ++ x
        = '(' :: (joinWith ", ".toList (p :: ps) ++ ')' :: x) := by simp
    rw [e1]
    have hs1 : strip ['(', ')'] ('(' :: (joinWith ", ".toList (p :: ps) ++ ')' :: x)) = none := by
      rw [hj]; exact strip_lprp_lit c hc _
    have hs2 : strip ['('] ('(' :: (joinWith ", ".toList (p :: ps) ++ ')' :: x))
        = some (joinWith ", ".toList (p :: ps) ++ ')' :: x) := by simp [strip]
    simp only [readRowText, hs1, hs2, hvals]

/-- the printed rows of `fmtInsert`, one text per row -/
def rowTexts : List (List Value) → Option (List (List Char))
  | [] => some []
  | r :: rest =>
    match fmtValues r, rowTexts rest with
    | some s, some ps => some (s :: ps)
    | _, _ => none

theorem mapM_rows (rows : List (List Value)) : rows.mapM fmtValues = rowTexts rows := by
  induction rows with
  | nil => rfl
  | cons r rest ih =>
    simp only [List.mapM_cons, ih, rowTexts]
    cases fmtValues r <;> cases rowTexts rest <;> rfl

theorem rowTexts_cons_ne {b : List Value} {rest : List (List Value)} {ps : List (List Char)}
    (h : rowTexts (b :: rest) = some ps) : ∃ p ps', ps = p :: ps' := by
  simp only [rowTexts] at h
  cases h1 : fmtValues b <;> cases h2 : rowTexts rest <;> simp [h1, h2] at h
  exact ⟨_, _, h.symm⟩

theorem readRowsText_fmt (rows : List (List Value)) :
    ∀ (parts : List (List Char)) (fuel : Nat),
      rows ≠ [] → rowTexts rows = some parts → rows.length ≤ fuel →
      readRowsText fuel (joinWith ", ".toList parts) = some rows := by
  induction rows with
  | nil => intro _ _ h; exact absurd rfl h
  | cons row rest ih =>
    intro parts fuel _ hp hf
    cases fuel with
    | zero => simp at hf
    | succ fuel =>
      simp only [rowTexts] at hp
      cases hd : fmtValues row with
      | none => simp [hd] at hp
      | some sr =>
        cases hrest : rowTexts rest with
        | none => simp [hd, hrest] at hp
        | some ps =>
          simp only [hd, hrest, Option.some.injEq] at hp
          subst hp
          cases rest with
          | nil =>
            simp only [rowTexts, Option.some.injEq] at hrest
            subst hrest
            have hrow := readRowText_fmt row sr hd []
            simp only [List.append_nil] at hrow
            simp only [joinWith, readRowsText, hrow, strip_comma_nil]
          | cons b rest' =>
            obtain ⟨p2, ps', rfl⟩ := rowTexts_cons_ne hrest
            have hrow := readRowText_fmt row sr hd (", ".toList ++ joinWith ", ".toList (p2 :: ps'))
            have hrec := ih (p2 :: ps') fuel (by simp) hrest (by simp at hf ⊢; omega)
            have e1 : joinWith ", ".toList (sr :: p2 :: ps') = sr ++ (", ".toList ++ joinWith ", ".toList (p2 :: ps')) := by
              simp [joinWith]
            rw [e1, readRowsText]
            simp only [hrow, strip_append, hrec, Option.map_some]

theorem fmtValues_length (vs : List Value) (s : List Char) (h : fmtValues vs = some s) : 1 ≤ s.length := by
  obtain ⟨_, _, rfl⟩ := fmtValues_eq vs s h
  simp

theorem rowTexts_length (rows : List (List Value)) :
    ∀ parts, rowTexts rows = some parts → rows.length ≤ (joinWith ", ".toList parts).length + 1 := by
  induction rows with
  | nil => intro _ _; simp
  | cons r rest ih =>
    intro parts hp
    simp only [rowTexts] at hp
    cases hd : fmtValues r with
    | none => simp [hd] at hp
    | some sv =>
      cases hrest : rowTexts rest with
      | none => simp [hd, hrest] at hp
      | some ps =>
        simp only [hd, hrest, Option.some.injEq] at hp
        subst hp
        have := ih ps hrest
        cases ps with
        | nil =>
          cases rest with
          | nil => simp
          | cons b r =>
            obtain ⟨_, _, h⟩ := rowTexts_cons_ne hrest
            cases h
        | cons p ps =>
          simp only [joinWith, List.length_append, List.length_cons] at this ⊢
          have : (", ".toList).length = 2 := rfl
          omega

/-- **reading a printed INSERT gives the statement back**: the table and every row of values -/
theorem readInsertText_fmt (t : List Char) (rows : List (List Value)) (ht : IdChars t)
    (s : List Char) (h : fmtInsert t rows = some s) : readInsertText s = some (t, rows) := by
  simp only [fmtInsert, Option.bind_eq_bind, Option.pure_def, mapM_rows] at h
  cases hp : rowTexts rows with
  | none => rw [hp, Option.bind_none] at h; cases h
  | some parts =>
    simp only [hp, Option.bind_some, Option.some.injEq] at h
    cases rows with
    | nil =>
      simp only [List.isEmpty_nil, if_true, List.append_nil] at h
      have hsp := readIdent_append t [] ht (stops_nil _)
      simp only [List.append_nil] at hsp
      have hnone : strip " VALUES ".toList [] = none := rfl
      rw [← h]
      simp only [readInsertText, strip_append, hsp, hnone]
    | cons r rest =>
      simp only [List.isEmpty_cons, Bool.false_eq_true, if_false] at h
      have hlen := rowTexts_length (r :: rest) parts hp
      have hrows := readRowsText_fmt (r :: rest) parts ((joinWith ", ".toList parts).length + 1) (by simp) hp hlen
      have hsp := readIdent_append t (" VALUES ".toList ++ joinWith ", ".toList parts) ht (stops_space _)
      have e1 : s = "INSERT INTO ".toList ++ (t ++ (" VALUES ".toList ++ joinWith ", ".toList parts)) := by
        rw [← h]; simp
      rw [e1]
      simp only [readInsertText, strip_append, hsp, hrows, Option.map_some]

end MsiProofs.StmtLex
