import MsiProofs.Lemmas.Lifecycle2
/-
The stream listing (property C11): `streams()` lists exactly the live user stream names, as
given.  For a container whose entry names are the ones the library writes — the special streams,
table streams `encode t true`, user streams `encode n false` of valid names — and which holds no
two entries with the same (cfb) key:

* writing a new name appends it to the listing, overwriting changes nothing;
* removing a name removes exactly that name;
* writing or removing a table stream, the string pool streams or the summary stream changes
  nothing in the listing — so no statement, `create_table`, `drop_table` or save does;
* the listed names are pairwise different, and a name is listed exactly when the stream exists.
-/
namespace MsiProofs.StreamsListing
open MsiModel MsiModel.Bytes MsiModel.Pkg MsiModel.StreamName MsiProofs.SaveOpen MsiProofs.StreamsMap
open MsiProofs.Synced

/-- what `Streams::next` yields for one entry of the container -/
def lists (e : Entry) : Option (List Char) :=
  if specialNames.contains e.name then none
  else
    let (n, isTable) := decode e.name
    if isTable then none else some n

theorem streams_eq (s : Pkg) : streams s = s.cont.filterMap lists := rfl

/-- the names a container written by the library holds: a special stream, a table stream of a valid
table name, a user stream of a valid name -/
def Canon (nm : List Char) : Prop :=
  nm ∈ specialNames ∨ (∃ tn, isValid tn true = true ∧ nm = encode tn true) ∨
  (∃ m, isValid m false = true ∧ nm = encode m false)

/-- every entry name is canonical, and no two entries share a key -/
structure CanonC (c : List Entry) : Prop where
  names : ∀ e ∈ c, Canon e.name
  keys : (c.map fun e => key e.name).Nodup

theorem lists_special (e : Entry) (h : e.name ∈ specialNames) : lists e = none := by
  unfold lists
  rw [if_pos (List.contains_iff_mem.mpr h)]

theorem lists_table (d : Bytes) (tn : List Char) : lists ⟨encode tn true, d⟩ = none := by
  unfold lists
  by_cases hs : specialNames.contains (encode tn true) = true
  · rw [if_pos hs]
  · rw [if_neg hs]
    have : decode (encode tn true) = (decodeAux (encodeAux tn), true) := by
      unfold encode decode
      simp
    simp only [this, if_true]

theorem lists_user (d : Bytes) (m : List Char) (h : isValid m false = true) : lists ⟨encode m false, d⟩ = some m := by
  unfold lists
  have hsep := MsiProofs.C11.separated m h
  have hns : ¬ (specialNames.contains (encode m false) = true) := fun hc => hsep.1 (List.contains_iff_mem.mp hc)
  rw [if_neg hns]
  simp only [MsiProofs.C11.decode_encode m h, Bool.false_eq_true, if_false]

/-- a user stream's key is not the key of a special stream -/
theorem user_ne_special (m : List Char) (h : isValid m false = true) (sp : List Char) (hsp : sp ∈ specialNames) :
    key (encode m false) ≠ key sp := by
  intro hk
  unfold key at hk
  have h2 := (Prod.mk.inj hk).2
  rw [map_upper_unpackable _ (user_encoded_unpackable m)] at h2
  have hp : ∀ s ∈ specialNames, ∃ c ∈ s.map Cont.upper, (toB64 c).isSome = true := by decide
  obtain ⟨c, hc, hpk⟩ := hp sp hsp
  rw [← h2] at hc
  rw [user_encoded_unpackable m c hc] at hpk
  cases hpk

/-- an entry of a canonical container is either not listed and not cfb-equal to any user stream
name, or the user stream of a valid name, listed under that name -/
theorem entry_kind (e : Entry) (h : Canon e.name) :
    (lists e = none ∧ ∀ n, isValid n false = true → key e.name ≠ key (encode n false)) ∨
    (∃ m, isValid m false = true ∧ e.name = encode m false ∧ lists e = some m) := by
  rcases h with hsp | ⟨tn, -, heq⟩ | ⟨m, hv, heq⟩
  · exact Or.inl ⟨lists_special e hsp, fun n hn hk => user_ne_special n hn _ hsp hk.symm⟩
  · refine Or.inl ⟨?_, fun n hn hk => ?_⟩
    · have := lists_table e.data tn
      rw [← heq] at this
      exact this
    · rw [heq] at hk
      exact user_ne_table n tn hn hk
  · refine Or.inr ⟨m, hv, heq, ?_⟩
    have := lists_user e.data m hv
    rw [← heq] at this
    exact this

/-- a listed name comes from exactly the entry that encodes it -/
theorem mem_listing (c : List Entry) (hc : CanonC c) (n : List Char) :
    n ∈ c.filterMap lists ↔ isValid n false = true ∧ ∃ e ∈ c, e.name = encode n false := by
  simp only [List.mem_filterMap]
  constructor
  · rintro ⟨e, he, hl⟩
    rcases entry_kind e (hc.names e he) with ⟨hnone, -⟩ | ⟨m, hv, heq, hsome⟩
    · rw [hnone] at hl; cases hl
    · rw [hsome] at hl
      cases hl
      exact ⟨hv, e, he, heq⟩
  · rintro ⟨hv, e, he, hname⟩
    refine ⟨e, he, ?_⟩
    have := lists_user e.data n hv
    rw [← hname] at this
    exact this

/-- the stream exists exactly when it is listed -/
theorem listed_iff_exists (c : List Entry) (hc : CanonC c) (n : List Char) (hv : isValid n false = true) :
    n ∈ c.filterMap lists ↔ Cont.exists_ c (encode n false) = true := by
  rw [mem_listing c hc n]
  unfold Cont.exists_ Cont.find
  rw [List.find?_isSome]
  constructor
  · rintro ⟨-, e, he, hname⟩
    exact ⟨e, he, by rw [hname]; exact nameEq_refl _⟩
  · rintro ⟨e, he, hk⟩
    refine ⟨hv, e, he, ?_⟩
    have hkey := (nameEq_iff _ _).mp hk
    rcases entry_kind e (hc.names e he) with ⟨-, hne⟩ | ⟨m, hmv, heq, -⟩
    · exact absurd hkey (hne n hv)
    · rw [heq] at hkey ⊢
      rw [user_stream_injective m n hmv hv hkey]

/-- **the listed names are pairwise different** -/
theorem listing_nodup (c : List Entry) (hc : CanonC c) : (c.filterMap lists).Nodup := by
  obtain ⟨hn, hk⟩ := hc
  induction c with
  | nil => simp
  | cons e rest ih =>
    simp only [List.map_cons, List.nodup_cons] at hk
    have hrest := ih (fun x hx => hn x (by simp [hx])) hk.2
    simp only [List.filterMap_cons]
    cases hl : lists e with
    | none => exact hrest
    | some m =>
      simp only [List.nodup_cons]
      refine ⟨?_, hrest⟩
      intro hm
      obtain ⟨-, e', he', hname'⟩ := (mem_listing rest ⟨fun x hx => hn x (by simp [hx]), hk.2⟩ m).mp hm
      -- `e` is the user entry of `m` too
      have hename : e.name = encode m false := by
        rcases entry_kind e (hn e (by simp)) with ⟨hnone, -⟩ | ⟨m', -, heq, hsome⟩
        · rw [hnone] at hl; cases hl
        · rw [hsome] at hl; cases hl; exact heq
      apply hk.1
      exact List.mem_map.mpr ⟨e', he', by rw [hname', hename]⟩

/-! ### writing -/

theorem filterMap_put_existing (c : List Entry) (n : List Char) (d : Bytes) :
    (c.map fun e => if Cont.nameEq e.name n then { e with data := d } else e).filterMap lists = c.filterMap lists := by
  rw [List.filterMap_map]
  congr 1
  funext e
  simp only [Function.comp]
  split <;> rfl

/-- **writing a stream**: a new name is appended to the listing, an existing one changes nothing -/
theorem listing_put_user (c : List Entry) (hc : CanonC c) (n : List Char) (hv : isValid n false = true) (d : Bytes) :
    (Cont.put c (encode n false) d).filterMap lists =
      if n ∈ c.filterMap lists then c.filterMap lists else c.filterMap lists ++ [n] := by
  unfold Cont.put
  by_cases hex : Cont.exists_ c (encode n false) = true
  · rw [if_pos hex, if_pos ((listed_iff_exists c hc n hv).mpr hex)]
    exact filterMap_put_existing c _ d
  · rw [if_neg hex, if_neg (fun h => hex ((listed_iff_exists c hc n hv).mp h))]
    rw [List.filterMap_append]
    simp [lists_user d n hv]

/-- writing any stream that is not a user stream leaves the listing alone -/
theorem listing_put_other (c : List Entry) (nm : List Char) (d : Bytes) (h : lists ⟨nm, d⟩ = none) :
    (Cont.put c nm d).filterMap lists = c.filterMap lists := by
  unfold Cont.put
  split
  · exact filterMap_put_existing c _ d
  · rw [List.filterMap_append]; simp [h]

/-- the keys after a write -/
theorem keys_put (c : List Entry) (hk : (c.map fun e => key e.name).Nodup) (nm : List Char) (d : Bytes) :
    ((Cont.put c nm d).map fun e => key e.name).Nodup := by
  unfold Cont.put
  split
  · have : ((c.map fun e => if Cont.nameEq e.name nm then { e with data := d } else e).map fun e => key e.name) =
        c.map fun e => key e.name := by
      rw [List.map_map]
      apply List.map_congr_left
      intro e _
      simp only [Function.comp]
      split <;> rfl
    rw [this]; exact hk
  · rename_i hne
    rw [List.map_append, List.nodup_append]
    refine ⟨hk, by simp, ?_⟩
    intro a ha b hb
    simp only [List.map_cons, List.map_nil, List.mem_singleton] at hb
    subst hb
    obtain ⟨e, he, rfl⟩ := List.mem_map.mp ha
    intro hkey
    apply hne
    unfold Cont.exists_ Cont.find
    rw [List.find?_isSome]
    exact ⟨e, he, (nameEq_iff _ _).mpr hkey⟩

theorem canon_put (c : List Entry) (hc : CanonC c) (nm : List Char) (hnm : Canon nm) (d : Bytes) :
    CanonC (Cont.put c nm d) := by
  refine ⟨?_, keys_put c hc.keys nm d⟩
  intro e he
  unfold Cont.put at he
  split at he
  · obtain ⟨e0, he0, rfl⟩ := List.mem_map.mp he
    split
    · exact hc.names e0 he0
    · exact hc.names e0 he0
  · rw [List.mem_append] at he
    rcases he with he | he
    · exact hc.names e he
    · simp only [List.mem_singleton] at he; subst he; exact hnm

/-! ### removing -/

theorem canon_remove (c : List Entry) (hc : CanonC c) (nm : List Char) : CanonC (Cont.remove c nm) := by
  unfold Cont.remove
  refine ⟨fun e he => hc.names e (List.mem_filter.mp he).1, ?_⟩
  exact hc.keys.sublist ((List.filter_sublist).map _)

/-- **removing a user stream removes exactly its name from the listing** -/
theorem listing_remove_user (c : List Entry) (hc : CanonC c) (n : List Char) (hv : isValid n false = true) :
    (Cont.remove c (encode n false)).filterMap lists = (c.filterMap lists).filter (· ≠ n) := by
  unfold Cont.remove
  obtain ⟨hn, -⟩ := hc
  induction c with
  | nil => rfl
  | cons e rest ih =>
    have ihr := ih (fun x hx => hn x (by simp [hx]))
    simp only [List.filter_cons, List.filterMap_cons]
    rcases entry_kind e (hn e (by simp)) with ⟨hl, hne⟩ | ⟨m, hmv, heq, hl⟩
    · have hk : Cont.nameEq e.name (encode n false) = false := (nameEq_false_iff _ _).mpr (hne n hv)
      simp only [hk, Bool.not_false, if_true, List.filterMap_cons, hl]
      exact ihr
    · by_cases hmn : m = n
      · subst hmn
        have hk : Cont.nameEq e.name (encode m false) = true := by rw [heq]; exact nameEq_refl _
        simp only [hk, Bool.not_true, Bool.false_eq_true, if_false, hl, List.filter_cons, ne_eq, not_true_eq_false,
          decide_false]
        exact ihr
      · have hk : Cont.nameEq e.name (encode n false) = false := by
          rw [heq]
          exact (nameEq_false_iff _ _).mpr (fun h => hmn (user_stream_injective m n hmv hv h))
        simp only [hk, Bool.not_false, if_true, List.filterMap_cons, hl, List.filter_cons, ne_eq, hmn,
          not_false_eq_true, decide_true]
        rw [ihr]

/-- removing a table stream or a special stream leaves the listing alone -/
theorem listing_remove_other (c : List Entry) (hc : CanonC c) (nm : List Char)
    (hnm : nm ∈ specialNames ∨ ∃ tn, nm = encode tn true) :
    (Cont.remove c nm).filterMap lists = c.filterMap lists := by
  unfold Cont.remove
  obtain ⟨hn, -⟩ := hc
  induction c with
  | nil => rfl
  | cons e rest ih =>
    have ihr := ih (fun x hx => hn x (by simp [hx]))
    simp only [List.filter_cons, List.filterMap_cons]
    by_cases hk : Cont.nameEq e.name nm = true
    · -- the removed entry is not a user entry, so it was not listed
      simp only [hk, Bool.not_true, Bool.false_eq_true, if_false]
      have hl : lists e = none := by
        rcases entry_kind e (hn e (by simp)) with ⟨hnone, -⟩ | ⟨m, hmv, heq, -⟩
        · exact hnone
        · exfalso
          have hkey := (nameEq_iff _ _).mp hk
          rw [heq] at hkey
          rcases hnm with hsp | ⟨tn, rfl⟩
          · exact user_ne_special m hmv _ hsp hkey
          · exact user_ne_table m tn hmv hkey.symm
      rw [hl]; exact ihr
    · have hkf : Cont.nameEq e.name nm = false := by simpa using hk
      simp only [hkf, Bool.not_false, if_true, List.filterMap_cons]
      rw [ihr]

/-! ### the package API -/

/-- **`write_stream`**: an accepted call lists the name (once), a refused one changes nothing -/
theorem streams_write (s : Pkg) (hc : CanonC s.cont) (n : List Char) (d : Bytes) :
    streams (writeStream s n d).1 =
      (if isValid n false = true ∧ n ∉ streams s then streams s ++ [n] else streams s) ∧
    CanonC (writeStream s n d).1.cont := by
  unfold writeStream
  by_cases hv : isValid n false = true
  · simp only [hv, Bool.not_true, Bool.false_eq_true, if_false, true_and]
    refine ⟨?_, canon_put _ hc _ (Or.inr (Or.inr ⟨n, hv, rfl⟩)) d⟩
    rw [streams_eq, streams_eq]
    show (Cont.put s.cont (encode n false) d).filterMap lists = _
    rw [listing_put_user s.cont hc n hv d]
    by_cases hm : n ∈ s.cont.filterMap lists
    · simp [hm]
    · simp [hm]
  · have hv' : isValid n false = false := by simpa using hv
    simp only [hv', Bool.not_false, if_true, Bool.false_eq_true, false_and, if_false]
    exact ⟨trivial, hc⟩

/-- **`remove_stream`**: an accepted call removes exactly that name from the listing -/
theorem streams_remove (s : Pkg) (hc : CanonC s.cont) (n : List Char) :
    streams (removeStream s n).1 =
      (if isValid n false = true then (streams s).filter (· ≠ n) else streams s) ∧
    CanonC (removeStream s n).1.cont := by
  unfold removeStream
  by_cases hv : isValid n false = true
  · simp only [hv, Bool.not_true, Bool.false_eq_true, if_false, if_true]
    by_cases hex : Cont.exists_ s.cont (encode n false) = true
    · simp only [hex, Bool.not_true, Bool.false_eq_true, if_false]
      refine ⟨?_, canon_remove _ hc _⟩
      rw [streams_eq, streams_eq]
      exact listing_remove_user s.cont hc n hv
    · have : (!Cont.exists_ s.cont (encode n false)) = true := by simpa using hex
      simp only [this, if_true]
      refine ⟨?_, hc⟩
      -- nothing to remove: the name is not listed
      have hnot : n ∉ streams s := fun h => hex ((listed_iff_exists s.cont hc n hv).mp h)
      rw [List.filter_eq_self.mpr]
      intro a ha
      simp only [ne_eq, decide_eq_true_eq]
      exact fun e => hnot (e ▸ ha)
  · have hv' : isValid n false = false := by simpa using hv
    simp only [hv', Bool.not_false, if_true, Bool.false_eq_true, if_false]
    exact ⟨trivial, hc⟩

/-- writing a table's rows changes nothing in the listing -/
theorem streams_storeRows (s : Pkg) (hc : CanonC s.cont) (t : Table) (hv : isValid t.name true = true)
    (rows : List (List Cell)) :
    streams (storeRows s t rows).1 = streams s ∧ CanonC (storeRows s t rows).1.cont := by
  unfold storeRows
  cases t.writeRows rows with
  | ok bs =>
    exact ⟨listing_put_other s.cont _ bs (lists_table bs t.name), canon_put _ hc _ (Or.inr (Or.inl ⟨t.name, hv, rfl⟩)) bs⟩
  | err k =>
    exact ⟨listing_put_other s.cont _ [] (lists_table [] t.name), canon_put _ hc _ (Or.inr (Or.inl ⟨t.name, hv, rfl⟩)) []⟩
  | panic w => exact ⟨rfl, hc⟩



open MsiProofs.Lifecycle

/-! ### every call of the API -/

/-- what the listing needs of a package: a canonical container and valid table names -/
structure Listable (s : Pkg) : Prop where
  canon : CanonC s.cont
  tables : ∀ t ∈ s.tables, isValid t.name true = true

theorem listable_setFinisher (s : Pkg) (b : Bool) (h : Listable s) : Listable { s with finisher := b } := ⟨h.canon, h.tables⟩

/-- a statement changes nothing in the listing -/
theorem shape_streams (s s' : Pkg) (tn : List Char) (hs : DmlShape s s' tn) (h : Listable s) :
    streams s' = streams s ∧ Listable s' := by
  rcases hs with rfl | ⟨t, pool', rows, hf, -, rfl⟩
  · exact ⟨rfl, h⟩
  · have ht := findTable_mem hf
    have := streams_storeRows { s with pool := pool' } h.canon t (h.tables t ht) rows
    refine ⟨this.1, this.2, ?_⟩
    unfold storeRows
    cases t.writeRows rows <;> exact h.tables

theorem insertRows_streams (s : Pkg) (h : Listable s) (tn : List Char) (R : List (List Value)) :
    streams (insertRows s tn R).1 = streams s ∧ Listable (insertRows s tn R).1 :=
  shape_streams { s with finisher := true } _ tn (insertExec_shape { s with finisher := true } tn R) (listable_setFinisher s true h)

theorem deleteRows_streams (s : Pkg) (h : Listable s) (tn : List Char) (cond : Option Ast) :
    streams (deleteRows s tn cond).1 = streams s ∧ Listable (deleteRows s tn cond).1 :=
  shape_streams { s with finisher := true } _ tn (deleteExec_shape { s with finisher := true } tn cond) (listable_setFinisher s true h)

/-- `create_table` changes nothing in the listing -/
theorem createTable_streams (s : Pkg) (h : Listable s) (name : List Char) (cols : List Column) :
    streams (createTable s name cols).1 = streams s ∧ Listable (createTable s name cols).1 := by
  unfold createTable
  cases hce : createError s name cols with
  | some k => exact ⟨rfl, h⟩
  | none =>
    simp only
    cases hcr : catalogRoom s name cols with
    | err k => exact ⟨rfl, h⟩
    | panic w => exact ⟨rfl, h⟩
    | ok u =>
    cases u
    simp only
    obtain ⟨hv, -⟩ := createError_name s name cols hce
    simp only [Table.isValidName, Bool.and_eq_true] at hv
    obtain ⟨e1, g1⟩ := insertRows_streams s h Gen.nameColumns.toList (catalogRowsColumns name cols)
    generalize hr1 : insertRows s Gen.nameColumns.toList (catalogRowsColumns name cols) = r1 at e1 g1
    obtain ⟨s1, res1⟩ := r1
    cases res1 with
    | err k => exact ⟨e1, g1⟩
    | panic w => exact ⟨e1, g1⟩
    | ok u =>
      cases u
      simp only at e1 g1 ⊢
      obtain ⟨e2, g2⟩ := insertRows_streams s1 g1 Gen.nameTables.toList [[.str name]]
      generalize hr2 : insertRows s1 Gen.nameTables.toList [[.str name]] = r2 at e2 g2
      obtain ⟨s2, res2⟩ := r2
      cases res2 with
      | err k => exact ⟨e2.trans e1, g2⟩
      | panic w => exact ⟨e2.trans e1, g2⟩
      | ok u =>
        cases u
        simp only at e2 g2 ⊢
        have g3 : Listable { s2 with tables := insertTable s2.tables ⟨name, cols, s2.pool.longRefs⟩ } := by
          refine ⟨g2.canon, ?_⟩
          intro x hx
          rcases insertTable_mem _ _ _ hx with rfl | hx
          · exact hv.2
          · exact g2.tables x hx
        obtain ⟨e4, g4⟩ := insertRows_streams _ g3 Gen.nameValidation.toList (catalogRowsValidation name cols)
        exact ⟨e4.trans (e2.trans e1), g4⟩

/-- `drop_table` changes nothing in the listing -/
theorem dropTable_streams (s : Pkg) (h : Listable s) (name : List Char) :
    streams (dropTable s name).1 = streams s ∧ Listable (dropTable s name).1 := by
  unfold dropTable
  split; · exact ⟨rfl, h⟩
  split; · exact ⟨rfl, h⟩
  cases hf : s.findTable name with
  | none => exact ⟨rfl, h⟩
  | some t =>
    simp only
    have htm := findTable_mem hf
    have tail : ∀ s1 : Pkg, Listable s1 → streams s1 = streams s →
        streams (match deleteValidation s1 name with
          | (s2, .ok ()) =>
            match deleteRows s2 Gen.nameColumns.toList (eqStr "Table" name) with
            | (s3, .ok ()) =>
              match deleteRows s3 Gen.nameTables.toList (eqStr "Name" name) with
              | (s4, .ok ()) => ({ s4 with tables := s4.tables.filter (·.name != name) }, Res.ok ())
              | r => r
            | r => r
          | r => r).1 = streams s ∧
        Listable (match deleteValidation s1 name with
          | (s2, .ok ()) =>
            match deleteRows s2 Gen.nameColumns.toList (eqStr "Table" name) with
            | (s3, .ok ()) =>
              match deleteRows s3 Gen.nameTables.toList (eqStr "Name" name) with
              | (s4, .ok ()) => ({ s4 with tables := s4.tables.filter (·.name != name) }, Res.ok ())
              | r => r
            | r => r
          | r => r).1 := by
      intro s1 h1 e0
      have eg2 : streams (deleteValidation s1 name).1 = streams s1 ∧ Listable (deleteValidation s1 name).1 := by
        rcases MsiProofs.DeleteValidation.deleteValidation_cases s1 name with e | e <;> rw [e]
        · exact deleteRows_streams s1 h1 Gen.nameValidation.toList (eqStr "Table" name)
        · exact ⟨rfl, h1⟩
      obtain ⟨e2, g2⟩ := eg2
      generalize hr2 : deleteValidation s1 name = r2 at e2 g2
      obtain ⟨s2, res2⟩ := r2
      cases res2 with
      | err k => exact ⟨e2.trans e0, g2⟩
      | panic w => exact ⟨e2.trans e0, g2⟩
      | ok u =>
        cases u
        simp only at e2 g2 ⊢
        obtain ⟨e3, g3⟩ := deleteRows_streams s2 g2 Gen.nameColumns.toList (eqStr "Table" name)
        generalize hr3 : deleteRows s2 Gen.nameColumns.toList (eqStr "Table" name) = r3 at e3 g3
        obtain ⟨s3, res3⟩ := r3
        cases res3 with
        | err k => exact ⟨e3.trans (e2.trans e0), g3⟩
        | panic w => exact ⟨e3.trans (e2.trans e0), g3⟩
        | ok u =>
          cases u
          simp only at e3 g3 ⊢
          obtain ⟨e4, g4⟩ := deleteRows_streams s3 g3 Gen.nameTables.toList (eqStr "Name" name)
          generalize hr4 : deleteRows s3 Gen.nameTables.toList (eqStr "Name" name) = r4 at e4 g4
          obtain ⟨s4, res4⟩ := r4
          cases res4 with
          | err k => exact ⟨e4.trans (e3.trans (e2.trans e0)), g4⟩
          | panic w => exact ⟨e4.trans (e3.trans (e2.trans e0)), g4⟩
          | ok u =>
            cases u
            simp only at e4 g4 ⊢
            exact ⟨e4.trans (e3.trans (e2.trans e0)),
              ⟨g4.canon, fun x hx => g4.tables x (List.mem_filter.mp hx).1⟩⟩
    by_cases hex : Cont.exists_ s.cont t.streamName = true
    · rw [if_pos hex]
      cases hl : s.loadRows t with
      | err k => exact ⟨rfl, h⟩
      | panic w => exact ⟨rfl, h⟩
      | ok rows =>
        apply tail
        · exact ⟨canon_remove _ h.canon _, h.tables⟩
        · rw [streams_eq, streams_eq]
          exact listing_remove_other s.cont h.canon _ (Or.inr ⟨t.name, rfl⟩)
    · rw [if_neg hex]
      exact tail s h rfl

theorem special_summary : sSummary ∈ specialNames := by decide
theorem pool_names_valid : isValid Gen.nameStringPool.toList true = true ∧ isValid Gen.nameStringData.toList true = true := by
  constructor <;> decide

/-- a save changes nothing in the listing -/
theorem finish_streams (s : Pkg) (h : Listable s) : streams (finish s).1 = streams s ∧ Listable (finish s).1 := by
  have hsum : ∀ (c : List Entry) (d : Bytes), CanonC c →
      (Cont.put c sSummary d).filterMap lists = c.filterMap lists ∧ CanonC (Cont.put c sSummary d) :=
    fun c d hc => ⟨listing_put_other c _ d (lists_special ⟨sSummary, d⟩ special_summary),
      canon_put c hc _ (Or.inl special_summary) d⟩
  have hpool : ∀ (c : List Entry) (pb db : Bytes), CanonC c →
      (Cont.put (Cont.put c sPool pb) sData db).filterMap lists = c.filterMap lists ∧
      CanonC (Cont.put (Cont.put c sPool pb) sData db) := by
    intro c pb db hc
    have h1 := listing_put_other c sPool pb (lists_table pb Gen.nameStringPool.toList)
    have c1 := canon_put c hc sPool (Or.inr (Or.inl ⟨_, pool_names_valid.1, rfl⟩)) pb
    have h2 := listing_put_other (Cont.put c sPool pb) sData db (lists_table db Gen.nameStringData.toList)
    exact ⟨h2.trans h1, canon_put _ c1 sData (Or.inr (Or.inl ⟨_, pool_names_valid.2, rfl⟩)) db⟩
  unfold finish
  cases s.summaryModified
  · simp only [Bool.false_eq_true, if_false]
    cases s.pool.modified
    · exact ⟨rfl, h⟩
    · simp only [if_true]
      cases s.pool.writePool <;> cases s.pool.writeData <;>
        first
          | exact ⟨rfl, h⟩
          | exact ⟨(hpool s.cont _ _ h.canon).1, (hpool s.cont _ _ h.canon).2, h.tables⟩
  · simp only [if_true]
    cases s.summary.write with
    | err k => exact ⟨rfl, h⟩
    | panic w => exact ⟨rfl, h⟩
    | ok bs =>
      simp only
      obtain ⟨l1, c1⟩ := hsum s.cont bs h.canon
      cases s.pool.modified
      · exact ⟨l1, c1, h.tables⟩
      · simp only [if_true]
        cases s.pool.writePool <;> cases s.pool.writeData <;>
          first
            | exact ⟨l1, c1, h.tables⟩
            | exact ⟨(hpool _ _ _ c1).1.trans l1, (hpool _ _ _ c1).2, h.tables⟩

/-- the listing after a call, given the listing before: only stream writes and removals change it -/
def specNames (N : List (List Char)) : Step → List (List Char)
  | .writeStream n _ => if isValid n false = true ∧ n ∉ N then N ++ [n] else N
  | .removeStream n => if isValid n false = true then N.filter (· ≠ n) else N
  | _ => N

theorem open_cont' (pt : Option Nat) (c : List Entry) (s2 : Pkg) (h : open_ pt c = .ok s2) : s2.cont = c := by
  unfold open_ at h
  cases ho : openCore pt c with
  | ok v => obtain ⟨a, b, c', d⟩ := v; rw [ho] at h; cases h; rfl
  | err k => rw [ho] at h; cases h
  | panic w => rw [ho] at h; cases h

theorem special_sig : Gen.snDigitalSignature.toList ∈ specialNames ∧ Gen.snMsiDigitalSignatureEx.toList ∈ specialNames := by
  constructor <;> decide

/-- **every call of the API does to the stream listing exactly what the specification says**:
in a state whose container is canonical and whose table names are valid, the listing after a call
is `specNames` of the listing before, and the container stays canonical -/
theorem step_streams (s : Pkg) (hc : CanonC s.cont) (hv : ∀ t ∈ s.tables, isValid t.name true = true) (st : Step) :
    streams (st.run s) = specNames (streams s) st ∧ CanonC (st.run s).cont := by
  have h : Listable s := ⟨hc, hv⟩
  cases st with
  | dml op =>
    have := shape_streams { s with finisher := true } _ _
      (MsiProofs.FullHistory.op_shape { s with finisher := true } op) (listable_setFinisher s true h)
    exact ⟨this.1, this.2.canon⟩
  | create n c => exact ⟨(createTable_streams s h n c).1, (createTable_streams s h n c).2.canon⟩
  | drop n => exact ⟨(dropTable_streams s h n).1, (dropTable_streams s h n).2.canon⟩
  | writeStream n d => exact streams_write s hc n d
  | removeStream n => exact streams_remove s hc n
  | removeSignature =>
    show streams (removeDigitalSignature s) = streams s ∧ CanonC (removeDigitalSignature s).cont
    have step : ∀ (c : List Entry) (nm : List Char), CanonC c → nm ∈ specialNames →
        (if Cont.exists_ c nm then Cont.remove c nm else c).filterMap lists = c.filterMap lists ∧
        CanonC (if Cont.exists_ c nm then Cont.remove c nm else c) := by
      intro c nm hcc hsp
      split
      · exact ⟨listing_remove_other c hcc nm (Or.inl hsp), canon_remove c hcc nm⟩
      · exact ⟨rfl, hcc⟩
    obtain ⟨l1, c1⟩ := step s.cont _ hc special_sig.1
    obtain ⟨l2, c2⟩ := step _ _ c1 special_sig.2
    refine ⟨?_, c2⟩
    rw [streams_eq, streams_eq]
    exact l2.trans l1
  | setSummary f => exact ⟨rfl, hc⟩
  | setCodepage cp => exact ⟨rfl, hc⟩
  | save =>
    show streams (flush s).1 = streams s ∧ CanonC (flush s).1.cont
    unfold flush
    split
    · have := finish_streams _ (listable_setFinisher s false h)
      exact ⟨this.1, this.2.canon⟩
    · exact ⟨rfl, hc⟩
  | reopen =>
    show streams (match open_ (some s.ptype) s.cont with | .ok s2 => s2 | _ => s) = streams s ∧
      CanonC (match open_ (some s.ptype) s.cont with | .ok s2 => s2 | _ => s).cont
    cases ho : open_ (some s.ptype) s.cont with
    | ok s2 =>
      have := open_cont' _ _ s2 ho
      simp only [streams_eq, this]
      exact ⟨trivial, hc⟩
    | err k => exact ⟨rfl, hc⟩
    | panic w => exact ⟨rfl, hc⟩

/-- the listing the specification predicts after a history -/
def specAll (N : List (List Char)) (steps : List Step) : List (List Char) := steps.foldl specNames N

/-- **the stream listing over a whole life** (property C11): from a freshly created package, after
any admissible history of calls -- statements, `create_table`, `drop_table`, stream writes and
removals, summary and code-page changes, saves and reopenings -- `streams()` is exactly what the
specification computes from the calls: the accepted names written and not since removed, each
once, in order of first writing; nothing else in the file is ever listed -/
theorem history_streams (slack : Nat → Nat) (steps : List Step) : ∀ (s : Pkg) (tabs : List Table),
    MsiProofs.CreateTable.Full slack s tabs → MsiProofs.FullHistory.NoOrphans s → MsiProofs.ValidCells.ValidAll s → CanonC s.cont →
    MsiProofs.Lifecycle2.AdmissibleW s steps →
    streams (runAll s steps) = specAll (streams s) steps ∧ CanonC (runAll s steps).cont := by
  induction steps with
  | nil => intro s tabs _ _ _ hc _; exact ⟨rfl, hc⟩
  | cons st rest ih =>
    intro s tabs hF hN hV hc ha
    obtain ⟨tabs', hF', hN', hV'⟩ := MsiProofs.Lifecycle2.step_all slack s tabs hF hN hV st ha.1
    obtain ⟨e, hc'⟩ := step_streams s hc hF.core.valid_all st
    obtain ⟨e2, hc2⟩ := ih _ tabs' hF' hN' hV' hc' ha.2
    refine ⟨?_, hc2⟩
    show streams (runAll (st.run s) rest) = specAll (specNames (streams s) st) rest
    rw [e2, e]


theorem canon_nil : CanonC [] := ⟨fun _ h => (nomatch h), List.nodup_nil⟩

/-- **from a freshly created package**: the listing after any history of calls is exactly what
the specification computes from the calls, starting from the empty listing -/
theorem created_streams (ptype : Nat) (summary : PropSet) (s0 : Pkg)
    (hc : createTable (MsiProofs.Created.base ptype summary) Gen.nameValidation.toList Catalog.validationColumns = (s0, .ok ()))
    (steps : List Step) (ha : MsiProofs.Lifecycle2.AdmissibleW s0 steps) :
    streams (runAll s0 steps) = specAll [] steps := by
  obtain ⟨hF0, hN0⟩ := MsiProofs.Created.created_full ptype summary s0 hc
  have hV0 := MsiProofs.RelationalLife.created_valid ptype summary s0 hc
  have hb : Listable (MsiProofs.Created.base ptype summary) := by
    refine ⟨canon_nil, ?_⟩
    intro t ht
    rw [MsiProofs.Created.base_tables] at ht
    simp only [List.mem_cons, List.not_mem_nil, or_false] at ht
    rcases ht with rfl | rfl
    · exact (MsiProofs.CreateTable.catalog_valid false).1
    · exact (MsiProofs.CreateTable.catalog_valid false).2
  obtain ⟨e0, l0⟩ := createTable_streams _ hb Gen.nameValidation.toList Catalog.validationColumns
  rw [hc] at e0 l0
  have hs0 : streams s0 = [] := e0
  have := (history_streams _ steps s0 _ hF0 hN0 hV0 l0.canon ha).1
  rw [this, hs0]

end MsiProofs.StreamsListing
