import MsiProofs.Lemmas.PropSetCodec
/-
The property-set READER on any layout (property C02: files written by other implementations).
The library's own writer stores the offset table in ascending id order, the values in the same
order right behind the table, the section right behind the header.  Other writers need not.  Here
the reader is characterised for ANY byte string whose header, section head and offset table are
where the format says -- the table entries in any order, the values anywhere in the stream, any
gaps: the result is the properties sorted by id, each read at its own offset; and it does not
depend on the order of the table.
-/
set_option linter.unusedSimpArgs false
namespace MsiProofs.PropSetLayout
open MsiModel MsiModel.Bytes MsiProofs.Codec MsiProofs.PropSetCodec

/-- the table as the reader assembles it: entries inserted one by one into an id-sorted list -/
def sortEnts (ents : List (Nat × Nat)) : List (Nat × Nat) :=
  ents.foldl (fun acc e => PropSet.insertSortedNat e.1 e.2 acc) []

def tableBytes (ents : List (Nat × Nat)) : Bytes := ents.flatMap fun e => u32le e.1 ++ u32le e.2

theorem insertSortedNat_ids (k v : Nat) (acc : List (Nat × Nat)) :
    ∀ x, x ∈ PropSet.insertSortedNat k v acc ↔ x = (k, v) ∨ x ∈ acc := by
  induction acc with
  | nil => intro x; simp [PropSet.insertSortedNat]
  | cons a rest ih =>
    intro x
    obtain ⟨ak, av⟩ := a
    unfold PropSet.insertSortedNat
    split
    · simp
    · simp only [List.mem_cons, ih x]
      constructor
      · rintro (h | h | h)
        · exact Or.inr (Or.inl h)
        · exact Or.inl h
        · exact Or.inr (Or.inr h)
      · rintro (h | h | h)
        · exact Or.inr (Or.inl h)
        · exact Or.inl h
        · exact Or.inr (Or.inr h)

theorem insertSortedNat_sorted (k v : Nat) (acc : List (Nat × Nat)) (h : (acc.map (·.1)).Pairwise (· < ·))
    (hk : ∀ a ∈ acc, a.1 ≠ k) : ((PropSet.insertSortedNat k v acc).map (·.1)).Pairwise (· < ·) := by
  induction acc with
  | nil => simp [PropSet.insertSortedNat]
  | cons a rest ih =>
    obtain ⟨ak, av⟩ := a
    simp only [List.map_cons, List.pairwise_cons] at h
    unfold PropSet.insertSortedNat
    split
    · rename_i hlt
      simp only [List.map_cons, List.pairwise_cons]
      refine ⟨?_, h.1, h.2⟩
      intro b hb
      simp only [List.mem_cons] at hb
      rcases hb with rfl | hb
      · exact hlt
      · have := h.1 b hb; omega
    · rename_i hge
      have hne : ak ≠ k := hk (ak, av) (by simp)
      simp only [List.map_cons, List.pairwise_cons]
      refine ⟨?_, ih h.2 (fun x hx => hk x (by simp [hx]))⟩
      intro b hb
      obtain ⟨x, hx, rfl⟩ := List.mem_map.mp hb
      rcases (insertSortedNat_ids k v rest x).mp hx with rfl | hx
      · show ak < k; omega
      · exact h.1 x.1 (List.mem_map.mpr ⟨x, hx, rfl⟩)

theorem insertSortedNat_perm (k v : Nat) (acc : List (Nat × Nat)) :
    List.Perm ((PropSet.insertSortedNat k v acc).map (·.1)) (k :: acc.map (·.1)) := by
  induction acc with
  | nil => simp [PropSet.insertSortedNat]
  | cons a r ihr =>
    obtain ⟨ak, av⟩ := a
    unfold PropSet.insertSortedNat
    split
    · simp
    · simp only [List.map_cons]
      exact (ihr.cons ak).trans (List.Perm.swap _ _ _)

theorem nodup_step (e : Nat × Nat) (acc rest : List (Nat × Nat)) (hnd : ((acc ++ e :: rest).map (·.1)).Nodup) :
    ((PropSet.insertSortedNat e.1 e.2 acc ++ rest).map (·.1)).Nodup := by
  have hperm : List.Perm ((PropSet.insertSortedNat e.1 e.2 acc ++ rest).map (·.1)) ((acc ++ e :: rest).map (·.1)) := by
    simp only [List.map_append, List.map_cons]
    exact ((insertSortedNat_perm e.1 e.2 acc).append_right _).trans (by
      simp only [List.cons_append]
      exact List.perm_middle.symm)
  exact hperm.nodup_iff.mpr hnd

/-- what the reader's table holds after the entries `ents` on top of `acc` -/
theorem foldl_spec (ents : List (Nat × Nat)) : ∀ (acc : List (Nat × Nat)),
    (acc.map (·.1)).Pairwise (· < ·) → ((acc ++ ents).map (·.1)).Nodup →
    let r := ents.foldl (fun acc e => PropSet.insertSortedNat e.1 e.2 acc) acc
    (r.map (·.1)).Pairwise (· < ·) ∧ ∀ x, x ∈ r ↔ x ∈ acc ∨ x ∈ ents := by
  induction ents with
  | nil => intro acc h _; exact ⟨h, fun x => by simp⟩
  | cons e rest ih =>
    intro acc h hnd
    have hk : ∀ a ∈ acc, a.1 ≠ e.1 := by
      intro a ha heq
      rw [List.map_append, List.nodup_append] at hnd
      exact hnd.2.2 a.1 (List.mem_map.mpr ⟨a, ha, rfl⟩) e.1 (by simp) heq
    have h1 := insertSortedNat_sorted e.1 e.2 acc h hk
    have hnd' := nodup_step e acc rest hnd
    obtain ⟨s, m⟩ := ih (PropSet.insertSortedNat e.1 e.2 acc) h1 hnd'
    refine ⟨s, ?_⟩
    intro x
    rw [List.foldl_cons, m x, insertSortedNat_ids]
    simp only [List.mem_cons]
    constructor
    · rintro ((rfl | h) | h)
      · exact Or.inr (Or.inl rfl)
      · exact Or.inl h
      · exact Or.inr (Or.inr h)
    · rintro (h | rfl | h)
      · exact Or.inl (Or.inr h)
      · exact Or.inl (Or.inl rfl)
      · exact Or.inr h

/-- the assembled table: ascending by id, with exactly the entries of the file's table -/
theorem sortEnts_spec (ents : List (Nat × Nat)) (hnd : (ents.map (·.1)).Nodup) :
    ((sortEnts ents).map (·.1)).Pairwise (· < ·) ∧ ∀ x, x ∈ sortEnts ents ↔ x ∈ ents := by
  have := foldl_spec ents [] (by simp) (by simpa using hnd)
  exact ⟨this.1, fun x => by rw [sortEnts, this.2 x]; simp⟩

/-- two id-ascending lists with the same members are the same list -/
theorem sorted_unique : ∀ (a b : List (Nat × Nat)), (a.map (·.1)).Pairwise (· < ·) → (b.map (·.1)).Pairwise (· < ·) →
    (∀ x, x ∈ a ↔ x ∈ b) → a = b := by
  intro a
  induction a with
  | nil =>
    intro b _ _ h
    cases b with
    | nil => rfl
    | cons y _ => exact absurd ((h y).mpr (by simp)) (by simp)
  | cons x xs ih =>
    intro b ha hb h
    cases b with
    | nil => exact absurd ((h x).mp (by simp)) (by simp)
    | cons y ys =>
      simp only [List.map_cons, List.pairwise_cons] at ha hb
      have hxy : x = y := by
        have hx := (h x).mp (by simp)
        have hy := (h y).mpr (by simp)
        simp only [List.mem_cons] at hx hy
        rcases hx with rfl | hx
        · rfl
        · rcases hy with rfl | hy
          · rfl
          · have l1 := hb.1 x.1 (List.mem_map.mpr ⟨x, hx, rfl⟩)
            have l2 := ha.1 y.1 (List.mem_map.mpr ⟨y, hy, rfl⟩)
            omega
      subst hxy
      congr 1
      apply ih ys ha.2 hb.2
      intro z
      constructor
      · intro hz
        have := (h z).mp (by simp [hz])
        simp only [List.mem_cons] at this
        rcases this with rfl | h'
        · have := ha.1 z.1 (List.mem_map.mpr ⟨z, hz, rfl⟩); omega
        · exact h'
      · intro hz
        have := (h z).mpr (by simp [hz])
        simp only [List.mem_cons] at this
        rcases this with rfl | h'
        · have := hb.1 z.1 (List.mem_map.mpr ⟨z, hz, rfl⟩); omega
        · exact h'

/-- **the order of the offset table does not matter** -/
theorem sortEnts_perm (a b : List (Nat × Nat)) (hnd : (a.map (·.1)).Nodup) (hp : a.Perm b) :
    sortEnts a = sortEnts b := by
  have hb : (b.map (·.1)).Nodup := (hp.map _).nodup_iff.mp hnd
  obtain ⟨sa, ma⟩ := sortEnts_spec a hnd
  obtain ⟨sb, mb⟩ := sortEnts_spec b hb
  exact sorted_unique _ _ sa sb (fun x => by rw [ma, mb]; exact hp.mem_iff)

/-- the reader's pass over the table bytes, entries in any order -/
theorem readOffsets_any (ents : List (Nat × Nat)) : ∀ (rest : Bytes) (acc : List (Nat × Nat)),
    ((acc ++ ents).map (·.1)).Nodup → (∀ e ∈ ents, e.1 < 4294967296 ∧ e.2 < 4294967296) →
    PropSet.readOffsets ents.length (tableBytes ents ++ rest) acc =
      .ok (ents.foldl (fun acc e => PropSet.insertSortedNat e.1 e.2 acc) acc) := by
  induction ents with
  | nil => intro rest acc _ _; simp [PropSet.readOffsets, pure, tableBytes]
  | cons e ents ih =>
    intro rest acc hnd hb
    simp only [List.length_cons, tableBytes, List.flatMap_cons, List.append_assoc, PropSet.readOffsets]
    rw [readU32_u32le _ (hb e (by simp)).1]
    simp only [bind, Res.bind]
    rw [readU32_u32le _ (hb e (by simp)).2]
    simp only [Res.bind]
    have hany : acc.any (fun x => x.1 == e.1) = false := by
      rw [List.any_eq_false]
      intro a ha
      rw [List.map_append, List.nodup_append] at hnd
      have := hnd.2.2 a.1 (List.mem_map.mpr ⟨a, ha, rfl⟩) e.1 (by simp)
      simpa using this
    simp only [hany, Bool.false_eq_true, if_false, List.foldl_cons]
    have hnd' := nodup_step e acc ents hnd
    exact ih rest _ hnd' (fun x hx => hb x (by simp [hx]))

/-- the parts of a property-set stream, wherever they lie -/
structure Layout where
  ver : Nat
  osVersion : Nat
  os : Nat
  clsid : Bytes
  reserved : Nat
  fmtid : Bytes
  sectionOffset : Nat
  size : Nat
  ents : List (Nat × Nat)

def Layout.header (L : Layout) : Bytes :=
  u16le Gen.propsetByteOrderMark ++ u16le L.ver ++ u16le L.osVersion ++ u16le L.os ++ L.clsid ++ u32le L.reserved ++
    L.fmtid ++ u32le L.sectionOffset

def Layout.sectionHead (L : Layout) : Bytes := u32le L.size ++ u32le L.ents.length ++ tableBytes L.ents

/-- `data` carries the header at its start and the section head (size, count, offset table in
any order) at the section offset; everything else -- where the values lie, what lies between
them -- is left open -/
structure Fits (data : Bytes) (L : Layout) : Prop where
  header : ∃ r, data = L.header ++ r
  sect : L.sectionOffset ≤ data.length ∧ ∃ r, data.drop L.sectionOffset = L.sectionHead ++ r
  ver : L.ver ≤ 1
  os : L.os ≤ 2
  osVersion : L.osVersion < 65536
  reserved : 1 ≤ L.reserved ∧ L.reserved < 4294967296
  clsid : L.clsid.length = 16
  fmtid : L.fmtid.length = 16
  sectionOffset : L.sectionOffset < 4294967296
  size : L.size < 4294967296
  count : L.ents.length < 4294967296
  nodup : (L.ents.map (·.1)).Nodup
  bounds : ∀ e ∈ L.ents, e.1 < 4294967296 ∧ e.2 < 4294967296

/-- **the reader on any layout**: header fields as stored; the properties are those of the offset
table sorted by id, each value read at its own offset (under the code page that property 1, read
at its offset, names) -/
theorem read_layout (data : Bytes) (L : Layout) (h : Fits data L) :
    PropSet.read data =
      (PropSet.readCodepage data L.sectionOffset (sortEnts L.ents)).bind fun cp =>
      (PropSet.readVals data L.ver L.sectionOffset cp (sortEnts L.ents) []).bind fun props =>
      .ok ⟨L.os, L.osVersion, L.clsid, L.fmtid, cp, props⟩ := by
  obtain ⟨r, hr⟩ := h.header
  obtain ⟨hso, r2, hr2⟩ := h.sect
  have bom : Gen.propsetByteOrderMark < 65536 := by decide
  unfold PropSet.read
  rw [hr]
  simp only [Layout.header, List.append_assoc]
  rw [readU16_u16le _ bom]
  simp only [bind, Res.bind, ne_eq, not_true_eq_false, if_false]
  rw [readU16_u16le _ (by have := h.ver; omega)]
  simp only [Res.bind]
  rw [if_neg (by have := h.ver; omega)]
  rw [readU16_u16le _ h.osVersion]
  simp only [Res.bind]
  rw [readU16_u16le _ (by have := h.os; omega)]
  simp only [Res.bind]
  rw [if_neg (by have := h.os; omega)]
  rw [readExact_append _ _ 16 h.clsid]
  simp only [Res.bind]
  rw [readU32_u32le _ h.reserved.2]
  simp only [Res.bind]
  rw [if_neg (by have := h.reserved.1; omega)]
  rw [readExact_append _ _ 16 h.fmtid]
  simp only [Res.bind]
  rw [readU32_u32le _ h.sectionOffset]
  simp only [Res.bind]
  -- back to `data`
  have hd : u16le Gen.propsetByteOrderMark ++ (u16le L.ver ++ (u16le L.osVersion ++ (u16le L.os ++ (L.clsid ++
      (u32le L.reserved ++ (L.fmtid ++ (u32le L.sectionOffset ++ r))))))) = data := by
    rw [hr]; simp only [Layout.header, List.append_assoc]
  rw [hd]
  have hseek : PropSet.seekTo data L.sectionOffset = .ok (L.sectionHead ++ r2) := by
    unfold PropSet.seekTo
    rw [if_neg (by omega), hr2]
  rw [hseek]
  simp only [Res.bind, Layout.sectionHead, List.append_assoc]
  rw [readU32_u32le _ h.size]
  simp only [Res.bind]
  rw [readU32_u32le _ h.count]
  simp only [Res.bind]
  rw [readOffsets_any L.ents r2 [] (by simpa using h.nodup) h.bounds]
  simp only [Res.bind]
  rfl

/-- the value reads depend on the stream only through what lies at the listed offsets -/
theorem readVals_congr (data data' : Bytes) (ver so cp : Nat) : ∀ (offs : List (Nat × Nat)) (acc : List (Nat × PropVal)),
    (∀ e ∈ offs, PropSet.seekTo data (so + e.2) = PropSet.seekTo data' (so + e.2)) →
    PropSet.readVals data ver so cp offs acc = PropSet.readVals data' ver so cp offs acc := by
  intro offs
  induction offs with
  | nil => intro acc _; rfl
  | cons e rest ih =>
    intro acc h
    obtain ⟨name, off⟩ := e
    unfold PropSet.readVals
    rw [h (name, off) (by simp)]
    cases PropSet.seekTo data' (so + off) with
    | err k => rfl
    | panic w => rfl
    | ok here =>
      simp only [bind, Res.bind]
      cases PropVal.read cp here with
      | err k => rfl
      | panic w => rfl
      | ok v =>
        simp only [Res.bind]
        split
        · rfl
        · exact ih _ (fun x hx => h x (by simp [hx]))

theorem readCodepage_congr (data data' : Bytes) (so : Nat) (offs : List (Nat × Nat))
    (h : ∀ e ∈ offs, PropSet.seekTo data (so + e.2) = PropSet.seekTo data' (so + e.2)) :
    PropSet.readCodepage data so offs = PropSet.readCodepage data' so offs := by
  unfold PropSet.readCodepage
  cases hf : offs.find? (·.1 == Gen.propCodepage) with
  | none => rfl
  | some e =>
    obtain ⟨n, off⟩ := e
    simp only
    rw [h (n, off) (List.mem_of_find?_eq_some hf)]

/-- **two streams that differ in layout only read as the same property set**: same header
fields, the same offset-table entries in any order, the same bytes at each listed offset -/
theorem read_layout_independent (data data' : Bytes) (L L' : Layout) (h : Fits data L) (h' : Fits data' L')
    (hv : L'.ver = L.ver) (ho : L'.os = L.os) (hov : L'.osVersion = L.osVersion) (hc : L'.clsid = L.clsid)
    (hf : L'.fmtid = L.fmtid) (hs : L'.sectionOffset = L.sectionOffset) (hp : L.ents.Perm L'.ents)
    (hat : ∀ e ∈ L.ents, PropSet.seekTo data (L.sectionOffset + e.2) = PropSet.seekTo data' (L.sectionOffset + e.2)) :
    PropSet.read data = PropSet.read data' := by
  rw [read_layout data L h, read_layout data' L' h', hv, ho, hov, hc, hf, hs, ← sortEnts_perm L.ents L'.ents h.nodup hp]
  have hat' : ∀ e ∈ sortEnts L.ents, PropSet.seekTo data (L.sectionOffset + e.2) = PropSet.seekTo data' (L.sectionOffset + e.2) :=
    fun e he => hat e ((sortEnts_spec L.ents h.nodup).2 e |>.mp he)
  rw [readCodepage_congr data data' _ _ hat']
  cases PropSet.readCodepage data' L.sectionOffset (sortEnts L.ents) with
  | err k => rfl
  | panic w => rfl
  | ok cp =>
    simp only [Res.bind]
    rw [readVals_congr data data' _ _ _ _ _ hat']

end MsiProofs.PropSetLayout
