import MsiProofs.Lemmas.SortUpd
/-
The frame condition at package level (property C03): an insert, update or delete on one table —
accepted or refused — leaves every OTHER table reading exactly the same rows with exactly the same
values, and leaves the table list and the reference width as they were.
-/
namespace MsiProofs.Frame
open MsiModel MsiModel.Bytes MsiModel.Pkg MsiProofs.Refine MsiProofs.RefineDelete MsiProofs.RefineExact
open MsiProofs.SaveOpen MsiProofs.RowsOk MsiProofs.GlobalInv MsiProofs.RefineUpdate MsiProofs.SortedInv

/-- what every other table keeps -/
structure Kept (s s' : Pkg) (tname : List Char) : Prop where
  tables : s'.tables = s.tables
  long : s'.pool.longRefs = s.pool.longRefs
  rows : ∀ x ∈ s.tables, x.name ≠ tname → s'.loadRows x = s.loadRows x
  vals : ∀ x ∈ s.tables, x.name ≠ tname → ∀ rows, s.loadRows x = .ok rows →
    ∀ r ∈ rows, rowValues s'.pool r = rowValues s.pool r

theorem Kept.refl (s : Pkg) (tn : List Char) : Kept s s tn := ⟨rfl, rfl, fun _ _ _ => rfl, fun _ _ _ _ _ _ _ => rfl⟩

theorem findTable_name {s : Pkg} {n : List Char} {t : Table} (h : s.findTable n = some t) : t.name = n := by
  unfold Pkg.findTable at h
  have := List.find?_some h
  simpa using this

theorem other_stream (slack : Nat → Nat) (s : Pkg) (hI : Inv slack s) (t x : Table) (ht : t ∈ s.tables)
    (hx : x ∈ s.tables) (hne : x.name ≠ t.name) : key t.streamName ≠ key x.streamName := by
  intro h
  exact hne (congrArg Table.name (eq_of_same_stream s.tables hI.distinct ht hx h)).symm

/-- the cells of a table other than `t` are among the "other" cells when the table list is split at `t` -/
theorem mem_others (s : Pkg) (pre post : List Table) (t x : Table) (hsplit : s.tables = pre ++ t :: post)
    (hx : x ∈ s.tables) (hxt : x ≠ t) (rows : List (List Cell)) (hl : s.loadRows x = .ok rows)
    (r : List Cell) (hr : r ∈ rows) (c : Cell) (hc : c ∈ r) :
    c ∈ cellsOfTables s pre ++ cellsOfTables s post := by
  rw [hsplit] at hx
  simp only [List.mem_append, List.mem_cons] at hx ⊢
  rcases hx with h1 | h1 | h1
  · exact Or.inl (mem_cellsOfTables h1 hl hr hc)
  · exact absurd h1 hxt
  · exact Or.inr (mem_cellsOfTables h1 hl hr hc)

theorem insert_kept (slack : Nat → Nat) (s : Pkg) (tname : List Char) (rows : List (List Value)) (s' : Pkg)
    (hI : Inv slack s) (h : insertExec s tname rows = (s', .ok ())) : Kept s s' tname := by
  cases hf : s.findTable tname with
  | none =>
    unfold insertExec at h
    simp only [hf] at h
    cases (Prod.mk.inj h).2
  | some t =>
    have htm := findTable_spec s tname t hf
    have htn := findTable_name hf
    obtain ⟨existing, hl⟩ := hI.loads t htm
    have hliveAll := live_of_accounted slack s.pool _ hI.pos hI.counts
    have hlive : ∀ r ∈ existing, ∀ c ∈ r, LiveCell s.pool c :=
      fun r hr c hc => hliveAll c (mem_cellsOfTables htm hl hr hc)
    obtain ⟨hlr, hrs⟩ := hI.widths t htm
    obtain ⟨stored, -, -, -, -, hext, -, -, hlr', -⟩ :=
      MsiProofs.RefineLoad.insert_then_load s tname rows s' h t hf existing hl hlive hI.sized hlr hrs
    obtain ⟨-, -, -, -, -, -, -, hframe, htabs, -⟩ :=
      MsiProofs.Refine.insert_refines s tname rows s' h t hf existing hl hlive
    refine ⟨htabs, by rw [hlr', hlr], ?_, ?_⟩
    · intro x hx hne
      exact loadRows_congr s s' x (hframe _ (other_stream slack s hI t x htm hx (by rw [htn]; exact hne)))
    · intro x hx _ rws hrws r hr
      exact (rowValues_ext hext r (fun c hc => hliveAll c (mem_cellsOfTables hx hrws hr hc))).1

theorem delete_kept (slack : Nat → Nat) (s : Pkg) (tname : List Char) (cond : Option Ast) (s' : Pkg)
    (hI : Inv slack s) (h : deleteExec s tname cond = (s', .ok ())) : Kept s s' tname := by
  cases hf : s.findTable tname with
  | none =>
    unfold deleteExec at h
    simp only [hf] at h
    cases (Prod.mk.inj h).2
  | some t =>
    have htm := findTable_spec s tname t hf
    have htn := findTable_name hf
    obtain ⟨existing, hl⟩ := hI.loads t htm
    obtain ⟨pre, post, hsplit⟩ := split_at_table s.tables t htm
    have hcells : cellsOfTables s s.tables =
        cellsOfTables s pre ++ existing.flatten ++ cellsOfTables s post := by
      rw [hsplit, cellsOfTables_split, rowsOf_ok hl]
    have hperm : (cellsOfTables s s.tables).Perm (existing.flatten ++ (cellsOfTables s pre ++ cellsOfTables s post)) := by
      rw [hcells]
      simp only [List.append_assoc]
      exact List.perm_append_comm_assoc _ _ _
    have hacc := accountedWith_perm hperm hI.counts
    have hposAll : PosRefs (existing.flatten ++ (cellsOfTables s pre ++ cellsOfTables s post)) :=
      fun r hr => hI.pos r (hperm.mem_iff.mpr hr)
    obtain ⟨bytes, -, -, hv, -, hframe, htabs, -⟩ :=
      delete_refines s tname cond s' h t hf existing hl _ hposAll (hacc.accounted hposAll)
    have hI' := delete_inv slack s tname cond s' hI h
    have hlong : s'.pool.longRefs = s.pool.longRefs := by
      have h1 := (hI'.widths t (by rw [htabs]; exact htm)).1
      have h2 := (hI.widths t htm).1
      rw [h1, h2]
    refine ⟨htabs, hlong, ?_, ?_⟩
    · intro x hx hne
      exact loadRows_congr s s' x (hframe _ (other_stream slack s hI t x htm hx (by rw [htn]; exact hne)))
    · intro x hx hne rws hrws r hr
      unfold rowValues
      apply List.map_congr_left
      intro c hc
      apply hv c
      simp only [List.mem_append]
      right
      have := mem_others s pre post t x hsplit hx (fun e => hne (by rw [e, htn])) rws hrws r hr c hc
      simpa using this

theorem update_kept (slack : Nat → Nat) (s : Pkg) (tname : List Char) (updates : List (List Char × Value))
    (cond : Option Ast) (s' : Pkg) (hI : Inv slack s) (h : updateExec s tname updates cond = (s', .ok ())) :
    Kept s s' tname := by
  cases hf : s.findTable tname with
  | none =>
    unfold updateExec at h
    simp only [hf] at h
    cases (Prod.mk.inj h).2
  | some t =>
    have htm := findTable_spec s tname t hf
    have htn := findTable_name hf
    obtain ⟨existing, hl⟩ := hI.loads t htm
    obtain ⟨pre, post, hsplit⟩ := split_at_table s.tables t htm
    have hcells : cellsOfTables s s.tables =
        cellsOfTables s pre ++ existing.flatten ++ cellsOfTables s post := by
      rw [hsplit, cellsOfTables_split, rowsOf_ok hl]
    have hperm : (cellsOfTables s s.tables).Perm (existing.flatten ++ (cellsOfTables s pre ++ cellsOfTables s post)) := by
      rw [hcells]
      simp only [List.append_assoc]
      exact List.perm_append_comm_assoc _ _ _
    have hacc := accountedWith_perm hperm hI.counts
    have hposAll : PosRefs (existing.flatten ++ (cellsOfTables s pre ++ cellsOfTables s post)) :=
      fun r hr => hI.pos r (hperm.mem_iff.mpr hr)
    obtain ⟨hlr, hrs⟩ := hI.widths t htm
    obtain ⟨planned, rows', final, -, -, -, -, -, -, hv, hframe, htabs, -, hlong⟩ :=
      update_then_load slack s tname updates cond s' h t hf existing hl _ hposAll hacc hI.sized hlr hrs
    refine ⟨htabs, hlong, ?_, ?_⟩
    · intro x hx hne
      exact loadRows_congr s s' x (hframe _ (other_stream slack s hI t x htm hx (by rw [htn]; exact hne)))
    · intro x hx hne rws hrws r hr
      unfold rowValues
      apply List.map_congr_left
      intro c hc
      apply hv c
      have := mem_others s pre post t x hsplit hx (fun e => hne (by rw [e, htn])) rws hrws r hr c hc
      simpa using this

/-- the table a statement works on -/
def target : MsiProofs.GlobalInvUpd.Op → List Char
  | .insert t _ => t
  | .delete t _ => t
  | .update t _ _ => t

/-- **the frame condition**: whatever the statement and whether it is accepted or refused, every
other table reads the same rows with the same values afterwards -/
theorem op_kept (slack : Nat → Nat) (s : Pkg) (hI : Inv slack s) : (op : MsiProofs.GlobalInvUpd.Op) →
    Kept s (op.run s) (target op)
  | .insert t rows => by
    by_cases hr : (insertExec s t rows).2 = .ok ()
    · exact insert_kept slack s t rows _ hI (by rw [← hr]; rfl)
    · show Kept s (insertExec s t rows).1 t
      rw [insert_refused_noop slack s t rows hI hr]; exact .refl s t
  | .delete t cond => by
    by_cases hr : (deleteExec s t cond).2 = .ok ()
    · exact delete_kept slack s t cond _ hI (by rw [← hr]; rfl)
    · show Kept s (deleteExec s t cond).1 t
      rw [delete_refused_noop slack s t cond hI hr]; exact .refl s t
  | .update t ups cond => by
    by_cases hr : (updateExec s t ups cond).2 = .ok ()
    · exact update_kept slack s t ups cond _ hI (by rw [← hr]; rfl)
    · show Kept s (updateExec s t ups cond).1 t
      rw [MsiProofs.GlobalInvUpd.update_refused_noop slack s t ups cond hI hr]; exact .refl s t

end MsiProofs.Frame
