import MsiProofs.Lemmas.RefineUpdate
import MsiProofs.Lemmas.SortedInv
/-
The package invariant through `Update::exec`, and histories over all three statements.
-/
namespace MsiProofs.GlobalInvUpd
open MsiModel MsiModel.Bytes MsiModel.Pkg MsiProofs.Refine MsiProofs.RefineDelete MsiProofs.RefineExact
open MsiProofs.SaveOpen MsiProofs.RowsOk MsiProofs.GlobalInv MsiProofs.RefineUpdate

/-- **a successful update re-establishes the invariant** (same slack) -/
theorem update_inv (slack : Nat → Nat) (s : Pkg) (tname : List Char) (updates : List (List Char × Value))
    (cond : Option Ast) (s' : Pkg) (hI : Inv slack s) (h : updateExec s tname updates cond = (s', .ok ())) :
    Inv slack s' := by
  cases hf : s.findTable tname with
  | none =>
    unfold updateExec at h
    simp only [hf] at h
    cases (Prod.mk.inj h).2
  | some t =>
    have htm := findTable_spec s tname t hf
    obtain ⟨existing, hl⟩ := hI.loads t htm
    obtain ⟨pre, post, hsplit⟩ := split_at_table s.tables t htm
    have hcells : cellsOfTables s s.tables =
        cellsOfTables s pre ++ existing.flatten ++ cellsOfTables s post := by
      rw [hsplit, cellsOfTables_split, rowsOf_ok hl]
    let others := cellsOfTables s pre ++ cellsOfTables s post
    have hperm : (cellsOfTables s s.tables).Perm (existing.flatten ++ others) := by
      rw [hcells]
      simp only [others, List.append_assoc]
      exact List.perm_append_comm_assoc _ _ _
    have hacc : AccountedWith slack s.pool (existing.flatten ++ others) := accountedWith_perm hperm hI.counts
    have hposAll : PosRefs (existing.flatten ++ others) := fun r hr => hI.pos r (hperm.mem_iff.mpr hr)
    obtain ⟨hlr, hrs⟩ := hI.widths t htm
    obtain ⟨planned, rows', final, -, hstored, -, -, hacc', hpos', -, hframe, htabs, hsz, hlr'⟩ :=
      update_then_load slack s tname updates cond s' h t hf existing hl others hposAll hacc hI.sized hlr hrs
    have hdist := hI.distinct
    rw [hsplit] at hdist
    have hdpre : ∀ x ∈ pre, key t.streamName ≠ key x.streamName := by
      intro x hx
      have := (List.pairwise_append.mp hdist).2.2 x hx t (by simp)
      exact fun e => this e.symm
    have hdpost : ∀ x ∈ post, key t.streamName ≠ key x.streamName := by
      intro x hx
      exact (List.pairwise_cons.mp (List.pairwise_append.mp hdist).2.1).1 x hx
    have hsame_pre : ∀ x ∈ pre, s'.loadRows x = s.loadRows x :=
      fun x hx => loadRows_congr s s' x (hframe _ (hdpre x hx))
    have hsame_post : ∀ x ∈ post, s'.loadRows x = s.loadRows x :=
      fun x hx => loadRows_congr s s' x (hframe _ (hdpost x hx))
    have hcells' : cellsOfTables s' s'.tables =
        cellsOfTables s pre ++ final.flatten ++ cellsOfTables s post := by
      rw [htabs, hsplit, cellsOfTables_split, rowsOf_ok hstored,
        cellsOfTables_congr s s' pre hsame_pre, cellsOfTables_congr s s' post hsame_post]
    have hperm' : (cellsOfTables s' s'.tables).Perm (final.flatten ++ others) := by
      rw [hcells']
      simp only [others, List.append_assoc]
      exact List.perm_append_comm_assoc _ _ _
    refine ⟨by rw [htabs]; exact hI.distinct, ?_, ?_, accountedWith_perm hperm'.symm hacc', hsz, ?_⟩
    · intro x hx
      rw [htabs, hsplit] at hx
      simp only [List.mem_append, List.mem_cons] at hx
      rcases hx with hx | rfl | hx
      · obtain ⟨r, hr⟩ := hI.loads x (by rw [hsplit]; simp [hx])
        exact ⟨r, by rw [hsame_pre x hx]; exact hr⟩
      · exact ⟨final, hstored⟩
      · obtain ⟨r, hr⟩ := hI.loads x (by rw [hsplit]; simp [hx])
        exact ⟨r, by rw [hsame_post x hx]; exact hr⟩
    · intro r hr
      exact hpos' r (hperm'.mem_iff.mp hr)
    · intro x hx
      rw [htabs] at hx
      obtain ⟨h1, h2⟩ := hI.widths x hx
      exact ⟨by rw [hlr']; exact h1, h2⟩

theorem upd_tail_refused (s : Pkg) (t : Table) (ups : List (Nat × Value)) (hus : UpsOk t.columns ups)
    (rows : List (List Cell)) (hrows : ∀ r ∈ rows, RowOk t.longRefs t.columns r)
    (hlen : rows.length ≤ Gen.maxTableRows)
    (hs : PoolSized s.pool) (hlr : s.pool.longRefs = t.longRefs) (hpos : 0 < t.rowSize)
    (planned : List (List Value × Bool)) (dup : Bool) (order : List Nat) (hord : order.Perm (List.range rows.length))
    (hne : (if dup = true then (s, Res.err ErrKind.alreadyExists) else
      match updApply ups s.pool rows planned [] with
      | .err k => (s, .err k)
      | .panic w => (s, .panic w)
      | .ok (pool', rows') => storeRows { s with pool := pool' } t (order.map fun i => rows'.getD i [])).2 ≠ .ok ()) :
    (if dup = true then (s, Res.err ErrKind.alreadyExists) else
      match updApply ups s.pool rows planned [] with
      | .err k => (s, .err k)
      | .panic w => (s, .panic w)
      | .ok (pool', rows') => storeRows { s with pool := pool' } t (order.map fun i => rows'.getD i [])).1 = s := by
  cases dup with
  | true => rfl
  | false =>
    simp only [Bool.false_eq_true, if_false] at hne ⊢
    cases hu : updApply ups s.pool rows planned [] with
    | err k => rfl
    | panic w => rfl
    | ok x =>
      obtain ⟨pool', rows'⟩ := x
      simp only [hu] at hne ⊢
      exfalso
      apply hne
      obtain ⟨hr1, -, -⟩ := updApply_rowOk t.columns ups hus rows s.pool planned [] pool' rows' hs
        (by rw [hlr]; exact hrows) (fun _ hx => by simp at hx) hu
      rw [hlr] at hr1
      -- `rows'` has as many rows as `rows`
      have hlen' : rows'.length = rows.length := by
        have : ∀ (rs : List (List Cell)) (p : Pool) (pl : List (List Value × Bool)) (acc : List (List Cell))
            (p' : Pool) (out : List (List Cell)), updApply ups p rs pl acc = .ok (p', out) →
            out.length = acc.length + rs.length := by
          intro rs
          induction rs with
          | nil =>
            intro p pl acc p' out h
            simp only [updApply, pure, Res.ok.injEq, Prod.mk.injEq] at h
            rw [← h.2]; simp
          | cons r rs ih =>
            intro p pl acc p' out h
            cases pl with
            | nil =>
              simp only [updApply, pure, Res.ok.injEq, Prod.mk.injEq] at h
              rw [← h.2]; simp <;> omega
            | cons e pl' =>
              obtain ⟨vs, m⟩ := e
              cases m with
              | false =>
                simp only [updApply, Bool.false_eq_true, if_false] at h
                rw [ih _ _ _ _ _ h]; simp; omega
              | true =>
                simp only [updApply, if_true, bind, Res.bind] at h
                cases hc : cellsUpd p r ups with
                | ok y =>
                  obtain ⟨p1, c1⟩ := y
                  simp only [hc] at h
                  rw [ih _ _ _ _ _ h]; simp; omega
                | err e => simp [hc] at h
                | panic w => simp [hc] at h
        simpa using this rows s.pool planned [] pool' rows' hu
      have hfperm := map_getD_perm rows' order (by rw [hlen']; exact hord)
      apply storeRows_ok_of_rowOk
      · intro r hr
        exact hr1 r (hfperm.mem_iff.mp hr)
      · exact hpos
      · rw [hfperm.length_eq, hlen']; exact hlen

/-- **an update that does not succeed leaves the state as it was** -/
theorem update_refused_noop (slack : Nat → Nat) (s : Pkg) (tname : List Char) (updates : List (List Char × Value))
    (cond : Option Ast) (hI : Inv slack s) (hne : (updateExec s tname updates cond).2 ≠ .ok ()) :
    (updateExec s tname updates cond).1 = s := by
  unfold updateExec at hne ⊢
  cases hf : s.findTable tname with
  | none => rfl
  | some t =>
    simp only [hf] at hne ⊢
    have htm := findTable_spec s tname t hf
    obtain ⟨hlr, hrs⟩ := hI.widths t htm
    cases hv : validateUpdates t updates with
    | some k => rfl
    | none =>
      simp only [hv] at hne ⊢
      by_cases hm : condMissing t cond = true
      · rw [if_pos hm]
      rw [if_neg hm] at hne ⊢
      cases hl : s.loadRows t with
      | err k => rfl
      | panic w => rfl
      | ok rows =>
        simp only [hl] at hne ⊢
        cases hp : updPlan t s.pool cond
            (List.filterMap (fun x => Option.map (fun i => (i, storable x.snd)) (t.indexOfColumn x.fst)) updates) rows [] with
        | err k => rfl
        | panic w => rfl
        | ok planned =>
          simp only [hp] at hne ⊢
          refine upd_tail_refused s t _ (upsOf_ok t updates hv).1 rows (MsiProofs.RefineLoad.loadRows_rowOk s t rows hl)
            (MsiProofs.RefineLoad.loadRows_length s t rows hl) hI.sized hlr hrs planned _ _ ?_ hne
          split
          · exact MsiProofs.C05.sortByKey_perm _ _
          · exact List.Perm.refl _

/-- a data-manipulation statement -/
inductive Op
  | insert (t : List Char) (rows : List (List Value))
  | delete (t : List Char) (cond : Option Ast)
  | update (t : List Char) (updates : List (List Char × Value)) (cond : Option Ast)

def Op.run (s : Pkg) : Op → Pkg
  | .insert t rows => (insertExec s t rows).1
  | .delete t cond => (deleteExec s t cond).1
  | .update t ups cond => (updateExec s t ups cond).1

/-- **one statement**: accepted or refused, it keeps the package invariant -/
theorem op_inv (slack : Nat → Nat) (s : Pkg) (op : Op) (hI : Inv slack s) : Inv slack (op.run s) := by
  cases op with
  | insert t rows => exact GlobalInv.op_inv slack s (.insert t rows) hI
  | delete t cond => exact GlobalInv.op_inv slack s (.delete t cond) hI
  | update t ups cond =>
    by_cases hr : (updateExec s t ups cond).2 = .ok ()
    · exact update_inv slack s t ups cond _ hI (by rw [← hr]; rfl)
    · show Inv slack (updateExec s t ups cond).1
      rw [update_refused_noop slack s t ups cond hI hr]; exact hI

/-- **every history of inserts, updates and deletes, on any tables, accepted or refused, keeps the
package invariant**: all tables load, streams stay distinct, reference counts stay equal to the
references held by all cells plus the same slack -/
theorem history_inv (slack : Nat → Nat) (ops : List Op) : ∀ (s : Pkg), Inv slack s → Inv slack (ops.foldl Op.run s) := by
  induction ops with
  | nil => intro s h; exact h
  | cons op ops ih => intro s h; exact ih _ (op_inv slack s op h)

end MsiProofs.GlobalInvUpd
