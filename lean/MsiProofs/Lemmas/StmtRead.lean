import MsiProofs.Lemmas.ExprRead
/-
C19 for the statements: `UPDATE`, `DELETE` and `INSERT` as token sequences, and a reader that
recovers the statement from its tokens.  The tokens are the words and signs of the printed
statement in order (`QueryFmt.fmtUpdate` / `fmtDelete` / `fmtInsert` write exactly these, separated
as the text shows); the condition after `WHERE` is the token form of the expression printer
(`toks`, proved equal to the printed expression: `render_toks`) and is read by the expression
reader (`readExpr`).  Theorems: reading the tokens of a statement gives back the statement - every
assignment with its value in order (also when a column is assigned twice), every row of values,
the condition as the same tree.
-/
namespace MsiProofs.StmtRead
open MsiModel

inductive Kw
  | update | set | delete | from | insert | into | values | where_
  deriving DecidableEq, Repr

/-- a token of a printed statement -/
inductive QTok
  | kw (k : Kw)
  | name (n : List Char)      -- a table or column name
  | comma | assign | lp | rp
  | val (v : Value)           -- a literal value
  | ex (t : Tok)              -- a token of the condition
  deriving DecidableEq, Repr

def whereToks : Option Ast → List QTok
  | none => []
  | some e => .kw .where_ :: (toks e 0).map .ex

/-- the tokens of `impl Display for Delete` -/
def deleteToks (t : List Char) (cond : Option Ast) : List QTok :=
  [.kw .delete, .kw .from, .name t] ++ whereToks cond

def assignToks : List (List Char × Value) → List QTok
  | [] => []
  | [(c, v)] => [.name c, .assign, .val v]
  | (c, v) :: rest => .name c :: .assign :: .val v :: .comma :: assignToks rest

/-- the tokens of `impl Display for Update` -/
def updateToks (t : List Char) (ups : List (List Char × Value)) (cond : Option Ast) : List QTok :=
  [.kw .update, .name t, .kw .set] ++ assignToks ups ++ whereToks cond

def valuesToks : List Value → List QTok
  | [] => []
  | [v] => [.val v]
  | v :: rest => .val v :: .comma :: valuesToks rest

def rowsToks : List (List Value) → List QTok
  | [] => []
  | [r] => .lp :: valuesToks r ++ [.rp]
  | r :: rest => .lp :: valuesToks r ++ .rp :: .comma :: rowsToks rest

/-- the tokens of `impl Display for Insert` -/
def insertToks (t : List Char) (rows : List (List Value)) : List QTok :=
  [.kw .insert, .kw .into, .name t] ++ (if rows.isEmpty then [] else .kw .values :: rowsToks rows)

/-! ### the reader -/

def unEx : List QTok → Option (List Tok)
  | [] => some []
  | .ex t :: r => (unEx r).map (t :: ·)
  | _ => none

/-- `WHERE <expression>` to the end, or nothing -/
def readWhere : List QTok → Option (Option Ast)
  | [] => some none
  | .kw .where_ :: r =>
    match unEx r with
    | some ts => (readExpr ts).map some
    | none => none
  | _ => none

def readDelete : List QTok → Option (List Char × Option Ast)
  | .kw .delete :: .kw .from :: .name t :: r => (readWhere r).map fun c => (t, c)
  | _ => none

/-- assignments `c = v, c = v, ...`; returns them and what follows -/
def readAssigns : Nat → List QTok → Option (List (List Char × Value) × List QTok)
  | 0, _ => none
  | f + 1, .name c :: .assign :: .val v :: .comma :: r =>
    (readAssigns f r).map fun (as, r') => ((c, v) :: as, r')
  | _ + 1, .name c :: .assign :: .val v :: r => some ([(c, v)], r)
  | _ + 1, _ => none

def readUpdate : List QTok → Option (List Char × List (List Char × Value) × Option Ast)
  | .kw .update :: .name t :: .kw .set :: r =>
    match readAssigns (r.length + 1) r with
    | some (as, r') => (readWhere r').map fun c => (t, as, c)
    | none => none
  | _ => none

def readValues : Nat → List QTok → Option (List Value × List QTok)
  | 0, _ => none
  | f + 1, .val v :: .comma :: r => (readValues f r).map fun (vs, r') => (v :: vs, r')
  | _ + 1, .val v :: .rp :: r => some ([v], r)
  | _ + 1, .rp :: r => some ([], r)
  | _ + 1, _ => none

def readRows : Nat → List QTok → Option (List (List Value))
  | 0, _ => none
  | f + 1, .lp :: r =>
    match readValues (r.length + 1) r with
    | some (vs, .comma :: r') => (readRows f r').map (vs :: ·)
    | some (vs, []) => some [vs]
    | _ => none
  | _ + 1, _ => none

def readInsert : List QTok → Option (List Char × List (List Value))
  | [.kw .insert, .kw .into, .name t] => some (t, [])
  | .kw .insert :: .kw .into :: .name t :: .kw .values :: r => (readRows (r.length + 1) r).map fun rows => (t, rows)
  | _ => none

/-! ### reading what was printed -/

theorem unEx_map (ts : List Tok) : unEx (ts.map .ex) = some ts := by
  induction ts with
  | nil => rfl
  | cons t r ih => simp [unEx, ih]

theorem readWhere_toks (cond : Option Ast) : readWhere (whereToks cond) = some cond := by
  cases cond with
  | none => rfl
  | some e => simp [whereToks, readWhere, unEx_map, MsiProofs.ExprRead.readExpr_toks]

/-- **`DELETE`: the tokens read back as the statement** -/
theorem readDelete_toks (t : List Char) (cond : Option Ast) : readDelete (deleteToks t cond) = some (t, cond) := by
  simp [deleteToks, readDelete, readWhere_toks]

theorem whereToks_head (cond : Option Ast) : whereToks cond = [] ∨ ∃ r, whereToks cond = .kw .where_ :: r := by
  cases cond with
  | none => exact Or.inl rfl
  | some e => exact Or.inr ⟨_, rfl⟩

theorem ra_comma (f : Nat) (c : List Char) (v : Value) (r : List QTok) :
    readAssigns (f + 1) (.name c :: .assign :: .val v :: .comma :: r) =
      (readAssigns f r).map fun (as, r') => ((c, v) :: as, r') := rfl
theorem ra_nil (f : Nat) (c : List Char) (v : Value) :
    readAssigns (f + 1) [.name c, .assign, .val v] = some ([(c, v)], []) := rfl
theorem ra_where (f : Nat) (c : List Char) (v : Value) (r : List QTok) :
    readAssigns (f + 1) (.name c :: .assign :: .val v :: .kw .where_ :: r) = some ([(c, v)], .kw .where_ :: r) := rfl

/-- the assignments are read back, in order, up to whatever follows that is not a comma -/
theorem readAssigns_toks (ups : List (List Char × Value)) (hne : ups ≠ []) : ∀ (f : Nat) (rest : List QTok),
    ups.length ≤ f → (rest = [] ∨ ∃ r, rest = .kw .where_ :: r) →
    readAssigns f (assignToks ups ++ rest) = some (ups, rest) := by
  induction ups with
  | nil => exact absurd rfl hne
  | cons a tl ih =>
    intro f rest hf hrest
    obtain ⟨c, v⟩ := a
    cases f with
    | zero => simp at hf
    | succ f =>
      cases tl with
      | nil =>
        rcases hrest with rfl | ⟨r, rfl⟩
        · exact ra_nil f c v
        · exact ra_where f c v r
      | cons b tl' =>
        have := ih (by simp) f rest (by simp at hf ⊢; omega) hrest
        show readAssigns (f + 1) (.name c :: .assign :: .val v :: .comma :: (assignToks (b :: tl') ++ rest)) = _
        rw [ra_comma, this]; rfl

theorem assignToks_length (ups : List (List Char × Value)) : ups.length ≤ (assignToks ups).length + 1 := by
  induction ups with
  | nil => simp
  | cons a tl ih =>
    obtain ⟨c, v⟩ := a
    cases tl with
    | nil => simp [assignToks]
    | cons b tl' => simp only [assignToks, List.length_cons] at ih ⊢; omega

/-- **`UPDATE`: the tokens read back as the statement** - table, every assignment with its value
in order (a column assigned twice stays assigned twice), and the condition as the same tree -/
theorem readUpdate_toks (t : List Char) (ups : List (List Char × Value)) (hne : ups ≠ []) (cond : Option Ast) :
    readUpdate (updateToks t ups cond) = some (t, ups, cond) := by
  simp only [updateToks, List.cons_append, List.nil_append, readUpdate, List.append_assoc]
  rw [readAssigns_toks ups hne _ _ (by
    have := assignToks_length ups
    simp only [List.length_append]; omega) (whereToks_head cond)]
  simp [readWhere_toks]

theorem rv_comma (f : Nat) (v : Value) (r : List QTok) :
    readValues (f + 1) (.val v :: .comma :: r) = (readValues f r).map fun (vs, r') => (v :: vs, r') := rfl
theorem rv_last (f : Nat) (v : Value) (r : List QTok) : readValues (f + 1) (.val v :: .rp :: r) = some ([v], r) := rfl
theorem rv_none (f : Nat) (r : List QTok) : readValues (f + 1) (.rp :: r) = some ([], r) := rfl

theorem readValues_toks (vs : List Value) : ∀ (f : Nat) (rest : List QTok), vs.length + 1 ≤ f →
    readValues f (valuesToks vs ++ .rp :: rest) = some (vs, rest) := by
  induction vs with
  | nil =>
    intro f rest hf
    cases f with
    | zero => simp at hf
    | succ f => exact rv_none f rest
  | cons v tl ih =>
    intro f rest hf
    cases f with
    | zero => simp at hf
    | succ f =>
      cases tl with
      | nil => exact rv_last f v rest
      | cons w tl' =>
        have := ih f rest (by simp at hf ⊢; omega)
        show readValues (f + 1) (.val v :: .comma :: (valuesToks (w :: tl') ++ .rp :: rest)) = _
        rw [rv_comma, this]; rfl

theorem valuesToks_length (vs : List Value) : vs.length ≤ (valuesToks vs).length := by
  induction vs with
  | nil => simp
  | cons v tl ih =>
    cases tl with
    | nil => simp [valuesToks]
    | cons w tl' => simp only [valuesToks, List.length_cons] at ih ⊢; omega

theorem rr_step (f : Nat) (r : List QTok) :
    readRows (f + 1) (.lp :: r) =
      (match readValues (r.length + 1) r with
       | some (vs, .comma :: r') => (readRows f r').map (vs :: ·)
       | some (vs, []) => some [vs]
       | _ => none) := rfl

theorem readRows_toks (rows : List (List Value)) (hne : rows ≠ []) : ∀ (f : Nat), rows.length ≤ f →
    readRows f (rowsToks rows) = some rows := by
  induction rows with
  | nil => exact absurd rfl hne
  | cons r tl ih =>
    intro f hf
    cases f with
    | zero => simp at hf
    | succ f =>
      cases tl with
      | nil =>
        show readRows (f + 1) (.lp :: (valuesToks r ++ [.rp])) = _
        rw [rr_step, readValues_toks r _ [] (by
          have := valuesToks_length r
          simp only [List.length_append, List.length_cons, List.length_nil]; omega)]
      | cons r2 tl' =>
        show readRows (f + 1) (.lp :: (valuesToks r ++ .rp :: .comma :: rowsToks (r2 :: tl'))) = _
        rw [rr_step, readValues_toks r _ _ (by
          have := valuesToks_length r
          simp only [List.length_append, List.length_cons]; omega)]
        simp only
        rw [ih (by simp) f (by simp at hf ⊢; omega)]; rfl

theorem rowsToks_length (rows : List (List Value)) : rows.length ≤ (rowsToks rows).length := by
  induction rows with
  | nil => simp
  | cons r tl ih =>
    cases tl with
    | nil => simp [rowsToks]
    | cons r2 tl' => simp only [rowsToks, List.length_cons, List.length_append] at ih ⊢; omega

/-- **`INSERT`: the tokens read back as the statement** - every row, every value, in order -/
theorem readInsert_toks (t : List Char) (rows : List (List Value)) : readInsert (insertToks t rows) = some (t, rows) := by
  cases rows with
  | nil => rfl
  | cons r tl =>
    simp only [insertToks, List.isEmpty_cons, Bool.false_eq_true, if_false, List.cons_append, List.nil_append, readInsert]
    rw [readRows_toks (r :: tl) (by simp) _ (by have := rowsToks_length (r :: tl); omega)]
    rfl

end MsiProofs.StmtRead
