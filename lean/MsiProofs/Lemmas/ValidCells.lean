import MsiProofs.Lemmas.Relational
/-
Stored cells stay valid (property C05, the part beyond keys): in every table, every row the API
reports has one value per column, and every value is the stored form of a value its column
declares valid (type, nullability, integer range, category, enumeration, maximum length) — the
stored form of "" being null, the one value the file format has for both.  Every insert, update
and delete, accepted or refused, on any table, keeps this for all tables.
-/
namespace MsiProofs.ValidCells
open MsiModel MsiModel.Bytes MsiModel.Pkg MsiProofs.GlobalInv MsiProofs.SortedInv MsiProofs.Frame
open MsiProofs.Refine MsiProofs.RefineUpdate MsiProofs.Relational MsiProofs.SaveOpen

/-- `v` is what the library stores for some value the column declares valid -/
def StoredOk (c : Column) (v : Value) : Prop := ∃ v0, v = storable v0 ∧ c.isValidValue v0 = true

/-- one value per column, each valid for its column -/
def RowValid (t : Table) (row : List Value) : Prop :=
  row.length = t.columns.length ∧ ∀ (i : Nat) (c : Column), t.columns[i]? = some c → ∃ v : Value, row[i]? = some v ∧ StoredOk c v

/-- every row of every table is valid -/
def ValidAll (s : Pkg) : Prop := ∀ t ∈ s.tables, ∀ row ∈ tableView s t, RowValid t row

/-- a validated row, stored -/
theorem rowValid_of_checked (t : Table) (r : List Value) (hlen : r.length = t.columns.length)
    (hval : ∀ x ∈ t.columns.zip r, x.1.isValidValue x.2 = true) : RowValid t (r.map storable) := by
  refine ⟨by simp [hlen], ?_⟩
  intro i c hc
  have hi : i < t.columns.length := (List.getElem?_eq_some_iff.mp hc).1
  have hir : i < r.length := by omega
  refine ⟨storable r[i], by simp [hir], r[i], rfl, ?_⟩
  have hmem : (c, r[i]) ∈ t.columns.zip r := by
    have h1 : (t.columns.zip r)[i]? = some (c, r[i]) := by
      rw [List.getElem?_zip_eq_some]
      exact ⟨hc, by simp [hir]⟩
    exact List.mem_of_getElem? h1
  exact hval _ hmem

/-- one assignment keeps a row valid -/
theorem rowValid_set (t : Table) (row : List Value) (h : RowValid t row) (i : Nat) (col : Column) (v : Value)
    (hc : t.columns[i]? = some col) (hv : StoredOk col v) : RowValid t (row.set i v) := by
  refine ⟨by simp [h.1], ?_⟩
  intro j c hj
  rw [List.getElem?_set]
  by_cases hij : i = j
  · subst hij
    have hi : i < row.length := by rw [h.1]; exact (List.getElem?_eq_some_iff.mp hc).1
    rw [hc] at hj
    cases hj
    exact ⟨v, by simp [hi], hv⟩
  · simp only [hij, if_false]
    exact h.2 j c hj

/-- all assignments of an UPDATE keep a row valid -/
theorem rowValid_applyUps (t : Table) (ups : List (Nat × Value)) (hus : UpsOk t.columns ups) :
    ∀ row, RowValid t row → RowValid t (applyUps ups row) := by
  induction ups with
  | nil => intro row h; exact h
  | cons u rest ih =>
    intro row h
    obtain ⟨col, v0, hc, hv, hok⟩ := hus u (by simp)
    have h1 := rowValid_set t row h u.1 col u.2 hc ⟨v0, hv, hok⟩
    have := ih (fun x hx => hus x (by simp [hx])) _ h1
    simpa [applyUps] using this

/-- **one statement, accepted or refused, keeps every cell of every table valid** -/
theorem op_valid (slack : Nat → Nat) (s : Pkg) (hI : Inv slack s) (hS : SortedAll s) (hV : ValidAll s)
    (op : MsiProofs.GlobalInvUpd.Op) : ValidAll (op.run s) := by
  have hR := op_refines slack s hI hS op
  by_cases hr : reply s op = .ok ()
  · obtain ⟨t, hf, hspec⟩ := hR.accepted hr
    have htm := findTable_spec s _ t hf
    have htn := findTable_name hf
    obtain ⟨existing, hl⟩ := hI.loads t htm
    intro x hx row hrow
    rw [hR.tables] at hx
    by_cases hxt : x.name = target op
    · -- the target table (names are unique: it is `t`)
      have hxeq : x = t := by
        have h1 : key x.streamName = key t.streamName := by
          unfold Table.streamName; rw [hxt, htn]
        exact eq_of_same_stream s.tables hI.distinct hx htm h1
      subst hxeq
      cases op with
      | insert tn rows =>
        have h : insertExec s tn rows = ((insertExec s tn rows).1, .ok ()) := by rw [← hr]; rfl
        obtain ⟨_, _, _, _, hv1, hv2, -⟩ := MsiProofs.RefineLoad.insertExec_ok_inv s tn rows _ h x hf existing hl
        have hm := hspec.1.mem_iff.mp hrow
        rw [List.mem_append] at hm
        rcases hm with hm | hm
        · exact hV x hx row hm
        · obtain ⟨r, hr', rfl⟩ := List.mem_map.mp hm
          apply rowValid_of_checked
          · have := List.any_eq_false.mp hv1 r hr'
            simpa using this
          · intro y hy
            have h1 := List.any_eq_false.mp hv2 r hr'
            have h2 : ((x.columns.zip r).any fun x => !x.1.isValidValue x.2) = false := by simpa using h1
            have h3 := List.any_eq_false.mp h2 y hy
            simpa using h3
      | delete tn cond =>
        have hspec' : tableView ((GlobalInvUpd.Op.delete tn cond).run s) x =
            (tableView s x).filter fun vals => condV x cond vals == .ok false := hspec
        rw [hspec'] at hrow
        exact hV x hx row (List.mem_filter.mp hrow).1
      | update tn ups cond =>
        have h : updateExec s tn ups cond = ((updateExec s tn ups cond).1, .ok ()) := by rw [← hr]; rfl
        obtain ⟨_, _, _, _, _, hv, -⟩ := updateExec_ok_inv s tn ups cond _ h x hf existing hl
        obtain ⟨husok, -⟩ := upsOf_ok x ups hv
        have hm := hspec.1.mem_iff.mp hrow
        obtain ⟨old, hold, rfl⟩ := List.mem_map.mp hm
        unfold updRow
        split
        · exact rowValid_applyUps x _ husok old (hV x hx old hold)
        · exact hV x hx old hold
    · rw [hR.others x hx hxt] at hrow
      exact hV x hx row hrow
  · rw [hR.refused hr]; exact hV

/-- **every history of inserts, updates and deletes — on any tables, accepted or refused — keeps
every stored cell valid for its column** -/
theorem history_valid (slack : Nat → Nat) (ops : List MsiProofs.GlobalInvUpd.Op) : ∀ (s : Pkg),
    Inv slack s → SortedAll s → ValidAll s → ValidAll (ops.foldl MsiProofs.GlobalInvUpd.Op.run s) := by
  induction ops with
  | nil => intro s _ _ h; exact h
  | cons op rest ih =>
    intro s hI hS hV
    obtain ⟨hi', hs'⟩ := MsiProofs.SortUpd.history_sorted slack [op] s hI hS
    exact ih _ hi' hs' (op_valid slack s hI hS hV op)

end MsiProofs.ValidCells
