import MsiProofs.Lemmas.SaveOpen
import MsiProofs.Lemmas.DeleteValidation
import MsiProofs.Props.C11
/-
The invariant that makes "save, then reopen" work over whole histories: whenever the
"modified" flag of the string pool (of the summary) is down, the pool (summary) streams in
the container decode to the in-memory pool (summary).  Every operation either leaves the
pool as it is or raises the flag, and writes only the stream of the table it works on.
-/
namespace MsiProofs.Synced
open MsiModel MsiModel.Bytes MsiModel.Pkg MsiProofs.SaveOpen

/-- the pool after a step: untouched, or flagged as modified -/
def PoolStep (p p' : Pool) : Prop := p' = p ∨ p'.modified = true

theorem PoolStep.refl (p : Pool) : PoolStep p p := Or.inl rfl
theorem PoolStep.trans {p p' p'' : Pool} (h1 : PoolStep p p') (h2 : PoolStep p' p'') : PoolStep p p'' := by
  rcases h2 with rfl | h2
  · exact h1
  · exact Or.inr h2

theorem incref_step (p : Pool) (s : List Char) (p' : Pool) (r : Nat) (h : p.incref s = .ok (p', r)) :
    PoolStep p p' := by
  unfold Pool.incref at h
  split at h
  · cases h; exact Or.inr rfl
  · split at h
    · cases h
    · split at h
      · cases h
      · cases h; exact Or.inr rfl

theorem decref_step (p : Pool) (r : Nat) : PoolStep p (p.decref r) := by
  unfold Pool.decref
  split
  · exact Or.inr rfl
  · exact Or.inl rfl

theorem create_step (p : Pool) (v : Value) (p' : Pool) (c : Cell) (h : Cell.create p v = .ok (p', c)) :
    PoolStep p p' := by
  cases v with
  | null => cases h; exact .refl _
  | int n => cases h; exact .refl _
  | str s =>
    simp only [Cell.create, bind, Res.bind] at h
    cases hi : p.incref s with
    | ok x =>
      obtain ⟨q, r⟩ := x
      simp only [hi, pure, Res.ok.injEq, Prod.mk.injEq] at h
      obtain ⟨rfl, -⟩ := h
      exact incref_step p s q r hi
    | err k => simp [hi] at h
    | panic w => simp [hi] at h

theorem remove_step (p : Pool) (c : Cell) : PoolStep p (Cell.remove p c) := by
  cases c with
  | str r => exact decref_step p r
  | null => exact .refl _
  | int n => exact .refl _

theorem foldl_remove_step (cells : List Cell) : ∀ p, PoolStep p (cells.foldl Cell.remove p) := by
  induction cells with
  | nil => intro p; exact .refl _
  | cons c cs ih => intro p; exact (remove_step p c).trans (ih _)

theorem createCells_step (vs : List Value) : ∀ (p : Pool) (acc : List Cell) (p' : Pool) (cs : List Cell),
    createCells p vs acc = .ok (p', cs) → PoolStep p p' := by
  induction vs with
  | nil => intro p acc p' cs h; simp only [createCells, pure, Res.ok.injEq, Prod.mk.injEq] at h; rw [← h.1]; exact .refl _
  | cons v vs ih =>
    intro p acc p' cs h
    simp only [createCells, bind, Res.bind] at h
    cases hc : Cell.create p v with
    | ok x =>
      obtain ⟨q, c⟩ := x
      simp only [hc] at h
      exact (create_step p v q c hc).trans (ih q _ p' cs h)
    | err k => simp [hc] at h
    | panic w => simp [hc] at h

theorem addRows_step (keyIdx : List Nat) (rows : List (List Value)) : ∀ (p : Pool) (m : RowMap) (p' : Pool) (m' : RowMap),
    addRows keyIdx p rows m = .ok (p', m') → PoolStep p p' := by
  induction rows with
  | nil => intro p m p' m' h; simp only [addRows, pure, Res.ok.injEq, Prod.mk.injEq] at h; rw [← h.1]; exact .refl _
  | cons r rs ih =>
    intro p m p' m' h
    simp only [addRows, bind, Res.bind] at h
    cases hc : createCells p r [] with
    | ok x =>
      obtain ⟨q, cells⟩ := x
      simp only [hc] at h
      cases hm : mapInsert (keyOf keyIdx r) cells m with
      | none => simp [hm] at h
      | some m1 =>
        simp only [hm] at h
        exact (createCells_step r p [] q cells hc).trans (ih q m1 p' m' h)
    | err k => simp [hc] at h
    | panic w => simp [hc] at h

theorem deleteGo_step (t : Table) (cond : Option Ast) (rows : List (List Cell)) :
    ∀ (p : Pool) (acc : List (List Cell)) (p' : Pool) (kept : List (List Cell)),
    deleteGo t cond p rows acc = .ok (p', kept) → PoolStep p p' := by
  induction rows with
  | nil => intro p acc p' kept h; simp only [deleteGo, pure, Res.ok.injEq, Prod.mk.injEq] at h; rw [← h.1]; exact .refl _
  | cons r rs ih =>
    intro p acc p' kept h
    simp only [deleteGo, bind, Res.bind] at h
    cases he : evalCond t p cond r with
    | ok del =>
      simp only [he] at h
      cases del with
      | true => simp only [if_true] at h; exact (foldl_remove_step r p).trans (ih _ _ p' kept h)
      | false => simp only [Bool.false_eq_true, if_false] at h; exact ih _ _ p' kept h
    | err k => simp [he] at h
    | panic w => simp [he] at h

theorem cellsUpd_step (us : List (Nat × Value)) : ∀ (p : Pool) (cells : List Cell) (p' : Pool) (cells' : List Cell),
    cellsUpd p cells us = .ok (p', cells') → PoolStep p p' := by
  induction us with
  | nil => intro p cells p' cells' h; simp only [cellsUpd, pure, Res.ok.injEq, Prod.mk.injEq] at h; rw [← h.1]; exact .refl _
  | cons u us ih =>
    intro p cells p' cells' h
    obtain ⟨i, v⟩ := u
    simp only [cellsUpd, bind, Res.bind] at h
    generalize hg : cells.getD i Cell.null = old at h
    cases hc : Cell.create (Cell.remove p old) v with
    | ok x =>
      obtain ⟨q, c⟩ := x
      simp only [hc] at h
      exact ((remove_step p _).trans (create_step _ v q c hc)).trans (ih q _ p' cells' h)
    | err k => simp [hc] at h
    | panic w => simp [hc] at h

theorem updApply_step (ups : List (Nat × Value)) (rows : List (List Cell)) :
    ∀ (p : Pool) (pl : List (List Value × Bool)) (acc : List (List Cell)) (p' : Pool) (rows' : List (List Cell)),
    updApply ups p rows pl acc = .ok (p', rows') → PoolStep p p' := by
  induction rows with
  | nil => intro p pl acc p' rows' h; simp only [updApply, pure, Res.ok.injEq, Prod.mk.injEq] at h; rw [← h.1]; exact .refl _
  | cons r rs ih =>
    intro p pl acc p' rows' h
    cases pl with
    | nil => simp only [updApply, pure, Res.ok.injEq, Prod.mk.injEq] at h; rw [← h.1]; exact .refl _
    | cons e pl' =>
      obtain ⟨vs, m⟩ := e
      cases m with
      | false => simp only [updApply, Bool.false_eq_true, if_false] at h; exact ih p pl' _ p' rows' h
      | true =>
        simp only [updApply, if_true, bind, Res.bind] at h
        cases hc : cellsUpd p r ups with
        | ok x =>
          obtain ⟨q, cells'⟩ := x
          simp only [hc] at h
          exact (cellsUpd_step ups p r q cells' hc).trans (ih q pl' _ p' rows' h)
        | err k => simp [hc] at h
        | panic w => simp [hc] at h


/-! ### the invariant -/

/-- whenever a "modified" flag is down, the corresponding streams of the container decode to
the in-memory value -/
structure Synced (s : Pkg) : Prop where
  summary : s.summaryModified = false →
    ∃ sb, dataOf s.cont sSummary = some sb ∧ Summary.read sb = .ok s.summary
  pool : s.pool.modified = false →
    ∃ pb db, dataOf s.cont sPool = some pb ∧ dataOf s.cont sData = some db ∧ Pool.read pb db = .ok s.pool

/-- a stream name that is none of the three metadata streams (under cfb's comparison) -/
def NotMeta (n : List Char) : Prop := key n ≠ key sPool ∧ key n ≠ key sData ∧ key n ≠ key sSummary

/-- the metadata streams are the same in two containers -/
def SameMeta (c c' : List Entry) : Prop :=
  dataOf c' sPool = dataOf c sPool ∧ dataOf c' sData = dataOf c sData ∧ dataOf c' sSummary = dataOf c sSummary

theorem SameMeta.refl (c : List Entry) : SameMeta c c := ⟨rfl, rfl, rfl⟩
theorem SameMeta.trans {a b c : List Entry} (h1 : SameMeta a b) (h2 : SameMeta b c) : SameMeta a c :=
  ⟨h2.1.trans h1.1, h2.2.1.trans h1.2.1, h2.2.2.trans h1.2.2⟩

theorem sameMeta_put (c : List Entry) (n : List Char) (d : Bytes) (hn : NotMeta n) : SameMeta c (Cont.put c n d) :=
  ⟨dataOf_put_other _ _ _ _ hn.1, dataOf_put_other _ _ _ _ hn.2.1, dataOf_put_other _ _ _ _ hn.2.2⟩

theorem dataOf_remove_other (c : List Entry) (n m : List Char) (hnm : key n ≠ key m) :
    dataOf (Cont.remove c n) m = dataOf c m := by
  unfold Cont.remove dataOf Cont.find
  induction c with
  | nil => rfl
  | cons e rest ih =>
    simp only [List.filter_cons, List.find?_cons]
    by_cases he : Cont.nameEq e.name n = true
    · have hk : key e.name = key n := (nameEq_iff _ _).mp he
      have hem : Cont.nameEq e.name m = false := (nameEq_false_iff _ _).mpr (hk ▸ hnm)
      simp only [he, Bool.not_true, Bool.false_eq_true, if_false, hem]
      exact ih
    · have hef : Cont.nameEq e.name n = false := by simpa using he
      simp only [hef, Bool.not_false, if_true, List.find?_cons]
      cases hm : Cont.nameEq e.name m
      · exact ih
      · rfl

theorem sameMeta_remove (c : List Entry) (n : List Char) (hn : NotMeta n) : SameMeta c (Cont.remove c n) :=
  ⟨dataOf_remove_other _ _ _ hn.1, dataOf_remove_other _ _ _ hn.2.1, dataOf_remove_other _ _ _ hn.2.2⟩

/-- what an operation other than a save does to the parts of the package the invariant speaks
about: the pool takes a `PoolStep`, the metadata streams stay as they are, the summary is not
touched -/
structure Effect (s s' : Pkg) : Prop where
  pool : PoolStep s.pool s'.pool
  cont : SameMeta s.cont s'.cont
  summary : s'.summary = s.summary
  summaryModified : s'.summaryModified = s.summaryModified

theorem Effect.refl (s : Pkg) : Effect s s := ⟨.refl _, .refl _, rfl, rfl⟩
theorem Effect.trans {a b c : Pkg} (h1 : Effect a b) (h2 : Effect b c) : Effect a c :=
  ⟨h1.pool.trans h2.pool, h1.cont.trans h2.cont, h2.summary.trans h1.summary,
   h2.summaryModified.trans h1.summaryModified⟩

/-- **the invariant is preserved by every such effect** -/
theorem synced_of_effect (s s' : Pkg) (hS : Synced s) (he : Effect s s') : Synced s' := by
  refine ⟨?_, ?_⟩
  · intro hm
    rw [he.summaryModified] at hm
    obtain ⟨sb, h1, h2⟩ := hS.summary hm
    exact ⟨sb, by rw [he.cont.2.2]; exact h1, by rw [he.summary]; exact h2⟩
  · intro hm
    have hp : s'.pool = s.pool := by
      rcases he.pool with h | h
      · exact h
      · rw [hm] at h; cases h
    rw [hp] at hm ⊢
    obtain ⟨pb, db, h1, h2, h3⟩ := hS.pool hm
    exact ⟨pb, db, by rw [he.cont.1]; exact h1, by rw [he.cont.2.1]; exact h2, h3⟩

/-- the tables of the package are stored in streams of their own -/
def TablesSeparate (s : Pkg) : Prop := ∀ t ∈ s.tables, NotMeta t.streamName

theorem findTable_mem {s : Pkg} {n : List Char} {t : Table} (h : s.findTable n = some t) : t ∈ s.tables := by
  unfold Pkg.findTable at h
  exact List.mem_of_find?_eq_some h

theorem storeRows_effect (s : Pkg) (pool' : Pool) (t : Table) (rows : List (List Cell))
    (hstep : PoolStep s.pool pool') (ht : NotMeta t.streamName) :
    Effect s (storeRows { s with pool := pool' } t rows).1 ∧ (storeRows { s with pool := pool' } t rows).1.tables = s.tables := by
  unfold storeRows
  cases t.writeRows rows with
  | ok bs => exact ⟨⟨hstep, sameMeta_put _ _ _ ht, rfl, rfl⟩, rfl⟩
  | err k => exact ⟨⟨hstep, sameMeta_put _ _ _ ht, rfl, rfl⟩, rfl⟩
  | panic w => exact ⟨⟨hstep, .refl _, rfl, rfl⟩, rfl⟩

theorem insertExec_effect (s : Pkg) (hsep : TablesSeparate s) (tname : List Char) (rows : List (List Value)) :
    Effect s (insertExec s tname rows).1 ∧ (insertExec s tname rows).1.tables = s.tables := by
  unfold insertExec
  cases hf : s.findTable tname with
  | none => exact ⟨.refl s, rfl⟩
  | some t =>
    simp only
    split; · exact ⟨.refl s, rfl⟩
    split; · exact ⟨.refl s, rfl⟩
    cases hl : s.loadRows t with
    | err k => exact ⟨.refl s, rfl⟩
    | panic w => exact ⟨.refl s, rfl⟩
    | ok existing =>
      simp only
      cases hm : loadMap s.pool t.keyIndices existing [] with
      | none => exact ⟨.refl s, rfl⟩
      | some m =>
        simp only
        cases hc : checkNew t.keyIndices m (rows.map fun r => r.map storable) [] with
        | some k => exact ⟨.refl s, rfl⟩
        | none =>
          simp only
          split; · exact ⟨.refl s, rfl⟩
          cases ha : addRows t.keyIndices s.pool (rows.map fun r => r.map storable) m with
          | err k => exact ⟨.refl s, rfl⟩
          | panic w => exact ⟨.refl s, rfl⟩
          | ok x =>
            obtain ⟨pool', m'⟩ := x
            exact storeRows_effect s pool' t _ (addRows_step _ _ _ _ _ _ ha) (hsep t (findTable_mem hf))

theorem deleteExec_effect (s : Pkg) (hsep : TablesSeparate s) (tname : List Char) (cond : Option Ast) :
    Effect s (deleteExec s tname cond).1 ∧ (deleteExec s tname cond).1.tables = s.tables := by
  unfold deleteExec
  cases hf : s.findTable tname with
  | none => exact ⟨.refl s, rfl⟩
  | some t =>
    simp only
    split; · exact ⟨.refl s, rfl⟩
    cases hl : s.loadRows t with
    | err k => exact ⟨.refl s, rfl⟩
    | panic w => exact ⟨.refl s, rfl⟩
    | ok rows =>
      simp only
      cases hd : deleteGo t cond s.pool rows [] with
      | err k => exact ⟨.refl s, rfl⟩
      | panic w => exact ⟨.refl s, rfl⟩
      | ok x =>
        obtain ⟨pool', kept⟩ := x
        exact storeRows_effect s pool' t _ (deleteGo_step _ _ _ _ _ _ _ hd) (hsep t (findTable_mem hf))

theorem upd_tail (s : Pkg) (t : Table) (ht : NotMeta t.streamName) (ups : List (Nat × Value))
    (rows : List (List Cell)) (planned : List (List Value × Bool)) (dup : Bool) (order : List Nat) :
    Effect s (if dup = true then (s, Res.err ErrKind.alreadyExists) else
      match updApply ups s.pool rows planned [] with
      | .err k => (s, .err k)
      | .panic w => (s, .panic w)
      | .ok (pool', rows') => storeRows { s with pool := pool' } t (order.map fun i => rows'.getD i [])).1 ∧
    (if dup = true then (s, Res.err ErrKind.alreadyExists) else
      match updApply ups s.pool rows planned [] with
      | .err k => (s, .err k)
      | .panic w => (s, .panic w)
      | .ok (pool', rows') => storeRows { s with pool := pool' } t (order.map fun i => rows'.getD i [])).1.tables = s.tables := by
  cases dup with
  | true => exact ⟨.refl s, rfl⟩
  | false =>
    simp only [Bool.false_eq_true, if_false]
    cases hu : updApply ups s.pool rows planned [] with
    | err k => exact ⟨.refl s, rfl⟩
    | panic w => exact ⟨.refl s, rfl⟩
    | ok x =>
      obtain ⟨pool', rows'⟩ := x
      exact storeRows_effect s pool' t _ (updApply_step _ _ _ _ _ _ _ hu) ht

theorem updateExec_effect (s : Pkg) (hsep : TablesSeparate s) (tname : List Char)
    (ups : List (List Char × Value)) (cond : Option Ast) :
    Effect s (updateExec s tname ups cond).1 ∧ (updateExec s tname ups cond).1.tables = s.tables := by
  unfold updateExec
  cases hf : s.findTable tname with
  | none => exact ⟨.refl s, rfl⟩
  | some t =>
    simp only
    cases hv : validateUpdates t ups with
    | some k => exact ⟨.refl s, rfl⟩
    | none =>
      simp only
      split; · exact ⟨.refl s, rfl⟩
      cases hl : s.loadRows t with
      | err k => exact ⟨.refl s, rfl⟩
      | panic w => exact ⟨.refl s, rfl⟩
      | ok rows =>
        simp only
        cases hp : updPlan t s.pool cond
            (List.filterMap (fun x => Option.map (fun i => (i, storable x.snd)) (t.indexOfColumn x.fst)) ups) rows [] with
        | err k => exact ⟨.refl s, rfl⟩
        | panic w => exact ⟨.refl s, rfl⟩
        | ok planned => exact upd_tail s t (hsep t (findTable_mem hf)) _ _ _ _ _


/-! ### where the invariant comes from, and what it gives -/

theorem dataOf_of_streamOf {c : List Entry} {n : List Char} {d : Bytes} (h : streamOf c n = .ok d) :
    dataOf c n = some d := by
  unfold streamOf at h
  unfold dataOf
  cases hf : Cont.find c n with
  | none => simp [hf] at h
  | some e => simp only [hf, pure, Res.ok.injEq] at h; simp [h]

/-- **a package that was just opened is in sync** (nothing modified; summary and pool are what
the streams decode to — by the definition of `open`) -/
theorem open_synced (pt : Option Nat) (cont : List Entry) (s : Pkg) (h : open_ pt cont = .ok s) : Synced s := by
  unfold open_ at h
  cases hc : openCore pt cont with
  | err k => simp [hc] at h
  | panic w => simp [hc] at h
  | ok x =>
    obtain ⟨p, summary, pool, tables⟩ := x
    simp only [hc, Res.ok.injEq] at h
    subst h
    unfold openCore at hc
    simp only [bind, Res.bind] at hc
    cases h0 : Res.ofOption pt ErrKind.invalidData with
    | err k => simp [h0] at hc
    | panic w => simp [h0] at hc
    | ok ptv =>
    simp only [h0] at hc
    cases h1 : streamOf cont sSummary with
    | err k => simp [h1] at hc
    | panic w => simp [h1] at hc
    | ok sb =>
    simp only [h1] at hc
    cases h2 : Summary.read sb with
    | err k => simp [h2] at hc
    | panic w => simp [h2] at hc
    | ok sm =>
    simp only [h2] at hc
    cases h3 : streamOf cont sPool with
    | err k => simp [h3] at hc
    | panic w => simp [h3] at hc
    | ok pb =>
    simp only [h3] at hc
    cases h4 : readU32 pb with
    | err k => simp [h4] at hc
    | panic w => simp [h4] at hc
    | ok hr =>
    obtain ⟨hdr, r⟩ := hr
    simp only [h4] at hc
    cases h5 : Res.ofOption (CodePage.fromId ((hdr % Gen.longStringRefsBit : Nat) : Int)) ErrKind.invalidData with
    | err k => simp only [h5] at hc; cases hc
    | panic w => simp only [h5] at hc; cases hc
    | ok cpv =>
    simp only [h5] at hc
    cases h6 : Pool.readEntries (r.length + 1) r [] with
    | err k => simp only [h6] at hc; cases hc
    | panic w => simp only [h6] at hc; cases hc
    | ok es =>
    simp only [h6] at hc
    cases h7 : streamOf cont sData with
    | err k => simp only [h7] at hc; cases hc
    | panic w => simp only [h7] at hc; cases hc
    | ok db =>
    simp only [h7] at hc
    cases h8 : Pool.read pb db with
    | err k => simp only [h8] at hc; cases hc
    | panic w => simp only [h8] at hc; cases hc
    | ok pl =>
    simp only [h8] at hc
    cases h9 : openTables ptv cont sm pl with
    | err k => simp only [h9] at hc; cases hc
    | panic w => simp only [h9] at hc; cases hc
    | ok ts =>
    simp only [h9, pure, Res.ok.injEq, Prod.mk.injEq] at hc
    obtain ⟨rfl, rfl, rfl, rfl⟩ := hc
    exact ⟨fun _ => ⟨sb, dataOf_of_streamOf h1, h2⟩, fun _ => ⟨pb, db, dataOf_of_streamOf h3, dataOf_of_streamOf h7, h8⟩⟩

/-- what is `Saved` is in sync -/
theorem synced_of_saved (s : Pkg) (h : Saved s) : Synced s := ⟨fun _ => h.summary, fun _ => h.pool⟩

/-- a data-manipulation request as the API runs it (`set_finisher()` first) -/
inductive Dml
  | insert (t : List Char) (rows : List (List Value))
  | delete (t : List Char) (cond : Option Ast)
  | update (t : List Char) (ups : List (List Char × Value)) (cond : Option Ast)

def Dml.run (s : Pkg) : Dml → Pkg
  | .insert t rows => (insertRows s t rows).1
  | .delete t cond => (deleteRows s t cond).1
  | .update t ups cond => (updateRows s t ups cond).1

theorem withFinisher_effect (s : Pkg) : Effect s { s with finisher := true } := ⟨.refl _, .refl _, rfl, rfl⟩

theorem dml_step (s : Pkg) (op : Dml) (hS : Synced s) (hsep : TablesSeparate s) :
    Synced (op.run s) ∧ TablesSeparate (op.run s) ∧ (op.run s).finisher = true ∨
    Synced (op.run s) ∧ TablesSeparate (op.run s) := by
  right
  have hsep' : TablesSeparate { s with finisher := true } := hsep
  cases op with
  | insert t rows =>
    obtain ⟨he, ht⟩ := insertExec_effect { s with finisher := true } hsep' t rows
    exact ⟨synced_of_effect _ _ hS ((withFinisher_effect s).trans he), by
      intro x hx; exact hsep x (by simpa [Dml.run, insertRows, ht] using hx)⟩
  | delete t cond =>
    obtain ⟨he, ht⟩ := deleteExec_effect { s with finisher := true } hsep' t cond
    exact ⟨synced_of_effect _ _ hS ((withFinisher_effect s).trans he), by
      intro x hx; exact hsep x (by simpa [Dml.run, deleteRows, ht] using hx)⟩
  | update t ups cond =>
    obtain ⟨he, ht⟩ := updateExec_effect { s with finisher := true } hsep' t ups cond
    exact ⟨synced_of_effect _ _ hS ((withFinisher_effect s).trans he), by
      intro x hx; exact hsep x (by simpa [Dml.run, updateRows, ht] using hx)⟩

/-- **the invariant holds along every history of inserts, updates and deletes** -/
theorem dml_history (ops : List Dml) : ∀ (s : Pkg), Synced s → TablesSeparate s →
    Synced (ops.foldl Dml.run s) ∧ TablesSeparate (ops.foldl Dml.run s) := by
  induction ops with
  | nil => intro s h1 h2; exact ⟨h1, h2⟩
  | cons op ops ih =>
    intro s h1 h2
    rcases dml_step s op h1 h2 with ⟨a, b, -⟩ | ⟨a, b⟩ <;> exact ih _ a b

/-- **C01 on the model, for histories of data manipulation**: open any package, run any
sequence of inserts, updates and deletes (accepted or refused), save; if the save succeeds and
the state is expressible in the format (`Savable`), then opening the saved container gives a
package with the same container, the same summary information and the same string pool — so
every table definition reads the same rows as before closing -/
theorem reopen_after_history (pt : Option Nat) (cont : List Entry) (s0 : Pkg) (h0 : open_ pt cont = .ok s0)
    (hsep : TablesSeparate s0) (ops : List Dml) (E : List Char → Bytes)
    (s1 : Pkg) (hflush : finish (ops.foldl Dml.run s0) = (s1, .ok ()))
    (hsav : Savable (ops.foldl Dml.run s0) E)
    (s2 : Pkg) (hre : open_ (some s1.ptype) s1.cont = .ok s2) :
    s2.cont = s1.cont ∧ s2.summary = s1.summary ∧ s2.pool = s1.pool ∧
    (∀ t : Table, s2.loadRows t = s1.loadRows t) := by
  obtain ⟨hS, -⟩ := dml_history ops s0 (open_synced pt cont s0 h0) hsep
  obtain ⟨hsaved, -, -, -⟩ := finish_saved_general _ s1 E hsav hS.summary hS.pool hflush
  obtain ⟨hc, hsum, hpool, -, -, -, -⟩ := reopen_same_meta s1 hsaved s2 hre
  exact ⟨hc, hsum, hpool, fun t => rows_same_after_reopen s1 s2 hc t⟩


/-! ### table streams are not the metadata streams -/
open MsiModel.StreamName in
theorem upper_id_of_unpackable (c : Char) (h : toB64 c = none) : Cont.upper c = c := by
  unfold Cont.upper
  split
  · rename_i hr
    unfold toB64 at h
    simp only at h
    split at h; · cases h
    split at h; · cases h
    cases h
  · rfl

open MsiModel.StreamName in
theorem encoded_unpackable (n : List Char) : ∀ c ∈ encode n true, toB64 c = none := by
  intro c hc
  unfold encode at hc
  simp only [if_true, List.singleton_append, List.mem_cons] at hc
  rcases hc with rfl | hc
  · decide
  · rcases MsiProofs.C11.encodeAux_chars n c hc with h | h <;> exact h.2

open MsiModel.StreamName in
theorem map_upper_encoded (n : List Char) : (encode n true).map Cont.upper = encode n true := by
  have h := encoded_unpackable n
  generalize encode n true = l at h
  induction l with
  | nil => rfl
  | cons c rest ih =>
    simp only [List.map_cons]
    rw [upper_id_of_unpackable c (h c (by simp)), ih (fun x hx => h x (by simp [hx]))]

open MsiModel.StreamName in
/-- two table names whose streams cfb would take for the same stream are the same name -/
theorem table_stream_injective (a b : List Char) (ha : isValid a true = true) (hb : isValid b true = true)
    (h : key (encode a true) = key (encode b true)) : a = b := by
  unfold key at h
  have h2 := (Prod.mk.inj h).2
  rw [map_upper_encoded, map_upper_encoded] at h2
  unfold encode at h2
  simp only [if_true, List.singleton_append, List.cons.injEq, true_and] at h2
  have da := MsiProofs.C11.decodeAux_encodeAux a (MsiProofs.C11.isValid_no_pack ha)
  have db := MsiProofs.C11.decodeAux_encodeAux b (MsiProofs.C11.isValid_no_pack hb)
  rw [h2] at da
  rw [da] at db
  exact db

open MsiModel.StreamName in
/-- a valid table name other than the pool's own two names is stored in a stream that is none
of the metadata streams -/
theorem table_stream_notMeta (name : List Char) (hv : Table.isValidName name = true)
    (hp : isPoolName name = false) : NotMeta (encode name true) := by
  have hvalid : isValid name true = true := by
    unfold Table.isValidName at hv
    simp only [Bool.and_eq_true] at hv
    exact hv.2
  have hne : name ≠ Gen.nameStringPool.toList ∧ name ≠ Gen.nameStringData.toList := by
    unfold isPoolName at hp
    simp only [Bool.or_eq_false_iff, beq_eq_false_iff_ne, ne_eq] at hp
    exact hp
  refine ⟨?_, ?_, ?_⟩
  · intro h
    exact hne.1 (table_stream_injective name _ hvalid (by decide) h)
  · intro h
    exact hne.2 (table_stream_injective name _ hvalid (by decide) h)
  · intro h
    unfold key at h
    have h2 := (Prod.mk.inj h).2
    rw [map_upper_encoded] at h2
    have hmem : 'S' ∈ sSummary.map Cont.upper := by decide
    rw [← h2] at hmem
    have := encoded_unpackable name 'S' hmem
    revert this
    decide


/-! ### creating and dropping tables, user streams -/

theorem insertTable_mem (ts : List Table) (t x : Table) (h : x ∈ insertTable ts t) : x = t ∨ x ∈ ts := by
  induction ts with
  | nil => simp [insertTable] at h; exact Or.inl h
  | cons y rest ih =>
    simp only [insertTable] at h
    split at h
    · simp only [List.mem_cons] at h
      rcases h with rfl | rfl | h
      · exact Or.inl rfl
      · exact Or.inr (by simp)
      · exact Or.inr (by simp [h])
    · split at h
      · simp only [List.mem_cons] at h
        rcases h with rfl | h
        · exact Or.inl rfl
        · exact Or.inr (by simp [h])
      · simp only [List.mem_cons] at h
        rcases h with rfl | h
        · exact Or.inr (by simp)
        · rcases ih h with h | h
          · exact Or.inl h
          · exact Or.inr (by simp [h])

theorem createError_name (s : Pkg) (name : List Char) (cols : List Column) (h : createError s name cols = none) :
    Table.isValidName name = true ∧ isPoolName name = false := by
  unfold createError at h
  by_cases h1 : (!Table.isValidName name) = true
  · rw [if_pos h1] at h; cases h
  rw [if_neg h1] at h
  by_cases hres : isPoolName name = true
  · rw [if_pos hres] at h; cases h
  exact ⟨by simpa using h1, by simpa using hres⟩

/-- a step of the API together with what the invariant needs about it -/
structure Good (s s' : Pkg) : Prop where
  effect : Effect s s'
  sep : TablesSeparate s → TablesSeparate s'

theorem Good.refl (s : Pkg) : Good s s := ⟨.refl s, id⟩
theorem Good.trans {a b c : Pkg} (h1 : Good a b) (h2 : Good b c) : Good a c :=
  ⟨h1.effect.trans h2.effect, fun h => h2.sep (h1.sep h)⟩

theorem good_insertRows (s : Pkg) (hsep : TablesSeparate s) (t : List Char) (rows : List (List Value)) :
    Good s (insertRows s t rows).1 := by
  obtain ⟨he, ht⟩ := insertExec_effect { s with finisher := true } hsep t rows
  exact ⟨(withFinisher_effect s).trans he, fun h x hx => h x (by simpa [insertRows, ht] using hx)⟩

theorem good_deleteRows (s : Pkg) (hsep : TablesSeparate s) (t : List Char) (cond : Option Ast) :
    Good s (deleteRows s t cond).1 := by
  obtain ⟨he, ht⟩ := deleteExec_effect { s with finisher := true } hsep t cond
  exact ⟨(withFinisher_effect s).trans he, fun h x hx => h x (by simpa [deleteRows, ht] using hx)⟩

theorem good_updateRows (s : Pkg) (hsep : TablesSeparate s) (t : List Char) (ups : List (List Char × Value))
    (cond : Option Ast) : Good s (updateRows s t ups cond).1 := by
  obtain ⟨he, ht⟩ := updateExec_effect { s with finisher := true } hsep t ups cond
  exact ⟨(withFinisher_effect s).trans he, fun h x hx => h x (by simpa [updateRows, ht] using hx)⟩

theorem good_createTable (s : Pkg) (hsep : TablesSeparate s) (name : List Char) (cols : List Column) :
    Good s (createTable s name cols).1 := by
  unfold createTable
  cases hce : createError s name cols with
  | some k => exact .refl s
  | none =>
    simp only
    cases hroom : catalogRoom s name cols with
    | err k => exact .refl s
    | panic w => exact .refl s
    | ok u =>
    cases u
    simp only
    obtain ⟨hv, hp⟩ := createError_name s name cols hce
    have g1 := good_insertRows s hsep Gen.nameColumns.toList (catalogRowsColumns name cols)
    generalize hr1 : insertRows s Gen.nameColumns.toList (catalogRowsColumns name cols) = r1 at g1
    obtain ⟨s1, res1⟩ := r1
    cases res1 with
    | err k => exact g1
    | panic w => exact g1
    | ok u =>
      cases u
      simp only
      have hsep1 := g1.sep hsep
      have g2 := good_insertRows s1 hsep1 Gen.nameTables.toList [[.str name]]
      generalize hr2 : insertRows s1 Gen.nameTables.toList [[.str name]] = r2 at g2
      obtain ⟨s2, res2⟩ := r2
      cases res2 with
      | err k => exact g1.trans g2
      | panic w => exact g1.trans g2
      | ok u =>
        cases u
        simp only
        have hsep2 := g2.sep hsep1
        let s3 : Pkg := { s2 with tables := insertTable s2.tables ⟨name, cols, s2.pool.longRefs⟩ }
        have g3 : Good s2 s3 := by
          refine ⟨⟨.refl _, .refl _, rfl, rfl⟩, fun h x hx => ?_⟩
          rcases insertTable_mem _ _ _ hx with rfl | hx
          · exact table_stream_notMeta name hv hp
          · exact h x hx
        have hsep3 := g3.sep hsep2
        have g4 := good_insertRows s3 hsep3 Gen.nameValidation.toList (catalogRowsValidation name cols)
        exact ((g1.trans g2).trans g3).trans g4

theorem good_dropTable (s : Pkg) (hsep : TablesSeparate s) (name : List Char) :
    Good s (dropTable s name).1 := by
  unfold dropTable
  split; · exact .refl s
  split; · exact .refl s
  cases hf : s.findTable name with
  | none => exact .refl s
  | some t =>
    simp only
    have ht : NotMeta t.streamName := hsep t (findTable_mem hf)
    -- releasing the table's strings and removing its stream
    have g1 : Good s (if Cont.exists_ s.cont t.streamName = true then
        match s.loadRows t with
        | .err k => (s, Res.err k)
        | .panic w => (s, Res.panic w)
        | .ok rows =>
          ({ s with finisher := true, pool := rows.foldl (fun p r => r.foldl Cell.remove p) s.pool,
                    cont := Cont.remove s.cont t.streamName }, Res.ok ())
      else (s, Res.ok ())).1 := by
      split
      · cases s.loadRows t with
        | err k => exact .refl s
        | panic w => exact .refl s
        | ok rows =>
          refine ⟨⟨?_, sameMeta_remove _ _ ht, rfl, rfl⟩, id⟩
          have : ∀ (rows : List (List Cell)) (p : Pool), PoolStep p (rows.foldl (fun p r => r.foldl Cell.remove p) p) := by
            intro rows
            induction rows with
            | nil => intro p; exact .refl _
            | cons r rs ih => intro p; exact (foldl_remove_step r p).trans (ih _)
          exact this rows s.pool
      · exact .refl s
    generalize hr1 : (if Cont.exists_ s.cont t.streamName = true then
        match s.loadRows t with
        | .err k => (s, Res.err k)
        | .panic w => (s, Res.panic w)
        | .ok rows =>
          ({ s with finisher := true, pool := rows.foldl (fun p r => r.foldl Cell.remove p) s.pool,
                    cont := Cont.remove s.cont t.streamName }, Res.ok ())
      else (s, Res.ok ())) = r1 at g1
    obtain ⟨s1, res1⟩ := r1
    cases res1 with
    | err k => exact g1
    | panic w => exact g1
    | ok u =>
      cases u
      simp only
      have hsep1 := g1.sep hsep
      have g2 : Good s1 (deleteValidation s1 name).1 := by
        rcases MsiProofs.DeleteValidation.deleteValidation_cases s1 name with e | e <;> rw [e]
        · exact good_deleteRows s1 hsep1 Gen.nameValidation.toList (eqStr "Table" name)
        · exact .refl s1
      generalize hr2 : deleteValidation s1 name = r2 at g2
      obtain ⟨s2, res2⟩ := r2
      cases res2 with
      | err k => exact g1.trans g2
      | panic w => exact g1.trans g2
      | ok u =>
        cases u
        simp only
        have hsep2 := g2.sep hsep1
        have g3 := good_deleteRows s2 hsep2 Gen.nameColumns.toList (eqStr "Table" name)
        generalize hr3 : deleteRows s2 Gen.nameColumns.toList (eqStr "Table" name) = r3 at g3
        obtain ⟨s3, res3⟩ := r3
        cases res3 with
        | err k => exact (g1.trans g2).trans g3
        | panic w => exact (g1.trans g2).trans g3
        | ok u =>
          cases u
          simp only
          have hsep3 := g3.sep hsep2
          have g4 := good_deleteRows s3 hsep3 Gen.nameTables.toList (eqStr "Name" name)
          generalize hr4 : deleteRows s3 Gen.nameTables.toList (eqStr "Name" name) = r4 at g4
          obtain ⟨s4, res4⟩ := r4
          cases res4 with
          | err k => exact ((g1.trans g2).trans g3).trans g4
          | panic w => exact ((g1.trans g2).trans g3).trans g4
          | ok u =>
            cases u
            simp only
            have g5 : Good s4 { s4 with tables := s4.tables.filter (·.name != name) } :=
              ⟨⟨.refl _, .refl _, rfl, rfl⟩, fun h x hx => h x (List.mem_filter.mp hx).1⟩
            exact (((g1.trans g2).trans g3).trans g4).trans g5


/-! ### user streams, signatures, summary and code page setters -/

open MsiModel.StreamName in
theorem user_encoded_unpackable (n : List Char) : ∀ c ∈ encode n false, toB64 c = none := by
  intro c hc
  unfold encode at hc
  simp only [Bool.false_eq_true, if_false, List.nil_append] at hc
  rcases MsiProofs.C11.encodeAux_chars n c hc with h | h <;> exact h.2

theorem map_upper_unpackable (l : List Char) (h : ∀ c ∈ l, StreamName.toB64 c = none) : l.map Cont.upper = l := by
  induction l with
  | nil => rfl
  | cons c rest ih =>
    simp only [List.map_cons]
    rw [upper_id_of_unpackable c (h c (by simp)), ih (fun x hx => h x (by simp [hx]))]

open MsiModel.StreamName in
/-- an accepted user stream name is stored in a stream that is none of the metadata streams -/
theorem user_stream_notMeta (n : List Char) (hv : isValid n false = true) : NotMeta (encode n false) := by
  have hsep := MsiProofs.C11.separated n hv
  have hup := map_upper_unpackable _ (user_encoded_unpackable n)
  have table_case : ∀ m : List Char, key (encode n false) ≠ key (encode m true) := by
    intro m h
    unfold key at h
    have h2 := (Prod.mk.inj h).2
    rw [hup, map_upper_encoded] at h2
    apply hsep.2.1
    rw [h2]
    unfold encode
    simp
  refine ⟨table_case _, table_case _, ?_⟩
  intro h
  unfold key at h
  have h2 := (Prod.mk.inj h).2
  rw [hup] at h2
  have hmem : 'S' ∈ sSummary.map Cont.upper := by decide
  rw [← h2] at hmem
  have := user_encoded_unpackable n 'S' hmem
  revert this
  decide

theorem good_writeStream (s : Pkg) (n : List Char) (data : Bytes) : Good s (writeStream s n data).1 := by
  unfold writeStream
  split
  · exact .refl s
  · rename_i hv
    exact ⟨⟨.refl _, sameMeta_put _ _ _ (user_stream_notMeta n (by simpa using hv)), rfl, rfl⟩, id⟩

theorem good_removeStream (s : Pkg) (n : List Char) : Good s (removeStream s n).1 := by
  unfold removeStream
  split
  · exact .refl s
  · rename_i hv
    simp only
    split
    · exact .refl s
    · exact ⟨⟨.refl _, sameMeta_remove _ _ (user_stream_notMeta n (by simpa using hv)), rfl, rfl⟩, id⟩

theorem sig_names_notMeta : NotMeta Gen.snDigitalSignature.toList ∧ NotMeta Gen.snMsiDigitalSignatureEx.toList := by
  unfold NotMeta
  decide

theorem sameMeta_cond_remove (c : List Entry) (n : List Char) (hn : NotMeta n) :
    SameMeta c (if Cont.exists_ c n = true then Cont.remove c n else c) := by
  split
  · exact sameMeta_remove _ _ hn
  · exact .refl _

theorem good_removeSig (s : Pkg) : Good s (removeDigitalSignature s) := by
  unfold removeDigitalSignature
  refine ⟨⟨.refl _, ?_, rfl, rfl⟩, id⟩
  exact (sameMeta_cond_remove s.cont _ sig_names_notMeta.1).trans (sameMeta_cond_remove _ _ sig_names_notMeta.2)

/-- every request of the API other than a save -/
inductive Op
  | insert (t : List Char) (rows : List (List Value))
  | delete (t : List Char) (cond : Option Ast)
  | update (t : List Char) (ups : List (List Char × Value)) (cond : Option Ast)
  | createTable (name : List Char) (cols : List Column)
  | dropTable (name : List Char)
  | writeStream (n : List Char) (data : Bytes)
  | removeStream (n : List Char)
  | removeSignature
  | setSummary (f : PropSet → PropSet)        -- any `summary_info_mut()` setter or clearer
  | setCodepage (cp : Nat)                    -- `set_database_codepage`

def Op.run (s : Pkg) : Op → Pkg
  | .insert t rows => (insertRows s t rows).1
  | .delete t cond => (deleteRows s t cond).1
  | .update t ups cond => (updateRows s t ups cond).1
  | .createTable n cols => (Pkg.createTable s n cols).1
  | .dropTable n => (Pkg.dropTable s n).1
  | .writeStream n d => (Pkg.writeStream s n d).1
  | .removeStream n => (Pkg.removeStream s n).1
  | .removeSignature => removeDigitalSignature s
  | .setSummary f => { s with finisher := true, summaryModified := true, summary := f s.summary }
  | .setCodepage cp => { s with finisher := true, pool := { s.pool with codepage := cp, modified := true } }

/-- **one step**: every request keeps the invariant and keeps table streams apart from the
metadata streams -/
theorem op_step (s : Pkg) (op : Op) (hS : Synced s) (hsep : TablesSeparate s) :
    Synced (op.run s) ∧ TablesSeparate (op.run s) := by
  have good : ∀ s', Good s s' → Synced s' ∧ TablesSeparate s' :=
    fun s' g => ⟨synced_of_effect _ _ hS g.effect, g.sep hsep⟩
  cases op with
  | insert t rows => exact good _ (good_insertRows s hsep t rows)
  | delete t cond => exact good _ (good_deleteRows s hsep t cond)
  | update t ups cond => exact good _ (good_updateRows s hsep t ups cond)
  | createTable n cols => exact good _ (good_createTable s hsep n cols)
  | dropTable n => exact good _ (good_dropTable s hsep n)
  | writeStream n d => exact good _ (good_writeStream s n d)
  | removeStream n => exact good _ (good_removeStream s n)
  | removeSignature => exact good _ (good_removeSig s)
  | setSummary f => exact ⟨⟨fun h => by simp [Op.run] at h, hS.pool⟩, hsep⟩
  | setCodepage cp => exact ⟨⟨hS.summary, fun h => by simp [Op.run] at h⟩, hsep⟩

/-- **every history** -/
theorem history (ops : List Op) : ∀ (s : Pkg), Synced s → TablesSeparate s →
    Synced (ops.foldl Op.run s) ∧ TablesSeparate (ops.foldl Op.run s) := by
  induction ops with
  | nil => intro s h1 h2; exact ⟨h1, h2⟩
  | cons op ops ih =>
    intro s h1 h2
    obtain ⟨a, b⟩ := op_step s op h1 h2
    exact ih _ a b

theorem finish_tables (s : Pkg) : (finish s).1.tables = s.tables := by
  unfold finish
  cases s.summaryModified
  · simp only [Bool.false_eq_true, if_false]
    cases s.pool.modified
    · rfl
    · simp only [if_true]
      cases s.pool.writePool <;> cases s.pool.writeData <;> rfl
  · simp only [if_true]
    cases s.summary.write with
    | ok bs =>
      simp only
      cases s.pool.modified
      · rfl
      · simp only [if_true]
        cases s.pool.writePool <;> cases s.pool.writeData <;> rfl
    | err k => rfl
    | panic w => rfl

/-- a successful save re-establishes the invariant (so histories continue across saves) -/
theorem finish_step (s s' : Pkg) (E : List Char → Bytes) (hS : Synced s) (hsep : TablesSeparate s)
    (hsav : Savable s E) (h : finish s = (s', .ok ())) : Saved s' ∧ Synced s' ∧ TablesSeparate s' := by
  obtain ⟨hsaved, -, -, -⟩ := finish_saved_general s s' E hsav hS.summary hS.pool h
  refine ⟨hsaved, synced_of_saved s' hsaved, ?_⟩
  have ht : s'.tables = s.tables := by
    have := finish_tables s
    rw [h] at this
    exact this
  intro t hx
  exact hsep t (ht ▸ hx)


/-- the catalog tables every package starts with are stored apart from the metadata streams -/
theorem catalog_separate (long : Bool) :
    NotMeta (Catalog.tablesTable long).streamName ∧ NotMeta (Catalog.columnsTable long).streamName ∧
    NotMeta (Catalog.validationTable long).streamName := by
  unfold NotMeta
  cases long <;> decide

/-- **C01 on the model, for every history**: open any package whose table streams are apart from
the metadata streams, run any sequence of API requests (inserts, updates, deletes, tables
created and dropped, streams written and removed, signatures removed, summary and code page
setters; accepted or refused), save; if the save succeeds and the state is expressible in the
format, then opening the saved container gives a package with the same container, the same
summary information and the same string pool, whose table definitions are those the catalog
tables of that container hold — and every table definition reads the same rows as before -/
theorem reopen_after_any_history (pt : Option Nat) (cont : List Entry) (s0 : Pkg) (h0 : open_ pt cont = .ok s0)
    (hsep : TablesSeparate s0) (ops : List Op) (E : List Char → Bytes)
    (s1 : Pkg) (hflush : finish (ops.foldl Op.run s0) = (s1, .ok ()))
    (hsav : Savable (ops.foldl Op.run s0) E)
    (s2 : Pkg) (hre : open_ (some s1.ptype) s1.cont = .ok s2) :
    s2.cont = s1.cont ∧ s2.summary = s1.summary ∧ s2.pool = s1.pool ∧
    openTables s1.ptype s1.cont s1.summary s1.pool = .ok s2.tables ∧
    (∀ t : Table, s2.loadRows t = s1.loadRows t) := by
  obtain ⟨hS, hsep'⟩ := history ops s0 (open_synced pt cont s0 h0) hsep
  obtain ⟨hsaved, -, -⟩ := finish_step _ s1 E hS hsep' hsav hflush
  obtain ⟨hc, hsum, hpool, -, -, -, htab⟩ := reopen_same_meta s1 hsaved s2 hre
  exact ⟨hc, hsum, hpool, htab, fun t => rows_same_after_reopen s1 s2 hc t⟩

/-- the three ways of closing run the same finisher: `flush` is `finish` when a finisher is
armed, and every mutating request arms it -/
theorem flush_is_finish (s : Pkg) (h : s.finisher = true) : flush s = finish { s with finisher := false } := by
  unfold flush; simp [h]

end MsiProofs.Synced
