import MsiProofs.Lemmas.FullHistory
/-
`drop_table` keeps the package invariants and removes the definition from the catalog invariant.
-/
namespace MsiProofs.DropTable
open MsiModel MsiModel.Bytes MsiModel.Pkg MsiProofs.CatalogOpen MsiProofs.CatalogCodec MsiProofs.CatalogSync
open MsiProofs.GlobalInv MsiProofs.SortedInv MsiProofs.CatalogRows MsiProofs.Frame MsiProofs.Refine
open MsiProofs.RefineExact MsiProofs.RefineDelete MsiProofs.SaveOpen MsiProofs.RowsOk
open MsiProofs.CreateTable MsiProofs.FullHistory

theorem foldl_rows (rows : List (List Cell)) : ∀ p : Pool,
    rows.foldl (fun p r => r.foldl Cell.remove p) p = rows.flatten.foldl Cell.remove p := by
  induction rows with
  | nil => intro p; rfl
  | cons r rs ih => intro p; simp only [List.foldl_cons, List.flatten_cons, List.foldl_append]; exact ih _

theorem foldl_remove_sized (cells : List Cell) : ∀ p : Pool, PoolSized p →
    PoolSized (cells.foldl Cell.remove p) ∧ (cells.foldl Cell.remove p).longRefs = p.longRefs := by
  induction cells with
  | nil => intro p h; exact ⟨h, rfl⟩
  | cons c cs ih =>
    intro p h
    simp only [List.foldl_cons]
    obtain ⟨h1, h2⟩ := MsiProofs.RefineUpdate.remove_sized p c h
    obtain ⟨h3, h4⟩ := ih _ h1
    exact ⟨h3, h4.trans h2⟩

/-- the state after `drop_table` released the table's strings and removed its stream -/
def released (s : Pkg) (t : Table) (rows : List (List Cell)) : Pkg :=
  { s with finisher := true, pool := rows.foldl (fun p r => r.foldl Cell.remove p) s.pool,
           cont := Cont.remove s.cont t.streamName }

/-- **releasing a table**: the invariants hold with the table reading as empty, every other table
reads the same rows with the same values -/
theorem release_stage (slack : Nat → Nat) (s : Pkg) (hI : Inv slack s) (hS : SortedAll s) (t : Table)
    (htm : t ∈ s.tables) (rows : List (List Cell)) (hl : s.loadRows t = .ok rows) :
    Inv slack (released s t rows) ∧ SortedAll (released s t rows) ∧ Kept s (released s t rows) t.name ∧
    (released s t rows).loadRows t = .ok [] := by
  obtain ⟨pre, post, hsplit⟩ := split_at_table s.tables t htm
  have hcells : cellsOfTables s s.tables = cellsOfTables s pre ++ rows.flatten ++ cellsOfTables s post := by
    rw [hsplit, cellsOfTables_split, rowsOf_ok hl]
  have hposAll : PosRefs (cellsOfTables s pre ++ rows.flatten ++ cellsOfTables s post) := by
    rw [← hcells]; exact hI.pos
  have haccAll : AccountedWith slack s.pool (cellsOfTables s pre ++ rows.flatten ++ cellsOfTables s post) := by
    rw [← hcells]; exact hI.counts
  have hpool : (released s t rows).pool = rows.flatten.foldl Cell.remove s.pool := foldl_rows rows s.pool
  have hacc' := foldl_remove_accountedW slack rows.flatten s.pool _ _ hposAll haccAll
  obtain ⟨-, hvals⟩ := foldl_remove_accounted rows.flatten s.pool _ _ hposAll (haccAll.accounted hposAll)
  obtain ⟨hsz, hlong⟩ := foldl_remove_sized rows.flatten s.pool hI.sized
  have hempty : (released s t rows).loadRows t = .ok [] := by
    unfold Pkg.loadRows
    have : Cont.find (released s t rows).cont t.streamName = none :=
      find_none_of_dataOf (MsiProofs.StreamsMap.dataOf_remove_same s.cont t.streamName)
    rw [this]; rfl
  have hdist := hI.distinct
  rw [hsplit] at hdist
  have hdpre : ∀ x ∈ pre, key t.streamName ≠ key x.streamName := by
    intro x hx
    have := (List.pairwise_append.mp hdist).2.2 x hx t (by simp)
    exact fun e => this e.symm
  have hdpost : ∀ x ∈ post, key t.streamName ≠ key x.streamName := by
    intro x hx
    exact (List.pairwise_cons.mp (List.pairwise_append.mp hdist).2.1).1 x hx
  have hother : ∀ x, key t.streamName ≠ key x.streamName → (released s t rows).loadRows x = s.loadRows x :=
    fun x hx => loadRows_congr s _ x (MsiProofs.Synced.dataOf_remove_other s.cont _ _ hx)
  have hsame_pre : ∀ x ∈ pre, (released s t rows).loadRows x = s.loadRows x := fun x hx => hother x (hdpre x hx)
  have hsame_post : ∀ x ∈ post, (released s t rows).loadRows x = s.loadRows x := fun x hx => hother x (hdpost x hx)
  have hcells' : cellsOfTables (released s t rows) (released s t rows).tables =
      cellsOfTables s pre ++ cellsOfTables s post := by
    show cellsOfTables (released s t rows) s.tables = _
    rw [hsplit, cellsOfTables_split, rowsOf_ok hempty,
      MsiProofs.GlobalInv.cellsOfTables_congr s _ pre hsame_pre,
      MsiProofs.GlobalInv.cellsOfTables_congr s _ post hsame_post]
    simp
  have hmemX : ∀ x ∈ s.tables, x = t ∨ (x ∈ pre ∨ x ∈ post) := by
    intro x hx
    rw [hsplit] at hx
    simp only [List.mem_append, List.mem_cons] at hx
    rcases hx with h | h | h
    · exact Or.inr (Or.inl h)
    · exact Or.inl h
    · exact Or.inr (Or.inr h)
  have hvalsX : ∀ x, (x ∈ pre ∨ x ∈ post) → ∀ rs, s.loadRows x = .ok rs → ∀ r ∈ rs,
      rowValues (released s t rows).pool r = rowValues s.pool r := by
    intro x hx rs hlx r hr
    unfold rowValues
    apply List.map_congr_left
    intro c hc
    rw [hpool]
    apply hvals c
    simp only [List.mem_append]
    rcases hx with hx | hx
    · exact Or.inl (mem_cellsOfTables hx hlx hr hc)
    · exact Or.inr (mem_cellsOfTables hx hlx hr hc)
  refine ⟨⟨hI.distinct, ?_, ?_, ?_, ?_, ?_⟩, ?_, ⟨rfl, ?_, ?_, ?_⟩, hempty⟩
  · intro x hx
    rcases hmemX x hx with rfl | hx'
    · exact ⟨[], hempty⟩
    · rcases hx' with h | h
      · rw [hsame_pre x h]; exact hI.loads x hx
      · rw [hsame_post x h]; exact hI.loads x hx
  · rw [hcells']
    exact posRefs_sub hposAll (fun c hc => by
      simp only [List.mem_append] at hc ⊢
      rcases hc with h | h
      · exact Or.inl (Or.inl h)
      · exact Or.inr h)
  · rw [hcells', hpool]; exact hacc'
  · rw [hpool]; exact hsz
  · intro x hx
    have := hI.widths x hx
    rw [hpool, hlong]; exact this
  · intro x hx rs hlx
    rcases hmemX x hx with rfl | hx'
    · rw [hempty] at hlx; cases hlx; simp [KeysAscending]
    · have hsame : (released s t rows).loadRows x = s.loadRows x := by
        rcases hx' with h | h
        · exact hsame_pre x h
        · exact hsame_post x h
      rw [hsame] at hlx
      exact keysAscending_congr (fun r hr => hvalsX x hx' rs hlx r hr) (hS x hx rs hlx)
  · rw [hpool]; exact hlong
  · intro x hx hne
    rcases hmemX x hx with rfl | hx'
    · exact absurd rfl hne
    · rcases hx' with h | h
      · exact hsame_pre x h
      · exact hsame_post x h
  · intro x hx hne rs hlx r hr
    rcases hmemX x hx with rfl | hx'
    · exact absurd rfl hne
    · exact hvalsX x hx' rs hlx r hr


/-- a condition, evaluated on the values of a row -/
def condOn (t : Table) (cond : Option Ast) (v : List Value) : Res Bool :=
  match cond with
  | none => pure true
  | some e => do
    let x ← e.eval (mkRow t v)
    pure x.toBool

theorem evalCond_eq (t : Table) (p : Pool) (cond : Option Ast) (cells : List Cell) :
    evalCond t p cond cells = condOn t cond (rowValues p cells) := by
  cases cond <;> rfl

/-- one `Delete::exec` on a table, as the invariants and the readers see it -/
theorem stage_deleteExec (slack : Nat → Nat) (s : Pkg) (hIA : Inv slack s) (hS : SortedAll s) (tn : List Char)
    (cond : Option Ast) (s' : Pkg) (h : deleteExec s tn cond = (s', .ok ())) (X : Table)
    (hX : s.findTable tn = some X) :
    Inv slack s' ∧ SortedAll s' ∧ s'.tables = s.tables ∧ s'.pool.longRefs = s.pool.longRefs ∧
    (∀ P, Reads s X P → Reads s' X (fun v => P v ∧ condOn X cond v = .ok false)) ∧
    (∀ Y ∈ s.tables, Y.name ≠ tn → s'.loadRows Y = s.loadRows Y) ∧
    (∀ Y ∈ s.tables, Y.name ≠ tn → ∀ P, Reads s Y P → Reads s' Y P) ∧
    (∀ n, key X.streamName ≠ key n → dataOf s'.cont n = dataOf s.cont n) := by
  have hk := delete_kept slack _ tn cond s' hIA h
  have htm := findTable_spec _ tn X hX
  obtain ⟨rows, hl⟩ := hIA.loads X htm
  obtain ⟨pre, post, hsplit⟩ := split_at_table _ X htm
  have hcells : cellsOfTables s s.tables = cellsOfTables s pre ++ rows.flatten ++ cellsOfTables s post := by
    rw [hsplit, cellsOfTables_split, rowsOf_ok hl]
  have hperm : (cellsOfTables s s.tables).Perm (rows.flatten ++ (cellsOfTables s pre ++ cellsOfTables s post)) := by
    rw [hcells]
    simp only [List.append_assoc]
    exact List.perm_append_comm_assoc _ _ _
  have hposAll : PosRefs (rows.flatten ++ (cellsOfTables s pre ++ cellsOfTables s post)) :=
    fun r hr => hIA.pos r (hperm.mem_iff.mpr hr)
  have hacc := (accountedWith_perm hperm hIA.counts).accounted hposAll
  obtain ⟨hlr, hrs⟩ := hIA.widths X htm
  obtain ⟨hstored, hvals, -⟩ := MsiProofs.RefineLoad.delete_then_load _ tn cond s' h X hX rows hl _ hposAll hacc hrs
  obtain ⟨_, -, -, -, -, hframe, -, -⟩ := delete_refines _ tn cond s' h X hX rows hl _ hposAll hacc
  refine ⟨delete_inv slack _ tn cond s' hIA h, delete_sorted slack _ tn cond s' hIA hS h,
    hk.tables, hk.long, ?_, ?_, ?_, hframe⟩
  · intro P ⟨rows0, hl0, hm⟩
    have e0 : rows0 = rows := by
      have : (Res.ok rows0 : Res (List (List Cell))) = .ok rows := hl0.symm.trans hl
      cases this; rfl
    subst e0
    refine ⟨_, hstored, fun v => ?_⟩
    have hsame : (rows0.filter fun r => evalCond X s.pool cond r == .ok false).map (rowValues s'.pool) =
        (rows0.filter fun r => evalCond X s.pool cond r == .ok false).map (rowValues s.pool) := by
      apply List.map_congr_left
      intro r hr
      unfold rowValues
      apply List.map_congr_left
      intro c hc
      apply hvals c
      simp only [List.mem_append, List.mem_flatten]
      exact Or.inl ⟨r, hr, hc⟩
    rw [hsame]
    simp only [List.mem_map, List.mem_filter, beq_iff_eq]
    constructor
    · rintro ⟨r, ⟨hr, hc⟩, rfl⟩
      refine ⟨(hm _).mp (List.mem_map_of_mem hr), ?_⟩
      rw [← evalCond_eq]; exact hc
    · rintro ⟨hp, hc⟩
      obtain ⟨r, hr, rfl⟩ := List.mem_map.mp ((hm v).mpr hp)
      exact ⟨r, ⟨hr, by rw [evalCond_eq]; exact hc⟩, rfl⟩
  · intro Y hY hne; exact hk.rows Y hY hne
  · intro Y hY hne P hr; exact reads_kept hk hY hne hr

/-- one catalog delete of `drop_table` -/
theorem stage_delete (slack : Nat → Nat) (s : Pkg) (hI : Inv slack s) (hS : SortedAll s) (tn : List Char)
    (cond : Option Ast) (s' : Pkg) (h : deleteRows s tn cond = (s', .ok ())) (X : Table)
    (hX : s.findTable tn = some X) :
    Inv slack s' ∧ SortedAll s' ∧ s'.tables = s.tables ∧ s'.pool.longRefs = s.pool.longRefs ∧
    (∀ P, Reads s X P → Reads s' X (fun v => P v ∧ condOn X cond v = .ok false)) ∧
    (∀ Y ∈ s.tables, Y.name ≠ tn → s'.loadRows Y = s.loadRows Y) ∧
    (∀ Y ∈ s.tables, Y.name ≠ tn → ∀ P, Reads s Y P → Reads s' Y P) ∧
    (∀ n, key X.streamName ≠ key n → dataOf s'.cont n = dataOf s.cont n) :=
  stage_deleteExec slack { s with finisher := true } (inv_finisher slack s hI) (sorted_finisher s hS) tn cond s' h X hX

/-! ### the conditions `drop_table` uses -/

theorem toBool_fromBool (b : Bool) : (Value.fromBool b).toBool = b := by cases b <;> rfl

/-- `<first column> = name`, on a row whose first value is `v0` -/
theorem firstCol_cond (t : Table) (cn : String) (c0 : Column) (rest : List Column) (ht : t.columns = c0 :: rest)
    (hc : c0.name = cn.toList) (name : List Char) (v0 : Value) (vs : List Value) :
    condOn t (eqStr cn name) (v0 :: vs) = .ok (v0 == .str name) := by
  unfold condOn eqStr
  simp only [Ast.eval, mkRow, ht, List.map_cons, hc, Row.get, Row.indexOf, if_true, List.getElem?_cons_zero,
    bind, Res.bind, pure, BinOp.eval, toBool_fromBool]

end MsiProofs.DropTable
