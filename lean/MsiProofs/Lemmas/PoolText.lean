import MsiProofs.Lemmas.Lifecycle
/-
What the string pool can hold, as an invariant: if every string handed to the library satisfies a
predicate `A` (e.g. "the code page encodes it and decodes it back"), every entry of the pool
satisfies `A`, has a count below 65,536, and is empty only when unreferenced — which is what a
save needs of the pool (`PoolOk`).
-/
namespace MsiProofs.PoolText
open MsiModel MsiModel.Bytes MsiModel.Pkg

section
variable (C : Nat → Prop) (A : List Char → Prop)

def EntryT (e : List Char × Nat) : Prop := A e.1 ∧ e.2 < 65536 ∧ (e.1 = [] → e.2 = 0)
/-- the pool is fit to be written: a code page satisfying `C` (e.g. "supported", or "UTF-8"), every entry fit -/
def PT (p : Pool) : Prop := C p.codepage ∧ ∀ e ∈ p.strings, EntryT A e
/-- a value the library may be handed (as stored: "" has become null) -/
def ValT : Value → Prop
  | .str s => A s ∧ s ≠ []
  | _ => True

theorem increfScan_pt (s : List Char) (hs : A s) (hne : s ≠ []) : ∀ (l : List (List Char × Nat)) (idx : Nat)
    (l' : List (List Char × Nat)) (r : Nat), Pool.increfScan s l idx = some (l', r) →
    (∀ e ∈ l, EntryT A e) → ∀ e ∈ l', EntryT A e := by
  intro l
  induction l with
  | nil => intro idx l' r h; cases h
  | cons x rest ih =>
    intro idx l' r h hl
    obtain ⟨st, rc⟩ := x
    simp only [Pool.increfScan] at h
    by_cases h0 : rc = 0
    · rw [if_pos h0] at h
      cases h
      intro e he
      simp only [List.mem_cons] at he
      rcases he with rfl | he
      · exact ⟨hs, by omega, fun e0 => absurd e0 hne⟩
      · exact hl e (by simp [he])
    · rw [if_neg h0] at h
      by_cases h1 : st = s ∧ rc < Gen.maxRefcount
      · rw [if_pos h1] at h
        cases h
        intro e he
        simp only [List.mem_cons] at he
        rcases he with rfl | he
        · have hm : Gen.maxRefcount = 65535 := rfl
          obtain ⟨ha, -, -⟩ := hl (st, rc) (by simp)
          refine ⟨ha, by have := h1.2; omega, fun e0 => ?_⟩
          exact absurd (h1.1 ▸ e0) hne
        · exact hl e (by simp [he])
      · rw [if_neg h1] at h
        cases hr : Pool.increfScan s rest (idx + 1) with
        | none => rw [hr] at h; cases h
        | some x =>
          obtain ⟨rest', r'⟩ := x
          rw [hr] at h
          cases h
          intro e he
          simp only [List.mem_cons] at he
          rcases he with rfl | he
          · exact hl _ (by simp)
          · exact ih (idx + 1) rest' _ hr (fun e he => hl e (by simp [he])) e he

theorem incref_pt (p : Pool) (s : List Char) (hs : A s) (hne : s ≠ []) (p' : Pool) (r : Nat)
    (h : p.incref s = .ok (p', r)) (hp : PT C A p) : PT C A p' := by
  unfold Pool.incref at h
  cases hsc : Pool.increfScan s p.strings 0 with
  | some x =>
    obtain ⟨strings, r'⟩ := x
    rw [hsc] at h
    cases h
    exact ⟨hp.1, increfScan_pt A s hs hne p.strings 0 _ _ hsc hp.2⟩
  | none =>
    rw [hsc] at h
    simp only at h
    split at h
    · cases h
    · split at h
      · cases h
      · cases h
        refine ⟨hp.1, ?_⟩
        intro e he
        simp only [List.mem_append, List.mem_singleton] at he
        rcases he with he | rfl
        · exact hp.2 e he
        · exact ⟨hs, by omega, fun e0 => absurd e0 hne⟩

theorem decrefAt_pt (h0 : A []) : ∀ (l : List (List Char × Nat)) (i : Nat) (l' : List (List Char × Nat)),
    Pool.decrefAt l i = some l' → (∀ e ∈ l, EntryT A e) → ∀ e ∈ l', EntryT A e := by
  intro l
  induction l with
  | nil => intro i l' h; cases i <;> cases h
  | cons x rest ih =>
    intro i l' h hl
    obtain ⟨st, rc⟩ := x
    cases i with
    | zero =>
      simp only [Pool.decrefAt] at h
      split at h
      · cases h
      · cases h
        intro e he
        simp only [List.mem_cons] at he
        rcases he with rfl | he
        · obtain ⟨ha, hb, hc⟩ := hl (st, rc) (by simp)
          by_cases hz : rc - 1 = 0
          · simp only [hz, if_true]; exact ⟨h0, by omega, fun _ => rfl⟩
          · simp only [hz, if_false]
            refine ⟨ha, by simp only at hb ⊢; omega, fun e0 => ?_⟩
            have := hc e0; simp only at this; omega
        · exact hl e (by simp [he])
    | succ j =>
      simp only [Pool.decrefAt] at h
      cases hr : Pool.decrefAt rest j with
      | none => rw [hr] at h; cases h
      | some r' =>
        rw [hr] at h
        cases h
        intro e he
        simp only [List.mem_cons] at he
        rcases he with rfl | he
        · exact hl _ (by simp)
        · exact ih j r' hr (fun e he => hl e (by simp [he])) e he

theorem decref_pt (h0 : A []) (p : Pool) (r : Nat) (hp : PT C A p) : PT C A (p.decref r) := by
  unfold Pool.decref
  cases hd : Pool.decrefAt p.strings (r - 1) with
  | none => exact hp
  | some l' => exact ⟨hp.1, decrefAt_pt A h0 p.strings (r - 1) l' hd hp.2⟩

theorem remove_pt (h0 : A []) (p : Pool) (c : Cell) (hp : PT C A p) : PT C A (Cell.remove p c) := by
  cases c with
  | str r => exact decref_pt C A h0 p r hp
  | null => exact hp
  | int n => exact hp

theorem foldl_remove_pt (h0 : A []) (cells : List Cell) : ∀ p, PT C A p → PT C A (cells.foldl Cell.remove p) := by
  induction cells with
  | nil => intro p h; exact h
  | cons c cs ih => intro p h; exact ih _ (remove_pt C A h0 p c h)

theorem create_pt (p : Pool) (v : Value) (hv : ValT A v) (p' : Pool) (c : Cell)
    (h : Cell.create p v = .ok (p', c)) (hp : PT C A p) : PT C A p' := by
  cases v with
  | null => cases h; exact hp
  | int n => cases h; exact hp
  | str s =>
    simp only [Cell.create, bind, Res.bind] at h
    cases hi : p.incref s with
    | ok x =>
      obtain ⟨q, r⟩ := x
      simp only [hi, pure, Res.ok.injEq, Prod.mk.injEq] at h
      obtain ⟨rfl, -⟩ := h
      exact incref_pt C A p s hv.1 hv.2 q r hi hp
    | err k => simp [hi] at h
    | panic w => simp [hi] at h

theorem createCells_pt (vs : List Value) : ∀ (p : Pool) (acc : List Cell) (p' : Pool) (cs : List Cell),
    (∀ v ∈ vs, ValT A v) → createCells p vs acc = .ok (p', cs) → PT C A p → PT C A p' := by
  induction vs with
  | nil => intro p acc p' cs _ h hp; simp only [createCells, pure, Res.ok.injEq, Prod.mk.injEq] at h; rw [← h.1]; exact hp
  | cons v vs ih =>
    intro p acc p' cs hv h hp
    simp only [createCells, bind, Res.bind] at h
    cases hc : Cell.create p v with
    | ok x =>
      obtain ⟨q, c⟩ := x
      simp only [hc] at h
      exact ih q _ p' cs (fun v' hv' => hv v' (by simp [hv'])) h (create_pt C A p v (hv v (by simp)) q c hc hp)
    | err k => simp [hc] at h
    | panic w => simp [hc] at h

theorem addRows_pt (keyIdx : List Nat) (rows : List (List Value)) : ∀ (p : Pool) (m : RowMap) (p' : Pool) (m' : RowMap),
    (∀ r ∈ rows, ∀ v ∈ r, ValT A v) → addRows keyIdx p rows m = .ok (p', m') → PT C A p → PT C A p' := by
  induction rows with
  | nil => intro p m p' m' _ h hp; simp only [addRows, pure, Res.ok.injEq, Prod.mk.injEq] at h; rw [← h.1]; exact hp
  | cons r rs ih =>
    intro p m p' m' hv h hp
    simp only [addRows, bind, Res.bind] at h
    cases hc : createCells p r [] with
    | ok x =>
      obtain ⟨q, cells⟩ := x
      simp only [hc] at h
      cases hm : mapInsert (keyOf keyIdx r) cells m with
      | none => simp [hm] at h
      | some m1 =>
        simp only [hm] at h
        exact ih q m1 p' m' (fun r' hr' => hv r' (by simp [hr'])) h
          (createCells_pt C A r p [] q cells (hv r (by simp)) hc hp)
    | err k => simp [hc] at h
    | panic w => simp [hc] at h

theorem deleteGo_pt (h0 : A []) (t : Table) (cond : Option Ast) (rows : List (List Cell)) :
    ∀ (p : Pool) (acc : List (List Cell)) (p' : Pool) (kept : List (List Cell)),
    deleteGo t cond p rows acc = .ok (p', kept) → PT C A p → PT C A p' := by
  induction rows with
  | nil => intro p acc p' kept h hp; simp only [deleteGo, pure, Res.ok.injEq, Prod.mk.injEq] at h; rw [← h.1]; exact hp
  | cons r rs ih =>
    intro p acc p' kept h hp
    simp only [deleteGo, bind, Res.bind] at h
    cases he : evalCond t p cond r with
    | ok del =>
      simp only [he] at h
      cases del with
      | true => simp only [if_true] at h; exact ih _ _ p' kept h (foldl_remove_pt C A h0 r p hp)
      | false => simp only [Bool.false_eq_true, if_false] at h; exact ih _ _ p' kept h hp
    | err k => simp [he] at h
    | panic w => simp [he] at h

theorem cellsUpd_pt (h0 : A []) (us : List (Nat × Value)) : ∀ (p : Pool) (cells : List Cell) (p' : Pool) (cells' : List Cell),
    (∀ u ∈ us, ValT A u.2) → cellsUpd p cells us = .ok (p', cells') → PT C A p → PT C A p' := by
  induction us with
  | nil => intro p cells p' cells' _ h hp; simp only [cellsUpd, pure, Res.ok.injEq, Prod.mk.injEq] at h; rw [← h.1]; exact hp
  | cons u us ih =>
    intro p cells p' cells' hv h hp
    obtain ⟨i, v⟩ := u
    simp only [cellsUpd, bind, Res.bind] at h
    generalize hg : cells.getD i Cell.null = old at h
    cases hc : Cell.create (Cell.remove p old) v with
    | ok x =>
      obtain ⟨q, c⟩ := x
      simp only [hc] at h
      exact ih q _ p' cells' (fun u' hu' => hv u' (by simp [hu'])) h
        (create_pt C A _ v (hv (i, v) (by simp)) q c hc (remove_pt C A h0 p old hp))
    | err k => simp [hc] at h
    | panic w => simp [hc] at h

theorem updApply_pt (h0 : A []) (ups : List (Nat × Value)) (hv : ∀ u ∈ ups, ValT A u.2) (rows : List (List Cell)) :
    ∀ (p : Pool) (pl : List (List Value × Bool)) (acc : List (List Cell)) (p' : Pool) (rows' : List (List Cell)),
    updApply ups p rows pl acc = .ok (p', rows') → PT C A p → PT C A p' := by
  induction rows with
  | nil => intro p pl acc p' rows' h hp; simp only [updApply, pure, Res.ok.injEq, Prod.mk.injEq] at h; rw [← h.1]; exact hp
  | cons r rs ih =>
    intro p pl acc p' rows' h hp
    cases pl with
    | nil => simp only [updApply, pure, Res.ok.injEq, Prod.mk.injEq] at h; rw [← h.1]; exact hp
    | cons e pl' =>
      obtain ⟨vs, m⟩ := e
      cases m with
      | false => simp only [updApply, Bool.false_eq_true, if_false] at h; exact ih p pl' _ p' rows' h hp
      | true =>
        simp only [updApply, if_true, bind, Res.bind] at h
        cases hc : cellsUpd p r ups with
        | ok x =>
          obtain ⟨q, cells'⟩ := x
          simp only [hc] at h
          exact ih q pl' _ p' rows' h (cellsUpd_pt C A h0 ups p r q cells' hv hc hp)
        | err k => simp [hc] at h
        | panic w => simp [hc] at h


/-! ### the statements -/

/-- a value as the caller hands it over: its text satisfies `A` -/
def ValA : Value → Prop
  | .str s => A s
  | _ => True

theorem valT_storable (v : Value) (h : ValA A v) : ValT A (storable v) := by
  cases v with
  | null => trivial
  | int n => trivial
  | str s =>
    cases s with
    | nil => trivial
    | cons c cs => exact ⟨h, by simp⟩

theorem storeRows_pool (s : Pkg) (t : Table) (rows : List (List Cell)) : (storeRows s t rows).1.pool = s.pool := by
  unfold storeRows
  cases t.writeRows rows <;> rfl

theorem insertExec_pt (s : Pkg) (tname : List Char) (rows : List (List Value))
    (hrows : ∀ r ∈ rows, ∀ v ∈ r, ValA A v) (hp : PT C A s.pool) : PT C A (insertExec s tname rows).1.pool := by
  unfold insertExec
  cases hf : s.findTable tname with
  | none => exact hp
  | some t =>
    simp only
    split; · exact hp
    split; · exact hp
    cases hl : s.loadRows t with
    | err k => exact hp
    | panic w => exact hp
    | ok existing =>
      simp only
      cases hm : loadMap s.pool t.keyIndices existing [] with
      | none => exact hp
      | some m =>
        simp only
        cases hc : checkNew t.keyIndices m (rows.map fun r => r.map storable) [] with
        | some k => exact hp
        | none =>
          simp only
          split; · exact hp
          cases ha : addRows t.keyIndices s.pool (rows.map fun r => r.map storable) m with
          | err k => exact hp
          | panic w => exact hp
          | ok x =>
            obtain ⟨pool', m'⟩ := x
            simp only
            rw [storeRows_pool]
            refine addRows_pt C A _ _ _ _ _ _ ?_ ha hp
            intro r hr v hv
            obtain ⟨r0, hr0, rfl⟩ := List.mem_map.mp hr
            obtain ⟨v0, hv0, rfl⟩ := List.mem_map.mp hv
            exact valT_storable A v0 (hrows r0 hr0 v0 hv0)

theorem deleteExec_pt (h0 : A []) (s : Pkg) (tname : List Char) (cond : Option Ast) (hp : PT C A s.pool) :
    PT C A (deleteExec s tname cond).1.pool := by
  unfold deleteExec
  cases hf : s.findTable tname with
  | none => exact hp
  | some t =>
    simp only
    split; · exact hp
    cases hl : s.loadRows t with
    | err k => exact hp
    | panic w => exact hp
    | ok rows =>
      simp only
      cases hd : deleteGo t cond s.pool rows [] with
      | err k => exact hp
      | panic w => exact hp
      | ok x =>
        obtain ⟨pool', kept⟩ := x
        simp only
        rw [storeRows_pool]
        exact deleteGo_pt C A h0 t cond rows s.pool [] pool' kept hd hp

theorem upd_tail_pt (h0 : A []) (s : Pkg) (t : Table) (ups : List (Nat × Value)) (hv : ∀ u ∈ ups, ValT A u.2)
    (rows : List (List Cell)) (planned : List (List Value × Bool)) (dup : Bool) (order : List Nat) (hp : PT C A s.pool) :
    PT C A (if dup = true then (s, Res.err ErrKind.alreadyExists) else
      match updApply ups s.pool rows planned [] with
      | .err k => (s, .err k)
      | .panic w => (s, .panic w)
      | .ok (pool', rows') => storeRows { s with pool := pool' } t (order.map fun i => rows'.getD i [])).1.pool := by
  cases dup with
  | true => exact hp
  | false =>
    simp only [Bool.false_eq_true, if_false]
    cases hu : updApply ups s.pool rows planned [] with
    | err k => exact hp
    | panic w => exact hp
    | ok x =>
      obtain ⟨pool', rows'⟩ := x
      simp only
      rw [storeRows_pool]
      exact updApply_pt C A h0 ups hv rows s.pool planned [] pool' rows' hu hp

theorem updateExec_pt (h0 : A []) (s : Pkg) (tname : List Char) (ups : List (List Char × Value)) (cond : Option Ast)
    (hups : ∀ u ∈ ups, ValA A u.2) (hp : PT C A s.pool) : PT C A (updateExec s tname ups cond).1.pool := by
  unfold updateExec
  cases hf : s.findTable tname with
  | none => exact hp
  | some t =>
    simp only
    cases hv : validateUpdates t ups with
    | some k => exact hp
    | none =>
      simp only
      split; · exact hp
      cases hl : s.loadRows t with
      | err k => exact hp
      | panic w => exact hp
      | ok rows =>
        simp only
        cases hpl : updPlan t s.pool cond
            (List.filterMap (fun x => Option.map (fun i => (i, storable x.snd)) (t.indexOfColumn x.fst)) ups) rows [] with
        | err k => exact hp
        | panic w => exact hp
        | ok planned =>
          refine upd_tail_pt C A h0 s t _ ?_ _ _ _ _ hp
          intro u hu
          obtain ⟨x, hx, hxu⟩ := List.mem_filterMap.mp hu
          cases hi : t.indexOfColumn x.1 with
          | none => rw [hi] at hxu; cases hxu
          | some i =>
            rw [hi] at hxu
            cases hxu
            exact valT_storable A x.2 (hups x hx)


def RowsA (rows : List (List Value)) : Prop := ∀ r ∈ rows, ∀ v ∈ r, ValA A v

theorem insertRows_pt (s : Pkg) (tn : List Char) (rows : List (List Value)) (hr : RowsA A rows) (hp : PT C A s.pool) :
    PT C A (insertRows s tn rows).1.pool :=
  insertExec_pt C A { s with finisher := true } tn rows hr hp

theorem deleteRows_pt (h0 : A []) (s : Pkg) (tn : List Char) (cond : Option Ast) (hp : PT C A s.pool) :
    PT C A (deleteRows s tn cond).1.pool :=
  deleteExec_pt C A h0 { s with finisher := true } tn cond hp

/-- `create_table` with a schema whose texts satisfy `A` -/
theorem createTable_pt (s : Pkg) (name : List Char) (cols : List Column)
    (h1 : RowsA A (catalogRowsColumns name cols)) (h2 : RowsA A [[.str name]])
    (h3 : RowsA A (catalogRowsValidation name cols)) (hp : PT C A s.pool) :
    PT C A (createTable s name cols).1.pool := by
  unfold createTable
  cases hce : createError s name cols with
  | some k => exact hp
  | none =>
    simp only
    cases hroom : catalogRoom s name cols with
    | err k => exact hp
    | panic w => exact hp
    | ok u =>
    cases u
    simp only
    have g1 := insertRows_pt C A s Gen.nameColumns.toList _ h1 hp
    generalize hr1 : insertRows s Gen.nameColumns.toList (catalogRowsColumns name cols) = r1 at g1
    obtain ⟨s1, res1⟩ := r1
    cases res1 with
    | err k => exact g1
    | panic w => exact g1
    | ok u =>
      cases u
      simp only
      have g2 := insertRows_pt C A s1 Gen.nameTables.toList _ h2 g1
      generalize hr2 : insertRows s1 Gen.nameTables.toList [[.str name]] = r2 at g2
      obtain ⟨s2, res2⟩ := r2
      cases res2 with
      | err k => exact g2
      | panic w => exact g2
      | ok u =>
        cases u
        simp only
        exact insertRows_pt C A _ Gen.nameValidation.toList _ h3 g2

theorem foldl_rows_pt (h0 : A []) (rows : List (List Cell)) : ∀ p, PT C A p →
    PT C A (rows.foldl (fun p r => r.foldl Cell.remove p) p) := by
  induction rows with
  | nil => intro p h; exact h
  | cons r rs ih => intro p h; exact ih _ (foldl_remove_pt C A h0 r p h)

theorem dropTable_pt (h0 : A []) (s : Pkg) (name : List Char) (hp : PT C A s.pool) :
    PT C A (dropTable s name).1.pool := by
  unfold dropTable
  split; · exact hp
  split; · exact hp
  cases hf : s.findTable name with
  | none => exact hp
  | some t =>
    simp only
    have g1 : PT C A (if Cont.exists_ s.cont t.streamName = true then
        match s.loadRows t with
        | .err k => (s, Res.err k)
        | .panic w => (s, Res.panic w)
        | .ok rows =>
          ({ s with finisher := true, pool := rows.foldl (fun p r => r.foldl Cell.remove p) s.pool,
                    cont := Cont.remove s.cont t.streamName }, Res.ok ())
      else (s, Res.ok ())).1.pool := by
      split
      · cases s.loadRows t with
        | err k => exact hp
        | panic w => exact hp
        | ok rows => exact foldl_rows_pt C A h0 rows s.pool hp
      · exact hp
    generalize hr1 : (if Cont.exists_ s.cont t.streamName = true then
        match s.loadRows t with
        | .err k => (s, Res.err k)
        | .panic w => (s, Res.panic w)
        | .ok rows =>
          ({ s with finisher := true, pool := rows.foldl (fun p r => r.foldl Cell.remove p) s.pool,
                    cont := Cont.remove s.cont t.streamName }, Res.ok ())
      else (s, Res.ok ())) = r1 at g1
    obtain ⟨s1, res1⟩ := r1
    cases res1 with
    | err k => exact g1
    | panic w => exact g1
    | ok u =>
      cases u
      simp only
      have g2 : PT C A (deleteValidation s1 name).1.pool := by
        rcases MsiProofs.DeleteValidation.deleteValidation_cases s1 name with e | e <;> rw [e]
        · exact deleteRows_pt C A h0 s1 Gen.nameValidation.toList (eqStr "Table" name) g1
        · exact g1
      generalize hr2 : deleteValidation s1 name = r2 at g2
      obtain ⟨s2, res2⟩ := r2
      cases res2 with
      | err k => exact g2
      | panic w => exact g2
      | ok u =>
        cases u
        simp only
        have g3 := deleteRows_pt C A h0 s2 Gen.nameColumns.toList (eqStr "Table" name) g2
        generalize hr3 : deleteRows s2 Gen.nameColumns.toList (eqStr "Table" name) = r3 at g3
        obtain ⟨s3, res3⟩ := r3
        cases res3 with
        | err k => exact g3
        | panic w => exact g3
        | ok u =>
          cases u
          simp only
          have g4 := deleteRows_pt C A h0 s3 Gen.nameTables.toList (eqStr "Name" name) g3
          generalize hr4 : deleteRows s3 Gen.nameTables.toList (eqStr "Name" name) = r4 at g4
          obtain ⟨s4, res4⟩ := r4
          cases res4 with
          | err k => exact g4
          | panic w => exact g4
          | ok u => cases u; exact g4

end
end MsiProofs.PoolText
