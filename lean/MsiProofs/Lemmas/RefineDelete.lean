import MsiProofs.Lemmas.Refine
/-
`Delete::exec` against the relational reading: when the reference counts of the string pool
cover the references held by the stored cells (`Accounted`), deleting rows releases exactly
their references, so the values of all rows that stay — in this table and anywhere else — are
unchanged, the rows kept are exactly those for which the condition (evaluated on the original
values) is false, and the accounting keeps holding.
-/
namespace MsiProofs.RefineDelete
open MsiModel MsiModel.Bytes MsiModel.Pkg MsiProofs.Refine

/-- string cells refer to positions ≥ 1 (0 is the null reference and never a `str` cell) -/
def PosRefs (cells : List Cell) : Prop := ∀ r, Cell.str r ∈ cells → 0 < r

/-- the pool's reference counts cover the references held by `cells` -/
def Accounted (p : Pool) (cells : List Cell) : Prop := ∀ r, cells.count (.str r) ≤ p.refcount r

theorem decrefAt_spec (l : List (List Char × Nat)) : ∀ (i : Nat) (l' : List (List Char × Nat)),
    Pool.decrefAt l i = some l' →
    (∀ j, j ≠ i → l'[j]? = l[j]?) ∧
    ∃ st rc, l[i]? = some (st, rc) ∧ 0 < rc ∧ l'[i]? = some (if rc - 1 = 0 then [] else st, rc - 1) := by
  induction l with
  | nil => intro i l' h; simp [Pool.decrefAt] at h
  | cons e rest ih =>
    intro i l' h
    obtain ⟨st, rc⟩ := e
    cases i with
    | zero =>
      simp only [Pool.decrefAt] at h
      split at h
      · cases h
      · rename_i hrc
        cases h
        refine ⟨?_, st, rc, by simp, by omega, by simp⟩
        intro j hj
        cases j with
        | zero => exact absurd rfl hj
        | succ j' => simp
    | succ i' =>
      simp only [Pool.decrefAt] at h
      cases hr : Pool.decrefAt rest i' with
      | none => simp [hr] at h
      | some x =>
        simp only [hr, Option.map_some, Option.some.injEq] at h
        subst h
        obtain ⟨h1, st', rc', h2, h3, h4⟩ := ih i' x hr
        refine ⟨?_, st', rc', by simpa using h2, h3, by simpa using h4⟩
        intro j hj
        cases j with
        | zero => simp
        | succ j' => simpa using h1 j' (by omega)

theorem decrefAt_none (l : List (List Char × Nat)) : ∀ (i : Nat), Pool.decrefAt l i = none →
    ∀ st rc, l[i]? = some (st, rc) → rc = 0 := by
  induction l with
  | nil => intro i _ st rc h; simp at h
  | cons e rest ih =>
    intro i h st rc hi
    obtain ⟨st0, rc0⟩ := e
    cases i with
    | zero =>
      simp only [Pool.decrefAt] at h
      simp only [List.getElem?_cons_zero, Option.some.injEq, Prod.mk.injEq] at hi
      split at h
      · omega
      · cases h
    | succ i' =>
      simp only [Pool.decrefAt] at h
      cases hr : Pool.decrefAt rest i' with
      | none => exact ih i' hr st rc (by simpa using hi)
      | some x => simp [hr] at h

/-- **`decref` releases one reference of `r` and nothing else**: other entries are untouched, and
`r` itself keeps its text as long as a reference remains -/
theorem decref_spec (p : Pool) (r : Nat) (hr : 0 < r) :
    (∀ q, 0 < q → q ≠ r → (p.decref r).get q = p.get q ∧ (p.decref r).refcount q = p.refcount q) ∧
    (p.decref r).refcount r = p.refcount r - 1 ∧
    (1 < p.refcount r → (p.decref r).get r = p.get r) := by
  unfold Pool.decref
  cases hd : Pool.decrefAt p.strings (r - 1) with
  | none =>
    refine ⟨fun q _ _ => ⟨rfl, rfl⟩, ?_, fun _ => rfl⟩
    simp only
    unfold Pool.refcount
    cases he : p.strings[r - 1]? with
    | none => simp
    | some e =>
      obtain ⟨st, rc⟩ := e
      have := decrefAt_none p.strings (r - 1) hd st rc he
      simp [this]
  | some l' =>
    obtain ⟨h1, st, rc, h2, h3, h4⟩ := decrefAt_spec p.strings (r - 1) l' hd
    refine ⟨?_, ?_, ?_⟩
    · intro q hq hne
      have : q - 1 ≠ r - 1 := by omega
      unfold Pool.get Pool.refcount
      simp only [h1 (q - 1) this]
      exact ⟨trivial, trivial⟩
    · unfold Pool.refcount
      simp [h2, h4]
    · intro hgt
      unfold Pool.get Pool.refcount at *
      simp only [h2] at hgt
      simp only [h4, h2]
      have : ¬ (rc - 1 = 0) := by omega
      simp [this]

theorem count_str_cons (c : Cell) (rest : List Cell) (r : Nat) :
    (c :: rest).count (.str r) = (if c = .str r then 1 else 0) + rest.count (.str r) := by
  rw [List.count_cons]
  by_cases h : c = .str r
  · simp [h]; omega
  · have : (c == Cell.str r) = false := by simpa using h
    simp [h, this]

/-- releasing the reference of one cell (anywhere in the list): the other cells stay accounted
and keep their values -/
theorem remove_accounted (p : Pool) (pre : List Cell) (c : Cell) (rest : List Cell)
    (hpos : PosRefs (pre ++ c :: rest)) (hacc : Accounted p (pre ++ c :: rest)) :
    Accounted (Cell.remove p c) (pre ++ rest) ∧
    (∀ d ∈ pre ++ rest, Cell.toValue (Cell.remove p c) d = Cell.toValue p d) := by
  have hcount : ∀ q, (pre ++ c :: rest).count (.str q) = (if c = .str q then 1 else 0) + (pre ++ rest).count (.str q) := by
    intro q
    rw [List.count_append, count_str_cons, List.count_append]; omega
  cases c with
  | null =>
    refine ⟨fun r => ?_, fun _ _ => rfl⟩
    have := hacc r; rw [hcount] at this
    show (pre ++ rest).count (.str r) ≤ p.refcount r
    simpa using this
  | int n =>
    refine ⟨fun r => ?_, fun _ _ => rfl⟩
    have := hacc r; rw [hcount] at this
    show (pre ++ rest).count (.str r) ≤ p.refcount r
    simpa using this
  | str r =>
    have hr : 0 < r := hpos r (by simp)
    obtain ⟨h1, h2, h3⟩ := decref_spec p r hr
    refine ⟨?_, ?_⟩
    · intro q
      have hq := hacc q
      rw [hcount] at hq
      by_cases hqr : q = r
      · subst hqr
        simp only [Cell.remove, if_true] at hq ⊢
        rw [h2]; omega
      · have hne : ¬ (Cell.str r = Cell.str q) := by intro e; injection e with e; exact hqr e.symm
        simp only [hne, if_false, Nat.zero_add] at hq
        by_cases hq0 : 0 < q
        · simp only [Cell.remove]; rw [(h1 q hq0 hqr).2]; exact hq
        · have : (pre ++ rest).count (.str q) = 0 := by
            apply List.count_eq_zero.mpr
            intro hm
            apply hq0
            apply hpos q
            simp only [List.mem_append, List.mem_cons] at hm ⊢
            rcases hm with hm | hm
            · exact Or.inl hm
            · exact Or.inr (Or.inr hm)
          omega
    · intro d hd
      cases d with
      | null => rfl
      | int n => rfl
      | str q =>
        have hq0 : 0 < q := by
          apply hpos q
          simp only [List.mem_append, List.mem_cons] at hd ⊢
          rcases hd with hd | hd
          · exact Or.inl hd
          · exact Or.inr (Or.inr hd)
        simp only [Cell.toValue, Cell.remove]
        by_cases hqr : q = r
        · subst hqr
          have hq := hacc q
          rw [hcount] at hq
          simp only [if_true] at hq
          have : 1 ≤ (pre ++ rest).count (.str q) := List.count_pos_iff.mpr hd
          rw [h3 (by omega)]
        · rw [(h1 q hq0 hqr).1]

/-- releasing all references of a row standing anywhere in the list -/
theorem foldl_remove_accounted (row : List Cell) : ∀ (p : Pool) (pre rest : List Cell),
    PosRefs (pre ++ row ++ rest) → Accounted p (pre ++ row ++ rest) →
    Accounted (row.foldl Cell.remove p) (pre ++ rest) ∧
    (∀ d ∈ pre ++ rest, Cell.toValue (row.foldl Cell.remove p) d = Cell.toValue p d) := by
  induction row with
  | nil => intro p pre rest _ h; exact ⟨by simpa using h, fun _ _ => rfl⟩
  | cons c cs ih =>
    intro p pre rest hpos hacc
    have e : pre ++ (c :: cs) ++ rest = pre ++ c :: (cs ++ rest) := by simp
    rw [e] at hpos hacc
    obtain ⟨h1, h2⟩ := remove_accounted p pre c (cs ++ rest) hpos hacc
    have e2 : pre ++ (cs ++ rest) = pre ++ cs ++ rest := by simp
    rw [e2] at h1
    have hpos2 : PosRefs (pre ++ cs ++ rest) := by
      intro r hr
      apply hpos r
      simp only [List.mem_append, List.mem_cons] at hr ⊢
      rcases hr with (hr | hr) | hr
      · exact Or.inl hr
      · exact Or.inr (Or.inr (Or.inl hr))
      · exact Or.inr (Or.inr (Or.inr hr))
    obtain ⟨h3, h4⟩ := ih (Cell.remove p c) pre rest hpos2 h1
    refine ⟨h3, ?_⟩
    intro d hd
    simp only [List.foldl_cons]
    rw [h4 d hd]
    apply h2 d
    simp only [List.mem_append] at hd ⊢
    rcases hd with hd | hd
    · exact Or.inl hd
    · exact Or.inr (Or.inr hd)

theorem evalCond_congr (t : Table) (p1 p2 : Pool) (cond : Option Ast) (cells : List Cell)
    (h : rowValues p1 cells = rowValues p2 cells) : evalCond t p1 cond cells = evalCond t p2 cond cells := by
  unfold evalCond
  cases cond with
  | none => rfl
  | some e => simp only [h]

/-- **the `retain` loop of `Delete::exec`, relationally**: with the references of the rows still
to be looked at (`rows`) and of any other cells of interest (`pre`, `post`: rows already kept,
other tables) accounted for, the loop keeps exactly the rows on which the condition — evaluated
on the ORIGINAL values — is false, in order; every kept or other cell keeps its value; and the
accounting holds for what remains -/
theorem deleteGo_refines (t : Table) (cond : Option Ast) (rows : List (List Cell)) :
    ∀ (p : Pool) (acc : List (List Cell)) (pre post : List Cell) (p' : Pool) (kept : List (List Cell)),
    PosRefs (pre ++ rows.flatten ++ post) → Accounted p (pre ++ rows.flatten ++ post) →
    deleteGo t cond p rows acc = .ok (p', kept) →
    kept = acc.reverse ++ rows.filter (fun r => evalCond t p cond r == .ok false) ∧
    (∀ d ∈ pre ++ (rows.filter fun r => evalCond t p cond r == .ok false).flatten ++ post,
      Cell.toValue p' d = Cell.toValue p d) ∧
    Accounted p' (pre ++ (rows.filter fun r => evalCond t p cond r == .ok false).flatten ++ post) := by
  induction rows with
  | nil =>
    intro p acc pre post p' kept _ hacc h
    simp only [deleteGo, pure, Res.ok.injEq, Prod.mk.injEq] at h
    obtain ⟨rfl, rfl⟩ := h
    exact ⟨by simp, fun _ _ => rfl, by simpa using hacc⟩
  | cons r rs ih =>
    intro p acc pre post p' kept hpos hacc h
    simp only [deleteGo, bind, Res.bind] at h
    cases he : evalCond t p cond r with
    | err k => simp [he] at h
    | panic w => simp [he] at h
    | ok del =>
      simp only [he] at h
      have eflat : pre ++ (r :: rs).flatten ++ post = (pre ++ r) ++ rs.flatten ++ post := by simp
      cases del with
      | false =>
        simp only [Bool.false_eq_true, if_false] at h
        rw [eflat] at hpos hacc
        obtain ⟨h1, h2, h3⟩ := ih p (r :: acc) (pre ++ r) post p' kept hpos hacc h
        have hfilter : (r :: rs).filter (fun x => evalCond t p cond x == .ok false) =
            r :: rs.filter (fun x => evalCond t p cond x == .ok false) := by
          simp [List.filter_cons, he]
        rw [hfilter]
        refine ⟨by rw [h1]; simp, ?_, ?_⟩
        · intro d hd; apply h2 d; simpa using hd
        · have e3 : pre ++ (r :: rs.filter fun x => evalCond t p cond x == .ok false).flatten ++ post =
              (pre ++ r) ++ (rs.filter fun x => evalCond t p cond x == .ok false).flatten ++ post := by simp
          rw [e3]; exact h3
      | true =>
        simp only [if_true] at h
        have e1 : pre ++ (r :: rs).flatten ++ post = pre ++ r ++ (rs.flatten ++ post) := by simp
        rw [e1] at hpos hacc
        obtain ⟨ha, hv⟩ := foldl_remove_accounted r p pre (rs.flatten ++ post) hpos hacc
        have hpos' : PosRefs (pre ++ rs.flatten ++ post) := by
          intro q hq
          apply hpos q
          simp only [List.mem_append] at hq ⊢
          rcases hq with (hq | hq) | hq
          · exact Or.inl (Or.inl hq)
          · exact Or.inr (Or.inl hq)
          · exact Or.inr (Or.inr hq)
        have e2 : pre ++ (rs.flatten ++ post) = pre ++ rs.flatten ++ post := by simp
        rw [e2] at ha hv
        obtain ⟨h1, h2, h3⟩ := ih (r.foldl Cell.remove p) acc pre post p' kept hpos' ha h
        -- the condition on the remaining rows is the same under the original pool
        have hsame : ∀ x ∈ rs, evalCond t (r.foldl Cell.remove p) cond x = evalCond t p cond x := by
          intro x hx
          apply evalCond_congr
          unfold rowValues
          apply List.map_congr_left
          intro d hd
          apply hv d
          simp only [List.mem_append, List.mem_flatten]
          exact Or.inl (Or.inr ⟨x, hx, hd⟩)
        have hfeq : rs.filter (fun x => evalCond t (r.foldl Cell.remove p) cond x == .ok false) =
            rs.filter (fun x => evalCond t p cond x == .ok false) := by
          apply List.filter_congr
          intro x hx
          rw [hsame x hx]
        rw [hfeq] at h1 h2 h3
        have hfilter : (r :: rs).filter (fun x => evalCond t p cond x == .ok false) =
            rs.filter (fun x => evalCond t p cond x == .ok false) := by
          simp only [List.filter_cons, he]
          rfl
        rw [hfilter]
        refine ⟨h1, ?_, h3⟩
        intro d hd
        rw [h2 d hd]
        apply hv d
        simp only [List.mem_append, List.mem_flatten] at hd ⊢
        rcases hd with (hd | ⟨x, hx, hdx⟩) | hd
        · exact Or.inl (Or.inl hd)
        · exact Or.inl (Or.inr ⟨x, (List.mem_filter.mp hx).1, hdx⟩)
        · exact Or.inr hd

/-- **`Delete::exec` refines the relational delete.**  If it succeeds on a table whose stored
references — together with those of any other cells of interest (`others`: the cells of all
other tables, say) — are covered by the pool's reference counts, then the rows it writes are
exactly the stored rows on which the condition, evaluated on their values, is false, in the
stored order; every remaining cell (kept rows and `others`) keeps its value; the accounting
still holds for what remains; no other stream is touched and nothing else changes -/
theorem delete_refines (s : Pkg) (tname : List Char) (cond : Option Ast) (s' : Pkg)
    (h : deleteExec s tname cond = (s', .ok ()))
    (t : Table) (ht : s.findTable tname = some t) (existing : List (List Cell))
    (hl : s.loadRows t = .ok existing) (others : List Cell)
    (hpos : PosRefs (existing.flatten ++ others)) (hacc : Accounted s.pool (existing.flatten ++ others)) :
    ∃ bytes,
      t.writeRows (existing.filter fun r => evalCond t s.pool cond r == .ok false) = .ok bytes ∧
      MsiProofs.SaveOpen.dataOf s'.cont t.streamName = some bytes ∧
      (∀ d ∈ (existing.filter fun r => evalCond t s.pool cond r == .ok false).flatten ++ others,
        Cell.toValue s'.pool d = Cell.toValue s.pool d) ∧
      Accounted s'.pool ((existing.filter fun r => evalCond t s.pool cond r == .ok false).flatten ++ others) ∧
      (∀ n, MsiProofs.SaveOpen.key t.streamName ≠ MsiProofs.SaveOpen.key n →
        MsiProofs.SaveOpen.dataOf s'.cont n = MsiProofs.SaveOpen.dataOf s.cont n) ∧
      s'.tables = s.tables ∧ s'.summary = s.summary := by
  unfold deleteExec at h
  simp only [ht] at h
  split at h; · cases (Prod.mk.inj h).2
  simp only [hl] at h
  cases hd : deleteGo t cond s.pool existing [] with
  | err k => simp only [hd] at h; cases (Prod.mk.inj h).2
  | panic w => simp only [hd] at h; cases (Prod.mk.inj h).2
  | ok x =>
    obtain ⟨pool', kept⟩ := x
    simp only [hd] at h
    obtain ⟨hk, hv, ha⟩ := deleteGo_refines t cond existing s.pool [] [] others pool' kept
      (by simpa using hpos) (by simpa using hacc) hd
    simp only [List.reverse_nil, List.nil_append] at hk hv ha
    subst hk
    unfold storeRows at h
    cases hw : t.writeRows (existing.filter fun r => evalCond t s.pool cond r == .ok false) with
    | err k => simp only [hw] at h; cases (Prod.mk.inj h).2
    | panic w => simp only [hw] at h; cases (Prod.mk.inj h).2
    | ok bs =>
      simp only [hw] at h
      have := (Prod.mk.inj h).1
      subst this
      exact ⟨bs, rfl, MsiProofs.SaveOpen.dataOf_put_same _ _ _, hv, ha,
        fun n hn => MsiProofs.SaveOpen.dataOf_put_other _ _ _ _ hn, rfl, rfl⟩

end MsiProofs.RefineDelete
