import MsiProofs.Lemmas.RowsOk
import MsiProofs.Lemmas.RefineDelete
import MsiProofs.Props.C09b
/-
After a successful `Insert::exec`, the table's stream reads back as exactly the rows written:
the relational statement of `insert_refines` holds for what `loadRows` returns in the new state.
-/
namespace MsiProofs.RefineLoad
open MsiModel MsiModel.Bytes MsiModel.Pkg MsiProofs.Order MsiProofs.Refine MsiProofs.RowsOk MsiProofs.SaveOpen

/-- what a successful `Insert::exec` did, step by step -/
theorem insertExec_ok_inv (s : Pkg) (tname : List Char) (rows : List (List Value)) (s' : Pkg)
    (h : insertExec s tname rows = (s', .ok ()))
    (t : Table) (ht : s.findTable tname = some t) (existing : List (List Cell)) (hl : s.loadRows t = .ok existing) :
    ∃ m pool' m' bs,
      (rows.any fun r => r.length ≠ t.columns.length) = false ∧
      (rows.any fun r => (t.columns.zip r).any fun x => !x.1.isValidValue x.2) = false ∧
      loadMap s.pool t.keyIndices existing [] = some m ∧
      ¬ (m.length + (rows.map fun r => r.map storable).length > Gen.maxTableRows) ∧
      addRows t.keyIndices s.pool (rows.map fun r => r.map storable) m = .ok (pool', m') ∧
      t.writeRows (m'.map (·.2)) = .ok bs ∧
      s' = { s with pool := pool', cont := Cont.put s.cont t.streamName bs } := by
  unfold insertExec at h
  simp only [ht] at h
  by_cases h1 : (rows.any fun r => r.length ≠ t.columns.length) = true
  · rw [if_pos h1] at h; cases (Prod.mk.inj h).2
  rw [if_neg h1] at h
  by_cases h2 : (rows.any fun r => (t.columns.zip r).any fun x => !x.1.isValidValue x.2) = true
  · rw [if_pos h2] at h; cases (Prod.mk.inj h).2
  rw [if_neg h2] at h
  simp only [hl] at h
  cases hm : loadMap s.pool t.keyIndices existing [] with
  | none => simp only [hm] at h; cases (Prod.mk.inj h).2
  | some m =>
    simp only [hm] at h
    cases hc : checkNew t.keyIndices m (rows.map fun r => r.map storable) [] with
    | some k => simp only [hc] at h; cases (Prod.mk.inj h).2
    | none =>
      simp only [hc] at h
      by_cases h3 : m.length + (rows.map fun r => r.map storable).length > Gen.maxTableRows
      · rw [if_pos h3] at h; cases (Prod.mk.inj h).2
      rw [if_neg h3] at h
      cases ha : addRows t.keyIndices s.pool (rows.map fun r => r.map storable) m with
      | err k => simp only [ha] at h; cases (Prod.mk.inj h).2
      | panic w => simp only [ha] at h; cases (Prod.mk.inj h).2
      | ok x =>
        obtain ⟨pool', m'⟩ := x
        simp only [ha] at h
        unfold storeRows at h
        cases hw : t.writeRows (m'.map (·.2)) with
        | err k => simp only [hw] at h; cases (Prod.mk.inj h).2
        | panic w => simp only [hw] at h; cases (Prod.mk.inj h).2
        | ok bs =>
          simp only [hw] at h
          exact ⟨m, pool', m', bs, by simpa using h1, by simpa using h2, rfl, h3, ha, hw,
            ((Prod.mk.inj h).1).symm⟩

theorem mapInsert_length (k : List Value) (v : List Cell) : ∀ (m m' : RowMap),
    mapInsert k v m = some m' → m'.length = m.length + 1 := by
  intro m
  induction m with
  | nil => intro m' h; simp only [mapInsert, Option.some.injEq] at h; subst h; rfl
  | cons e rest ih =>
    intro m' h
    obtain ⟨k', v'⟩ := e
    simp only [mapInsert] at h
    split at h
    · cases h; rfl
    · split at h
      · cases hr : mapInsert k v rest with
        | none => simp [hr] at h
        | some r =>
          simp only [hr, Option.map_some, Option.some.injEq] at h
          subst h
          simp [ih r hr]
      · cases h

theorem addRows_rowOk (t : Table) (rows0 : List (List Value)) :
    ∀ (p : Pool) (m : RowMap) (p' : Pool) (m' : RowMap), Sorted m →
    (∀ r ∈ rows0, r.length = t.columns.length) →
    (∀ r ∈ rows0, ∀ x ∈ t.columns.zip r, x.1.isValidValue x.2 = true) →
    PoolSized p → p.longRefs = t.longRefs → (∀ e ∈ m, RowOk t.longRefs t.columns e.2) →
    addRows t.keyIndices p (rows0.map fun r => r.map storable) m = .ok (p', m') →
    (∀ e ∈ m', RowOk t.longRefs t.columns e.2) ∧ PoolSized p' ∧ p'.longRefs = t.longRefs ∧ m'.length = m.length + rows0.length := by
  induction rows0 with
  | nil =>
    intro p m p' m' _ _ _ hs hlr hm h
    simp only [List.map_nil, addRows, pure, Res.ok.injEq, Prod.mk.injEq] at h
    obtain ⟨rfl, rfl⟩ := h
    exact ⟨hm, hs, hlr, by simp⟩
  | cons r rs ih =>
    intro p m p' m' hsm hlen hval hs hlr hm h
    simp only [List.map_cons, addRows, bind, Res.bind] at h
    cases hc : createCells p (r.map storable) [] with
    | ok x =>
      obtain ⟨p1, cells⟩ := x
      simp only [hc] at h
      obtain ⟨hp, hs1, hl1⟩ := createCells_pref t.columns t.columns r 0 p [] p1 cells (by simp)
        (hlen r (by simp)) (hval r (by simp)) hs ⟨rfl, fun j hj => absurd hj (by omega)⟩ hc
      cases hmi : mapInsert (keyOf t.keyIndices (r.map storable)) cells m with
      | none => simp [hmi] at h
      | some m1 =>
        simp only [hmi] at h
        obtain ⟨hs1', hmem⟩ := mapInsert_sorted hsm hmi
        have hm1 : ∀ e ∈ m1, RowOk t.longRefs t.columns e.2 := by
          intro e he
          rcases (hmem e).mp he with rfl | he
          · rw [← hlr]; simpa [RowOk] using hp
          · exact hm e he
        have hlen1 : m1.length = m.length + 1 := mapInsert_length _ _ _ _ hmi
        obtain ⟨h1, h2, h3, h4⟩ := ih p1 m1 p' m' hs1' (fun x hx => hlen x (by simp [hx]))
          (fun x hx => hval x (by simp [hx])) hs1 (hl1.trans hlr) hm1 h
        exact ⟨h1, h2, h3, by rw [h4, hlen1]; simp; omega⟩
    | err k => simp [hc] at h
    | panic w => simp [hc] at h


theorem loadRows_rowOk (s : Pkg) (t : Table) (rows : List (List Cell)) (h : s.loadRows t = .ok rows) :
    ∀ r ∈ rows, RowOk t.longRefs t.columns r := by
  unfold Pkg.loadRows at h
  split at h
  · exact readRows_rowOk t _ rows h
  · simp only [pure, Res.ok.injEq] at h
    subst h
    intro r hr; simp at hr

theorem loadRows_of_data (s : Pkg) (t : Table) (bs : Bytes) (h : dataOf s.cont t.streamName = some bs) :
    s.loadRows t = t.readRows bs := by
  obtain ⟨e, he, hd⟩ := MsiProofs.StreamsMap.find_of_dataOf h
  unfold Pkg.loadRows
  rw [he]
  simp only [hd]

/-- **insert, then read the table**: after a successful `Insert::exec` the table's rows, as the
new state reads them, are — as values — exactly the old rows plus the new ones ("" stored as
null), in strictly ascending key order; and the pool has only been extended.  Hypotheses: the
stored cells refer to live pool entries, the pool is within what its reference width addresses
and agrees with the table on that width, the table has a column. -/
theorem insert_then_load (s : Pkg) (tname : List Char) (rows : List (List Value)) (s' : Pkg)
    (h : insertExec s tname rows = (s', .ok ()))
    (t : Table) (ht : s.findTable tname = some t) (existing : List (List Cell))
    (hl : s.loadRows t = .ok existing) (hlive : ∀ r ∈ existing, ∀ c ∈ r, LiveCell s.pool c)
    (hs : PoolSized s.pool) (hlr : s.pool.longRefs = t.longRefs) (hpos : 0 < t.rowSize) :
    ∃ stored,
      s'.loadRows t = .ok stored ∧
      (∀ v, v ∈ stored.map (rowValues s'.pool) ↔
        v ∈ existing.map (rowValues s.pool) ∨ v ∈ rows.map (fun r => r.map storable)) ∧
      (stored.map fun cells => keyOf t.keyIndices (rowValues s'.pool cells)).Pairwise (fun a b => keyLt a b = true) ∧
      stored.length = existing.length + rows.length ∧
      Ext s.pool s'.pool ∧ (∀ r ∈ stored, ∀ c ∈ r, LiveCell s'.pool c) ∧
      PoolSized s'.pool ∧ s'.pool.longRefs = t.longRefs ∧
      (∃ m m', loadMap s.pool t.keyIndices existing [] = some m ∧
        addRows t.keyIndices s.pool (rows.map fun r => r.map storable) m = .ok (s'.pool, m') ∧
        stored = m'.map (·.2)) := by
  obtain ⟨stored, bytes, hw, hdata, hmem, hsorted, hext, -, -, -⟩ :=
    insert_refines s tname rows s' h t ht existing hl hlive
  obtain ⟨m, pool', m', bs, hv1, hv2, hm, hmax, ha, hw', hs'⟩ := insertExec_ok_inv s tname rows s' h t ht existing hl
  -- the rows written are those of `m'`
  have hsm : Sorted m := MsiProofs.C05.loadMap_sorted (by simp [Sorted]) hm
  have hrows := loadMap_rows s.pool t.keyIndices existing [] m (by simp [Sorted]) hm
  have hexok := loadRows_rowOk s t existing hl
  have hmok : ∀ e ∈ m, RowOk t.longRefs t.columns e.2 := by
    intro e he
    have := (hrows e.2).mp (List.mem_map.mpr ⟨e, he, rfl⟩)
    exact hexok e.2 (by simpa using this)
  have hlen : ∀ r ∈ rows, r.length = t.columns.length := by
    intro r hr
    have := List.any_eq_false.mp hv1 r hr
    simpa using this
  have hval : ∀ r ∈ rows, ∀ x ∈ t.columns.zip r, x.1.isValidValue x.2 = true := by
    intro r hr x hx
    have h1 := List.any_eq_false.mp hv2 r hr
    simp only [List.any_eq_true, not_exists, not_and, Bool.not_eq_true', Bool.not_eq_false] at h1
    have := h1 x hx
    simpa using this
  obtain ⟨hok', hs1, hlr1, hlen'⟩ := addRows_rowOk t rows s.pool m pool' m' hsm hlen hval hs hlr hmok ha
  have hmlen : m.length = existing.length := by
    have : ∀ (rws : List (List Cell)) (m0 m1 : RowMap), loadMap s.pool t.keyIndices rws m0 = some m1 →
        m1.length = m0.length + rws.length := by
      intro rws
      induction rws with
      | nil => intro m0 m1 h; simp only [loadMap, Option.some.injEq] at h; subst h; rfl
      | cons r rs ih =>
        intro m0 m1 h
        simp only [loadMap] at h
        cases hmi : mapInsert (keyOf t.keyIndices (rowValues s.pool r)) r m0 with
        | none => simp [hmi] at h
        | some m2 =>
          rw [hmi] at h
          rw [ih m2 m1 h, mapInsert_length _ _ _ _ hmi]
          simp; omega
    simpa using this existing [] m hm
  have hrowsok : ∀ r ∈ m'.map (·.2), RowOk t.longRefs t.columns r := by
    intro r hr
    obtain ⟨e, he, rfl⟩ := List.mem_map.mp hr
    exact hok' e he
  obtain ⟨bs2, hw2, hr2⟩ := write_read t (m'.map (·.2)) hrowsok hpos (by
    simp only [List.length_map] at hmax ⊢
    rw [hlen']; omega)
  rw [hw'] at hw2
  cases hw2
  subst hs'
  have hstored : (({ s with pool := pool', cont := Cont.put s.cont t.streamName bs } : Pkg)).loadRows t
      = .ok (m'.map (·.2)) := by
    rw [loadRows_of_data _ t bs (dataOf_put_same _ _ _)]
    exact hr2
  -- `stored` of `insert_refines` is the same list: both are what `write_rows` was given; use the
  -- statement about `m'` directly
  have hlm : LiveMap s.pool m := by
    intro e he c hc
    have : e.2 ∈ existing := by
      have := (hrows e.2).mp (List.mem_map.mpr ⟨e, he, rfl⟩)
      simpa using this
    exact hlive e.2 this c hc
  obtain ⟨hext', hs'', hl'', hmem'⟩ := addRows_ext t.keyIndices _ s.pool m pool' m' hsm hlm ha
  have hk0 : KeyOk s.pool t.keyIndices m :=
    loadMap_keyOk s.pool t.keyIndices existing [] m (by simp [Sorted]) (fun _ hx => by simp at hx) hm
  have hk' : KeyOk pool' t.keyIndices m' := addRows_keyOk t.keyIndices _ s.pool m pool' m' hsm hlm hk0 ha
  refine ⟨m'.map (·.2), hstored, ?_, ?_, by simp [hlen', hmlen], hext', ?_, hs1, hlr1, ⟨m, m', hm, ha, rfl⟩⟩
  · intro v
    have h1 : v ∈ (m'.map (·.2)).map (rowValues pool') ↔ v ∈ mapValues pool' m' := by
      unfold mapValues; simp [List.map_map]
    have h2 : v ∈ existing.map (rowValues s.pool) ↔ v ∈ mapValues s.pool m := by
      unfold mapValues
      simp only [List.mem_map]
      constructor
      · rintro ⟨cells, hc1, rfl⟩
        have := (hrows cells).mpr (Or.inr hc1)
        obtain ⟨e, he, rfl⟩ := List.mem_map.mp this
        exact ⟨e, he, rfl⟩
      · rintro ⟨e, he, rfl⟩
        have := (hrows e.2).mp (List.mem_map.mpr ⟨e, he, rfl⟩)
        exact ⟨e.2, by simpa using this, rfl⟩
    rw [h1, h2]
    exact hmem' v
  · rw [List.map_map, List.pairwise_map]
    refine List.Pairwise.imp_of_mem ?_ hs''
    intro a b ha' hb' hab
    simp only [Function.comp]
    rw [← hk' a ha', ← hk' b hb']
    exact hab
  · intro r hr c hc
    obtain ⟨e, he, rfl⟩ := List.mem_map.mp hr
    exact hl'' e he c hc


/-! ### delete, then read the table -/

theorem readColumn_length (long : Bool) (ty : ColType) (rows : List (List Cell)) :
    ∀ (bs : Bytes) (acc rows' : List (List Cell)) (r : Bytes),
    Table.readColumn long ty rows bs acc = .ok (rows', r) → rows'.length = acc.length + rows.length := by
  induction rows with
  | nil =>
    intro bs acc rows' r h
    simp only [Table.readColumn, pure, Res.ok.injEq, Prod.mk.injEq] at h
    rw [← h.1]; simp
  | cons row rest ih =>
    intro bs acc rows' r h
    simp only [Table.readColumn, bind, Res.bind] at h
    cases hv : ty.readValue long bs with
    | ok y =>
      obtain ⟨c, r1⟩ := y
      simp only [hv] at h
      rw [ih r1 _ rows' r h]; simp; omega
    | err e => simp [hv] at h
    | panic w => simp [hv] at h

theorem readCols_length (long : Bool) (cols : List Column) : ∀ (rows : List (List Cell)) (bs : Bytes) (out : List (List Cell)),
    Table.readCols long cols rows bs = .ok out → out.length = rows.length := by
  induction cols with
  | nil => intro rows bs out h; simp only [Table.readCols, pure, Res.ok.injEq] at h; subst h; rfl
  | cons c cs ih =>
    intro rows bs out h
    simp only [Table.readCols, bind, Res.bind] at h
    cases hc : Table.readColumn long c.coltype rows bs [] with
    | ok y =>
      obtain ⟨rows', r⟩ := y
      simp only [hc] at h
      rw [ih rows' r out h, readColumn_length long c.coltype rows bs [] rows' r hc]; simp
    | err e => simp [hc] at h
    | panic w => simp [hc] at h

theorem loadRows_length (s : Pkg) (t : Table) (rows : List (List Cell)) (h : s.loadRows t = .ok rows) :
    rows.length ≤ Gen.maxTableRows := by
  unfold Pkg.loadRows at h
  split at h
  · rename_i e he
    unfold Table.readRows at h
    simp only at h
    by_cases hbig : (if t.rowSize > 0 then e.data.length / t.rowSize else 0) > Gen.maxTableRows
    · rw [if_pos hbig] at h; cases h
    · rw [if_neg hbig] at h
      rw [readCols_length _ _ _ _ _ h]
      simp only [List.length_replicate]
      omega
  · simp only [pure, Res.ok.injEq] at h
    subst h; simp

/-- **delete, then read the table**: after a successful `Delete::exec` the new state reads the
table as exactly the stored rows on which the condition (on their values) is false, with their
values — and those of any other accounted cells — unchanged -/
theorem delete_then_load (s : Pkg) (tname : List Char) (cond : Option Ast) (s' : Pkg)
    (h : deleteExec s tname cond = (s', .ok ()))
    (t : Table) (ht : s.findTable tname = some t) (existing : List (List Cell))
    (hl : s.loadRows t = .ok existing) (others : List Cell)
    (hposr : MsiProofs.RefineDelete.PosRefs (existing.flatten ++ others))
    (hacc : MsiProofs.RefineDelete.Accounted s.pool (existing.flatten ++ others)) (hpos : 0 < t.rowSize) :
    s'.loadRows t = .ok (existing.filter fun r => evalCond t s.pool cond r == .ok false) ∧
    (∀ d ∈ (existing.filter fun r => evalCond t s.pool cond r == .ok false).flatten ++ others,
      Cell.toValue s'.pool d = Cell.toValue s.pool d) ∧
    MsiProofs.RefineDelete.Accounted s'.pool
      ((existing.filter fun r => evalCond t s.pool cond r == .ok false).flatten ++ others) := by
  obtain ⟨bytes, hw, hd, hv, ha, -, -, -⟩ :=
    MsiProofs.RefineDelete.delete_refines s tname cond s' h t ht existing hl others hposr hacc
  refine ⟨?_, hv, ha⟩
  have hok : ∀ r ∈ existing.filter (fun r => evalCond t s.pool cond r == .ok false), RowOk t.longRefs t.columns r :=
    fun r hr => loadRows_rowOk s t existing hl r (List.mem_filter.mp hr).1
  obtain ⟨bs2, hw2, hr2⟩ := write_read t _ hok hpos (by
    have h1 := loadRows_length s t existing hl
    have h2 := List.length_filter_le (fun r => evalCond t s.pool cond r == .ok false) existing
    omega)
  rw [hw] at hw2
  cases hw2
  rw [loadRows_of_data s' t bytes hd]
  exact hr2

end MsiProofs.RefineLoad
