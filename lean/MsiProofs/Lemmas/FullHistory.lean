import MsiProofs.Lemmas.CreateTableMain
import MsiProofs.Lemmas.EndToEnd
/-
Histories of statements and `create_table` calls: every invariant is kept, so the package
reopens as it was.
-/
namespace MsiProofs.FullHistory
open MsiModel MsiModel.Bytes MsiModel.Pkg MsiProofs.CatalogOpen MsiProofs.CatalogCodec MsiProofs.CatalogSync
open MsiProofs.GlobalInv MsiProofs.SortedInv MsiProofs.CatalogRows MsiProofs.Frame MsiProofs.Refine
open MsiProofs.SaveOpen MsiProofs.CreateTable MsiProofs.StreamsMap

/-- every table stream of the container belongs to a table of the package, and table names are
valid stream names -/
structure NoOrphans (s : Pkg) : Prop where
  valid : ∀ x ∈ s.tables, StreamName.isValid x.name true = true
  owned : ∀ n, StreamName.isValid n true = true → MsiProofs.Synced.NotMeta (StreamName.encode n true) →
    dataOf s.cont (StreamName.encode n true) ≠ none → ∃ t ∈ s.tables, t.name = n

theorem noOrphans_put (s : Pkg) (h : NoOrphans s) (t : Table) (ht : t ∈ s.tables) (pool' : Pool) (bs : Bytes) :
    NoOrphans { s with pool := pool', cont := Cont.put s.cont t.streamName bs } := by
  refine ⟨h.valid, ?_⟩
  intro n hv hnm hd
  by_cases hk : key t.streamName = key (StreamName.encode n true)
  · exact ⟨t, ht, MsiProofs.Synced.table_stream_injective t.name n (h.valid t ht) hv hk⟩
  · exact h.owned n hv hnm (by rw [← dataOf_put_other s.cont t.streamName _ bs hk]; exact hd)

theorem noOrphans_shape (s s' : Pkg) (tn : List Char) (hs : DmlShape s s' tn) (h : NoOrphans s) : NoOrphans s' := by
  rcases hs with rfl | ⟨t, pool', rows, hf, -, rfl⟩
  · exact h
  · have ht := MsiProofs.Synced.findTable_mem hf
    unfold storeRows
    cases t.writeRows rows with
    | ok bs => exact noOrphans_put s h t ht pool' bs
    | err k => exact noOrphans_put s h t ht pool' []
    | panic w => exact ⟨h.valid, h.owned⟩


theorem noOrphans_finisher (s : Pkg) (h : NoOrphans s) : NoOrphans { s with finisher := true } := ⟨h.valid, h.owned⟩

theorem noOrphans_insertRows (s : Pkg) (h : NoOrphans s) (tn : List Char) (R : List (List Value)) :
    NoOrphans (insertRows s tn R).1 :=
  noOrphans_shape _ _ tn (insertExec_shape _ tn R) (noOrphans_finisher s h)

theorem noOrphans_createTable (s : Pkg) (h : NoOrphans s) (name : List Char) (cols : List Column) :
    NoOrphans (createTable s name cols).1 := by
  unfold createTable
  cases hce : createError s name cols with
  | some k => exact h
  | none =>
    simp only
    cases hroom : catalogRoom s name cols with
    | err k => exact h
    | panic w => exact h
    | ok u =>
    cases u
    simp only
    obtain ⟨hv, -⟩ := MsiProofs.Synced.createError_name s name cols hce
    simp only [Table.isValidName, Bool.and_eq_true] at hv
    have g1 := noOrphans_insertRows s h Gen.nameColumns.toList (catalogRowsColumns name cols)
    generalize hr1 : insertRows s Gen.nameColumns.toList (catalogRowsColumns name cols) = r1 at g1
    obtain ⟨s1, res1⟩ := r1
    cases res1 with
    | err k => exact g1
    | panic w => exact g1
    | ok u =>
      cases u
      simp only
      have g2 := noOrphans_insertRows s1 g1 Gen.nameTables.toList [[.str name]]
      generalize hr2 : insertRows s1 Gen.nameTables.toList [[.str name]] = r2 at g2
      obtain ⟨s2, res2⟩ := r2
      cases res2 with
      | err k => exact g2
      | panic w => exact g2
      | ok u =>
        cases u
        simp only
        apply noOrphans_insertRows
        refine ⟨?_, ?_⟩
        · intro x hx
          rcases MsiProofs.Synced.insertTable_mem _ _ _ hx with rfl | hx
          · exact hv.2
          · exact g2.valid x hx
        · intro n hn hm hd
          obtain ⟨t, ht, hnm⟩ := g2.owned n hn hm hd
          by_cases hnn : t.name = name
          · exact ⟨_, MsiProofs.CatalogSync.mem_insertTable_self _ _, hnn ▸ hnm⟩
          · exact ⟨t, MsiProofs.CatalogSync.mem_insertTable_of_mem _ _ _ ht hnn, hnm⟩


theorem op_shape (s : Pkg) : (op : MsiProofs.GlobalInvUpd.Op) → DmlShape s (op.run s) (target op)
  | .insert t rows => insertExec_shape s t rows
  | .delete t cond => deleteExec_shape s t cond
  | .update t ups cond => updateExec_shape s t ups cond

/-- the membership form of the invariants implies the decode form used by `open` -/
theorem full_allInv (slack : Nat → Nat) (s : Pkg) (tabs : List Table) (h : Full slack s tabs) :
    MsiProofs.EndToEnd.AllInv slack s tabs := by
  obtain ⟨h, hv⟩ := h
  refine ⟨h.inv, h.sorted, h.metaSync, h.sep, ?_, hv⟩
  refine synced_of_rows s tabs h.rows h.sorted ?_ h.tables h.tsorted h.names h.ok h.small h.namesOk
  intro t ht
  simp only [catalogTables, List.mem_cons, List.mem_nil_iff, or_false] at ht
  rcases ht with rfl | rfl | rfl
  · exact (h.mem _).mpr (Or.inr (Or.inl rfl))
  · exact (h.mem _).mpr (Or.inl rfl)
  · exact (h.mem _).mpr (Or.inr (Or.inr hv))

/-- **a statement on a user table keeps every invariant** -/
theorem op_full (slack : Nat → Nat) (s : Pkg) (tabs : List Table) (h : Full slack s tabs)
    (op : MsiProofs.GlobalInvUpd.Op) (hu : MsiProofs.EndToEnd.UserOp op) : Full slack (op.run s) tabs := by
  obtain ⟨h, hv⟩ := h
  obtain ⟨he, ht⟩ := MsiProofs.EndToEnd.effect_of_op s h.sep op
  have hk := MsiProofs.Frame.op_kept slack s h.inv op
  obtain ⟨hi', hs'⟩ := MsiProofs.SortUpd.history_sorted slack [op] s h.inv h.sorted
  have hne : ∀ t : Table, isCatalogName t.name = true → t.name ≠ target op := by
    intro t hc e
    rw [e] at hc
    unfold MsiProofs.EndToEnd.UserOp at hu
    rw [hu] at hc; cases hc
  have hct : Catalog.columnsTable s.pool.longRefs ∈ s.tables := (h.mem _).mpr (Or.inl rfl)
  have htt : Catalog.tablesTable s.pool.longRefs ∈ s.tables := (h.mem _).mpr (Or.inr (Or.inl rfl))
  have hvt : Catalog.validationTable s.pool.longRefs ∈ s.tables := (h.mem _).mpr (Or.inr (Or.inr hv))
  refine ⟨⟨hi', hs', MsiProofs.Synced.synced_of_effect _ _ h.metaSync he, ?_, ?_, ?_, h.tsorted, h.names, ?_,
    h.small, h.namesOk, h.valid, h.notCat⟩, ?_⟩
  · intro t htm
    exact h.sep t (by rw [← ht]; exact htm)
  · have e : (op.run s).pool.longRefs = s.pool.longRefs := hk.long
    have rT : Reads s (Catalog.tablesTable s.pool.longRefs) (fun v => ∃ t ∈ tabs, v = [Value.str t.name]) := h.rows.rowsT
    have rC : Reads s (Catalog.columnsTable s.pool.longRefs) (fun v => ∃ t ∈ tabs, v ∈ colRowsOf t) := h.rows.rowsC
    have rV : Reads s (Catalog.validationTable s.pool.longRefs) (fun v => ∃ t ∈ tabs, v ∈ valRowsOf t) := h.rows.rowsV
    have rT' := reads_kept hk htt (hne _ (by cases s.pool.longRefs <;> decide)) rT
    have rC' := reads_kept hk hct (hne _ (by cases s.pool.longRefs <;> decide)) rC
    have rV' := reads_kept hk hvt (hne _ (by cases s.pool.longRefs <;> decide)) rV
    refine ⟨?_, ?_, ?_⟩
    · rw [e]; exact rT'
    · rw [e]; exact rC'
    · rw [e]; exact rV'
  · rw [hk.tables, hk.long]; exact h.tables
  · rw [hk.long]; exact h.ok
  · rw [hk.long]; exact hv


/-! ### saving -/

theorem rowValues_of_strings {p p' : Pool} (h : p'.strings = p.strings) (r : List Cell) :
    rowValues p' r = rowValues p r := by
  unfold rowValues
  apply List.map_congr_left
  intro c _
  cases c with
  | str q => simp only [Cell.toValue, Pool.get, h]
  | null => rfl
  | int n => rfl

theorem cellsOfTables_congr (s s' : Pkg) (ts : List Table) (h : ∀ t ∈ ts, s'.loadRows t = s.loadRows t) :
    cellsOfTables s' ts = cellsOfTables s ts := by
  unfold cellsOfTables
  congr 1
  apply List.map_congr_left
  intro t ht
  unfold rowsOf
  rw [h t ht]

/-- **transfer**: a state with the same tables, the same pool strings and the same table streams
satisfies the same invariants -/
theorem core_transfer (slack : Nat → Nat) (s s' : Pkg) (tabs : List Table) (h : Core slack s tabs)
    (htabs : s'.tables = s.tables) (hstr : s'.pool.strings = s.pool.strings)
    (hlong : s'.pool.longRefs = s.pool.longRefs)
    (hrows : ∀ t, MsiProofs.Synced.NotMeta t.streamName → s'.loadRows t = s.loadRows t)
    (hmeta : MsiProofs.Synced.Synced s') : Core slack s' tabs := by
  have hsep' : MsiProofs.Synced.TablesSeparate s' := fun t ht => h.sep t (htabs ▸ ht)
  have hrowsT : ∀ t ∈ s.tables, s'.loadRows t = s.loadRows t := fun t ht => hrows t (h.sep t ht)
  have hcells : cellsOfTables s' s'.tables = cellsOfTables s s.tables := by
    rw [htabs]; exact cellsOfTables_congr s s' s.tables hrowsT
  have hrc : ∀ r, s'.pool.refcount r = s.pool.refcount r := fun r => by unfold Pool.refcount; rw [hstr]
  have hreads : ∀ (X : Table) (P : List Value → Prop), MsiProofs.Synced.NotMeta X.streamName →
      Reads s X P → Reads s' X P := by
    intro X P hX ⟨rows, hl, hm⟩
    refine ⟨rows, by rw [hrows X hX]; exact hl, fun v => ?_⟩
    rw [← hm v]
    have : rows.map (rowValues s'.pool) = rows.map (rowValues s.pool) :=
      List.map_congr_left fun r _ => rowValues_of_strings hstr r
    rw [this]
  refine ⟨⟨?_, ?_, ?_, ?_, ?_, ?_⟩, ?_, hmeta, hsep', ?_, ?_, h.tsorted, h.names, ?_, h.small, h.namesOk, h.valid, h.notCat⟩
  · rw [htabs]; exact h.inv.distinct
  · intro t ht
    rw [htabs] at ht
    rw [hrowsT t ht]; exact h.inv.loads t ht
  · rw [hcells]; exact h.inv.pos
  · rw [hcells]
    intro r hr
    rw [hrc r]; exact h.inv.counts r hr
  · have := h.inv.sized
    unfold MsiProofs.RowsOk.PoolSized at *
    rw [hstr, hlong]; exact this
  · intro t ht
    rw [htabs] at ht
    rw [hlong]; exact h.inv.widths t ht
  · intro t ht rows hl
    rw [htabs] at ht
    rw [hrowsT t ht] at hl
    exact keysAscending_congr (fun r _ => rowValues_of_strings hstr r) (h.sorted t ht rows hl)
  · have cn := catalog_notMeta s.pool.longRefs
    refine ⟨?_, ?_, ?_⟩
    · rw [hlong]; exact hreads _ _ (cn _ (by simp [catalogTables])) h.rows.rowsT
    · rw [hlong]; exact hreads _ _ (cn _ (by simp [catalogTables])) h.rows.rowsC
    · rw [hlong]; exact hreads _ _ (cn _ (by simp [catalogTables])) h.rows.rowsV
  · rw [htabs, hlong]; exact h.tables
  · rw [hlong]; exact h.ok

/-- **a successful save keeps every invariant** -/
theorem finish_core (slack : Nat → Nat) (s s' : Pkg) (tabs : List Table) (h : Core slack s tabs)
    (E : List Char → Bytes) (hsav : Savable s E) (hf : finish s = (s', .ok ())) :
    Core slack s' tabs ∧ Saved s' ∧ s'.pool.longRefs = s.pool.longRefs := by
  obtain ⟨hsaved, hsync, -⟩ := MsiProofs.Synced.finish_step s s' E h.metaSync h.sep hsav hf
  have htabs : s'.tables = s.tables := by
    have := MsiProofs.Synced.finish_tables s
    rw [hf] at this; exact this
  have hshape0 := finish_frame s
  rw [hf] at hshape0
  have hshape : (s'.pool.strings = s.pool.strings ∧ s'.pool.longRefs = s.pool.longRefs) ∧
      ∀ n, MsiProofs.Synced.NotMeta n → dataOf s'.cont n = dataOf s.cont n := hshape0
  obtain ⟨⟨hstr, hlong⟩, hframe⟩ := hshape
  exact ⟨core_transfer slack s s' tabs h htabs hstr hlong (fun t ht => loadRows_congr s s' t (hframe _ ht)) hsync,
    hsaved, hlong⟩

theorem finish_noOrphans (s : Pkg) (h : NoOrphans s) : NoOrphans (finish s).1 := by
  have htabs := MsiProofs.Synced.finish_tables s
  obtain ⟨-, hframe⟩ := finish_frame s
  refine ⟨fun x hx => h.valid x (htabs ▸ hx), ?_⟩
  intro n hv hm hd
  rw [hframe _ hm] at hd
  rw [htabs]
  exact h.owned n hv hm hd

end MsiProofs.FullHistory
