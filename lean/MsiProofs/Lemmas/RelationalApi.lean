import MsiProofs.Lemmas.Lifecycle
import MsiProofs.Lemmas.ValidCells
/-
The relational view through the rest of the API (properties C03, C04, C05): what every call other
than a statement does to the rows the tables show.

* `create_table`, accepted: the table list gains the new definition, which shows no rows; every
  user table shows exactly the rows it showed (only the three catalog tables change);
* `drop_table`, accepted: the table list loses that definition; every other user table shows
  exactly the rows it showed;
* stream writes and removals, signature removal, summary setters, the database code page, saves,
  closing and reopening: the whole view is unchanged.
-/
namespace MsiProofs.RelationalApi
open MsiModel MsiModel.Bytes MsiModel.Pkg MsiProofs.GlobalInv MsiProofs.SortedInv MsiProofs.Frame
open MsiProofs.Refine MsiProofs.Relational MsiProofs.SaveOpen MsiProofs.StreamsMap MsiProofs.CreateTable
open MsiProofs.FullHistory MsiProofs.ValidCells

/-- a statement touches only the stream of its table -/
theorem shape_dataOf (s s' : Pkg) (tn : List Char) (h : DmlShape s s' tn) (n : List Char)
    (hne : ∀ t, s.findTable tn = some t → key t.streamName ≠ key n) : dataOf s'.cont n = dataOf s.cont n := by
  rcases h with rfl | ⟨t, pool', rows, hf, -, rfl⟩
  · rfl
  · unfold storeRows
    cases t.writeRows rows with
    | ok bs => exact dataOf_put_other _ _ _ _ (hne t hf)
    | err k => exact dataOf_put_other _ _ _ _ (hne t hf)
    | panic w => rfl

/-- the view is the same function of (tables, table streams, pool strings) -/
theorem tableView_congr (s s' : Pkg) (x : Table) (hrows : s'.loadRows x = s.loadRows x)
    (hstr : s'.pool.strings = s.pool.strings) : tableView s' x = tableView s x := by
  unfold tableView rowsOf
  rw [hrows]
  have hv : ∀ c : Cell, Cell.toValue s'.pool c = Cell.toValue s.pool c := by
    intro c
    cases c <;> simp [Cell.toValue, Pool.get, hstr]
  cases s.loadRows x with
  | ok rws =>
    simp only
    apply List.map_congr_left
    intro r _
    unfold rowValues
    exact List.map_congr_left fun c _ => hv c
  | err k => rfl
  | panic w => rfl

/-- one accepted catalog insert or any other accepted `insert_rows` -/
theorem insertRows_frame (slack : Nat → Nat) (s : Pkg) (hI : Inv slack s) (hS : SortedAll s) (hV : ValidAll s)
    (tn : List Char) (R : List (List Value)) (s' : Pkg) (h : insertRows s tn R = (s', .ok ())) :
    Inv slack s' ∧ SortedAll s' ∧ ValidAll s' ∧ s'.tables = s.tables ∧ s'.pool.longRefs = s.pool.longRefs ∧
    (∀ x ∈ s.tables, x.name ≠ tn → tableView s' x = tableView s x) ∧
    (∀ n, (∀ t, s.findTable tn = some t → key t.streamName ≠ key n) → dataOf s'.cont n = dataOf s.cont n) := by
  unfold insertRows at h
  have hIA := inv_finisher slack s hI
  have hSA := sorted_finisher s hS
  have hVA : ValidAll { s with finisher := true } := hV
  have hk := insert_kept slack _ tn R s' hIA h
  have hs' : s' = (insertExec { s with finisher := true } tn R).1 := by rw [h]
  have hk' : Kept s s' tn := ⟨hk.tables, hk.long, hk.rows, hk.vals⟩
  refine ⟨insert_inv slack _ tn R s' hIA h, insert_sorted slack _ tn R s' hIA hSA h, ?_, hk.tables, hk.long,
    others_same hk', ?_⟩
  · have := op_valid slack _ hIA hSA hVA (.insert tn R)
    rw [hs']; exact this
  · intro n hn
    have := shape_dataOf _ _ tn (insertExec_shape { s with finisher := true } tn R) n hn
    rw [hs']; exact this

/-- one accepted catalog delete or any other accepted `delete_rows` -/
theorem deleteRows_frame (slack : Nat → Nat) (s : Pkg) (hI : Inv slack s) (hS : SortedAll s) (hV : ValidAll s)
    (tn : List Char) (cond : Option Ast) (s' : Pkg) (h : deleteRows s tn cond = (s', .ok ())) :
    Inv slack s' ∧ SortedAll s' ∧ ValidAll s' ∧ s'.tables = s.tables ∧ s'.pool.longRefs = s.pool.longRefs ∧
    (∀ x ∈ s.tables, x.name ≠ tn → tableView s' x = tableView s x) := by
  unfold deleteRows at h
  have hIA := inv_finisher slack s hI
  have hSA := sorted_finisher s hS
  have hVA : ValidAll { s with finisher := true } := hV
  have hk := delete_kept slack _ tn cond s' hIA h
  have hs' : s' = (deleteExec { s with finisher := true } tn cond).1 := by rw [h]
  have hk' : Kept s s' tn := ⟨hk.tables, hk.long, hk.rows, hk.vals⟩
  refine ⟨delete_inv slack _ tn cond s' hIA h, delete_sorted slack _ tn cond s' hIA hSA h, ?_, hk.tables, hk.long,
    others_same hk'⟩
  have := op_valid slack _ hIA hSA hVA (.delete tn cond)
  rw [hs']; exact this

/-- adding a table definition whose stream does not exist: it shows no rows, the others are untouched -/
theorem valid_add_table (s : Pkg) (hV : ValidAll s) (t : Table) (hnew : ∀ x ∈ s.tables, x.name ≠ t.name)
    (hempty : Cont.find s.cont t.streamName = none) : ValidAll (withTable s t) := by
  have hperm := insertTable_perm s.tables t hnew
  intro x hx row hrow
  have := hperm.mem_iff.mp hx
  simp only [List.mem_cons] at this
  rcases this with rfl | hx'
  · have hload : s.loadRows x = .ok [] := by unfold Pkg.loadRows; rw [hempty]; rfl
    have : tableView (withTable s x) x = [] := by
      unfold tableView rowsOf
      rw [loadRows_withTable, hload]; rfl
    rw [this] at hrow; cases hrow
  · exact hV x hx' row hrow

/-- **an accepted `create_table`**: the table list gains exactly the new definition; the new table
shows no rows; every table other than the three catalog tables shows the rows it showed; all
cells stay valid -/
theorem createTable_view (slack : Nat → Nat) (s : Pkg) (hI : Inv slack s) (hS : SortedAll s) (hV : ValidAll s)
    (name : List Char) (cols : List Column) (s4 : Pkg) (h : createTable s name cols = (s4, .ok ()))
    (hempty : dataOf s.cont (StreamName.encode name true) = none)
    (hkey : ∀ x ∈ s.tables, key (StreamName.encode name true) ≠ key x.streamName) :
    s4.tables = insertTable s.tables ⟨name, cols, s.pool.longRefs⟩ ∧
    Inv slack s4 ∧ SortedAll s4 ∧ ValidAll s4 ∧
    (name ≠ Gen.nameValidation.toList → tableView s4 ⟨name, cols, s.pool.longRefs⟩ = []) ∧
    (∀ x ∈ s.tables, x.name ≠ Gen.nameColumns.toList → x.name ≠ Gen.nameTables.toList →
      x.name ≠ Gen.nameValidation.toList → tableView s4 x = tableView s x) := by
  unfold createTable at h
  cases hce : createError s name cols with
  | some k => simp [hce] at h
  | none =>
  simp only [hce] at h
  cases hroom : catalogRoom s name cols with
  | err k => simp [hroom] at h
  | panic w => simp [hroom] at h
  | ok u =>
  cases u
  simp only [hroom] at h
  have hf := createError_facts s name cols hce
  have hnew : ∀ x ∈ s.tables, x.name ≠ name := findTable_none_ne s name hf.fresh
  have hpos : 0 < (⟨name, cols, s.pool.longRefs⟩ : Table).rowSize := rowSize_pos _ hf.nonempty
  -- stage 1: `_Columns`
  generalize hr1 : insertRows s Gen.nameColumns.toList (catalogRowsColumns name cols) = r1 at h
  obtain ⟨s1, res1⟩ := r1
  cases res1 with
  | err k => cases (Prod.mk.inj h).2
  | panic w => cases (Prod.mk.inj h).2
  | ok u =>
  cases u
  simp only at h
  obtain ⟨hI1, hS1, hV1, ht1, hl1, ho1, hc1⟩ := insertRows_frame slack s hI hS hV _ _ s1 hr1
  -- stage 2: `_Tables`
  generalize hr2 : insertRows s1 Gen.nameTables.toList [[.str name]] = r2 at h
  obtain ⟨s2, res2⟩ := r2
  cases res2 with
  | err k => cases (Prod.mk.inj h).2
  | panic w => cases (Prod.mk.inj h).2
  | ok u =>
  cases u
  simp only at h
  obtain ⟨hI2, hS2, hV2, ht2, hl2, ho2, hc2⟩ := insertRows_frame slack s1 hI1 hS1 hV1 _ _ s2 hr2
  have htabs2 : s2.tables = s.tables := by rw [ht2, ht1]
  have hlong2 : s2.pool.longRefs = s.pool.longRefs := by rw [hl2, hl1]
  -- the new table's stream is still absent
  have hkeyT : ∀ (tn : List Char) (sx : Pkg), sx.tables = s.tables → ∀ t, sx.findTable tn = some t →
      key t.streamName ≠ key (StreamName.encode name true) := by
    intro tn sx hsx t hft
    have := hkey t (hsx ▸ findTable_spec sx tn t hft)
    exact fun e => this e.symm
  have hd1 : dataOf s1.cont (StreamName.encode name true) = none := by
    rw [hc1 _ (hkeyT _ s rfl)]; exact hempty
  have hd2 : dataOf s2.cont (StreamName.encode name true) = none := by
    rw [hc2 _ (hkeyT _ s1 ht1)]; exact hd1
  -- stage 3: the definition joins the table list
  rw [hlong2] at h
  let T : Table := ⟨name, cols, s.pool.longRefs⟩
  have hfind2 : Cont.find s2.cont T.streamName = none := find_none_of_dataOf hd2
  have hnew2 : ∀ x ∈ s2.tables, x.name ≠ T.name := by rw [htabs2]; exact hnew
  have hI3 : Inv slack (withTable s2 T) := inv_add_table slack s2 hI2 T hnew2
    (by rw [htabs2]; exact hkey) hfind2 hlong2 hpos
  have hS3 : SortedAll (withTable s2 T) := sorted_add_table s2 hS2 T hnew2 hfind2
  have hV3 : ValidAll (withTable s2 T) := valid_add_table s2 hV2 T hnew2 hfind2
  -- stage 4: `_Validation`
  obtain ⟨hI4, hS4, hV4, ht4, hl4, ho4, hc4⟩ := insertRows_frame slack (withTable s2 T) hI3 hS3 hV3 _ _ s4 h
  have hperm := insertTable_perm s2.tables T hnew2
  refine ⟨by rw [ht4]; show insertTable s2.tables T = _; rw [htabs2], hI4, hS4, hV4, ?_, ?_⟩
  · intro hnv
    have hTm : T ∈ (withTable s2 T).tables := hperm.mem_iff.mpr (List.mem_cons_self ..)
    rw [ho4 T hTm hnv]
    have hload : s2.loadRows T = .ok [] := by unfold Pkg.loadRows; rw [hfind2]; rfl
    unfold tableView rowsOf
    rw [loadRows_withTable, hload]; rfl
  · intro x hx h1 h2 h3
    have hx2 : x ∈ s2.tables := by rw [htabs2]; exact hx
    have hx3 : x ∈ (withTable s2 T).tables := hperm.mem_iff.mpr (List.mem_cons_of_mem _ hx2)
    rw [ho4 x hx3 h3]
    have : tableView (withTable s2 T) x = tableView s2 x := rfl
    rw [this, ho2 x (by rw [ht1]; exact hx) h2, ho1 x hx h1]


/-! ### drop_table -/

open MsiProofs.DropTable in
/-- the three catalog deletes and the removal from the table list -/
theorem dropTail_view (slack : Nat → Nat) (s1 : Pkg) (hI : Inv slack s1) (hS : SortedAll s1) (hV : ValidAll s1)
    (name : List Char) (s5 : Pkg) (h : dropTail s1 name = (s5, .ok ())) :
    s5.tables = s1.tables.filter (·.name != name) ∧ ValidAll s5 ∧
    (∀ x ∈ s1.tables, x.name ≠ Gen.nameColumns.toList → x.name ≠ Gen.nameTables.toList →
      x.name ≠ Gen.nameValidation.toList → tableView s5 x = tableView s1 x) := by
  unfold dropTail at h
  generalize hr2 : deleteValidation s1 name = r2 at h
  obtain ⟨s2, res2⟩ := r2
  cases res2 with
  | err k => cases (Prod.mk.inj h).2
  | panic w => cases (Prod.mk.inj h).2
  | ok u =>
  cases u
  simp only at h
  have hfr : Inv slack s2 ∧ SortedAll s2 ∧ ValidAll s2 ∧ s2.tables = s1.tables ∧
      (∀ x ∈ s1.tables, x.name ≠ Gen.nameValidation.toList → tableView s2 x = tableView s1 x) := by
    rcases MsiProofs.DeleteValidation.deleteValidation_cases s1 name with e | e
    · rw [e] at hr2
      have := deleteRows_frame slack s1 hI hS hV _ _ s2 hr2
      exact ⟨this.1, this.2.1, this.2.2.1, this.2.2.2.1, this.2.2.2.2.2⟩
    · rw [e] at hr2
      cases hr2
      exact ⟨hI, hS, hV, rfl, fun _ _ _ => rfl⟩
  obtain ⟨hI2, hS2, hV2, ht2, ho2⟩ := hfr
  generalize hr3 : deleteRows s2 Gen.nameColumns.toList (eqStr "Table" name) = r3 at h
  obtain ⟨s3, res3⟩ := r3
  cases res3 with
  | err k => cases (Prod.mk.inj h).2
  | panic w => cases (Prod.mk.inj h).2
  | ok u =>
  cases u
  simp only at h
  obtain ⟨hI3, hS3, hV3, ht3, -, ho3⟩ := deleteRows_frame slack s2 hI2 hS2 hV2 _ _ s3 hr3
  generalize hr4 : deleteRows s3 Gen.nameTables.toList (eqStr "Name" name) = r4 at h
  obtain ⟨s4, res4⟩ := r4
  cases res4 with
  | err k => cases (Prod.mk.inj h).2
  | panic w => cases (Prod.mk.inj h).2
  | ok u =>
  cases u
  simp only at h
  obtain ⟨hI4, hS4, hV4, ht4, -, ho4⟩ := deleteRows_frame slack s3 hI3 hS3 hV3 _ _ s4 hr4
  have hs5 := (Prod.mk.inj h).1
  subst hs5
  have htabs : s4.tables = s1.tables := by rw [ht4, ht3, ht2]
  refine ⟨by show s4.tables.filter _ = _; rw [htabs], ?_, ?_⟩
  · intro x hx row hrow
    exact hV4 x (List.mem_filter.mp hx).1 row hrow
  · intro x hx h1 h2 h3
    have : tableView { s4 with tables := s4.tables.filter (·.name != name) } x = tableView s4 x := rfl
    rw [this, ho4 x (by rw [ht3, ht2]; exact hx) h2, ho3 x (by rw [ht2]; exact hx) h1, ho2 x hx h3]

open MsiProofs.DropTable in
/-- **an accepted `drop_table`**: the table list loses exactly the definitions of that name; every
table other than the dropped one and the three catalog tables shows the rows it showed; all cells
stay valid -/
theorem dropTable_view (slack : Nat → Nat) (s : Pkg) (hI : Inv slack s) (hS : SortedAll s) (hV : ValidAll s)
    (name : List Char) (s5 : Pkg) (h : dropTable s name = (s5, .ok ())) :
    s5.tables = s.tables.filter (·.name != name) ∧ ValidAll s5 ∧
    (∀ x ∈ s.tables, x.name ≠ name → x.name ≠ Gen.nameColumns.toList → x.name ≠ Gen.nameTables.toList →
      x.name ≠ Gen.nameValidation.toList → tableView s5 x = tableView s x) := by
  unfold dropTable at h
  by_cases hres : Catalog.isReserved name = true
  · rw [if_pos hres] at h; cases (Prod.mk.inj h).2
  rw [if_neg hres] at h
  by_cases hvn : (!Table.isValidName name) = true
  · rw [if_pos hvn] at h; cases (Prod.mk.inj h).2
  rw [if_neg hvn] at h
  cases hf : s.findTable name with
  | none => simp only [hf] at h; cases (Prod.mk.inj h).2
  | some t =>
    simp only [hf] at h
    have htm := findTable_spec s name t hf
    have htn : t.name = name := findTable_name hf
    by_cases hex : Cont.exists_ s.cont t.streamName = true
    · rw [if_pos hex] at h
      obtain ⟨rows, hl⟩ := hI.loads t htm
      simp only [hl] at h
      obtain ⟨hI1, hS1, hK1, hl1⟩ := release_stage slack s hI hS t htm rows hl
      have hV1 : ValidAll (released s t rows) := by
        intro x hx row hrow
        have hx' : x ∈ s.tables := hx
        by_cases hxt : x.name = t.name
        · have hxeq : x = t := by
            have h1 : key x.streamName = key t.streamName := by unfold Table.streamName; rw [hxt]
            exact eq_of_same_stream s.tables hI.distinct hx' htm h1
          subst hxeq
          have : tableView (released s x rows) x = [] := by
            unfold tableView rowsOf; rw [hl1]; rfl
          rw [this] at hrow; cases hrow
        · rw [others_same hK1 x hx' hxt] at hrow
          exact hV x hx' row hrow
      obtain ⟨g1, g2, g3⟩ := dropTail_view slack (released s t rows) hI1 hS1 hV1 name s5 h
      refine ⟨g1, g2, ?_⟩
      intro x hx hne h1 h2 h3
      rw [g3 x hx h1 h2 h3]
      exact others_same hK1 x hx (by rw [htn]; exact hne)
    · rw [if_neg hex] at h
      simp only at h
      obtain ⟨g1, g2, g3⟩ := dropTail_view slack s hI hS hV name s5 h
      exact ⟨g1, g2, fun x hx _ h1 h2 h3 => g3 x hx h1 h2 h3⟩

end MsiProofs.RelationalApi
