import MsiProofs.Props.C03
import MsiProofs.Props.C09b
/-
Queries as trees (property C12): for every tree of joins, projections and filters, `Select::exec`
computes the comprehension ("relational algebra") reading of the tree — inner join = all
concatenations on which the condition holds, left-to-right; left join = additionally each
unmatched left row padded with nulls; filter = the rows on which the condition holds, in order;
projection = the named columns — and it never panics.
-/
namespace MsiProofs.SelectTree
open MsiModel MsiModel.Bytes MsiModel.Pkg MsiProofs.C09 MsiProofs.C12 MsiProofs.C03

/-- the rows of a join, as a comprehension -/
def joinSpec (p : Pool) (t : Table) (on : Ast) (isLeft : Bool) (k : Nat)
    (rows1 rows2 : List (List Cell)) : List (List Cell) :=
  rows1.flatMap fun r1 =>
    let ms := (rows2.filter fun r2 => condOn p t on (r1 ++ r2) == some true).map (r1 ++ ·)
    if isLeft && ms.isEmpty then [r1 ++ List.replicate k Cell.null] else ms

mutual
/-- the reading of a `Join` -/
def denoteJoin (s : Pkg) : Join → Res (Table × List (List Cell))
  | .table name =>
    match s.findTable name with
    | none => .err .notFound
    | some t => do
      let rows ← s.loadRows t
      pure (t, rows)
  | .inner l r on => do
    let (t1, rows1) ← denoteSelect s l
    let (t2, rows2) ← denoteSelect s r
    let cols := t1.columns.map (prefixed t1.name) ++ t2.columns.map (prefixed t2.name)
    let t : Table := ⟨[], cols, s.pool.longRefs⟩
    if missingColumns t on then .err .invalidInput else
    pure (t, joinSpec s.pool t on false t2.columns.length rows1 rows2)
  | .left l r on => do
    let (t1, rows1) ← denoteSelect s l
    let (t2, rows2) ← denoteSelect s r
    let cols := t1.columns.map (prefixed t1.name) ++
      t2.columns.map fun c => { prefixed t2.name c with isNullable := true }
    let t : Table := ⟨[], cols, s.pool.longRefs⟩
    if missingColumns t on then .err .invalidInput else
    pure (t, joinSpec s.pool t on true t2.columns.length rows1 rows2)

/-- the reading of a `Select` -/
def denoteSelect (s : Pkg) : Select → Res (Table × List (List Cell))
  | .mk from_ columns cond => do
    let (t, rows) ← denoteJoin s from_
    let indices ← projIndices t columns []
    if condMissing t cond then .err .invalidInput else
    let rows' := rows.filter fun r => condVal t s.pool cond r == some true
    if indices.isEmpty then pure (t, rows')
    else
      let cols := indices.map fun i => t.columns.getD i default
      pure (⟨[], cols, t.longRefs⟩, rows'.map fun r => indices.map fun i => r.getD i .null)
end

/-- the condition of a join evaluates on every concatenated row of the right width -/
theorem condOn_total (p : Pool) (t : Table) (on : Ast) (hm : missingColumns t on = false)
    (row : List Cell) (hw : row.length = t.columns.length) : ∃ b, condOn p t on row = some b := by
  have hcols : ∀ n ∈ on.columns, n ∈ (mkRow t (rowValues p row)).cols := by
    intro n hn
    simp only [missingColumns, List.any_eq_false, Bool.not_eq_true'] at hm
    have := hm n hn
    exact hasColumn_mem t n (by simpa using this)
  obtain ⟨v, hv⟩ := MsiProofs.C13.eval_total on (mkRow t (rowValues p row))
    (by simp [mkRow, rowValues, hw]) hcols
  exact ⟨v.toBool, by simp [condOn, hv]⟩

theorem condVal_total (t : Table) (p : Pool) (cond : Option Ast) (hm : condMissing t cond = false)
    (row : List Cell) (hw : row.length = t.columns.length) : ∃ b, condVal t p cond row = some b := by
  have := evalCond_np t p cond row hm hw
  unfold condVal
  cases he : evalCond t p cond row with
  | ok b => exact ⟨b, rfl⟩
  | panic w => exact absurd he (this w)
  | err k =>
    -- evaluation has no error outcome either
    cases cond with
    | none => simp [evalCond, pure] at he
    | some e =>
      simp only [evalCond] at he
      have hcols : ∀ n ∈ e.columns, n ∈ (mkRow t (rowValues p row)).cols := by
        intro n hn
        simp only [condMissing, missingColumns, List.any_eq_false, Bool.not_eq_true'] at hm
        have := hm n hn
        exact hasColumn_mem t n (by simpa using this)
      obtain ⟨v, hv⟩ := MsiProofs.C13.eval_total e (mkRow t (rowValues p row))
        (by simp [mkRow, rowValues, hw]) hcols
      simp [hv, bind, Res.bind, pure] at he

theorem joinSpec_width (p : Pool) (t : Table) (on : Ast) (isLeft : Bool) (n1 n2 : Nat)
    (rows1 rows2 : List (List Cell)) (h1 : Width n1 rows1) (h2 : Width n2 rows2) :
    Width (n1 + n2) (joinSpec p t on isLeft n2 rows1 rows2) := by
  intro r hr
  unfold joinSpec at hr
  simp only [List.mem_flatMap] at hr
  obtain ⟨r1, hr1, hr⟩ := hr
  split at hr
  · simp only [List.mem_singleton] at hr
    subst hr
    simp [h1 r1 hr1]
  · simp only [List.mem_map, List.mem_filter] at hr
    obtain ⟨r2, ⟨hr2, -⟩, rfl⟩ := hr
    simp [h1 r1 hr1, h2 r2 hr2]


theorem join_case (s : Pkg) (isLeft : Bool) (t1 t2 : Table) (rows1 rows2 : List (List Cell)) (on : Ast)
    (cols : List Column) (hcols : cols.length = t1.columns.length + t2.columns.length)
    (h1 : Width t1.columns.length rows1) (h2 : Width t2.columns.length rows2) :
    let t : Table := ⟨[], cols, s.pool.longRefs⟩
    (if missingColumns t on then (Res.err ErrKind.invalidInput : Res (Table × List (List Cell))) else do
      let rows ← joinRows s.pool t on isLeft t2.columns.length rows2 rows1 []
      pure (t, rows)) =
    (if missingColumns t on then Res.err ErrKind.invalidInput else
      pure (t, joinSpec s.pool t on isLeft t2.columns.length rows1 rows2)) := by
  intro t
  by_cases hm : missingColumns t on = true
  · simp [hm]
  · have hmf : missingColumns t on = false := by simpa using hm
    simp only [hmf, Bool.false_eq_true, if_false]
    have htot : ∀ r1 ∈ rows1, ∀ r2 ∈ rows2, ∃ b, condOn s.pool t on (r1 ++ r2) = some b := by
      intro r1 hr1 r2 hr2
      exact condOn_total s.pool t on hmf (r1 ++ r2) (by
        show (r1 ++ r2).length = cols.length
        simp [h1 r1 hr1, h2 r2 hr2, hcols])
    rw [joinRows_spec s.pool t on isLeft t2.columns.length rows2 rows1 [] htot]
    simp [joinSpec, bind, Res.bind, pure]

mutual
/-- **`Join::exec` = its reading**, and its rows have one cell per result column -/
theorem joinExec_eq (s : Pkg) : (j : Join) →
    joinExec s j = denoteJoin s j ∧ ∀ t rows, denoteJoin s j = .ok (t, rows) → Width t.columns.length rows
  | .table name => by
    refine ⟨by unfold joinExec denoteJoin; rfl, ?_⟩
    intro t rows h
    unfold denoteJoin at h
    cases hf : s.findTable name with
    | none => simp [hf] at h
    | some t0 =>
      simp only [hf, bind, Res.bind] at h
      cases hl : s.loadRows t0 with
      | ok r =>
        simp only [hl, pure, Res.ok.injEq, Prod.mk.injEq] at h
        obtain ⟨rfl, rfl⟩ := h
        exact loadRows_width s t0 r hl
      | err k => simp [hl] at h
      | panic w => simp [hl] at h
  | .inner l r on => by
    obtain ⟨el, wl⟩ := selectExec_eq s l
    obtain ⟨er, wr⟩ := selectExec_eq s r
    constructor
    · unfold joinExec denoteJoin
      rw [el, er]
      cases hl : denoteSelect s l with
      | err k => rfl
      | panic w => rfl
      | ok x1 =>
        obtain ⟨t1, rows1⟩ := x1
        cases hr : denoteSelect s r with
        | err k => rfl
        | panic w => rfl
        | ok x2 =>
          obtain ⟨t2, rows2⟩ := x2
          simp only [bind, Res.bind]
          exact join_case s false t1 t2 rows1 rows2 on _ (by simp) (wl t1 rows1 hl) (wr t2 rows2 hr)
    · intro t rows h
      unfold denoteJoin at h
      cases hl : denoteSelect s l with
      | err k => simp [hl, bind, Res.bind] at h
      | panic w => simp [hl, bind, Res.bind] at h
      | ok x1 =>
        obtain ⟨t1, rows1⟩ := x1
        cases hr : denoteSelect s r with
        | err k => simp [hl, hr, bind, Res.bind] at h
        | panic w => simp [hl, hr, bind, Res.bind] at h
        | ok x2 =>
          obtain ⟨t2, rows2⟩ := x2
          simp only [hl, hr, bind, Res.bind] at h
          split at h
          · cases h
          · simp only [pure, Res.ok.injEq, Prod.mk.injEq] at h
            obtain ⟨rfl, rfl⟩ := h
            have := joinSpec_width s.pool
              ⟨[], List.map (prefixed t1.name) t1.columns ++ List.map (prefixed t2.name) t2.columns, s.pool.longRefs⟩
              on false _ _ rows1 rows2 (wl t1 rows1 hl) (wr t2 rows2 hr)
            simpa using this
  | .left l r on => by
    obtain ⟨el, wl⟩ := selectExec_eq s l
    obtain ⟨er, wr⟩ := selectExec_eq s r
    constructor
    · unfold joinExec denoteJoin
      rw [el, er]
      cases hl : denoteSelect s l with
      | err k => rfl
      | panic w => rfl
      | ok x1 =>
        obtain ⟨t1, rows1⟩ := x1
        cases hr : denoteSelect s r with
        | err k => rfl
        | panic w => rfl
        | ok x2 =>
          obtain ⟨t2, rows2⟩ := x2
          simp only [bind, Res.bind]
          exact join_case s true t1 t2 rows1 rows2 on _ (by simp) (wl t1 rows1 hl) (wr t2 rows2 hr)
    · intro t rows h
      unfold denoteJoin at h
      cases hl : denoteSelect s l with
      | err k => simp [hl, bind, Res.bind] at h
      | panic w => simp [hl, bind, Res.bind] at h
      | ok x1 =>
        obtain ⟨t1, rows1⟩ := x1
        cases hr : denoteSelect s r with
        | err k => simp [hl, hr, bind, Res.bind] at h
        | panic w => simp [hl, hr, bind, Res.bind] at h
        | ok x2 =>
          obtain ⟨t2, rows2⟩ := x2
          simp only [hl, hr, bind, Res.bind] at h
          split at h
          · cases h
          · simp only [pure, Res.ok.injEq, Prod.mk.injEq] at h
            obtain ⟨rfl, rfl⟩ := h
            have := joinSpec_width s.pool
              ⟨[], List.map (prefixed t1.name) t1.columns ++
                List.map (fun c => { prefixed t2.name c with isNullable := true }) t2.columns, s.pool.longRefs⟩
              on true _ _ rows1 rows2 (wl t1 rows1 hl) (wr t2 rows2 hr)
            simpa using this

/-- **`Select::exec` = its reading**, and its rows have one cell per result column -/
theorem selectExec_eq (s : Pkg) : (q : Select) →
    selectExec s q = denoteSelect s q ∧ ∀ t rows, denoteSelect s q = .ok (t, rows) → Width t.columns.length rows
  | .mk from_ columns cond => by
    obtain ⟨ej, wj⟩ := joinExec_eq s from_
    constructor
    · unfold selectExec denoteSelect
      rw [ej]
      cases hj : denoteJoin s from_ with
      | err k => rfl
      | panic w => rfl
      | ok x =>
        obtain ⟨t, rows⟩ := x
        simp only [bind, Res.bind]
        cases hp : projIndices t columns [] with
        | err k => rfl
        | panic w => rfl
        | ok indices =>
          simp only
          by_cases hm : condMissing t cond = true
          · simp [hm]
          · have hmf : condMissing t cond = false := by simpa using hm
            simp only [hmf, Bool.false_eq_true, if_false]
            have hw := wj t rows hj
            rw [filterRows_spec t s.pool cond rows [] (fun r hr => condVal_total t s.pool cond hmf r (hw r hr))]
            simp [bind, Res.bind]
    · intro t rows h
      unfold denoteSelect at h
      cases hj : denoteJoin s from_ with
      | err k => simp [hj, bind, Res.bind] at h
      | panic w => simp [hj, bind, Res.bind] at h
      | ok x =>
        obtain ⟨t0, rows0⟩ := x
        simp only [hj, bind, Res.bind] at h
        cases hp : projIndices t0 columns [] with
        | err k => simp [hp] at h
        | panic w => simp [hp] at h
        | ok indices =>
          simp only [hp] at h
          split at h
          · cases h
          · have hw := wj t0 rows0 hj
            split at h
            · simp only [pure, Res.ok.injEq, Prod.mk.injEq] at h
              obtain ⟨rfl, rfl⟩ := h
              intro r hr
              exact hw r (List.mem_filter.mp hr).1
            · simp only [pure, Res.ok.injEq, Prod.mk.injEq] at h
              obtain ⟨rfl, rfl⟩ := h
              intro r hr
              simp only [List.mem_map] at hr
              obtain ⟨r0, -, rfl⟩ := hr
              simp
end


theorem np_projIndices (t : Table) (names : List (List Char)) : ∀ acc, NoPanic (projIndices t names acc) := by
  induction names with
  | nil => intro acc; exact np_pure _
  | cons n ns ih =>
    intro acc
    simp only [projIndices]
    split
    · exact ih _
    · exact np_err _

mutual
theorem np_denoteJoin (s : Pkg) : (j : Join) → NoPanic (denoteJoin s j)
  | .table name => by
    unfold denoteJoin
    split
    · exact np_err _
    · exact np_bind (np_loadRows _ _) fun _ => np_pure _
  | .inner l r on => by
    unfold denoteJoin
    exact np_bind (np_denoteSelect s l) fun _ => np_bind (np_denoteSelect s r) fun _ =>
      np_ite (np_err _) (np_pure _)
  | .left l r on => by
    unfold denoteJoin
    exact np_bind (np_denoteSelect s l) fun _ => np_bind (np_denoteSelect s r) fun _ =>
      np_ite (np_err _) (np_pure _)
theorem np_denoteSelect (s : Pkg) : (q : Select) → NoPanic (denoteSelect s q)
  | .mk from_ columns cond => by
    unfold denoteSelect
    exact np_bind (np_denoteJoin s from_) fun _ => np_bind (np_projIndices _ _ _) fun _ =>
      np_ite (np_err _) (np_ite (np_pure _) (np_pure _))
end

/-- **`Select::exec` never panics**, on any package state and any query tree -/
theorem select_never_panics (s : Pkg) (q : Select) : NoPanic (selectExec s q) := by
  rw [(selectExec_eq s q).1]; exact np_denoteSelect s q

end MsiProofs.SelectTree
