import MsiProofs.Lemmas.SelectTree
import MsiProofs.Lemmas.Relational
/-
Select on the relational view (properties C03, C12): a select on a table returns — as values —
exactly the rows the table shows on which the condition is true, in the order the table shows them
(ascending primary-key order in every state with sorted tables), restricted to the requested
columns in the requested order; the number of rows returned is the number of rows satisfying the
condition.
-/
namespace MsiProofs.SelectView
open MsiModel MsiModel.Bytes MsiModel.Pkg MsiProofs.GlobalInv MsiProofs.SortedInv MsiProofs.Relational
open MsiProofs.SelectTree MsiProofs.C03

/-- the requested columns of a row of values -/
def projV (indices : List Nat) (row : List Value) : List Value := indices.map fun i => row.getD i .null

theorem toValue_getD (p : Pool) (r : List Cell) (i : Nat) :
    Cell.toValue p (r.getD i .null) = (rowValues p r).getD i .null := by
  unfold rowValues
  simp only [List.getD_eq_getElem?_getD, List.getElem?_map]
  cases r[i]? <;> rfl

theorem rowValues_proj (p : Pool) (indices : List Nat) (r : List Cell) :
    rowValues p (indices.map fun i => r.getD i .null) = projV indices (rowValues p r) := by
  unfold projV
  show (indices.map fun i => r.getD i .null).map (Cell.toValue p) = _
  rw [List.map_map]
  apply List.map_congr_left
  intro i _
  exact toValue_getD p r i

theorem condVal_true_iff (t : Table) (p : Pool) (cond : Option Ast) (r : List Cell) :
    (condVal t p cond r == some true) = (condV t cond (rowValues p r) == .ok true) := by
  unfold condVal
  rw [evalCond_eq]
  cases condV t cond (rowValues p r) with
  | ok b => cases b <;> rfl
  | err k => rfl
  | panic w => rfl

/-- **a select on a table, read off the relational view** -/
theorem select_table_view (s : Pkg) (name : List Char) (cols : List (List Char)) (cond : Option Ast)
    (t : Table) (ht : s.findTable name = some t) (rows : List (List Cell)) (hl : s.loadRows t = .ok rows)
    (indices : List Nat) (hp : projIndices t cols [] = .ok indices) (hm : condMissing t cond = false) :
    ∃ t' out, selectExec s (.mk (.table name) cols cond) = .ok (t', out) ∧
      out.map (rowValues s.pool) =
        (if indices.isEmpty then (tableView s t).filter fun v => condV t cond v == .ok true
         else ((tableView s t).filter fun v => condV t cond v == .ok true).map (projV indices)) ∧
      out.length = ((tableView s t).filter fun v => condV t cond v == .ok true).length := by
  rw [(selectExec_eq s _).1]
  unfold denoteSelect denoteJoin
  simp only [ht, hl, bind, Res.bind, pure, hp, hm, Bool.false_eq_true, if_false]
  have hfilt : (rows.filter fun r => condVal t s.pool cond r == some true).map (rowValues s.pool) =
      (tableView s t).filter fun v => condV t cond v == .ok true := by
    rw [tableView_ok hl, List.filter_map]
    congr 1
    apply List.filter_congr
    intro r _
    simp only [Function.comp]
    exact condVal_true_iff t s.pool cond r
  by_cases he : indices.isEmpty = true
  · simp only [he, if_true]
    exact ⟨_, _, rfl, hfilt, by rw [← hfilt, List.length_map]⟩
  · simp only [he, Bool.false_eq_true, if_false]
    refine ⟨_, _, rfl, ?_, by rw [← hfilt]; simp⟩
    rw [← hfilt, List.map_map, List.map_map]
    apply List.map_congr_left
    intro r _
    exact rowValues_proj s.pool indices r

/-- in a package with sorted tables the rows a select returns are in ascending primary-key order
(the order of the rows the table shows) -/
theorem select_order (s : Pkg) (hS : SortedAll s) (t : Table) (ht : t ∈ s.tables) (cond : Option Ast) :
    Ascending t ((tableView s t).filter fun v => condV t cond v == .ok true) := by
  have := view_ascending s hS t ht
  unfold Ascending at this ⊢
  exact this.sublist ((List.filter_sublist).map _)

end MsiProofs.SelectView
