import MsiProofs.Lemmas.Lifecycle2
import MsiProofs.Lemmas.SummaryInv
/-
The whole-life theorem with every hypothesis discharged (properties C01, C10, C04, C05, C08): for
a package made by `Package::create` under the UTF-8 code page and ANY sequence of calls —
statements on user tables, `create_table`, `drop_table`, stream writes and removals, signature
removal, the summary setters and clearers covered by `SumOp`, `set_database_codepage(UTF-8)`,
saves, and close-and-reopen when nothing is pending — with arbitrary Unicode text, as long as no
call hits the string pool's capacity panic (finding D16b) and encoded strings stay below the
format's length fields: EVERY save succeeds, and the saved container reopens as the package it
was — same container, summary information, string pool, table definitions and rows.
-/
namespace MsiProofs.ClosedLifecycle
open MsiModel MsiModel.Bytes MsiModel.Pkg MsiProofs.GlobalInv MsiProofs.SortedInv MsiProofs.Frame
open MsiProofs.SaveOpen MsiProofs.CreateTable MsiProofs.FullHistory MsiProofs.Created MsiProofs.Lifecycle
open MsiProofs.ValidCells MsiProofs.RelationalLife MsiProofs.Lifecycle2 MsiProofs.PoolText MsiProofs.AsciiLifecycle
open MsiProofs.Utf8Lifecycle MsiProofs.SummaryInv MsiProofs.PoolCodec MsiProofs.PropSetCodec

/-- everything the library maintains -/
structure All (slack : Nat → Nat) (s : Pkg) (tabs : List Table) : Prop where
  full : Full slack s tabs
  noOrphans : NoOrphans s
  valid : ValidAll s
  pool : PT IsUtf8 Utf8Short s.pool
  summary : SumInv s.summary

/-- the calls covered; nothing is assumed about their outcome except "no capacity panic" -/
def StepC (s : Pkg) : Step → Prop
  | .dml op => MsiProofs.EndToEnd.UserOp op ∧ StepA IsUtf8 Utf8Short (.dml op)
  | .create n c => (∀ w, (createTable s n c).2 ≠ .panic w) ∧ StepA IsUtf8 Utf8Short (.create n c)
  | .drop _ => True
  | .writeStream _ _ => True
  | .removeStream _ => True
  | .removeSignature => True
  | .setSummary f => (∃ op : SumOp, op.Ok ∧ f = op.apply) ∨ (∃ op : TemplOp, op.OkIn s.summary ∧ f = op.apply)
  | .setCodepage cp => IsUtf8 cp
  | .save => True
  | .reopen => s.summaryModified = false ∧ s.pool.modified = false

def AdmissibleC : Pkg → List Step → Prop
  | _, [] => True
  | s, st :: rest => StepC s st ∧ AdmissibleC (st.run s) rest

theorem savable_of_all {slack : Nat → Nat} {s : Pkg} {tabs : List Table} (h : All slack s tabs) :
    Savable s utf8Bytes :=
  ⟨(sumInv_wf s.summary h.summary).1, (sumInv_wf s.summary h.summary).2, poolOk_utf8 s.pool h.pool⟩

/-- **a state that can be written is written**: the finisher succeeds -/
theorem finish_ok (s : Pkg) (E : List Char → Bytes) (hs : Savable s E) : (finish s).2 = .ok () := by
  obtain ⟨sb, hsw, -⟩ := propset_roundtrip s.summary hs.summary
  obtain ⟨pb, db, hpw, hdw, -⟩ := pool_roundtrip s.pool E hs.pool
  unfold finish
  cases hsm : s.summaryModified <;> cases hpm : s.pool.modified <;> simp [hsm, hpm, hsw, hpw, hdw]

theorem flush_ok (s : Pkg) (E : List Char → Bytes) (hs : Savable s E) : (flush s).2 = .ok () := by
  unfold flush
  split
  · exact finish_ok _ E ⟨hs.summary, hs.fmtid, hs.pool⟩
  · rfl

/-- with nothing pending, the container holds the package -/
theorem saved_of_synced (s : Pkg) (h : MsiProofs.Synced.Synced s) (h1 : s.summaryModified = false)
    (h2 : s.pool.modified = false) : Saved s := ⟨h.summary h1, h.pool h2⟩

/-- a covered call is admissible in the sense of the lifecycle theorem -/
theorem admissible_of_stepC (slack : Nat → Nat) (s : Pkg) (tabs : List Table) (h : All slack s tabs) (st : Step)
    (hc : StepC s st) : AdmissibleW1 s st := by
  cases st with
  | dml op => exact hc.1
  | create n c => exact hc.1
  | drop n => trivial
  | writeStream n d => trivial
  | removeStream n => trivial
  | removeSignature => trivial
  | setSummary f => trivial
  | setCodepage cp => trivial
  | save => exact ⟨flush_ok s utf8Bytes (savable_of_all h), utf8Bytes, savable_of_all h⟩
  | reopen => exact saved_of_synced s h.full.core.metaSync hc.1 hc.2

/-- the summary information after a call -/
theorem summary_after (slack : Nat → Nat) (s : Pkg) (tabs : List Table) (h : All slack s tabs) (st : Step)
    (hc : StepC s st) : SumInv (st.run s).summary := by
  have hsep := h.full.core.sep
  cases st with
  | dml op =>
    have := (MsiProofs.EndToEnd.effect_of_op { s with finisher := true } hsep op).1.summary
    show SumInv (op.run { s with finisher := true }).summary
    rw [this]; exact h.summary
  | create n c =>
    have := (MsiProofs.Synced.good_createTable s hsep n c).effect.summary
    show SumInv (createTable s n c).1.summary
    rw [this]; exact h.summary
  | drop n =>
    have := (MsiProofs.Synced.good_dropTable s hsep n).effect.summary
    show SumInv (dropTable s n).1.summary
    rw [this]; exact h.summary
  | writeStream n d =>
    show SumInv (Pkg.writeStream s n d).1.summary
    unfold Pkg.writeStream; split <;> exact h.summary
  | removeStream n =>
    show SumInv (Pkg.removeStream s n).1.summary
    unfold Pkg.removeStream
    split
    · exact h.summary
    · simp only; split <;> exact h.summary
  | removeSignature => exact h.summary
  | setSummary f =>
    rcases hc with ⟨op, hok, rfl⟩ | ⟨op, hok, rfl⟩
    · exact sumInv_apply s.summary h.summary op hok
    · exact sumInv_templ s.summary h.summary op hok
  | setCodepage cp => exact h.summary
  | save =>
    show SumInv (flush s).1.summary
    unfold flush
    split
    · rw [(finish_keeps { s with finisher := false }).1]; exact h.summary
    · exact h.summary
  | reopen =>
    have hA := full_allInv slack s tabs h.full
    have hsaved := saved_of_synced s h.full.core.metaSync hc.1 hc.2
    obtain ⟨s2, ho, -, hs, -, -⟩ := MsiProofs.CatalogSync.reopen_same_tables s tabs hsaved hA.cat
    show SumInv (match open_ (some s.ptype) s.cont with | .ok s2 => s2 | _ => s).summary
    rw [ho]; simp only; rw [hs]; exact h.summary

/-- the string pool after a call -/
theorem pool_after (slack : Nat → Nat) (s : Pkg) (tabs : List Table) (h : All slack s tabs) (st : Step)
    (hc : StepC s st) : PT IsUtf8 Utf8Short (st.run s).pool := by
  cases st with
  | create n c => exact createTable_pt IsUtf8 Utf8Short s n c hc.2.1 hc.2.2.1 hc.2.2.2 h.pool
  | dml op =>
    exact step_pt IsUtf8 Utf8Short utf8Short_nil slack s tabs h.full (.dml op) hc.1 hc.2 h.pool
  | drop n => exact dropTable_pt IsUtf8 Utf8Short utf8Short_nil s n h.pool
  | writeStream n d =>
    exact step_pt IsUtf8 Utf8Short utf8Short_nil slack s tabs h.full (.writeStream n d) trivial trivial h.pool
  | removeStream n =>
    exact step_pt IsUtf8 Utf8Short utf8Short_nil slack s tabs h.full (.removeStream n) trivial trivial h.pool
  | removeSignature =>
    exact step_pt IsUtf8 Utf8Short utf8Short_nil slack s tabs h.full .removeSignature trivial trivial h.pool
  | setSummary f =>
    exact step_pt IsUtf8 Utf8Short utf8Short_nil slack s tabs h.full (.setSummary f) trivial trivial h.pool
  | setCodepage cp =>
    exact step_pt IsUtf8 Utf8Short utf8Short_nil slack s tabs h.full (.setCodepage cp) trivial hc h.pool
  | save =>
    exact step_pt IsUtf8 Utf8Short utf8Short_nil slack s tabs h.full .save
      ⟨flush_ok s utf8Bytes (savable_of_all h), utf8Bytes, savable_of_all h⟩ trivial h.pool
  | reopen =>
    exact step_pt IsUtf8 Utf8Short utf8Short_nil slack s tabs h.full .reopen
      (saved_of_synced s h.full.core.metaSync hc.1 hc.2) trivial h.pool

/-- **one covered call keeps everything** -/
theorem step_closed (slack : Nat → Nat) (s : Pkg) (tabs : List Table) (h : All slack s tabs) (st : Step)
    (hc : StepC s st) : ∃ tabs', All slack (st.run s) tabs' := by
  obtain ⟨tabs', hF, hN, hV⟩ := step_all slack s tabs h.full h.noOrphans h.valid st
    (admissible_of_stepC slack s tabs h st hc)
  exact ⟨tabs', hF, hN, hV, pool_after slack s tabs h st hc, summary_after slack s tabs h st hc⟩

/-- **every reachable state keeps everything** -/
theorem history_closed (slack : Nat → Nat) (steps : List Step) : ∀ (s : Pkg) (tabs : List Table),
    All slack s tabs → AdmissibleC s steps → ∃ tabs', All slack (runAll s steps) tabs' := by
  induction steps with
  | nil => intro s tabs h _; exact ⟨tabs, h⟩
  | cons st rest ih =>
    intro s tabs h ha
    obtain ⟨tabs', h'⟩ := step_closed slack s tabs h st ha.1
    exact ih _ tabs' h' ha.2

/-- **the whole-life theorem, closed**: start from what `create` builds under a UTF-8 summary that
satisfies the summary invariant; run any covered history; then a save SUCCEEDS and the saved
container reopens as the same package -/
theorem created_closed (ptype : Nat) (summary : PropSet) (hsum : SumInv summary) (s0 : Pkg)
    (hc : createTable (base ptype summary) Gen.nameValidation.toList Catalog.validationColumns = (s0, .ok ()))
    (steps : List Step) (ha : AdmissibleC s0 steps) :
    ∃ s1, finish (runAll s0 steps) = (s1, .ok ()) ∧
    ∃ s2, open_ (some s1.ptype) s1.cont = .ok s2 ∧
      s2.cont = s1.cont ∧ s2.summary = s1.summary ∧ s2.pool = s1.pool ∧ s2.tables = s1.tables ∧
      (∀ t, s2.loadRows t = s1.loadRows t) := by
  obtain ⟨hF0, hN0⟩ := created_full ptype summary s0 hc
  have hsum0 : SumInv s0.summary := by
    have := (MsiProofs.Synced.good_createTable (base ptype summary) (base_core ptype summary).sep
      Gen.nameValidation.toList Catalog.validationColumns).effect.summary
    rw [hc] at this
    rw [this]; exact hsum
  have h0 : All (fun _ => 0) s0 _ :=
    ⟨hF0, hN0, created_valid ptype summary s0 hc, created_ptU ptype summary hsum.cp s0 hc, hsum0⟩
  obtain ⟨tabs, h⟩ := history_closed _ steps s0 _ h0 ha
  have hsav := savable_of_all h
  have hok := finish_ok (runAll s0 steps) utf8Bytes hsav
  refine ⟨(finish (runAll s0 steps)).1, by rw [← hok], ?_⟩
  have hf : finish (runAll s0 steps) = ((finish (runAll s0 steps)).1, .ok ()) := by rw [← hok]
  have hA := full_allInv _ _ tabs h.full
  obtain ⟨hsaved, -, -⟩ := MsiProofs.Synced.finish_step _ _ utf8Bytes hA.metaSync hA.sep hsav hf
  have hcat := MsiProofs.CatalogSync.finish_catalogSynced _ _ tabs hA.cat hf
  obtain ⟨s2, ho, hc', hs, hp, ht⟩ := MsiProofs.CatalogSync.reopen_same_tables _ tabs hsaved hcat
  exact ⟨s2, ho, hc', hs, hp, ht, fun t => rows_same_after_reopen _ s2 hc' t⟩


/-! ### from `Package::create` itself -/

/-- the summary information `SummaryInfo::new` builds -/
def newSummary : PropSet :=
  (PropSet.new Gen.summaryOs Gen.summaryOsVersion Gen.summaryFmtid).set Gen.propCodepage
    (.i2 (toI16 (65001 % 65536)))

theorem summary_new (prof : Profile) (p : PropSet) (h : Summary.new prof = .ok p) : p = newSummary := by
  have all : ∀ a b : Bool, Summary.new ⟨a, b⟩ = .ok newSummary := by decide +kernel
  obtain ⟨oc, da⟩ := prof
  rw [all oc da] at h
  cases h; rfl

theorem newSummary_inv : SumInv newSummary := by
  have hprops : newSummary.props = [(Gen.propCodepage, PropVal.i2 (toI16 (65001 % 65536)))] := by decide +kernel
  have hcp : newSummary.codepage = PropSet.utf8 := by decide +kernel
  refine ⟨by unfold IsUtf8; rw [hcp]; decide +kernel, by decide +kernel, by decide +kernel, by decide +kernel,
    by decide +kernel, by decide +kernel, ?_, ?_, ?_⟩
  rotate_left 2
  · unfold CpConsistent
    rw [hprops, hcp]
    have hfind : List.find? (fun kv => kv.fst == Gen.propCodepage)
        [(Gen.propCodepage, PropVal.i2 (toI16 (65001 % 65536)))] =
        some (Gen.propCodepage, PropVal.i2 (toI16 (65001 % 65536))) := by decide +kernel
    rw [hfind]
    show CodePage.fromId ((ofI16 (toI16 (65001 % 65536)) : Nat) : Int) = some PropSet.utf8
    decide +kernel
  · intro kv hkv
    have : kv = (Gen.propCodepage, PropVal.i2 (toI16 (65001 % 65536))) := by
      have h : newSummary.props = [(Gen.propCodepage, PropVal.i2 (toI16 (65001 % 65536)))] := by decide +kernel
      rw [h] at hkv; simpa using hkv
    subst this; decide
  · intro kv hkv
    have : kv = (Gen.propCodepage, PropVal.i2 (toI16 (65001 % 65536))) := by
      have h : newSummary.props = [(Gen.propCodepage, PropVal.i2 (toI16 (65001 % 65536)))] := by decide +kernel
      rw [h] at hkv; simpa using hkv
    subst this
    show -32768 ≤ toI16 (65001 % 65536) ∧ toI16 (65001 % 65536) ≤ 32767
    decide +kernel

/-- the title `create` sets is short ASCII text -/
theorem title_small (ptype : Nat) : ValSmall (.lpstr (ptypeTitle ptype).toList) := by
  show (utf8Bytes _).length < bound
  refine Nat.lt_of_le_of_lt (utf8Bytes_le _) ?_
  unfold ptypeTitle bound
  split <;> decide

/-- **every package made with `Package::create` — closed form**: whatever covered calls follow, a
save succeeds and the saved container reopens as the same package -/
theorem create_closed (prof : Profile) (ptype : Nat) (s : Pkg) (hc : create prof ptype = .ok s)
    (steps : List Step) (ha : AdmissibleC s steps) :
    ∃ s1, finish (runAll s steps) = (s1, .ok ()) ∧
    ∃ s2, open_ (some s1.ptype) s1.cont = .ok s2 ∧
      s2.cont = s1.cont ∧ s2.summary = s1.summary ∧ s2.pool = s1.pool ∧ s2.tables = s1.tables ∧
      (∀ t, s2.loadRows t = s1.loadRows t) := by
  -- `create` = base state, `create_table("_Validation")`, a flush
  unfold create at hc
  cases hs : Summary.new prof with
  | err k => rw [hs] at hc; cases hc
  | panic w => rw [hs] at hc; cases hc
  | ok summary0 =>
    rw [hs] at hc
    simp only [bind, Res.bind] at hc
    have hsum : SumInv (summary0.set Gen.propTitle (.lpstr (ptypeTitle ptype).toList)) := by
      rw [summary_new prof summary0 hs]
      exact sumInv_set _ newSummary_inv _ _ (by decide) (by decide) (title_small ptype)
    generalize hr : createTable _ Gen.nameValidation.toList Catalog.validationColumns = r at hc
    obtain ⟨s0, res⟩ := r
    cases res with
    | err k => cases hc
    | panic w => cases hc
    | ok u =>
      cases u
      simp only at hc
      generalize hr2 : flush s0 = r2 at hc
      obtain ⟨s', res2⟩ := r2
      cases res2 with
      | err k => cases hc
      | panic w => cases hc
      | ok u =>
        cases u
        cases hc
        have hrun : runAll s0 (Step.save :: steps) = runAll s steps := by
          show runAll (flush s0).1 steps = _
          rw [hr2]
        have hadm : AdmissibleC s0 (Step.save :: steps) := by
          refine ⟨trivial, ?_⟩
          show AdmissibleC (flush s0).1 steps
          rw [hr2]; exact ha
        have := created_closed ptype _ hsum s0 hr (Step.save :: steps) hadm
        rw [hrun] at this
        exact this

end MsiProofs.ClosedLifecycle
