import MsiProofs.Lemmas.CreateTable
/-
`create_table`, accepted, takes a state that satisfies every package invariant to a state that
satisfies them for the table list extended by the new definition.
-/
namespace MsiProofs.CreateTable
open MsiModel MsiModel.Bytes MsiModel.Pkg MsiProofs.CatalogOpen MsiProofs.CatalogCodec MsiProofs.CatalogSync
open MsiProofs.GlobalInv MsiProofs.SortedInv MsiProofs.CatalogRows MsiProofs.Frame MsiProofs.Refine
open MsiProofs.RefineExact MsiProofs.RefineDelete MsiProofs.SaveOpen MsiProofs.RowsOk

/-- one catalog insert of `create_table` -/
theorem stage_insert (slack : Nat → Nat) (s : Pkg) (hI : Inv slack s) (hS : SortedAll s) (tn : List Char)
    (R : List (List Value)) (s' : Pkg) (h : insertRows s tn R = (s', .ok ())) (X : Table)
    (hX : s.findTable tn = some X) :
    Inv slack s' ∧ SortedAll s' ∧ s'.tables = s.tables ∧ s'.pool.longRefs = s.pool.longRefs ∧
    (∀ P, Reads s X P → Reads s' X (fun v => P v ∨ v ∈ R.map (fun r => r.map storable))) ∧
    (∀ Y ∈ s.tables, Y.name ≠ tn → ∀ P, Reads s Y P → Reads s' Y P) ∧
    (∀ n, key X.streamName ≠ key n → dataOf s'.cont n = dataOf s.cont n) := by
  unfold insertRows at h
  have hIA := inv_finisher slack s hI
  have hk := insert_kept slack _ tn R s' hIA h
  refine ⟨insert_inv slack _ tn R s' hIA h, insert_sorted slack _ tn R s' hIA (sorted_finisher s hS) h,
    hk.tables, hk.long, ?_, ?_, ?_⟩
  · intro P hr; exact reads_insert slack _ hIA tn R s' h X hX (reads_finisher hr)
  · intro Y hY hne P hr; exact reads_kept hk hY hne (reads_finisher hr)
  · have htm := findTable_spec _ tn X hX
    obtain ⟨rows, hl⟩ := hIA.loads X htm
    have hliveAll := live_of_accounted slack _ _ hIA.pos hIA.counts
    have hlive : ∀ r ∈ rows, ∀ c ∈ r, LiveCell s.pool c :=
      fun r hr c hc => hliveAll c (mem_cellsOfTables htm hl hr hc)
    obtain ⟨_, _, _, _, _, _, _, hother, _, _⟩ := insert_refines _ tn R s' h X hX rows hl hlive
    exact hother


/-- every invariant of a package, with the catalog part in membership form (all but "the
`_Validation` table is one of the tables", which `Package::create` establishes last) -/
structure Core (slack : Nat → Nat) (s : Pkg) (tabs : List Table) : Prop where
  inv : Inv slack s
  sorted : SortedAll s
  metaSync : MsiProofs.Synced.Synced s
  sep : MsiProofs.Synced.TablesSeparate s
  rows : Rows s tabs
  tables : s.tables = insertTable (insertTable tabs (Catalog.tablesTable s.pool.longRefs))
    (Catalog.columnsTable s.pool.longRefs)
  tsorted : NameSorted tabs
  names : (tabs.map fun (t : Table) => t.name).Nodup
  ok : ∀ t ∈ tabs, (∀ c ∈ t.columns, ColOk c) ∧ t.columns ≠ [] ∧ t.longRefs = s.pool.longRefs ∧
    (t.columns.map fun (c : Column) => c.name).Nodup
  small : ∀ t ∈ tabs, t.columns.length < 2147483647
  namesOk : NamesOk tabs
  valid : ∀ t ∈ tabs, StreamName.isValid t.name true = true
  notCat : ∀ t ∈ tabs, t.name ≠ Gen.nameTables.toList ∧ t.name ≠ Gen.nameColumns.toList

theorem tables_perm3 (tabs : List Table) (a b : Table) (ha : ∀ t ∈ tabs, t.name ≠ a.name)
    (hb : ∀ t ∈ tabs, t.name ≠ b.name) (hab : a.name ≠ b.name) :
    (insertTable (insertTable tabs a) b).Perm (b :: a :: tabs) := by
  have h1 := insertTable_perm tabs a ha
  have h2 := insertTable_perm (insertTable tabs a) b (by
    intro x hx
    have := h1.mem_iff.mp hx
    simp only [List.mem_cons] at this
    rcases this with rfl | hx'
    · exact hab
    · exact hb x hx')
  exact h2.trans (h1.cons b)

theorem Core.perm {slack : Nat → Nat} {s : Pkg} {tabs : List Table} (h : Core slack s tabs) :
    s.tables.Perm (Catalog.columnsTable s.pool.longRefs :: Catalog.tablesTable s.pool.longRefs :: tabs) := by
  rw [h.tables]
  exact tables_perm3 tabs _ _ (fun t ht => (h.notCat t ht).1) (fun t ht => (h.notCat t ht).2) (by show Gen.nameTables.toList ≠ Gen.nameColumns.toList; decide)

theorem find_of_mem_nodup (ts : List Table) (hnd : (ts.map fun (t : Table) => t.name).Nodup) (t : Table) (ht : t ∈ ts) :
    ts.find? (·.name == t.name) = some t := by
  induction ts with
  | nil => cases ht
  | cons x rest ih =>
    simp only [List.map_cons, List.nodup_cons] at hnd
    simp only [List.mem_cons] at ht
    rcases ht with rfl | ht
    · simp [List.find?_cons]
    · have hne : (x.name == t.name) = false := by
        simp only [beq_eq_false_iff_ne, ne_eq]
        intro e
        exact hnd.1 (e ▸ List.mem_map_of_mem ht)
      simp only [List.find?_cons, hne]
      exact ih hnd.2 ht

theorem Core.names_nodup {slack : Nat → Nat} {s : Pkg} {tabs : List Table} (h : Core slack s tabs) :
    (s.tables.map fun (t : Table) => t.name).Nodup := by
  rw [(h.perm.map _).nodup_iff]
  simp only [List.map_cons, List.nodup_cons, List.mem_cons, List.mem_map, not_or, not_exists, not_and]
  refine ⟨⟨by show ¬ Gen.nameColumns.toList = Gen.nameTables.toList; decide, fun t ht => (h.notCat t ht).2⟩, fun t ht => (h.notCat t ht).1, h.names⟩

theorem Core.find {slack : Nat → Nat} {s : Pkg} {tabs : List Table} (h : Core slack s tabs) (t : Table)
    (ht : t ∈ s.tables) : s.findTable t.name = some t :=
  find_of_mem_nodup s.tables h.names_nodup t ht

theorem Core.mem {slack : Nat → Nat} {s : Pkg} {tabs : List Table} (h : Core slack s tabs) (t : Table) :
    t ∈ s.tables ↔ t = Catalog.columnsTable s.pool.longRefs ∨ t = Catalog.tablesTable s.pool.longRefs ∨ t ∈ tabs := by
  rw [h.perm.mem_iff]; simp


/-- every invariant of a package -/
structure Full (slack : Nat → Nat) (s : Pkg) (tabs : List Table) : Prop where
  core : Core slack s tabs
  hasVal : Catalog.validationTable s.pool.longRefs ∈ tabs

theorem find_insertTable_self (ts : List Table) (t : Table) (hnew : ∀ x ∈ ts, x.name ≠ t.name) :
    (insertTable ts t).find? (·.name == t.name) = some t := by
  induction ts with
  | nil => simp [insertTable, List.find?_cons]
  | cons x rest ih =>
    simp only [insertTable]
    split
    · simp [List.find?_cons]
    · have hne' : x.name ≠ t.name := hnew x (by simp)
      have hneq : (t.name == x.name) = false := by
        simp only [beq_eq_false_iff_ne, ne_eq]; exact fun e => hne' e.symm
      have hneq2 : (x.name == t.name) = false := by
        simp only [beq_eq_false_iff_ne, ne_eq]; exact hne'
      simp only [hneq, Bool.false_eq_true, if_false, List.find?_cons, hneq2]
      exact ih (fun y hy => hnew y (by simp [hy]))

theorem mem_insertTable (tabs : List Table) (n : Table) (hnew : ∀ x ∈ tabs, x.name ≠ n.name) (t : Table) :
    t ∈ insertTable tabs n ↔ t = n ∨ t ∈ tabs := by
  rw [(insertTable_perm tabs n hnew).mem_iff]; simp

theorem exists_insertTable (tabs : List Table) (n : Table) (hnew : ∀ x ∈ tabs, x.name ≠ n.name) (Q : Table → Prop) :
    (∃ t ∈ insertTable tabs n, Q t) ↔ ((∃ t ∈ tabs, Q t) ∨ Q n) := by
  constructor
  · rintro ⟨t, ht, hq⟩
    rcases (mem_insertTable tabs n hnew t).mp ht with rfl | ht'
    · exact Or.inr hq
    · exact Or.inl ⟨t, ht', hq⟩
  · rintro (⟨t, ht, hq⟩ | hq)
    · exact ⟨t, (mem_insertTable tabs n hnew t).mpr (Or.inr ht), hq⟩
    · exact ⟨n, (mem_insertTable tabs n hnew n).mpr (Or.inl rfl), hq⟩

theorem insertTable_comm (ts : List Table) (a b : Table) (hs : NameSorted ts) (ha : ∀ x ∈ ts, x.name ≠ a.name)
    (hb : ∀ x ∈ ts, x.name ≠ b.name) (hab : a.name ≠ b.name) :
    insertTable (insertTable ts a) b = insertTable (insertTable ts b) a := by
  obtain ⟨sa, pa⟩ := insertTable_sorted ts a hs ha
  obtain ⟨sb, pb⟩ := insertTable_sorted ts b hs hb
  have hb' : ∀ x ∈ insertTable ts a, x.name ≠ b.name := by
    intro x hx
    rcases (mem_insertTable ts a ha x).mp hx with rfl | hx'
    · exact hab
    · exact hb x hx'
  have ha' : ∀ x ∈ insertTable ts b, x.name ≠ a.name := by
    intro x hx
    rcases (mem_insertTable ts b hb x).mp hx with rfl | hx'
    · exact fun e => hab e.symm
    · exact ha x hx'
  obtain ⟨sab, pab⟩ := insertTable_sorted _ b sa hb'
  obtain ⟨sba, pba⟩ := insertTable_sorted _ a sb ha'
  apply nameSorted_unique _ _ sab sba
  exact (pab.trans (pa.cons b)).trans ((List.Perm.swap a b ts).trans (pb.cons a).symm |>.trans pba.symm)

theorem catalog_valid (long : Bool) : StreamName.isValid (Catalog.columnsTable long).name true = true ∧
    StreamName.isValid (Catalog.tablesTable long).name true = true := by
  constructor
  · show StreamName.isValid Gen.nameColumns.toList true = true; decide
  · show StreamName.isValid Gen.nameTables.toList true = true; decide

theorem Core.valid_all {slack : Nat → Nat} {s : Pkg} {tabs : List Table} (h : Core slack s tabs) :
    ∀ x ∈ s.tables, StreamName.isValid x.name true = true := by
  intro x hx
  rcases (h.mem x).mp hx with rfl | rfl | hx'
  · exact (catalog_valid _).1
  · exact (catalog_valid _).2
  · exact h.valid x hx'

theorem find_none_of_dataOf {c : List Entry} {n : List Char} (h : dataOf c n = none) : Cont.find c n = none := by
  unfold dataOf at h
  cases hf : Cont.find c n with
  | none => rfl
  | some e => rw [hf] at h; cases h

end MsiProofs.CreateTable
