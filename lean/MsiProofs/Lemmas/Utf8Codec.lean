import MsiModel.Codec
/-
UTF-8 round trip of the model's decoder: the WHATWG decoder with replacement
(`utf8DecodeLossy`, the model of `Encoding::decode_without_bom_handling` for UTF-8) reads the
UTF-8 encoding of any text back as that text.  Hence every string is expressible under the UTF-8
code page — the default code page of a package.
-/
namespace MsiProofs.Utf8Codec
open MsiModel MsiModel.Codec

theorem toNat_ofNat_lt (n : Nat) (h : n < 256) : (UInt8.ofNat n).toNat = n := by
  simp only [UInt8.toNat_ofNat']
  omega

theorem char_valid (c : Char) : c.val.toNat < 0xD800 ∨ (0xDFFF < c.val.toNat ∧ c.val.toNat < 0x110000) := by
  have := c.valid
  unfold UInt32.isValidChar Nat.isValidChar at this
  exact this

theorem ofNat_val (c : Char) : Char.ofNat c.val.toNat = c := Char.ofNat_toNat c

/-- one character: the decoder consumes exactly its encoding and yields it -/
theorem lossy_char (c : Char) (rest : List UInt8) (acc : List Char) (fuel : Nat) :
    utf8DecodeLossy (fuel + 1) (String.utf8EncodeChar c ++ rest) acc = utf8DecodeLossy fuel rest (c :: acc) := by
  have hv := char_valid c
  unfold String.utf8EncodeChar
  simp only
  generalize hvv : c.val.toNat = v at hv
  have hc : Char.ofNat v = c := by rw [← hvv]; exact ofNat_val c
  by_cases h1 : v ≤ 0x7f
  · simp only [h1, if_true, List.cons_append, List.nil_append, utf8DecodeLossy]
    have e0 : (UInt8.ofNat v).toNat = v := toNat_ofNat_lt v (by omega)
    simp only [e0]
    have : v < 0x80 := by omega
    simp only [this, if_true, hc]
  · simp only [h1, if_false]
    by_cases h2 : v ≤ 0x7ff
    · simp only [h2, if_true, List.cons_append, List.nil_append, utf8DecodeLossy]
      have e0 : (UInt8.ofNat (v / 64 % 0x20 + 0xc0)).toNat = v / 64 % 0x20 + 0xc0 := toNat_ofNat_lt _ (by omega)
      have e1 : (UInt8.ofNat (v % 0x40 + 0x80)).toNat = v % 0x40 + 0x80 := toNat_ofNat_lt _ (by omega)
      simp only [e0, e1]
      have c1 : ¬ (v / 64 % 0x20 + 0xc0 < 0x80) := by omega
      have c2 : ¬ (v / 64 % 0x20 + 0xc0 < 0xC2) := by omega
      have c3 : v / 64 % 0x20 + 0xc0 < 0xE0 := by omega
      have c4 : 0x80 ≤ v % 0x40 + 0x80 ∧ v % 0x40 + 0x80 < 0xC0 := by omega
      simp only [c1, c2, c3, c4, if_true, if_false, and_self]
      have : (v / 64 % 0x20 + 0xc0 - 0xC0) * 64 + (v % 0x40 + 0x80 - 0x80) = v := by omega
      rw [this, hc]
    · simp only [h2, if_false]
      by_cases h3 : v ≤ 0xffff
      · simp only [h3, if_true, List.cons_append, List.nil_append, utf8DecodeLossy]
        have e0 : (UInt8.ofNat (v / 4096 % 0x10 + 0xe0)).toNat = v / 4096 % 0x10 + 0xe0 := toNat_ofNat_lt _ (by omega)
        have e1 : (UInt8.ofNat (v / 64 % 0x40 + 0x80)).toNat = v / 64 % 0x40 + 0x80 := toNat_ofNat_lt _ (by omega)
        have e2 : (UInt8.ofNat (v % 0x40 + 0x80)).toNat = v % 0x40 + 0x80 := toNat_ofNat_lt _ (by omega)
        simp only [e0, e1, e2]
        have c1 : ¬ (v / 4096 % 0x10 + 0xe0 < 0x80) := by omega
        have c2 : ¬ (v / 4096 % 0x10 + 0xe0 < 0xC2) := by omega
        have c3 : ¬ (v / 4096 % 0x10 + 0xe0 < 0xE0) := by omega
        have c4 : v / 4096 % 0x10 + 0xe0 < 0xF0 := by omega
        have c5 : (if v / 4096 % 0x10 + 0xe0 = 0xE0 then 0xA0 else 0x80) ≤ v / 64 % 0x40 + 0x80 ∧
            v / 64 % 0x40 + 0x80 < (if v / 4096 % 0x10 + 0xe0 = 0xED then 0xA0 else 0xC0) := by
          constructor
          · split <;> omega
          · split <;> omega
        have c6 : 0x80 ≤ v % 0x40 + 0x80 ∧ v % 0x40 + 0x80 < 0xC0 := by omega
        simp only [c1, c2, c3, c4, c5, c6, if_true, if_false, and_self]
        have : (v / 4096 % 0x10 + 0xe0 - 0xE0) * 4096 + (v / 64 % 0x40 + 0x80 - 0x80) * 64 + (v % 0x40 + 0x80 - 0x80) = v := by
          omega
        rw [this, hc]
      · simp only [h3, if_false, List.cons_append, List.nil_append, utf8DecodeLossy]
        have e0 : (UInt8.ofNat (v / 262144 % 0x08 + 0xf0)).toNat = v / 262144 % 0x08 + 0xf0 := toNat_ofNat_lt _ (by omega)
        have e1 : (UInt8.ofNat (v / 4096 % 0x40 + 0x80)).toNat = v / 4096 % 0x40 + 0x80 := toNat_ofNat_lt _ (by omega)
        have e2 : (UInt8.ofNat (v / 64 % 0x40 + 0x80)).toNat = v / 64 % 0x40 + 0x80 := toNat_ofNat_lt _ (by omega)
        have e3 : (UInt8.ofNat (v % 0x40 + 0x80)).toNat = v % 0x40 + 0x80 := toNat_ofNat_lt _ (by omega)
        simp only [e0, e1, e2, e3]
        have c1 : ¬ (v / 262144 % 0x08 + 0xf0 < 0x80) := by omega
        have c2 : ¬ (v / 262144 % 0x08 + 0xf0 < 0xC2) := by omega
        have c3 : ¬ (v / 262144 % 0x08 + 0xf0 < 0xE0) := by omega
        have c4 : ¬ (v / 262144 % 0x08 + 0xf0 < 0xF0) := by omega
        have c4' : v / 262144 % 0x08 + 0xf0 < 0xF5 := by omega
        have c5 : (if v / 262144 % 0x08 + 0xf0 = 0xF0 then 0x90 else 0x80) ≤ v / 4096 % 0x40 + 0x80 ∧
            v / 4096 % 0x40 + 0x80 < (if v / 262144 % 0x08 + 0xf0 = 0xF4 then 0x90 else 0xC0) := by
          constructor
          · split <;> omega
          · split <;> omega
        have c6 : 0x80 ≤ v / 64 % 0x40 + 0x80 ∧ v / 64 % 0x40 + 0x80 < 0xC0 := by omega
        have c7 : 0x80 ≤ v % 0x40 + 0x80 ∧ v % 0x40 + 0x80 < 0xC0 := by omega
        simp only [c1, c2, c3, c4, c4', c5, c6, c7, if_true, if_false, and_self]
        have : (v / 262144 % 0x08 + 0xf0 - 0xF0) * 262144 + (v / 4096 % 0x40 + 0x80 - 0x80) * 4096 +
            (v / 64 % 0x40 + 0x80 - 0x80) * 64 + (v % 0x40 + 0x80 - 0x80) = v := by omega
        rw [this, hc]

/-- **the model's UTF-8 decoder reads any encoded text back** -/
theorem lossy_roundtrip (s : List Char) : ∀ (fuel : Nat) (acc : List Char), s.length < fuel →
    utf8DecodeLossy fuel (s.flatMap String.utf8EncodeChar) acc = acc.reverse ++ s := by
  induction s with
  | nil => intro fuel acc _; cases fuel <;> simp [utf8DecodeLossy]
  | cons c cs ih =>
    intro fuel acc hf
    cases fuel with
    | zero => simp at hf
    | succ f =>
      simp only [List.flatMap_cons]
      rw [lossy_char, ih f (c :: acc) (by simpa using hf)]
      simp

end MsiProofs.Utf8Codec
