import MsiProofs.Lemmas.Relational
/-
The gate of `Insert::exec` (properties C07, C03, C20): in every state with the package invariant,
what an insert replies is decided by the relational view alone — the rows the table shows — and
by nothing else: it is refused exactly when a row has the wrong number of values, a value is not
valid for its column, a key is already present (`AlreadyExists`) or repeated in the batch, or the
table would exceed the row bound; otherwise it is accepted (or hits the string pool's capacity
panic, the recorded finding D16b).  No other failure exists.
-/
namespace MsiProofs.Gate
open MsiModel MsiModel.Bytes MsiModel.Pkg MsiProofs.GlobalInv MsiProofs.SortedInv MsiProofs.Frame
open MsiProofs.Refine MsiProofs.Relational MsiProofs.SaveOpen MsiProofs.Order MsiProofs.RowsOk

/-- the key checks of an insert, on values: against the rows the table shows and within the batch -/
def checkNewV (t : Table) (shown : List (List Value)) : List (List Value) → List (List Value) → Option ErrKind
  | [], _ => none
  | r :: rs, seen =>
    let k := keyV t r
    if shown.any (fun row => keyV t row == k) then some .alreadyExists
    else if seen.contains k then some .invalidInput
    else checkNewV t shown rs (k :: seen)

/-- **what an insert replies, read off the relational view** (`none` = accepted) -/
def gate (t : Table) (shown : List (List Value)) (rows : List (List Value)) : Option ErrKind :=
  if rows.any (fun r => r.length ≠ t.columns.length) then some .invalidInput else
  if rows.any (fun r => (t.columns.zip r).any fun x => !x.1.isValidValue x.2) then some .invalidInput else
  match checkNewV t shown (rows.map fun r => r.map storable) [] with
  | some k => some k
  | none => if shown.length + rows.length > Gen.maxTableRows then some .invalidInput else none

theorem key_eq_iff (a b : List Value) : (!keyLt a b && !keyLt b a) = true ↔ b = a := by
  constructor
  · intro h
    simp only [Bool.and_eq_true, Bool.not_eq_true'] at h
    exact (keyLt_connected h.1 h.2).symm
  · intro h; subst h; simp [keyLt_irrefl]

theorem mapContains_iff (k : List Value) (m : RowMap) : mapContains k m = true ↔ ∃ e ∈ m, e.1 = k := by
  unfold mapContains
  simp only [List.any_eq_true]
  constructor
  · rintro ⟨e, he, h⟩; exact ⟨e, he, (key_eq_iff k e.1).mp h⟩
  · rintro ⟨e, he, h⟩; exact ⟨e, he, (key_eq_iff k e.1).mpr h⟩

/-- rows with pairwise different keys always load into the key-sorted map -/
theorem loadMap_some (p : Pool) (idx : List Nat) : ∀ (rows : List (List Cell)) (m : RowMap), Sorted m →
    (∀ r ∈ rows, ∀ e ∈ m, e.1 ≠ keyOf idx (rowValues p r)) →
    (rows.map fun r => keyOf idx (rowValues p r)).Pairwise (· ≠ ·) →
    ∃ m', loadMap p idx rows m = some m' := by
  intro rows
  induction rows with
  | nil => intro m _ _ _; exact ⟨m, rfl⟩
  | cons r rs ih =>
    intro m hs hne hpw
    simp only [loadMap]
    cases hm : mapInsert (keyOf idx (rowValues p r)) r m with
    | none =>
      have := (mapInsert_none_iff hs).mp hm
      obtain ⟨e, he, hk⟩ := (mapContains_iff _ m).mp this
      exact absurd hk (hne r (by simp) e he)
    | some m1 =>
      simp only
      obtain ⟨hs1, hmem⟩ := mapInsert_sorted hs hm
      simp only [List.map_cons, List.pairwise_cons] at hpw
      apply ih m1 hs1
      · intro r' hr' e he
        rcases (hmem e).mp he with rfl | he'
        · exact hpw.1 _ (List.mem_map.mpr ⟨r', hr', rfl⟩)
        · exact hne r' (by simp [hr']) e he'
      · exact hpw.2


theorem loadMap_length (p : Pool) (idx : List Nat) : ∀ (rows : List (List Cell)) (m m' : RowMap),
    loadMap p idx rows m = some m' → m'.length = m.length + rows.length := by
  intro rows
  induction rows with
  | nil => intro m m' h; simp only [loadMap, Option.some.injEq] at h; subst h; simp
  | cons r rs ih =>
    intro m m' h
    simp only [loadMap] at h
    cases hm : mapInsert (keyOf idx (rowValues p r)) r m with
    | none => simp [hm] at h
    | some m1 =>
      simp only [hm] at h
      rw [ih m1 m' h, MsiProofs.RefineLoad.mapInsert_length _ _ m m1 hm]
      simp only [List.length_cons]; omega

/-- interning never returns an error (it can only hit a capacity panic) -/
theorem incref_no_err (p : Pool) (st : List Char) (k : ErrKind) : p.incref st ≠ .err k := by
  unfold Pool.incref
  split
  · intro h; cases h
  · split
    · intro h; cases h
    · split <;> (intro h; cases h)

theorem create_no_err (p : Pool) (v : Value) (k : ErrKind) : Cell.create p v ≠ .err k := by
  cases v with
  | null => intro h; cases h
  | int n => intro h; cases h
  | str st =>
    simp only [Cell.create, bind, Res.bind]
    cases hi : p.incref st with
    | ok x => intro h; cases h
    | err e => exact absurd hi (incref_no_err p st e)
    | panic w => intro h; cases h

theorem createCells_no_err : ∀ (vs : List Value) (p : Pool) (acc : List Cell) (k : ErrKind),
    createCells p vs acc ≠ .err k := by
  intro vs
  induction vs with
  | nil => intro p acc k h; cases h
  | cons v rest ih =>
    intro p acc k
    simp only [createCells, bind, Res.bind]
    cases hc : Cell.create p v with
    | ok x => exact ih _ _ k
    | err e => exact absurd hc (create_no_err p v e)
    | panic w => intro h; cases h

theorem addRows_no_err (idx : List Nat) : ∀ (rows : List (List Value)) (p : Pool) (m : RowMap) (k : ErrKind),
    addRows idx p rows m ≠ .err k := by
  intro rows
  induction rows with
  | nil => intro p m k h; cases h
  | cons r rest ih =>
    intro p m k
    simp only [addRows, bind, Res.bind]
    cases hc : createCells p r [] with
    | ok x =>
      obtain ⟨p', cells⟩ := x
      simp only
      cases mapInsert (keyOf idx r) cells m with
      | some m' => exact ih _ _ k
      | none => intro h; cases h
    | err e => exact absurd hc (createCells_no_err r p [] e)
    | panic w => intro h; cases h

/-- the key checks on the map are the key checks on the view -/
theorem checkNew_eq (t : Table) (p : Pool) (existing : List (List Cell)) (m : RowMap)
    (hkey : ∀ e ∈ m, e.1 = keyOf t.keyIndices (rowValues p e.2))
    (hrows : ∀ cells, cells ∈ m.map (·.2) ↔ cells ∈ existing) :
    ∀ (news seen : List (List Value)),
    checkNew t.keyIndices m news seen = checkNewV t (existing.map (rowValues p)) news seen := by
  intro news
  induction news with
  | nil => intro seen; rfl
  | cons r rs ih =>
    intro seen
    simp only [checkNew, checkNewV]
    have hc : mapContains (keyOf t.keyIndices r) m =
        (existing.map (rowValues p)).any (fun row => keyV t row == keyV t r) := by
      rw [Bool.eq_iff_iff, mapContains_iff]
      simp only [List.any_eq_true, List.mem_map, beq_iff_eq]
      constructor
      · rintro ⟨e, he, hk⟩
        have h1 := (hrows e.2).mp (List.mem_map.mpr ⟨e, he, rfl⟩)
        exact ⟨rowValues p e.2, ⟨e.2, h1, rfl⟩, by unfold keyV; rw [← hkey e he, hk]⟩
      · rintro ⟨row, ⟨cells, hc, rfl⟩, hk⟩
        obtain ⟨e, he, he2⟩ := List.mem_map.mp ((hrows cells).mpr hc)
        refine ⟨e, he, ?_⟩
        rw [hkey e he, he2]; exact hk
    rw [hc]
    unfold keyV
    split
    · rfl
    · split
      · rfl
      · exact ih _

/-- **the reply of `Insert::exec` is the gate's verdict on the relational view**: an error exactly
when the gate says so, with the gate's error kind; otherwise `Ok` — or the pool-capacity panic -/
theorem insert_reply (slack : Nat → Nat) (s : Pkg) (hI : Inv slack s) (hS : SortedAll s) (tname : List Char)
    (rows : List (List Value)) (t : Table) (ht : s.findTable tname = some t) :
    match gate t (tableView s t) rows with
    | some k => (insertExec s tname rows).2 = .err k
    | none => (insertExec s tname rows).2 = .ok () ∨ ∃ w, (insertExec s tname rows).2 = .panic w := by
  have htm := findTable_spec s tname t ht
  obtain ⟨existing, hl⟩ := hI.loads t htm
  obtain ⟨hlr, hrs⟩ := hI.widths t htm
  have hasc := hS t htm existing hl
  have hdist := keys_distinct hasc
  obtain ⟨m, hm⟩ := loadMap_some s.pool t.keyIndices existing [] (by simp [Sorted]) (by simp) hdist
  have hsm : Sorted m := MsiProofs.C05.loadMap_sorted (by simp [Sorted]) hm
  have hrows0 := loadMap_rows s.pool t.keyIndices existing [] m (by simp [Sorted]) hm
  have hrows : ∀ cells, cells ∈ m.map (·.2) ↔ cells ∈ existing := by
    intro cells; rw [hrows0 cells]; simp
  have hkey : ∀ e ∈ m, e.1 = keyOf t.keyIndices (rowValues s.pool e.2) :=
    loadMap_keyOk s.pool t.keyIndices existing [] m (by simp [Sorted]) (by intro e he; simp at he) hm
  have hlenm : m.length = existing.length := by
    have := loadMap_length s.pool t.keyIndices existing [] m hm
    simpa using this
  rw [tableView_ok hl]
  unfold gate insertExec
  simp only [ht]
  by_cases h1 : (rows.any fun r => r.length ≠ t.columns.length) = true
  · simp only [h1, if_true]
  simp only [h1, Bool.false_eq_true, if_false]
  by_cases h2 : (rows.any fun r => (t.columns.zip r).any fun x => !x.1.isValidValue x.2) = true
  · simp only [h2, if_true]
  simp only [h2, Bool.false_eq_true, if_false, hl, hm]
  rw [checkNew_eq t s.pool existing m hkey hrows]
  cases hc : checkNewV t (existing.map (rowValues s.pool)) (rows.map fun r => r.map storable) [] with
  | some k => simp only
  | none =>
    simp only [List.length_map, hlenm]
    by_cases h3 : existing.length + rows.length > Gen.maxTableRows
    · simp only [h3, if_true]
    simp only [h3, Bool.false_eq_true, if_false]
    -- from here on the only failure is the capacity panic
    by_cases hr : (insertExec s tname rows).2 = .ok ()
    · left
      have := hr
      unfold insertExec at this
      simp only [ht, h1, h2, Bool.false_eq_true, if_false, hl, hm, checkNew_eq t s.pool existing m hkey hrows, hc,
        List.length_map, hlenm, h3] at this
      exact this
    · right
      have hnoop := insert_refused_noop slack s tname rows hI hr
      have := hr
      unfold insertExec at this
      simp only [ht, h1, h2, Bool.false_eq_true, if_false, hl, hm, checkNew_eq t s.pool existing m hkey hrows, hc,
        List.length_map, hlenm, h3] at this
      cases ha : addRows t.keyIndices s.pool (rows.map fun r => r.map storable) m with
      | panic w => exact ⟨w, rfl⟩
      | err k =>
        exfalso
        exact addRows_no_err t.keyIndices _ s.pool m k ha
      | ok x =>
        obtain ⟨pool', m'⟩ := x
        simp only [ha] at this
        exfalso
        apply this
        have hexok := MsiProofs.RefineLoad.loadRows_rowOk s t existing hl
        have hmok : ∀ e ∈ m, RowOk t.longRefs t.columns e.2 := by
          intro e he
          exact hexok e.2 ((hrows e.2).mp (List.mem_map.mpr ⟨e, he, rfl⟩))
        have hlen : ∀ r ∈ rows, r.length = t.columns.length := by
          intro r hr'
          have h1' : (rows.any fun r => r.length ≠ t.columns.length) = false := by simpa using h1
          simpa using List.any_eq_false.mp h1' r hr'
        have hval : ∀ r ∈ rows, ∀ x ∈ t.columns.zip r, x.1.isValidValue x.2 = true := by
          intro r hr' x hx
          have h2' : (rows.any fun r => (t.columns.zip r).any fun x => !x.1.isValidValue x.2) = false := by
            simpa using h2
          have h4 := List.any_eq_false.mp h2' r hr'
          have h5 : ((t.columns.zip r).any fun x => !x.1.isValidValue x.2) = false := by simpa using h4
          simpa using List.any_eq_false.mp h5 x hx
        obtain ⟨hok', -, -, hlen'⟩ := MsiProofs.RefineLoad.addRows_rowOk t rows s.pool m pool' m' hsm hlen hval
          hI.sized hlr hmok ha
        apply storeRows_ok_of_rowOk
        · intro r hr'
          obtain ⟨e, he, rfl⟩ := List.mem_map.mp hr'
          exact hok' e he
        · exact hrs
        · simp only [List.length_map]
          rw [hlen', hlenm]; omega

end MsiProofs.Gate
