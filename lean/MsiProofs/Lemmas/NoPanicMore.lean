import MsiProofs.Props.C09b
import MsiProofs.Lemmas.DeleteValidation
/-
More of "no panic outcome" (property C09), on ANY package state (no invariant assumed — the state
may come from a foreign or damaged file): `drop_table` never panics; `create_table` never panics
while the string pool has room for the catalog strings of the new table; the finisher / `flush`
never panics when the database code page is one of the supported ones.
-/
namespace MsiProofs.C09
open MsiModel MsiModel.Bytes MsiModel.Pkg MsiProofs.Order

/-! ### how much an insert can grow the pool -/

theorem incref_grow (p : Pool) (s : List Char) (p' : Pool) (r : Nat) (h : p.incref s = .ok (p', r)) :
    p'.strings.length ≤ p.strings.length + 1 := by
  unfold Pool.incref at h
  cases hs : Pool.increfScan s p.strings 0 with
  | some x =>
    obtain ⟨l', r'⟩ := x
    simp only [hs, Res.ok.injEq, Prod.mk.injEq] at h
    rw [← h.1]
    simp only [increfScan_length s p.strings 0 l' r' hs]
    omega
  | none =>
    simp only [hs] at h
    split at h
    · cases h
    · split at h
      · cases h
      · simp only [Res.ok.injEq, Prod.mk.injEq] at h
        rw [← h.1]; simp

theorem create_grow (p : Pool) (v : Value) (p' : Pool) (c : Cell) (h : Cell.create p v = .ok (p', c)) :
    p'.strings.length ≤ p.strings.length + 1 := by
  cases v with
  | null => simp only [Cell.create, Res.ok.injEq, Prod.mk.injEq] at h; rw [← h.1]; omega
  | int n => simp only [Cell.create, Res.ok.injEq, Prod.mk.injEq] at h; rw [← h.1]; omega
  | str s =>
    simp only [Cell.create, bind, Res.bind] at h
    cases hi : p.incref s with
    | ok x =>
      obtain ⟨p1, r⟩ := x
      simp only [hi, pure, Res.ok.injEq, Prod.mk.injEq] at h
      rw [← h.1]; exact incref_grow p s p1 r hi
    | err e => simp [hi] at h
    | panic w => simp [hi] at h

theorem createCells_grow : ∀ (vs : List Value) (p : Pool) (acc : List Cell) (p' : Pool) (cs : List Cell),
    createCells p vs acc = .ok (p', cs) → p'.strings.length ≤ p.strings.length + vs.length := by
  intro vs
  induction vs with
  | nil => intro p acc p' cs h; simp only [createCells, pure, Res.ok.injEq, Prod.mk.injEq] at h; rw [← h.1]; simp
  | cons v rest ih =>
    intro p acc p' cs h
    simp only [createCells, bind, Res.bind] at h
    cases hc : Cell.create p v with
    | ok x =>
      obtain ⟨p1, c⟩ := x
      simp only [hc] at h
      have h1 := create_grow p v p1 c hc
      have h2 := ih p1 (c :: acc) p' cs h
      simp only [List.length_cons]; omega
    | err e => simp [hc] at h
    | panic w => simp [hc] at h

theorem addRows_grow (idx : List Nat) (n : Nat) : ∀ (rows : List (List Value)) (p : Pool) (m : RowMap) (p' : Pool) (m' : RowMap),
    (∀ r ∈ rows, r.length = n) → addRows idx p rows m = .ok (p', m') →
    p'.strings.length ≤ p.strings.length + rows.length * n := by
  intro rows
  induction rows with
  | nil => intro p m p' m' _ h; simp only [addRows, pure, Res.ok.injEq, Prod.mk.injEq] at h; rw [← h.1]; simp
  | cons r rest ih =>
    intro p m p' m' hlen h
    simp only [addRows, bind, Res.bind] at h
    cases hc : createCells p r [] with
    | ok x =>
      obtain ⟨p1, cells⟩ := x
      simp only [hc] at h
      cases hm : mapInsert (keyOf idx r) cells m with
      | some m1 =>
        simp only [hm] at h
        have h1 := createCells_grow r p [] p1 cells hc
        have h2 := ih p1 m1 p' m' (fun x hx => hlen x (by simp [hx])) h
        have hr := hlen r (by simp)
        simp only [List.length_cons]
        rw [Nat.add_mul]; omega
      | none => simp [hm] at h
    | err e => simp [hc] at h
    | panic w => simp [hc] at h

theorem storeRows_pool (s : Pkg) (t : Table) (rows : List (List Cell)) : (storeRows s t rows).1.pool = s.pool := by
  unfold storeRows; cases t.writeRows rows <;> rfl

/-- an insert grows the pool by at most one entry per new cell -/
theorem insertExec_grow (s : Pkg) (tname : List Char) (rows : List (List Value)) (n : Nat)
    (hn : ∀ t, s.findTable tname = some t → (∀ r ∈ rows, r.length = t.columns.length) → t.columns.length = n) :
    (insertExec s tname rows).1.pool.strings.length ≤ s.pool.strings.length + rows.length * n := by
  unfold insertExec
  cases hf : s.findTable tname with
  | none => simp
  | some t =>
    simp only
    by_cases h1 : (rows.any fun r => r.length ≠ t.columns.length) = true
    · rw [if_pos h1]; simp
    rw [if_neg h1]
    have hlen : ∀ r ∈ rows, r.length = t.columns.length := by
      intro r hr
      have h1' : (rows.any fun r => r.length ≠ t.columns.length) = false := by simpa using h1
      simpa using List.any_eq_false.mp h1' r hr
    have htn := hn t hf hlen
    split; · simp
    cases s.loadRows t with
    | err k => simp
    | panic w => simp
    | ok existing =>
      simp only
      cases loadMap s.pool t.keyIndices existing [] with
      | none => simp
      | some m =>
        simp only
        cases checkNew t.keyIndices m (rows.map fun r => r.map storable) [] with
        | some k => simp
        | none =>
          simp only
          split; · simp
          cases ha : addRows t.keyIndices s.pool (rows.map fun r => r.map storable) m with
          | err k => simp
          | panic w => simp
          | ok x =>
            obtain ⟨p', m'⟩ := x
            simp only
            rw [storeRows_pool]
            have := addRows_grow t.keyIndices n (rows.map fun r => r.map storable) s.pool m p' m'
              (by intro r hr; obtain ⟨x, hx, rfl⟩ := List.mem_map.mp hr; simp [hlen x hx, htn]) ha
            simpa using this

/-- `Insert::exec` has no panic outcome while the pool has room for one string per new cell (room
is needed only when the rows have the table's arity) -/
theorem insert_never_panics' (s : Pkg) (tname : List Char) (rows : List (List Value))
    (hroom : ∀ t, s.findTable tname = some t → (∀ r ∈ rows, r.length = t.columns.length) →
      Room s.pool (rows.length * t.columns.length)) :
    NoPanic (insertExec s tname rows).2 := by
  cases hf : s.findTable tname with
  | none => unfold insertExec; rw [hf]; exact np_err _
  | some t =>
    by_cases h1 : (rows.any fun r => r.length ≠ t.columns.length) = true
    · unfold insertExec; simp only [hf]; rw [if_pos h1]; exact np_err _
    · have hlen : ∀ r ∈ rows, r.length = t.columns.length := by
        intro r hr
        have h1' : (rows.any fun r => r.length ≠ t.columns.length) = false := by simpa using h1
        simpa using List.any_eq_false.mp h1' r hr
      exact insert_never_panics s tname rows (fun t' ht' => by
        rw [hf] at ht'; cases ht'; exact hroom t hf hlen)

/-! ### create_table, drop_table, flush -/

theorem np_catalogRoomOne (s : Pkg) (catalog key name : List Char) (n : Nat) : NoPanic (catalogRoomOne s catalog key name n) := by
  unfold catalogRoomOne
  cases s.findTable catalog with
  | none => exact np_ok _
  | some t =>
    simp only
    cases hl : s.loadRows t with
    | err k => exact np_err _
    | panic w => exact absurd hl (np_loadRows s t w)
    | ok rows =>
      simp only
      split
      · exact np_err _
      · cases t.indexOfColumn key with
        | none => exact np_err _
        | some i =>
          simp only
          split
          · exact np_err _
          · exact np_ok _

theorem np_catalogRoom (s : Pkg) (name : List Char) (cols : List Column) : NoPanic (catalogRoom s name cols) := by
  unfold catalogRoom
  split
  · exact np_err _
  have h1 := np_catalogRoomOne s Gen.nameColumns.toList "Table".toList name cols.length
  cases hr1 : catalogRoomOne s Gen.nameColumns.toList "Table".toList name cols.length with
  | err k => exact np_err _
  | panic w => exact absurd hr1 (h1 w)
  | ok u =>
    cases u
    simp only
    have h2 := np_catalogRoomOne s Gen.nameTables.toList "Name".toList name 1
    cases hr2 : catalogRoomOne s Gen.nameTables.toList "Name".toList name 1 with
    | err k => exact np_err _
    | panic w => exact absurd hr2 (h2 w)
    | ok u =>
      cases u
      exact np_catalogRoomOne s Gen.nameValidation.toList "Table".toList name cols.length

/-- **`create_table` never panics** while the pool has room for the catalog strings of the new
table: four per column in `_Columns`, one in `_Tables`, ten per column in `_Validation` -/
theorem createTable_never_panics (s : Pkg) (name : List Char) (cols : List Column)
    (hroom : Room s.pool (14 * cols.length + 1)) : NoPanic (createTable s name cols).2 := by
  unfold createTable
  cases hce : createError s name cols with
  | some k => exact np_err _
  | none =>
    simp only
    cases hcr : catalogRoom s name cols with
    | err k => exact np_err _
    | panic w => exact absurd hcr (np_catalogRoom s name cols w)
    | ok u =>
    cases u
    simp only
    have hlenC : (catalogRowsColumns name cols).length = cols.length := by unfold catalogRowsColumns; simp
    have hlenV : (catalogRowsValidation name cols).length = cols.length := by unfold catalogRowsValidation; simp
    have harC : ∀ r ∈ catalogRowsColumns name cols, r.length = 4 := by
      intro r hr; unfold catalogRowsColumns at hr; obtain ⟨x, -, rfl⟩ := List.mem_map.mp hr; rfl
    have harV : ∀ r ∈ catalogRowsValidation name cols, r.length = 10 := by
      intro r hr; unfold catalogRowsValidation at hr; obtain ⟨c, -, rfl⟩ := List.mem_map.mp hr; rfl
    have hpos : cols ≠ [] := by
      intro e
      unfold createError at hce
      simp [e] at hce
    have hn : 0 < cols.length := List.length_pos_iff.mpr hpos
    -- stage 1
    have np1 : NoPanic (insertRows s Gen.nameColumns.toList (catalogRowsColumns name cols)).2 := by
      apply insert_never_panics'
      intro t _ hlen
      obtain ⟨c0, hc0⟩ := List.exists_mem_of_ne_nil _ hpos
      have hr0 : (catalogRowsColumns name cols) ≠ [] := by
        intro e; rw [e] at hlenC; simp at hlenC; omega
      obtain ⟨r0, hr0m⟩ := List.exists_mem_of_ne_nil _ hr0
      have : t.columns.length = 4 := by rw [← hlen r0 hr0m]; exact harC r0 hr0m
      rw [this, hlenC]
      exact hroom.mono (by omega)
    have g1 : (insertRows s Gen.nameColumns.toList (catalogRowsColumns name cols)).1.pool.strings.length ≤
        s.pool.strings.length + cols.length * 4 := by
      have := insertExec_grow { s with finisher := true } Gen.nameColumns.toList (catalogRowsColumns name cols) 4 (by
        intro t _ hlen
        have hr0 : (catalogRowsColumns name cols) ≠ [] := by
          intro e; rw [e] at hlenC; simp at hlenC; omega
        obtain ⟨r0, hr0m⟩ := List.exists_mem_of_ne_nil _ hr0
        rw [← hlen r0 hr0m]; exact harC r0 hr0m)
      rw [hlenC] at this
      exact this
    generalize hr1 : insertRows s Gen.nameColumns.toList (catalogRowsColumns name cols) = r1 at np1 g1
    obtain ⟨s1, res1⟩ := r1
    cases res1 with
    | err k => exact np_err _
    | panic w => exact absurd rfl (np1 w)
    | ok u =>
      cases u
      simp only at g1 ⊢
      have hroom1 : Room s1.pool (10 * cols.length + 1) := by unfold Room at *; omega
      -- stage 2
      have np2 : NoPanic (insertRows s1 Gen.nameTables.toList [[.str name]]).2 := by
        apply insert_never_panics'
        intro t _ hlen
        have : t.columns.length = 1 := by rw [← hlen [.str name] (by simp)]; rfl
        rw [this]
        exact hroom1.mono (by simp only [List.length_cons, List.length_nil]; omega)
      have g2 : (insertRows s1 Gen.nameTables.toList [[.str name]]).1.pool.strings.length ≤ s1.pool.strings.length + 1 := by
        have := insertExec_grow { s1 with finisher := true } Gen.nameTables.toList [[.str name]] 1 (by
          intro t _ hlen
          rw [← hlen [.str name] (by simp)]; rfl)
        exact Nat.le_trans this (by simp)
      generalize hr2 : insertRows s1 Gen.nameTables.toList [[.str name]] = r2 at np2 g2
      obtain ⟨s2, res2⟩ := r2
      cases res2 with
      | err k => exact np_err _
      | panic w => exact absurd rfl (np2 w)
      | ok u =>
        cases u
        simp only at g2 ⊢
        have hroom2 : Room s2.pool (10 * cols.length) := by unfold Room at *; omega
        -- stage 4 (stage 3 only extends the table list)
        apply insert_never_panics'
        intro t _ hlen
        have hr0 : (catalogRowsValidation name cols) ≠ [] := by
          intro e; rw [e] at hlenV; simp at hlenV; omega
        obtain ⟨r0, hr0m⟩ := List.exists_mem_of_ne_nil _ hr0
        have : t.columns.length = 10 := by rw [← hlen r0 hr0m]; exact harV r0 hr0m
        rw [this, hlenV]
        exact hroom2.mono (by omega)

/-- **`drop_table` never panics**, on any package state -/
theorem dropTable_never_panics (s : Pkg) (name : List Char) : NoPanic (dropTable s name).2 := by
  unfold dropTable
  split; · exact np_err _
  split; · exact np_err _
  cases hf : s.findTable name with
  | none => exact np_err _
  | some t =>
    simp only
    have tail : ∀ s1 : Pkg, NoPanic (match deleteValidation s1 name with
        | (s2, .ok ()) =>
          match deleteRows s2 Gen.nameColumns.toList (eqStr "Table" name) with
          | (s3, .ok ()) =>
            match deleteRows s3 Gen.nameTables.toList (eqStr "Name" name) with
            | (s4, .ok ()) => ({ s4 with tables := s4.tables.filter (·.name != name) }, Res.ok ())
            | r => r
          | r => r
        | r => r).2 := by
      intro s1
      have n2 : NoPanic (deleteValidation s1 name).2 := by
        rcases MsiProofs.DeleteValidation.deleteValidation_cases s1 name with e | e <;> rw [e]
        · exact delete_never_panics { s1 with finisher := true } Gen.nameValidation.toList (eqStr "Table" name)
        · exact np_ok _
      generalize hr2 : deleteValidation s1 name = r2
      have n2' : NoPanic r2.2 := by rw [← hr2]; exact n2
      obtain ⟨s2, res2⟩ := r2
      cases res2 with
      | err k => exact np_err _
      | panic w => exact absurd rfl (n2' w)
      | ok u =>
        cases u
        simp only
        have n3 := delete_never_panics { s2 with finisher := true } Gen.nameColumns.toList (eqStr "Table" name)
        generalize hr3 : deleteRows s2 Gen.nameColumns.toList (eqStr "Table" name) = r3
        have n3' : NoPanic r3.2 := by rw [← hr3]; exact n3
        obtain ⟨s3, res3⟩ := r3
        cases res3 with
        | err k => exact np_err _
        | panic w => exact absurd rfl (n3' w)
        | ok u =>
          cases u
          simp only
          have n4 := delete_never_panics { s3 with finisher := true } Gen.nameTables.toList (eqStr "Name" name)
          generalize hr4 : deleteRows s3 Gen.nameTables.toList (eqStr "Name" name) = r4
          have n4' : NoPanic r4.2 := by rw [← hr4]; exact n4
          obtain ⟨s4, res4⟩ := r4
          cases res4 with
          | err k => exact np_err _
          | panic w => exact absurd rfl (n4' w)
          | ok u => cases u; exact np_ok _
    by_cases hex : Cont.exists_ s.cont t.streamName = true
    · rw [if_pos hex]
      cases hl : s.loadRows t with
      | err k => exact np_err _
      | panic w => exact absurd hl (np_loadRows s t w)
      | ok rows => exact tail _
    · rw [if_neg hex]
      exact tail s


/-! ### the finisher -/

theorem np_propVal_size (cp : Nat) (v : PropVal) : NoPanic (v.size cp) := by
  cases v <;> try exact np_ok _
  simp only [PropVal.size]
  split
  · exact np_err _
  · exact np_ok _

theorem np_propVal_write (cp : Nat) (v : PropVal) : NoPanic (v.write cp) := by
  cases v <;> try exact np_ok _
  simp only [PropVal.write]
  split
  · exact np_err _
  · exact np_ok _

theorem np_offsets (p : PropSet) : ∀ (l : List (Nat × PropVal)) (size : Nat) (acc : List Nat),
    NoPanic (PropSet.write.offsets p l size acc) := by
  intro l
  induction l with
  | nil => intro size acc; exact np_pure _
  | cons kv rest ih =>
    intro size acc
    obtain ⟨k, v⟩ := kv
    simp only [PropSet.write.offsets]
    exact np_bind (np_propVal_size _ _) fun _ => ih _ _

theorem np_values (p : PropSet) : ∀ (l : List (Nat × PropVal)) (acc : Bytes),
    NoPanic (PropSet.write.values p l acc) := by
  intro l
  induction l with
  | nil => intro acc; exact np_pure _
  | cons kv rest ih =>
    intro acc
    obtain ⟨k, v⟩ := kv
    simp only [PropSet.write.values]
    exact np_bind (np_propVal_write _ _) fun _ => ih _

theorem np_propset_write (p : PropSet) : NoPanic p.write := by
  unfold PropSet.write
  exact np_bind (np_offsets p _ _ _) fun _ => np_bind (np_values p _ _) fun _ => np_pure _

theorem np_writeData (p : Pool) : NoPanic p.writeData := by
  unfold Pool.writeData
  split
  · exact np_err _
  · exact np_pure _

theorem np_writePool (p : Pool) (h : CodePage.id p.codepage ≠ none) : NoPanic p.writePool := by
  unfold Pool.writePool
  apply np_bind
  · unfold Pool.poolHeader
    cases hc : CodePage.id p.codepage with
    | none => exact absurd hc h
    | some n => exact np_ok _
  · intro _
    split
    · exact np_err _
    · exact np_pure _

/-- **the finisher never panics** when the database code page is a supported one — on any state,
whatever the summary and the pool hold -/
theorem finish_never_panics (s : Pkg) (h : CodePage.id s.pool.codepage ≠ none) : NoPanic (finish s).2 := by
  unfold finish
  have hs := np_propset_write s.summary
  have hp := np_writePool s.pool h
  have hd := np_writeData s.pool
  cases hsm : s.summaryModified
  · simp only [Bool.false_eq_true, if_false]
    cases hpm : s.pool.modified
    · simp only [Bool.false_eq_true, if_false]; exact np_ok _
    · simp only [if_true]
      cases hw : s.pool.writePool with
      | err k => exact np_err _
      | panic w => exact absurd hw (hp w)
      | ok pb =>
        cases hw2 : s.pool.writeData with
        | err k => exact np_err _
        | panic w => exact absurd hw2 (hd w)
        | ok db => exact np_ok _
  · simp only [if_true]
    cases hw0 : s.summary.write with
    | err k => exact np_err _
    | panic w => exact absurd hw0 (hs w)
    | ok sb =>
      simp only
      cases hpm : s.pool.modified
      · simp only [Bool.false_eq_true, if_false]; exact np_ok _
      · simp only [if_true]
        cases hw : s.pool.writePool with
        | err k => exact np_err _
        | panic w => exact absurd hw (hp w)
        | ok pb =>
          cases hw2 : s.pool.writeData with
          | err k => exact np_err _
          | panic w => exact absurd hw2 (hd w)
          | ok db => exact np_ok _

/-- **`flush` never panics** when the database code page is a supported one -/
theorem flush_never_panics (s : Pkg) (h : CodePage.id s.pool.codepage ≠ none) : NoPanic (flush s).2 := by
  unfold flush
  split
  · exact finish_never_panics _ h
  · exact np_ok _

end MsiProofs.C09
