import MsiProofs.Lemmas.RelationalApi
/-
The relational view over the whole life of a package (properties C03, C05): from the state
`Package::create` builds, through any sequence of calls of the whole mutating API,

* every statement changes the view exactly as the relational model says (`created_dml_refines`);
* every call that is not a statement, `create_table` or `drop_table` leaves the whole view
  untouched (`step_view_same`);
* every stored cell of every table stays valid for its column (`created_history_valid`).
-/
namespace MsiProofs.RelationalLife
open MsiModel MsiModel.Bytes MsiModel.Pkg MsiProofs.GlobalInv MsiProofs.SortedInv MsiProofs.Frame
open MsiProofs.Refine MsiProofs.Relational MsiProofs.SaveOpen MsiProofs.StreamsMap MsiProofs.CreateTable
open MsiProofs.FullHistory MsiProofs.ValidCells MsiProofs.RelationalApi MsiProofs.Lifecycle MsiProofs.Created

/-- a state that differs only in streams that are not table streams of its tables, in flags, in
the summary and in the pool's code page shows the same view -/
theorem view_transfer (s s' : Pkg) (htabs : s'.tables = s.tables) (hstr : s'.pool.strings = s.pool.strings)
    (hrows : ∀ t ∈ s.tables, s'.loadRows t = s.loadRows t) : view s' = view s := by
  unfold view
  rw [htabs]
  apply List.map_congr_left
  intro t ht
  rw [tableView_congr s s' t (hrows t ht) hstr]

theorem valid_of_view {s s' : Pkg} (h : view s' = view s) (hV : ValidAll s) : ValidAll s' := by
  intro t ht row hrow
  have hm : (t, tableView s' t) ∈ view s' := List.mem_map.mpr ⟨t, ht, rfl⟩
  rw [h] at hm
  obtain ⟨t0, ht0, he⟩ := List.mem_map.mp hm
  have h1 : t0 = t := (Prod.mk.inj he).1
  have h2 : tableView s t0 = tableView s' t := (Prod.mk.inj he).2
  subst h1
  rw [← h2] at hrow
  exact hV t0 ht0 row hrow

/-- the calls that are neither statements nor `create_table` / `drop_table` -/
def Step.isOther : Step → Bool
  | .dml _ => false
  | .create _ _ => false
  | .drop _ => false
  | _ => true

/-- **every other call leaves the whole relational view untouched**: stream writes and removals,
signature removal, summary setters, the database code page, saves, closing and reopening -/
theorem step_view_same (slack : Nat → Nat) (s : Pkg) (tabs : List Table) (hF : Full slack s tabs)
    (st : Step) (ho : Step.isOther st = true) (ha : st.Admissible s) : view (st.run s) = view s := by
  have hsep := hF.core.sep
  cases st with
  | dml op => cases ho
  | create n c => cases ho
  | drop n => cases ho
  | writeStream n d =>
    exact view_transfer s _ (by show (Pkg.writeStream s n d).1.tables = _; unfold Pkg.writeStream; split <;> rfl)
      (by show (Pkg.writeStream s n d).1.pool.strings = _; unfold Pkg.writeStream; split <;> rfl)
      (fun t _ => write_keeps_rows s n d t)
  | removeStream n =>
    show view (Pkg.removeStream s n).1 = view s
    unfold Pkg.removeStream
    by_cases hv : (!StreamName.isValid n false) = true
    · rw [if_pos hv]
    · rw [if_neg hv]
      have hv' : StreamName.isValid n false = true := by simpa using hv
      simp only
      by_cases hex : (!Cont.exists_ s.cont (StreamName.encode n false)) = true
      · rw [if_pos hex]
      · rw [if_neg hex]
        exact view_transfer s _ rfl rfl (fun t _ => loadRows_congr s _ t
          (MsiProofs.Synced.dataOf_remove_other s.cont _ _ (fun e => user_ne_table n t.name hv' e.symm)))
  | removeSignature =>
    refine view_transfer s _ rfl rfl (fun t _ => loadRows_congr s _ t ?_)
    show dataOf (if Cont.exists_ _ Gen.snMsiDigitalSignatureEx.toList = true then _ else _) _ = _
    unfold Table.streamName
    rw [MsiProofs.OtherCalls.dataOf_cond_remove _ _ _ (MsiProofs.OtherCalls.sig_ne_table t.name).2,
      MsiProofs.OtherCalls.dataOf_cond_remove _ _ _ (MsiProofs.OtherCalls.sig_ne_table t.name).1]
  | setSummary f => exact view_transfer s _ rfl rfl (fun _ _ => rfl)
  | setCodepage cp => exact view_transfer s _ rfl rfl (fun _ _ => rfl)
  | save =>
    show view (flush s).1 = view s
    unfold flush
    cases hfin : s.finisher with
    | false => simp
    | true =>
      simp only [if_true]
      obtain ⟨⟨hstr, -⟩, hcont⟩ := MsiProofs.CatalogSync.finish_frame { s with finisher := false }
      exact view_transfer s _ (MsiProofs.Synced.finish_tables _) hstr
        (fun t ht => loadRows_congr s _ t (hcont _ (hsep t ht)))
  | reopen =>
    have hA := full_allInv slack s tabs hF
    obtain ⟨s2, hop, hc, -, hp, ht⟩ := MsiProofs.CatalogSync.reopen_same_tables s tabs ha hA.cat
    show view (match open_ (some s.ptype) s.cont with | .ok s2 => s2 | _ => s) = view s
    rw [hop]
    exact view_transfer s s2 ht (by rw [hp]) (fun t _ => rows_same_after_reopen s s2 hc t)

/-- **one call keeps every stored cell valid** -/
theorem step_valid (slack : Nat → Nat) (s : Pkg) (tabs : List Table) (hF : Full slack s tabs) (hN : NoOrphans s)
    (hV : ValidAll s) (st : Step) (ha : st.Admissible s) : ValidAll (st.run s) := by
  have hI := hF.core.inv
  have hS := hF.core.sorted
  by_cases ho : Step.isOther st = true
  · exact valid_of_view (step_view_same slack s tabs hF st ho ha) hV
  · cases st with
    | dml op =>
      exact op_valid slack _ (inv_finisher slack s hI) (sorted_finisher s hS) hV op
    | create n c =>
      show ValidAll (createTable s n c).1
      cases hce : createError s n c with
      | some k =>
        have : createTable s n c = (s, .err k) := by unfold createTable; rw [hce]
        rw [this]; exact hV
      | none =>
        rcases ha with ha | ha
        · exact absurd hce ha
        · have hf := createError_facts s n c hce
          have hvn := hf.validName
          simp only [Table.isValidName, Bool.and_eq_true] at hvn
          have hrun : createTable s n c = ((createTable s n c).1, .ok ()) := by rw [← ha]
          have hkey : ∀ x ∈ s.tables, key (StreamName.encode n true) ≠ key x.streamName := by
            intro x hx e
            have := MsiProofs.Synced.table_stream_injective n x.name hvn.2 (hN.valid x hx) e
            exact findTable_none_ne s n hf.fresh x hx this.symm
          exact (createTable_view slack s hI hS hV n c _ hrun (fresh_of_noOrphans s hN n c hce) hkey).2.2.2.1
    | drop n =>
      show ValidAll (dropTable s n).1
      rcases ha with ha | ha
      · rw [dropRefused_noop s n ha]; exact hV
      · have hrun : dropTable s n = ((dropTable s n).1, .ok ()) := by rw [← ha]
        exact (dropTable_view slack s hI hS hV n _ hrun).2.1
    | writeStream n d => cases ho rfl
    | removeStream n => cases ho rfl
    | removeSignature => cases ho rfl
    | setSummary f => cases ho rfl
    | setCodepage cp => cases ho rfl
    | save => cases ho rfl
    | reopen => cases ho rfl

/-- every reachable state keeps every invariant and every stored cell valid -/
theorem history_valid (slack : Nat → Nat) (steps : List Step) : ∀ (s : Pkg) (tabs : List Table),
    Full slack s tabs → NoOrphans s → ValidAll s → Admissible s steps → ValidAll (runAll s steps) := by
  induction steps with
  | nil => intro s tabs _ _ hV _; exact hV
  | cons st rest ih =>
    intro s tabs hF hN hV ha
    obtain ⟨tabs', hF', hN'⟩ := step_full slack s tabs hF hN st ha.1
    exact ih _ tabs' hF' hN' (step_valid slack s tabs hF hN hV st ha.1) ha.2

/-- the state `create` starts from holds no rows -/
theorem base_valid (ptype : Nat) (summary : PropSet) : ValidAll (base ptype summary) := by
  intro t _ row hrow
  have : tableView (base ptype summary) t = [] := by
    unfold tableView rowsOf; rw [base_loads]; rfl
  rw [this] at hrow; cases hrow

/-- the package `create` builds holds only valid cells -/
theorem created_valid (ptype : Nat) (summary : PropSet) (s0 : Pkg)
    (hc : createTable (base ptype summary) Gen.nameValidation.toList Catalog.validationColumns = (s0, .ok ())) :
    ValidAll s0 := by
  have hC := base_core ptype summary
  have hNo := base_noOrphans ptype summary
  have hce : createError (base ptype summary) Gen.nameValidation.toList Catalog.validationColumns = none := by
    cases hce : createError (base ptype summary) Gen.nameValidation.toList Catalog.validationColumns with
    | none => rfl
    | some k =>
      have : createTable (base ptype summary) Gen.nameValidation.toList Catalog.validationColumns =
          (base ptype summary, .err k) := by unfold createTable; rw [hce]
      rw [this] at hc
      cases (Prod.mk.inj hc).2
  have hf := createError_facts _ _ _ hce
  have hvn := hf.validName
  simp only [Table.isValidName, Bool.and_eq_true] at hvn
  have hkey : ∀ x ∈ (base ptype summary).tables,
      key (StreamName.encode Gen.nameValidation.toList true) ≠ key x.streamName := by
    intro x hx e
    have := MsiProofs.Synced.table_stream_injective _ x.name hvn.2 (hNo.valid x hx) e
    exact findTable_none_ne _ _ hf.fresh x hx this.symm
  exact (createTable_view _ _ hC.inv hC.sorted (base_valid ptype summary) _ _ s0 hc rfl hkey).2.2.2.1

/-- **in every state reachable from `Package::create`, every stored cell of every table — the
catalog tables included — is valid for its column**: one value per column, each the stored form of
a value the column declares valid (type, nullability, range, category, enumeration, length) -/
theorem created_history_valid (ptype : Nat) (summary : PropSet) (s0 : Pkg)
    (hc : createTable (base ptype summary) Gen.nameValidation.toList Catalog.validationColumns = (s0, .ok ()))
    (steps : List Step) (ha : Admissible s0 steps) : ValidAll (runAll s0 steps) := by
  obtain ⟨hF0, hN0⟩ := created_full ptype summary s0 hc
  exact history_valid _ steps s0 _ hF0 hN0 (created_valid ptype summary s0 hc) ha

/-- **in every state reachable from `Package::create`, every statement refines the relational
model**: accepted, it changes its table as the model says and no other; refused, it changes
nothing -/
theorem created_dml_refines (ptype : Nat) (summary : PropSet) (s0 : Pkg)
    (hc : createTable (base ptype summary) Gen.nameValidation.toList Catalog.validationColumns = (s0, .ok ()))
    (steps : List Step) (ha : Admissible s0 steps) (op : MsiProofs.GlobalInvUpd.Op) :
    Refines { runAll s0 steps with finisher := true } ((Step.dml op).run (runAll s0 steps)) op
      (reply { runAll s0 steps with finisher := true } op) := by
  obtain ⟨tabs, hF, -⟩ := created_history_full ptype summary s0 hc steps ha
  exact op_refines _ _ (inv_finisher _ _ hF.core.inv) (sorted_finisher _ hF.core.sorted) op

end MsiProofs.RelationalLife
