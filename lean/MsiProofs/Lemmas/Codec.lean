import MsiModel.Table
/-
Cell codec round trips: what `write_value` writes, `read_value` reads back.
-/
namespace MsiProofs.Codec
open MsiModel MsiModel.Bytes

theorem readU16_u16le (n : Nat) (h : n < 65536) (rest : Bytes) :
    readU16 (u16le n ++ rest) = .ok (n, rest) := by
  simp only [u16le, List.cons_append, List.nil_append, readU16]
  congr 2
  have h1 : (UInt8.ofNat (n % 256)).toNat = n % 256 := by simp [UInt8.toNat_ofNat']
  have h2 : (UInt8.ofNat (n / 256 % 256)).toNat = n / 256 % 256 := by simp [UInt8.toNat_ofNat']
  rw [h1, h2]; omega

theorem readU32_u32le (n : Nat) (h : n < 4294967296) (rest : Bytes) :
    readU32 (u32le n ++ rest) = .ok (n, rest) := by
  simp only [u32le, List.cons_append, List.nil_append, readU32]
  congr 2
  have h1 : (UInt8.ofNat (n % 256)).toNat = n % 256 := by simp [UInt8.toNat_ofNat']
  have h2 : (UInt8.ofNat (n / 256 % 256)).toNat = n / 256 % 256 := by simp [UInt8.toNat_ofNat']
  have h3 : (UInt8.ofNat (n / 65536 % 256)).toNat = n / 65536 % 256 := by simp [UInt8.toNat_ofNat']
  have h4 : (UInt8.ofNat (n / 16777216 % 256)).toNat = n / 16777216 % 256 := by simp [UInt8.toNat_ofNat']
  rw [h1, h2, h3, h4]; omega

/-- which cells a column type can hold (what `is_valid_value` lets through, plus null) -/
def Storable (long : Bool) : ColType → Cell → Prop
  | .int16, .null => True
  | .int16, .int n => -32768 < n.toInt ∧ n.toInt ≤ 32767
  | .int32, .null => True
  | .int32, .int n => -2147483648 < n.toInt
  | .str _, .null => True
  | .str _, .str r => 0 < r ∧ (if long then r < 16777216 else r ≤ 65535)
  | _, _ => False

/-- **cell round trip**: for every column type, both reference widths and every storable
cell, reading what was written gives the cell back and consumes exactly the written bytes:
integers are offset-binary with zero meaning null, and the most negative value is reserved -/
theorem cell_roundtrip (long : Bool) (t : ColType) (c : Cell) (h : Storable long t c) (rest : Bytes) :
    ∃ bs, t.writeValue long c = .ok bs ∧ bs.length = t.width long ∧
      t.readValue long (bs ++ rest) = .ok (c, rest) := by
  cases t with
  | int16 =>
    cases c with
    | null =>
      refine ⟨_, rfl, rfl, ?_⟩
      simp only [ColType.readValue]
      rw [readU16_u16le 0 (by omega)]
      rfl
    | int n =>
      simp only [Storable] at h
      refine ⟨_, rfl, rfl, ?_⟩
      simp only [ColType.readValue]
      have hw : ofI16 (n.toInt + 32768) = (n.toInt + 32768).toNat := by
        unfold ofI16
        have : (n.toInt + 32768) % 65536 = n.toInt + 32768 := Int.emod_eq_of_lt (by omega) (by omega)
        rw [this]
      rw [hw, readU16_u16le _ (by omega)]
      simp only [bind, Res.bind, pure]
      have hne : (n.toInt + 32768).toNat ≠ 0 := by omega
      simp only [hne, if_false]
      congr 3
      have : (((n.toInt + 32768).toNat : Int) - 32768) = n.toInt := by omega
      rw [this, Int32.ofInt_toInt]
    | str r => simp [Storable] at h
  | int32 =>
    cases c with
    | null =>
      refine ⟨_, rfl, rfl, ?_⟩
      simp only [ColType.readValue]
      rw [readU32_u32le 0 (by omega)]
      rfl
    | int n =>
      simp only [Storable] at h
      have hub := Int32.toInt_lt n
      refine ⟨_, rfl, rfl, ?_⟩
      simp only [ColType.readValue]
      have hw : ofI32 (n.toInt + 2147483648) = (n.toInt + 2147483648).toNat := by
        unfold ofI32
        have : (n.toInt + 2147483648) % 4294967296 = n.toInt + 2147483648 :=
          Int.emod_eq_of_lt (by omega) (by omega)
        rw [this]
      rw [hw, readU32_u32le _ (by omega)]
      simp only [bind, Res.bind, pure]
      have hne : (n.toInt + 2147483648).toNat ≠ 0 := by omega
      simp only [hne, if_false]
      congr 3
      have : (((n.toInt + 2147483648).toNat : Int) - 2147483648) = n.toInt := by omega
      rw [this, Int32.ofInt_toInt]
    | str r => simp [Storable] at h
  | str w =>
    cases c with
    | null =>
      cases long
      · refine ⟨_, rfl, rfl, ?_⟩
        simp only [ColType.readValue, Bool.false_eq_true, if_false]
        rw [readU16_u16le 0 (by omega)]
        rfl
      · refine ⟨_, rfl, rfl, ?_⟩
        simp only [ColType.readValue, if_true, List.append_assoc]
        rw [readU16_u16le 0 (by omega)]
        rfl
    | int n => simp [Storable] at h
    | str r =>
      simp only [Storable] at h
      cases long
      · simp only [Bool.false_eq_true, if_false] at h
        refine ⟨u16le r, by simp [ColType.writeValue, h.2], rfl, ?_⟩
        simp only [ColType.readValue, Bool.false_eq_true, if_false]
        rw [readU16_u16le r (by omega)]
        simp only [bind, Res.bind, pure]
        have : r ≠ 0 := by omega
        simp [this]
      · simp only [if_true] at h
        refine ⟨u16le (r % 65536) ++ [UInt8.ofNat (r / 65536 % 256)], by simp [ColType.writeValue], rfl, ?_⟩
        simp only [ColType.readValue, if_true, List.append_assoc]
        rw [readU16_u16le _ (by omega)]
        simp only [bind, Res.bind, pure, List.cons_append, List.nil_append, readU8]
        have hb : (UInt8.ofNat (r / 65536 % 256)).toNat = r / 65536 := by
          simp [UInt8.toNat_ofNat']; omega
        rw [hb]
        have e : r % 65536 + 65536 * (r / 65536) = r := by omega
        rw [e]
        have : r ≠ 0 := by omega
        simp [this]

/-- the reserved values: the most negative integer of each width is written as the null word -/
theorem min_is_null :
    ColType.int16.writeValue false (.int (-32768)) = ColType.int16.writeValue false .null ∧
    ColType.int32.writeValue false (.int (-2147483648)) = ColType.int32.writeValue false .null := by
  constructor <;> rfl

end MsiProofs.Codec
