import MsiProofs.Lemmas.CatalogCodec
import MsiProofs.Lemmas.Order
/-
The catalog pass of `open`, decoded: a container whose three catalog tables hold (in any order)
the rows `create_table` writes for a list of tables opens as exactly those tables.
-/
namespace MsiProofs.CatalogOpen
open MsiModel MsiModel.Bytes MsiModel.Pkg MsiProofs.Order MsiProofs.CatalogCodec

/-! ### the table list is the name-sorted list of the tables -/

/-- sorted by name, strictly -/
def NameSorted (ts : List Table) : Prop := ts.Pairwise fun a b => Value.strLt a.name b.name = true

theorem insertTable_sorted (ts : List Table) (t : Table) (hs : NameSorted ts) (hnew : ∀ x ∈ ts, x.name ≠ t.name) :
    NameSorted (insertTable ts t) ∧ (insertTable ts t).Perm (t :: ts) := by
  induction ts with
  | nil => exact ⟨by simp [insertTable, NameSorted], List.Perm.refl _⟩
  | cons x rest ih =>
    obtain ⟨h1, h2⟩ := List.pairwise_cons.mp hs
    simp only [insertTable]
    split
    · rename_i hlt
      refine ⟨?_, List.Perm.refl _⟩
      apply List.pairwise_cons.mpr
      refine ⟨?_, hs⟩
      intro y hy
      simp only [List.mem_cons] at hy
      rcases hy with rfl | hy
      · exact hlt
      · exact strLt_trans hlt (h1 y hy)
    · rename_i hnlt
      have hne : x.name ≠ t.name := hnew x (by simp)
      have hneq : (t.name == x.name) = false := by
        simp only [beq_eq_false_iff_ne, ne_eq]
        exact fun e => hne e.symm
      simp only [hneq, Bool.false_eq_true, if_false]
      obtain ⟨ih1, ih2⟩ := ih h2 (fun y hy => hnew y (by simp [hy]))
      refine ⟨?_, (ih2.cons x).trans (List.Perm.swap _ _ _)⟩
      apply List.pairwise_cons.mpr
      refine ⟨?_, ih1⟩
      intro y hy
      have := ih2.mem_iff.mp hy
      simp only [List.mem_cons] at this
      rcases this with rfl | hy'
      · -- x.name < t.name since not (t < x) and not equal
        have hnlt' : Value.strLt y.name x.name = false := by simpa using hnlt
        cases hc : Value.strLt x.name y.name with
        | true => rfl
        | false => exact absurd (strLt_connected hc hnlt') hne
      · exact h1 y hy'

/-- two name-sorted lists with the same members are the same list -/
theorem nameSorted_unique : ∀ (a b : List Table), NameSorted a → NameSorted b → a.Perm b → a = b := by
  intro a
  induction a with
  | nil => intro b _ _ hp; exact (List.Perm.nil_eq hp)
  | cons x xs ih =>
    intro b ha hb hp
    cases b with
    | nil => exact absurd hp.symm (by simp)
    | cons y ys =>
      obtain ⟨ha1, ha2⟩ := List.pairwise_cons.mp ha
      obtain ⟨hb1, hb2⟩ := List.pairwise_cons.mp hb
      have hxy : x = y := by
        have hx : x ∈ y :: ys := hp.mem_iff.mp (by simp)
        have hy : y ∈ x :: xs := hp.mem_iff.mpr (by simp)
        simp only [List.mem_cons] at hx hy
        rcases hx with h | hx
        · exact h
        · rcases hy with h | hy
          · exact h.symm
          · have h1 := hb1 x hx
            have h2 := ha1 y hy
            have := strLt_trans h1 h2
            rw [strLt_irrefl] at this; cases this
      subst hxy
      rw [ih ys ha2 hb2 ((List.perm_cons x).mp hp)]

/-- inserting the tables one by one, in any order, gives the name-sorted list of them -/
theorem foldl_insertTable (ts : List Table) : ∀ (acc : List Table), NameSorted acc →
    ((acc ++ ts).map fun (x : Table) => x.name).Nodup →
    NameSorted (ts.foldl insertTable acc) ∧ (ts.foldl insertTable acc).Perm (acc ++ ts) := by
  induction ts with
  | nil => intro acc h _; exact ⟨h, by simp⟩
  | cons t rest ih =>
    intro acc hs hnd
    have hnew : ∀ x ∈ acc, x.name ≠ t.name := by
      intro x hx e
      simp only [List.map_append, List.map_cons] at hnd
      have := (List.nodup_append.mp hnd).2.2 x.name (List.mem_map.mpr ⟨x, hx, rfl⟩) t.name (by simp)
      exact this e
    obtain ⟨h1, h2⟩ := insertTable_sorted acc t hs hnew
    have hnd' : ((insertTable acc t ++ rest).map fun (x : Table) => x.name).Nodup := by
      have hp : ((insertTable acc t ++ rest).map fun (x : Table) => x.name).Perm ((acc ++ t :: rest).map fun (x : Table) => x.name) := by
        apply List.Perm.map
        exact (List.Perm.append_right rest h2).trans (by simpa using List.perm_middle.symm)
      exact hp.nodup_iff.mpr hnd
    obtain ⟨h3, h4⟩ := ih (insertTable acc t) h1 hnd'
    refine ⟨h3, h4.trans ?_⟩
    exact (List.Perm.append_right rest h2).trans (by simpa using List.perm_middle.symm)


/-! ### the three scans of `open` -/

/-- the `_Tables` scan: the names, in reverse row order; duplicates are refused -/
theorem openNames_spec (pool : Pool) (rows : List (List Cell)) (names : List (List Char)) :
    ∀ (acc : List (List Char)),
    rows.map (fun r => (rowValues pool r).getD 0 .null) = names.map Value.str →
    (names ++ acc).Nodup →
    openNames pool rows acc = .ok (names.reverse ++ acc) := by
  induction rows generalizing names with
  | nil =>
    intro acc h _
    cases names with
    | nil => simp [openNames, pure]
    | cons n ns => simp at h
  | cons r rs ih =>
    intro acc h hnd
    cases names with
    | nil => simp at h
    | cons n ns =>
      simp only [List.map_cons, List.cons.injEq] at h
      obtain ⟨h0, hrest⟩ := h
      simp only [openNames, h0, strCell, bind, Res.bind]
      have hnot : acc.contains n = false := by
        simp only [List.cons_append, List.nodup_cons, List.mem_append, not_or] at hnd
        simpa using hnd.1.2
      simp only [hnot, Bool.false_eq_true, if_false]
      rw [ih ns (n :: acc) hrest (by
        simp only [List.cons_append, List.nodup_cons] at hnd
        have : (ns ++ n :: acc).Perm (n :: (ns ++ acc)) := List.perm_middle
        exact this.nodup_iff.mpr (List.nodup_cons.mpr hnd))]
      simp

/-- one `_Columns` row, decoded -/
def colEntry (vs : List Value) : Option (List Char × Nat × List Char × Int32) :=
  match vs.getD 0 .null, vs.getD 1 .null, vs.getD 2 .null, vs.getD 3 .null with
  | .str tn, .int idx, .str cn, .int bits => some (tn, idx.toInt.toNat, cn, bits)
  | _, _, _, _ => none

/-- the `_Columns` scan: the entries, in reverse row order -/
theorem openColsMap_spec (pool : Pool) (tableNames : List (List Char)) (rows : List (List Cell))
    (entries : List (List Char × Nat × List Char × Int32)) :
    ∀ (acc : List (List Char × Nat × List Char × Int32)),
    rows.map (fun r => colEntry (rowValues pool r)) = entries.map some →
    (∀ r ∈ rows, ∀ idx, (rowValues pool r).getD 1 .null = .int idx → 0 ≤ idx.toInt) →
    (∀ e ∈ entries, e.1 ∈ tableNames) →
    ((entries ++ acc).map fun e => (e.1, e.2.1)).Nodup →
    openColsMap pool tableNames rows acc = .ok (entries.reverse ++ acc) := by
  induction rows generalizing entries with
  | nil =>
    intro acc h _ _ _
    cases entries with
    | nil => simp [openColsMap, pure]
    | cons e es => simp at h
  | cons r rs ih =>
    intro acc h hidx hmem hnd
    cases entries with
    | nil => simp at h
    | cons e es =>
      simp only [List.map_cons, List.cons.injEq] at h
      obtain ⟨h0, hrest⟩ := h
      obtain ⟨tn, i, cn, bits⟩ := e
      unfold colEntry at h0
      generalize hv0 : (rowValues pool r).getD 0 .null = v0 at h0
      generalize hv1 : (rowValues pool r).getD 1 .null = v1 at h0
      generalize hv2 : (rowValues pool r).getD 2 .null = v2 at h0
      generalize hv3 : (rowValues pool r).getD 3 .null = v3 at h0
      cases v0 <;> cases v1 <;> cases v2 <;> cases v3 <;> simp only [reduceCtorEq] at h0
      rename_i tn' idx cn' bits'
      simp only [Option.some.injEq, Prod.mk.injEq] at h0
      obtain ⟨rfl, rfl, rfl, rfl⟩ := h0
      have hi0 : 0 ≤ idx.toInt := hidx r (by simp) idx hv1
      have htn : tn' ∈ tableNames := hmem (tn', idx.toInt.toNat, cn', bits') (List.mem_cons_self ..)
      simp only [openColsMap, hv0, hv1, hv2, hv3, strCell, intCell, bind, Res.bind]
      have hc : tableNames.contains tn' = true := by simpa using htn
      simp only [hc, Bool.not_true, Bool.false_eq_true, if_false]
      have hdup : (acc.any fun e => e.1 == tn' && (e.2.1 : Int) == idx.toInt) = false := by
        rw [List.any_eq_false]
        intro e he hc2
        simp only [Bool.and_eq_true, beq_iff_eq] at hc2
        simp only [List.cons_append, List.map_cons, List.nodup_cons, List.mem_map, List.mem_append] at hnd
        apply hnd.1
        refine ⟨e, Or.inr he, ?_⟩
        simp only [Prod.mk.injEq]
        exact ⟨hc2.1, by omega⟩
      simp only [hdup, Bool.false_eq_true, if_false]
      rw [ih es _ hrest (fun r' hr' => hidx r' (by simp [hr'])) (fun e he => hmem e (by simp [he])) (by
        have hp : (es ++ (tn', idx.toInt.toNat, cn', bits') :: acc).Perm ((tn', idx.toInt.toNat, cn', bits') :: (es ++ acc)) :=
          List.perm_middle
        exact (hp.map _).nodup_iff.mpr (by simpa using hnd))]
      simp

/-- the `_Validation` scan: (table, column) ↦ row values, in reverse row order -/
theorem openValMap_spec (pool : Pool) (rows : List (List Cell)) (keys : List (List Char × List Char)) :
    ∀ (acc : List ((List Char × List Char) × List Value)),
    rows.map (fun r => ((rowValues pool r).getD 0 .null, (rowValues pool r).getD 1 .null)) =
      keys.map (fun k => (Value.str k.1, Value.str k.2)) →
    (keys ++ acc.map (·.1)).Nodup →
    openValMap pool rows acc = .ok ((keys.zip (rows.map (rowValues pool))).reverse ++ acc) := by
  induction rows generalizing keys with
  | nil =>
    intro acc h _
    cases keys with
    | nil => simp [openValMap, pure]
    | cons k ks => simp at h
  | cons r rs ih =>
    intro acc h hnd
    cases keys with
    | nil => simp at h
    | cons k ks =>
      simp only [List.map_cons, List.cons.injEq, Prod.mk.injEq] at h
      obtain ⟨⟨h0, h1⟩, hrest⟩ := h
      simp only [openValMap, h0, h1, strCell, bind, Res.bind]
      have hdup : (acc.any fun e => e.1 == (k.1, k.2)) = false := by
        rw [List.any_eq_false]
        intro e he hc
        simp only [List.cons_append, List.nodup_cons, List.mem_append, List.mem_map, not_or] at hnd
        apply hnd.1.2
        exact ⟨e, he, by simpa using hc⟩
      simp only [hdup, Bool.false_eq_true, if_false]
      rw [ih ks _ hrest (by
        simp only [List.cons_append, List.nodup_cons, List.map_cons] at hnd ⊢
        have hp : (ks ++ (k.1, k.2) :: acc.map (·.1)).Perm ((k.1, k.2) :: (ks ++ acc.map (·.1))) := List.perm_middle
        exact hp.nodup_iff.mpr (List.nodup_cons.mpr (by simpa using hnd)))]
      simp


/-! ### one table from the scanned entries -/

theorem find?_unique {α} (p : α → Bool) (l : List α) (x : α) (hx : x ∈ l) (hp : p x = true)
    (huniq : ∀ y ∈ l, p y = true → y = x) : l.find? p = some x := by
  induction l with
  | nil => simp at hx
  | cons a rest ih =>
    simp only [List.find?_cons]
    by_cases ha : p a = true
    · simp only [ha]
      rw [huniq a (by simp) ha]
    · have haf : p a = false := by simpa using ha
      simp only [haf]
      apply ih
      · simp only [List.mem_cons] at hx
        rcases hx with rfl | hx
        · exact absurd hp ha
        · exact hx
      · intro y hy hpy; exact huniq y (by simp [hy]) hpy

theorem nodup_map_inj {α β} (l : List α) (f : α → β) (h : (l.map f).Nodup) {a b : α} (ha : a ∈ l) (hb : b ∈ l)
    (hf : f a = f b) : a = b := by
  induction l with
  | nil => simp at ha
  | cons x rest ih =>
    simp only [List.map_cons, List.nodup_cons, List.mem_map, not_exists, not_and] at h
    simp only [List.mem_cons] at ha hb
    rcases ha with rfl | ha <;> rcases hb with rfl | hb
    · rfl
    · exact absurd hf.symm (h.1 b hb)
    · exact absurd hf (h.1 a ha)
    · exact ih h.2 ha hb

/-- the `_Columns` entries of a table -/
def entriesOf (t : Table) : List (List Char × Nat × List Char × Int32) :=
  t.columns.zipIdx.map fun x => (t.name, 1 + x.2, x.1.name, bitsOf x.1)

/-- the `_Validation` entries of a table -/
def valsOf (t : Table) : List ((List Char × List Char) × List Value) :=
  t.columns.map fun c => ((t.name, c.name), valRow t.name c)

theorem mem_entriesOf (t : Table) (e : List Char × Nat × List Char × Int32) :
    e ∈ entriesOf t ↔ ∃ j, ∃ (hj : j < t.columns.length), e = (t.name, 1 + j, t.columns[j].name, bitsOf t.columns[j]) := by
  unfold entriesOf
  simp only [List.mem_map]
  constructor
  · rintro ⟨⟨c, i⟩, hx, rfl⟩
    have := List.mem_zipIdx hx
    simp only [Nat.zero_add] at this
    refine ⟨i, by omega, ?_⟩
    have hc : c = t.columns[i]'(by omega) := by
      have := this.2.2
      simpa using this
    simp [hc]
  · rintro ⟨j, hj, rfl⟩
    refine ⟨(t.columns[j], j), ?_, rfl⟩
    rw [List.mem_zipIdx_iff_getElem?]
    simp [hj]

/-- what the catalog must hold for the table list `tabs` -/
structure Encodes (tabs : List Table) (long : Bool)
    (colSpecs : List (List Char × Nat × List Char × Int32))
    (valSpecs : List ((List Char × List Char) × List Value)) : Prop where
  names : (tabs.map fun (t : Table) => t.name).Nodup
  cols : colSpecs.Perm (tabs.flatMap entriesOf)
  vals : valSpecs.Perm (tabs.flatMap valsOf)
  ok : ∀ t ∈ tabs, (∀ c ∈ t.columns, ColOk c) ∧ t.columns ≠ [] ∧ t.longRefs = long ∧
    (t.columns.map fun (c : Column) => c.name).Nodup

theorem table_of_name {tabs : List Table} (hn : (tabs.map fun (t : Table) => t.name).Nodup)
    {a b : Table} (ha : a ∈ tabs) (hb : b ∈ tabs) (h : a.name = b.name) : a = b := by
  induction tabs with
  | nil => simp at ha
  | cons x rest ih =>
    simp only [List.map_cons, List.nodup_cons, List.mem_map, not_exists, not_and] at hn
    simp only [List.mem_cons] at ha hb
    rcases ha with rfl | ha <;> rcases hb with rfl | hb
    · rfl
    · exact absurd h.symm (hn.1 b hb)
    · exact absurd h (hn.1 a ha)
    · exact ih hn.2 ha hb

/-- **one table decodes**: from the scanned `_Columns` and `_Validation` entries, the loop of
`open` rebuilds exactly the table's columns -/
theorem decode_table (tabs : List Table) (long : Bool) (colSpecs valSpecs) (hE : Encodes tabs long colSpecs valSpecs)
    (t : Table) (ht : t ∈ tabs) :
    (colSpecs.filter (·.1 == t.name)).isEmpty = false ∧
    openColumns (colSpecs.filter (·.1 == t.name)) valSpecs t.name (colSpecs.filter (·.1 == t.name)).length 1 []
      = .ok t.columns := by
  obtain ⟨hcolok, hne, hlong, hcn⟩ := hE.ok t ht
  -- the filtered entries are exactly the table's entries
  have hmemf : ∀ e, e ∈ colSpecs.filter (·.1 == t.name) ↔ e ∈ entriesOf t := by
    intro e
    simp only [List.mem_filter, beq_iff_eq]
    constructor
    · rintro ⟨he, hname⟩
      have := hE.cols.mem_iff.mp he
      simp only [List.mem_flatMap] at this
      obtain ⟨t', ht', he'⟩ := this
      have hn' : t'.name = t.name := by
        obtain ⟨j, hj, rfl⟩ := (mem_entriesOf t' e).mp he'
        exact hname
      rw [table_of_name hE.names ht' ht hn'] at he'
      exact he'
    · intro he
      refine ⟨hE.cols.mem_iff.mpr (List.mem_flatMap.mpr ⟨t, ht, he⟩), ?_⟩
      obtain ⟨j, hj, rfl⟩ := (mem_entriesOf t e).mp he
      rfl
  -- their number
  have hlen : (colSpecs.filter (·.1 == t.name)).length = t.columns.length := by
    have hp : (colSpecs.filter (·.1 == t.name)).Perm ((tabs.flatMap entriesOf).filter (·.1 == t.name)) :=
      hE.cols.filter _
    rw [hp.length_eq]
    -- only the table's own entries pass the filter
    have : ∀ (l : List Table), (∀ x ∈ l, x ∈ tabs) → (l.map fun (x : Table) => x.name).Nodup →
        ((l.flatMap entriesOf).filter (·.1 == t.name)).length = if t ∈ l then t.columns.length else 0 := by
      intro l
      induction l with
      | nil => intro _ _; simp
      | cons x rest ih =>
        intro hsub hnd
        simp only [List.flatMap_cons, List.filter_append, List.length_append]
        simp only [List.map_cons, List.nodup_cons] at hnd
        rw [ih (fun y hy => hsub y (by simp [hy])) hnd.2]
        by_cases hx : x = t
        · subst hx
          have hall : (entriesOf x).filter (·.1 == x.name) = entriesOf x := by
            apply List.filter_eq_self.mpr
            intro e he
            obtain ⟨j, hj, rfl⟩ := (mem_entriesOf x e).mp he
            simp
          have hnot : x ∉ rest := by
            intro hin
            exact hnd.1 (List.mem_map.mpr ⟨x, hin, rfl⟩)
          rw [hall]
          simp [hnot, entriesOf]
        · have hnone : (entriesOf x).filter (·.1 == t.name) = [] := by
            apply List.filter_eq_nil_iff.mpr
            intro e he
            obtain ⟨j, hj, rfl⟩ := (mem_entriesOf x e).mp he
            simp only [beq_iff_eq]
            intro hname
            exact hx (table_of_name hE.names (hsub x (by simp)) ht hname)
          have hmem : (t ∈ x :: rest) ↔ t ∈ rest := by
            simp only [List.mem_cons]
            constructor
            · rintro (h | h)
              · exact absurd h.symm hx
              · exact h
            · exact Or.inr
          simp only [hnone, List.length_nil, Nat.zero_add, hmem]
    rw [this tabs (fun _ h => h) hE.names]
    simp [ht]
  constructor
  · cases hf : colSpecs.filter (·.1 == t.name) with
    | nil => rw [hf] at hlen; simp at hlen; exact absurd (List.eq_nil_of_length_eq_zero hlen.symm) hne
    | cons a b => rfl
  · rw [hlen]
    apply openColumns_spec t.name t.columns _ valSpecs 1 [] hcolok
    · intro j hj
      refine ⟨t.name, ?_⟩
      apply find?_unique
      · exact (hmemf _).mpr ((mem_entriesOf t _).mpr ⟨j, hj, rfl⟩)
      · simp
      · intro y hy hpy
        obtain ⟨j', hj', rfl⟩ := (mem_entriesOf t y).mp ((hmemf y).mp hy)
        simp only [beq_iff_eq] at hpy
        have : j' = j := by omega
        subst this
        rfl
    · intro c hc
      apply find?_unique
      · exact hE.vals.mem_iff.mpr (List.mem_flatMap.mpr ⟨t, ht, List.mem_map.mpr ⟨c, hc, rfl⟩⟩)
      · simp
      · intro y hy hpy
        have := hE.vals.mem_iff.mp hy
        simp only [List.mem_flatMap] at this
        obtain ⟨t', ht', hy'⟩ := this
        unfold valsOf at hy'
        simp only [List.mem_map] at hy'
        obtain ⟨c', hc', rfl⟩ := hy'
        simp only [beq_iff_eq, Prod.mk.injEq] at hpy
        have htt : t' = t := table_of_name hE.names ht' ht hpy.1
        subst htt
        -- same column name within the table: the same column
        have hcc : c' = c := nodup_map_inj t'.columns (fun (c : Column) => c.name) hcn hc' hc hpy.2
        subst hcc
        rfl


/-! ### all tables -/

theorem nodup_map_on {α β} (f : α → β) : ∀ (l : List α), l.Nodup →
    (∀ a ∈ l, ∀ b ∈ l, f a = f b → a = b) → (l.map f).Nodup := by
  intro l
  induction l with
  | nil => intro _ _; simp
  | cons x rest ih =>
    intro hnd hinj
    simp only [List.nodup_cons] at hnd
    simp only [List.map_cons, List.nodup_cons, List.mem_map, not_exists, not_and]
    refine ⟨?_, ih hnd.2 (fun a ha b hb => hinj a (by simp [ha]) b (by simp [hb]))⟩
    intro y hy hfy
    have := hinj y (by simp [hy]) x (by simp) hfy
    subst this
    exact hnd.1 hy

theorem perm_map_lift {α β} [DecidableEq α] (f : α → β) : ∀ (l : List β) (ts : List α), l.Perm (ts.map f) →
    ∃ ts' : List α, ts'.map f = l ∧ ts'.Perm ts := by
  intro l
  induction l with
  | nil =>
    intro ts h
    have : ts = [] := by
      have := h.length_eq
      simp at this
      exact List.eq_nil_of_length_eq_zero this.symm
    subst this
    exact ⟨[], rfl, List.Perm.refl _⟩
  | cons a l' ih =>
    intro ts h
    have ha : a ∈ ts.map f := h.mem_iff.mp (by simp)
    obtain ⟨t, ht, rfl⟩ := List.mem_map.mp ha
    have hp : (ts.map f).Perm (f t :: (ts.erase t).map f) := ((List.perm_cons_erase ht).map f)
    have hl' : l'.Perm ((ts.erase t).map f) := (List.perm_cons (f t)).mp (h.trans hp)
    obtain ⟨ts'', h1, h2⟩ := ih (ts.erase t) hl'
    exact ⟨t :: ts'', by simp [h1], (h2.cons t).trans (List.perm_cons_erase ht).symm⟩

theorem openBuild_spec (tabs : List Table) (long : Bool) (colSpecs valSpecs) (hE : Encodes tabs long colSpecs valSpecs)
    (ts' : List Table) : ∀ (acc : List Table), (∀ t ∈ ts', t ∈ tabs) →
    openBuild colSpecs valSpecs long (ts'.map fun (t : Table) => t.name) acc = .ok (ts'.foldl insertTable acc) := by
  induction ts' with
  | nil => intro acc _; simp [openBuild, pure]
  | cons t rest ih =>
    intro acc hsub
    have ht := hsub t (by simp)
    obtain ⟨hne, hcols⟩ := decode_table tabs long colSpecs valSpecs hE t ht
    obtain ⟨-, -, hlong, -⟩ := hE.ok t ht
    simp only [List.map_cons, openBuild, hne, Bool.false_eq_true, if_false, hcols, bind, Res.bind, List.foldl_cons]
    have : (⟨t.name, t.columns, long⟩ : Table) = t := by cases t; simp_all
    rw [this]
    exact ih _ (fun x hx => hsub x (by simp [hx]))

theorem entries_nodup (tabs : List Table) (hn : (tabs.map fun (t : Table) => t.name).Nodup) :
    ((tabs.flatMap entriesOf).map fun e => (e.1, e.2.1)).Nodup := by
  induction tabs with
  | nil => simp
  | cons t rest ih =>
    simp only [List.map_cons, List.nodup_cons] at hn
    simp only [List.flatMap_cons, List.map_append]
    apply List.nodup_append.mpr
    refine ⟨?_, ih hn.2, ?_⟩
    · -- within a table the numbers differ
      unfold entriesOf
      simp only [List.map_map]
      have : (t.columns.zipIdx.map ((fun e : List Char × Nat × List Char × Int32 => (e.1, e.2.1)) ∘
          fun x => (t.name, 1 + x.2, x.1.name, bitsOf x.1))) = (List.range t.columns.length).map fun i => (t.name, 1 + i) := by
        apply List.ext_getElem
        · simp
        · intro i h1 h2
          simp
      rw [this]
      apply nodup_map_on _ _ List.nodup_range
      intro a _ b _ hab
      simp only [Prod.mk.injEq, true_and] at hab
      omega
    · intro a ha b hb
      simp only [List.mem_map] at ha hb
      obtain ⟨e, he, rfl⟩ := ha
      obtain ⟨e', he', rfl⟩ := hb
      obtain ⟨j, hj, rfl⟩ := (mem_entriesOf t e).mp he
      simp only [List.mem_flatMap] at he'
      obtain ⟨t', ht', he''⟩ := he'
      obtain ⟨j', hj', rfl⟩ := (mem_entriesOf t' e').mp he''
      simp only [ne_eq, Prod.mk.injEq, not_and]
      intro hname
      exact absurd (List.mem_map.mpr ⟨t', ht', hname.symm⟩) hn.1

theorem valkeys_nodup (tabs : List Table) (hn : (tabs.map fun (t : Table) => t.name).Nodup)
    (hc : ∀ t ∈ tabs, (t.columns.map fun (c : Column) => c.name).Nodup) :
    ((tabs.flatMap valsOf).map (·.1)).Nodup := by
  induction tabs with
  | nil => simp
  | cons t rest ih =>
    simp only [List.map_cons, List.nodup_cons] at hn
    simp only [List.flatMap_cons, List.map_append]
    apply List.nodup_append.mpr
    refine ⟨?_, ih hn.2 (fun x hx => hc x (by simp [hx])), ?_⟩
    · unfold valsOf
      simp only [List.map_map]
      have : (t.columns.map ((fun x : (List Char × List Char) × List Value => x.1) ∘ fun c => ((t.name, c.name), valRow t.name c)))
          = (t.columns.map fun (c : Column) => c.name).map fun n => (t.name, n) := by simp [List.map_map]
      rw [this]
      apply nodup_map_on _ _ (hc t (by simp))
      intro a _ b _ hab
      simpa using hab
    · intro a ha b hb
      simp only [List.mem_map] at ha hb
      obtain ⟨e, he, rfl⟩ := ha
      obtain ⟨e', he', rfl⟩ := hb
      unfold valsOf at he
      simp only [List.mem_map] at he
      obtain ⟨c, hc', rfl⟩ := he
      simp only [List.mem_flatMap] at he'
      obtain ⟨t', ht', he''⟩ := he'
      unfold valsOf at he''
      simp only [List.mem_map] at he''
      obtain ⟨c', hc'', rfl⟩ := he''
      simp only [ne_eq, Prod.mk.injEq, not_and]
      intro hname
      exact absurd (List.mem_map.mpr ⟨t', ht', hname.symm⟩) hn.1


/-- **the catalog pass of `open`, decoded.**  If the three catalog streams hold — in any row order —
the `_Tables`, `_Columns` and `_Validation` rows that `create_table` writes for the tables `tabs`
(name-sorted, distinct names, storable columns with distinct names, the pool's reference width),
then the catalog pass returns exactly `tabs`, plus the two built-in catalog tables -/
theorem openTables_of_catalog (pt : Nat) (cont : List Entry) (summary : PropSet) (pool : Pool) (tabs : List Table)
    (hsorted : NameSorted tabs) (hnames : (tabs.map fun (t : Table) => t.name).Nodup)
    (hok : ∀ t ∈ tabs, (∀ c ∈ t.columns, ColOk c) ∧ t.columns ≠ [] ∧ t.longRefs = pool.longRefs ∧
      (t.columns.map fun (c : Column) => c.name).Nodup)
    (tRows cRows vRows : List (List Cell))
    (hlT : (⟨pt, cont, summary, false, pool, [], false⟩ : Pkg).loadRows (Catalog.tablesTable pool.longRefs) = .ok tRows)
    (hlC : (⟨pt, cont, summary, false, pool, [], false⟩ : Pkg).loadRows (Catalog.columnsTable pool.longRefs) = .ok cRows)
    (hlV : (⟨pt, cont, summary, false, pool, [], false⟩ : Pkg).loadRows (Catalog.validationTable pool.longRefs) = .ok vRows)
    (names' : List (List Char))
    (hT1 : tRows.map (fun r => (rowValues pool r).getD 0 .null) = names'.map Value.str)
    (hT2 : names'.Perm (tabs.map fun (t : Table) => t.name))
    (entries' : List (List Char × Nat × List Char × Int32))
    (hC1 : cRows.map (fun r => colEntry (rowValues pool r)) = entries'.map some)
    (hC2 : entries'.Perm (tabs.flatMap entriesOf))
    (hC3 : ∀ r ∈ cRows, ∀ idx, (rowValues pool r).getD 1 .null = .int idx → 0 ≤ idx.toInt)
    (keys' : List (List Char × List Char))
    (hV1 : vRows.map (fun r => ((rowValues pool r).getD 0 .null, (rowValues pool r).getD 1 .null)) =
      keys'.map (fun k => (Value.str k.1, Value.str k.2)))
    (hV2 : (keys'.zip (vRows.map (rowValues pool))).Perm (tabs.flatMap valsOf)) :
    openTables pt cont summary pool =
      .ok (insertTable (insertTable tabs (Catalog.tablesTable pool.longRefs)) (Catalog.columnsTable pool.longRefs)) := by
  have hnd1 : names'.Nodup := hT2.nodup_iff.mpr hnames
  have hklen : keys'.length = (vRows.map (rowValues pool)).length := by
    have := congrArg List.length hV1
    simpa using this.symm
  have hkeys : (keys'.zip (vRows.map (rowValues pool))).map (·.1) = keys' := by
    rw [List.map_fst_zip]; omega
  have hnd3 : keys'.Nodup := by
    rw [← hkeys]
    exact (hV2.map (·.1)).nodup_iff.mpr (valkeys_nodup tabs hnames (fun t ht => (hok t ht).2.2.2))
  have hnd2 : (entries'.map fun e => (e.1, e.2.1)).Nodup :=
    (hC2.map _).nodup_iff.mpr (entries_nodup tabs hnames)
  have hmemT : ∀ e ∈ entries', e.1 ∈ names'.reverse := by
    intro e he
    have := hC2.mem_iff.mp he
    simp only [List.mem_flatMap] at this
    obtain ⟨t, ht, he'⟩ := this
    obtain ⟨j, hj, rfl⟩ := (mem_entriesOf t e).mp he'
    simp only [List.mem_reverse]
    exact hT2.mem_iff.mpr (List.mem_map.mpr ⟨t, ht, rfl⟩)
  have hE : Encodes tabs pool.longRefs entries'.reverse (keys'.zip (vRows.map (rowValues pool))).reverse :=
    ⟨hnames, (List.reverse_perm _).trans hC2, (List.reverse_perm _).trans hV2, hok⟩
  obtain ⟨ts', hts1, hts2⟩ := perm_map_lift (fun (t : Table) => t.name) names'.reverse tabs
    ((List.reverse_perm _).trans hT2)
  have hfold := foldl_insertTable ts' [] List.Pairwise.nil (by
    simp only [List.nil_append]
    exact (hts2.map _).nodup_iff.mpr hnames)
  have hres : ts'.foldl insertTable [] = tabs :=
    nameSorted_unique _ _ hfold.1 hsorted (hfold.2.trans (by simpa using hts2))
  unfold openTables
  simp only [hlT, bind, Res.bind]
  rw [openNames_spec pool tRows names' [] hT1 (by simpa using hnd1)]
  simp only [List.append_nil, hlC]
  rw [openColsMap_spec pool names'.reverse cRows entries' [] hC1 hC3 hmemT (by simpa using hnd2)]
  simp only [List.append_nil, hlV]
  rw [openValMap_spec pool vRows keys' [] hV1 (by simpa using hnd3)]
  simp only [List.append_nil]
  rw [← hts1, openBuild_spec tabs pool.longRefs _ _ hE ts' [] (fun t ht => hts2.mem_iff.mp ht), hres]
  rfl

end MsiProofs.CatalogOpen
