import MsiProofs.Lemmas.CatalogOpen
import MsiProofs.Lemmas.SortUpd
import MsiProofs.Lemmas.Frame
/-
The catalog as an invariant: the three catalog tables hold exactly the rows of the user tables'
definitions, so that `open` on the container rebuilds the in-memory table list.
-/
namespace MsiProofs.CatalogSync
open MsiModel MsiModel.Bytes MsiModel.Pkg MsiProofs.CatalogOpen MsiProofs.CatalogCodec MsiProofs.GlobalInv
open MsiProofs.SaveOpen MsiProofs.RefineExact MsiProofs.RefineDelete MsiProofs.Refine MsiProofs.RowsOk

/-- the catalog tables of `s` hold (in any order) the rows of the definitions `tabs`, and the
in-memory table list is `tabs` plus the two built-in catalog tables -/
structure CatalogSynced (s : Pkg) (tabs : List Table) : Prop where
  tables : s.tables = insertTable (insertTable tabs (Catalog.tablesTable s.pool.longRefs))
    (Catalog.columnsTable s.pool.longRefs)
  sorted : NameSorted tabs
  names : (tabs.map fun (t : Table) => t.name).Nodup
  ok : ∀ t ∈ tabs, (∀ c ∈ t.columns, ColOk c) ∧ t.columns ≠ [] ∧ t.longRefs = s.pool.longRefs ∧
    (t.columns.map fun (c : Column) => c.name).Nodup
  rowsT : ∃ (tRows : List (List Cell)) (names' : List (List Char)), s.loadRows (Catalog.tablesTable s.pool.longRefs) = .ok tRows ∧
    tRows.map (fun r => (rowValues s.pool r).getD 0 .null) = names'.map Value.str ∧
    names'.Perm (tabs.map fun (t : Table) => t.name)
  rowsC : ∃ (cRows : List (List Cell)) (entries' : List (List Char × Nat × List Char × Int32)), s.loadRows (Catalog.columnsTable s.pool.longRefs) = .ok cRows ∧
    cRows.map (fun r => colEntry (rowValues s.pool r)) = entries'.map some ∧
    entries'.Perm (tabs.flatMap entriesOf) ∧
    (∀ r ∈ cRows, ∀ idx, (rowValues s.pool r).getD 1 .null = .int idx → 0 ≤ idx.toInt)
  rowsV : ∃ (vRows : List (List Cell)) (keys' : List (List Char × List Char)), s.loadRows (Catalog.validationTable s.pool.longRefs) = .ok vRows ∧
    vRows.map (fun r => ((rowValues s.pool r).getD 0 .null, (rowValues s.pool r).getD 1 .null)) =
      keys'.map (fun k => (Value.str k.1, Value.str k.2)) ∧
    (keys'.zip (vRows.map (rowValues s.pool))).Perm (tabs.flatMap valsOf)

/-- **with the catalog in sync, the catalog pass of `open` returns the in-memory table list** -/
theorem synced_open (s : Pkg) (tabs : List Table) (h : CatalogSynced s tabs) :
    openTables s.ptype s.cont s.summary s.pool = .ok s.tables := by
  obtain ⟨tRows, names', h1, h2, h3⟩ := h.rowsT
  obtain ⟨cRows, entries', h4, h5, h6, h7⟩ := h.rowsC
  obtain ⟨vRows, keys', h8, h9, h10⟩ := h.rowsV
  rw [h.tables]
  exact openTables_of_catalog s.ptype s.cont s.summary s.pool tabs h.sorted h.names h.ok tRows cRows vRows
    h1 h4 h8 names' h2 h3 entries' h5 h6 h7 keys' h9 h10

/-- **C01, closed on the model**: with the metadata `Saved` and the catalog in sync, reopening
yields a package with the same container, summary, pool AND table definitions -/
theorem reopen_same_tables (s : Pkg) (tabs : List Table) (hsaved : Saved s) (hcat : CatalogSynced s tabs) :
    ∃ s2, open_ (some s.ptype) s.cont = .ok s2 ∧
      s2.cont = s.cont ∧ s2.summary = s.summary ∧ s2.pool = s.pool ∧ s2.tables = s.tables := by
  have hcore := openCore_of_saved s s.ptype hsaved
  rw [synced_open s tabs hcat] at hcore
  refine ⟨⟨s.ptype, s.cont, s.summary, false, s.pool, s.tables, false⟩, ?_, rfl, rfl, rfl, rfl⟩
  unfold open_
  rw [hcore]
  rfl


/-- the three catalog tables (for the reference width in use) -/
def catalogTables (long : Bool) : List Table :=
  [Catalog.tablesTable long, Catalog.columnsTable long, Catalog.validationTable long]

/-- **transfer**: a state that reads the three catalog tables as the same rows with the same
values, and has the same table list and reference width, is in sync with the same definitions -/
theorem catalogSynced_transfer (s s' : Pkg) (tabs : List Table) (h : CatalogSynced s tabs)
    (htabs : s'.tables = s.tables) (hlong : s'.pool.longRefs = s.pool.longRefs)
    (hrows : ∀ t ∈ catalogTables s.pool.longRefs, s'.loadRows t = s.loadRows t)
    (hvals : ∀ t ∈ catalogTables s.pool.longRefs, ∀ rows, s.loadRows t = .ok rows →
      ∀ r ∈ rows, rowValues s'.pool r = rowValues s.pool r) : CatalogSynced s' tabs := by
  obtain ⟨tRows, names', h1, h2, h3⟩ := h.rowsT
  obtain ⟨cRows, entries', h4, h5, h6, h7⟩ := h.rowsC
  obtain ⟨vRows, keys', h8, h9, h10⟩ := h.rowsV
  have hT := hvals _ (by simp [catalogTables]) tRows h1
  have hC := hvals _ (by simp [catalogTables]) cRows h4
  have hV := hvals _ (by simp [catalogTables]) vRows h8
  refine ⟨by rw [htabs, hlong]; exact h.tables, h.sorted, h.names, by rw [hlong]; exact h.ok, ?_, ?_, ?_⟩
  · refine ⟨tRows, names', by rw [hlong, hrows _ (by simp [catalogTables])]; exact h1, ?_, h3⟩
    rw [← h2]
    exact List.map_congr_left fun r hr => by rw [hT r hr]
  · refine ⟨cRows, entries', by rw [hlong, hrows _ (by simp [catalogTables])]; exact h4, ?_, h6, ?_⟩
    · rw [← h5]
      exact List.map_congr_left fun r hr => by rw [hC r hr]
    · intro r hr idx hidx
      rw [hC r hr] at hidx
      exact h7 r hr idx hidx
  · refine ⟨vRows, keys', by rw [hlong, hrows _ (by simp [catalogTables])]; exact h8, ?_, ?_⟩
    · rw [← h9]
      exact List.map_congr_left fun r hr => by rw [hV r hr]
    · have : vRows.map (rowValues s'.pool) = vRows.map (rowValues s.pool) :=
        List.map_congr_left fun r hr => hV r hr
      rw [this]; exact h10

/-- the catalog tables are stored apart from the metadata streams -/
theorem catalog_notMeta (long : Bool) : ∀ t ∈ catalogTables long, MsiProofs.Synced.NotMeta t.streamName := by
  intro t ht
  have := MsiProofs.Synced.catalog_separate long
  simp only [catalogTables, List.mem_cons, List.mem_nil_iff, or_false] at ht
  rcases ht with rfl | rfl | rfl
  · exact this.1
  · exact this.2.1
  · exact this.2.2

/-- whatever its outcome, the finisher changes no string of the pool and no stream other than the
three metadata streams -/
theorem finish_frame (s : Pkg) :
    ((finish s).1.pool.strings = s.pool.strings ∧ (finish s).1.pool.longRefs = s.pool.longRefs) ∧
    ∀ n, MsiProofs.Synced.NotMeta n → dataOf (finish s).1.cont n = dataOf s.cont n := by
  have close : ∀ (c : List Entry) (n : List Char), MsiProofs.Synced.NotMeta n →
      (∀ d, dataOf (Cont.put c sSummary d) n = dataOf c n) ∧ (∀ d, dataOf (Cont.put c sPool d) n = dataOf c n) ∧
      (∀ d, dataOf (Cont.put c sData d) n = dataOf c n) :=
    fun c n hn => ⟨fun d => dataOf_put_other _ _ _ _ (Ne.symm hn.2.2), fun d => dataOf_put_other _ _ _ _ (Ne.symm hn.1),
      fun d => dataOf_put_other _ _ _ _ (Ne.symm hn.2.1)⟩
  unfold finish
  cases s.summaryModified
  · simp only [Bool.false_eq_true, if_false]
    cases s.pool.modified
    · exact ⟨⟨rfl, rfl⟩, fun _ _ => rfl⟩
    · simp only [if_true]
      cases s.pool.writePool <;> cases s.pool.writeData <;>
        (refine ⟨⟨rfl, rfl⟩, fun n hn => ?_⟩
         first
           | rfl
           | (show dataOf (Cont.put (Cont.put s.cont sPool _) sData _) n = dataOf s.cont n
              rw [(close _ n hn).2.2, (close _ n hn).2.1]))
  · simp only [if_true]
    cases s.summary.write with
    | ok bs =>
      simp only
      cases s.pool.modified
      · refine ⟨⟨rfl, rfl⟩, fun n hn => ?_⟩
        show dataOf (Cont.put s.cont sSummary bs) n = dataOf s.cont n
        exact (close _ n hn).1 bs
      · simp only [if_true]
        cases s.pool.writePool <;> cases s.pool.writeData <;>
          (refine ⟨⟨rfl, rfl⟩, fun n hn => ?_⟩
           first
             | (show dataOf (Cont.put s.cont sSummary bs) n = dataOf s.cont n
                exact (close _ n hn).1 bs)
             | (show dataOf (Cont.put (Cont.put (Cont.put s.cont sSummary bs) sPool _) sData _) n = dataOf s.cont n
                rw [(close _ n hn).2.2, (close _ n hn).2.1, (close _ n hn).1]))
    | err k => exact ⟨⟨rfl, rfl⟩, fun _ _ => rfl⟩
    | panic w => exact ⟨⟨rfl, rfl⟩, fun _ _ => rfl⟩

/-- **a successful save keeps the catalog in sync** (it writes only the metadata streams) -/
theorem finish_catalogSynced (s s' : Pkg) (tabs : List Table) (h : CatalogSynced s tabs)
    (hf : finish s = (s', .ok ())) : CatalogSynced s' tabs := by
  have htabs : s'.tables = s.tables := by
    have := MsiProofs.Synced.finish_tables s
    rw [hf] at this; exact this
  have hshape0 := finish_frame s
  rw [hf] at hshape0
  have hshape : (s'.pool.strings = s.pool.strings ∧ s'.pool.longRefs = s.pool.longRefs) ∧
      ∀ n, MsiProofs.Synced.NotMeta n → dataOf s'.cont n = dataOf s.cont n := hshape0
  obtain ⟨⟨hstr, hlong⟩, hframe⟩ := hshape
  have hval : ∀ r : List Cell, rowValues s'.pool r = rowValues s.pool r := by
    intro r
    unfold rowValues
    apply List.map_congr_left
    intro c _
    cases c with
    | str q => simp only [Cell.toValue, Pool.get, hstr]
    | null => rfl
    | int n => rfl
  exact catalogSynced_transfer s s' tabs h htabs hlong
    (fun t ht => loadRows_congr s s' t (hframe _ (catalog_notMeta _ t ht)))
    (fun _ _ _ _ r _ => hval r)


/-! ### statements on user tables keep the catalog in sync -/

theorem mem_insertTable_self (ts : List Table) (t : Table) : t ∈ insertTable ts t := by
  induction ts with
  | nil => simp [insertTable]
  | cons x rest ih =>
    simp only [insertTable]
    split
    · simp
    · split
      · simp
      · simp [ih]

theorem mem_insertTable_of_mem (ts : List Table) (t x : Table) (hx : x ∈ ts) (hne : x.name ≠ t.name) :
    x ∈ insertTable ts t := by
  induction ts with
  | nil => simp at hx
  | cons y rest ih =>
    simp only [insertTable]
    split
    · simp only [List.mem_cons] at hx ⊢
      exact Or.inr hx
    · split
      · rename_i heq
        simp only [List.mem_cons] at hx ⊢
        rcases hx with rfl | hx
        · have : t.name = x.name := by simpa using heq
          exact absurd this.symm hne
        · exact Or.inr hx
      · simp only [List.mem_cons] at hx ⊢
        rcases hx with rfl | hx
        · exact Or.inl rfl
        · exact Or.inr (ih hx)

/-- the names of the three catalog tables -/
def isCatalogName (n : List Char) : Bool :=
  n == Gen.nameTables.toList || n == Gen.nameColumns.toList || n == Gen.nameValidation.toList

theorem catalog_names (long : Bool) : ∀ t ∈ catalogTables long, isCatalogName t.name = true := by
  intro t ht
  simp only [catalogTables, List.mem_cons, List.mem_nil_iff, or_false] at ht
  rcases ht with rfl | rfl | rfl <;> cases long <;> decide

/-- the three catalog tables are tables of a package whose catalog is in sync and lists `_Validation` -/
theorem catalog_mem (s : Pkg) (tabs : List Table) (h : CatalogSynced s tabs)
    (hv : Catalog.validationTable s.pool.longRefs ∈ tabs) : ∀ t ∈ catalogTables s.pool.longRefs, t ∈ s.tables := by
  intro t ht
  rw [h.tables]
  simp only [catalogTables, List.mem_cons, List.mem_nil_iff, or_false] at ht
  rcases ht with rfl | rfl | rfl
  · exact mem_insertTable_of_mem _ _ _ (mem_insertTable_self _ _) (by cases s.pool.longRefs <;> decide)
  · exact mem_insertTable_self _ _
  · refine mem_insertTable_of_mem _ _ _ (mem_insertTable_of_mem _ _ _ hv ?_) ?_ <;>
      cases s.pool.longRefs <;> decide

/-- **an insert, update or delete on a table other than the catalog tables — accepted or refused —
keeps the catalog in sync** -/
theorem op_catalogSynced (slack : Nat → Nat) (s : Pkg) (tabs : List Table) (hI : Inv slack s)
    (h : CatalogSynced s tabs) (hv : Catalog.validationTable s.pool.longRefs ∈ tabs)
    (op : MsiProofs.GlobalInvUpd.Op)
    (hname : isCatalogName (MsiProofs.Frame.target op) = false) :
    CatalogSynced (op.run s) tabs := by
  have hk := MsiProofs.Frame.op_kept slack s hI op
  have hmem := catalog_mem s tabs h hv
  have hne : ∀ t ∈ catalogTables s.pool.longRefs, t.name ≠ MsiProofs.Frame.target op := by
    intro t ht e
    have := catalog_names _ t ht
    rw [e, hname] at this
    cases this
  exact catalogSynced_transfer s _ tabs h hk.tables hk.long
    (fun t ht => hk.rows t (hmem t ht) (hne t ht))
    (fun t ht rows hl r hr => hk.vals t (hmem t ht) (hne t ht) rows hl r hr)

end MsiProofs.CatalogSync
