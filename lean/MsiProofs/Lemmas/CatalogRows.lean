import MsiProofs.Lemmas.EndToEnd
/-
The catalog invariant in membership form — easy to maintain through `create_table` — and the bridge
to the form the decode theorem needs.
-/
namespace MsiProofs.CatalogRows
open MsiModel MsiModel.Bytes MsiModel.Pkg MsiProofs.CatalogOpen MsiProofs.CatalogCodec MsiProofs.CatalogSync
open MsiProofs.GlobalInv MsiProofs.SortedInv

/-- the value rows `create_table` writes into `_Columns` for a table -/
def colRowsOf (t : Table) : List (List Value) :=
  (entriesOf t).map fun e => [.str e.1, .int (Int32.ofNat e.2.1), .str e.2.2.1, .int e.2.2.2]

/-- the value rows `create_table` writes into `_Validation` for a table (as stored) -/
def valRowsOf (t : Table) : List (List Value) := t.columns.map (valRow t.name)

/-- the catalog tables of `s`, read as values, hold exactly the rows of the definitions `tabs` -/
structure Rows (s : Pkg) (tabs : List Table) : Prop where
  rowsT : ∃ tRows, s.loadRows (Catalog.tablesTable s.pool.longRefs) = .ok tRows ∧
    ∀ v, v ∈ tRows.map (rowValues s.pool) ↔ ∃ t ∈ tabs, v = [Value.str t.name]
  rowsC : ∃ cRows, s.loadRows (Catalog.columnsTable s.pool.longRefs) = .ok cRows ∧
    ∀ v, v ∈ cRows.map (rowValues s.pool) ↔ ∃ t ∈ tabs, v ∈ colRowsOf t
  rowsV : ∃ vRows, s.loadRows (Catalog.validationTable s.pool.longRefs) = .ok vRows ∧
    ∀ v, v ∈ vRows.map (rowValues s.pool) ↔ ∃ t ∈ tabs, v ∈ valRowsOf t

/-- rows in strictly ascending key order, whose key determines... are pairwise different as values -/
theorem values_nodup (p : Pool) (t : Table) (rows : List (List Cell)) (h : KeysAscending p t rows) :
    (rows.map (rowValues p)).Nodup := by
  unfold KeysAscending at h
  have : (rows.map (rowValues p)).Pairwise (· ≠ ·) := by
    rw [List.pairwise_map]
    rw [List.pairwise_map] at h
    exact h.imp fun hab e => by rw [e, MsiProofs.Order.keyLt_irrefl] at hab; cases hab
  exact this

/-- a list without duplicates whose members are those of another list without duplicates is a
permutation of it -/
theorem perm_of_mem_iff {α} [DecidableEq α] {a b : List α} (ha : a.Nodup) (hb : b.Nodup)
    (h : ∀ x, x ∈ a ↔ x ∈ b) : a.Perm b := (List.perm_ext_iff_of_nodup ha hb).mpr h


/-! ### decoding the value rows -/

def strOf : Value → List Char
  | .str s => s
  | _ => []

def entryOfRow (v : List Value) : List Char × Nat × List Char × Int32 := (colEntry v).getD default

theorem ofNat_toNat (n : Nat) (h : n < 2147483648) : (Int32.ofNat n).toInt.toNat = n ∧ 0 ≤ (Int32.ofNat n).toInt := by
  have : (Int32.ofNat n).toInt = (n : Int) := by
    rw [Int32.toInt_ofNat_of_lt (by omega)]
  rw [this]
  exact ⟨by omega, by omega⟩

/-- a `_Columns` value row decodes to the entry it was written for -/
theorem colEntry_row (e : List Char × Nat × List Char × Int32) (h : e.2.1 < 2147483648) :
    colEntry [.str e.1, .int (Int32.ofNat e.2.1), .str e.2.2.1, .int e.2.2.2] = some e := by
  obtain ⟨a, b, c, d⟩ := e
  simp only [colEntry, List.getD_cons_zero, List.getD_cons_succ]
  rw [(ofNat_toNat b h).1]

theorem mem_colRowsOf (t : Table) (v : List Value) : v ∈ colRowsOf t ↔
    ∃ e ∈ entriesOf t, v = [.str e.1, .int (Int32.ofNat e.2.1), .str e.2.2.1, .int e.2.2.2] := by
  unfold colRowsOf
  simp only [List.mem_map]
  constructor
  · rintro ⟨e, he, rfl⟩; exact ⟨e, he, rfl⟩
  · rintro ⟨e, he, rfl⟩; exact ⟨e, he, rfl⟩

theorem entry_small (t : Table) (hs : t.columns.length < 2147483647) (e) (he : e ∈ entriesOf t) : e.2.1 < 2147483648 := by
  obtain ⟨j, hj, rfl⟩ := (mem_entriesOf t e).mp he
  simp only
  omega

theorem colRows_decode (tabs : List Table) (hs : ∀ t ∈ tabs, t.columns.length < 2147483647) :
    (tabs.flatMap colRowsOf).map entryOfRow = tabs.flatMap entriesOf := by
  induction tabs with
  | nil => rfl
  | cons t rest ih =>
    simp only [List.flatMap_cons, List.map_append]
    rw [ih (fun x hx => hs x (by simp [hx]))]
    congr 1
    unfold colRowsOf
    rw [List.map_map]
    conv => rhs; rw [← List.map_id (entriesOf t)]
    apply List.map_congr_left
    intro e he
    simp only [Function.comp, entryOfRow, colEntry_row e (entry_small t (hs t (by simp)) e he), Option.getD_some, id]

/-- the key of a `_Validation` value row -/
def keyOfV (v : List Value) : List Char × List Char := (strOf (v.getD 0 .null), strOf (v.getD 1 .null))

theorem keyOfV_valRow (tn : List Char) (c : Column) (h1 : tn ≠ []) (h2 : c.name ≠ []) :
    keyOfV (valRow tn c) = (tn, c.name) ∧
    (valRow tn c).getD 0 .null = .str tn ∧ (valRow tn c).getD 1 .null = .str c.name := by
  rw [valRow_eq]
  simp only [keyOfV, List.getD_cons_zero, List.getD_cons_succ, storable_str_ne tn h1, storable_str_ne c.name h2, strOf]
  exact ⟨trivial, trivial, trivial⟩

/-- names are not empty (they are identifiers) -/
def NamesOk (tabs : List Table) : Prop := ∀ t ∈ tabs, t.name ≠ [] ∧ ∀ c ∈ t.columns, c.name ≠ []

theorem valRows_decode (tabs : List Table) (hn : NamesOk tabs) :
    (tabs.flatMap valRowsOf).map (fun v => (keyOfV v, v)) = tabs.flatMap valsOf := by
  induction tabs with
  | nil => rfl
  | cons t rest ih =>
    simp only [List.flatMap_cons, List.map_append]
    rw [ih (fun x hx => hn x (by simp [hx]))]
    congr 1
    unfold valRowsOf valsOf
    rw [List.map_map]
    apply List.map_congr_left
    intro c hc
    have := (keyOfV_valRow t.name c (hn t (by simp)).1 ((hn t (by simp)).2 c hc)).1
    simp only [Function.comp, this]


/-! ### the bridge -/

theorem nodup_of_map {α β} (f : α → β) (l : List α) (h : (l.map f).Nodup) : l.Nodup := by
  induction l with
  | nil => simp
  | cons x rest ih =>
    simp only [List.map_cons, List.nodup_cons, List.mem_map, not_exists, not_and] at h
    simp only [List.nodup_cons]
    exact ⟨fun hx => h.1 x hx rfl, ih h.2⟩

/-- **membership form ⇒ the form the decode theorem needs** -/
theorem synced_of_rows (s : Pkg) (tabs : List Table) (hR : Rows s tabs) (hS : SortedAll s)
    (hmem : ∀ t ∈ catalogTables s.pool.longRefs, t ∈ s.tables)
    (htables : s.tables = insertTable (insertTable tabs (Catalog.tablesTable s.pool.longRefs))
      (Catalog.columnsTable s.pool.longRefs))
    (hsorted : NameSorted tabs) (hnames : (tabs.map fun (t : Table) => t.name).Nodup)
    (hok : ∀ t ∈ tabs, (∀ c ∈ t.columns, ColOk c) ∧ t.columns ≠ [] ∧ t.longRefs = s.pool.longRefs ∧
      (t.columns.map fun (c : Column) => c.name).Nodup)
    (hsmall : ∀ t ∈ tabs, t.columns.length < 2147483647) (hn : NamesOk tabs) : CatalogSynced s tabs := by
  obtain ⟨tRows, hlT, hmT⟩ := hR.rowsT
  obtain ⟨cRows, hlC, hmC⟩ := hR.rowsC
  obtain ⟨vRows, hlV, hmV⟩ := hR.rowsV
  have hndT := values_nodup s.pool _ tRows (hS _ (hmem _ (by simp [catalogTables])) tRows hlT)
  have hndC := values_nodup s.pool _ cRows (hS _ (hmem _ (by simp [catalogTables])) cRows hlC)
  have hndV := values_nodup s.pool _ vRows (hS _ (hmem _ (by simp [catalogTables])) vRows hlV)
  -- _Tables
  have hLT : (tabs.map fun (t : Table) => [Value.str t.name]).Nodup := by
    apply nodup_of_map (fun v => strOf (v.getD 0 .null))
    have : (tabs.map fun (t : Table) => [Value.str t.name]).map (fun v => strOf (v.getD 0 .null)) =
        tabs.map fun (t : Table) => t.name := by
      rw [List.map_map]; rfl
    rw [this]; exact hnames
  have hpT : (tRows.map (rowValues s.pool)).Perm (tabs.map fun (t : Table) => [Value.str t.name]) :=
    perm_of_mem_iff hndT hLT (fun v => by
      rw [hmT v]
      simp only [List.mem_map]
      constructor
      · rintro ⟨t, ht, rfl⟩; exact ⟨t, ht, rfl⟩
      · rintro ⟨t, ht, rfl⟩; exact ⟨t, ht, rfl⟩)
  -- _Columns
  have hLC : (tabs.flatMap colRowsOf).Nodup := by
    apply nodup_of_map entryOfRow
    rw [colRows_decode tabs hsmall]
    exact nodup_of_map _ _ (entries_nodup tabs hnames)
  have hpC : (cRows.map (rowValues s.pool)).Perm (tabs.flatMap colRowsOf) :=
    perm_of_mem_iff hndC hLC (fun v => by rw [hmC v]; simp only [List.mem_flatMap])
  -- _Validation
  have hLV : (tabs.flatMap valRowsOf).Nodup := by
    apply nodup_of_map (fun v => (keyOfV v, v))
    rw [valRows_decode tabs hn]
    exact nodup_of_map _ _ (valkeys_nodup tabs hnames (fun t ht => (hok t ht).2.2.2))
  have hpV : (vRows.map (rowValues s.pool)).Perm (tabs.flatMap valRowsOf) :=
    perm_of_mem_iff hndV hLV (fun v => by rw [hmV v]; simp only [List.mem_flatMap])
  refine ⟨htables, hsorted, hnames, hok, ?_, ?_, ?_⟩
  · refine ⟨tRows, (tRows.map (rowValues s.pool)).map (fun v => strOf (v.getD 0 .null)), hlT, ?_, ?_⟩
    · rw [List.map_map, List.map_map]
      apply List.map_congr_left
      intro r hr
      obtain ⟨t, -, hv⟩ := (hmT _).mp (List.mem_map.mpr ⟨r, hr, rfl⟩)
      simp only [Function.comp, hv, List.getD_cons_zero, strOf]
    · have := hpT.map (fun v => strOf (v.getD 0 .null))
      have e : (tabs.map fun (t : Table) => [Value.str t.name]).map (fun v => strOf (v.getD 0 .null)) =
          tabs.map fun (t : Table) => t.name := by
        rw [List.map_map]; rfl
      rw [e] at this
      exact this
  · refine ⟨cRows, (cRows.map (rowValues s.pool)).map entryOfRow, hlC, ?_, ?_, ?_⟩
    · rw [List.map_map, List.map_map]
      apply List.map_congr_left
      intro r hr
      obtain ⟨t, ht, hv⟩ := (hmC _).mp (List.mem_map.mpr ⟨r, hr, rfl⟩)
      obtain ⟨e, he, hve⟩ := (mem_colRowsOf t _).mp hv
      simp only [Function.comp, entryOfRow, hve, colEntry_row e (entry_small t (hsmall t ht) e he), Option.getD_some]
    · have := hpC.map entryOfRow
      rw [colRows_decode tabs hsmall] at this
      exact this
    · intro r hr idx hidx
      obtain ⟨t, ht, hv⟩ := (hmC _).mp (List.mem_map.mpr ⟨r, hr, rfl⟩)
      obtain ⟨e, he, hve⟩ := (mem_colRowsOf t _).mp hv
      rw [hve] at hidx
      simp only [List.getD_cons_succ, List.getD_cons_zero, Value.int.injEq] at hidx
      rw [← hidx]
      exact (ofNat_toNat e.2.1 (entry_small t (hsmall t ht) e he)).2
  · refine ⟨vRows, (vRows.map (rowValues s.pool)).map keyOfV, hlV, ?_, ?_⟩
    · rw [List.map_map, List.map_map]
      apply List.map_congr_left
      intro r hr
      obtain ⟨t, ht, hv⟩ := (hmV _).mp (List.mem_map.mpr ⟨r, hr, rfl⟩)
      unfold valRowsOf at hv
      obtain ⟨c, hc, hvc⟩ := List.mem_map.mp hv
      obtain ⟨h1, h2, h3⟩ := keyOfV_valRow t.name c (hn t ht).1 ((hn t ht).2 c hc)
      simp only [Function.comp, ← hvc, h1, h2, h3]
    · have h1 : ((vRows.map (rowValues s.pool)).map keyOfV).zip (vRows.map (rowValues s.pool)) =
          (vRows.map (rowValues s.pool)).map (fun v => (keyOfV v, v)) := by
        generalize vRows.map (rowValues s.pool) = l
        induction l with
        | nil => rfl
        | cons a rest ih => simp [ih]
      rw [h1]
      have := hpV.map (fun v => (keyOfV v, v))
      rw [valRows_decode tabs hn] at this
      exact this

end MsiProofs.CatalogRows
