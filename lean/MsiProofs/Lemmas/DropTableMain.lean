import MsiProofs.Lemmas.DropTable
/-
The main theorem on `drop_table`.
-/
namespace MsiProofs.DropTable
open MsiModel MsiModel.Bytes MsiModel.Pkg MsiProofs.CatalogOpen MsiProofs.CatalogCodec MsiProofs.CatalogSync
open MsiProofs.GlobalInv MsiProofs.SortedInv MsiProofs.CatalogRows MsiProofs.Frame MsiProofs.Refine
open MsiProofs.RefineExact MsiProofs.RefineDelete MsiProofs.SaveOpen MsiProofs.RowsOk
open MsiProofs.CreateTable MsiProofs.FullHistory

theorem cellsOfTables_filter (s : Pkg) (f : Table → Bool) : ∀ ts : List Table,
    (∀ x ∈ ts, f x = false → rowsOf s x = []) → cellsOfTables s (ts.filter f) = cellsOfTables s ts := by
  intro ts
  induction ts with
  | nil => intro _; rfl
  | cons x rest ih =>
    intro h
    have ihr := ih (fun y hy => h y (by simp [hy]))
    unfold cellsOfTables at ihr ⊢
    cases hf : f x with
    | true => simp only [List.filter_cons, hf, if_true, List.map_cons, List.flatten_cons, ihr]
    | false =>
      have := h x (by simp) hf
      simp only [List.filter_cons, hf, Bool.false_eq_true, if_false, List.map_cons, List.flatten_cons, ihr, this,
        List.flatten_nil, List.nil_append]

/-- the state with the table named `name` taken off the list -/
def withoutTable (s : Pkg) (name : List Char) : Pkg := { s with tables := s.tables.filter (·.name != name) }

theorem inv_remove_table (slack : Nat → Nat) (s : Pkg) (hI : Inv slack s) (name : List Char)
    (h : ∀ x ∈ s.tables, x.name = name → s.loadRows x = .ok []) : Inv slack (withoutTable s name) := by
  have hcells : cellsOfTables (withoutTable s name) (withoutTable s name).tables = cellsOfTables s s.tables := by
    show cellsOfTables s (s.tables.filter (·.name != name)) = _
    apply cellsOfTables_filter
    intro x hx hf
    have : x.name = name := by simpa using hf
    exact rowsOf_ok (h x hx this)
  have hsub : ∀ x ∈ (withoutTable s name).tables, x ∈ s.tables := fun x hx => (List.mem_filter.mp hx).1
  refine ⟨hI.distinct.sublist List.filter_sublist, fun x hx => hI.loads x (hsub x hx), ?_, ?_, hI.sized,
    fun x hx => hI.widths x (hsub x hx)⟩
  · rw [hcells]; exact hI.pos
  · rw [hcells]; exact hI.counts

theorem sorted_remove_table (s : Pkg) (hS : SortedAll s) (name : List Char) : SortedAll (withoutTable s name) :=
  fun x hx rows hl => hS x (List.mem_filter.mp hx).1 rows hl


theorem str_beq (a b : List Char) : (Value.str a == Value.str b) = (a == b) := by
  rw [Bool.eq_iff_iff]; simp

theorem valRow_head (tn : List Char) (c : Column) (h : tn ≠ []) : ∃ vs, valRow tn c = .str tn :: vs := by
  unfold valRow catalogRowsValidation
  simp only [List.map_cons, List.map_nil, storable_str_ne tn h]
  exact ⟨_, rfl⟩

/-- the rows of the remaining definitions are the rows on which `<first column> = name` is false -/
theorem filter_rows (tabs : List Table) (name : List Char) (R : Table → List (List Value)) (X : Table)
    (cond : Option Ast) (hc : ∀ t' ∈ tabs, ∀ v ∈ R t', condOn X cond v = .ok (t'.name == name)) (v : List Value) :
    ((∃ t' ∈ tabs, v ∈ R t') ∧ condOn X cond v = .ok false) ↔
      ∃ t' ∈ tabs.filter (·.name != name), v ∈ R t' := by
  constructor
  · rintro ⟨⟨t', ht', hv⟩, hcond⟩
    rw [hc t' ht' v hv] at hcond
    have : (t'.name == name) = false := by injection hcond
    exact ⟨t', List.mem_filter.mpr ⟨ht', by simp [bne, this]⟩, hv⟩
  · rintro ⟨t', ht', hv⟩
    obtain ⟨h1, h2⟩ := List.mem_filter.mp ht'
    refine ⟨⟨t', h1, hv⟩, ?_⟩
    rw [hc t' h1 v hv]
    have : (t'.name == name) = false := by simpa [bne] using h2
    rw [this]

theorem filter_sorted {ts : List Table} (h : NameSorted ts) (f : Table → Bool) : NameSorted (ts.filter f) :=
  List.Pairwise.sublist List.filter_sublist h

theorem filter_insertTable (ts : List Table) (a : Table) (name : List Char) (hs : NameSorted ts)
    (ha : ∀ x ∈ ts, x.name ≠ a.name) (hne : a.name ≠ name) :
    (insertTable ts a).filter (·.name != name) = insertTable (ts.filter (·.name != name)) a := by
  obtain ⟨s1, p1⟩ := insertTable_sorted ts a hs ha
  have ha' : ∀ x ∈ ts.filter (·.name != name), x.name ≠ a.name := fun x hx => ha x (List.mem_filter.mp hx).1
  obtain ⟨s2, p2⟩ := insertTable_sorted _ a (filter_sorted hs _) ha'
  apply nameSorted_unique _ _ (filter_sorted s1 _) s2
  have hfa : (a :: ts).filter (·.name != name) = a :: ts.filter (·.name != name) := by
    have : (a.name != name) = true := by simpa [bne] using hne
    simp [List.filter_cons, this]
  exact ((p1.filter _).trans (hfa ▸ List.Perm.refl _)).trans p2.symm

/-- the three catalog deletes and the removal from the table list -/
def dropTail (s1 : Pkg) (name : List Char) : Pkg × Res Unit :=
  match deleteValidation s1 name with
  | (s2, .ok ()) =>
    match deleteRows s2 Gen.nameColumns.toList (eqStr "Table" name) with
    | (s3, .ok ()) =>
      match deleteRows s3 Gen.nameTables.toList (eqStr "Name" name) with
      | (s4, .ok ()) => ({ s4 with tables := s4.tables.filter (·.name != name) }, .ok ())
      | r => r
    | r => r
  | r => r

theorem noOrphans_deleteRows (s : Pkg) (h : NoOrphans s) (tn : List Char) (cond : Option Ast) :
    NoOrphans (deleteRows s tn cond).1 :=
  noOrphans_shape _ _ tn (MsiProofs.StreamsMap.deleteExec_shape _ tn cond) (noOrphans_finisher s h)


/-- the tail of `drop_table`, from a state in which the table reads as empty and has no stream -/
theorem dropTail_spec (slack : Nat → Nat) (s1 : Pkg) (tabs : List Table) (hC : Core slack s1 tabs)
    (hv : Catalog.validationTable s1.pool.longRefs ∈ tabs) (hN : NoOrphans s1)
    (name : List Char) (t : Table) (hf : s1.findTable name = some t) (hres : Catalog.isReserved name = false)
    (hl1 : s1.loadRows t = .ok []) (hempty : dataOf s1.cont t.streamName = none)
    (s5 : Pkg) (h : dropTail s1 name = (s5, .ok ())) :
    Full slack s5 (tabs.filter (·.name != name)) ∧ NoOrphans s5 := by
  have htm : t ∈ s1.tables := findTable_spec s1 name t hf
  have htn : t.name = name := findTable_name hf
  simp only [Catalog.isReserved, Bool.or_eq_false_iff, beq_eq_false_iff_ne, ne_eq] at hres
  obtain ⟨⟨hnC, hnT⟩, hnV⟩ := hres
  have hct : Catalog.columnsTable s1.pool.longRefs ∈ s1.tables := (hC.mem _).mpr (Or.inl rfl)
  have htt : Catalog.tablesTable s1.pool.longRefs ∈ s1.tables := (hC.mem _).mpr (Or.inr (Or.inl rfl))
  have hvt : Catalog.validationTable s1.pool.longRefs ∈ s1.tables := (hC.mem _).mpr (Or.inr (Or.inr hv))
  have hXc : s1.findTable Gen.nameColumns.toList = some (Catalog.columnsTable s1.pool.longRefs) := hC.find _ hct
  have hXt : s1.findTable Gen.nameTables.toList = some (Catalog.tablesTable s1.pool.longRefs) := hC.find _ htt
  have hXv : s1.findTable Gen.nameValidation.toList = some (Catalog.validationTable s1.pool.longRefs) := hC.find _ hvt
  have htabs : t ∈ tabs := by
    rcases (hC.mem t).mp htm with rfl | rfl | h
    · exact absurd htn.symm hnC
    · exact absurd htn.symm hnT
    · exact h
  have hkeyX : ∀ X ∈ s1.tables, X.name ≠ name → key X.streamName ≠ key t.streamName :=
    fun X hX hne => MsiProofs.Frame.other_stream slack s1 hC.inv X t hX htm (fun e => hne (e.symm.trans htn))
  have hsep1 := hC.sep
  unfold dropTail at h
  rw [MsiProofs.DeleteValidation.deleteValidation_some s1 name (by rw [hXv]; rfl)] at h
  -- stage V
  have g2 := MsiProofs.Synced.good_deleteRows s1 hsep1 Gen.nameValidation.toList (eqStr "Table" name)
  have n2 := noOrphans_deleteRows s1 hN Gen.nameValidation.toList (eqStr "Table" name)
  cases hr2 : deleteRows s1 Gen.nameValidation.toList (eqStr "Table" name) with
  | mk s2 res2 =>
  rw [hr2] at h g2 n2
  cases res2 with
  | err k => simp at h
  | panic w => simp at h
  | ok u =>
  cases u
  simp only at h
  obtain ⟨hI2, hS2, ht2, hL2, hrX2, hrows2, hrY2, hc2⟩ := stage_delete slack s1 hC.inv hC.sorted _ _ s2 hr2 _ hXv
  -- stage C
  have hsep2 := g2.sep hsep1
  have g3 := MsiProofs.Synced.good_deleteRows s2 hsep2 Gen.nameColumns.toList (eqStr "Table" name)
  have n3 := noOrphans_deleteRows s2 n2 Gen.nameColumns.toList (eqStr "Table" name)
  cases hr3 : deleteRows s2 Gen.nameColumns.toList (eqStr "Table" name) with
  | mk s3 res3 =>
  rw [hr3] at h g3 n3
  cases res3 with
  | err k => simp at h
  | panic w => simp at h
  | ok u =>
  cases u
  simp only at h
  have hXc2 : s2.findTable Gen.nameColumns.toList = some (Catalog.columnsTable s1.pool.longRefs) := by
    rw [findTable_congr ht2]; exact hXc
  obtain ⟨hI3, hS3, ht3, hL3, hrX3, hrows3, hrY3, hc3⟩ := stage_delete slack s2 hI2 hS2 _ _ s3 hr3 _ hXc2
  -- stage T
  have hsep3 := g3.sep hsep2
  have g4 := MsiProofs.Synced.good_deleteRows s3 hsep3 Gen.nameTables.toList (eqStr "Name" name)
  have n4 := noOrphans_deleteRows s3 n3 Gen.nameTables.toList (eqStr "Name" name)
  cases hr4 : deleteRows s3 Gen.nameTables.toList (eqStr "Name" name) with
  | mk s4 res4 =>
  rw [hr4] at h g4 n4
  cases res4 with
  | err k => simp at h
  | panic w => simp at h
  | ok u =>
  cases u
  simp only at h
  have hT3 : s3.tables = s1.tables := ht3.trans ht2
  have hXt3 : s3.findTable Gen.nameTables.toList = some (Catalog.tablesTable s1.pool.longRefs) := by
    rw [findTable_congr hT3]; exact hXt
  obtain ⟨hI4, hS4, ht4, hL4, hrX4, hrows4, hrY4, hc4⟩ := stage_delete slack s3 hI3 hS3 _ _ s4 hr4 _ hXt3
  have hT4 : s4.tables = s1.tables := ht4.trans hT3
  have hLL : s4.pool.longRefs = s1.pool.longRefs := hL4.trans (hL3.trans hL2)
  have hs5 : s5 = withoutTable s4 name := ((Prod.mk.inj h).1).symm
  subst hs5
  -- the dropped table reads as empty and has no stream, all the way
  have hcatne : ∀ X : Table, isCatalogName X.name = true → X.name ≠ name := by
    intro X hX e
    rw [e] at hX
    simp only [isCatalogName, Bool.or_eq_true, beq_iff_eq] at hX
    rcases hX with (h | h) | h
    · exact hnT h
    · exact hnC h
    · exact hnV h
  have hcn : ∀ L : Bool, isCatalogName (Catalog.columnsTable L).name = true ∧
      isCatalogName (Catalog.tablesTable L).name = true ∧ isCatalogName (Catalog.validationTable L).name = true := by
    intro L; cases L <;> decide
  have htV : t.name ≠ Gen.nameValidation.toList := htn ▸ hnV
  have htC : t.name ≠ Gen.nameColumns.toList := htn ▸ hnC
  have htT : t.name ≠ Gen.nameTables.toList := htn ▸ hnT
  have hl4 : s4.loadRows t = .ok [] := by
    rw [hrows4 t (hT3 ▸ htm) htT, hrows3 t (ht2 ▸ htm) htC, hrows2 t htm htV]; exact hl1
  have hempty4 : dataOf s4.cont t.streamName = none := by
    rw [hc4 _ (hkeyX _ htt (hcatne _ (hcn _).2.1)), hc3 _ (hkeyX _ hct (hcatne _ (hcn _).1)),
      hc2 _ (hkeyX _ hvt (hcatne _ (hcn _).2.2))]
    exact hempty
  have hnd : (s4.tables.map fun (x : Table) => x.name).Nodup := hT4 ▸ hC.names_nodup
  have honly : ∀ x ∈ s4.tables, x.name = name → x = t := by
    intro x hx hxn
    have h1 := find_of_mem_nodup s4.tables hnd x hx
    have h2 := find_of_mem_nodup s4.tables hnd t (hT4 ▸ htm)
    rw [hxn] at h1; rw [htn] at h2
    exact Option.some.inj (h1.symm.trans h2)
  have hI5 : Inv slack (withoutTable s4 name) :=
    inv_remove_table slack s4 hI4 name (fun x hx hxn => (honly x hx hxn) ▸ hl4)
  have hS5 := sorted_remove_table s4 hS4 name
  -- the catalog rows
  have rV0 : Reads s1 (Catalog.validationTable s1.pool.longRefs) (fun v => ∃ t ∈ tabs, v ∈ valRowsOf t) := hC.rows.rowsV
  have rC0 : Reads s1 (Catalog.columnsTable s1.pool.longRefs) (fun v => ∃ t ∈ tabs, v ∈ colRowsOf t) := hC.rows.rowsC
  have rT0 : Reads s1 (Catalog.tablesTable s1.pool.longRefs) (fun v => ∃ t ∈ tabs, v = [Value.str t.name]) := hC.rows.rowsT
  have rV4 := hrY4 _ (hT3 ▸ hvt) (by show Gen.nameValidation.toList ≠ Gen.nameTables.toList; decide) _
    (hrY3 _ (ht2 ▸ hvt) (by show Gen.nameValidation.toList ≠ Gen.nameColumns.toList; decide) _ (hrX2 _ rV0))
  have rC4 := hrY4 _ (hT3 ▸ hct) (by show Gen.nameColumns.toList ≠ Gen.nameTables.toList; decide) _
    (hrX3 _ (hrY2 _ hct (by show Gen.nameColumns.toList ≠ Gen.nameValidation.toList; decide) _ rC0))
  have rT4 := hrX4 _ (hrY3 _ (ht2 ▸ htt) (by show Gen.nameTables.toList ≠ Gen.nameColumns.toList; decide) _
    (hrY2 _ htt (by show Gen.nameTables.toList ≠ Gen.nameValidation.toList; decide) _ rT0))
  have hnewTabs : ∀ x ∈ tabs.filter (·.name != name), x ∈ tabs := fun x hx => (List.mem_filter.mp hx).1
  refine ⟨⟨⟨hI5, hS5, ?_, ?_, ?_, ?_, filter_sorted hC.tsorted _, ?_, ?_, ?_, ?_, ?_, ?_⟩, ?_⟩, ?_⟩
  · exact MsiProofs.Synced.synced_of_effect s1 _ hC.metaSync
      (((g2.effect.trans g3.effect).trans g4.effect).trans ⟨.refl _, .refl _, rfl, rfl⟩)
  · intro x hx
    exact (g4.sep hsep3) x (List.mem_filter.mp hx).1
  · -- Rows
    refine ⟨?_, ?_, ?_⟩
    · obtain ⟨rows, hl, hm⟩ := rT4
      refine ⟨rows, by rw [show (withoutTable s4 name).pool.longRefs = s1.pool.longRefs from hLL]; exact hl, fun v => ((hm v).trans ?_)⟩
      have := filter_rows tabs name (fun t' => [[Value.str t'.name]]) (Catalog.tablesTable s1.pool.longRefs)
        (eqStr "Name" name) (by
          intro t' _ v hv'
          simp only [List.mem_singleton] at hv'
          subst hv'
          rw [firstCol_cond (Catalog.tablesTable s1.pool.longRefs) "Name" _ [] rfl rfl, str_beq]) v
      simpa only [List.mem_singleton] using this
    · obtain ⟨rows, hl, hm⟩ := rC4
      refine ⟨rows, by rw [show (withoutTable s4 name).pool.longRefs = s1.pool.longRefs from hLL]; exact hl, fun v => ((hm v).trans ?_)⟩
      apply filter_rows tabs name colRowsOf
      intro t' _ v hv'
      obtain ⟨e, he, rfl⟩ := (mem_colRowsOf t' v).mp hv'
      have he1 : e.1 = t'.name := by
        unfold entriesOf at he
        obtain ⟨x, -, rfl⟩ := List.mem_map.mp he
        rfl
      rw [firstCol_cond (Catalog.columnsTable s1.pool.longRefs) "Table" _ _ rfl rfl, str_beq, he1]
    · obtain ⟨rows, hl, hm⟩ := rV4
      refine ⟨rows, by rw [show (withoutTable s4 name).pool.longRefs = s1.pool.longRefs from hLL]; exact hl, fun v => ((hm v).trans ?_)⟩
      apply filter_rows tabs name valRowsOf
      intro t' ht' v hv'
      unfold valRowsOf at hv'
      obtain ⟨c, -, rfl⟩ := List.mem_map.mp hv'
      obtain ⟨vs, hvs⟩ := valRow_head t'.name c (hC.namesOk t' ht').1
      rw [hvs, firstCol_cond (Catalog.validationTable s1.pool.longRefs) "Table" _ _ rfl rfl, str_beq]
  · -- the table list
    show s4.tables.filter (·.name != name) = _
    rw [hT4, hC.tables]
    show _ = insertTable (insertTable _ (Catalog.tablesTable s4.pool.longRefs)) (Catalog.columnsTable s4.pool.longRefs)
    rw [hLL]
    have hs1 := insertTable_sorted tabs (Catalog.tablesTable s1.pool.longRefs) hC.tsorted (fun x hx => (hC.notCat x hx).1)
    have ha1 : ∀ x ∈ insertTable tabs (Catalog.tablesTable s1.pool.longRefs), x.name ≠ Gen.nameColumns.toList := by
      intro x hx
      rcases (mem_insertTable tabs _ (fun x hx => (hC.notCat x hx).1) x).mp hx with rfl | hx'
      · show Gen.nameTables.toList ≠ Gen.nameColumns.toList; decide
      · exact (hC.notCat x hx').2
    rw [filter_insertTable _ (Catalog.columnsTable s1.pool.longRefs) name hs1.1 ha1 (fun e => hnC e.symm),
      filter_insertTable tabs (Catalog.tablesTable s1.pool.longRefs) name hC.tsorted (fun x hx => (hC.notCat x hx).1)
        (fun e => hnT e.symm)]
  · exact List.Nodup.sublist (List.Sublist.map _ List.filter_sublist) hC.names
  · intro x hx
    show _ ∧ _ ∧ x.longRefs = s4.pool.longRefs ∧ _
    rw [hLL]; exact hC.ok x (hnewTabs x hx)
  · exact fun x hx => hC.small x (hnewTabs x hx)
  · exact fun x hx => hC.namesOk x (hnewTabs x hx)
  · exact fun x hx => hC.valid x (hnewTabs x hx)
  · exact fun x hx => hC.notCat x (hnewTabs x hx)
  · show Catalog.validationTable s4.pool.longRefs ∈ _
    rw [hLL]
    exact List.mem_filter.mpr ⟨hv, by
      have : (Catalog.validationTable s1.pool.longRefs).name ≠ name := fun e => hnV e.symm
      simpa [bne] using this⟩
  · -- no orphans
    refine ⟨fun x hx => n4.valid x (List.mem_filter.mp hx).1, ?_⟩
    intro n hvn hmn hd
    obtain ⟨x, hx, hxn⟩ := n4.owned n hvn hmn hd
    refine ⟨x, List.mem_filter.mpr ⟨hx, ?_⟩, hxn⟩
    have : x.name ≠ name := by
      intro e
      have hxt := honly x hx e
      subst hxt
      have : StreamName.encode n true = x.streamName := by rw [← hxn]; rfl
      rw [this] at hd
      exact hd hempty4
    simpa [bne] using this


/-- after the release step every invariant still holds for the same definitions -/
theorem core_released (slack : Nat → Nat) (s : Pkg) (tabs : List Table) (hC : Core slack s tabs)
    (hv : Catalog.validationTable s.pool.longRefs ∈ tabs) (hN : NoOrphans s)
    (t : Table) (htm : t ∈ s.tables) (hcat : isCatalogName t.name = false)
    (rows : List (List Cell)) (hl : s.loadRows t = .ok rows) :
    Core slack (released s t rows) tabs ∧ Catalog.validationTable (released s t rows).pool.longRefs ∈ tabs ∧
    NoOrphans (released s t rows) := by
  obtain ⟨hI1, hS1, hk, -⟩ := release_stage slack s hC.inv hC.sorted t htm rows hl
  have hne : ∀ X : Table, isCatalogName X.name = true → X.name ≠ t.name := by
    intro X hX e; rw [e, hcat] at hX; cases hX
  have hcn : ∀ L : Bool, isCatalogName (Catalog.columnsTable L).name = true ∧
      isCatalogName (Catalog.tablesTable L).name = true ∧ isCatalogName (Catalog.validationTable L).name = true := by
    intro L; cases L <;> decide
  have hct : Catalog.columnsTable s.pool.longRefs ∈ s.tables := (hC.mem _).mpr (Or.inl rfl)
  have htt : Catalog.tablesTable s.pool.longRefs ∈ s.tables := (hC.mem _).mpr (Or.inr (Or.inl rfl))
  have hvt : Catalog.validationTable s.pool.longRefs ∈ s.tables := (hC.mem _).mpr (Or.inr (Or.inr hv))
  have hnm : MsiProofs.Synced.NotMeta t.streamName := hC.sep t htm
  have heff : MsiProofs.Synced.Effect s (released s t rows) := by
    refine ⟨?_, MsiProofs.Synced.sameMeta_remove _ _ hnm, rfl, rfl⟩
    have : ∀ (rows : List (List Cell)) (p : Pool), MsiProofs.Synced.PoolStep p (rows.foldl (fun p r => r.foldl Cell.remove p) p) := by
      intro rows
      induction rows with
      | nil => intro p; exact .refl _
      | cons r rs ih => intro p; exact (MsiProofs.Synced.foldl_remove_step r p).trans (ih _)
    exact this rows s.pool
  have e : (released s t rows).pool.longRefs = s.pool.longRefs := hk.long
  refine ⟨⟨hI1, hS1, MsiProofs.Synced.synced_of_effect s _ hC.metaSync heff, hC.sep, ?_, ?_, hC.tsorted, hC.names, ?_,
    hC.small, hC.namesOk, hC.valid, hC.notCat⟩, by rw [e]; exact hv, ?_⟩
  · have rT : Reads s (Catalog.tablesTable s.pool.longRefs) (fun v => ∃ t ∈ tabs, v = [Value.str t.name]) := hC.rows.rowsT
    have rC : Reads s (Catalog.columnsTable s.pool.longRefs) (fun v => ∃ t ∈ tabs, v ∈ colRowsOf t) := hC.rows.rowsC
    have rV : Reads s (Catalog.validationTable s.pool.longRefs) (fun v => ∃ t ∈ tabs, v ∈ valRowsOf t) := hC.rows.rowsV
    refine ⟨?_, ?_, ?_⟩
    · rw [e]; exact reads_kept hk htt (hne _ (hcn _).2.1) rT
    · rw [e]; exact reads_kept hk hct (hne _ (hcn _).1) rC
    · rw [e]; exact reads_kept hk hvt (hne _ (hcn _).2.2) rV
  · show s.tables = _
    rw [e]; exact hC.tables
  · rw [e]; exact hC.ok
  · refine ⟨hN.valid, ?_⟩
    intro n hvn hmn hd
    apply hN.owned n hvn hmn
    by_cases hk' : key t.streamName = key (StreamName.encode n true)
    · exfalso
      apply hd
      show dataOf (Cont.remove s.cont t.streamName) _ = none
      have hname : n = t.name := (MsiProofs.Synced.table_stream_injective t.name n (hN.valid t htm) hvn hk').symm
      subst hname
      exact MsiProofs.StreamsMap.dataOf_remove_same s.cont _
    · have : dataOf (released s t rows).cont (StreamName.encode n true) = dataOf s.cont (StreamName.encode n true) :=
        MsiProofs.Synced.dataOf_remove_other s.cont _ _ hk'
      rw [← this]; exact hd

/-- **`drop_table`, accepted, keeps every invariant** and removes the definition from the catalog
invariant: the three catalog tables hold exactly the rows of the remaining definitions -/
theorem dropTable_full (slack : Nat → Nat) (s : Pkg) (tabs : List Table) (hF : Full slack s tabs) (hN : NoOrphans s)
    (name : List Char) (s5 : Pkg) (h : dropTable s name = (s5, .ok ())) :
    Full slack s5 (tabs.filter (·.name != name)) ∧ NoOrphans s5 := by
  obtain ⟨hC, hv⟩ := hF
  unfold dropTable at h
  by_cases hres : Catalog.isReserved name = true
  · rw [if_pos hres] at h; cases (Prod.mk.inj h).2
  rw [if_neg hres] at h
  by_cases hvn : (!Table.isValidName name) = true
  · rw [if_pos hvn] at h; cases (Prod.mk.inj h).2
  rw [if_neg hvn] at h
  have hres' : Catalog.isReserved name = false := by simpa using hres
  cases hf : s.findTable name with
  | none => simp only [hf] at h; cases (Prod.mk.inj h).2
  | some t =>
    simp only [hf] at h
    have htm := findTable_spec s name t hf
    have htn : t.name = name := findTable_name hf
    have hcat : isCatalogName t.name = false := by
      rw [htn]
      simp only [Catalog.isReserved, Bool.or_eq_false_iff] at hres'
      simp only [isCatalogName, Bool.or_eq_false_iff]
      exact ⟨⟨hres'.1.2, hres'.1.1⟩, hres'.2⟩
    by_cases hex : Cont.exists_ s.cont t.streamName = true
    · rw [if_pos hex] at h
      obtain ⟨rows, hl⟩ := hC.inv.loads t htm
      simp only [hl] at h
      obtain ⟨hC1, hv1, hN1⟩ := core_released slack s tabs hC hv hN t htm hcat rows hl
      obtain ⟨-, -, -, hl1⟩ := release_stage slack s hC.inv hC.sorted t htm rows hl
      exact dropTail_spec slack (released s t rows) tabs hC1 hv1 hN1 name t hf hres' hl1
        (MsiProofs.StreamsMap.dataOf_remove_same s.cont _) s5 h
    · rw [if_neg hex] at h
      simp only at h
      have hnone : Cont.find s.cont t.streamName = none := by
        unfold Cont.exists_ at hex
        cases hfd : Cont.find s.cont t.streamName with
        | none => rfl
        | some e => rw [hfd] at hex; simp at hex
      have hl1 : s.loadRows t = .ok [] := by unfold Pkg.loadRows; rw [hnone]; rfl
      have hempty : dataOf s.cont t.streamName = none := by unfold dataOf; rw [hnone]; rfl
      exact dropTail_spec slack s tabs hC hv hN name t hf hres' hl1 hempty s5 h

end MsiProofs.DropTable
