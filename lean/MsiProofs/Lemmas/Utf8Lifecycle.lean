import MsiProofs.Lemmas.AsciiLifecycle
import MsiProofs.Lemmas.Utf8Codec
/-
The `Savable` hypothesis of the lifecycle theorem, discharged for ANY text under the UTF-8 code
page (the default code page of a package): while the database code page stays UTF-8, every string
is expressible — the model's WHATWG decoder reads every UTF-8 encoding back (`Utf8Codec`) — so the
pool of every reachable state can be written and read back, and packages holding arbitrary Unicode
text reopen as they were.  (The only bound is the format's: an encoded string is shorter than
4 GiB.)
-/
namespace MsiProofs.Utf8Lifecycle
open MsiModel MsiModel.Bytes MsiModel.Pkg MsiProofs.PoolText MsiProofs.Lifecycle MsiProofs.SaveOpen
open MsiProofs.CreateTable MsiProofs.FullHistory MsiProofs.Created MsiProofs.CatalogSync MsiProofs.AsciiLifecycle
open MsiProofs.Utf8Codec MsiProofs.PoolCodec

/-- the code page is UTF-8 -/
def IsUtf8 (cp : Nat) : Prop := some cp = Codec.utf8Name

def utf8Bytes (s : List Char) : Bytes := s.flatMap String.utf8EncodeChar

/-- text whose UTF-8 encoding is shorter than 4 GiB (what a pool entry's length field holds) -/
def Utf8Short (s : List Char) : Prop := (utf8Bytes s).length < 4294967296

theorem utf8Short_nil : Utf8Short [] := by simp [Utf8Short, utf8Bytes]

theorem utf8_supported (cp : Nat) (h : IsUtf8 cp) : cp < Gen.cpVariants.length := by
  unfold IsUtf8 Codec.utf8Name at h
  have : Gen.cpVariants.idxOf? "Utf8" = some cp := h.symm
  exact (List.idxOf?_eq_some_iff.mp this).1

theorem length_le_utf8 (s : List Char) : s.length ≤ (utf8Bytes s).length := by
  induction s with
  | nil => simp [utf8Bytes]
  | cons c cs ih =>
    simp only [utf8Bytes, List.flatMap_cons, List.length_append, List.length_cons, String.length_utf8EncodeChar] at ih ⊢
    have := Char.utf8Size_pos c
    omega

/-- **every text round-trips under the UTF-8 code page** -/
theorem utf8_roundtrip (cp : Nat) (h : IsUtf8 cp) (s : List Char) :
    Codec.encode cp s = some (utf8Bytes s) ∧ Codec.decode cp (utf8Bytes s) = some s := by
  unfold IsUtf8 at h
  unfold Codec.encode Codec.decode
  simp only [h, if_true]
  refine ⟨rfl, ?_⟩
  have := lossy_roundtrip s ((utf8Bytes s).length + 1) [] (by have := length_le_utf8 s; omega)
  simp only [List.reverse_nil, List.nil_append] at this
  unfold utf8Bytes at this ⊢
  rw [this]

/-- a pool of any texts is expressible under UTF-8 as soon as no live entry is the empty string and
counts and encoded lengths fit their fields -/
theorem poolOk_utf8 (p : Pool) (h : PT IsUtf8 Utf8Short p) : PoolOk p utf8Bytes where
  cp := utf8_supported p.codepage h.1
  enc := fun e _ => (utf8_roundtrip p.codepage h.1 e.1).1
  dec := fun e _ => (utf8_roundtrip p.codepage h.1 e.1).2
  fits := fun e he => by
    obtain ⟨h1, h2, h3⟩ := h.2 e he
    refine ⟨h1, h2, ?_⟩
    intro h0
    have := length_le_utf8 e.1
    exact h3 (List.eq_nil_of_length_eq_zero (by omega))

/-- ASCII text is short UTF-8 text -/
theorem utf8Short_of_ascii (s : List Char) (h : AsciiShort s) : Utf8Short s := by
  unfold Utf8Short utf8Bytes
  have : (s.flatMap String.utf8EncodeChar) = s.map (fun c => UInt8.ofNat c.toNat) := by
    have hh := h.1
    clear h
    induction s with
    | nil => rfl
    | cons c cs ih =>
      simp only [List.flatMap_cons, List.map_cons]
      rw [MsiProofs.AsciiCodec.utf8_ascii_char c (hh c (by simp)), ih (fun d hd => hh d (by simp [hd]))]
      rfl
  rw [this, List.length_map]
  exact h.2

theorem rowsA_utf8_of_ascii (rows : List (List Value)) (h : RowsA AsciiShort rows) : RowsA Utf8Short rows := by
  intro r hr v hv
  have := h r hr v hv
  cases v with
  | null => trivial
  | int n => trivial
  | str st => exact utf8Short_of_ascii st this

/-- the calls covered: any texts (short when encoded), the code page stays UTF-8, and `Savable` at
a save is reduced to the summary's well-formedness -/
def StepOkU (s : Pkg) (st : Step) : Prop :=
  StepA IsUtf8 Utf8Short st ∧
  match st with
  | .save => (flush s).2 = .ok () ∧ MsiProofs.PropSetCodec.WF s.summary ∧ s.summary.fmtid = Gen.summaryFmtid
  | st => st.Admissible s

def AdmissibleU : Pkg → List Step → Prop
  | _, [] => True
  | s, st :: rest => StepOkU s st ∧ AdmissibleU (st.run s) rest

theorem admissible_of_stepOkU (s : Pkg) (st : Step) (h : StepOkU s st) (hp : PT IsUtf8 Utf8Short s.pool) :
    st.Admissible s := by
  obtain ⟨-, h2⟩ := h
  cases st with
  | save => exact ⟨h2.1, _, ⟨h2.2.1, h2.2.2, poolOk_utf8 s.pool hp⟩⟩
  | dml op => exact h2
  | create n c => exact h2
  | drop n => exact h2
  | writeStream n d => exact h2
  | removeStream n => exact h2
  | removeSignature => exact h2
  | setSummary f => exact h2
  | setCodepage cp => exact h2
  | reopen => exact h2

/-- **every reachable state keeps every invariant and a pool fit to be written under UTF-8** -/
theorem historyU (slack : Nat → Nat) (steps : List Step) : ∀ (s : Pkg) (tabs : List Table),
    Full slack s tabs → NoOrphans s → PT IsUtf8 Utf8Short s.pool → AdmissibleU s steps →
    Admissible s steps ∧ PT IsUtf8 Utf8Short (runAll s steps).pool ∧
    ∃ tabs', Full slack (runAll s steps) tabs' ∧ NoOrphans (runAll s steps) := by
  induction steps with
  | nil => intro s tabs hF hN hp _; exact ⟨trivial, hp, tabs, hF, hN⟩
  | cons st rest ih =>
    intro s tabs hF hN hp ha
    have hadm := admissible_of_stepOkU s st ha.1 hp
    obtain ⟨tabs', hF', hN'⟩ := step_full slack s tabs hF hN st hadm
    have hp' := step_pt IsUtf8 Utf8Short utf8Short_nil slack s tabs hF st hadm ha.1.1 hp
    obtain ⟨h1, h2, h3⟩ := ih _ tabs' hF' hN' hp' ha.2
    exact ⟨⟨hadm, h1⟩, h2, h3⟩

/-- the pool of the state `create` builds under UTF-8 is fit to be written -/
theorem created_ptU (ptype : Nat) (summary : PropSet) (hcp : IsUtf8 summary.codepage) (s0 : Pkg)
    (hc : createTable (base ptype summary) Gen.nameValidation.toList Catalog.validationColumns = (s0, .ok ())) :
    PT IsUtf8 Utf8Short s0.pool := by
  have hb : PT IsUtf8 Utf8Short (base ptype summary).pool := ⟨hcp, fun e he => by cases he⟩
  have := createTable_pt IsUtf8 Utf8Short (base ptype summary) Gen.nameValidation.toList Catalog.validationColumns
    (rowsA_utf8_of_ascii _ validation_rows_ascii.1) (rowsA_utf8_of_ascii _ validation_rows_ascii.2.1)
    (rowsA_utf8_of_ascii _ validation_rows_ascii.2.2) hb
  rw [hc] at this; exact this

/-- **packages holding any Unicode text under the UTF-8 code page reopen as they were, with no
assumption on the pool**: from the state `create` builds with a UTF-8 summary, after any sequence
of calls (statements, create_table, drop_table, streams, signature, summary, saves,
close-and-reopen; `set_database_codepage` only to UTF-8) with arbitrary texts, a successful save
of a state whose summary is well-formed can be reopened, and the reopened package has the same
container, summary, string pool, table definitions and rows -/
theorem created_utf8_reopens (ptype : Nat) (summary : PropSet) (hcp : IsUtf8 summary.codepage)
    (s0 : Pkg)
    (hc : createTable (base ptype summary) Gen.nameValidation.toList Catalog.validationColumns = (s0, .ok ()))
    (steps : List Step) (ha : AdmissibleU s0 steps)
    (hwf : MsiProofs.PropSetCodec.WF (runAll s0 steps).summary) (hfmt : (runAll s0 steps).summary.fmtid = Gen.summaryFmtid)
    (s1 : Pkg) (hf : finish (runAll s0 steps) = (s1, .ok ())) :
    ∃ s2, open_ (some s1.ptype) s1.cont = .ok s2 ∧
      s2.cont = s1.cont ∧ s2.summary = s1.summary ∧ s2.pool = s1.pool ∧ s2.tables = s1.tables ∧
      (∀ t, s2.loadRows t = s1.loadRows t) := by
  obtain ⟨hF0, hN0⟩ := created_full ptype summary s0 hc
  obtain ⟨hadm, hp, -⟩ := historyU _ steps s0 _ hF0 hN0 (created_ptU ptype summary hcp s0 hc) ha
  exact created_reopens ptype summary s0 hc steps hadm _ ⟨hwf, hfmt, poolOk_utf8 _ hp⟩ s1 hf

end MsiProofs.Utf8Lifecycle
