import MsiProofs.Lemmas.Gate
import MsiProofs.Lemmas.SelectView
import MsiProofs.Lemmas.GlobalInvUpd
/-
The gate of `Update::exec` (properties C07, C03, C04): in every state with the package invariant,
what an update replies is decided by the relational view alone: refused exactly when an
assignment names an unknown column or assigns a value not valid for its column, the condition
names an unknown column, or — when a key column is assigned — two rows would end up with the same
key (`AlreadyExists`); otherwise accepted (or the string pool's capacity panic, the recorded
finding D16b).  No other failure exists.
-/
namespace MsiProofs.UpdateGate
open MsiModel MsiModel.Bytes MsiModel.Pkg MsiProofs.GlobalInv MsiProofs.SortedInv MsiProofs.Frame
open MsiProofs.Refine MsiProofs.Relational MsiProofs.SaveOpen MsiProofs.Order MsiProofs.RowsOk
open MsiProofs.RefineUpdate MsiProofs.SortUpd MsiProofs.Gate MsiProofs.C03 MsiProofs.SelectView

/-- **what an update replies, read off the relational view** (`none` = accepted) -/
def updGate (t : Table) (shown : List (List Value)) (updates : List (List Char × Value)) (cond : Option Ast) :
    Option ErrKind :=
  match validateUpdates t updates with
  | some k => some k
  | none =>
    if condMissing t cond then some .invalidInput else
    if touchesKeys t (upsOf t updates) &&
        !decide (((shown.map (updRow t cond (upsOf t updates))).map (keyV t)).Nodup) then some .alreadyExists
    else none

theorem range_map_getD {α} (l : List α) (d : α) : (List.range l.length).map (fun i => l.getD i d) = l := by
  apply List.ext_getElem
  · simp
  · intro i h1 h2
    simp only [List.length_map, List.length_range] at h1
    simp [h1]

/-- neighbours in a list whose images are pairwise different have different images -/
theorem adjacent_ne {α β} (f : α → β) : ∀ (l : List α), (l.map f).Nodup → ∀ x ∈ l.zip (l.drop 1), f x.1 ≠ f x.2
  | [], _, x, hx => by simp at hx
  | [_], _, x, hx => by simp at hx
  | a :: b :: rest, hn, x, hx => by
    simp only [List.drop_succ_cons, List.drop_zero, List.zip_cons_cons, List.mem_cons] at hx
    simp only [List.map_cons, List.nodup_cons, List.mem_cons, List.mem_map, not_or] at hn
    rcases hx with rfl | hx
    · exact fun e => hn.1.1 e
    · exact adjacent_ne f (b :: rest) (by simp only [List.map_cons, List.nodup_cons, List.mem_map]; exact hn.2) x
        (by simpa using hx)

/-- **the duplicate check of `Update::exec`**: after sorting the row indices by key, two
neighbours share a key exactly when the keys are not pairwise different -/
theorem dup_flag_iff (keys : List (List Value)) :
    ((sortByKey keys (List.range keys.length)).zip ((sortByKey keys (List.range keys.length)).drop 1)).any (fun x =>
      !keyLt (keys.getD x.1 []) (keys.getD x.2 []) && !keyLt (keys.getD x.2 []) (keys.getD x.1 [])) = false ↔
    keys.Nodup := by
  have hperm := MsiProofs.C05.sortByKey_perm keys (List.range keys.length)
  have hsorted := sortByKey_sorted keys (List.range keys.length)
  have hmap : ((sortByKey keys (List.range keys.length)).map fun i => keys.getD i []).Perm keys := by
    have := hperm.map (fun i => keys.getD i [])
    rw [range_map_getD] at this
    exact this
  constructor
  · intro h
    have hs := strict_of_sorted_nodup keys _ hsorted h
    have hn : ((sortByKey keys (List.range keys.length)).map fun i => keys.getD i []).Nodup := by
      rw [List.Nodup, List.pairwise_map]
      exact hs.imp fun hab e => by rw [e, keyLt_irrefl] at hab; cases hab
    exact hmap.nodup_iff.mp hn
  · intro hn
    have hn' := hmap.nodup_iff.mpr hn
    rw [List.any_eq_false]
    intro x hx
    have hne := adjacent_ne (fun i => keys.getD i []) _ hn' x hx
    intro hc
    have := (key_eq_iff (keys.getD x.1 []) (keys.getD x.2 [])).mp hc
    exact hne this.symm

/-- releasing and interning never return an error -/
theorem cellsUpd_no_err : ∀ (us : List (Nat × Value)) (p : Pool) (cells : List Cell) (k : ErrKind),
    cellsUpd p cells us ≠ .err k := by
  intro us
  induction us with
  | nil => intro p cells k h; cases h
  | cons u rest ih =>
    intro p cells k
    obtain ⟨i, v⟩ := u
    simp only [cellsUpd, bind, Res.bind]
    cases hc : Cell.create (Cell.remove p (cells.getD i .null)) v with
    | ok x => exact ih _ _ k
    | err e => exact absurd hc (create_no_err _ v e)
    | panic w => intro h; cases h

theorem updApply_no_err (ups : List (Nat × Value)) : ∀ (rows : List (List Cell)) (p : Pool)
    (pl : List (List Value × Bool)) (acc : List (List Cell)) (k : ErrKind), updApply ups p rows pl acc ≠ .err k := by
  intro rows
  induction rows with
  | nil => intro p pl acc k h; cases h
  | cons r rs ih =>
    intro p pl acc k
    cases pl with
    | nil => intro h; cases h
    | cons e pl' =>
      obtain ⟨vs, m⟩ := e
      cases m with
      | false => simp only [updApply, Bool.false_eq_true, if_false]; exact ih _ _ _ k
      | true =>
        simp only [updApply, if_true, bind, Res.bind]
        cases hc : cellsUpd p r ups with
        | ok x => exact ih _ _ _ k
        | err e => exact absurd hc (cellsUpd_no_err ups p r e)
        | panic w => intro h; cases h


theorem updApply_length (ups : List (Nat × Value)) : ∀ (rs : List (List Cell)) (p : Pool) (pl : List (List Value × Bool))
    (acc : List (List Cell)) (p' : Pool) (out : List (List Cell)), updApply ups p rs pl acc = .ok (p', out) →
    out.length = acc.length + rs.length := by
  intro rs
  induction rs with
  | nil =>
    intro p pl acc p' out h
    simp only [updApply, pure, Res.ok.injEq, Prod.mk.injEq] at h
    rw [← h.2]; simp
  | cons r rs ih =>
    intro p pl acc p' out h
    cases pl with
    | nil =>
      simp only [updApply, pure, Res.ok.injEq, Prod.mk.injEq] at h
      rw [← h.2]; simp <;> omega
    | cons e pl' =>
      obtain ⟨vs, m⟩ := e
      cases m with
      | false =>
        simp only [updApply, Bool.false_eq_true, if_false] at h
        rw [ih _ _ _ _ _ h]; simp; omega
      | true =>
        simp only [updApply, if_true, bind, Res.bind] at h
        cases hc : cellsUpd p r ups with
        | ok y =>
          obtain ⟨p1, c1⟩ := y
          simp only [hc] at h
          rw [ih _ _ _ _ _ h]; simp; omega
        | err e => simp [hc] at h
        | panic w => simp [hc] at h

/-- once the new cells exist, writing the table back cannot fail: the rows fit their columns -/
theorem storeRows_upd_ok (s : Pkg) (t : Table) (ups : List (Nat × Value)) (hus : UpsOk t.columns ups)
    (rows : List (List Cell)) (hrows : ∀ r ∈ rows, RowOk t.longRefs t.columns r)
    (hlen : rows.length ≤ Gen.maxTableRows)
    (hs : PoolSized s.pool) (hlr : s.pool.longRefs = t.longRefs) (hpos : 0 < t.rowSize)
    (planned : List (List Value × Bool)) (order : List Nat) (hord : order.Perm (List.range rows.length))
    (pool' : Pool) (rows' : List (List Cell)) (hu : updApply ups s.pool rows planned [] = .ok (pool', rows')) :
    (storeRows { s with pool := pool' } t (order.map fun i => rows'.getD i [])).2 = .ok () := by
  obtain ⟨hr1, -, -⟩ := updApply_rowOk t.columns ups hus rows s.pool planned [] pool' rows' hs
    (by rw [hlr]; exact hrows) (fun _ hx => by simp at hx) hu
  rw [hlr] at hr1
  have hlen' : rows'.length = rows.length := by
    simpa using updApply_length ups rows s.pool planned [] pool' rows' hu
  have hfperm := map_getD_perm rows' order (by rw [hlen']; exact hord)
  apply storeRows_ok_of_rowOk
  · intro r hr
    exact hr1 r (hfperm.mem_iff.mp hr)
  · exact hpos
  · rw [hfperm.length_eq, hlen']; exact hlen

/-- the keys `Update::exec` compares are the keys of the rows the relational model computes -/
theorem plan_keys (t : Table) (p : Pool) (cond : Option Ast) (ups : List (Nat × Value)) (rows : List (List Cell))
    (planned : List (List Value × Bool)) (h : updPlan t p cond ups rows [] = .ok planned) :
    planned.map (fun x => keyOf t.keyIndices x.1) =
      ((rows.map (rowValues p)).map (updRow t cond ups)).map (keyV t) := by
  obtain ⟨tail, h1, h2⟩ := updPlan_view t p cond ups rows [] planned h
  obtain ⟨tail', h1', -, h3⟩ := updPlan_applyPlan t p cond ups rows [] planned h
  simp only [List.reverse_nil, List.nil_append] at h1 h1'
  subst h1
  subst h1'
  rw [← h2, h3, List.map_map]
  rfl

/-- **the reply of `Update::exec` is the gate's verdict on the relational view** -/
theorem update_reply (slack : Nat → Nat) (s : Pkg) (hI : Inv slack s) (tname : List Char)
    (updates : List (List Char × Value)) (cond : Option Ast) (t : Table) (ht : s.findTable tname = some t) :
    match updGate t (tableView s t) updates cond with
    | some k => (updateExec s tname updates cond).2 = .err k
    | none => (updateExec s tname updates cond).2 = .ok () ∨ ∃ w, (updateExec s tname updates cond).2 = .panic w := by
  have htm := findTable_spec s tname t ht
  obtain ⟨rows, hl⟩ := hI.loads t htm
  obtain ⟨hlr, hrs⟩ := hI.widths t htm
  rw [tableView_ok hl]
  unfold updGate updateExec
  simp only [ht]
  cases hv : validateUpdates t updates with
  | some k => simp only
  | none =>
    simp only
    by_cases hm : condMissing t cond = true
    · simp only [hm, if_true]
    have hmf : condMissing t cond = false := by simpa using hm
    simp only [hmf, Bool.false_eq_true, if_false, hl]
    -- the plan exists
    have hw := MsiProofs.C09.loadRows_width s t rows hl
    have htot : ∀ r ∈ rows, ∃ b, condVal t s.pool cond r = some b :=
      fun r hr => MsiProofs.SelectTree.condVal_total t s.pool cond hmf r (hw r hr)
    have hplan := updPlan_spec t s.pool cond (upsOf t updates) rows [] htot
    simp only [List.reverse_nil, List.nil_append] at hplan
    have hups : (List.filterMap (fun x => Option.map (fun i => (i, storable x.snd)) (t.indexOfColumn x.fst)) updates) =
        upsOf t updates := rfl
    rw [hups, hplan]
    simp only
    generalize hpl : (rows.map fun r =>
      let m := condVal t s.pool cond r == some true
      (if m = true then List.foldl (fun vs (iv : Nat × Value) => vs.set iv.1 iv.2) (rowValues s.pool r) (upsOf t updates)
        else rowValues s.pool r, m)) = planned at hplan ⊢
    have hkeys := plan_keys t s.pool cond (upsOf t updates) rows planned hplan
    have hlenp : planned.length = rows.length := by rw [← hpl]; simp
    have hklen : (planned.map fun x => keyOf t.keyIndices x.1).length = rows.length := by simp [hlenp]
    -- the duplicate flag
    have hflag := dup_flag_iff (planned.map fun x => keyOf t.keyIndices x.1)
    rw [hklen] at hflag
    have htk : (List.any (upsOf t updates) fun x => t.keyIndices.contains x.1) = touchesKeys t (upsOf t updates) := rfl
    by_cases hk : touchesKeys t (upsOf t updates) = true
    · simp only [htk, hk, if_true, Bool.true_and]
      by_cases hnd : (((rows.map (rowValues s.pool)).map (updRow t cond (upsOf t updates))).map (keyV t)).Nodup
      · -- no duplicate: accepted or the capacity panic
        have hf := hflag.mpr (by rw [hkeys]; exact hnd)
        simp only [hnd, decide_true, Bool.not_true, Bool.false_eq_true, if_false]
        rw [hf]
        simp only [Bool.false_eq_true, if_false]
        cases hu : updApply (upsOf t updates) s.pool rows planned [] with
        | err e => exact absurd hu (updApply_no_err _ rows s.pool planned [] e)
        | panic w => exact Or.inr ⟨w, rfl⟩
        | ok x =>
          obtain ⟨pool', rows'⟩ := x
          left
          exact storeRows_upd_ok s t (upsOf t updates) (upsOf_ok t updates hv).1 rows
            (MsiProofs.RefineLoad.loadRows_rowOk s t rows hl) (MsiProofs.RefineLoad.loadRows_length s t rows hl)
            hI.sized hlr hrs planned _ (MsiProofs.C05.sortByKey_perm _ _) pool' rows' hu
      · have hf : ¬ ((sortByKey (planned.map fun x => keyOf t.keyIndices x.1) (List.range rows.length)).zip
            ((sortByKey (planned.map fun x => keyOf t.keyIndices x.1) (List.range rows.length)).drop 1)).any (fun x =>
            !keyLt ((planned.map fun x => keyOf t.keyIndices x.1).getD x.1 [])
                ((planned.map fun x => keyOf t.keyIndices x.1).getD x.2 []) &&
              !keyLt ((planned.map fun x => keyOf t.keyIndices x.1).getD x.2 [])
                ((planned.map fun x => keyOf t.keyIndices x.1).getD x.1 [])) = false := by
          intro hc
          exact hnd (by rw [← hkeys]; exact hflag.mp hc)
        have hf' := (Bool.not_eq_false _).mp hf
        simp only [hnd, decide_false, Bool.not_false, if_true]
        rw [hf']
        simp only [if_true]
    · have hkf : touchesKeys t (upsOf t updates) = false := by simpa using hk
      simp only [htk, hkf, Bool.false_and, Bool.false_eq_true, if_false]
      cases hu : updApply (upsOf t updates) s.pool rows planned [] with
      | err e => exact absurd hu (updApply_no_err _ rows s.pool planned [] e)
      | panic w => exact Or.inr ⟨w, rfl⟩
      | ok x =>
        obtain ⟨pool', rows'⟩ := x
        left
        exact storeRows_upd_ok s t (upsOf t updates) (upsOf_ok t updates hv).1 rows
          (MsiProofs.RefineLoad.loadRows_rowOk s t rows hl) (MsiProofs.RefineLoad.loadRows_length s t rows hl)
          hI.sized hlr hrs planned _ (List.Perm.refl _) pool' rows' hu

end MsiProofs.UpdateGate
