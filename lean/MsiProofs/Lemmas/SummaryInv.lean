import MsiProofs.Lemmas.Utf8Lifecycle
import MsiProofs.Props.C18
/-
The summary information stays expressible (properties C01, C10): under the UTF-8 code page, the
property set built by `Package::create` and changed by the setters and clearers of
`summary_info_mut()` — title, subject, author, comments, creating application, UUID, word count,
creation time; strings of less than 128 MiB — is always a well-formed property set (`WF`): ids
ascending, values in range and encodable, the cached code page consistent with property 1, the
section size below 4 GiB.  So the last hypothesis of the whole-life theorem is discharged.
-/
namespace MsiProofs.SummaryInv
open MsiModel MsiModel.Bytes MsiProofs.PropSetCodec MsiProofs.Utf8Lifecycle

/-- the largest encoded string a summary property may hold here (128 MiB) -/
def bound : Nat := 134217728

/-- values small enough that twenty of them fit a section -/
def ValSmall : PropVal → Prop
  | .lpstr s => (utf8Bytes s).length < bound
  | .i1 n => -128 ≤ n ∧ n ≤ 127
  | .i2 n => -32768 ≤ n ∧ n ≤ 32767
  | .i4 n => -2147483648 ≤ n ∧ n ≤ 2147483647
  | .fileTime t => t < 18446744073709551616
  | _ => True

structure SumInv (p : PropSet) : Prop where
  cp : IsUtf8 p.codepage
  os : p.os ≤ 2
  osVersion : p.osVersion < 65536
  clsid : p.clsid.length = 16
  fmtid : p.fmtid = Gen.summaryFmtid
  asc : (p.props.map (·.1)).Pairwise (· < ·)
  ids : ∀ kv ∈ p.props, kv.1 < 20
  vals : ∀ kv ∈ p.props, ValSmall kv.2
  cpc : CpConsistent p.props p.codepage

theorem valOk_of_small (cp : Nat) (hcp : IsUtf8 cp) (v : PropVal) (h : ValSmall v) : ValOk cp v := by
  cases v with
  | lpstr s =>
    obtain ⟨h1, h2⟩ := utf8_roundtrip cp hcp s
    exact ⟨utf8Bytes s, h1, h2, by unfold ValSmall bound at h; omega⟩
  | empty => trivial
  | null => trivial
  | i1 n => exact h
  | i2 n => exact h
  | i4 n => exact h
  | fileTime t => exact h

/-- what a small value is written as is short -/
theorem written_small (cp : Nat) (hcp : IsUtf8 cp) (v : PropVal) (h : ValSmall v) (b : Bytes)
    (hw : v.write cp = .ok b) : b.length ≤ bound + 12 := by
  cases v with
  | lpstr s =>
    simp only [PropVal.write, (utf8_roundtrip cp hcp s).1] at hw
    cases hw
    simp only [List.length_append, C10len.u32, List.length_cons, List.length_nil, List.length_replicate]
    unfold ValSmall at h
    omega
  | empty => cases hw; simp [bound, u32le]
  | null => cases hw; simp [bound, u32le]
  | i1 n => cases hw; simp [bound, u32le, u16le]
  | i2 n => cases hw; simp [bound, u32le, u16le]
  | i4 n => cases hw; simp [bound, u32le]
  | fileTime t => cases hw; simp [bound, u32le, u64le]

theorem total_small (cp : Nat) (hcp : IsUtf8 cp) : ∀ (props : List (Nat × PropVal)) (vbs : List Bytes),
    (∀ kv ∈ props, ValSmall kv.2) → Written cp props vbs → total vbs ≤ props.length * (bound + 12) := by
  intro props vbs hv hw
  induction hw with
  | nil => simp [total]
  | @cons k v b rest bs hb _ ih =>
    have h1 := written_small cp hcp v (hv (k, v) (by simp)) b hb
    have h2 := ih (fun x hx => hv x (by simp [hx]))
    simp only [total, List.length_cons]
    rw [Nat.add_mul]
    omega

/-- strictly ascending numbers below `n` are at most `n` many -/
theorem length_le_of_asc : ∀ (l : List Nat) (n : Nat), l.Pairwise (· < ·) → (∀ x ∈ l, x < n) → l.length ≤ n
  | [], _, _, _ => by simp
  | a :: rest, n, hp, hb => by
    obtain ⟨h1, h2⟩ := List.pairwise_cons.mp hp
    cases n with
    | zero => exact absurd (hb a (by simp)) (by omega)
    | succ m =>
      -- drop the head: the rest is ascending and lies in (a, m], i.e. shift down by one
      have := length_le_of_asc (rest.map (· - 1)) m (by
        rw [List.pairwise_map]
        refine h2.imp_of_mem ?_
        intro x y hx hy hxy
        have := h1 x hx; have := h1 y hy
        omega) (by
        intro x hx
        obtain ⟨y, hy, rfl⟩ := List.mem_map.mp hx
        have := hb y (by simp [hy]); have := h1 y hy
        omega)
      simp only [List.length_map] at this
      simp only [List.length_cons]
      omega

/-- **the invariant gives what a save needs** -/
theorem sumInv_wf (p : PropSet) (h : SumInv p) : WF p ∧ p.fmtid = Gen.summaryFmtid := by
  have hlen : p.props.length ≤ 20 := by
    have := length_le_of_asc (p.props.map (·.1)) 20 h.asc (by
      intro x hx
      obtain ⟨kv, hkv, rfl⟩ := List.mem_map.mp hx
      exact h.ids kv hkv)
    simpa using this
  refine ⟨⟨h.os, h.osVersion, h.clsid, by rw [h.fmtid]; rfl, h.asc, ?_, ?_, h.cpc, ?_⟩, h.fmtid⟩
  · intro kv hkv; have := h.ids kv hkv; omega
  · intro kv hkv; exact valOk_of_small p.codepage h.cp kv.2 (h.vals kv hkv)
  · intro vbs hw
    have := total_small p.codepage h.cp p.props vbs h.vals hw
    have hb : p.props.length * (bound + 12) ≤ 20 * (bound + 12) := Nat.mul_le_mul_right _ hlen
    unfold bound at *
    omega

/-! ### the setters and clearers keep it -/

theorem insertSorted_mem (id : Nat) (v : PropVal) : ∀ (l : List (Nat × PropVal)) (kv : Nat × PropVal),
    kv ∈ PropSet.insertSorted id v l → kv = (id, v) ∨ kv ∈ l := by
  intro l
  induction l with
  | nil => intro kv h; simp only [PropSet.insertSorted, List.mem_singleton] at h; exact Or.inl h
  | cons x rest ih =>
    intro kv h
    obtain ⟨k, w⟩ := x
    simp only [PropSet.insertSorted] at h
    split at h
    · simp only [List.mem_cons] at h ⊢
      rcases h with h | h | h
      · exact Or.inl h
      · exact Or.inr (Or.inl h)
      · exact Or.inr (Or.inr h)
    · split at h
      · simp only [List.mem_cons] at h ⊢
        rcases h with h | h
        · exact Or.inl h
        · exact Or.inr (Or.inr h)
      · simp only [List.mem_cons] at h ⊢
        rcases h with h | h
        · exact Or.inr (Or.inl h)
        · rcases ih kv h with h | h
          · exact Or.inl h
          · exact Or.inr (Or.inr h)

theorem insertSorted_asc (id : Nat) (v : PropVal) : ∀ (l : List (Nat × PropVal)),
    (l.map (·.1)).Pairwise (· < ·) → ((PropSet.insertSorted id v l).map (·.1)).Pairwise (· < ·) := by
  intro l
  induction l with
  | nil => intro _; simp [PropSet.insertSorted]
  | cons x rest ih =>
    intro h
    obtain ⟨k, w⟩ := x
    simp only [List.map_cons, List.pairwise_cons] at h
    simp only [PropSet.insertSorted]
    split
    · rename_i hlt
      simp only [List.map_cons, List.pairwise_cons, List.mem_cons, forall_eq_or_imp]
      refine ⟨⟨hlt, fun a ha => by have := h.1 a ha; omega⟩, h.1, h.2⟩
    · split
      · rename_i _ heq
        subst heq
        simp only [List.map_cons, List.pairwise_cons]
        exact ⟨h.1, h.2⟩
      · rename_i hn1 hn2
        simp only [List.map_cons, List.pairwise_cons]
        refine ⟨?_, ih h.2⟩
        intro a ha
        obtain ⟨kv, hkv, rfl⟩ := List.mem_map.mp ha
        rcases insertSorted_mem id v rest kv hkv with rfl | hm
        · simp only; omega
        · exact h.1 _ (List.mem_map.mpr ⟨kv, hm, rfl⟩)

theorem find_insertSorted_other (id : Nat) (v : PropVal) (j : Nat) (hne : id ≠ j) : ∀ (l : List (Nat × PropVal)),
    (PropSet.insertSorted id v l).find? (fun kv => kv.1 == j) = l.find? (fun kv => kv.1 == j) := by
  intro l
  induction l with
  | nil => simp [PropSet.insertSorted, hne]
  | cons x rest ih =>
    obtain ⟨k, w⟩ := x
    simp only [PropSet.insertSorted]
    split
    · simp [List.find?_cons, hne]
    · split
      · rename_i _ heq
        subst heq
        simp [List.find?_cons, hne]
      · simp only [List.find?_cons]
        rw [ih]

theorem find_filter_other (id j : Nat) (hne : id ≠ j) : ∀ (l : List (Nat × PropVal)),
    (l.filter (·.1 != id)).find? (fun kv => kv.1 == j) = l.find? (fun kv => kv.1 == j) := by
  intro l
  induction l with
  | nil => rfl
  | cons x rest ih =>
    simp only [List.filter_cons]
    by_cases hx : x.1 = id
    · have h1 : (x.1 != id) = false := by simp [hx]
      have h2 : (x.1 == j) = false := by simp [hx, hne]
      simp only [h1, Bool.false_eq_true, if_false, List.find?_cons, h2]
      exact ih
    · have h1 : (x.1 != id) = true := by simp [hx]
      simp only [h1, if_true, List.find?_cons]
      rw [ih]

/-- **a setter keeps the summary expressible** (any property other than the code page) -/
theorem sumInv_set (p : PropSet) (h : SumInv p) (id : Nat) (v : PropVal) (hid : id ≠ Gen.propCodepage)
    (hlt : id < 20) (hv : ValSmall v) : SumInv (p.set id v) := by
  have hcp : (p.set id v).codepage = p.codepage := by
    unfold PropSet.set; simp [hid]
  have hprops : (p.set id v).props = PropSet.insertSorted id v p.props := rfl
  refine ⟨by rw [hcp]; exact h.cp, h.os, h.osVersion, h.clsid, h.fmtid, ?_, ?_, ?_, ?_⟩
  · rw [hprops]; exact insertSorted_asc id v p.props h.asc
  · intro kv hkv
    rw [hprops] at hkv
    rcases insertSorted_mem id v p.props kv hkv with rfl | hm
    · exact hlt
    · exact h.ids kv hm
  · intro kv hkv
    rw [hprops] at hkv
    rcases insertSorted_mem id v p.props kv hkv with rfl | hm
    · exact hv
    · exact h.vals kv hm
  · unfold CpConsistent
    rw [hcp, hprops, find_insertSorted_other id v Gen.propCodepage hid]
    exact h.cpc

/-- **a clearer keeps the summary expressible** -/
theorem sumInv_remove (p : PropSet) (h : SumInv p) (id : Nat) (hid : id ≠ Gen.propCodepage) :
    SumInv (p.remove id) := by
  have hprops : (p.remove id).props = p.props.filter (·.1 != id) := rfl
  refine ⟨h.cp, h.os, h.osVersion, h.clsid, h.fmtid, ?_, ?_, ?_, ?_⟩
  · rw [hprops]
    exact h.asc.sublist ((List.filter_sublist).map _)
  · intro kv hkv; rw [hprops] at hkv; exact h.ids kv (List.mem_filter.mp hkv).1
  · intro kv hkv; rw [hprops] at hkv; exact h.vals kv (List.mem_filter.mp hkv).1
  · unfold CpConsistent
    show (match (p.props.filter (·.1 != id)).find? (fun kv => kv.1 == Gen.propCodepage) with
      | some (_, .i2 n) => CodePage.fromId ((ofI16 n : Nat) : Int) = some p.codepage
      | some _ => False
      | none => p.codepage = Gen.cpDefault)
    rw [find_filter_other id Gen.propCodepage hid]
    exact h.cpc

/-! ### the calls of `summary_info_mut()` covered -/

/-- setters and clearers of the summary information (the template property — architecture and
languages — and the summary code page are left out) -/
inductive SumOp
  | str (id : Nat) (s : List Char)       -- title 2, subject 3, author 4, comments 6, creating application 18
  | wordCount (n : Int)
  | uuid (nibbles : List Nat)
  | creationTime (t : Int)
  | clear (id : Nat)

def SumOp.apply : SumOp → PropSet → PropSet
  | .str id s, p => p.set id (.lpstr s)
  | .wordCount n, p => p.set Gen.propWordCount (.i4 n)
  | .uuid ns, p => Summary.setUuid p ns
  | .creationTime t, p => Summary.setCreationTime p t
  | .clear id, p => p.remove id

/-- the arguments the API admits: a string property's id, text of less than 128 MiB, a 32-bit word
count, 32 nibbles -/
def SumOp.Ok : SumOp → Prop
  | .str id s => id ∈ [Gen.propTitle, Gen.propSubject, Gen.propAuthor, Gen.propComments, Gen.propCreatingApp] ∧
      (utf8Bytes s).length < bound
  | .wordCount n => -2147483648 ≤ n ∧ n ≤ 2147483647
  | .uuid ns => ns.length = 32
  | .creationTime _ => True
  | .clear id => id ∈ [Gen.propTitle, Gen.propSubject, Gen.propAuthor, Gen.propComments, Gen.propCreatingApp,
      Gen.propWordCount, Gen.propUuid, Gen.propCreationTime]

theorem fromSystemTime_lt (t : Int) : Timestamp.fromSystemTime t < 18446744073709551616 := by
  have e5 : Timestamp.u64Max = 18446744073709551615 := rfl
  by_cases h : 0 ≤ t
  · rw [MsiProofs.C18.fromSystemTime_nonneg t h, e5]; omega
  · rw [MsiProofs.C18.fromSystemTime_neg t h]; omega

theorem utf8Bytes_le (s : List Char) : (utf8Bytes s).length ≤ 4 * s.length := by
  induction s with
  | nil => simp [utf8Bytes]
  | cons c cs ih =>
    simp only [utf8Bytes, List.flatMap_cons, List.length_append, List.length_cons, String.length_utf8EncodeChar] at ih ⊢
    have := Char.utf8Size_le_four c
    omega

/-- **every covered setter / clearer keeps the summary expressible** -/
theorem sumInv_apply (p : PropSet) (h : SumInv p) (op : SumOp) (hok : op.Ok) : SumInv (op.apply p) := by
  cases op with
  | str id s =>
    obtain ⟨hid, hs⟩ := hok
    simp only [List.mem_cons, List.mem_nil_iff, or_false] at hid
    have : id ≠ Gen.propCodepage ∧ id < 20 := by
      rcases hid with rfl | rfl | rfl | rfl | rfl <;> decide
    exact sumInv_set p h id (.lpstr s) this.1 this.2 hs
  | wordCount n => exact sumInv_set p h Gen.propWordCount (.i4 n) (by decide) (by decide) hok
  | uuid ns =>
    show SumInv (Summary.setUuid p ns)
    unfold Summary.setUuid
    apply sumInv_set p h Gen.propUuid _ (by decide) (by decide)
    -- braces, 32 digits, 4 hyphens: 38 characters of at most 4 bytes each
    show (utf8Bytes _).length < bound
    refine Nat.lt_of_le_of_lt (utf8Bytes_le _) ?_
    have hns : ns.length = 32 := hok
    simp only [List.length_append, List.length_cons, List.length_nil, List.length_take, List.length_drop,
      List.length_map, hns]
    unfold bound
    omega
  | creationTime t =>
    exact sumInv_set p h Gen.propCreationTime (.fileTime (Timestamp.fromSystemTime t)) (by decide) (by decide)
      (fromSystemTime_lt t)
  | clear id =>
    simp only [SumOp.Ok, List.mem_cons, List.mem_nil_iff, or_false] at hok
    have : id ≠ Gen.propCodepage := by
      rcases hok with rfl | rfl | rfl | rfl | rfl | rfl | rfl | rfl <;> decide
    exact sumInv_remove p h id this


/-! ### the template property: architecture and languages -/

/-- the template text `set_arch` stores: the new architecture, a semicolon, the languages part kept -/
def archText (p : PropSet) (a : List Char) : List Char :=
  a ++ [';'] ++ (match Summary.getStr p Gen.propTemplate with
    | some t => match Summary.splitOnce ';' t with
      | some (_, l) => l
      | none => []
    | none => [])

/-- the template text `set_languages` stores: the architecture part kept, a semicolon, the codes -/
def langsText (p : PropSet) (codes : List Nat) : List Char :=
  (match Summary.getStr p Gen.propTemplate with
    | some t => match Summary.splitOnce ';' t with
      | some (x, _) => x
      | none => t
    | none => []) ++ [';'] ++ List.intercalate [','] (codes.map fun c => (toString c).toList)

theorem setArch_eq (p : PropSet) (a : List Char) :
    Summary.setArch p a = p.set Gen.propTemplate (.lpstr (archText p a)) := rfl
theorem setLanguages_eq (p : PropSet) (codes : List Nat) :
    Summary.setLanguages p codes = p.set Gen.propTemplate (.lpstr (langsText p codes)) := rfl

/-- the two setters of the template property (`set_arch`, `set_languages`) -/
inductive TemplOp
  | arch (a : List Char)
  | languages (codes : List Nat)

def TemplOp.apply : TemplOp → PropSet → PropSet
  | .arch a, p => Summary.setArch p a
  | .languages cs, p => Summary.setLanguages p cs

/-- admitted in a state when the template text that results stays below 128 MiB -/
def TemplOp.OkIn (p : PropSet) : TemplOp → Prop
  | .arch a => (utf8Bytes (archText p a)).length < bound
  | .languages cs => (utf8Bytes (langsText p cs)).length < bound

/-- **the template setters keep the summary expressible** -/
theorem sumInv_templ (p : PropSet) (h : SumInv p) (op : TemplOp) (hok : op.OkIn p) : SumInv (op.apply p) := by
  cases op with
  | arch a =>
    show SumInv (Summary.setArch p a)
    rw [setArch_eq]
    exact sumInv_set p h Gen.propTemplate _ (by decide) (by decide) hok
  | languages cs =>
    show SumInv (Summary.setLanguages p cs)
    rw [setLanguages_eq]
    exact sumInv_set p h Gen.propTemplate _ (by decide) (by decide) hok

end MsiProofs.SummaryInv
