import MsiProofs.Lemmas.Codec
import MsiModel.PkgApi
/-
The string pool codec: what `write_pool` / `write_data` write, `read_from_pool` /
`build_from_data` read back — including the long-string escape, and exactly under the
condition the format needs: no *live* entry is the empty string.
-/
namespace MsiProofs.PoolCodec
open MsiModel MsiModel.Bytes MsiModel.Pool MsiProofs.Codec

/-- an entry the format can express: 32-bit length, 16-bit count, and a zero length only
for an unused entry (a live empty string would read as a long-string header) -/
def EntryOk (e : Nat × Nat) : Prop := e.1 < 4294967296 ∧ e.2 < 65536 ∧ (e.1 = 0 → e.2 = 0)

theorem readEntries_encodeEntry (fuel len rc : Nat) (h : EntryOk (len, rc)) (rest : Bytes)
    (acc : List (Nat × Nat)) :
    readEntries (fuel + 1) (encodeEntry len rc ++ rest) acc = readEntries fuel rest ((len, rc) :: acc) := by
  obtain ⟨h1, h2, h3⟩ := h
  simp only at h1 h2 h3
  unfold encodeEntry
  by_cases hbig : len > 65535
  · simp only [hbig, if_true, List.append_assoc]
    simp only [readEntries]
    rw [readU16_u16le 0 (by omega)]
    simp only
    rw [readU16_u16le (len / 65536) (by omega)]
    simp only [bind, Res.bind]
    have hc : (0 = 0 ∧ len / 65536 > 0) := ⟨rfl, by omega⟩
    simp only [hc, and_self, if_true]
    rw [readU16_u16le (len % 65536) (by omega)]
    simp only
    rw [readU16_u16le rc h2]
    simp only
    have : len / 65536 * 65536 + len % 65536 = len := by omega
    rw [this]
  · simp only [hbig, if_false, List.nil_append, List.append_assoc]
    have hl : len % 65536 = len := by omega
    rw [hl]
    simp only [readEntries]
    rw [readU16_u16le len (by omega)]
    simp only
    rw [readU16_u16le rc h2]
    simp only [bind, Res.bind]
    have hc : ¬ (len = 0 ∧ rc > 0) := by
      intro ⟨a, b⟩; have := h3 a; omega
    simp only [hc, if_false]

/-- **the pool header loop reads back every entry list the format can express** -/
theorem readEntries_roundtrip (es : List (Nat × Nat)) (h : ∀ e ∈ es, EntryOk e) (fuel : Nat)
    (hf : es.length < fuel) (acc : List (Nat × Nat)) :
    readEntries fuel (es.flatMap fun e => encodeEntry e.1 e.2) acc = .ok (acc.reverse ++ es) := by
  induction es generalizing fuel acc with
  | nil =>
    cases fuel with
    | zero => simp at hf
    | succ k => simp [readEntries, readU16, pure]
  | cons e rest ih =>
    cases fuel with
    | zero => simp at hf
    | succ k =>
      simp only [List.flatMap_cons]
      rw [readEntries_encodeEntry k e.1 e.2 (h e (by simp))]
      rw [ih (fun x hx => h x (by simp [hx])) k (by simp at hf; omega)]
      simp

/-- the witness of the repaired defect: a live empty string is read as the header of a long string -/
theorem live_empty_entry_misread :
    readEntries 3 (encodeEntry 0 1 ++ encodeEntry 3 2) [] ≠ .ok [(0, 1), (3, 2)] := by decide

/-- cutting the data stream by the recorded lengths gives back each string's bytes, which
decode to the string when the code page can represent it -/
theorem buildStrings_roundtrip (cp : Nat) (items : List (List Char × Bytes × Nat))
    (hdec : ∀ it ∈ items, Codec.decode cp it.2.1 = some it.1) (rest : Bytes)
    (acc : List (List Char × Nat)) :
    buildStrings cp (items.map fun it => (it.2.1.length, it.2.2)) (items.flatMap (·.2.1) ++ rest) acc =
      .ok (acc.reverse ++ items.map fun it => (it.1, it.2.2)) := by
  induction items generalizing acc with
  | nil => simp [buildStrings, pure]
  | cons it more ih =>
    obtain ⟨s, bs, rc⟩ := it
    simp only [List.map_cons, List.flatMap_cons, List.append_assoc, buildStrings]
    have hre : readExact bs.length (bs ++ (List.flatMap (fun x => x.2.1) more ++ rest)) =
        .ok (bs, List.flatMap (fun x => x.2.1) more ++ rest) := by
      unfold readExact
      simp
    rw [hre]
    simp only [bind, Res.bind]
    have := hdec (s, bs, rc) (by simp)
    simp only at this
    rw [this]
    simp only
    rw [ih (fun x hx => hdec x (by simp [hx]))]
    simp

end MsiProofs.PoolCodec

namespace MsiProofs.PoolCodec
open MsiModel MsiModel.Bytes MsiModel.Pool MsiProofs.Codec

theorem mapM_some_map {α β} (f : α → Option β) (g : α → β) (l : List α) (h : ∀ a ∈ l, f a = some (g a)) :
    l.mapM f = some (l.map g) := by
  induction l with
  | nil => rfl
  | cons a rest ih =>
    rw [List.mapM_cons, h a (by simp), ih (fun x hx => h x (by simp [hx]))]
    rfl

/-- every supported code page has an identifier below 2^31 that `from_id` maps back to it
(re-decided on the regenerated tables) -/
theorem cp_id_roundtrip : ∀ cp < Gen.cpVariants.length,
    ∃ n : Int, CodePage.id cp = some n ∧ 0 ≤ n ∧ n < 2147483648 ∧ CodePage.fromId n = some cp := by
  decide

/-- a pool the format can express: a supported code page, every string representable in it
(decoding its encoding gives it back), lengths and counts within their fields, and **no live
entry is the empty string** -/
structure PoolOk (p : Pool) (E : List Char → Bytes) : Prop where
  cp : p.codepage < Gen.cpVariants.length
  enc : ∀ e ∈ p.strings, Codec.encode p.codepage e.1 = some (E e.1)
  dec : ∀ e ∈ p.strings, Codec.decode p.codepage (E e.1) = some e.1
  fits : ∀ e ∈ p.strings, EntryOk ((E e.1).length, e.2)

/-- **string pool round trip**: reading what `write_pool` and `write_data` wrote gives the
pool back (both reference widths, strings of any length incl. > 64 KiB, any entry order,
holes, duplicates) -/
theorem pool_roundtrip (p : Pool) (E : List Char → Bytes) (h : PoolOk p E) :
    ∃ pb db, p.writePool = .ok pb ∧ p.writeData = .ok db ∧
      Pool.read pb db = .ok { p with modified := false } := by
  obtain ⟨n, hid, hn0, hn1, hfrom⟩ := cp_id_roundtrip p.codepage h.cp
  have hes : encodedStrings p = some (p.strings.map fun e => (E e.1, e.2)) := by
    unfold encodedStrings
    apply mapM_some_map
    intro e he
    obtain ⟨s, rc⟩ := e
    simp only [h.enc (s, rc) he, Option.map_some]
  have hbit : Gen.longStringRefsBit = 2147483648 := rfl
  refine ⟨u32le (if p.longRefs = true then n.toNat + Gen.longStringRefsBit else n.toNat) ++
      (p.strings.map fun e => (E e.1, e.2)).flatMap (fun x => encodeEntry x.1.length x.2),
    (p.strings.map fun e => (E e.1, e.2)).flatMap (·.1), ?_, ?_, ?_⟩
  · unfold writePool poolHeader
    simp only [hid, hes, bind, Res.bind, pure]
  · unfold writeData
    simp only [hes, pure]
  · unfold Pool.read
    have hhdr : (if p.longRefs = true then n.toNat + Gen.longStringRefsBit else n.toNat) < 4294967296 := by
      rw [hbit]; split <;> omega
    simp only [List.flatMap_map]
    rw [readU32_u32le _ hhdr]
    simp only [bind, Res.bind]
    have hidn : ((if p.longRefs = true then n.toNat + Gen.longStringRefsBit else n.toNat) % Gen.longStringRefsBit : Nat)
        = n.toNat := by
      rw [hbit]; split <;> omega
    rw [hidn]
    have hcast : ((n.toNat : Nat) : Int) = n := by omega
    rw [hcast, hfrom]
    simp only [Res.ofOption]
    have hre := readEntries_roundtrip (p.strings.map fun e => ((E e.1).length, e.2))
      (by
        intro e he
        simp only [List.mem_map] at he
        obtain ⟨x, hx, rfl⟩ := he
        exact h.fits x hx)
      ((List.flatMap (fun e => encodeEntry (E e.1).length e.2) p.strings).length + 1)
      (by
        -- every entry occupies at least four bytes
        have : ∀ l : List (List Char × Nat),
            l.length ≤ (List.flatMap (fun e => encodeEntry (E e.1).length e.2) l).length := by
          intro l
          induction l with
          | nil => simp
          | cons a b ih =>
            simp only [List.flatMap_cons, List.length_append, List.length_cons]
            have : 1 ≤ (encodeEntry (E a.1).length a.2).length := by
              unfold encodeEntry
              simp [u16le]
            omega
        simp only [List.length_map]
        have := this p.strings
        omega)
      []
    simp only [List.flatMap_map] at hre
    rw [hre]
    simp only [List.reverse_nil, List.nil_append]
    have hb := buildStrings_roundtrip p.codepage (p.strings.map fun e => (e.1, E e.1, e.2))
      (by
        intro it hit
        simp only [List.mem_map] at hit
        obtain ⟨x, hx, rfl⟩ := hit
        exact h.dec x hx)
      [] []
    simp only [List.map_map, List.flatMap_map, List.append_nil, List.reverse_nil, List.nil_append] at hb
    have e1 : (List.map ((fun it : List Char × Bytes × Nat => (it.2.1.length, it.2.2)) ∘ fun e : List Char × Nat => (e.1, E e.1, e.2)) p.strings)
        = List.map (fun e => ((E e.1).length, e.2)) p.strings := rfl
    rw [e1] at hb
    rw [hb]
    simp only [pure]
    congr 1
    have : List.map ((fun it : List Char × Bytes × Nat => (it.1, it.2.2)) ∘ fun e : List Char × Nat => (e.1, E e.1, e.2)) p.strings
        = p.strings := by
      induction p.strings with
      | nil => rfl
      | cons a b ih => simp [ih]
    rw [this]
    have hlong : decide ((if p.longRefs = true then n.toNat + Gen.longStringRefsBit else n.toNat) ≥ Gen.longStringRefsBit)
        = p.longRefs := by
      rw [hbit]
      cases hl : p.longRefs
      · simp only [Bool.false_eq_true, if_false, decide_eq_false_iff_not]; omega
      · simp only [if_true, decide_eq_true_eq]; omega
    rw [hlong]

end MsiProofs.PoolCodec
