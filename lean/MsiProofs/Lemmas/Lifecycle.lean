import MsiProofs.Lemmas.Created
import MsiProofs.Lemmas.DropTableMain
import MsiProofs.Lemmas.OtherCalls
/-
The life of a package made with the library: `create`, then any sequence of statements on user
tables, `create_table` and `drop_table` calls and saves; every invariant holds throughout, and after a save the
package reopens as it was.
-/
namespace MsiProofs.Lifecycle
open MsiModel MsiModel.Bytes MsiModel.Pkg MsiProofs.CatalogOpen MsiProofs.CatalogCodec MsiProofs.CatalogSync
open MsiProofs.GlobalInv MsiProofs.SortedInv MsiProofs.CatalogRows MsiProofs.Frame MsiProofs.Refine
open MsiProofs.SaveOpen MsiProofs.CreateTable MsiProofs.FullHistory MsiProofs.Created

/-- one call of the package API -/
inductive Step
  | dml (op : MsiProofs.GlobalInvUpd.Op)
  | create (name : List Char) (cols : List Column)
  | drop (name : List Char)
  | writeStream (n : List Char) (data : Bytes)
  | removeStream (n : List Char)
  | removeSignature
  | setSummary (f : PropSet → PropSet)        -- any `summary_info_mut()` setter or clearer
  | setCodepage (cp : Nat)                    -- `set_database_codepage`
  | save
  | reopen                                    -- close the package, open the container again

/-- the state after the call (whatever it returned) -/
def Step.run (s : Pkg) : Step → Pkg
  | .dml op => op.run { s with finisher := true }
  | .create n c => (createTable s n c).1
  | .drop n => (dropTable s n).1
  | .writeStream n d => (Pkg.writeStream s n d).1
  | .removeStream n => (Pkg.removeStream s n).1
  | .removeSignature => removeDigitalSignature s
  | .setSummary f => { s with finisher := true, summaryModified := true, summary := f s.summary }
  | .setCodepage cp => { s with finisher := true, pool := { s.pool with codepage := cp, modified := true } }
  | .save => (flush s).1
  | .reopen => match open_ (some s.ptype) s.cont with | .ok s2 => s2 | _ => s

/-- `drop_table` refuses the call before doing anything -/
def dropRefused (s : Pkg) (n : List Char) : Prop :=
  Catalog.isReserved n = true ∨ Table.isValidName n = false ∨ s.findTable n = none

theorem dropRefused_noop (s : Pkg) (n : List Char) (h : dropRefused s n) : (dropTable s n).1 = s := by
  unfold dropTable
  by_cases h1 : Catalog.isReserved n = true
  · rw [if_pos h1]
  rw [if_neg h1]
  by_cases h2 : (!Table.isValidName n) = true
  · rw [if_pos h2]
  rw [if_neg h2]
  rcases h with h | h | h
  · exact absurd h h1
  · rw [h] at h2; exact absurd rfl h2
  · rw [h]

/-- the calls the theorem covers: stream writes and removals, signature removal, summary setters and
the database code page (always); statements on user tables (accepted or refused); `create_table`
and `drop_table` calls that are refused by the up-front checks or succeed; saves that succeed, of states that
can be written (`Savable`: text the code page can encode, a well-formed summary); closing and
reopening when nothing is pending (`Saved`: the metadata streams decode to the in-memory state, as
after a successful save) -/
def Step.Admissible (s : Pkg) : Step → Prop
  | .dml op => MsiProofs.EndToEnd.UserOp op
  | .create n c => createError s n c ≠ none ∨ (createTable s n c).2 = .ok ()
  | .drop n => dropRefused s n ∨ (dropTable s n).2 = .ok ()
  | .writeStream _ _ => True
  | .removeStream _ => True
  | .removeSignature => True
  | .setSummary _ => True
  | .setCodepage _ => True
  | .save => (flush s).2 = .ok () ∧ ∃ E, Savable s E
  | .reopen => Saved s

def Admissible : Pkg → List Step → Prop
  | _, [] => True
  | s, st :: rest => st.Admissible s ∧ Admissible (st.run s) rest

theorem core_setFinisher (slack : Nat → Nat) (s : Pkg) (tabs : List Table) (b : Bool) (h : Core slack s tabs) :
    Core slack { s with finisher := b } tabs :=
  core_transfer slack s _ tabs h rfl rfl rfl (fun _ _ => rfl) ⟨h.metaSync.summary, h.metaSync.pool⟩

theorem noOrphans_setFinisher (s : Pkg) (b : Bool) (h : NoOrphans s) : NoOrphans { s with finisher := b } :=
  ⟨h.valid, h.owned⟩

/-- **one call keeps every invariant** -/
theorem step_full (slack : Nat → Nat) (s : Pkg) (tabs : List Table) (hF : Full slack s tabs) (hN : NoOrphans s)
    (st : Step) (ha : st.Admissible s) : ∃ tabs', Full slack (st.run s) tabs' ∧ NoOrphans (st.run s) := by
  cases st with
  | dml op =>
    have hF' : Full slack { s with finisher := true } tabs := ⟨core_setFinisher slack s tabs true hF.core, hF.hasVal⟩
    exact ⟨tabs, op_full slack _ tabs hF' op ha,
      noOrphans_shape _ _ _ (op_shape _ op) (noOrphans_setFinisher s true hN)⟩
  | create n c =>
    have hN' := noOrphans_createTable s hN n c
    cases hce : createError s n c with
    | some k =>
      have : createTable s n c = (s, .err k) := by unfold createTable; rw [hce]
      show ∃ tabs', Full slack (createTable s n c).1 tabs' ∧ NoOrphans (createTable s n c).1
      rw [this]
      exact ⟨tabs, hF, hN⟩
    | none =>
      rcases ha with ha | ha
      · exact absurd hce ha
      · have hf := createError_facts s n c hce
        have hvn := hf.validName
        simp only [Table.isValidName, Bool.and_eq_true] at hvn
        have hfresh : dataOf s.cont (StreamName.encode n true) = none := by
          cases hd : dataOf s.cont (StreamName.encode n true) with
          | none => rfl
          | some d =>
            obtain ⟨t, ht, hnm⟩ := hN.owned n hvn.2 (MsiProofs.Synced.table_stream_notMeta n hf.validName hf.notPool)
              (by rw [hd]; exact fun e => by cases e)
            exact absurd hnm (findTable_none_ne s n hf.fresh t ht)
        have hrun : createTable s n c = ((createTable s n c).1, .ok ()) := by rw [← ha]
        exact ⟨_, createTable_full slack s tabs hF n c _ hrun hfresh, hN'⟩
  | drop n =>
    show ∃ tabs', Full slack (dropTable s n).1 tabs' ∧ NoOrphans (dropTable s n).1
    rcases ha with ha | ha
    · rw [dropRefused_noop s n ha]; exact ⟨tabs, hF, hN⟩
    · have hrun : dropTable s n = ((dropTable s n).1, .ok ()) := by rw [← ha]
      exact ⟨_, MsiProofs.DropTable.dropTable_full slack s tabs hF hN n _ hrun⟩
  | writeStream n d => exact ⟨tabs, MsiProofs.OtherCalls.writeStream_full slack s tabs hF hN n d⟩
  | removeStream n => exact ⟨tabs, MsiProofs.OtherCalls.removeStream_full slack s tabs hF hN n⟩
  | removeSignature => exact ⟨tabs, MsiProofs.OtherCalls.removeSignature_full slack s tabs hF hN⟩
  | setSummary f => exact ⟨tabs, MsiProofs.OtherCalls.setSummary_full slack s tabs hF hN f⟩
  | setCodepage cp => exact ⟨tabs, MsiProofs.OtherCalls.setCodepage_full slack s tabs hF hN cp⟩
  | save =>
    obtain ⟨hok, E, hsav⟩ := ha
    show ∃ tabs', Full slack (flush s).1 tabs' ∧ NoOrphans (flush s).1
    unfold flush at hok ⊢
    cases hfin : s.finisher with
    | false => simp only [Bool.false_eq_true, if_false]; exact ⟨tabs, hF, hN⟩
    | true =>
      simp only [hfin, if_true] at hok ⊢
      have hc0 := core_setFinisher slack s tabs false hF.core
      have hsav0 : Savable { s with finisher := false } E := ⟨hsav.summary, hsav.fmtid, hsav.pool⟩
      have hrun : finish { s with finisher := false } = ((finish { s with finisher := false }).1, .ok ()) := by
        rw [← hok]
      obtain ⟨hc1, -, hl⟩ := finish_core slack _ _ tabs hc0 E hsav0 hrun
      refine ⟨tabs, ⟨hc1, ?_⟩, finish_noOrphans _ (noOrphans_setFinisher s false hN)⟩
      rw [hl]; exact hF.hasVal

  | reopen =>
    have hA := full_allInv slack s tabs hF
    obtain ⟨s2, ho, hc, hs, hp, ht⟩ := reopen_same_tables s tabs ha hA.cat
    show ∃ tabs', Full slack (match open_ (some s.ptype) s.cont with | .ok s2 => s2 | _ => s) tabs' ∧
      NoOrphans (match open_ (some s.ptype) s.cont with | .ok s2 => s2 | _ => s)
    rw [ho]
    simp only
    have hsaved2 : Saved s2 := ⟨by rw [hc, hs]; exact ha.summary, by rw [hc, hp]; exact ha.pool⟩
    exact ⟨tabs, MsiProofs.OtherCalls.full_transfer slack s s2 tabs hF hN ht (by rw [hp]) (by rw [hp])
      (fun _ => by rw [hc]) (MsiProofs.Synced.synced_of_saved s2 hsaved2)⟩

/-- after an admissible save of a state with pending changes, the package may be closed and
reopened (`Saved`), i.e. `save` then `reopen` is admissible -/
theorem saved_after_save (slack : Nat → Nat) (s : Pkg) (tabs : List Table) (hF : Full slack s tabs)
    (ha : Step.save.Admissible s) (hfin : s.finisher = true) : Step.reopen.Admissible (Step.save.run s) := by
  obtain ⟨hok, E, hsav⟩ := ha
  show Saved (flush s).1
  unfold flush at hok ⊢
  simp only [hfin, if_true] at hok ⊢
  have hc0 := core_setFinisher slack s tabs false hF.core
  have hsav0 : Savable { s with finisher := false } E := ⟨hsav.summary, hsav.fmtid, hsav.pool⟩
  have hrun : finish { s with finisher := false } = ((finish { s with finisher := false }).1, .ok ()) := by
    rw [← hok]
  exact (finish_core slack _ _ tabs hc0 E hsav0 hrun).2.1

def runAll (s : Pkg) (steps : List Step) : Pkg := steps.foldl Step.run s

/-- **every reachable state satisfies every invariant** -/
theorem history_full (slack : Nat → Nat) (steps : List Step) : ∀ (s : Pkg) (tabs : List Table),
    Full slack s tabs → NoOrphans s → Admissible s steps →
    ∃ tabs', Full slack (runAll s steps) tabs' ∧ NoOrphans (runAll s steps) := by
  induction steps with
  | nil => intro s tabs hF hN _; exact ⟨tabs, hF, hN⟩
  | cons st rest ih =>
    intro s tabs hF hN ha
    obtain ⟨tabs', hF', hN'⟩ := step_full slack s tabs hF hN st ha.1
    exact ih _ tabs' hF' hN' ha.2

/-- **a package made with the library reopens as it was.**  Start from the state `create` builds,
run any admissible sequence of calls, save: reopening the saved container yields a package with
the same container, summary information, string pool and table definitions, in which every
table reads the same rows -/
theorem created_reopens (ptype : Nat) (summary : PropSet) (s0 : Pkg)
    (hc : createTable (base ptype summary) Gen.nameValidation.toList Catalog.validationColumns = (s0, .ok ()))
    (steps : List Step) (ha : Admissible s0 steps)
    (E : List Char → Bytes) (hsav : Savable (runAll s0 steps) E)
    (s1 : Pkg) (hf : finish (runAll s0 steps) = (s1, .ok ())) :
    ∃ s2, open_ (some s1.ptype) s1.cont = .ok s2 ∧
      s2.cont = s1.cont ∧ s2.summary = s1.summary ∧ s2.pool = s1.pool ∧ s2.tables = s1.tables ∧
      (∀ t, s2.loadRows t = s1.loadRows t) := by
  obtain ⟨hF0, hN0⟩ := created_full ptype summary s0 hc
  obtain ⟨tabs, hF, -⟩ := history_full _ steps s0 _ hF0 hN0 ha
  have h := full_allInv _ _ tabs hF
  obtain ⟨hsaved, -, -⟩ := MsiProofs.Synced.finish_step _ s1 E h.metaSync h.sep hsav hf
  have hcat := finish_catalogSynced _ s1 tabs h.cat hf
  obtain ⟨s2, ho, hc', hs, hp, ht⟩ := reopen_same_tables s1 tabs hsaved hcat
  exact ⟨s2, ho, hc', hs, hp, ht, fun t => rows_same_after_reopen s1 s2 hc' t⟩


/-- the finisher changes neither the summary nor the text of the pool -/
theorem finish_keeps (s : Pkg) :
    (finish s).1.summary = s.summary ∧ (finish s).1.pool.strings = s.pool.strings ∧
    (finish s).1.pool.codepage = s.pool.codepage ∧ (finish s).1.ptype = s.ptype := by
  unfold finish
  cases s.summaryModified
  · simp only [Bool.false_eq_true, if_false]
    cases s.pool.modified
    · exact ⟨rfl, rfl, rfl, rfl⟩
    · simp only [if_true]
      cases s.pool.writePool <;> cases s.pool.writeData <;> exact ⟨rfl, rfl, rfl, rfl⟩
  · simp only [if_true]
    cases s.summary.write with
    | ok bs =>
      simp only
      cases s.pool.modified
      · exact ⟨rfl, rfl, rfl, rfl⟩
      · simp only [if_true]
        cases s.pool.writePool <;> cases s.pool.writeData <;> exact ⟨rfl, rfl, rfl, rfl⟩
    | err k => exact ⟨rfl, rfl, rfl, rfl⟩
    | panic w => exact ⟨rfl, rfl, rfl, rfl⟩

/-- what can be written after a save could be written before it -/
theorem savable_before_flush (s : Pkg) (E : List Char → Bytes) (h : Savable (flush s).1 E) : Savable s E := by
  unfold flush at h
  cases hfin : s.finisher with
  | false => simpa [hfin] using h
  | true =>
    simp only [hfin, if_true] at h
    obtain ⟨h1, h2, h3, -⟩ := finish_keeps { s with finisher := false }
    refine ⟨?_, ?_, ?_⟩
    · have := h.summary; rw [h1] at this; exact this
    · have := h.fmtid; rw [h1] at this; exact this
    · have hp := h.pool
      refine ⟨?_, ?_, ?_, ?_⟩
      · have := hp.cp; rw [h3] at this; exact this
      · intro e he; have := hp.enc e (by rw [h2]; exact he); rw [h3] at this; exact this
      · intro e he; have := hp.dec e (by rw [h2]; exact he); rw [h3] at this; exact this
      · intro e he; exact hp.fits e (by rw [h2]; exact he)

/-- `create` = the base state, `create_table("_Validation")`, a flush -/
theorem create_unfold (prof : Profile) (ptype : Nat) (s : Pkg) (h : create prof ptype = .ok s) :
    ∃ summary s0, createTable (base ptype summary) Gen.nameValidation.toList Catalog.validationColumns = (s0, .ok ()) ∧
      flush s0 = (s, .ok ()) := by
  unfold create at h
  cases hs : Summary.new prof with
  | err k => rw [hs] at h; cases h
  | panic w => rw [hs] at h; cases h
  | ok summary0 =>
    rw [hs] at h
    simp only [bind, Res.bind] at h
    refine ⟨summary0.set Gen.propTitle (.lpstr (ptypeTitle ptype).toList), ?_⟩
    generalize hr : createTable _ Gen.nameValidation.toList Catalog.validationColumns = r at h
    obtain ⟨s0, res⟩ := r
    cases res with
    | err k => cases h
    | panic w => cases h
    | ok u =>
      cases u
      simp only at h
      generalize hr2 : flush s0 = r2 at h
      obtain ⟨s2, res2⟩ := r2
      cases res2 with
      | err k => cases h
      | panic w => cases h
      | ok u =>
        cases u
        cases h
        exact ⟨s0, hr, hr2⟩

/-- **every package made with `Package::create` reopens as it was**, whatever admissible calls
were made on it in between -/
theorem create_reopens (prof : Profile) (ptype : Nat) (s : Pkg) (hc : create prof ptype = .ok s)
    (E0 : List Char → Bytes) (hsav0 : Savable s E0)
    (steps : List Step) (ha : Admissible s steps)
    (E : List Char → Bytes) (hsav : Savable (runAll s steps) E)
    (s1 : Pkg) (hf : finish (runAll s steps) = (s1, .ok ())) :
    ∃ s2, open_ (some s1.ptype) s1.cont = .ok s2 ∧
      s2.cont = s1.cont ∧ s2.summary = s1.summary ∧ s2.pool = s1.pool ∧ s2.tables = s1.tables ∧
      (∀ t, s2.loadRows t = s1.loadRows t) := by
  obtain ⟨summary, s0, hct, hfl⟩ := create_unfold prof ptype s hc
  have hs : s = (flush s0).1 := by rw [hfl]
  have hadm : Admissible s0 (Step.save :: steps) := by
    refine ⟨⟨by rw [hfl], E0, savable_before_flush s0 E0 (hs ▸ hsav0)⟩, ?_⟩
    show Admissible (flush s0).1 steps
    rw [← hs]; exact ha
  have hrun : runAll s0 (Step.save :: steps) = runAll s steps := by
    show runAll (flush s0).1 steps = _
    rw [← hs]
  exact created_reopens ptype summary s0 hct (Step.save :: steps) hadm E (hrun ▸ hsav) s1 (hrun ▸ hf)


/-- **in every state reachable from `create`, every invariant holds with slack 0** -/
theorem created_history_full (ptype : Nat) (summary : PropSet) (s0 : Pkg)
    (hc : createTable (base ptype summary) Gen.nameValidation.toList Catalog.validationColumns = (s0, .ok ()))
    (steps : List Step) (ha : Admissible s0 steps) :
    ∃ tabs, Full (fun _ => 0) (runAll s0 steps) tabs ∧ NoOrphans (runAll s0 steps) := by
  obtain ⟨hF0, hN0⟩ := created_full ptype summary s0 hc
  exact history_full _ steps s0 _ hF0 hN0 ha

/-- **exact string accounting in every reachable state**: the reference count of every pool entry
equals the number of cells, over all tables, that refer to it -/
theorem created_history_exact (ptype : Nat) (summary : PropSet) (s0 : Pkg)
    (hc : createTable (base ptype summary) Gen.nameValidation.toList Catalog.validationColumns = (s0, .ok ()))
    (steps : List Step) (ha : Admissible s0 steps) (r : Nat) (hr : 0 < r) :
    (cellsOfTables (runAll s0 steps) (runAll s0 steps).tables).count (.str r) = (runAll s0 steps).pool.refcount r := by
  obtain ⟨tabs, hF, -⟩ := created_history_full ptype summary s0 hc steps ha
  have := hF.core.inv.counts r hr
  omega

/-- **ascending, hence unique, keys in every reachable state**, for every table -/
theorem created_history_sorted (ptype : Nat) (summary : PropSet) (s0 : Pkg)
    (hc : createTable (base ptype summary) Gen.nameValidation.toList Catalog.validationColumns = (s0, .ok ()))
    (steps : List Step) (ha : Admissible s0 steps) : SortedAll (runAll s0 steps) := by
  obtain ⟨tabs, hF, -⟩ := created_history_full ptype summary s0 hc steps ha
  exact hF.core.sorted

/-- with no orphaned table stream, the stream of a table `create_table` accepts does not exist yet -/
theorem fresh_of_noOrphans (s : Pkg) (hN : NoOrphans s) (n : List Char) (c : List Column)
    (hce : createError s n c = none) : dataOf s.cont (StreamName.encode n true) = none := by
  have hf := createError_facts s n c hce
  have hvn := hf.validName
  simp only [Table.isValidName, Bool.and_eq_true] at hvn
  cases hd : dataOf s.cont (StreamName.encode n true) with
  | none => rfl
  | some d =>
    obtain ⟨t, ht, hnm⟩ := hN.owned n hvn.2 (MsiProofs.Synced.table_stream_notMeta n hf.validName hf.notPool)
      (by rw [hd]; exact fun e => by cases e)
    exact absurd hnm (findTable_none_ne s n hf.fresh t ht)

/-- **an accepted `create_table` is read back by `open`**: in the state it leaves, the catalog pass
of `open` returns the in-memory table list, which contains the new definition column for column -/
theorem createTable_then_open (slack : Nat → Nat) (s : Pkg) (tabs : List Table) (hF : Full slack s tabs)
    (hN : NoOrphans s) (name : List Char) (cols : List Column) (s4 : Pkg)
    (h : createTable s name cols = (s4, .ok ())) :
    openTables s4.ptype s4.cont s4.summary s4.pool = .ok s4.tables ∧
    (⟨name, cols, s.pool.longRefs⟩ : Table) ∈ s4.tables := by
  have hce : createError s name cols = none := by
    cases hce : createError s name cols with
    | none => rfl
    | some k =>
      have : createTable s name cols = (s, .err k) := by unfold createTable; rw [hce]
      rw [this] at h
      cases (Prod.mk.inj h).2
  have hF4 := createTable_full slack s tabs hF name cols s4 h (fresh_of_noOrphans s hN name cols hce)
  have hA := full_allInv slack s4 _ hF4
  refine ⟨synced_open s4 _ hA.cat, ?_⟩
  have hnewTabs : ∀ x ∈ tabs, x.name ≠ name :=
    fun x hx => findTable_none_ne s name (createError_facts s name cols hce).fresh x
      ((hF.core.mem x).mpr (Or.inr (Or.inr hx)))
  exact (hF4.core.mem _).mpr (Or.inr (Or.inr ((mem_insertTable tabs _ hnewTabs _).mpr (Or.inl rfl))))

end MsiProofs.Lifecycle
