import MsiProofs.Lemmas.CreateTableFull
/-
The main theorem on `create_table`.
-/
namespace MsiProofs.CreateTable
open MsiModel MsiModel.Bytes MsiModel.Pkg MsiProofs.CatalogOpen MsiProofs.CatalogCodec MsiProofs.CatalogSync
open MsiProofs.GlobalInv MsiProofs.SortedInv MsiProofs.CatalogRows MsiProofs.Frame MsiProofs.Refine
open MsiProofs.RefineExact MsiProofs.RefineDelete MsiProofs.SaveOpen MsiProofs.RowsOk

theorem findTable_congr {a b : Pkg} (h : b.tables = a.tables) (n : List Char) : b.findTable n = a.findTable n := by
  unfold Pkg.findTable; rw [h]

/-- **`create_table` keeps every invariant** and extends the catalog invariant by the new definition
(the new table's stream must not already exist in the container) -/
theorem createTable_core (slack : Nat → Nat) (s : Pkg) (tabs : List Table) (hF : Core slack s tabs)
    (name : List Char) (cols : List Column) (s4 : Pkg)
    (h : createTable s name cols = (s4, .ok ()))
    (hfresh : dataOf s.cont (StreamName.encode name true) = none)
    (hV : Catalog.validationTable s.pool.longRefs ∈ tabs ∨
      (tabs = [] ∧ name = Gen.nameValidation.toList ∧ cols = Catalog.validationColumns)) :
    Core slack s4 (insertTable tabs ⟨name, cols, s.pool.longRefs⟩) ∧ s4.pool.longRefs = s.pool.longRefs ∧
      (∀ x ∈ tabs, x.name ≠ name) := by
  have hgood := MsiProofs.Synced.good_createTable s hF.sep name cols
  rw [h] at hgood
  unfold createTable at h
  cases hce : createError s name cols with
  | some k => simp [hce] at h
  | none =>
  simp only [hce] at h
  cases hroom : catalogRoom s name cols with
  | err k => simp [hroom] at h
  | panic w => simp [hroom] at h
  | ok u =>
  cases u
  simp only [hroom] at h
  have hf := createError_facts s name cols hce
  have hvn := hf.validName
  simp only [Table.isValidName, Bool.and_eq_true] at hvn
  have hname : name ≠ [] := identifier_ne_nil name hvn.1
  have hvalid : StreamName.isValid name true = true := hvn.2
  have hnew : ∀ x ∈ s.tables, x.name ≠ name := findTable_none_ne s name hf.fresh
  have hct : Catalog.columnsTable s.pool.longRefs ∈ s.tables := (hF.mem _).mpr (Or.inl rfl)
  have htt : Catalog.tablesTable s.pool.longRefs ∈ s.tables := (hF.mem _).mpr (Or.inr (Or.inl rfl))
  have hXc : s.findTable Gen.nameColumns.toList = some (Catalog.columnsTable s.pool.longRefs) := hF.find _ hct
  have hXt : s.findTable Gen.nameTables.toList = some (Catalog.tablesTable s.pool.longRefs) := hF.find _ htt
  have hnC : name ≠ Gen.nameColumns.toList := fun e => hnew _ hct e.symm
  have hnT : name ≠ Gen.nameTables.toList := fun e => hnew _ htt e.symm
  have hnewTabs : ∀ x ∈ tabs, x.name ≠ name := fun x hx => hnew x ((hF.mem x).mpr (Or.inr (Or.inr hx)))
  -- the new table's stream is different from every existing table's
  have hkey : ∀ x ∈ s.tables, key (StreamName.encode name true) ≠ key x.streamName := by
    intro x hx e
    exact hnew x hx (MsiProofs.Synced.table_stream_injective name x.name hvalid (hF.valid_all x hx) e).symm
  -- stage 1: `_Columns`
  cases hr1 : insertRows s Gen.nameColumns.toList (catalogRowsColumns name cols) with
  | mk s1 res1 =>
  rw [hr1] at h
  cases res1 with
  | err k => simp at h
  | panic w => simp at h
  | ok u =>
  cases u
  simp only at h
  obtain ⟨hI1, hS1, ht1, hl1, hrX1, hrY1, hc1⟩ := stage_insert slack s hF.inv hF.sorted _ _ s1 hr1 _ hXc
  -- stage 2: `_Tables`
  cases hr2 : insertRows s1 Gen.nameTables.toList [[.str name]] with
  | mk s2 res2 =>
  rw [hr2] at h
  cases res2 with
  | err k => simp at h
  | panic w => simp at h
  | ok u =>
  cases u
  simp only at h
  have hXt1 : s1.findTable Gen.nameTables.toList = some (Catalog.tablesTable s.pool.longRefs) := by
    rw [findTable_congr ht1]; exact hXt
  obtain ⟨hI2, hS2, ht2, hl2, hrX2, hrY2, hc2⟩ := stage_insert slack s1 hI1 hS1 _ _ s2 hr2 _ hXt1
  have hT2 : s2.tables = s.tables := ht2.trans ht1
  have hL2 : s2.pool.longRefs = s.pool.longRefs := hl2.trans hl1
  rw [hL2] at h
  -- stage 3: the table list
  have hempty2 : Cont.find s2.cont (StreamName.encode name true) = none := by
    apply find_none_of_dataOf
    rw [hc2 _ (fun e => hkey _ htt e.symm), hc1 _ (fun e => hkey _ hct e.symm)]
    exact hfresh
  have hnew2 : ∀ x ∈ s2.tables, x.name ≠ name := by rw [hT2]; exact hnew
  have hkey2 : ∀ x ∈ s2.tables, key (StreamName.encode name true) ≠ key x.streamName := by rw [hT2]; exact hkey
  have hI3 := inv_add_table slack s2 hI2 ⟨name, cols, s.pool.longRefs⟩ hnew2 hkey2 hempty2 hL2
    (rowSize_pos ⟨name, cols, s.pool.longRefs⟩ hf.nonempty)
  have hS3 := sorted_add_table s2 hS2 ⟨name, cols, s.pool.longRefs⟩ hnew2 hempty2
  -- stage 4: `_Validation`
  have hXv3 : (withTable s2 ⟨name, cols, s.pool.longRefs⟩).findTable Gen.nameValidation.toList =
      some (Catalog.validationTable s.pool.longRefs) := by
    show (insertTable s2.tables _).find? _ = _
    rcases hV with hV | ⟨-, rfl, rfl⟩
    · have hvt : Catalog.validationTable s.pool.longRefs ∈ s.tables := (hF.mem _).mpr (Or.inr (Or.inr hV))
      have hnV : name ≠ Gen.nameValidation.toList := fun e => hnew _ hvt e.symm
      rw [find_insertTable_other s2.tables _ _ hnV hnew2, hT2]
      exact hF.find _ hvt
    · exact find_insertTable_self s2.tables ⟨Gen.nameValidation.toList, Catalog.validationColumns, s.pool.longRefs⟩ hnew2
  -- `_Validation` as read just before the last insert
  have r2V : Reads (withTable s2 ⟨name, cols, s.pool.longRefs⟩) (Catalog.validationTable s.pool.longRefs)
      (fun v => ∃ t ∈ tabs, v ∈ valRowsOf t) := by
    rcases hV with hV | ⟨rfl, rfl, rfl⟩
    · have hvt : Catalog.validationTable s.pool.longRefs ∈ s.tables := (hF.mem _).mpr (Or.inr (Or.inr hV))
      have r0 : Reads s (Catalog.validationTable s.pool.longRefs) (fun v => ∃ t ∈ tabs, v ∈ valRowsOf t) := hF.rows.rowsV
      have r1 := hrY1 _ hvt (by show Gen.nameValidation.toList ≠ Gen.nameColumns.toList; decide) _ r0
      have r2 := hrY2 _ (by rw [ht1]; exact hvt) (by show Gen.nameValidation.toList ≠ Gen.nameTables.toList; decide) _ r1
      exact reads_withTable r2
    · refine ⟨[], ?_, fun v => by simp⟩
      show s2.loadRows (Catalog.validationTable s.pool.longRefs) = .ok []
      unfold Pkg.loadRows
      have : (Catalog.validationTable s.pool.longRefs).streamName = StreamName.encode Gen.nameValidation.toList true := rfl
      rw [this, hempty2]; rfl
  obtain ⟨hI4, hS4, ht4, hl4, hrX4, hrY4, hc4⟩ :=
    stage_insert slack (withTable s2 ⟨name, cols, s.pool.longRefs⟩) hI3 hS3 _ _ s4 h _ hXv3
  have hL4 : s4.pool.longRefs = s.pool.longRefs := hl4.trans hL2
  have hT4 : s4.tables = insertTable s.tables ⟨name, cols, s.pool.longRefs⟩ := by
    rw [ht4]; show insertTable s2.tables _ = _; rw [hT2]
  have hmem3 : ∀ x ∈ s.tables, x ∈ (withTable s2 ⟨name, cols, s.pool.longRefs⟩).tables := by
    intro x hx
    show x ∈ insertTable s2.tables _
    rw [hT2]
    exact (mem_insertTable s.tables _ hnew x).mpr (Or.inr hx)
  refine ⟨?_, hL4, hnewTabs⟩
  refine ⟨hI4, hS4, MsiProofs.Synced.synced_of_effect s s4 hF.metaSync hgood.effect, hgood.sep hF.sep, ?_, ?_,
    (insertTable_sorted tabs _ hF.tsorted hnewTabs).1, ?_, ?_, ?_, ?_, ?_, ?_⟩
  · -- the catalog rows
    rw [show Rows s4 _ ↔ _ from Iff.rfl]
    refine ⟨?_, ?_, ?_⟩
    · -- `_Tables`
      have r0 : Reads s (Catalog.tablesTable s.pool.longRefs) (fun v => ∃ t ∈ tabs, v = [Value.str t.name]) := hF.rows.rowsT
      have r1 := hrY1 _ htt (by show Gen.nameTables.toList ≠ Gen.nameColumns.toList; decide) _ r0
      have r2 := hrX2 _ r1
      have r4 := hrY4 _ (hmem3 _ htt) (by show Gen.nameTables.toList ≠ Gen.nameValidation.toList; decide) _
        (reads_withTable (t := ⟨name, cols, s.pool.longRefs⟩) r2)
      obtain ⟨rows, hl, hm⟩ := r4
      refine ⟨rows, by rw [hL4]; exact hl, fun v => (hm v).trans ?_⟩
      rw [exists_insertTable tabs _ hnewTabs, tabRows_new name hname]
      simp
    · -- `_Columns`
      have r0 : Reads s (Catalog.columnsTable s.pool.longRefs) (fun v => ∃ t ∈ tabs, v ∈ colRowsOf t) := hF.rows.rowsC
      have r1 := hrX1 _ r0
      have r2 := hrY2 _ (by rw [ht1]; exact hct) (by show Gen.nameColumns.toList ≠ Gen.nameTables.toList; decide) _ r1
      have r4 := hrY4 _ (hmem3 _ hct) (by show Gen.nameColumns.toList ≠ Gen.nameValidation.toList; decide) _
        (reads_withTable (t := ⟨name, cols, s.pool.longRefs⟩) r2)
      obtain ⟨rows, hl, hm⟩ := r4
      refine ⟨rows, by rw [hL4]; exact hl, fun v => (hm v).trans ?_⟩
      rw [exists_insertTable tabs _ hnewTabs, colRows_new name cols s.pool.longRefs hname hf.colNames]
    · -- `_Validation`
      have r4 := hrX4 _ r2V
      obtain ⟨rows, hl, hm⟩ := r4
      refine ⟨rows, by rw [hL4]; exact hl, fun v => (hm v).trans ?_⟩
      rw [exists_insertTable tabs _ hnewTabs, valRows_new name cols s.pool.longRefs]
  · -- the table list
    rw [hT4, hL4, hF.tables]
    have hs1 := insertTable_sorted tabs (Catalog.tablesTable s.pool.longRefs) hF.tsorted (fun x hx => (hF.notCat x hx).1)
    have hb1 : ∀ x ∈ insertTable tabs (Catalog.tablesTable s.pool.longRefs), x.name ≠ name := by
      intro x hx
      rcases (mem_insertTable tabs _ (fun x hx => (hF.notCat x hx).1) x).mp hx with rfl | hx'
      · exact fun e => hnT e.symm
      · exact hnewTabs x hx'
    have ha1 : ∀ x ∈ insertTable tabs (Catalog.tablesTable s.pool.longRefs), x.name ≠ Gen.nameColumns.toList := by
      intro x hx
      rcases (mem_insertTable tabs _ (fun x hx => (hF.notCat x hx).1) x).mp hx with rfl | hx'
      · show Gen.nameTables.toList ≠ Gen.nameColumns.toList; decide
      · exact (hF.notCat x hx').2
    rw [insertTable_comm _ (Catalog.columnsTable s.pool.longRefs) ⟨name, cols, s.pool.longRefs⟩ hs1.1 ha1 hb1
      (fun e => hnC e.symm)]
    rw [insertTable_comm tabs (Catalog.tablesTable s.pool.longRefs) ⟨name, cols, s.pool.longRefs⟩ hF.tsorted
      (fun x hx => (hF.notCat x hx).1) hnewTabs (fun e => hnT e.symm)]
  · -- names
    rw [((insertTable_perm tabs _ hnewTabs).map _).nodup_iff]
    simp only [List.map_cons, List.nodup_cons, List.mem_map, not_exists, not_and]
    exact ⟨fun x hx => hnewTabs x hx, hF.names⟩
  · -- ok
    intro t ht
    rcases (mem_insertTable tabs _ hnewTabs t).mp ht with rfl | ht'
    · exact ⟨fun c hc => ⟨hf.storable c hc, hf.fkOk c hc⟩, hf.nonempty, hL4.symm, hf.colNodup⟩
    · rw [hL4]; exact hF.ok t ht'
  · -- small
    intro t ht
    rcases (mem_insertTable tabs _ hnewTabs t).mp ht with rfl | ht'
    · exact hf.small
    · exact hF.small t ht'
  · -- namesOk
    intro t ht
    rcases (mem_insertTable tabs _ hnewTabs t).mp ht with rfl | ht'
    · exact ⟨hname, hf.colNames⟩
    · exact hF.namesOk t ht'
  · -- valid
    intro t ht
    rcases (mem_insertTable tabs _ hnewTabs t).mp ht with rfl | ht'
    · exact hvalid
    · exact hF.valid t ht'
  · intro t ht
    rcases (mem_insertTable tabs _ hnewTabs t).mp ht with rfl | ht'
    · exact ⟨hnT, hnC⟩
    · exact hF.notCat t ht'


/-- **`create_table` keeps every invariant** and extends the catalog invariant by the new definition -/
theorem createTable_full (slack : Nat → Nat) (s : Pkg) (tabs : List Table) (hF : Full slack s tabs)
    (name : List Char) (cols : List Column) (s4 : Pkg)
    (h : createTable s name cols = (s4, .ok ()))
    (hfresh : dataOf s.cont (StreamName.encode name true) = none) :
    Full slack s4 (insertTable tabs ⟨name, cols, s.pool.longRefs⟩) := by
  obtain ⟨hc, hL4, hnewTabs⟩ := createTable_core slack s tabs hF.core name cols s4 h hfresh (Or.inl hF.hasVal)
  refine ⟨hc, ?_⟩
  rw [hL4]
  exact (mem_insertTable tabs _ hnewTabs _).mpr (Or.inr hF.hasVal)

end MsiProofs.CreateTable
