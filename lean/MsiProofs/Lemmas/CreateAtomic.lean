import MsiProofs.Lemmas.Gate
import MsiProofs.Lemmas.RelationalLife
/-
`create_table` is atomic (properties C04, C20, C01): in every state with the full package invariant,
once the up-front checks pass, `create_table` either succeeds, or hits the string pool's capacity
panic (finding D16b), or is refused by the very first catalog insert — the row bound of
`_Columns` — and then nothing but the "finisher pending" flag has changed.  No state exists in
which the call fails after having written part of the catalog: the rows `_Tables` and
`_Validation` hold are never more than the rows `_Columns` holds, so whatever fits `_Columns`
fits them, and no other check of the three inserts can fail for a fresh, pre-validated table.
-/
namespace MsiProofs.CreateAtomic
open MsiModel MsiModel.Bytes MsiModel.Pkg MsiProofs.GlobalInv MsiProofs.SortedInv MsiProofs.Frame
open MsiProofs.Refine MsiProofs.Relational MsiProofs.SaveOpen MsiProofs.CreateTable MsiProofs.FullHistory
open MsiProofs.Gate MsiProofs.CatalogRows MsiProofs.CatalogOpen MsiProofs.CatalogCodec MsiProofs.CatalogSync

/-- new keys that are neither shown, nor repeated, nor seen before pass the key checks -/
theorem checkNewV_none (t : Table) (shown : List (List Value)) : ∀ (news seen : List (List Value)),
    (∀ r ∈ news, ∀ row ∈ shown, keyV t row ≠ keyV t r) → (news.map (keyV t)).Nodup →
    (∀ r ∈ news, keyV t r ∉ seen) → checkNewV t shown news seen = none := by
  intro news
  induction news with
  | nil => intro seen _ _ _; rfl
  | cons r rs ih =>
    intro seen h1 h2 h3
    simp only [checkNewV]
    have hsh : (shown.any fun row => keyV t row == keyV t r) = false := by
      rw [List.any_eq_false]
      intro row hrow
      simpa using h1 r (by simp) row hrow
    have hseen : seen.contains (keyV t r) = false := by
      have := h3 r (by simp)
      simpa using this
    simp only [hsh, hseen, Bool.false_eq_true, if_false]
    simp only [List.map_cons, List.nodup_cons] at h2
    apply ih
    · intro r' hr' row hrow; exact h1 r' (by simp [hr']) row hrow
    · exact h2.2
    · intro r' hr' hmem
      simp only [List.mem_cons] at hmem
      rcases hmem with e | hmem
      · exact h2.1 (e ▸ List.mem_map.mpr ⟨r', hr', rfl⟩)
      · exact h3 r' (by simp [hr']) hmem

/-- a list with pairwise different elements that is covered by the image of another list is no
longer than that list -/
theorem length_le_of_nodup_subset {α β} [DecidableEq β] (a : List β) (b : List α) (g : α → β) (hn : a.Nodup)
    (hsub : ∀ x ∈ a, x ∈ b.map g) : a.length ≤ b.length := by
  have := (List.subperm_of_subset hn hsub).length_le
  simpa using this

/-! ### the keys of the three catalog tables -/

theorem key_columns (long : Bool) (row : List Value) :
    keyV (Catalog.columnsTable long) row = [row.getD 0 .null, row.getD 1 .null] := rfl
theorem key_tables (long : Bool) (row : List Value) :
    keyV (Catalog.tablesTable long) row = [row.getD 0 .null] := rfl
theorem key_validation (long : Bool) (row : List Value) :
    keyV (Catalog.validationTable long) row = [row.getD 0 .null, row.getD 1 .null] := rfl


/-! ### what the catalog tables show, and how many rows -/

/-- the views of the three catalog tables, from the catalog invariant -/
theorem catalog_views (s : Pkg) (tabs : List Table) (hR : Rows s tabs) :
    (∀ v, v ∈ tableView s (Catalog.tablesTable s.pool.longRefs) ↔ ∃ t ∈ tabs, v = [Value.str t.name]) ∧
    (∀ v, v ∈ tableView s (Catalog.columnsTable s.pool.longRefs) ↔ ∃ t ∈ tabs, v ∈ colRowsOf t) ∧
    (∀ v, v ∈ tableView s (Catalog.validationTable s.pool.longRefs) ↔ ∃ t ∈ tabs, v ∈ valRowsOf t) := by
  obtain ⟨tR, hlT, hT⟩ := hR.rowsT
  obtain ⟨cR, hlC, hC⟩ := hR.rowsC
  obtain ⟨vR, hlV, hV⟩ := hR.rowsV
  refine ⟨?_, ?_, ?_⟩
  · intro v; rw [tableView_ok hlT]; exact hT v
  · intro v; rw [tableView_ok hlC]; exact hC v
  · intro v; rw [tableView_ok hlV]; exact hV v

/-- the first `_Columns` row of a table with at least one column -/
theorem first_colRow (t : Table) (h : t.columns ≠ []) :
    ∃ c, c ∈ colRowsOf t ∧ c.getD 0 .null = .str t.name := by
  have hpos : 0 < t.columns.length := List.length_pos_iff.mpr h
  have hm := (mem_entriesOf t (t.name, 1 + 0, t.columns[0].name, bitsOf t.columns[0])).mpr ⟨0, hpos, rfl⟩
  exact ⟨_, List.mem_map.mpr ⟨_, hm, rfl⟩, rfl⟩

/-- `_Tables` never shows more rows than `_Columns` -/
theorem tables_le_columns (slack : Nat → Nat) (s : Pkg) (tabs : List Table) (hC : Core slack s tabs) :
    (tableView s (Catalog.tablesTable s.pool.longRefs)).length ≤
      (tableView s (Catalog.columnsTable s.pool.longRefs)).length := by
  obtain ⟨hT, hCv, -⟩ := catalog_views s tabs hC.rows
  have htt : Catalog.tablesTable s.pool.longRefs ∈ s.tables := (hC.mem _).mpr (Or.inr (Or.inl rfl))
  have hn := ascending_nodup (view_ascending s hC.sorted _ htt)
  apply length_le_of_nodup_subset _ _ (fun row => [row.getD 0 .null]) hn
  intro x hx
  obtain ⟨t, ht, rfl⟩ := (hT x).mp hx
  obtain ⟨c, hc, hc0⟩ := first_colRow t (hC.ok t ht).2.1
  exact List.mem_map.mpr ⟨c, (hCv c).mpr ⟨t, ht, hc⟩, by rw [hc0]⟩

/-- `_Validation` never shows more rows than `_Columns` -/
theorem validation_le_columns (slack : Nat → Nat) (s : Pkg) (tabs : List Table) (hC : Core slack s tabs)
    (hv : Catalog.validationTable s.pool.longRefs ∈ tabs) :
    (tableView s (Catalog.validationTable s.pool.longRefs)).length ≤
      (tableView s (Catalog.columnsTable s.pool.longRefs)).length := by
  obtain ⟨-, hCv, hV⟩ := catalog_views s tabs hC.rows
  have hvt : Catalog.validationTable s.pool.longRefs ∈ s.tables := (hC.mem _).mpr (Or.inr (Or.inr hv))
  have hasc := view_ascending s hC.sorted _ hvt
  have hn : ((tableView s (Catalog.validationTable s.pool.longRefs)).map
      (keyV (Catalog.validationTable s.pool.longRefs))).Nodup := by
    unfold Ascending at hasc
    exact hasc.imp fun hab e => by rw [e, MsiProofs.Order.keyLt_irrefl] at hab; cases hab
  have := length_le_of_nodup_subset _ (tableView s (Catalog.columnsTable s.pool.longRefs))
    (fun row => [row.getD 0 .null, row.getD 2 .null]) hn (by
      intro k hk
      obtain ⟨v, hvm, rfl⟩ := List.mem_map.mp hk
      obtain ⟨t, ht, hvt'⟩ := (hV v).mp hvm
      obtain ⟨c, hcm, rfl⟩ := List.mem_map.mp hvt'
      obtain ⟨j, hj, hcj⟩ := List.getElem_of_mem hcm
      have hno := hC.namesOk t ht
      obtain ⟨-, h0, h1⟩ := keyOfV_valRow t.name c hno.1 (hno.2 c hcm)
      have hm := (mem_entriesOf t (t.name, 1 + j, t.columns[j].name, bitsOf t.columns[j])).mpr ⟨j, hj, rfl⟩
      refine List.mem_map.mpr ⟨[.str t.name, .int (Int32.ofNat (1 + j)), .str t.columns[j].name, .int (bitsOf t.columns[j])],
        (hCv _).mpr ⟨t, ht, List.mem_map.mpr ⟨_, hm, rfl⟩⟩, ?_⟩
      rw [key_validation, h0, h1, hcj]
      rfl)
  simpa using this


/-! ### the checks of the three catalog inserts -/

/-- the up-front checks include the validity of all three sets of catalog rows -/
theorem createError_valid (s : Pkg) (name : List Char) (cols : List Column) (h : createError s name cols = none) :
    rowsValidFor (Catalog.columnsTable false) (catalogRowsColumns name cols) = true ∧
    rowsValidFor (Catalog.tablesTable false) [[.str name]] = true ∧
    rowsValidFor (Catalog.validationTable false) (catalogRowsValidation name cols) = true := by
  unfold createError at h
  by_cases h1 : (!Table.isValidName name) = true
  · rw [if_pos h1] at h; cases h
  rw [if_neg h1] at h
  by_cases hres : isPoolName name = true
  · rw [if_pos hres] at h; cases h
  rw [if_neg hres] at h
  by_cases h2 : cols.isEmpty = true
  · rw [if_pos h2] at h; cases h
  rw [if_neg h2] at h
  by_cases h3 : cols.length > Gen.maxTableColumns
  · rw [if_pos h3] at h; cases h
  rw [if_neg h3] at h
  by_cases h4 : (!cols.any (·.isPrimaryKey)) = true
  · rw [if_pos h4] at h; cases h
  rw [if_neg h4] at h
  by_cases h5 : cols.any (fun c => !Category.validate .identifier c.name) = true
  · rw [if_pos h5] at h; cases h
  rw [if_neg h5] at h
  by_cases h6 : hasDuplicateNames (cols.map (·.name)) = true
  · rw [if_pos h6] at h; cases h
  rw [if_neg h6] at h
  by_cases h7 : (s.findTable name).isSome = true
  · rw [if_pos h7] at h; cases h
  rw [if_neg h7] at h
  by_cases h8 : cols.any (fun c => !isStorable c) = true
  · rw [if_pos h8] at h; cases h
  rw [if_neg h8] at h
  by_cases h9 : (!rowsValidFor (Catalog.columnsTable false) (catalogRowsColumns name cols)) = true
  · rw [if_pos h9] at h; cases h
  rw [if_neg h9] at h
  by_cases h10 : (!rowsValidFor (Catalog.tablesTable false) [[.str name]]) = true
  · rw [if_pos h10] at h; cases h
  rw [if_neg h10] at h
  by_cases h11 : (!rowsValidFor (Catalog.validationTable false) (catalogRowsValidation name cols)) = true
  · rw [if_pos h11] at h; cases h
  exact ⟨by simpa using h9, by simpa using h10, by simpa using h11⟩

/-- validated rows pass the gate's validity test -/
theorem valid_of_rowsValid (t : Table) (rows : List (List Value)) (h : rowsValidFor t rows = true) :
    (rows.any fun r => (t.columns.zip r).any fun x => !x.1.isValidValue x.2) = false := by
  unfold rowsValidFor at h
  rw [List.any_eq_false]
  intro r hr
  have h1 := List.all_eq_true.mp h r hr
  simp only [Bool.not_eq_true]
  rw [List.any_eq_false]
  intro x hx
  have := List.all_eq_true.mp h1 x hx
  simpa using this

/-- the gate of an insert whose rows have the right arity, are valid and carry fresh, pairwise
different keys: only the row bound is left -/
theorem gate_fresh (t : Table) (shown : List (List Value)) (rows : List (List Value))
    (har : ∀ r ∈ rows, r.length = t.columns.length) (hval : rowsValidFor t rows = true)
    (hkeys : checkNewV t shown (rows.map fun r => r.map storable) [] = none) :
    gate t shown rows = if shown.length + rows.length > Gen.maxTableRows then some .invalidInput else none := by
  unfold gate
  have h1 : (rows.any fun r => decide (r.length ≠ t.columns.length)) = false := by
    rw [List.any_eq_false]; intro r hr; simpa using har r hr
  simp only [h1, valid_of_rowsValid t rows hval, Bool.false_eq_true, if_false, hkeys]

theorem nodup_map_on {α β} (f : α → β) (l : List α) (hinj : ∀ a ∈ l, ∀ b ∈ l, f a = f b → a = b)
    (h : l.Nodup) : (l.map f).Nodup := by
  rw [List.Nodup, List.pairwise_map]
  exact h.imp_of_mem (fun ha hb hne e => hne (hinj _ ha _ hb e))

theorem ofNat_inj (a b : Nat) (ha : a < 2147483648) (hb : b < 2147483648) (h : Int32.ofNat a = Int32.ofNat b) : a = b := by
  have h1 := (ofNat_toNat a ha).1
  have h2 := (ofNat_toNat b hb).1
  rw [h] at h1
  omega

/-- the key checks of the `_Columns` insert pass -/
theorem keys_columns (long : Bool) (shown : List (List Value)) (tabs : List Table)
    (hshown : ∀ v, v ∈ shown → ∃ t ∈ tabs, v ∈ colRowsOf t)
    (name : List Char) (cols : List Column) (hn : name ≠ []) (hc : ∀ c ∈ cols, c.name ≠ [])
    (hsmall : cols.length < 2147483647) (hfresh : ∀ t ∈ tabs, t.name ≠ name) :
    checkNewV (Catalog.columnsTable long) shown ((catalogRowsColumns name cols).map fun r => r.map storable) [] = none := by
  rw [colRows_new name cols long hn hc]
  apply checkNewV_none
  · intro r hr row hrow
    obtain ⟨t, ht, hrt⟩ := hshown row hrow
    obtain ⟨e, he, rfl⟩ := List.mem_map.mp hrt
    obtain ⟨e', he', rfl⟩ := List.mem_map.mp hr
    obtain ⟨j, hj, rfl⟩ := (mem_entriesOf t e).mp he
    obtain ⟨j', hj', rfl⟩ := (mem_entriesOf _ e').mp he'
    rw [key_columns, key_columns]
    intro hk
    simp only [List.getD_cons_zero, List.cons.injEq, Value.str.injEq] at hk
    exact hfresh t ht hk.1
  · -- the new keys are (name, 1), (name, 2), ...
    have hmap : ((colRowsOf ⟨name, cols, long⟩).map (keyV (Catalog.columnsTable long))) =
        (cols.zipIdx.map fun x => [Value.str name, Value.int (Int32.ofNat (1 + x.2))]) := by
      unfold colRowsOf entriesOf
      simp only [List.map_map]
      apply List.map_congr_left
      intro x _
      rfl
    rw [hmap]
    have hidx : (cols.zipIdx.map Prod.snd) = List.range' 0 cols.length := List.zipIdx_map_snd _ _
    have hnd : (cols.zipIdx.map Prod.snd).Nodup := by rw [hidx]; exact List.nodup_range'
    have hlt : ∀ x ∈ cols.zipIdx, x.2 < cols.length := by
      intro x hx
      have := List.mem_zipIdx hx
      omega
    have : (cols.zipIdx.map fun x => [Value.str name, Value.int (Int32.ofNat (1 + x.2))]) =
        (cols.zipIdx.map Prod.snd).map fun j => [Value.str name, Value.int (Int32.ofNat (1 + j))] := by
      rw [List.map_map]; rfl
    rw [this]
    refine nodup_map_on _ _ ?_ hnd
    intro a ha b hb hab
    simp only [List.cons.injEq, Value.int.injEq, and_true, true_and] at hab
    obtain ⟨xa, hxa, rfl⟩ := List.mem_map.mp ha
    obtain ⟨xb, hxb, rfl⟩ := List.mem_map.mp hb
    have := ofNat_inj (1 + xa.2) (1 + xb.2) (by have := hlt xa hxa; omega) (by have := hlt xb hxb; omega) hab
    omega
  · intro r _ h; cases h

/-- the key checks of the `_Tables` insert pass -/
theorem keys_tables (long : Bool) (shown : List (List Value)) (tabs : List Table)
    (hshown : ∀ v, v ∈ shown → ∃ t ∈ tabs, v = [Value.str t.name])
    (name : List Char) (hn : name ≠ []) (hfresh : ∀ t ∈ tabs, t.name ≠ name) :
    checkNewV (Catalog.tablesTable long) shown (([[Value.str name]] : List (List Value)).map fun r => r.map storable) [] = none := by
  rw [tabRows_new name hn]
  apply checkNewV_none
  · intro r hr row hrow
    obtain ⟨t, ht, rfl⟩ := hshown row hrow
    simp only [List.mem_singleton] at hr
    subst hr
    rw [key_tables, key_tables]
    intro hk
    simp only [List.getD_cons_zero, List.cons.injEq, Value.str.injEq, and_true] at hk
    exact hfresh t ht hk
  · simp
  · intro r _ h; cases h

/-- the key checks of the `_Validation` insert pass -/
theorem keys_validation (long : Bool) (shown : List (List Value)) (tabs : List Table) (hno : NamesOk tabs)
    (hshown : ∀ v, v ∈ shown → ∃ t ∈ tabs, v ∈ valRowsOf t)
    (name : List Char) (cols : List Column) (hn : name ≠ []) (hc : ∀ c ∈ cols, c.name ≠ [])
    (hnd : (cols.map fun (c : Column) => c.name).Nodup) (hfresh : ∀ t ∈ tabs, t.name ≠ name) :
    checkNewV (Catalog.validationTable long) shown ((catalogRowsValidation name cols).map fun r => r.map storable) [] = none := by
  rw [valRows_new name cols long]
  apply checkNewV_none
  · intro r hr row hrow
    obtain ⟨t, ht, hrt⟩ := hshown row hrow
    obtain ⟨c, hcm, rfl⟩ := List.mem_map.mp hrt
    obtain ⟨c', hcm', rfl⟩ := List.mem_map.mp hr
    obtain ⟨-, h0, -⟩ := keyOfV_valRow t.name c (hno t ht).1 ((hno t ht).2 c hcm)
    obtain ⟨-, h0', -⟩ := keyOfV_valRow name c' hn (hc c' hcm')
    rw [key_validation, key_validation, h0, h0']
    intro hk
    simp only [List.cons.injEq, Value.str.injEq] at hk
    exact hfresh t ht hk.1
  · have hmap : ((valRowsOf ⟨name, cols, long⟩).map (keyV (Catalog.validationTable long))) =
        cols.map fun c => [Value.str name, Value.str c.name] := by
      unfold valRowsOf
      simp only [List.map_map]
      apply List.map_congr_left
      intro c hcm
      obtain ⟨-, h0, h1⟩ := keyOfV_valRow name c hn (hc c hcm)
      simp only [Function.comp, key_validation, h0, h1]
    rw [hmap]
    have : (cols.map fun c => [Value.str name, Value.str c.name]) =
        (cols.map fun (c : Column) => c.name).map fun n => [Value.str name, Value.str n] := by
      rw [List.map_map]; rfl
    rw [this]
    refine nodup_map_on _ _ ?_ hnd
    intro a _ b _ hab
    simpa using hab
  · intro r _ h; cases h


/-! ### the three stages -/

theorem arity_columns (name : List Char) (cols : List Column) (long : Bool) :
    ∀ r ∈ catalogRowsColumns name cols, r.length = (Catalog.columnsTable long).columns.length := by
  intro r hr
  unfold catalogRowsColumns at hr
  obtain ⟨x, -, rfl⟩ := List.mem_map.mp hr
  rfl

theorem arity_validation (name : List Char) (cols : List Column) (long : Bool) :
    ∀ r ∈ catalogRowsValidation name cols, r.length = (Catalog.validationTable long).columns.length := by
  intro r hr
  unfold catalogRowsValidation at hr
  obtain ⟨c, -, rfl⟩ := List.mem_map.mp hr
  rfl

/-- a refused insert through `insert_rows` leaves nothing but the pending-finisher flag -/
theorem insertRows_refused (slack : Nat → Nat) (s : Pkg) (hI : Inv slack s) (tn : List Char) (R : List (List Value))
    (h : (insertRows s tn R).2 ≠ .ok ()) : (insertRows s tn R).1 = { s with finisher := true } :=
  insert_refused_noop slack _ tn R (inv_finisher slack s hI) h

/-- the room check passed for a registered catalog table: its rows and the new ones fit -/
theorem room_fits (s : Pkg) (catalog key name : List Char) (n : Nat) (t : Table)
    (hf : s.findTable catalog = some t) (h : catalogRoomOne s catalog key name n = .ok ()) :
    (tableView s t).length + n ≤ Gen.maxTableRows := by
  unfold catalogRoomOne at h
  rw [hf] at h
  simp only at h
  unfold tableView rowsOf
  cases hl : s.loadRows t with
  | err k => rw [hl] at h; cases h
  | panic w => rw [hl] at h; cases h
  | ok rows =>
    rw [hl] at h
    simp only at h
    by_cases hgt : rows.length + n > Gen.maxTableRows
    · rw [if_pos hgt] at h; cases h
    · simp only [List.length_map]; omega

theorem room_columns (s : Pkg) (name : List Char) (cols : List Column) (h : catalogRoom s name cols = .ok ()) :
    catalogRoomOne s Gen.nameColumns.toList "Table".toList name cols.length = .ok () := by
  unfold catalogRoom at h
  split at h
  · cases h
  cases h1 : catalogRoomOne s Gen.nameColumns.toList "Table".toList name cols.length with
  | ok u => cases u; rfl
  | err k => rw [h1] at h; cases h
  | panic w => rw [h1] at h; cases h

/-- **`create_table` is atomic**: with the full package invariant, once the up-front checks pass
the call either succeeds, or hits the capacity panic, or is refused by the first catalog insert
(the row bound of `_Columns`) having changed nothing but the pending-finisher flag -/
theorem createTable_atomic (slack : Nat → Nat) (s : Pkg) (tabs : List Table) (hF : Full slack s tabs)
    (hN : NoOrphans s) (hV : MsiProofs.ValidCells.ValidAll s) (name : List Char) (cols : List Column)
    (hce : createError s name cols = none) :
    (createTable s name cols).2 = .ok () ∨ (∃ w, (createTable s name cols).2 = .panic w) ∨
    ((∃ k, (createTable s name cols).2 = .err k) ∧ (createTable s name cols).1 = s) := by
  have hC := hF.core
  have hf := createError_facts s name cols hce
  obtain ⟨hv1, hv2, hv3⟩ := createError_valid s name cols hce
  have hvn := hf.validName
  simp only [Table.isValidName, Bool.and_eq_true] at hvn
  have hname : name ≠ [] := identifier_ne_nil name hvn.1
  have hnewS : ∀ x ∈ s.tables, x.name ≠ name := findTable_none_ne s name hf.fresh
  have hnewT : ∀ t ∈ tabs, t.name ≠ name := fun t ht => hnewS t ((hC.mem t).mpr (Or.inr (Or.inr ht)))
  obtain ⟨hvT, hvC, hvV⟩ := catalog_views s tabs hC.rows
  have hct : Catalog.columnsTable s.pool.longRefs ∈ s.tables := (hC.mem _).mpr (Or.inl rfl)
  have htt : Catalog.tablesTable s.pool.longRefs ∈ s.tables := (hC.mem _).mpr (Or.inr (Or.inl rfl))
  have hvt : Catalog.validationTable s.pool.longRefs ∈ s.tables := (hC.mem _).mpr (Or.inr (Or.inr hF.hasVal))
  have hXc : s.findTable Gen.nameColumns.toList = some (Catalog.columnsTable s.pool.longRefs) := hC.find _ hct
  have hXt : s.findTable Gen.nameTables.toList = some (Catalog.tablesTable s.pool.longRefs) := hC.find _ htt
  have hXv : s.findTable Gen.nameValidation.toList = some (Catalog.validationTable s.pool.longRefs) := hC.find _ hvt
  have hnC : name ≠ Gen.nameColumns.toList := fun e => hnewS _ hct e.symm
  have hnT : name ≠ Gen.nameTables.toList := fun e => hnewS _ htt e.symm
  have hnV : name ≠ Gen.nameValidation.toList := fun e => hnewS _ hvt e.symm
  have hle1 := tables_le_columns slack s tabs hC
  have hle2 := validation_le_columns slack s tabs hC hF.hasVal
  unfold createTable
  simp only [hce]
  -- the room check: refused there, nothing at all has changed
  cases hroom : catalogRoom s name cols with
  | err k => exact Or.inr (Or.inr ⟨⟨k, rfl⟩, rfl⟩)
  | panic w => exact Or.inr (Or.inl ⟨w, rfl⟩)
  | ok u =>
  cases u
  simp only
  -- stage 1: `_Columns`
  have hIA := inv_finisher slack s hC.inv
  have hSA := sorted_finisher s hC.sorted
  have g1 := insert_reply slack { s with finisher := true } hIA hSA Gen.nameColumns.toList
    (catalogRowsColumns name cols) (Catalog.columnsTable s.pool.longRefs) hXc
  have hview1 : tableView { s with finisher := true } (Catalog.columnsTable s.pool.longRefs) =
      tableView s (Catalog.columnsTable s.pool.longRefs) := rfl
  rw [hview1, gate_fresh _ _ _ (arity_columns name cols _)
    (show rowsValidFor (Catalog.columnsTable s.pool.longRefs) _ = true from hv1)
    (keys_columns _ _ tabs (fun v hv => (hvC v).mp hv) name cols hname hf.colNames hf.small hnewT)] at g1
  have hrw1 : insertExec { s with finisher := true } Gen.nameColumns.toList (catalogRowsColumns name cols) =
      insertRows s Gen.nameColumns.toList (catalogRowsColumns name cols) := rfl
  rw [hrw1] at g1
  by_cases hfull : (tableView s (Catalog.columnsTable s.pool.longRefs)).length + (catalogRowsColumns name cols).length >
      Gen.maxTableRows
  · -- impossible: the room check has just established that the rows fit
    exfalso
    have := room_fits s Gen.nameColumns.toList "Table".toList name cols.length _ hXc (room_columns s name cols hroom)
    have hlenC' : (catalogRowsColumns name cols).length = cols.length := by unfold catalogRowsColumns; simp
    rw [hlenC'] at hfull
    omega
  simp only [hfull, if_false] at g1
  generalize hr1 : insertRows s Gen.nameColumns.toList (catalogRowsColumns name cols) = r1 at g1
  obtain ⟨s1, res1⟩ := r1
  simp only at g1
  rcases g1 with g1 | ⟨w, g1⟩
  rotate_left
  · subst g1; exact Or.inr (Or.inl ⟨w, rfl⟩)
  subst g1
  simp only
  obtain ⟨hI1, hS1, hV1, ht1, hl1, ho1, hc1⟩ :=
    MsiProofs.RelationalApi.insertRows_frame slack s hC.inv hC.sorted hV _ _ s1 hr1
  -- the number of rows `_Columns` now shows
  have hlenC : (catalogRowsColumns name cols).length = cols.length := by
    unfold catalogRowsColumns; simp
  -- stage 2: `_Tables`
  have hXt1 : s1.findTable Gen.nameTables.toList = some (Catalog.tablesTable s.pool.longRefs) := by
    rw [findTable_congr ht1]; exact hXt
  have hIA1 := inv_finisher slack s1 hI1
  have hSA1 := sorted_finisher s1 hS1
  have g2 := insert_reply slack { s1 with finisher := true } hIA1 hSA1 Gen.nameTables.toList
    [[.str name]] (Catalog.tablesTable s.pool.longRefs) hXt1
  have hview2 : tableView { s1 with finisher := true } (Catalog.tablesTable s.pool.longRefs) =
      tableView s (Catalog.tablesTable s.pool.longRefs) :=
    ho1 _ htt (by show Gen.nameTables.toList ≠ Gen.nameColumns.toList; decide)
  have hposc : 0 < cols.length := List.length_pos_iff.mpr hf.nonempty
  rw [hview2, gate_fresh _ _ _ (by intro r hr; simp only [List.mem_singleton] at hr; subst hr; rfl)
    (show rowsValidFor (Catalog.tablesTable s.pool.longRefs) _ = true from hv2)
    (keys_tables _ _ tabs (fun v hv => (hvT v).mp hv) name hname hnewT)] at g2
  have hfit2 : ¬ ((tableView s (Catalog.tablesTable s.pool.longRefs)).length + ([[Value.str name]] : List (List Value)).length >
      Gen.maxTableRows) := by
    simp only [List.length_cons, List.length_nil]
    rw [hlenC] at hfull
    omega
  simp only [hfit2, if_false] at g2
  have hrw2 : insertExec { s1 with finisher := true } Gen.nameTables.toList [[.str name]] =
      insertRows s1 Gen.nameTables.toList [[.str name]] := rfl
  rw [hrw2] at g2
  generalize hr2 : insertRows s1 Gen.nameTables.toList [[.str name]] = r2 at g2
  obtain ⟨s2, res2⟩ := r2
  simp only at g2
  rcases g2 with g2 | ⟨w, g2⟩
  rotate_left
  · subst g2; exact Or.inr (Or.inl ⟨w, rfl⟩)
  subst g2
  simp only
  obtain ⟨hI2, hS2, hV2, ht2, hl2, ho2, hc2⟩ :=
    MsiProofs.RelationalApi.insertRows_frame slack s1 hI1 hS1 hV1 _ _ s2 hr2
  have htabs2 : s2.tables = s.tables := by rw [ht2, ht1]
  have hlong2 : s2.pool.longRefs = s.pool.longRefs := by rw [hl2, hl1]
  -- stage 3: the definition joins the table list; stage 4: `_Validation`
  rw [hlong2]
  let T : Table := ⟨name, cols, s.pool.longRefs⟩
  have hkey : ∀ x ∈ s.tables, key (StreamName.encode name true) ≠ key x.streamName := by
    intro x hx e
    have := MsiProofs.Synced.table_stream_injective name x.name hvn.2 (hN.valid x hx) e
    exact hnewS x hx this.symm
  have hempty : dataOf s.cont (StreamName.encode name true) = none := MsiProofs.Lifecycle.fresh_of_noOrphans s hN name cols hce
  have hkeyT : ∀ (tn : List Char) (sx : Pkg), sx.tables = s.tables → ∀ t, sx.findTable tn = some t →
      key t.streamName ≠ key (StreamName.encode name true) := by
    intro tn sx hsx t hft
    have := hkey t (hsx ▸ findTable_spec sx tn t hft)
    exact fun e => this e.symm
  have hd1 : dataOf s1.cont (StreamName.encode name true) = none := by
    rw [hc1 _ (hkeyT _ s rfl)]; exact hempty
  have hd2 : dataOf s2.cont (StreamName.encode name true) = none := by
    rw [hc2 _ (hkeyT _ s1 ht1)]; exact hd1
  have hfind2 : Cont.find s2.cont T.streamName = none := find_none_of_dataOf hd2
  have hnew2 : ∀ x ∈ s2.tables, x.name ≠ T.name := by rw [htabs2]; exact hnewS
  have hpos : 0 < T.rowSize := rowSize_pos _ hf.nonempty
  have hI3 : Inv slack (withTable s2 T) := inv_add_table slack s2 hI2 T hnew2
    (by rw [htabs2]; exact hkey) hfind2 hlong2 hpos
  have hS3 : SortedAll (withTable s2 T) := sorted_add_table s2 hS2 T hnew2 hfind2
  have hXv3 : (withTable s2 T).findTable Gen.nameValidation.toList = some (Catalog.validationTable s.pool.longRefs) := by
    show Pkg.findTable { s2 with tables := insertTable s2.tables T } _ = _
    unfold Pkg.findTable
    simp only
    rw [find_insertTable_other s2.tables T _ hnV hnew2]
    have := findTable_congr htabs2 Gen.nameValidation.toList
    unfold Pkg.findTable at this
    rw [this]; exact hXv
  have g4 := insert_reply slack { withTable s2 T with finisher := true } (inv_finisher slack _ hI3)
    (sorted_finisher _ hS3) Gen.nameValidation.toList (catalogRowsValidation name cols)
    (Catalog.validationTable s.pool.longRefs) hXv3
  have hview4 : tableView { withTable s2 T with finisher := true } (Catalog.validationTable s.pool.longRefs) =
      tableView s (Catalog.validationTable s.pool.longRefs) := by
    have e1 : tableView { withTable s2 T with finisher := true } (Catalog.validationTable s.pool.longRefs) =
        tableView s2 (Catalog.validationTable s.pool.longRefs) := rfl
    rw [e1, ho2 _ (by rw [ht1]; exact hvt) (by show Gen.nameValidation.toList ≠ Gen.nameTables.toList; decide),
      ho1 _ hvt (by show Gen.nameValidation.toList ≠ Gen.nameColumns.toList; decide)]
  rw [hview4, gate_fresh _ _ _ (arity_validation name cols _)
    (show rowsValidFor (Catalog.validationTable s.pool.longRefs) _ = true from hv3)
    (keys_validation _ _ tabs hC.namesOk (fun v hv => (hvV v).mp hv) name cols hname hf.colNames hf.colNodup hnewT)] at g4
  have hlenV : (catalogRowsValidation name cols).length = cols.length := by
    unfold catalogRowsValidation; simp
  have hfit4 : ¬ ((tableView s (Catalog.validationTable s.pool.longRefs)).length + (catalogRowsValidation name cols).length >
      Gen.maxTableRows) := by
    rw [hlenV]; rw [hlenC] at hfull; omega
  simp only [hfit4, if_false] at g4
  have hrw4 : insertExec { withTable s2 T with finisher := true } Gen.nameValidation.toList (catalogRowsValidation name cols) =
      insertRows { s2 with tables := insertTable s2.tables T } Gen.nameValidation.toList (catalogRowsValidation name cols) := rfl
  rw [hrw4] at g4
  rcases g4 with g4 | ⟨w, g4⟩
  · exact Or.inl g4
  · exact Or.inr (Or.inl ⟨w, g4⟩)

end MsiProofs.CreateAtomic
