import MsiProofs.Lemmas.DropTableMain
/-
The remaining mutating calls of the package API — stream writes and removals, signature removal,
summary setters, the database code page — keep every invariant: they touch no table stream and no
pool string.
-/
namespace MsiProofs.OtherCalls
open MsiModel MsiModel.Bytes MsiModel.Pkg MsiModel.StreamName MsiProofs.CatalogSync
open MsiProofs.GlobalInv MsiProofs.SaveOpen MsiProofs.CreateTable MsiProofs.FullHistory

/-- a signature stream is not a table stream -/
theorem sig_ne_table (tn : List Char) :
    key Gen.snDigitalSignature.toList ≠ key (encode tn true) ∧
    key Gen.snMsiDigitalSignatureEx.toList ≠ key (encode tn true) := by
  have hup := MsiProofs.Synced.map_upper_encoded tn
  constructor <;>
  · intro h
    unfold key at h
    have h2 := (Prod.mk.inj h).2
    rw [hup] at h2
    unfold encode at h2
    simp only [if_true, List.singleton_append] at h2
    have h3 := congrArg List.head? h2
    simp only [List.head?_cons] at h3
    revert h3
    decide

/-- a change of the container that leaves every table stream alone, and of the pool that leaves
every string alone, keeps every invariant -/
theorem full_transfer (slack : Nat → Nat) (s s' : Pkg) (tabs : List Table) (hF : Full slack s tabs) (hN : NoOrphans s)
    (htabs : s'.tables = s.tables) (hstr : s'.pool.strings = s.pool.strings)
    (hlong : s'.pool.longRefs = s.pool.longRefs)
    (hcont : ∀ tn, dataOf s'.cont (encode tn true) = dataOf s.cont (encode tn true))
    (hmeta : MsiProofs.Synced.Synced s') : Full slack s' tabs ∧ NoOrphans s' := by
  refine ⟨⟨core_transfer slack s s' tabs hF.core htabs hstr hlong
    (fun t _ => loadRows_congr s s' t (hcont t.name)) hmeta, by rw [hlong]; exact hF.hasVal⟩, ?_⟩
  refine ⟨fun x hx => hN.valid x (htabs ▸ hx), ?_⟩
  intro n hv hm hd
  rw [hcont n] at hd
  rw [htabs]
  exact hN.owned n hv hm hd

theorem writeStream_full (slack : Nat → Nat) (s : Pkg) (tabs : List Table) (hF : Full slack s tabs) (hN : NoOrphans s)
    (n : List Char) (d : Bytes) : Full slack (writeStream s n d).1 tabs ∧ NoOrphans (writeStream s n d).1 := by
  have hm := (MsiProofs.Synced.op_step s (.writeStream n d) hF.core.metaSync hF.core.sep).1
  have hm' : MsiProofs.Synced.Synced (writeStream s n d).1 := hm
  unfold writeStream at hm' ⊢
  by_cases hv : (!isValid n false) = true
  · rw [if_pos hv]; exact ⟨hF, hN⟩
  · rw [if_neg hv] at hm' ⊢
    have hv' : isValid n false = true := by simpa using hv
    exact full_transfer slack s _ tabs hF hN rfl rfl rfl
      (fun tn => dataOf_put_other s.cont _ _ d (fun e => MsiProofs.StreamsMap.user_ne_table n tn hv' e.symm)) hm'

theorem removeStream_full (slack : Nat → Nat) (s : Pkg) (tabs : List Table) (hF : Full slack s tabs) (hN : NoOrphans s)
    (n : List Char) : Full slack (removeStream s n).1 tabs ∧ NoOrphans (removeStream s n).1 := by
  have hm := (MsiProofs.Synced.op_step s (.removeStream n) hF.core.metaSync hF.core.sep).1
  have hm' : MsiProofs.Synced.Synced (removeStream s n).1 := hm
  unfold removeStream at hm' ⊢
  by_cases hv : (!isValid n false) = true
  · rw [if_pos hv]; exact ⟨hF, hN⟩
  · rw [if_neg hv] at hm' ⊢
    have hv' : isValid n false = true := by simpa using hv
    simp only at hm' ⊢
    by_cases hex : (!Cont.exists_ s.cont (encode n false)) = true
    · rw [if_pos hex]; exact ⟨hF, hN⟩
    · rw [if_neg hex] at hm' ⊢
      exact full_transfer slack s _ tabs hF hN rfl rfl rfl
        (fun tn => MsiProofs.Synced.dataOf_remove_other s.cont _ _
          (fun e => MsiProofs.StreamsMap.user_ne_table n tn hv' e.symm)) hm'

theorem dataOf_cond_remove (c : List Entry) (n m : List Char) (h : key n ≠ key m) :
    dataOf (if Cont.exists_ c n = true then Cont.remove c n else c) m = dataOf c m := by
  split
  · exact MsiProofs.Synced.dataOf_remove_other c n m h
  · rfl

theorem removeSignature_full (slack : Nat → Nat) (s : Pkg) (tabs : List Table) (hF : Full slack s tabs) (hN : NoOrphans s) :
    Full slack (removeDigitalSignature s) tabs ∧ NoOrphans (removeDigitalSignature s) := by
  have hm := (MsiProofs.Synced.op_step s .removeSignature hF.core.metaSync hF.core.sep).1
  refine full_transfer slack s _ tabs hF hN rfl rfl rfl ?_ hm
  intro tn
  show dataOf (if Cont.exists_ _ Gen.snMsiDigitalSignatureEx.toList = true then _ else _) _ = _
  rw [dataOf_cond_remove _ _ _ (sig_ne_table tn).2, dataOf_cond_remove _ _ _ (sig_ne_table tn).1]

theorem setSummary_full (slack : Nat → Nat) (s : Pkg) (tabs : List Table) (hF : Full slack s tabs) (hN : NoOrphans s)
    (f : PropSet → PropSet) :
    Full slack { s with finisher := true, summaryModified := true, summary := f s.summary } tabs ∧
    NoOrphans { s with finisher := true, summaryModified := true, summary := f s.summary } :=
  full_transfer slack s _ tabs hF hN rfl rfl rfl (fun _ => rfl)
    (MsiProofs.Synced.op_step s (.setSummary f) hF.core.metaSync hF.core.sep).1

theorem setCodepage_full (slack : Nat → Nat) (s : Pkg) (tabs : List Table) (hF : Full slack s tabs) (hN : NoOrphans s)
    (cp : Nat) :
    Full slack { s with finisher := true, pool := { s.pool with codepage := cp, modified := true } } tabs ∧
    NoOrphans { s with finisher := true, pool := { s.pool with codepage := cp, modified := true } } :=
  full_transfer slack s _ tabs hF hN rfl rfl rfl (fun _ => rfl)
    (MsiProofs.Synced.op_step s (.setCodepage cp) hF.core.metaSync hF.core.sep).1

end MsiProofs.OtherCalls
