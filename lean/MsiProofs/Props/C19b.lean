import MsiProofs.Props.C19
import MsiProofs.Lemmas.StmtRead
import MsiProofs.Lemmas.StmtLex
import MsiModel.QueryFmt
import MsiModel.Gen.Stmt
/-
C19 for statements.  The words and signs of a printed `UPDATE`, `DELETE` or `INSERT`, in order,
determine the statement: a reader over those tokens returns the table, every assignment with its
value in order (a column assigned twice stays assigned twice, the later one last), every row of
values, and the condition as the same expression tree (read by the expression reader of C19).
From characters (`StmtLex`): a reader of the printed TEXT - keywords with their blanks, identifiers,
literals cut off at `,`, blank or `)` (or at the closing quote) and handed to the expression lexer,
the condition after ` WHERE ` read by `readText` of C19 - gives back the statement that was printed
(`update_text_reads`, `delete_text_reads`, `insert_text_reads`), for identifier names, literals
without escapes and conditions in the domain of the expression theorem.
`SELECT` with joins: tied by correspondence and the reference reader of the harness only.
-/
namespace MsiProofs.C19
open MsiModel MsiProofs.StmtRead

def readDelete_toks := @MsiProofs.StmtRead.readDelete_toks
def readUpdate_toks := @MsiProofs.StmtRead.readUpdate_toks
def readInsert_toks := @MsiProofs.StmtRead.readInsert_toks
def readAssigns_toks := @MsiProofs.StmtRead.readAssigns_toks
def readRows_toks := @MsiProofs.StmtRead.readRows_toks

/-- the token list is the text, word by word: an update that assigns one column twice and carries
a condition (kernel-evaluated on the model of `impl Display for Update`) -/
theorem demo_update_text :
    QueryFmt.fmtUpdate "Tab".toList [("A".toList, .int 0), ("S".toList, .str "none".toList), ("A".toList, .int 7)]
      (some (.bin .lt (.col "K".toList) (.lit (.int 5)))) =
    some "UPDATE Tab SET A = 0, S = \"none\", A = 7 WHERE K < 5".toList := by decide +kernel

/-- and its tokens read back as the statement it is, both assignments to `A` in place -/
theorem demo_update_reads :
    readUpdate (updateToks "Tab".toList [("A".toList, .int 0), ("S".toList, .str "none".toList), ("A".toList, .int 7)]
      (some (.bin .lt (.col "K".toList) (.lit (.int 5))))) =
    some ("Tab".toList, [("A".toList, .int 0), ("S".toList, .str "none".toList), ("A".toList, .int 7)],
      some (.bin .lt (.col "K".toList) (.lit (.int 5)))) :=
  readUpdate_toks _ _ (by simp) _


/-- **the words and signs the printers write** (regenerated from the `Display` implementations of
query.rs, per implementation in source order, with the number of `write!` calls - none) are the
ones the model of the printers (QueryFmt) spells out and the readers above expect -/
theorem stmt_spellings : Gen.displayLits =
    [("Delete", ["DELETE FROM ", " WHERE "], 0),
     ("Insert", ["INSERT INTO ", " VALUES ", ", ", "(", ", ", ")"], 0),
     ("Join", [" INNER JOIN ", " ON ", " LEFT JOIN ", " ON "], 0),
     ("Select", ["SELECT ", "*", ", ", " FROM ", " WHERE "], 0),
     ("Update", ["UPDATE ", " SET ", ", ", " = ", " WHERE "], 0),
     ("format_for_join", ["(", ")"], 0)] := by decide +kernel

/-- and the model prints with them: an INSERT of two rows, a DELETE, a nested join (kernel-evaluated) -/
theorem demo_printers_use_them :
    QueryFmt.fmtInsert "T".toList [[.int 1, .null], []] = some "INSERT INTO T VALUES (1, NULL), ()".toList ∧
    QueryFmt.fmtDelete "T".toList (some (.col "A".toList)) = some "DELETE FROM T WHERE A".toList ∧
    QueryFmt.fmtSelect (.mk (.left (.mk (.table "A".toList) [] none) (.mk (.table "B".toList) ["X".toList] none) (.col "Y".toList)) ["P".toList, "Q".toList] none)
      = some "SELECT P, Q FROM A LEFT JOIN (SELECT X FROM B) ON Y".toList := by decide +kernel

/-! ### from characters -/
open MsiProofs.StmtLex MsiProofs.ExprLex MsiModel.StmtLex

/-- **a printed UPDATE, read from its characters, is the statement that was printed**: the table,
every assignment with its value in order, and the condition as the same expression tree -/
theorem update_text_reads (t : List Char) (ups : List (List Char × Value)) (cond : Option Ast)
    (ht : GoodIdent t) (hne : ups ≠ []) (hid : ∀ p ∈ ups, GoodIdent p.1) (hg : GoodCond cond)
    (s : List Char) (h : QueryFmt.fmtUpdate t ups cond = some s) :
    readUpdateText s = some (t, ups, cond) :=
  readUpdateText_fmt t ups cond (goodIdent_idChars ht) hne (fun p hp => goodIdent_idChars (hid p hp)) hg s h

theorem delete_text_reads (t : List Char) (cond : Option Ast) (ht : GoodIdent t) (hg : GoodCond cond)
    (s : List Char) (h : QueryFmt.fmtDelete t cond = some s) : readDeleteText s = some (t, cond) :=
  readDeleteText_fmt t cond (goodIdent_idChars ht) hg s h

theorem insert_text_reads (t : List Char) (rows : List (List Value)) (ht : GoodIdent t)
    (s : List Char) (h : QueryFmt.fmtInsert t rows = some s) : readInsertText s = some (t, rows) :=
  readInsertText_fmt t rows (goodIdent_idChars ht) s h

/-- end to end for an UPDATE whose condition is built through the API over identifier columns -/
theorem printed_update_means_same (t : List Char) (ups : List (List Char × Value)) (e : Ast)
    (ht : GoodIdent t) (hne : ups ≠ []) (hid : ∀ p ∈ ups, GoodIdent p.1)
    (hc : ∀ n ∈ e.columns, GoodIdent n) (s : List Char)
    (h : QueryFmt.fmtUpdate t ups (some e.build) = some s) :
    readUpdateText s = some (t, ups, some e.build) :=
  update_text_reads t ups (some e.build) ht hne hid (good_build e hc) s h

/-- the literal cut is needed where it is: a quoted value may hold `, ` and ` WHERE ` itself -/
theorem demo_update_text_reads :
    readUpdateText "UPDATE Tab SET A = 0, S = \"x, y WHERE z\", A = -7 WHERE K < 5".toList =
    some ("Tab".toList, [("A".toList, .int 0), ("S".toList, .str "x, y WHERE z".toList), ("A".toList, .int (-7))],
      some (.bin .lt (.col "K".toList) (.lit (.int 5)))) := by decide +kernel

theorem demo_insert_text_reads :
    readInsertText "INSERT INTO Tab VALUES (1, \"a)\", NULL), (), (-2147483648)".toList =
    some ("Tab".toList, [[.int 1, .str "a)".toList, .null], [], [.int (-2147483648)]]) := by decide +kernel

theorem demo_delete_text_reads :
    readDeleteText "DELETE FROM Tab".toList = some ("Tab".toList, none) ∧
    readDeleteText "DELETE FROM Tab WHERE NOT (A = 1 OR B = 2)".toList =
      some ("Tab".toList, some (.un .boolNot (.or (.bin .eq (.col "A".toList) (.lit (.int 1))) (.bin .eq (.col "B".toList) (.lit (.int 2)))))) := by
  decide +kernel

end MsiProofs.C19
