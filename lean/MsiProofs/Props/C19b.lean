import MsiProofs.Props.C19
import MsiProofs.Lemmas.StmtRead
import MsiModel.QueryFmt
/-
C19 for statements.  The words and signs of a printed `UPDATE`, `DELETE` or `INSERT`, in order,
determine the statement: a reader over those tokens returns the table, every assignment with its
value in order (a column assigned twice stays assigned twice, the later one last), every row of
values, and the condition as the same expression tree (read by the expression reader of C19).
What is NOT proved here: that the printed TEXT splits into exactly these tokens (lexing of
keywords, commas and quoted values); that part is tied by the reference reader of the harness on
the real output.  `SELECT` with joins: tied by correspondence and the reference reader only.
-/
namespace MsiProofs.C19
open MsiModel MsiProofs.StmtRead

def readDelete_toks := @MsiProofs.StmtRead.readDelete_toks
def readUpdate_toks := @MsiProofs.StmtRead.readUpdate_toks
def readInsert_toks := @MsiProofs.StmtRead.readInsert_toks
def readAssigns_toks := @MsiProofs.StmtRead.readAssigns_toks
def readRows_toks := @MsiProofs.StmtRead.readRows_toks

/-- the token list is the text, word by word: an update that assigns one column twice and carries
a condition (kernel-evaluated on the model of `impl Display for Update`) -/
theorem demo_update_text :
    QueryFmt.fmtUpdate "Tab".toList [("A".toList, .int 0), ("S".toList, .str "none".toList), ("A".toList, .int 7)]
      (some (.bin .lt (.col "K".toList) (.lit (.int 5)))) =
    some "UPDATE Tab SET A = 0, S = \"none\", A = 7 WHERE K < 5".toList := by decide +kernel

/-- and its tokens read back as the statement it is, both assignments to `A` in place -/
theorem demo_update_reads :
    readUpdate (updateToks "Tab".toList [("A".toList, .int 0), ("S".toList, .str "none".toList), ("A".toList, .int 7)]
      (some (.bin .lt (.col "K".toList) (.lit (.int 5))))) =
    some ("Tab".toList, [("A".toList, .int 0), ("S".toList, .str "none".toList), ("A".toList, .int 7)],
      some (.bin .lt (.col "K".toList) (.lit (.int 5)))) :=
  readUpdate_toks _ _ (by simp) _

end MsiProofs.C19
