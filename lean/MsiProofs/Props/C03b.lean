import MsiProofs.Props.C03
import MsiProofs.Lemmas.RefineLoad
import MsiProofs.Lemmas.GlobalInv
import MsiProofs.Lemmas.GlobalInvUpd
/-
C03, state level — `Insert::exec` and `Delete::exec` refine the relational insert and delete on
the package state: what the new state reads as the table's rows is, as values, what the
relational model says; the values of the other cells are unchanged; no other stream is touched.
-/
namespace MsiProofs.C03
open MsiModel MsiModel.Pkg

/-- `incref` only extends the pool: live entries keep their text -/
def incref_ext := @MsiProofs.Refine.incref_ext
/-- **insert adds exactly the rows given** (as values, "" stored as null), in key order, changes
no other value and no other stream -/
def insert_refines := @MsiProofs.Refine.insert_refines
/-- **insert, then read the table in the new state** -/
def insert_then_load := @MsiProofs.RefineLoad.insert_then_load
/-- `decref` releases one reference of one entry and nothing else -/
def decref_spec := @MsiProofs.RefineDelete.decref_spec
/-- the `retain` loop keeps exactly the rows on which the condition, on the original values, is
false; all remaining cells keep their values; the accounting keeps holding -/
def deleteGo_refines := @MsiProofs.RefineDelete.deleteGo_refines
/-- **delete removes exactly the matching rows**, changes no other value and no other stream -/
def delete_refines := @MsiProofs.RefineDelete.delete_refines
/-- **delete, then read the table in the new state** -/
def delete_then_load := @MsiProofs.RefineLoad.delete_then_load
/-- rows read from a stream fit their columns; rows that fit are read back as written -/
def readRows_rowOk := @MsiProofs.RowsOk.readRows_rowOk
def write_read := @MsiProofs.RowsOk.write_read


/-- the frame condition over the whole package: an insert or delete on one table leaves the rows
every other table reads as, and the invariant, intact; a refused one changes nothing at all -/
def history_inv := @MsiProofs.GlobalInv.history_inv
def op_inv := @MsiProofs.GlobalInv.op_inv


/-- **`Update::exec`, then read the table**: the new state reads the table as a re-ordering of rows
that are, as values, the old rows with the assignments applied to exactly the planned rows; the
accounting keeps its slack; every other cell keeps its value; no other stream is touched -/
def update_then_load := @MsiProofs.RefineUpdate.update_then_load
/-- one assignment to one cell: release, intern, replace -/
def assign_spec := @MsiProofs.RefineUpdate.assign_spec
/-- **every history of inserts, updates and deletes keeps the package invariant** -/
def dml_history_inv := @MsiProofs.GlobalInvUpd.history_inv

end MsiProofs.C03
