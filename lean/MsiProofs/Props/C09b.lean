import MsiProofs.Props.C09
import MsiProofs.Props.C13
import MsiProofs.Props.C05
/-
C09, mutating operations — `Delete::exec` never panics, on any package state whatsoever: the
rows `read_rows` returns have one cell per column, so indexing a row by a column of the table,
and writing the kept rows back, stay in range; the condition may only name columns the table has
(checked before anything is read).
-/
namespace MsiProofs.C09
open MsiModel MsiModel.Bytes MsiModel.Pkg

/-- every row has `n` cells -/
def Width (n : Nat) (rows : List (List Cell)) : Prop := ∀ r ∈ rows, r.length = n

theorem readColumn_width (long : Bool) (ty : ColType) (n : Nat) (rows : List (List Cell)) :
    ∀ (bs : Bytes) (acc rows' : List (List Cell)) (r : Bytes),
    Width n rows → Width (n + 1) acc → Table.readColumn long ty rows bs acc = .ok (rows', r) →
    Width (n + 1) rows' := by
  induction rows with
  | nil =>
    intro bs acc rows' r _ hacc h
    simp only [Table.readColumn, pure, Res.ok.injEq, Prod.mk.injEq] at h
    rw [← h.1]
    intro x hx
    exact hacc x (List.mem_reverse.mp hx)
  | cons row rest ih =>
    intro bs acc rows' r hrows hacc h
    simp only [Table.readColumn, bind, Res.bind] at h
    cases hv : ty.readValue long bs with
    | ok x =>
      obtain ⟨c, r1⟩ := x
      simp only [hv] at h
      refine ih r1 ((row ++ [c]) :: acc) rows' r (fun x hx => hrows x (by simp [hx])) ?_ h
      intro x hx
      simp only [List.mem_cons] at hx
      rcases hx with rfl | hx
      · simp [hrows row (by simp)]
      · exact hacc x hx
    | err k => simp [hv] at h
    | panic w => simp [hv] at h

theorem readCols_width (long : Bool) (cols : List Column) :
    ∀ (n : Nat) (rows : List (List Cell)) (bs : Bytes) (out : List (List Cell)),
    Width n rows → Table.readCols long cols rows bs = .ok out → Width (n + cols.length) out := by
  induction cols with
  | nil =>
    intro n rows bs out hw h
    simp only [Table.readCols, pure, Res.ok.injEq] at h
    subst h
    simpa using hw
  | cons c cs ih =>
    intro n rows bs out hw h
    simp only [Table.readCols, bind, Res.bind] at h
    cases hc : Table.readColumn long c.coltype rows bs [] with
    | ok x =>
      obtain ⟨rows', r⟩ := x
      simp only [hc] at h
      have hw' := readColumn_width long c.coltype n rows bs [] rows' r hw (fun _ hx => by simp at hx) hc
      have := ih (n + 1) rows' r out hw' h
      simpa [Nat.add_assoc, Nat.add_comm 1] using this
    | err k => simp [hc] at h
    | panic w => simp [hc] at h

/-- **every row `read_rows` returns has one cell per column** -/
theorem readRows_width (t : Table) (data : Bytes) (rows : List (List Cell)) (h : t.readRows data = .ok rows) :
    Width t.columns.length rows := by
  unfold Table.readRows at h
  simp only at h
  by_cases hbig : (if t.rowSize > 0 then data.length / t.rowSize else 0) > Gen.maxTableRows
  · rw [if_pos hbig] at h; cases h
  · rw [if_neg hbig] at h
    have := readCols_width t.longRefs t.columns 0 _ data rows
      (fun r hr => by rw [List.eq_of_mem_replicate hr]; rfl) h
    simpa using this

theorem loadRows_width (s : Pkg) (t : Table) (rows : List (List Cell)) (h : s.loadRows t = .ok rows) :
    Width t.columns.length rows := by
  unfold Pkg.loadRows at h
  split at h
  · exact readRows_width t _ rows h
  · simp only [pure, Res.ok.injEq] at h
    subst h
    intro r hr; simp at hr

/-! ### the condition -/

theorem hasColumn_mem (t : Table) (n : List Char) (h : t.hasColumn n = true) : n ∈ t.columns.map (·.name) := by
  unfold Table.hasColumn Table.indexOfColumn at h
  generalize t.columns.map (·.name) = names at h
  induction names with
  | nil => simp [Row.indexOf] at h
  | cons x xs ih =>
    simp only [Row.indexOf] at h
    by_cases hx : x = n
    · simp [hx]
    · simp only [hx, if_false, Option.isSome_map] at h
      simp [ih h]

theorem evalCond_np (t : Table) (p : Pool) (cond : Option Ast) (cells : List Cell)
    (hm : condMissing t cond = false) (hw : cells.length = t.columns.length) :
    NoPanic (evalCond t p cond cells) := by
  cases cond with
  | none => exact np_pure _
  | some e =>
    simp only [evalCond]
    have hcols : ∀ n ∈ e.columns, n ∈ (mkRow t (rowValues p cells)).cols := by
      intro n hn
      simp only [condMissing, missingColumns, List.any_eq_false, Bool.not_eq_true', Bool.not_eq_false'] at hm
      have := hm n hn
      simp only [Bool.not_eq_eq_eq_not, Bool.not_true, Bool.not_eq_false] at this
      exact hasColumn_mem t n (by simpa using this)
    obtain ⟨v, hv⟩ := MsiProofs.C13.eval_total e (mkRow t (rowValues p cells))
      (by simp [mkRow, rowValues, hw]) hcols
    rw [hv]
    exact np_pure _

theorem deleteGo_np (t : Table) (cond : Option Ast) (hm : condMissing t cond = false)
    (rows : List (List Cell)) : ∀ (p : Pool) (acc : List (List Cell)),
    Width t.columns.length rows → NoPanic (deleteGo t cond p rows acc) := by
  induction rows with
  | nil => intro p acc _; exact np_pure _
  | cons r rs ih =>
    intro p acc hw
    simp only [deleteGo]
    refine np_bind (evalCond_np t p cond r hm (hw r (by simp))) fun del => ?_
    have hw' : Width t.columns.length rs := fun x hx => hw x (by simp [hx])
    split
    · exact ih _ _ hw'
    · exact ih _ _ hw'

theorem deleteGo_kept (t : Table) (cond : Option Ast) (rows : List (List Cell)) :
    ∀ (p : Pool) (acc : List (List Cell)) (p' : Pool) (kept : List (List Cell)),
    deleteGo t cond p rows acc = .ok (p', kept) → ∀ r ∈ kept, r ∈ acc ∨ r ∈ rows := by
  induction rows with
  | nil =>
    intro p acc p' kept h r hr
    simp only [deleteGo, pure, Res.ok.injEq, Prod.mk.injEq] at h
    rw [← h.2] at hr
    exact Or.inl (List.mem_reverse.mp hr)
  | cons x xs ih =>
    intro p acc p' kept h r hr
    simp only [deleteGo, bind, Res.bind] at h
    cases he : evalCond t p cond x with
    | ok del =>
      simp only [he] at h
      cases del with
      | true =>
        simp only [if_true] at h
        rcases ih _ _ p' kept h r hr with h1 | h1
        · exact Or.inl h1
        · exact Or.inr (by simp [h1])
      | false =>
        simp only [Bool.false_eq_true, if_false] at h
        rcases ih _ _ p' kept h r hr with h1 | h1
        · simp only [List.mem_cons] at h1
          rcases h1 with rfl | h1
          · exact Or.inr (by simp)
          · exact Or.inl h1
        · exact Or.inr (by simp [h1])
    | err k => simp [he] at h
    | panic w => simp [he] at h

/-! ### writing rows back -/

theorem np_writeValue (long : Bool) (ty : ColType) (c : Cell) : NoPanic (ty.writeValue long c) := by
  unfold ColType.writeValue
  cases ty <;> cases c <;> simp only
  all_goals first
    | exact np_ok _
    | exact np_err _
    | (split
       · exact np_ok _
       · split
         · exact np_ok _
         · exact np_err _)

theorem writeCol_np (long : Bool) (ty : ColType) (i : Nat) (rows : List (List Cell)) :
    ∀ (acc : Bytes), (∀ r ∈ rows, i < r.length) → NoPanic (Table.writeCol long ty i rows acc) := by
  induction rows with
  | nil => intro acc _; exact np_pure _
  | cons row rest ih =>
    intro acc h
    simp only [Table.writeCol]
    have hi := h row (by simp)
    have : row[i]? = some row[i] := by simp [hi]
    rw [this]
    exact np_bind (np_writeValue _ _ _) fun _ => ih _ (fun r hr => h r (by simp [hr]))

theorem writeCols_np (long : Bool) (rows : List (List Cell)) (cols : List Column) :
    ∀ (i : Nat) (acc : Bytes), (∀ r ∈ rows, i + cols.length ≤ r.length) →
    NoPanic (Table.writeCols long rows cols i acc) := by
  induction cols with
  | nil => intro i acc _; exact np_pure _
  | cons c cs ih =>
    intro i acc h
    simp only [Table.writeCols]
    refine np_bind (writeCol_np long c.coltype i rows acc (fun r hr => ?_)) fun _ => ih (i + 1) _ (fun r hr => ?_)
    · have := h r hr; simp only [List.length_cons] at this; omega
    · have := h r hr; simp only [List.length_cons] at this; omega

theorem storeRows_np (s : Pkg) (t : Table) (rows : List (List Cell)) (hw : Width t.columns.length rows) :
    NoPanic (storeRows s t rows).2 := by
  have hwr : NoPanic (t.writeRows rows) := by
    unfold Table.writeRows
    exact writeCols_np _ _ _ 0 [] (fun r hr => by rw [hw r hr]; omega)
  unfold storeRows
  cases hr : t.writeRows rows with
  | ok bs => exact np_ok _
  | err k => exact np_err _
  | panic w => exact absurd hr (hwr w)

/-- **`Delete::exec` never panics**: on any package state, for any table name and any condition -/
theorem delete_never_panics (s : Pkg) (tname : List Char) (cond : Option Ast) :
    NoPanic (deleteExec s tname cond).2 := by
  unfold deleteExec
  cases hf : s.findTable tname with
  | none => exact np_err _
  | some t =>
    simp only
    by_cases hm : condMissing t cond = true
    · rw [if_pos hm]; exact np_err _
    · rw [if_neg hm]
      have hmf : condMissing t cond = false := by simpa using hm
      cases hl : s.loadRows t with
      | err k => exact np_err _
      | panic w => exact absurd hl (np_loadRows s t w)
      | ok rows =>
        simp only
        have hw := loadRows_width s t rows hl
        cases hd : deleteGo t cond s.pool rows [] with
        | err k => exact np_err _
        | panic w => exact absurd hd (deleteGo_np t cond hmf rows s.pool [] hw w)
        | ok x =>
          obtain ⟨pool', kept⟩ := x
          simp only
          apply storeRows_np
          intro r hr
          rcases deleteGo_kept t cond rows s.pool [] pool' kept hd r hr with h1 | h1
          · simp at h1
          · exact hw r h1


end MsiProofs.C09

/-! ### `Insert::exec`: no panic while the string pool has room

The one panic the model has on this path that is reachable (known finding D16b) is the capacity
`panic!` of `StringPool::incref`.  `Room p n` says the pool can take `n` more strings; with room
for one string per cell of the batch, `Insert::exec` has no panic outcome: the
`unreachable!`-style branch after the duplicate check really is unreachable, and the rows written
back have one cell per column. -/
namespace MsiProofs.C09
open MsiModel MsiModel.Bytes MsiModel.Pkg MsiProofs.Order

/-- the pool can take `n` more strings without reaching the two-byte reference limit -/
def Room (p : Pool) (n : Nat) : Prop := p.strings.length + n ≤ 65535

theorem Room.mono {p : Pool} {n m : Nat} (h : Room p n) (hm : m ≤ n) : Room p m := by
  unfold Room at *; omega

theorem increfScan_length (s : List Char) (l : List (List Char × Nat)) : ∀ (i : Nat) (l' : List (List Char × Nat)) (r : Nat),
    Pool.increfScan s l i = some (l', r) → l'.length = l.length := by
  induction l with
  | nil => intro i l' r h; simp [Pool.increfScan] at h
  | cons e rest ih =>
    intro i l' r h
    obtain ⟨st, rc⟩ := e
    simp only [Pool.increfScan] at h
    split at h
    · cases h; rfl
    · split at h
      · cases h; rfl
      · cases hr : Pool.increfScan s rest (i + 1) with
        | none => simp [hr] at h
        | some x =>
          obtain ⟨rest', r'⟩ := x
          simp only [hr, Option.some.injEq, Prod.mk.injEq] at h
          rw [← h.1]
          simp [ih _ _ _ hr]

theorem incref_room (p : Pool) (s : List Char) (n : Nat) (h : Room p (n + 1)) :
    ∃ p' r, p.incref s = .ok (p', r) ∧ Room p' n := by
  unfold Pool.incref
  cases hs : Pool.increfScan s p.strings 0 with
  | some x =>
    obtain ⟨l', r⟩ := x
    refine ⟨_, _, rfl, ?_⟩
    unfold Room at *
    simp only [increfScan_length s p.strings 0 l' r hs]
    omega
  | none =>
    simp only
    have e1 : Gen.maxShortRefStrings = 65535 := rfl
    have e2 : Gen.maxStringRef = 16777215 := rfl
    unfold Room at h
    have h1 : ¬ (p.strings.length ≥ Gen.maxShortRefStrings ∧ (!p.longRefs) = true) := by rw [e1]; omega
    have h2 : ¬ (p.strings.length ≥ Gen.maxStringRef) := by rw [e2]; omega
    rw [if_neg h1, if_neg h2]
    refine ⟨_, _, rfl, ?_⟩
    unfold Room
    simp only [List.length_append, List.length_cons, List.length_nil]
    omega

theorem create_room (p : Pool) (v : Value) (n : Nat) (h : Room p (n + 1)) :
    ∃ p' c, Cell.create p v = .ok (p', c) ∧ Room p' n := by
  cases v with
  | null => exact ⟨p, .null, rfl, h.mono (by omega)⟩
  | int i => exact ⟨p, .int i, rfl, h.mono (by omega)⟩
  | str s =>
    obtain ⟨p', r, hi, hr⟩ := incref_room p s n h
    exact ⟨p', .str r, by simp [Cell.create, hi, bind, Res.bind, pure], hr⟩

theorem createCells_room (vs : List Value) : ∀ (p : Pool) (acc : List Cell) (k : Nat), Room p (k + vs.length) →
    ∃ p' cs, createCells p vs acc = .ok (p', cs) ∧ Room p' k ∧ cs.length = acc.length + vs.length := by
  induction vs with
  | nil => intro p acc k h; exact ⟨p, acc.reverse, rfl, by simpa using h, by simp⟩
  | cons v rest ih =>
    intro p acc k h
    obtain ⟨p1, c, hc, hr⟩ := create_room p v (k + rest.length) (by simpa [Nat.add_assoc] using h)
    obtain ⟨p', cs, h1, h2, h3⟩ := ih p1 (c :: acc) k hr
    refine ⟨p', cs, ?_, h2, by simp [h3]; omega⟩
    simp only [createCells, hc, bind, Res.bind]
    exact h1

/-- the key is in the map -/
theorem mapContains_iff (k : List Value) (m : RowMap) : mapContains k m = true ↔ ∃ e ∈ m, e.1 = k := by
  unfold mapContains
  rw [List.any_eq_true]
  constructor
  · rintro ⟨e, he, hc⟩
    simp only [Bool.and_eq_true, Bool.not_eq_true'] at hc
    exact ⟨e, he, (keyLt_connected hc.1 hc.2).symm⟩
  · rintro ⟨e, he, rfl⟩
    exact ⟨e, he, by simp [keyLt_irrefl]⟩

theorem checkNew_none (keyIdx : List Nat) (m : RowMap) (rows : List (List Value)) :
    ∀ seen, checkNew keyIdx m rows seen = none →
      (∀ r ∈ rows, mapContains (keyOf keyIdx r) m = false ∧ keyOf keyIdx r ∉ seen) ∧
      (rows.map (keyOf keyIdx)).Pairwise (· ≠ ·) := by
  induction rows with
  | nil => intro seen _; exact ⟨fun _ h => by simp at h, by simp⟩
  | cons r rs ih =>
    intro seen h
    simp only [checkNew] at h
    split at h
    · cases h
    · rename_i h1
      split at h
      · cases h
      · rename_i h2
        obtain ⟨ha, hb⟩ := ih _ h
        refine ⟨?_, ?_⟩
        · intro x hx
          simp only [List.mem_cons] at hx
          rcases hx with rfl | hx
          · exact ⟨by simpa using h1, by simpa using h2⟩
          · exact ⟨(ha x hx).1, fun hm => (ha x hx).2 (by simp [hm])⟩
        · simp only [List.map_cons, List.pairwise_cons]
          refine ⟨?_, hb⟩
          intro k hk
          obtain ⟨x, hx, rfl⟩ := List.mem_map.mp hk
          intro e
          exact (ha x hx).2 (by simp [e])

theorem addRows_room (keyIdx : List Nat) (ncols : Nat) (rows : List (List Value)) :
    ∀ (p : Pool) (m : RowMap) (k : Nat), Sorted m →
    (∀ r ∈ rows, mapContains (keyOf keyIdx r) m = false) → (rows.map (keyOf keyIdx)).Pairwise (· ≠ ·) →
    (∀ r ∈ rows, r.length = ncols) → (∀ e ∈ m, e.2.length = ncols) →
    Room p (k + rows.length * ncols) →
    ∃ p' m', addRows keyIdx p rows m = .ok (p', m') ∧ (∀ e ∈ m', e.2.length = ncols) := by
  induction rows with
  | nil => intro p m k _ _ _ _ hw _; exact ⟨p, m, rfl, hw⟩
  | cons r rs ih =>
    intro p m k hs hnot hdist hlen hw hroom
    have hr := hlen r (by simp)
    obtain ⟨p1, cells, hc, hroom1, hcl⟩ := createCells_room r p [] (k + rs.length * ncols)
      (by
        have : k + (r :: rs).length * ncols = k + rs.length * ncols + r.length := by
          simp only [List.length_cons, hr]; rw [Nat.add_mul]; omega
        rw [← this]; exact hroom)
    have hins : mapInsert (keyOf keyIdx r) cells m ≠ none := by
      intro hnone
      have := (mapInsert_none_iff hs).mp hnone
      rw [hnot r (by simp)] at this
      cases this
    cases hm : mapInsert (keyOf keyIdx r) cells m with
    | none => exact absurd hm hins
    | some m1 =>
      obtain ⟨hs1, hmem⟩ := mapInsert_sorted hs hm
      simp only [List.map_cons, List.pairwise_cons] at hdist
      obtain ⟨p', m', h1, h2⟩ := ih p1 m1 k hs1
        (by
          intro x hx
          cases hc' : mapContains (keyOf keyIdx x) m1 with
          | false => rfl
          | true =>
            obtain ⟨e, he, hek⟩ := (mapContains_iff _ _).mp hc'
            rcases (hmem e).mp he with rfl | he
            · exact absurd hek (hdist.1 _ (List.mem_map.mpr ⟨x, hx, rfl⟩))
            · have : mapContains (keyOf keyIdx x) m = true := (mapContains_iff _ _).mpr ⟨e, he, hek⟩
              rw [hnot x (by simp [hx])] at this
              cases this)
        hdist.2 (fun x hx => hlen x (by simp [hx]))
        (by
          intro e he
          rcases (hmem e).mp he with rfl | he
          · simp [hcl, hr]
          · exact hw e he)
        hroom1
      refine ⟨p', m', ?_, h2⟩
      simp only [addRows, hc, bind, Res.bind, hm]
      exact h1

theorem loadMap_values (p : Pool) (keyIdx : List Nat) (rows : List (List Cell)) :
    ∀ (m m' : RowMap), Sorted m → loadMap p keyIdx rows m = some m' → ∀ e ∈ m', e ∈ m ∨ e.2 ∈ rows := by
  induction rows with
  | nil => intro m m' _ h e he; simp only [loadMap, Option.some.injEq] at h; subst h; exact Or.inl he
  | cons r rs ih =>
    intro m m' hs h e he
    simp only [loadMap] at h
    cases hm : mapInsert (keyOf keyIdx (rowValues p r)) r m with
    | none => simp [hm] at h
    | some m1 =>
      rw [hm] at h
      obtain ⟨hs1, hmem⟩ := mapInsert_sorted hs hm
      rcases ih m1 m' hs1 h e he with h1 | h1
      · rcases (hmem e).mp h1 with rfl | h2
        · exact Or.inr (by simp)
        · exact Or.inl h2
      · exact Or.inr (by simp [h1])

/-- **`Insert::exec` has no panic outcome while the pool has room for one string per new cell** -/
theorem insert_never_panics (s : Pkg) (tname : List Char) (rows : List (List Value))
    (hroom : ∀ t, s.findTable tname = some t → Room s.pool (rows.length * t.columns.length)) :
    NoPanic (insertExec s tname rows).2 := by
  unfold insertExec
  cases hf : s.findTable tname with
  | none => exact np_err _
  | some t =>
    simp only
    by_cases h1 : (rows.any fun r => r.length ≠ t.columns.length) = true
    · rw [if_pos h1]; exact np_err _
    rw [if_neg h1]
    split; · exact np_err _
    cases hl : s.loadRows t with
    | err k => exact np_err _
    | panic w => exact absurd hl (np_loadRows s t w)
    | ok existing =>
      simp only
      have hw := loadRows_width s t existing hl
      cases hm : loadMap s.pool t.keyIndices existing [] with
      | none => exact np_err _
      | some m =>
        simp only
        have hsm : Sorted m := MsiProofs.C05.loadMap_sorted (by simp [Sorted]) hm
        cases hc : checkNew t.keyIndices m (rows.map fun r => r.map storable) [] with
        | some k => exact np_err _
        | none =>
          simp only
          split; · exact np_err _
          obtain ⟨hnot, hdist⟩ := checkNew_none _ _ _ _ hc
          have hlen : ∀ r ∈ rows.map (fun r => r.map storable), r.length = t.columns.length := by
            intro r hr
            obtain ⟨x, hx, rfl⟩ := List.mem_map.mp hr
            simp only [List.length_map]
            have : ¬ (x.length ≠ t.columns.length) := by
              intro hne
              exact h1 (List.any_eq_true.mpr ⟨x, hx, by simpa using hne⟩)
            simpa using this
          have hmw : ∀ e ∈ m, e.2.length = t.columns.length := by
            intro e he
            rcases loadMap_values s.pool t.keyIndices existing [] m (by simp [Sorted]) hm e he with h | h
            · simp at h
            · exact hw _ h
          obtain ⟨p', m', ha, hw'⟩ := addRows_room t.keyIndices t.columns.length _ s.pool m 0 hsm
            (fun r hr => (hnot r hr).1) hdist hlen hmw
            (by simpa using hroom t hf)
          rw [ha]
          simp only
          apply storeRows_np
          intro r hr
          obtain ⟨e, he, rfl⟩ := List.mem_map.mp hr
          exact hw' e he

end MsiProofs.C09

/-! ### `Update::exec` -/
namespace MsiProofs.C09
open MsiModel MsiModel.Bytes MsiModel.Pkg MsiProofs.Order

theorem decref_length (p : Pool) (r : Nat) : (p.decref r).strings.length = p.strings.length := by
  unfold Pool.decref
  have : ∀ (l : List (List Char × Nat)) (i : Nat) (l' : List (List Char × Nat)),
      Pool.decrefAt l i = some l' → l'.length = l.length := by
    intro l
    induction l with
    | nil => intro i l' h; simp [Pool.decrefAt] at h
    | cons e rest ih =>
      intro i l' h
      cases i with
      | zero =>
        obtain ⟨st, rc⟩ := e
        simp only [Pool.decrefAt] at h
        split at h
        · cases h
        · cases h; rfl
      | succ j =>
        simp only [Pool.decrefAt] at h
        cases hr : Pool.decrefAt rest j with
        | none => simp [hr] at h
        | some x =>
          simp only [hr, Option.map_some, Option.some.injEq] at h
          rw [← h]; simp [ih j x hr]
  split
  · rename_i l hl; exact this _ _ _ hl
  · rfl

theorem remove_room (p : Pool) (c : Cell) (n : Nat) (h : Room p n) : Room (Cell.remove p c) n := by
  cases c with
  | str r => unfold Room at *; simp only [Cell.remove, decref_length]; exact h
  | null => exact h
  | int i => exact h

theorem cellsUpd_room (us : List (Nat × Value)) : ∀ (p : Pool) (cells : List Cell) (k : Nat),
    Room p (k + us.length) →
    ∃ p' cells', cellsUpd p cells us = .ok (p', cells') ∧ Room p' k ∧ cells'.length = cells.length := by
  induction us with
  | nil => intro p cells k h; exact ⟨p, cells, rfl, by simpa using h, rfl⟩
  | cons u rest ih =>
    intro p cells k h
    obtain ⟨i, v⟩ := u
    have h1 : Room (Cell.remove p (cells.getD i .null)) (k + rest.length + 1) :=
      remove_room _ _ _ (by simpa [Nat.add_assoc] using h)
    obtain ⟨p2, c, hc, hr⟩ := create_room _ v (k + rest.length) h1
    obtain ⟨p', cells', h2, h3, h4⟩ := ih p2 (cells.set i c) k hr
    refine ⟨p', cells', ?_, h3, by simpa using h4⟩
    simp only [cellsUpd, bind, Res.bind]
    rw [hc]
    exact h2

theorem updApply_room (ups : List (Nat × Value)) (n : Nat) (rows : List (List Cell)) :
    ∀ (p : Pool) (pl : List (List Value × Bool)) (acc : List (List Cell)) (k : Nat),
    Width n rows → Width n acc → Room p (k + rows.length * ups.length) →
    ∃ p' rows', updApply ups p rows pl acc = .ok (p', rows') ∧ Width n rows' ∧
      rows'.length = acc.length + rows.length := by
  induction rows with
  | nil => intro p pl acc k _ hacc _; exact ⟨p, acc.reverse, rfl, fun r hr => hacc r (List.mem_reverse.mp hr), by simp⟩
  | cons r rs ih =>
    intro p pl acc k hw hacc hroom
    have hrw := hw r (by simp)
    have hws : Width n rs := fun x hx => hw x (by simp [hx])
    cases pl with
    | nil =>
      refine ⟨p, (r :: acc).reverse ++ rs, rfl, ?_, by simp <;> omega⟩
      intro x hx
      simp only [List.mem_append, List.mem_reverse, List.mem_cons] at hx
      rcases hx with (rfl | hx) | hx
      · exact hrw
      · exact hacc x hx
      · exact hws x hx
    | cons e pl' =>
      obtain ⟨vs, m⟩ := e
      cases m with
      | false =>
        obtain ⟨p', rows', h1, h2, h3⟩ := ih p pl' (r :: acc) k hws
          (by
            intro x hx
            simp only [List.mem_cons] at hx
            rcases hx with rfl | hx
            · exact hrw
            · exact hacc x hx)
          (hroom.mono (by simp only [List.length_cons]; rw [Nat.add_mul]; omega))
        exact ⟨p', rows', by simp only [updApply, Bool.false_eq_true, if_false]; exact h1, h2,
          by simp at h3 ⊢; omega⟩
      | true =>
        obtain ⟨p1, cells', hc, hr1, hl1⟩ := cellsUpd_room ups p r (k + rs.length * ups.length)
          (by
            have : k + (r :: rs).length * ups.length = k + rs.length * ups.length + ups.length := by
              simp only [List.length_cons]; rw [Nat.add_mul]; omega
            rw [← this]; exact hroom)
        obtain ⟨p', rows', h1, h2, h3⟩ := ih p1 pl' (cells' :: acc) k hws
          (by
            intro x hx
            simp only [List.mem_cons] at hx
            rcases hx with rfl | hx
            · rw [hl1]; exact hrw
            · exact hacc x hx)
          hr1
        refine ⟨p', rows', ?_, h2, by simp at h3 ⊢; omega⟩
        simp only [updApply, if_true, bind, Res.bind, hc]
        exact h1

theorem updPlan_np (t : Table) (p : Pool) (cond : Option Ast) (hm : condMissing t cond = false)
    (ups : List (Nat × Value)) (rows : List (List Cell)) : ∀ (acc : List (List Value × Bool)),
    Width t.columns.length rows → NoPanic (updPlan t p cond ups rows acc) := by
  induction rows with
  | nil => intro acc _; exact np_pure _
  | cons r rs ih =>
    intro acc hw
    simp only [updPlan]
    exact np_bind (evalCond_np t p cond r hm (hw r (by simp))) fun _ => ih _ (fun x hx => hw x (by simp [hx]))

theorem upd_tail_np (s : Pkg) (t : Table) (ups : List (Nat × Value)) (rows : List (List Cell))
    (planned : List (List Value × Bool)) (dup : Bool) (order : List Nat)
    (hw : Width t.columns.length rows) (hroom : Room s.pool (rows.length * ups.length))
    (horder : ∀ i ∈ order, i < rows.length) :
    NoPanic (if dup = true then (s, Res.err ErrKind.alreadyExists) else
      match updApply ups s.pool rows planned [] with
      | .err k => (s, .err k)
      | .panic w => (s, .panic w)
      | .ok (pool', rows') => storeRows { s with pool := pool' } t (order.map fun i => rows'.getD i [])).2 := by
  cases dup with
  | true => exact np_err _
  | false =>
    simp only [Bool.false_eq_true, if_false]
    obtain ⟨p', rows', ha, hw', hl'⟩ := updApply_room ups t.columns.length rows s.pool planned [] 0 hw
      (fun _ hx => by simp at hx) (by simpa using hroom)
    rw [ha]
    simp only
    apply storeRows_np
    intro r hr
    obtain ⟨i, hi, rfl⟩ := List.mem_map.mp hr
    have hrange : i < rows'.length := by
      simp only [List.length_nil, Nat.zero_add] at hl'
      rw [hl']; exact horder i hi
    have : rows'.getD i [] = rows'[i] := by simp [List.getD, hrange]
    rw [this]
    exact hw' _ (List.getElem_mem hrange)

/-- **`Update::exec` has no panic outcome while the pool has room for one string per assignment
and stored row** -/
theorem update_never_panics (s : Pkg) (tname : List Char) (ups : List (List Char × Value)) (cond : Option Ast)
    (hroom : ∀ t rows, s.findTable tname = some t → s.loadRows t = .ok rows →
      Room s.pool (rows.length * ups.length)) :
    NoPanic (updateExec s tname ups cond).2 := by
  unfold updateExec
  cases hf : s.findTable tname with
  | none => exact np_err _
  | some t =>
    simp only
    cases hv : validateUpdates t ups with
    | some k => exact np_err _
    | none =>
      simp only
      by_cases hm : condMissing t cond = true
      · rw [if_pos hm]; exact np_err _
      rw [if_neg hm]
      have hmf : condMissing t cond = false := by simpa using hm
      cases hl : s.loadRows t with
      | err k => exact np_err _
      | panic w => exact absurd hl (np_loadRows s t w)
      | ok rows =>
        simp only
        have hw := loadRows_width s t rows hl
        cases hp : updPlan t s.pool cond
            (List.filterMap (fun x => Option.map (fun i => (i, storable x.snd)) (t.indexOfColumn x.fst)) ups) rows [] with
        | err k => exact np_err _
        | panic w => exact absurd hp (updPlan_np t s.pool cond hmf _ rows [] hw w)
        | ok planned =>
          simp only
          have hlen : (List.filterMap (fun x => Option.map (fun i => (i, storable x.snd)) (t.indexOfColumn x.fst)) ups).length
              ≤ ups.length := List.length_filterMap_le _ _
          refine upd_tail_np s t _ rows planned _ _ hw
            ((hroom t rows hf hl).mono (Nat.mul_le_mul_left _ hlen)) ?_
          intro i hi
          split at hi
          · have := (MsiProofs.C05.sortByKey_perm _ (List.range rows.length)).mem_iff.mp hi
            simpa using this
          · simpa using hi

end MsiProofs.C09
