import MsiProofs.Lemmas.PoolCodec
import MsiProofs.Lemmas.RowCodec
import MsiProofs.Props.C06
/-
C02 — independently encoded MSI databases are read exactly.
The readers against the format, for every well-formed input of the respective layer (not
for the handful a generator emits): the string pool (both reference widths, strings over
64 KiB through the escape, unused entries, duplicates, any entry order — only a *live empty
entry* is inexpressible, and that is exactly the format's ambiguity), the column-major row
blocks with offset-binary cells, and the type word of every storable column.  The
catalog pass (`_Tables` → `_Columns` → `_Validation`) and the property-set reader are tied
by correspondence on files produced by the independent encoder (harness/src/decode.rs),
whose layout choices the library never makes itself.
-/
namespace MsiProofs.C02
open MsiModel

/-- the pool reader reads every entry list the format can express -/
def pool_entries_read := @MsiProofs.PoolCodec.readEntries_roundtrip
/-- the data stream is cut by the recorded lengths and decoded in the pool's code page -/
def pool_strings_read := @MsiProofs.PoolCodec.buildStrings_roundtrip
/-- reader ∘ writer = id on every pool the format can express -/
def pool_roundtrip := @MsiProofs.PoolCodec.pool_roundtrip
/-- a live empty entry is not expressible: it reads as a long-string header -/
def live_empty_entry_misread := MsiProofs.PoolCodec.live_empty_entry_misread
/-- row blocks: whole number of rows, column-major, read back exactly -/
def rows_roundtrip := @MsiProofs.RowCodec.rows_roundtrip
/-- every storable cell, both reference widths -/
def cell_roundtrip := @MsiProofs.Codec.cell_roundtrip
/-- the type word of every storable column -/
def typeword_roundtrip := @MsiProofs.C06.typeword_roundtrip

/-- integer field size 1 is read as a 16-bit column (some producers write it) -/
theorem int_size_one_is_int16 :
    Column.typeOfBits 1 = .ok .int16 ∧ Column.typeOfBits 2 = .ok .int16 ∧ Column.typeOfBits 4 = .ok .int32 ∧
    Column.typeOfBits 3 = .err .invalidData := by decide

/-- code page id 0 in the pool header means the default (UTF-8) -/
theorem cp_zero_default : CodePage.fromId 0 = some Gen.cpDefault := by decide

end MsiProofs.C02
