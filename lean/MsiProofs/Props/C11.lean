import MsiModel.StreamName
/-
C11 — binary streams keep their names and contents, apart from the tables.
Here: the name codec (`streamname.rs`) — decode ∘ encode = id on every accepted name,
hence injectivity; the encoder never produces an invalid code point; encoded user names
are separated from the table marker, the special streams and the container's reserved
characters.  The stream *contents* part is decided with the package model.
-/
namespace MsiProofs.C11
open MsiModel MsiModel.StreamName

/-- the constants the lemmas below are proved for (re-decided against the regenerated file) -/
theorem constants :
    Gen.snPairBase = 0x3800 ∧ Gen.snSingleBase = 0x4800 ∧ Gen.snTablePrefix = 0x4840 ∧
    Gen.snMaxNameLen = 31 ∧ Gen.snReservedChars = [47, 92, 58, 33] ∧
    Gen.snReservedRange = some (0x3800, 0x4840) := by decide

theorem toNat_ofNat_of_lt (n : Nat) (h : n < 0xD800) : (Char.ofNat n).toNat = n := by
  have hv : n.isValidChar := Or.inl h
  simp [Char.ofNat, hv, Char.ofNatAux, Char.toNat]

theorem toB64_lt {c : Char} {v : Nat} (h : toB64 c = some v) : v < 64 := by
  unfold toB64 at h
  simp only at h
  split at h
  · cases h; omega
  · split at h
    · cases h; omega
    · split at h
      · cases h; omega
      · split at h
        · cases h; omega
        · split at h
          · cases h; omega
          · cases h

theorem fromB64_toB64 {c : Char} {v : Nat} (h : toB64 c = some v) : fromB64 v = c := by
  unfold toB64 at h
  simp only at h
  unfold fromB64
  split at h
  · cases h
    rename_i hc
    have : c.toNat - 48 < 10 := by omega
    simp only [this, if_true]
    have e : c.toNat - 48 + 48 = c.toNat := by omega
    rw [e, Char.ofNat_toNat]
  · split at h
    · cases h
      rename_i hc
      have h1 : ¬ (10 + c.toNat - 65 < 10) := by omega
      have h2 : 10 + c.toNat - 65 < 36 := by omega
      simp only [h1, h2, if_true, if_false]
      have e : 10 + c.toNat - 65 - 10 + 65 = c.toNat := by omega
      rw [e, Char.ofNat_toNat]
    · split at h
      · cases h
        rename_i hc
        have h1 : ¬ (36 + c.toNat - 97 < 10) := by omega
        have h2 : ¬ (36 + c.toNat - 97 < 36) := by omega
        have h3 : 36 + c.toNat - 97 < 62 := by omega
        simp only [h1, h2, h3, if_true, if_false]
        have e : 36 + c.toNat - 97 - 36 + 97 = c.toNat := by omega
        rw [e, Char.ofNat_toNat]
      · split at h
        · cases h
          rename_i hc
          simp only [show ¬ (62 < 10) by omega, show ¬ (62 < 36) by omega, show ¬ (62 < 62) by omega,
            if_true, if_false]
          rw [← hc, Char.ofNat_toNat]
        · split at h
          · cases h
            rename_i hc
            simp only [show ¬ (63 < 10) by omega, show ¬ (63 < 36) by omega, show ¬ (63 < 62) by omega,
              show ¬ (63 = 62) by omega, if_false]
            rw [← hc, Char.ofNat_toNat]
          · cases h

/-- **the encoder never fails**: every code point it builds with `char::from_u32(..).unwrap()`
is a valid scalar value (below the surrogates), for all 64 × 64 packed values -/
theorem encode_codepoints_valid (v1 v2 : Nat) (h1 : v1 < 64) (h2 : v2 < 64) :
    (Gen.snPairBase + v2 * 64 + v1).isValidChar ∧ (Gen.snSingleBase + v1).isValidChar := by
  have e1 : Gen.snPairBase = 14336 := rfl
  have e2 : Gen.snSingleBase = 18432 := rfl
  rw [e1, e2]
  exact ⟨Or.inl (by omega), Or.inl (by omega)⟩

theorem decodeChar_pair (v1 v2 : Nat) (h1 : v1 < 64) (h2 : v2 < 64) :
    decodeChar (Char.ofNat (Gen.snPairBase + v2 * 64 + v1)) = [fromB64 v1, fromB64 v2] := by
  have e1 : Gen.snPairBase = 14336 := rfl
  have e2 : Gen.snSingleBase = 18432 := rfl
  unfold decodeChar
  rw [e1, e2, toNat_ofNat_of_lt _ (by omega)]
  have hr : 14336 ≤ 14336 + v2 * 64 + v1 ∧ 14336 + v2 * 64 + v1 < 18432 := by omega
  simp only [hr, and_self, if_true]
  have ew : 14336 + v2 * 64 + v1 - 14336 = v2 * 64 + v1 := by omega
  rw [ew]
  have a : (v2 * 64 + v1) &&& 0x3f = v1 := by
    have := Nat.and_two_pow_sub_one_eq_mod (v2 * 64 + v1) 6
    simp only [show (2:Nat)^6 - 1 = 0x3f by rfl, show (2:Nat)^6 = 64 by rfl] at this
    rw [this]; omega
  have b : (v2 * 64 + v1) >>> 6 = v2 := by
    rw [Nat.shiftRight_eq_div_pow]; simp only [show (2:Nat)^6 = 64 by rfl]; omega
  rw [a, b]

theorem decodeChar_single (v1 : Nat) (h1 : v1 < 64) :
    decodeChar (Char.ofNat (Gen.snSingleBase + v1)) = [fromB64 v1] := by
  have e1 : Gen.snPairBase = 14336 := rfl
  have e2 : Gen.snSingleBase = 18432 := rfl
  have e3 : Gen.snTablePrefix = 18496 := rfl
  unfold decodeChar
  rw [e1, e2, e3, toNat_ofNat_of_lt _ (by omega)]
  have hr : ¬ (14336 ≤ 18432 + v1 ∧ 18432 + v1 < 18432) := by omega
  have hr2 : 18432 ≤ 18432 + v1 ∧ 18432 + v1 < 18496 := by omega
  simp only [hr, hr2, and_self, if_true, if_false]
  have : 18432 + v1 - 18432 = v1 := by omega
  rw [this]

theorem decodeChar_plain (c : Char) (h : inPackRange c = false) : decodeChar c = [c] := by
  have e1 : Gen.snPairBase = 14336 := rfl
  have e2 : Gen.snSingleBase = 18432 := rfl
  have e3 : Gen.snTablePrefix = 18496 := rfl
  unfold inPackRange at h
  rw [e1, e3] at h
  simp only [decide_eq_false_iff_not] at h
  unfold decodeChar
  rw [e1, e2, e3]
  have h1 : ¬ (14336 ≤ c.toNat ∧ c.toNat < 18432) := by omega
  have h2 : ¬ (18432 ≤ c.toNat ∧ c.toNat < 18496) := by omega
  simp only [h1, h2, if_false]

/-- **decode ∘ encode = id** on every name without characters from the packing range -/
theorem decodeAux_encodeAux (n : List Char) (h : ∀ c ∈ n, inPackRange c = false) :
    decodeAux (encodeAux n) = n := by
  induction n using encodeAux.induct with
  | case1 => rfl
  | case2 c1 v1 hv =>
    simp only [encodeAux, hv, decodeAux, List.flatMap_cons, List.flatMap_nil, List.append_nil]
    rw [decodeChar_single v1 (toB64_lt hv), fromB64_toB64 hv]
  | case3 c1 hv =>
    simp only [encodeAux, hv, decodeAux, List.flatMap_cons, List.flatMap_nil, List.append_nil]
    exact decodeChar_plain c1 (h c1 (by simp))
  | case4 c1 c2 rest v1 hv1 v2 hv2 ih =>
    simp only [encodeAux, hv1, hv2, decodeAux, List.flatMap_cons]
    rw [decodeChar_pair v1 v2 (toB64_lt hv1) (toB64_lt hv2), fromB64_toB64 hv1, fromB64_toB64 hv2]
    have := ih (fun c hc => h c (by simp [hc]))
    simp only [decodeAux] at this
    rw [this]; rfl
  | case5 c1 c2 rest v1 hv1 hv2 ih =>
    simp only [encodeAux, hv1, hv2, decodeAux, List.flatMap_cons]
    rw [decodeChar_single v1 (toB64_lt hv1), fromB64_toB64 hv1]
    have := ih (fun c hc => h c (by simpa using Or.inr (by simpa using hc)))
    simp only [decodeAux] at this
    rw [this]; rfl
  | case6 c1 c2 rest hv1 ih =>
    simp only [encodeAux, hv1, decodeAux, List.flatMap_cons]
    rw [decodeChar_plain c1 (h c1 (by simp))]
    have := ih (fun c hc => h c (by simpa using Or.inr (by simpa using hc)))
    simp only [decodeAux] at this
    rw [this]; rfl

theorem isValid_no_pack {n : List Char} {t : Bool} (h : isValid n t = true) :
    ∀ c ∈ n, inPackRange c = false := by
  unfold isValid at h
  split at h
  · cases h
  · split at h
    · cases h
    · rename_i hr
      intro c hc
      simp only [List.any_eq_true, not_exists, not_and] at hr
      have := hr c hc
      unfold isReserved at this
      simp only [Bool.or_eq_true, not_or] at this
      have e : Gen.snReservedRange = some (14336, 18496) := rfl
      rw [e] at this
      unfold inPackRange
      have e1 : Gen.snPairBase = 14336 := rfl
      have e3 : Gen.snTablePrefix = 18496 := rfl
      rw [e1, e3]
      simpa using this.2

/-- a valid stream name decodes back to itself (and is not taken for a table) -/
theorem decode_encode (n : List Char) (h : isValid n false = true) :
    decode (encode n false) = (n, false) := by
  have hp := isValid_no_pack h
  have hd := decodeAux_encodeAux n hp
  unfold encode
  simp only [Bool.false_eq_true, if_false, List.nil_append]
  unfold decode
  cases he : encodeAux n with
  | nil =>
    rw [he] at hd; simp [decodeAux] at hd; subst hd
    exact absurd h (by decide)
  | cons c rest =>
    -- the head of the encoding is not the table marker
    have hne : c ≠ tablePrefix := by
      intro e
      subst e
      -- decoding the marker gives the marker itself, so the name would start with it
      have hd' := hd
      rw [he] at hd'
      simp only [decodeAux, List.flatMap_cons] at hd'
      have hplain : decodeChar tablePrefix = [tablePrefix] := by
        apply decodeChar_plain; decide
      rw [hplain] at hd'
      unfold isValid at h
      rw [← hd'] at h
      simp at h
    simp only [hne, if_false]
    rw [← he, hd]

/-- **injectivity**: two accepted names with the same encoding are the same name, so names
that differ never collide or alias in the container -/
theorem encode_injective (a b : List Char) (ha : isValid a false = true) (hb : isValid b false = true)
    (h : encode a false = encode b false) : a = b := by
  have h1 := decode_encode a ha
  have h2 := decode_encode b hb
  rw [h] at h1
  rw [h1] at h2
  exact (Prod.mk.inj h2).1

/-- every character of an encoded name is either packed (in the packing range) or an
unpackable character of the original name -/
theorem encodeAux_chars (n : List Char) :
    ∀ c ∈ encodeAux n, (inPackRange c = true ∧ toB64 c = none) ∨ (c ∈ n ∧ toB64 c = none) := by
  have e1 : Gen.snPairBase = 14336 := rfl
  have e2 : Gen.snSingleBase = 18432 := rfl
  have e3 : Gen.snTablePrefix = 18496 := rfl
  have packed : ∀ k, 14336 ≤ k → k < 18496 →
      inPackRange (Char.ofNat k) = true ∧ toB64 (Char.ofNat k) = none := by
    intro k h1 h2
    have ht := toNat_ofNat_of_lt k (by omega)
    constructor
    · unfold inPackRange; rw [e1, e3, ht]; simp; omega
    · unfold toB64; simp only [ht]
      have : ¬ (48 ≤ k ∧ k ≤ 57) := by omega
      have : ¬ (65 ≤ k ∧ k ≤ 90) := by omega
      have : ¬ (97 ≤ k ∧ k ≤ 122) := by omega
      have : ¬ (k = 46) := by omega
      have : ¬ (k = 95) := by omega
      simp [*]
  induction n using encodeAux.induct with
  | case1 => simp [encodeAux]
  | case2 c1 v1 hv =>
    simp only [encodeAux, hv, List.mem_singleton]
    rintro c rfl
    left; rw [e2]; exact packed _ (by omega) (by have := toB64_lt hv; omega)
  | case3 c1 hv =>
    simp only [encodeAux, hv, List.mem_singleton]
    rintro c rfl
    right; exact ⟨by simp, hv⟩
  | case4 c1 c2 rest v1 hv1 v2 hv2 ih =>
    simp only [encodeAux, hv1, hv2, List.mem_cons]
    rintro c (rfl | hc)
    · left; rw [e1]
      have := toB64_lt hv1; have := toB64_lt hv2
      exact packed _ (by omega) (by omega)
    · rcases ih c hc with h | h
      · exact Or.inl h
      · exact Or.inr ⟨by simp [h.1], h.2⟩
  | case5 c1 c2 rest v1 hv1 hv2 ih =>
    simp only [encodeAux, hv1, hv2, List.mem_cons]
    rintro c (rfl | hc)
    · left; rw [e2]; have := toB64_lt hv1; exact packed _ (by omega) (by omega)
    · rcases ih c hc with h | h
      · exact Or.inl h
      · right; refine ⟨?_, h.2⟩
        have := h.1
        simp only [List.mem_cons] at this ⊢
        exact Or.inr this
  | case6 c1 c2 rest hv1 ih =>
    simp only [encodeAux, hv1, List.mem_cons]
    rintro c (rfl | hc)
    · right; exact ⟨by simp, hv1⟩
    · rcases ih c hc with h | h
      · exact Or.inl h
      · right; refine ⟨?_, h.2⟩
        have := h.1
        simp only [List.mem_cons] at this ⊢
        exact Or.inr this

/-- the special stream names all contain a packable character (a letter) -/
theorem special_has_packable : ∀ s ∈ specialNames, ∃ c ∈ s, (toB64 c).isSome = true := by
  decide

/-- **separation**: the encoding of an accepted user stream name is never one of the
summary-information / digital-signature stream names, never starts with the table
marker, and contains none of the characters the container reserves -/
theorem separated (n : List Char) (h : isValid n false = true) :
    encode n false ∉ specialNames ∧
    (encode n false).head? ≠ some tablePrefix ∧
    (∀ c ∈ encode n false, c.toNat ∉ Gen.snReservedChars) ∧
    utf16Len (encode n false) ≤ 31 := by
  have henc : encode n false = encodeAux n := by simp [encode]
  refine ⟨?_, ?_, ?_, ?_⟩
  · intro hm
    obtain ⟨c, hc, hp⟩ := special_has_packable _ hm
    rw [henc] at hc
    rcases encodeAux_chars n c hc with h1 | h1 <;> simp [h1.2] at hp
  · intro hh
    have := decode_encode n h
    unfold decode at this
    cases he : encode n false with
    | nil => rw [he] at hh; simp at hh
    | cons c rest =>
      rw [he] at hh this
      simp only [List.head?_cons, Option.some.injEq] at hh
      simp [hh] at this
  · intro c hc
    rw [henc] at hc
    rcases encodeAux_chars n c hc with h1 | h1
    · have := h1.1
      unfold inPackRange at this
      have e1 : Gen.snPairBase = 14336 := rfl
      have e3 : Gen.snTablePrefix = 18496 := rfl
      rw [e1, e3] at this
      simp only [decide_eq_true_eq] at this
      have e : Gen.snReservedChars = [47, 92, 58, 33] := rfl
      rw [e]; simp; omega
    · unfold isValid at h
      split at h
      · cases h
      · split at h
        · cases h
        · rename_i hr
          simp only [List.any_eq_true, not_exists, not_and] at hr
          have := hr c h1.1
          unfold isReserved at this
          simp only [Bool.or_eq_true, not_or, List.contains_iff_mem] at this
          exact this.1
  · unfold isValid at h
    split at h
    · cases h
    · split at h
      · cases h
      · have e : Gen.snMaxNameLen = 31 := rfl
        rw [e] at h
        simpa using h

/-! ### non-vacuity and the aliasing witness the fix removed -/
example : isValid "Foo.Bar_9".toList false = true := by decide
example : encodeAux "00".toList = [Char.ofNat 0x3800] := by decide
example : isValid [Char.ofNat 0x3800] false = false ∧ isValid "a:b".toList false = false := by decide
example : decode (encode "Hello World".toList false) = ("Hello World".toList, false) := by decide

end MsiProofs.C11
