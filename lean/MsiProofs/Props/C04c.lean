import MsiProofs.Props.C04b
import MsiProofs.Lemmas.Lifecycle2
/-
C04, failures discovered late — `create_table` is atomic: in every state with the package
invariants (every state reachable from `Package::create`), a call that passes the up-front checks
either succeeds, or hits the capacity panic (finding D16b), or is refused by the FIRST catalog
insert (the row bound of `_Columns`), having changed nothing but the pending-finisher flag.  No
reachable state exists in which `create_table` fails after writing part of the catalog.
-/
namespace MsiProofs.C04

/-- `_Tables` never shows more rows than `_Columns` -/
def tables_le_columns := @MsiProofs.CreateAtomic.tables_le_columns
/-- `_Validation` never shows more rows than `_Columns` -/
def validation_le_columns := @MsiProofs.CreateAtomic.validation_le_columns
/-- the key checks of the three catalog inserts pass for a fresh, pre-validated table -/
def keys_columns := @MsiProofs.CreateAtomic.keys_columns
def keys_tables := @MsiProofs.CreateAtomic.keys_tables
def keys_validation := @MsiProofs.CreateAtomic.keys_validation
/-- **`create_table` is atomic** -/
def createTable_atomic := @MsiProofs.CreateAtomic.createTable_atomic
/-- **a rejected `create_table` leaves the state as it was** (up to the pending-finisher flag) -/
def createTable_rejected_view := @MsiProofs.Lifecycle2.createTable_rejected_view
/-- **the reply of an insert is the gate's verdict**, so a refused insert is decided before any change -/
def insert_reply := @MsiProofs.Gate.insert_reply

/-- **`drop_table` cannot fail midway**: once the name passes the checks the call succeeds -/
def dropTable_total := @MsiProofs.DropTotal.dropTable_total
/-- the reply of a delete is decided by the names alone -/
def delete_reply := @MsiProofs.DropTotal.delete_reply

end MsiProofs.C04
