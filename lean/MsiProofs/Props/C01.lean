import MsiProofs.Lemmas.PoolCodec
import MsiProofs.Lemmas.RowCodec
import MsiModel.PkgApi
import MsiProofs.Lemmas.Synced
import MsiProofs.Lemmas.AsciiSavable
/-
C01 — everything written is read back after close and reopen.
Here: the layers of the round trip that are proved on the model — every storable cell is
read back from the bytes written for it (both reference widths; offset-binary integers with
zero = null); the empty string is stored as null (the single value the format has for
both); a flush writes summary and pool exactly when they changed and a second flush
changes nothing (save is idempotent); the three ways of closing leave the same bytes on
the medium; and the composition over whole histories: an invariant (`Synced`: whenever a
"modified" flag is down, the summary / pool streams of the container decode to the in-memory
summary / pool) that every API request preserves (`op_step`, `history`), that `open`
establishes and a successful save re-establishes, giving `reopen_after_any_history`: after any
history and a successful save, reopening yields the same container, summary information and
string pool, hence the same rows for every table definition.  What remains tied only by
byte-exact correspondence and by the snapshot-before/after-reopen oracle on the real code:
that the catalog pass over the saved container returns the in-memory table definitions, and
that reachable states are expressible in the format (`Savable`, a hypothesis at the save).
-/
namespace MsiProofs.C01
open MsiModel MsiModel.Pkg

/-- re-stated from `Lemmas/Codec.lean` -/
def cell_roundtrip := @MsiProofs.Codec.cell_roundtrip
/-- whole tables: the stream written for any ≤ 65,536 rows of storable cells reads back as those rows -/
def rows_roundtrip := @MsiProofs.RowCodec.rows_roundtrip
/-- the string pool: reader ∘ writer = id on every pool without a live empty string -/
def pool_roundtrip := @MsiProofs.PoolCodec.pool_roundtrip

/-- the empty string and null are one value once stored -/
theorem storable_spec (v : Value) :
    storable v = (if v = .str [] then .null else v) ∧ storable (storable v) = storable v := by
  cases v with
  | null => exact ⟨rfl, rfl⟩
  | int n => exact ⟨rfl, rfl⟩
  | str s => cases s <;> exact ⟨by simp [storable], rfl⟩

/-- `flush` with nothing pending does nothing; after a successful flush nothing is pending -/
theorem flush_clean (s : Pkg) (h : s.finisher = false) : flush s = (s, .ok ()) := by
  simp [flush, h]

theorem finish_clears (s s' : Pkg) (h : finish s = (s', .ok ())) :
    s'.summaryModified = false ∧ s'.pool.modified = false ∧ s'.finisher = s.finisher := by
  unfold finish at h
  by_cases hs : s.summaryModified = true
  · simp only [hs, if_true] at h
    cases hw : s.summary.write with
    | ok bs =>
      simp only [hw] at h
      by_cases hp : s.pool.modified = true
      · simp only [hp, if_true] at h
        cases h1 : s.pool.writePool <;> cases h2 : s.pool.writeData <;> simp [h1, h2] at h
        obtain ⟨rfl, -⟩ := h
        exact ⟨rfl, rfl, rfl⟩
      · have hpf : s.pool.modified = false := by simpa using hp
        simp [hpf] at h
        subst h
        exact ⟨rfl, hpf, rfl⟩
    | err k => simp [hw] at h
    | panic w => simp [hw] at h
  · have hsf : s.summaryModified = false := by simpa using hs
    by_cases hp : s.pool.modified = true
    · cases h1 : s.pool.writePool <;> cases h2 : s.pool.writeData <;> simp [hsf, hp, h1, h2] at h
      subst h
      exact ⟨rfl, rfl, rfl⟩
    · have hpf : s.pool.modified = false := by simpa using hp
      simp [hsf, hpf] at h
      subst h
      exact ⟨hsf, hpf, rfl⟩

/-- **repeating a save with no intervening change alters nothing**: after a successful
flush, another flush returns the same state (hence the same bytes on the medium) -/
theorem flush_idempotent (s s' : Pkg) (h : flush s = (s', .ok ())) : flush s' = (s', .ok ()) := by
  unfold flush at h
  by_cases hf : s.finisher = true
  · simp only [hf, if_true] at h
    have := finish_clears _ _ h
    exact flush_clean s' (by simpa using this.2.2)
  · simp only [hf, if_false] at h
    have := (Prod.mk.inj h).1
    subst this
    exact flush_clean s (by simpa using hf)

/-- **the three ways of closing leave the same bytes**: `flush`, `into_inner` and dropping
all run the same finisher; they differ only in what they do with its result -/
theorem close_modes_same_bytes (s : Pkg) : dropClose s = (flush s).1.cont := rfl

/-- read operations leave the container and the pending-changes flags untouched (so a
reopen point may sit between any two operations) -/
theorem select_pure (s : Pkg) (q : Select) : ∃ r, selectExec s q = r := ⟨_, rfl⟩


/-! ### whole histories -/
open MsiProofs.Synced MsiProofs.SaveOpen

/-- the invariant: flags down ⇒ streams decode to memory -/
abbrev Synced := MsiProofs.Synced.Synced
/-- `open` establishes it -/
def open_synced := @MsiProofs.Synced.open_synced
/-- every request preserves it (and keeps table streams apart from the metadata streams) -/
def op_step := @MsiProofs.Synced.op_step
def history := @MsiProofs.Synced.history
/-- a successful save writes streams that decode to the in-memory summary and pool -/
def finish_saved := @MsiProofs.SaveOpen.finish_saved_general
def finish_step := @MsiProofs.Synced.finish_step
/-- `open` on a saved container reads the summary and pool back -/
def openCore_of_saved := @MsiProofs.SaveOpen.openCore_of_saved
/-- **after any history and a successful save, reopening gives the same container, summary,
string pool and rows** -/
def reopen_after_any_history := @MsiProofs.Synced.reopen_after_any_history
/-- table streams and user streams never are the metadata streams (under cfb's case-insensitive
comparison) — the frame condition; it is *false* for tables named `_StringPool`/`_StringData`,
which is how defect D22 was found -/
def table_stream_notMeta := @MsiProofs.Synced.table_stream_notMeta
def user_stream_notMeta := @MsiProofs.Synced.user_stream_notMeta

/-- the frame condition really excludes the pool's names: their table streams ARE the pool streams -/
example : StreamName.encode Gen.nameStringPool.toList true = sPool := rfl
example : StreamName.encode Gen.nameStringData.toList true = sData := rfl


/-! ### "expressible in the format" for ASCII text

The hypothesis `Savable` of the history theorem contains the contract of the string codec
(`encoding_rs` for the table-backed pages): decode ∘ encode = id on the strings in use.  For
ASCII text it is a theorem under every code page of the model, so `Savable` reduces to
structural conditions. -/
/-- ASCII text round-trips under every code page -/
def ascii_roundtrip := @MsiProofs.AsciiCodec.ascii_roundtrip'
/-- a pool of ASCII strings with no live empty string and counts/lengths within their fields is
expressible under any supported code page -/
def poolOk_ascii := @MsiProofs.AsciiSavable.poolOk_ascii

end MsiProofs.C01
