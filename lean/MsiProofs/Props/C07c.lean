import MsiProofs.Props.C07b
import MsiProofs.Lemmas.Gate
import MsiProofs.Lemmas.UpdateGate
/-
C07, the gate at the level of the package state — what `Insert::exec` replies is a function of the
relational view (the rows the table shows) and the request: refused exactly for a wrong number of
values, a value not valid for its column, a key already present or repeated in the batch, or too
many rows; accepted otherwise (or the string pool's capacity panic, recorded finding D16b).
-/
namespace MsiProofs.C07

/-- the key checks on the key-sorted map are the key checks on the rows the table shows -/
def checkNew_eq := @MsiProofs.Gate.checkNew_eq
/-- stored rows with pairwise different keys always load -/
def loadMap_some := @MsiProofs.Gate.loadMap_some
/-- interning strings never returns an error -/
def addRows_no_err := @MsiProofs.Gate.addRows_no_err
/-- **the reply of `Insert::exec` is the gate's verdict on the relational view** -/
def insert_reply := @MsiProofs.Gate.insert_reply

/-- the duplicate check of `Update::exec` (sort by key, compare neighbours) finds a duplicate exactly
when the keys are not pairwise different -/
def dup_flag_iff := @MsiProofs.UpdateGate.dup_flag_iff
/-- once the new cells exist, writing the table back cannot fail -/
def storeRows_upd_ok := @MsiProofs.UpdateGate.storeRows_upd_ok
/-- **the reply of `Update::exec` is the gate's verdict on the relational view**: refused exactly for
an unknown column or a value not valid for its column in an assignment, an unknown column in the
condition, or - when a key column is assigned - two rows ending up with the same key -/
def update_reply := @MsiProofs.UpdateGate.update_reply

end MsiProofs.C07
