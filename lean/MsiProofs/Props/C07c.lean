import MsiProofs.Props.C07b
import MsiProofs.Lemmas.Gate
/-
C07, the gate at the level of the package state — what `Insert::exec` replies is a function of the
relational view (the rows the table shows) and the request: refused exactly for a wrong number of
values, a value not valid for its column, a key already present or repeated in the batch, or too
many rows; accepted otherwise (or the string pool's capacity panic, recorded finding D16b).
-/
namespace MsiProofs.C07

/-- the key checks on the key-sorted map are the key checks on the rows the table shows -/
def checkNew_eq := @MsiProofs.Gate.checkNew_eq
/-- stored rows with pairwise different keys always load -/
def loadMap_some := @MsiProofs.Gate.loadMap_some
/-- interning strings never returns an error -/
def addRows_no_err := @MsiProofs.Gate.addRows_no_err
/-- **the reply of `Insert::exec` is the gate's verdict on the relational view** -/
def insert_reply := @MsiProofs.Gate.insert_reply

end MsiProofs.C07
