import MsiProofs.Props.C01
import MsiProofs.Lemmas.EndToEnd
import MsiProofs.Lemmas.Lifecycle
import MsiProofs.Lemmas.AsciiLifecycle
import MsiProofs.Lemmas.Utf8Lifecycle
import MsiProofs.Lemmas.Lifecycle2
import MsiProofs.Lemmas.ClosedLifecycle
/-
C01, end to end on the model — from any state satisfying the package invariants (reference counts
exact up to a slack, keys ascending, metadata streams in sync, catalog tables in sync with the table
list), after any history of inserts, updates and deletes on user tables (accepted or refused) and a
successful save, reopening the container gives a package with the same container, summary
information, string pool AND table definitions, in which every table reads the same rows.
-/
namespace MsiProofs.C01
open MsiModel MsiModel.Pkg

abbrev AllInv := MsiProofs.EndToEnd.AllInv
/-- with the catalog in sync, the catalog pass of `open` returns the in-memory table list -/
def synced_open := @MsiProofs.CatalogSync.synced_open
/-- reopening a saved, catalog-synced package gives the same container, summary, pool and tables -/
def reopen_same_tables := @MsiProofs.CatalogSync.reopen_same_tables
/-- every statement on a user table keeps all invariants -/
def op_allInv := @MsiProofs.EndToEnd.op_allInv
def history_allInv := @MsiProofs.EndToEnd.history_allInv
/-- **save and reopen after any history of data manipulation: the same package** -/
def reopen_after_history := @MsiProofs.EndToEnd.reopen_after_history
/-- the frame condition: other tables read the same rows with the same values -/
def op_kept := @MsiProofs.Frame.op_kept
/-- a successful save keeps the catalog in sync -/
def finish_catalogSynced := @MsiProofs.CatalogSync.finish_catalogSynced


/-! ### the whole life of a package made with the library -/

abbrev Full := MsiProofs.CreateTable.Full
abbrev NoOrphans := MsiProofs.FullHistory.NoOrphans
abbrev Step := MsiProofs.Lifecycle.Step
abbrev Admissible := MsiProofs.Lifecycle.Admissible
abbrev runAll := MsiProofs.Lifecycle.runAll

/-- an accepted `create_table` keeps every invariant and extends the catalog by the new definition -/
def createTable_full := @MsiProofs.CreateTable.createTable_full
/-- an accepted `drop_table` keeps every invariant and removes the definition from the catalog -/
def dropTable_full := @MsiProofs.DropTable.dropTable_full
/-- stream calls, signature removal, summary setters and the code-page setter keep every invariant -/
def full_transfer := @MsiProofs.OtherCalls.full_transfer
/-- the state `Package::create` builds satisfies every invariant -/
def created_full := @MsiProofs.Created.created_full
/-- a successful save keeps every invariant -/
def finish_core := @MsiProofs.FullHistory.finish_core
/-- one API call (statement, `create_table`, save) keeps every invariant -/
def step_full := @MsiProofs.Lifecycle.step_full
/-- `save` then close-and-reopen is admissible: sessions chain -/
def saved_after_save := @MsiProofs.Lifecycle.saved_after_save
/-- every state reachable from a state satisfying the invariants satisfies them -/
def history_full := @MsiProofs.Lifecycle.history_full
/-- `create` = base state + `create_table("_Validation")` + flush -/
def create_unfold := @MsiProofs.Lifecycle.create_unfold
/-- **every package made with `Package::create` reopens as it was**, after any admissible history -/
def create_reopens := @MsiProofs.Lifecycle.create_reopens
def created_reopens := @MsiProofs.Lifecycle.created_reopens

/-- **the `Savable` hypothesis discharged for ASCII text**: with ASCII texts in every call, only the
summary's well-formedness is assumed at the final save -/
def created_ascii_reopens := @MsiProofs.AsciiLifecycle.created_ascii_reopens
/-- every reachable state keeps a pool that can be written (counts below 65,536, no live empty
entry, texts satisfying the predicate the inputs satisfy, a supported code page) -/
def historyA := @MsiProofs.AsciiLifecycle.historyA
def step_pt := @MsiProofs.AsciiLifecycle.step_pt

/-- **the model's UTF-8 decoder (WHATWG, with replacement) reads the encoding of any text back** -/
def utf8_lossy_roundtrip := @MsiProofs.Utf8Codec.lossy_roundtrip
/-- every text round-trips under the UTF-8 code page -/
def utf8_roundtrip := @MsiProofs.Utf8Lifecycle.utf8_roundtrip
/-- a pool of any texts is expressible under UTF-8 (no live empty entry, counts and lengths in range) -/
def poolOk_utf8 := @MsiProofs.Utf8Lifecycle.poolOk_utf8
/-- every reachable state keeps every invariant and a pool fit to be written under UTF-8 -/
def historyU := @MsiProofs.Utf8Lifecycle.historyU
/-- **the `Savable` hypothesis discharged for ANY Unicode text under the UTF-8 code page** (the
default): only the summary's well-formedness is assumed at a save -/
def created_utf8_reopens := @MsiProofs.Utf8Lifecycle.created_utf8_reopens

/-- **every `create_table` call that returns is covered**: `create_table` is atomic, so the
lifecycle theorem needs no restriction on it beyond "no capacity panic" -/
def created_reopens_all := @MsiProofs.Lifecycle2.created_reopens_all
def history_all := @MsiProofs.Lifecycle2.history_all

/-- non-vacuity: `Package::create` succeeds (kernel evaluation of the model) -/
theorem create_succeeds : (create Profile.dev 0).isOk = true := by decide +kernel

/-- the package `create` returns -/
def demoPkg : Pkg := match create Profile.dev 0 with | .ok s => s | _ => default

theorem demo_created : create Profile.dev 0 = .ok demoPkg := by
  have h := create_succeeds
  unfold demoPkg
  cases hc : create Profile.dev 0 with
  | ok s => rfl
  | err k => rw [hc] at h; cases h
  | panic w => rw [hc] at h; cases h

def demoCols : List Column :=
  [{ Catalog.mkCol "Id" .int32 with isPrimaryKey := true }, { Catalog.mkCol "Text" (.str 20) with isNullable := true }]

/-- non-vacuity: a history with an accepted `create_table`, an accepted insert, a refused insert
(duplicate key), a delete, an accepted `drop_table` and a refused one (table gone) is admissible on the created package -/
theorem demo_admissible : Admissible demoPkg
    [.create "Demo".toList demoCols,
     .dml (.insert "Demo".toList [[.int 7, .str "seven".toList], [.int 8, .null]]),
     .dml (.insert "Demo".toList [[.int 7, .null]]),
     .dml (.delete "Demo".toList none),
     .drop "Demo".toList,
     .drop "Demo".toList] := by
  refine ⟨Or.inr ?_, ?_, ?_, ?_, Or.inr ?_, Or.inl (Or.inr (Or.inr ?_)), trivial⟩
  · decide +kernel
  · show MsiProofs.CatalogSync.isCatalogName "Demo".toList = false; decide
  · show MsiProofs.CatalogSync.isCatalogName "Demo".toList = false; decide
  · show MsiProofs.CatalogSync.isCatalogName "Demo".toList = false; decide
  · decide +kernel
  · decide +kernel

/-- and the accepted calls really are accepted there -/
theorem demo_accepted :
    (insertExec { (createTable demoPkg "Demo".toList demoCols).1 with finisher := true } "Demo".toList
      [[.int 7, .str "seven".toList], [.int 8, .null]]).2 = .ok () := by decide +kernel


/-- **the whole-life theorem with every hypothesis discharged** (UTF-8, any Unicode text): from
`Package::create`, after ANY sequence of covered calls - none assumed to succeed, only not to hit
the capacity panic - a save succeeds and the saved container reopens as the same package -/
def create_closed := @MsiProofs.ClosedLifecycle.create_closed
def created_closed := @MsiProofs.ClosedLifecycle.created_closed
/-- one covered call keeps every invariant, the pool and the summary expressible -/
def step_closed := @MsiProofs.ClosedLifecycle.step_closed
/-- a state that can be written is written: the finisher succeeds -/
def finish_ok := @MsiProofs.ClosedLifecycle.finish_ok
/-- the summary setters and clearers keep the summary information a well-formed property set -/
def sumInv_apply := @MsiProofs.SummaryInv.sumInv_apply
def sumInv_wf := @MsiProofs.SummaryInv.sumInv_wf

open MsiProofs.ClosedLifecycle MsiProofs.SummaryInv MsiProofs.Utf8Lifecycle MsiProofs.AsciiLifecycle in
/-- non-vacuity of the closed theorem: a history with non-ASCII text, an accepted and a refused
insert, a summary setter, a save and a close-and-reopen is covered -/
theorem demo_closed : AdmissibleC demoPkg
    [.create "Demo".toList demoCols,
     .dml (.insert "Demo".toList [[.int 7, .str "s\u00e9ven \u65e5\u672c".toList], [.int 8, .null]]),
     .dml (.insert "Demo".toList [[.int 7, .null]]),
     .setSummary (SumOp.apply (.str Gen.propAuthor "J\u00fcrgen".toList)),
     .save,
     .reopen] := by
  have hcr : (createTable demoPkg "Demo".toList demoCols).2 = .ok () := by decide +kernel
  have short : ∀ st : List Char, st.length ≤ 1000 → Utf8Short st := by
    intro st hl
    show (utf8Bytes st).length < 4294967296
    have := MsiProofs.SummaryInv.utf8Bytes_le st
    omega
  have user : MsiProofs.EndToEnd.UserOp (.insert "Demo".toList [[.int 7, .str "s\u00e9ven \u65e5\u672c".toList], [.int 8, .null]]) := by
    show MsiProofs.CatalogSync.isCatalogName "Demo".toList = false; decide
  have user2 : MsiProofs.EndToEnd.UserOp (.insert "Demo".toList [[.int 7, .null]]) := by
    show MsiProofs.CatalogSync.isCatalogName "Demo".toList = false; decide
  constructor
  · -- create_table
    refine ⟨(fun w h => by rw [hcr] at h; cases h), ?_, ?_, ?_⟩
    · exact rowsA_utf8_of_ascii _ (rowsA_of_check _ (by decide +kernel))
    · exact rowsA_utf8_of_ascii _ (rowsA_of_check _ (by decide +kernel))
    · exact rowsA_utf8_of_ascii _ (rowsA_of_check _ (by decide +kernel))
  constructor
  · -- an insert with non-ASCII text
    refine ⟨user, ?_⟩
    intro r hr v hv
    cases v with
    | null => trivial
    | int n => trivial
    | str st =>
      apply short
      simp only [List.mem_cons, List.mem_nil_iff, or_false] at hr
      rcases hr with rfl | rfl <;> simp only [List.mem_cons, List.mem_nil_iff, or_false] at hv <;>
        rcases hv with hv | hv <;> cases hv <;> decide
  constructor
  · -- a refused insert (duplicate key)
    refine ⟨user2, ?_⟩
    intro r hr v hv
    cases v with
    | null => trivial
    | int n => trivial
    | str st =>
      simp only [List.mem_cons, List.mem_nil_iff, or_false] at hr
      subst hr
      simp only [List.mem_cons, List.mem_nil_iff, or_false] at hv
      rcases hv with hv | hv <;> cases hv
  constructor
  · -- a summary setter
    refine Or.inl ⟨SumOp.str Gen.propAuthor "J\u00fcrgen".toList, ⟨by decide, ?_⟩, rfl⟩
    show (utf8Bytes _).length < bound
    have := MsiProofs.SummaryInv.utf8Bytes_le "J\u00fcrgen".toList
    have hl : "J\u00fcrgen".toList.length = 6 := by decide
    unfold bound; omega
  constructor
  · trivial
  constructor
  · -- close and reopen: nothing is pending after the save
    constructor <;> decide +kernel
  · trivial

end MsiProofs.C01
