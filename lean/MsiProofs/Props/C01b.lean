import MsiProofs.Props.C01
import MsiProofs.Lemmas.EndToEnd
import MsiProofs.Lemmas.Lifecycle
import MsiProofs.Lemmas.AsciiLifecycle
/-
C01, end to end on the model — from any state satisfying the package invariants (reference counts
exact up to a slack, keys ascending, metadata streams in sync, catalog tables in sync with the table
list), after any history of inserts, updates and deletes on user tables (accepted or refused) and a
successful save, reopening the container gives a package with the same container, summary
information, string pool AND table definitions, in which every table reads the same rows.
-/
namespace MsiProofs.C01
open MsiModel MsiModel.Pkg

abbrev AllInv := MsiProofs.EndToEnd.AllInv
/-- with the catalog in sync, the catalog pass of `open` returns the in-memory table list -/
def synced_open := @MsiProofs.CatalogSync.synced_open
/-- reopening a saved, catalog-synced package gives the same container, summary, pool and tables -/
def reopen_same_tables := @MsiProofs.CatalogSync.reopen_same_tables
/-- every statement on a user table keeps all invariants -/
def op_allInv := @MsiProofs.EndToEnd.op_allInv
def history_allInv := @MsiProofs.EndToEnd.history_allInv
/-- **save and reopen after any history of data manipulation: the same package** -/
def reopen_after_history := @MsiProofs.EndToEnd.reopen_after_history
/-- the frame condition: other tables read the same rows with the same values -/
def op_kept := @MsiProofs.Frame.op_kept
/-- a successful save keeps the catalog in sync -/
def finish_catalogSynced := @MsiProofs.CatalogSync.finish_catalogSynced


/-! ### the whole life of a package made with the library -/

abbrev Full := MsiProofs.CreateTable.Full
abbrev NoOrphans := MsiProofs.FullHistory.NoOrphans
abbrev Step := MsiProofs.Lifecycle.Step
abbrev Admissible := MsiProofs.Lifecycle.Admissible
abbrev runAll := MsiProofs.Lifecycle.runAll

/-- an accepted `create_table` keeps every invariant and extends the catalog by the new definition -/
def createTable_full := @MsiProofs.CreateTable.createTable_full
/-- an accepted `drop_table` keeps every invariant and removes the definition from the catalog -/
def dropTable_full := @MsiProofs.DropTable.dropTable_full
/-- stream calls, signature removal, summary setters and the code-page setter keep every invariant -/
def full_transfer := @MsiProofs.OtherCalls.full_transfer
/-- the state `Package::create` builds satisfies every invariant -/
def created_full := @MsiProofs.Created.created_full
/-- a successful save keeps every invariant -/
def finish_core := @MsiProofs.FullHistory.finish_core
/-- one API call (statement, `create_table`, save) keeps every invariant -/
def step_full := @MsiProofs.Lifecycle.step_full
/-- `save` then close-and-reopen is admissible: sessions chain -/
def saved_after_save := @MsiProofs.Lifecycle.saved_after_save
/-- every state reachable from a state satisfying the invariants satisfies them -/
def history_full := @MsiProofs.Lifecycle.history_full
/-- `create` = base state + `create_table("_Validation")` + flush -/
def create_unfold := @MsiProofs.Lifecycle.create_unfold
/-- **every package made with `Package::create` reopens as it was**, after any admissible history -/
def create_reopens := @MsiProofs.Lifecycle.create_reopens
def created_reopens := @MsiProofs.Lifecycle.created_reopens

/-- **the `Savable` hypothesis discharged for ASCII text**: with ASCII texts in every call, only the
summary's well-formedness is assumed at the final save -/
def created_ascii_reopens := @MsiProofs.AsciiLifecycle.created_ascii_reopens
/-- every reachable state keeps a pool that can be written (counts below 65,536, no live empty
entry, texts satisfying the predicate the inputs satisfy, a supported code page) -/
def historyA := @MsiProofs.AsciiLifecycle.historyA
def step_pt := @MsiProofs.AsciiLifecycle.step_pt

/-- non-vacuity: `Package::create` succeeds (kernel evaluation of the model) -/
theorem create_succeeds : (create Profile.dev 0).isOk = true := by decide +kernel

/-- the package `create` returns -/
def demoPkg : Pkg := match create Profile.dev 0 with | .ok s => s | _ => default

theorem demo_created : create Profile.dev 0 = .ok demoPkg := by
  have h := create_succeeds
  unfold demoPkg
  cases hc : create Profile.dev 0 with
  | ok s => rfl
  | err k => rw [hc] at h; cases h
  | panic w => rw [hc] at h; cases h

def demoCols : List Column :=
  [{ Catalog.mkCol "Id" .int32 with isPrimaryKey := true }, { Catalog.mkCol "Text" (.str 20) with isNullable := true }]

/-- non-vacuity: a history with an accepted `create_table`, an accepted insert, a refused insert
(duplicate key), a delete, an accepted `drop_table` and a refused one (table gone) is admissible on the created package -/
theorem demo_admissible : Admissible demoPkg
    [.create "Demo".toList demoCols,
     .dml (.insert "Demo".toList [[.int 7, .str "seven".toList], [.int 8, .null]]),
     .dml (.insert "Demo".toList [[.int 7, .null]]),
     .dml (.delete "Demo".toList none),
     .drop "Demo".toList,
     .drop "Demo".toList] := by
  refine ⟨Or.inr ?_, ?_, ?_, ?_, Or.inr ?_, Or.inl (Or.inr (Or.inr ?_)), trivial⟩
  · decide +kernel
  · show MsiProofs.CatalogSync.isCatalogName "Demo".toList = false; decide
  · show MsiProofs.CatalogSync.isCatalogName "Demo".toList = false; decide
  · show MsiProofs.CatalogSync.isCatalogName "Demo".toList = false; decide
  · decide +kernel
  · decide +kernel

/-- and the accepted calls really are accepted there -/
theorem demo_accepted :
    (insertExec { (createTable demoPkg "Demo".toList demoCols).1 with finisher := true } "Demo".toList
      [[.int 7, .str "seven".toList], [.int 8, .null]]).2 = .ok () := by decide +kernel

end MsiProofs.C01
