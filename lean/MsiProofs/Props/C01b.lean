import MsiProofs.Props.C01
import MsiProofs.Lemmas.EndToEnd
/-
C01, end to end on the model — from any state satisfying the package invariants (reference counts
exact up to a slack, keys ascending, metadata streams in sync, catalog tables in sync with the table
list), after any history of inserts, updates and deletes on user tables (accepted or refused) and a
successful save, reopening the container gives a package with the same container, summary
information, string pool AND table definitions, in which every table reads the same rows.
-/
namespace MsiProofs.C01
open MsiModel MsiModel.Pkg

abbrev AllInv := MsiProofs.EndToEnd.AllInv
/-- with the catalog in sync, the catalog pass of `open` returns the in-memory table list -/
def synced_open := @MsiProofs.CatalogSync.synced_open
/-- reopening a saved, catalog-synced package gives the same container, summary, pool and tables -/
def reopen_same_tables := @MsiProofs.CatalogSync.reopen_same_tables
/-- every statement on a user table keeps all invariants -/
def op_allInv := @MsiProofs.EndToEnd.op_allInv
def history_allInv := @MsiProofs.EndToEnd.history_allInv
/-- **save and reopen after any history of data manipulation: the same package** -/
def reopen_after_history := @MsiProofs.EndToEnd.reopen_after_history
/-- the frame condition: other tables read the same rows with the same values -/
def op_kept := @MsiProofs.Frame.op_kept
/-- a successful save keeps the catalog in sync -/
def finish_catalogSynced := @MsiProofs.CatalogSync.finish_catalogSynced

end MsiProofs.C01
