import MsiProofs.Props.C07
/-
C07, remaining categories — Integer / DoubleInteger (text of a 16- / 32-bit integer) and the file
name form of Cabinet, as grammars.
-/
namespace MsiProofs.C07
open MsiModel MsiModel.Category

/-- the text of an integer between `lo` and `hi`: an optional single sign, then one or more
digits, with the value in range -/
def IntText (lo hi : Int) (s : List Char) : Prop :=
  ∃ (neg : Bool) (ds : List Char),
    (s = ds ∧ neg = false ∧ ds.head? ≠ some '-' ∧ ds.head? ≠ some '+' ∨
     s = '+' :: ds ∧ neg = false ∨ s = '-' :: ds ∧ neg = true) ∧
    ds ≠ [] ∧ (∀ c ∈ ds, isDigit c = true) ∧
    lo ≤ (if neg then -(digitsValue ds : Int) else (digitsValue ds : Int)) ∧
    (if neg then -(digitsValue ds : Int) else (digitsValue ds : Int)) ≤ hi

def signSplit : List Char → Bool × List Char
  | '-' :: ds => (true, ds)
  | '+' :: ds => (false, ds)
  | ds => (false, ds)

theorem signSplit_other (c : Char) (cs : List Char) (hm : c ≠ '-') (hp : c ≠ '+') :
    signSplit (c :: cs) = (false, c :: cs) := by
  unfold signSplit
  split
  · rename_i ds heq; injection heq with h1 _; exact absurd h1 hm
  · rename_i ds heq; injection heq with h1 _; exact absurd h1 hp
  · rfl

theorem parsesSigned_eq (lo hi : Int) (s : List Char) : parsesSigned lo hi s =
    (!(signSplit s).2.isEmpty && (signSplit s).2.all isDigit &&
      decide (lo ≤ (if (signSplit s).1 then -(digitsValue (signSplit s).2 : Int) else (digitsValue (signSplit s).2 : Int)) ∧
        (if (signSplit s).1 then -(digitsValue (signSplit s).2 : Int) else (digitsValue (signSplit s).2 : Int)) ≤ hi)) := by
  unfold parsesSigned
  cases s with
  | nil => rfl
  | cons c cs =>
    by_cases hm : c = '-'
    · subst hm; rfl
    · by_cases hp : c = '+'
      · subst hp; rfl
      · rw [signSplit_other c cs hm hp]
        split
        rename_i neg ds heq
        split at heq
        · rename_i ds' hpat; injection hpat with h1 _; exact absurd h1 hm
        · rename_i ds' hpat; injection hpat with h1 _; exact absurd h1 hp
        · cases heq; rfl

theorem parsesSigned_iff (lo hi : Int) (s : List Char) : parsesSigned lo hi s = true ↔ IntText lo hi s := by
  rw [parsesSigned_eq]
  unfold IntText
  simp only [Bool.and_eq_true, Bool.not_eq_true', List.all_eq_true, decide_eq_true_eq]
  constructor
  · rintro ⟨⟨hne, hdig⟩, hlo, hhi⟩
    cases s with
    | nil => simp [signSplit] at hne
    | cons c cs =>
      by_cases hm : c = '-'
      · subst hm
        exact ⟨true, cs, Or.inr (Or.inr ⟨rfl, rfl⟩), by simpa [signSplit, List.isEmpty_iff] using hne,
          by simpa [signSplit] using hdig, by simpa [signSplit] using hlo, by simpa [signSplit] using hhi⟩
      · by_cases hp : c = '+'
        · subst hp
          exact ⟨false, cs, Or.inr (Or.inl ⟨rfl, rfl⟩), by simpa [signSplit, List.isEmpty_iff] using hne,
            by simpa [signSplit] using hdig, by simpa [signSplit] using hlo, by simpa [signSplit] using hhi⟩
        · rw [signSplit_other c cs hm hp] at hne hdig hlo hhi
          refine ⟨false, c :: cs, Or.inl ⟨rfl, rfl, ?_, ?_⟩, by simp, hdig, by simpa using hlo, by simpa using hhi⟩
          · simp only [List.head?_cons, ne_eq, Option.some.injEq]; exact hm
          · simp only [List.head?_cons, ne_eq, Option.some.injEq]; exact hp
  · rintro ⟨neg, ds, hform, hne, hdig, hlo, hhi⟩
    rcases hform with ⟨rfl, rfl, h1, h2⟩ | ⟨rfl, rfl⟩ | ⟨rfl, rfl⟩
    · cases s with
      | nil => exact absurd rfl hne
      | cons c cs =>
        have hm : c ≠ '-' := by simpa using h1
        have hp : c ≠ '+' := by simpa using h2
        rw [signSplit_other c cs hm hp]
        exact ⟨⟨by simp, hdig⟩, by simpa using hlo, by simpa using hhi⟩
    · have : ds.isEmpty = false := by simpa [List.isEmpty_iff] using hne
      exact ⟨⟨by simpa [signSplit] using this, by simpa [signSplit] using hdig⟩, by simpa [signSplit] using hlo,
        by simpa [signSplit] using hhi⟩
    · have : ds.isEmpty = false := by simpa [List.isEmpty_iff] using hne
      exact ⟨⟨by simpa [signSplit] using this, by simpa [signSplit] using hdig⟩, by simpa [signSplit] using hlo,
        by simpa [signSplit] using hhi⟩

/-- **Integer**: the text of a 16-bit integer; **DoubleInteger**: of a 32-bit integer — one
optional sign, digits, in range (so "+7" and "-0" are accepted, "", "+", "1e3", " 7" are not) -/
theorem integer_iff (s : List Char) :
    (validate .integer s = true ↔ IntText (-32768) 32767 s) ∧
    (validate .doubleInteger s = true ↔ IntText (-2147483648) 2147483647 s) :=
  ⟨parsesSigned_iff _ _ s, parsesSigned_iff _ _ s⟩

/-- **Cabinet, file-name form** (no leading `#`): with the name split at its last period, the part
before it has 1–8 characters and the extension, if there is one, at most 3 — counted in characters -/
theorem cabinet_file (s : List Char) (h : s.head? ≠ some '#') :
    validate .cabinet s = true ↔
      (splitLast '.' s).1 ≠ [] ∧ (splitLast '.' s).1.length ≤ 8 ∧
      ∀ e, (splitLast '.' s).2 = some e → e.length ≤ 3 := by
  have hmatch : validate .cabinet s =
      (!(splitLast '.' s).1.isEmpty && decide ((splitLast '.' s).1.length ≤ 8) &&
        (match (splitLast '.' s).2 with | none => true | some e => decide (e.length ≤ 3))) := by
    cases s with
    | nil => rfl
    | cons c cs =>
      have hc : c ≠ '#' := by simpa using h
      show (match c :: cs with
        | '#' :: rest => isIdentifier rest
        | _ =>
          let (base, ext) := splitLast '.' (c :: cs)
          !base.isEmpty && decide (base.length ≤ 8) &&
            (match ext with | none => true | some e => decide (e.length ≤ 3))) = _
      split
      · rename_i rest heq; injection heq with h1 _; exact absurd h1 hc
      · rfl
  rw [hmatch]
  cases he : (splitLast '.' s).2 with
  | none => simp [List.isEmpty_iff]
  | some e => simp [List.isEmpty_iff, and_assoc]

example : validate .integer "+7".toList = true ∧ validate .integer "32768".toList = false ∧
    validate .doubleInteger "-2147483648".toList = true ∧ validate .integer "".toList = false := by decide
example : validate .cabinet "cab1.cab".toList = true ∧ validate .cabinet "toolongname.cab".toList = false ∧
    validate .cabinet "a.b.text".toList = false := by decide

end MsiProofs.C07
