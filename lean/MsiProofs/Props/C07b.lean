import MsiProofs.Props.C07
/-
C07, remaining categories — Integer / DoubleInteger (text of a 16- / 32-bit integer) and the file
name form of Cabinet, as grammars.
-/
namespace MsiProofs.C07
open MsiModel MsiModel.Category

/-- the text of an integer between `lo` and `hi`: an optional single sign, then one or more
digits, with the value in range -/
def IntText (lo hi : Int) (s : List Char) : Prop :=
  ∃ (neg : Bool) (ds : List Char),
    (s = ds ∧ neg = false ∧ ds.head? ≠ some '-' ∧ ds.head? ≠ some '+' ∨
     s = '+' :: ds ∧ neg = false ∨ s = '-' :: ds ∧ neg = true) ∧
    ds ≠ [] ∧ (∀ c ∈ ds, isDigit c = true) ∧
    lo ≤ (if neg then -(digitsValue ds : Int) else (digitsValue ds : Int)) ∧
    (if neg then -(digitsValue ds : Int) else (digitsValue ds : Int)) ≤ hi

def signSplit : List Char → Bool × List Char
  | '-' :: ds => (true, ds)
  | '+' :: ds => (false, ds)
  | ds => (false, ds)

theorem signSplit_other (c : Char) (cs : List Char) (hm : c ≠ '-') (hp : c ≠ '+') :
    signSplit (c :: cs) = (false, c :: cs) := by
  unfold signSplit
  split
  · rename_i ds heq; injection heq with h1 _; exact absurd h1 hm
  · rename_i ds heq; injection heq with h1 _; exact absurd h1 hp
  · rfl

theorem parsesSigned_eq (lo hi : Int) (s : List Char) : parsesSigned lo hi s =
    (!(signSplit s).2.isEmpty && (signSplit s).2.all isDigit &&
      decide (lo ≤ (if (signSplit s).1 then -(digitsValue (signSplit s).2 : Int) else (digitsValue (signSplit s).2 : Int)) ∧
        (if (signSplit s).1 then -(digitsValue (signSplit s).2 : Int) else (digitsValue (signSplit s).2 : Int)) ≤ hi)) := by
  unfold parsesSigned
  cases s with
  | nil => rfl
  | cons c cs =>
    by_cases hm : c = '-'
    · subst hm; rfl
    · by_cases hp : c = '+'
      · subst hp; rfl
      · rw [signSplit_other c cs hm hp]
        split
        rename_i neg ds heq
        split at heq
        · rename_i ds' hpat; injection hpat with h1 _; exact absurd h1 hm
        · rename_i ds' hpat; injection hpat with h1 _; exact absurd h1 hp
        · cases heq; rfl

theorem parsesSigned_iff (lo hi : Int) (s : List Char) : parsesSigned lo hi s = true ↔ IntText lo hi s := by
  rw [parsesSigned_eq]
  unfold IntText
  simp only [Bool.and_eq_true, Bool.not_eq_true', List.all_eq_true, decide_eq_true_eq]
  constructor
  · rintro ⟨⟨hne, hdig⟩, hlo, hhi⟩
    cases s with
    | nil => simp [signSplit] at hne
    | cons c cs =>
      by_cases hm : c = '-'
      · subst hm
        exact ⟨true, cs, Or.inr (Or.inr ⟨rfl, rfl⟩), by simpa [signSplit, List.isEmpty_iff] using hne,
          by simpa [signSplit] using hdig, by simpa [signSplit] using hlo, by simpa [signSplit] using hhi⟩
      · by_cases hp : c = '+'
        · subst hp
          exact ⟨false, cs, Or.inr (Or.inl ⟨rfl, rfl⟩), by simpa [signSplit, List.isEmpty_iff] using hne,
            by simpa [signSplit] using hdig, by simpa [signSplit] using hlo, by simpa [signSplit] using hhi⟩
        · rw [signSplit_other c cs hm hp] at hne hdig hlo hhi
          refine ⟨false, c :: cs, Or.inl ⟨rfl, rfl, ?_, ?_⟩, by simp, hdig, by simpa using hlo, by simpa using hhi⟩
          · simp only [List.head?_cons, ne_eq, Option.some.injEq]; exact hm
          · simp only [List.head?_cons, ne_eq, Option.some.injEq]; exact hp
  · rintro ⟨neg, ds, hform, hne, hdig, hlo, hhi⟩
    rcases hform with ⟨rfl, rfl, h1, h2⟩ | ⟨rfl, rfl⟩ | ⟨rfl, rfl⟩
    · cases s with
      | nil => exact absurd rfl hne
      | cons c cs =>
        have hm : c ≠ '-' := by simpa using h1
        have hp : c ≠ '+' := by simpa using h2
        rw [signSplit_other c cs hm hp]
        exact ⟨⟨by simp, hdig⟩, by simpa using hlo, by simpa using hhi⟩
    · have : ds.isEmpty = false := by simpa [List.isEmpty_iff] using hne
      exact ⟨⟨by simpa [signSplit] using this, by simpa [signSplit] using hdig⟩, by simpa [signSplit] using hlo,
        by simpa [signSplit] using hhi⟩
    · have : ds.isEmpty = false := by simpa [List.isEmpty_iff] using hne
      exact ⟨⟨by simpa [signSplit] using this, by simpa [signSplit] using hdig⟩, by simpa [signSplit] using hlo,
        by simpa [signSplit] using hhi⟩

/-- **Integer**: the text of a 16-bit integer; **DoubleInteger**: of a 32-bit integer — one
optional sign, digits, in range (so "+7" and "-0" are accepted, "", "+", "1e3", " 7" are not) -/
theorem integer_iff (s : List Char) :
    (validate .integer s = true ↔ IntText (-32768) 32767 s) ∧
    (validate .doubleInteger s = true ↔ IntText (-2147483648) 2147483647 s) :=
  ⟨parsesSigned_iff _ _ s, parsesSigned_iff _ _ s⟩

/-- **Cabinet, file-name form** (no leading `#`): with the name split at its last period, the part
before it has 1–8 characters and the extension, if there is one, at most 3 — counted in characters -/
theorem cabinet_file (s : List Char) (h : s.head? ≠ some '#') :
    validate .cabinet s = true ↔
      (splitLast '.' s).1 ≠ [] ∧ (splitLast '.' s).1.length ≤ 8 ∧
      ∀ e, (splitLast '.' s).2 = some e → e.length ≤ 3 := by
  have hmatch : validate .cabinet s =
      (!(splitLast '.' s).1.isEmpty && decide ((splitLast '.' s).1.length ≤ 8) &&
        (match (splitLast '.' s).2 with | none => true | some e => decide (e.length ≤ 3))) := by
    cases s with
    | nil => rfl
    | cons c cs =>
      have hc : c ≠ '#' := by simpa using h
      show (match c :: cs with
        | '#' :: rest => isIdentifier rest
        | _ =>
          let (base, ext) := splitLast '.' (c :: cs)
          !base.isEmpty && decide (base.length ≤ 8) &&
            (match ext with | none => true | some e => decide (e.length ≤ 3))) = _
      split
      · rename_i rest heq; injection heq with h1 _; exact absurd h1 hc
      · rfl
  rw [hmatch]
  cases he : (splitLast '.' s).2 with
  | none => simp [List.isEmpty_iff]
  | some e => simp [List.isEmpty_iff, and_assoc]

example : validate .integer "+7".toList = true ∧ validate .integer "32768".toList = false ∧
    validate .doubleInteger "-2147483648".toList = true ∧ validate .integer "".toList = false := by decide
example : validate .cabinet "cab1.cab".toList = true ∧ validate .cabinet "toolongname.cab".toList = false ∧
    validate .cabinet "a.b.text".toList = false := by decide

/-! ### GUID -/

theorem hex_size (c : Char) (h : isHex c = true) : c.utf8Size = 1 := by
  have hle : c.val ≤ 127 := by
    simp only [isHex, isDigit, Bool.or_eq_true, Bool.and_eq_true, decide_eq_true_eq] at h
    have e1 : ('9' : Char).val = 57 := rfl
    have e2 : ('f' : Char).val = 102 := rfl
    have e3 : ('F' : Char).val = 70 := rfl
    simp only [Char.le_def, UInt32.le_iff_toNat_le] at h ⊢
    rw [e1, e2, e3] at h
    have : (127 : UInt32).toNat = 127 := rfl
    rw [this]
    have a1 : (57 : UInt32).toNat = 57 := rfl
    have a2 : (102 : UInt32).toNat = 102 := rfl
    have a3 : (70 : UInt32).toNat = 70 := rfl
    rw [a1, a2, a3] at h
    omega
  simp [Char.utf8Size, hle]

theorem utf8Len_hex (l : List Char) (h : ∀ c ∈ l, isHex c = true) : utf8Len l = l.length := by
  unfold utf8Len
  induction l with
  | nil => rfl
  | cons c cs ih =>
    simp only [List.map_cons, List.sum_cons, List.length_cons]
    rw [hex_size c (h c (by simp)), ih (fun x hx => h x (by simp [hx]))]
    omega

theorem utf8Len_append (a b : List Char) : utf8Len (a ++ b) = utf8Len a + utf8Len b := by
  simp [utf8Len, List.sum_append]

theorem utf8Len_cons (c : Char) (b : List Char) : utf8Len (c :: b) = c.utf8Size + utf8Len b := by
  simp [utf8Len]

theorem dropLast_append_last {α} (l : List α) (x : α) (h : l.getLast? = some x) : l.dropLast ++ [x] = l := by
  induction l with
  | nil => cases h
  | cons a t ih =>
    cases t with
    | nil => simp at h; simp [h]
    | cons b t' =>
      rw [List.getLast?_cons_cons] at h
      simp only [List.dropLast_cons_cons, List.cons_append, ih h]

/-- the GUID text form: `{8-4-4-4-12}` in hex digits, none of them a lower-case letter -/
def GuidText (s : List Char) : Prop :=
  ∃ a b c d e : List Char, s = '{' :: (List.intercalate ['-'] [a, b, c, d, e] ++ ['}']) ∧
    a.length = 8 ∧ b.length = 4 ∧ c.length = 4 ∧ d.length = 4 ∧ e.length = 12 ∧
    ∀ ch ∈ a ++ b ++ c ++ d ++ e, isHex ch = true ∧ isLower ch = false

theorem inter5 (a b c d e : List Char) :
    List.intercalate ['-'] [a, b, c, d, e] = a ++ '-' :: (b ++ '-' :: (c ++ '-' :: (d ++ '-' :: e))) := by
  simp [List.intercalate]

/-- **GUID**: `validate` accepts exactly the braced, hyphenated, upper-case hex form -/
theorem guid_iff (s : List Char) : validate .guid s = true ↔ GuidText s := by
  constructor
  · intro h
    simp only [validate, Bool.and_eq_true, beq_iff_eq, Bool.not_eq_true'] at h
    obtain ⟨⟨⟨⟨-, hhead⟩, hlast⟩, hlow⟩, huuid⟩ := h
    cases s with
    | nil => cases hhead
    | cons c0 t =>
      simp only [List.head?_cons, Option.some.injEq] at hhead
      subst hhead
      simp only [List.tail_cons] at huuid
      have htne : t ≠ [] := by
        intro e; subst e; simp at hlast
      have hlast' : t.getLast? = some '}' := by
        rw [List.getLast?_cons_of_ne_nil htne] at hlast
        exact hlast
      have ht : t = t.dropLast ++ ['}'] := by
        exact (dropLast_append_last t '}' hlast').symm
      unfold uuidHyphenated at huuid
      have hjoin := intercalate_splitOn '-' t.dropLast
      cases hsp : splitOn '-' t.dropLast with
      | nil => rw [hsp] at huuid; cases huuid
      | cons a r1 =>
        cases r1 with
        | nil => rw [hsp] at huuid; cases huuid
        | cons b r2 =>
        cases r2 with
        | nil => rw [hsp] at huuid; cases huuid
        | cons c r3 =>
        cases r3 with
        | nil => rw [hsp] at huuid; cases huuid
        | cons d r4 =>
        cases r4 with
        | nil => rw [hsp] at huuid; cases huuid
        | cons e r5 =>
        cases r5 with
        | cons x r6 => rw [hsp] at huuid; cases huuid
        | nil =>
          rw [hsp] at huuid hjoin
          simp only [Bool.and_eq_true, beq_iff_eq, List.all_eq_true] at huuid
          obtain ⟨⟨⟨⟨⟨ha, hb⟩, hc⟩, hd⟩, he⟩, hhex⟩ := huuid
          refine ⟨a, b, c, d, e, ?_, ha, hb, hc, hd, he, ?_⟩
          · rw [hjoin]; rw [← ht]
          · intro ch hch
            refine ⟨hhex ch hch, ?_⟩
            have hmem : ch ∈ '{' :: t := by
              rw [ht, ← hjoin, inter5]
              simp only [List.mem_append, List.mem_cons] at hch ⊢
              rcases hch with (((h1 | h1) | h1) | h1) | h1 <;> simp [h1]
            have := List.any_eq_false.mp hlow ch hmem
            simpa using this
  · rintro ⟨a, b, c, d, e, rfl, ha, hb, hc, hd, he, hall⟩
    have hhex : ∀ ch ∈ a ++ b ++ c ++ d ++ e, isHex ch = true := fun ch h => (hall ch h).1
    have hnosep : ∀ p ∈ [a, b, c, d, e], '-' ∉ p := by
      intro p hp hm
      have : '-' ∈ a ++ b ++ c ++ d ++ e := by
        simp only [List.mem_cons, List.mem_nil_iff, or_false] at hp
        simp only [List.mem_append]
        rcases hp with rfl | rfl | rfl | rfl | rfl <;> simp [hm]
      have := hhex '-' this
      revert this; decide
    have hsplit := splitOn_intercalate '-' [a, b, c, d, e] (by simp) hnosep
    simp only [validate, Bool.and_eq_true, beq_iff_eq, Bool.not_eq_true']
    refine ⟨⟨⟨⟨?_, rfl⟩, ?_⟩, ?_⟩, ?_⟩
    · rw [inter5, utf8Len_cons, utf8Len_append, utf8Len_append, utf8Len_cons, utf8Len_append, utf8Len_cons,
        utf8Len_append, utf8Len_cons, utf8Len_append, utf8Len_cons]
      rw [utf8Len_hex a (fun x hx => hhex x (by simp [hx])), utf8Len_hex b (fun x hx => hhex x (by simp [hx])),
        utf8Len_hex c (fun x hx => hhex x (by simp [hx])), utf8Len_hex d (fun x hx => hhex x (by simp [hx])),
        utf8Len_hex e (fun x hx => hhex x (by simp [hx])), ha, hb, hc, hd, he]
      rfl
    · rw [List.getLast?_cons_of_ne_nil (by simp), List.getLast?_concat]
    · rw [List.any_eq_false]
      intro ch hch
      rw [inter5] at hch
      simp only [List.mem_cons, List.mem_append, List.mem_nil_iff, or_false] at hch
      have key : ∀ x, x ∈ a ++ b ++ c ++ d ++ e → ¬ isLower x = true := fun x hx => by simp [(hall x hx).2]
      rcases hch with rfl | ((h1 | rfl | h1 | rfl | h1 | rfl | h1 | rfl | h1) | rfl)
      all_goals first | decide | exact key _ (by simp [h1])
    · simp only [List.tail_cons, List.dropLast_concat]
      unfold uuidHyphenated
      rw [hsplit]
      simp only [ha, hb, hc, hd, he, beq_self_eq_true, Bool.true_and, List.all_eq_true]
      exact hhex

example : GuidText "{34AB5C53-9B30-4E14-AEF0-2C1C7BA826C0}".toList :=
  ⟨"34AB5C53".toList, "9B30".toList, "4E14".toList, "AEF0".toList, "2C1C7BA826C0".toList, by decide, rfl, rfl, rfl, rfl, rfl,
    by decide⟩


end MsiProofs.C07
