import MsiModel.Summary
import MsiProofs.Lemmas.PropSetCodec
import MsiProofs.Lemmas.AsciiSavable
/-
C10 — summary information survives saving, in every code page.
Here: the property-set writer is well-formed for every property set and every code page
codec: each value occupies exactly the number of bytes the offset table assumes, a
multiple of four, so every offset points at its typed, 4-byte-aligned value and the
section size is exact; the setters are last-write-wins and the cached code page follows
property 1; and the READER ROUND TRIP: every well-formed property set is written and read back
as itself (`propset_roundtrip`), the string codec being a parameter that must round-trip the
strings (the contract of `encoding_rs` that C14 decides).
-/
namespace MsiProofs.C10
open MsiModel MsiModel.Bytes

theorem u16le_length (n : Nat) : (u16le n).length = 2 := rfl
theorem u32le_length (n : Nat) : (u32le n).length = 4 := rfl
theorem u64le_length (n : Nat) : (u64le n).length = 8 := rfl

/-- **each value is written in exactly `size` bytes, a multiple of four** — with the
*encoded* length of strings (the defect this replaced measured the UTF-8 length) -/
theorem value_size_exact (cp : Nat) (v : PropVal) (bs : Bytes) (h : v.write cp = .ok bs) :
    v.size cp = .ok bs.length ∧ bs.length % 4 = 0 := by
  cases v with
  | empty => cases h; exact ⟨rfl, rfl⟩
  | null => cases h; exact ⟨rfl, rfl⟩
  | i1 n => cases h; exact ⟨rfl, by simp [u32le_length, u16le_length]⟩
  | i2 n => cases h; exact ⟨rfl, by simp [u32le_length, u16le_length]⟩
  | i4 n => cases h; exact ⟨rfl, by simp [u32le_length]⟩
  | fileTime t => cases h; exact ⟨rfl, by simp [u32le_length, u64le_length]⟩
  | lpstr s =>
    simp only [PropVal.write] at h
    cases he : Codec.encode cp s with
    | none => simp [he] at h
    | some enc =>
      simp only [he] at h
      cases h
      simp only [PropVal.size, he, List.length_append, u32le_length, List.length_cons, List.length_nil,
        List.length_replicate]
      constructor
      · congr 1; omega
      · omega

/-- the type tag at the start of every written value is the one the reader dispatches on -/
theorem value_tag (cp : Nat) (v : PropVal) (bs : Bytes) (h : v.write cp = .ok bs) :
    ∃ rest, bs = u32le (match v with
      | .empty => 0 | .null => 1 | .i2 _ => 2 | .i4 _ => 3 | .i1 _ => 16 | .lpstr _ => 30 | .fileTime _ => 64) ++ rest := by
  cases v with
  | lpstr s =>
    simp only [PropVal.write] at h
    cases he : Codec.encode cp s with
    | none => simp [he] at h
    | some enc => simp only [he] at h; cases h; exact ⟨_, by simp only [List.append_assoc]; rfl⟩
  | _ => cases h; exact ⟨_, rfl⟩

/-- setters: the last value set for a property is the one read; other properties are untouched -/
theorem insertSorted_get (id : Nat) (v : PropVal) (ps : List (Nat × PropVal)) (k : Nat) :
    ((PropSet.insertSorted id v ps).find? (·.1 == k)).map (·.2) =
      if k = id then some v else (ps.find? (·.1 == k)).map (·.2) := by
  induction ps with
  | nil =>
    simp only [PropSet.insertSorted, List.find?_cons, List.find?_nil]
    by_cases h : k = id
    · simp [h]
    · have : (id == k) = false := by simp; omega
      simp [h, this]
  | cons p rest ih =>
    obtain ⟨k', w⟩ := p
    simp only [PropSet.insertSorted]
    split
    · rename_i hlt
      simp only [List.find?_cons]
      by_cases h : k = id
      · simp [h]
      · have : (id == k) = false := by simp; omega
        simp [h, this]
    · split
      · rename_i _ heq
        subst heq
        simp only [List.find?_cons]
        by_cases h : k = id
        · simp [h]
        · have : (id == k) = false := by simp; omega
          simp [h, this]
      · rename_i hnlt hne
        simp only [List.find?_cons]
        by_cases hk : (k' == k) = true
        · have hk' : k' = k := by simpa using hk
          have : k ≠ id := by omega
          simp [hk, this]
        · simp only [hk] at ih ⊢
          exact ih

theorem set_get (p : PropSet) (id : Nat) (v : PropVal) (k : Nat) :
    (p.set id v).get k = if k = id then some v else p.get k := by
  simp only [PropSet.set, PropSet.get]
  exact insertSorted_get id v p.props k

theorem remove_get (p : PropSet) (id k : Nat) :
    (p.remove id).get k = if k = id then none else p.get k := by
  simp only [PropSet.remove, PropSet.get]
  by_cases h : k = id
  · subst h
    simp only [if_true, Option.map_eq_none_iff, List.find?_eq_none]
    intro x hx
    simp only [List.mem_filter] at hx
    simpa using hx.2
  · simp only [h, if_false]
    congr 1
    induction p.props with
    | nil => rfl
    | cons e rest ih =>
      simp only [List.filter_cons]
      by_cases he : e.1 = id
      · have hik : (id == k) = false := by simp; omega
        simp [he, List.find?_cons, hik, ih]
      · have : (e.1 != id) = true := by simp [he]
        simp only [this, if_true, List.find?_cons]
        split <;> simp_all

/-- every ordered pair of supported code pages: set the first, then the second -/
def cpFollowsAll : Bool :=
  (List.range Gen.cpVariants.length).all fun cp0 => (List.range Gen.cpVariants.length).all fun cp =>
    match ((PropSet.new 2 10 []).setCodepage Profile.dev cp0).bind (fun p => p.setCodepage Profile.dev cp) with
    | .ok p => p.codepage == cp
    | _ => false

/-- **the code page in use is the one last set**: setting property 1 through
`set_codepage` updates the cached page for every ordered pair of supported pages (no
debug-assertion panic), including back to UTF-8, whose identifier does not fit a signed
16-bit number (table fact, re-decided on the regenerated ids) -/
theorem codepage_follows_set : cpFollowsAll = true := by decide +kernel

example : (PropVal.lpstr "éé".toList).write PropSet.utf8 =
    .ok ([30, 0, 0, 0, 5, 0, 0, 0, 0xC3, 0xA9, 0xC3, 0xA9, 0, 0, 0, 0]) := by decide


/-! ### reader round trip -/
open MsiProofs.PropSetCodec

/-- **read (write p) = p** for every well-formed property set: header fields, code page, every
property and value; strings under any code page whose codec round-trips them -/
def propset_roundtrip := @MsiProofs.PropSetCodec.propset_roundtrip
/-- one value: read (write v) = v whatever follows it -/
def val_roundtrip := @MsiProofs.PropSetCodec.val_roundtrip

/-- non-vacuity: a property set with a code page entry (UTF-8: identifier 65001 stored as the
16-bit number -535), a string, a timestamp and a 32-bit integer is well-formed -/
def demo : PropSet :=
  { os := 2, osVersion := 10, clsid := List.replicate 16 0, fmtid := List.replicate 16 7,
    codepage := PropSet.utf8,
    props := [(1, .i2 (-535)), (2, .lpstr "Title".toList), (12, .fileTime 132223104000000000), (14, .i4 200)] }

theorem written_inv_cons {cp k v rest vbs} (h : Written cp ((k, v) :: rest) vbs) :
    ∃ b bs, vbs = b :: bs ∧ v.write cp = .ok b ∧ Written cp rest bs := by
  cases h with
  | cons hb hr => exact ⟨_, _, rfl, hb, hr⟩
theorem written_inv_nil {cp vbs} (h : Written cp [] vbs) : vbs = [] := by cases h; rfl

theorem demo_wf : WF demo where
  os := by decide
  osVersion := by decide
  clsid := by decide
  fmtid := by decide
  asc := by decide
  ids := by decide
  vals := by
    intro kv hkv
    simp only [demo, List.mem_cons, List.mem_nil_iff, or_false] at hkv
    rcases hkv with rfl | rfl | rfl | rfl
    · exact ⟨by decide, by decide⟩
    · exact ⟨_, rfl, by decide, by decide⟩
    · show (132223104000000000 : Nat) < 18446744073709551616; decide
    · exact ⟨by decide, by decide⟩
  cp := by
    show CodePage.fromId _ = some _
    decide
  size := by
    intro vbs h
    obtain ⟨b1, r1, rfl, h1, h⟩ := written_inv_cons h
    obtain ⟨b2, r2, rfl, h2, h⟩ := written_inv_cons h
    obtain ⟨b3, r3, rfl, h3, h⟩ := written_inv_cons h
    obtain ⟨b4, r4, rfl, h4, h⟩ := written_inv_cons h
    have := written_inv_nil h
    subst this
    cases h1; cases h3; cases h4
    have : b2.length = 16 := by
      have : (PropVal.lpstr "Title".toList).write PropSet.utf8 = .ok b2 := h2
      have h5 : (PropVal.lpstr "Title".toList).write PropSet.utf8 = .ok (u32le 30 ++ u32le 6 ++ [84, 105, 116, 108, 101] ++ [0] ++ [0,0]) := by decide
      rw [h5] at this
      cases this
      decide
    simp only [total, this, demo]
    decide

example : ∃ bytes, demo.write = .ok bytes ∧ PropSet.read bytes = .ok demo := propset_roundtrip demo demo_wf


/-- the codec hypothesis of the round trip is a theorem for ASCII strings under every code page -/
def valOk_ascii := @MsiProofs.AsciiSavable.valOk_ascii

end MsiProofs.C10
