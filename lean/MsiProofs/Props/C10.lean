import MsiModel.Summary
/-
C10 — summary information survives saving, in every code page.
Here: the property-set writer is well-formed for every property set and every code page
codec: each value occupies exactly the number of bytes the offset table assumes, a
multiple of four, so every offset points at its typed, 4-byte-aligned value and the
section size is exact; the setters are last-write-wins and the cached code page follows
property 1.  (Reader round trip and the parser-level statement: tied by correspondence.)
-/
namespace MsiProofs.C10
open MsiModel MsiModel.Bytes

theorem u16le_length (n : Nat) : (u16le n).length = 2 := rfl
theorem u32le_length (n : Nat) : (u32le n).length = 4 := rfl
theorem u64le_length (n : Nat) : (u64le n).length = 8 := rfl

/-- **each value is written in exactly `size` bytes, a multiple of four** — with the
*encoded* length of strings (the defect this replaced measured the UTF-8 length) -/
theorem value_size_exact (cp : Nat) (v : PropVal) (bs : Bytes) (h : v.write cp = .ok bs) :
    v.size cp = .ok bs.length ∧ bs.length % 4 = 0 := by
  cases v with
  | empty => cases h; exact ⟨rfl, rfl⟩
  | null => cases h; exact ⟨rfl, rfl⟩
  | i1 n => cases h; exact ⟨rfl, by simp [u32le_length, u16le_length]⟩
  | i2 n => cases h; exact ⟨rfl, by simp [u32le_length, u16le_length]⟩
  | i4 n => cases h; exact ⟨rfl, by simp [u32le_length]⟩
  | fileTime t => cases h; exact ⟨rfl, by simp [u32le_length, u64le_length]⟩
  | lpstr s =>
    simp only [PropVal.write] at h
    cases he : Codec.encode cp s with
    | none => simp [he] at h
    | some enc =>
      simp only [he] at h
      cases h
      simp only [PropVal.size, he, List.length_append, u32le_length, List.length_cons, List.length_nil,
        List.length_replicate]
      constructor
      · congr 1; omega
      · omega

/-- the type tag at the start of every written value is the one the reader dispatches on -/
theorem value_tag (cp : Nat) (v : PropVal) (bs : Bytes) (h : v.write cp = .ok bs) :
    ∃ rest, bs = u32le (match v with
      | .empty => 0 | .null => 1 | .i2 _ => 2 | .i4 _ => 3 | .i1 _ => 16 | .lpstr _ => 30 | .fileTime _ => 64) ++ rest := by
  cases v with
  | lpstr s =>
    simp only [PropVal.write] at h
    cases he : Codec.encode cp s with
    | none => simp [he] at h
    | some enc => simp only [he] at h; cases h; exact ⟨_, by simp only [List.append_assoc]; rfl⟩
  | _ => cases h; exact ⟨_, rfl⟩

/-- setters: the last value set for a property is the one read; other properties are untouched -/
theorem insertSorted_get (id : Nat) (v : PropVal) (ps : List (Nat × PropVal)) (k : Nat) :
    ((PropSet.insertSorted id v ps).find? (·.1 == k)).map (·.2) =
      if k = id then some v else (ps.find? (·.1 == k)).map (·.2) := by
  induction ps with
  | nil =>
    simp only [PropSet.insertSorted, List.find?_cons, List.find?_nil]
    by_cases h : k = id
    · simp [h]
    · have : (id == k) = false := by simp; omega
      simp [h, this]
  | cons p rest ih =>
    obtain ⟨k', w⟩ := p
    simp only [PropSet.insertSorted]
    split
    · rename_i hlt
      simp only [List.find?_cons]
      by_cases h : k = id
      · simp [h]
      · have : (id == k) = false := by simp; omega
        simp [h, this]
    · split
      · rename_i _ heq
        subst heq
        simp only [List.find?_cons]
        by_cases h : k = id
        · simp [h]
        · have : (id == k) = false := by simp; omega
          simp [h, this]
      · rename_i hnlt hne
        simp only [List.find?_cons]
        by_cases hk : (k' == k) = true
        · have hk' : k' = k := by simpa using hk
          have : k ≠ id := by omega
          simp [hk, this]
        · simp only [hk] at ih ⊢
          exact ih

theorem set_get (p : PropSet) (id : Nat) (v : PropVal) (k : Nat) :
    (p.set id v).get k = if k = id then some v else p.get k := by
  simp only [PropSet.set, PropSet.get]
  exact insertSorted_get id v p.props k

theorem remove_get (p : PropSet) (id k : Nat) :
    (p.remove id).get k = if k = id then none else p.get k := by
  simp only [PropSet.remove, PropSet.get]
  by_cases h : k = id
  · subst h
    simp only [if_true, Option.map_eq_none_iff, List.find?_eq_none]
    intro x hx
    simp only [List.mem_filter] at hx
    simpa using hx.2
  · simp only [h, if_false]
    congr 1
    induction p.props with
    | nil => rfl
    | cons e rest ih =>
      simp only [List.filter_cons]
      by_cases he : e.1 = id
      · have hik : (id == k) = false := by simp; omega
        simp [he, List.find?_cons, hik, ih]
      · have : (e.1 != id) = true := by simp [he]
        simp only [this, if_true, List.find?_cons]
        split <;> simp_all

/-- every ordered pair of supported code pages: set the first, then the second -/
def cpFollowsAll : Bool :=
  (List.range Gen.cpVariants.length).all fun cp0 => (List.range Gen.cpVariants.length).all fun cp =>
    match ((PropSet.new 2 10 []).setCodepage Profile.dev cp0).bind (fun p => p.setCodepage Profile.dev cp) with
    | .ok p => p.codepage == cp
    | _ => false

/-- **the code page in use is the one last set**: setting property 1 through
`set_codepage` updates the cached page for every ordered pair of supported pages (no
debug-assertion panic), including back to UTF-8, whose identifier does not fit a signed
16-bit number (table fact, re-decided on the regenerated ids) -/
theorem codepage_follows_set : cpFollowsAll = true := by decide +kernel

example : (PropVal.lpstr "éé".toList).write PropSet.utf8 =
    .ok ([30, 0, 0, 0, 5, 0, 0, 0, 0xC3, 0xA9, 0xC3, 0xA9, 0, 0, 0, 0]) := by decide

end MsiProofs.C10
