import MsiProofs.Props.C03b
import MsiProofs.Lemmas.RelationalLife
import MsiProofs.Lemmas.SelectView
import MsiProofs.Lemmas.DropTotal
/-
C03, refinement to the relational model — the *view* of a package (every table definition with
its rows as values) changes under each statement exactly as the plain relational model says, and
under every other call of the API not at all (except that `create_table` adds an empty table and
`drop_table` removes one).  Stated for single statements in any state with the package invariant,
for every step of every history of statements, and for every state reachable from
`Package::create` through the whole mutating API.
-/
namespace MsiProofs.C03

/-- strictly ascending lists of rows that are permutations of each other are equal: "ascending +
the same rows" determines the result, so the relational result of a statement is unique -/
def ascending_perm_unique := @MsiProofs.Relational.ascending_perm_unique
/-- the model's result is a function of the old rows and the statement -/
def specResult_unique := @MsiProofs.Relational.specResult_unique
/-- **insert**: the table shows a permutation of the old rows plus the given rows ("" as null), in
strictly ascending key order; the table list and every other table are untouched -/
def insert_view := @MsiProofs.Relational.insert_view
/-- **delete**: exactly the rows on which the condition (on the row's values) is false remain, in
order; the table list and every other table are untouched -/
def delete_view := @MsiProofs.Relational.delete_view
/-- **update**: a permutation of the old rows with the assignments applied to exactly the rows on
which the condition is true, in strictly ascending key order; everything else untouched -/
def update_view := @MsiProofs.Relational.update_view
/-- **every statement, accepted or refused, refines the relational model** -/
def op_refines := @MsiProofs.Relational.op_refines
/-- **every step of every history of statements refines the relational model** -/
def history_refines := @MsiProofs.Relational.history_refines
/-- **create_table**: the list gains the new definition, showing no rows; user tables untouched -/
def createTable_view := @MsiProofs.RelationalApi.createTable_view
/-- **drop_table**: the list loses the definition; the other user tables untouched -/
def dropTable_view := @MsiProofs.RelationalApi.dropTable_view
/-- **every other call** (streams, signature, summary, code page, save, close and reopen) leaves
the whole view untouched -/
def step_view_same := @MsiProofs.RelationalLife.step_view_same
/-- **in every state reachable from `Package::create`** through the whole mutating API, every
statement refines the relational model -/
def created_dml_refines := @MsiProofs.RelationalLife.created_dml_refines

/-- **select on a table, read off the relational view**: as values, exactly the rows the table
shows on which the condition is true, in the order shown, restricted to the requested columns in
the requested order; as many rows as satisfy the condition -/
def select_table_view := @MsiProofs.SelectView.select_table_view
/-- the rows a select returns are in ascending primary-key order -/
def select_order := @MsiProofs.SelectView.select_order

/-- **the reply of `Delete::exec`**: refused exactly for an unknown table or a condition naming an
unknown column; otherwise it succeeds (and then `delete_view` says what it did) -/
def delete_reply := @MsiProofs.DropTotal.delete_reply

end MsiProofs.C03
