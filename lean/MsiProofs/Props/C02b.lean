import MsiProofs.Props.C02
import MsiProofs.Lemmas.PropSetLayout
import MsiProofs.Lemmas.CatalogOpen
/-
C02, the property-set reader on foreign layouts.  Other writers of the format order the offset
table as they like, put the values where they like and leave gaps; the reader must not care.
`read_layout` characterises `PropertySet::read` on ANY byte string that carries the header at its
start and the section head at the section offset; `read_layout_independent`: two such streams
with the same header fields, the same table entries in any order and the same bytes at the listed
offsets read as the same property set; `sortEnts_perm`: the order of the table is immaterial.
-/
namespace MsiProofs.C02
open MsiModel MsiModel.Bytes MsiProofs.PropSetLayout

def read_layout := @MsiProofs.PropSetLayout.read_layout
def read_layout_independent := @MsiProofs.PropSetLayout.read_layout_independent
def sortEnts_perm := @MsiProofs.PropSetLayout.sortEnts_perm
def sortEnts_spec := @MsiProofs.PropSetLayout.sortEnts_spec
def readOffsets_any := @MsiProofs.PropSetLayout.readOffsets_any

/-- **the catalog pass on rows in any order**: if the three catalog streams hold -- in ANY row
order -- the `_Tables`, `_Columns` and `_Validation` rows of the tables `tabs`, the catalog pass of
`open` returns exactly `tabs` (plus the two built-in catalog tables) -/
def openTables_of_catalog := @MsiProofs.CatalogOpen.openTables_of_catalog

/-- a layout the library never writes: a gap after the header, the table in descending id order,
the values in another order than the table, a gap between them -/
def demoLayout : Layout :=
  ⟨0, 10, 2, List.replicate 16 0, 1, Gen.summaryFmtid, 52, 0, [(2, 36), (1, 24)]⟩

def demoData : Bytes :=
  demoLayout.header ++ [0xAA, 0xBB, 0xCC, 0xDD] ++ demoLayout.sectionHead ++
    (u32le 2 ++ u16le 1252 ++ u16le 0) ++ [0xEE, 0xEE, 0xEE, 0xEE] ++ (u32le 30 ++ u32le 2 ++ [84, 0, 0, 0])

def demoTail : Bytes :=
  (u32le 2 ++ u16le 1252 ++ u16le 0) ++ [0xEE, 0xEE, 0xEE, 0xEE] ++ (u32le 30 ++ u32le 2 ++ [84, 0, 0, 0])

/-- the hypotheses of `read_layout` are satisfiable by such a stream -/
theorem demo_fits : Fits demoData demoLayout := by
  refine ⟨⟨[0xAA, 0xBB, 0xCC, 0xDD] ++ demoLayout.sectionHead ++ demoTail, by decide +kernel⟩,
    ⟨by decide +kernel, ⟨demoTail, by decide +kernel⟩⟩, by decide, by decide,
    by decide, by decide, by decide, by decide +kernel, by decide, by decide, by decide, by decide, by decide⟩

/-- and it reads as the two properties in id order, the text decoded under the code page that
property 1 names (kernel-evaluated) -/
theorem demo_reads : (match PropSet.read demoData with
    | .ok p => decide (p.props = [(1, .i2 1252), (2, .lpstr ['T'])] ∧ p.os = 2 ∧ p.osVersion = 10)
    | _ => false) = true := by decide +kernel

end MsiProofs.C02
