import MsiProofs.Props.C09b
import MsiProofs.Lemmas.NoPanicMore
/-
C09, mutating operations followed by a flush — on ANY package state (a foreign or damaged file may
have produced it): `drop_table` never panics; `create_table` never panics while the string pool
has room for the catalog strings of the new table (`Room`: 14 per column + 1); the finisher and
`flush` never panic when the database code page is a supported one.  (The theorems are in
`Lemmas/NoPanicMore.lean`, namespace `MsiProofs.C09`.)
-/
