import MsiProofs.Props.C08
import MsiProofs.Lemmas.RefineExact
/-
C08, as an invariant of the operations — reference counts stay exact.  `AccountedWith slack p cells`:
for every pool entry, (number of cells referring to it) + slack = its reference count.  Insert and
delete keep the SAME slack for the cells the new state reads (and any other cells of interest, e.g.
those of all other tables); with slack 0 the reference counts equal the numbers of references.
-/
namespace MsiProofs.C08
open MsiModel MsiModel.Pkg MsiProofs.RefineExact

/-- `incref` adds one reference to the entry it returns and changes no other count -/
def incref_exact := @MsiProofs.RefineExact.incref_exact
/-- `decref` releases one reference of one entry and nothing else; text is kept while a reference remains -/
def decref_spec := @MsiProofs.RefineDelete.decref_spec
/-- **`Insert::exec` keeps reference counting exact** -/
def insert_accounted := @MsiProofs.RefineExact.insert_accountedW
/-- **`Delete::exec` keeps reference counting exact** -/
def delete_accounted := @MsiProofs.RefineExact.delete_accountedW
/-- slack 0 = "counts equal the number of references" -/
def exact_iff := @MsiProofs.RefineExact.exact_iff

/-- the empty state is exact: no cells, no references -/
example : AccountedWith (fun _ => 0) (Pool.new 0) [] := by
  intro r _
  simp [Pool.new, Pool.refcount]

end MsiProofs.C08
