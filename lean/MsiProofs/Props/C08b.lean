import MsiProofs.Props.C08
import MsiProofs.Lemmas.RefineExact
import MsiProofs.Lemmas.GlobalInv
import MsiProofs.Lemmas.GlobalInvUpd
/-
C08, as an invariant of the operations — reference counts stay exact.  `AccountedWith slack p cells`:
for every pool entry, (number of cells referring to it) + slack = its reference count.  Insert and
delete keep the SAME slack for the cells the new state reads (and any other cells of interest, e.g.
those of all other tables); with slack 0 the reference counts equal the numbers of references.
-/
namespace MsiProofs.C08
open MsiModel MsiModel.Pkg MsiProofs.RefineExact

/-- `incref` adds one reference to the entry it returns and changes no other count -/
def incref_exact := @MsiProofs.RefineExact.incref_exact
/-- `decref` releases one reference of one entry and nothing else; text is kept while a reference remains -/
def decref_spec := @MsiProofs.RefineDelete.decref_spec
/-- **`Insert::exec` keeps reference counting exact** -/
def insert_accounted := @MsiProofs.RefineExact.insert_accountedW
/-- **`Delete::exec` keeps reference counting exact** -/
def delete_accounted := @MsiProofs.RefineExact.delete_accountedW
/-- slack 0 = "counts equal the number of references" -/
def exact_iff := @MsiProofs.RefineExact.exact_iff

/-- the empty state is exact: no cells, no references -/
example : AccountedWith (fun _ => 0) (Pool.new 0) [] := by
  intro r _
  simp [Pool.new, Pool.refcount]


/-! ### whole packages, whole histories -/
/-- the package invariant: every table loads, table streams are pairwise distinct, and the
reference counts equal the references held by the cells of ALL tables plus a fixed slack -/
abbrev Inv := MsiProofs.GlobalInv.Inv
/-- **every history of inserts and deletes, on any tables, accepted or refused, keeps reference
counting exact over the whole package** (induction over the request list, no bound) -/
def history_inv := @MsiProofs.GlobalInv.history_inv
def insert_inv := @MsiProofs.GlobalInv.insert_inv
def delete_inv := @MsiProofs.GlobalInv.delete_inv

/-- **`Update::exec` keeps reference counting exact**; and so does every history of inserts, updates
and deletes -/
def update_inv := @MsiProofs.GlobalInvUpd.update_inv
def dml_history_inv := @MsiProofs.GlobalInvUpd.history_inv

end MsiProofs.C08
