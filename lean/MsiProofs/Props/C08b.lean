import MsiProofs.Props.C08
import MsiProofs.Lemmas.RefineExact
import MsiProofs.Lemmas.GlobalInv
import MsiProofs.Lemmas.GlobalInvUpd
import MsiProofs.Lemmas.SortUpd
import MsiProofs.Lemmas.Lifecycle
import MsiProofs.Lemmas.AsciiLifecycle
/-
C08, as an invariant of the operations — reference counts stay exact.  `AccountedWith slack p cells`:
for every pool entry, (number of cells referring to it) + slack = its reference count.  Insert and
delete keep the SAME slack for the cells the new state reads (and any other cells of interest, e.g.
those of all other tables); with slack 0 the reference counts equal the numbers of references.
-/
namespace MsiProofs.C08
open MsiModel MsiModel.Pkg MsiProofs.RefineExact

/-- `incref` adds one reference to the entry it returns and changes no other count -/
def incref_exact := @MsiProofs.RefineExact.incref_exact
/-- `decref` releases one reference of one entry and nothing else; text is kept while a reference remains -/
def decref_spec := @MsiProofs.RefineDelete.decref_spec
/-- **`Insert::exec` keeps reference counting exact** -/
def insert_accounted := @MsiProofs.RefineExact.insert_accountedW
/-- **`Delete::exec` keeps reference counting exact** -/
def delete_accounted := @MsiProofs.RefineExact.delete_accountedW
/-- slack 0 = "counts equal the number of references" -/
def exact_iff := @MsiProofs.RefineExact.exact_iff

/-- the empty state is exact: no cells, no references -/
example : AccountedWith (fun _ => 0) (Pool.new 0) [] := by
  intro r _
  simp [Pool.new, Pool.refcount]


/-! ### whole packages, whole histories -/
/-- the package invariant: every table loads, table streams are pairwise distinct, and the
reference counts equal the references held by the cells of ALL tables plus a fixed slack -/
abbrev Inv := MsiProofs.GlobalInv.Inv
/-- **every history of inserts and deletes, on any tables, accepted or refused, keeps reference
counting exact over the whole package** (induction over the request list, no bound) -/
def history_inv := @MsiProofs.GlobalInv.history_inv
def insert_inv := @MsiProofs.GlobalInv.insert_inv
def delete_inv := @MsiProofs.GlobalInv.delete_inv

/-- **`Update::exec` keeps reference counting exact**; and so does every history of inserts, updates
and deletes -/
def update_inv := @MsiProofs.GlobalInvUpd.update_inv
def dml_history_inv := @MsiProofs.GlobalInvUpd.history_inv


/-! ### non-vacuity: a state that satisfies the invariant, and requests that succeed on it -/
open MsiProofs.GlobalInv MsiProofs.SortedInv MsiProofs.RowsOk in
section
def tT : Table := ⟨['T'], [{ name := ['K'], coltype := .int16, isPrimaryKey := true },
                          { name := ['S'], coltype := .str 8, isNullable := true }], false⟩
def s0 : Pkg := ⟨0, [], default, false, Pool.new 0, [tT], false⟩

theorem s0_inv : Inv (fun _ => 0) s0 where
  distinct := by simp [s0]
  loads := by intro t ht; simp [s0] at ht; subst ht; exact ⟨[], rfl⟩
  pos := by intro r hr; simp [cellsOfTables, rowsOf, s0, Pkg.loadRows, Cont.find] at hr
  counts := by intro r _; simp [cellsOfTables, rowsOf, s0, Pkg.loadRows, Cont.find, Pool.new, Pool.refcount]
  sized := by simp [PoolSized, s0, Pool.new]
  widths := by intro t ht; simp [s0] at ht; subst ht; exact ⟨rfl, by decide⟩

theorem s0_sorted : SortedAll s0 := by
  intro t ht rows h
  simp [s0] at ht; subst ht
  simp [s0, Pkg.loadRows, Cont.find, pure] at h
  subst h
  simp [KeysAscending]


/-- an insert into this state succeeds, and reads back in key order ("b" interned as entry 1) -/
example : (insertExec s0 ['T'] [[.int 2, .str ['b']], [.int 1, .null]]).2 = .ok () := by decide
example : (insertExec s0 ['T'] [[.int 2, .str ['b']], [.int 1, .null]]).1.loadRows tT =
    .ok [[.int 1, .null], [.int 2, .str 1]] := by decide
/-- so the history theorems apply to it: after ANY requests the invariant and the key order hold -/
example (ops : List MsiProofs.GlobalInvUpd.Op) :
    Inv (fun _ => 0) (ops.foldl MsiProofs.GlobalInvUpd.Op.run s0) ∧
    SortedAll (ops.foldl MsiProofs.GlobalInvUpd.Op.run s0) :=
  MsiProofs.SortUpd.history_sorted _ ops s0 s0_inv s0_sorted
end

/-- **exact accounting in every state reachable from `Package::create`** by statements on user
tables, `create_table`, `drop_table` and saves: each pool entry's reference count equals the number
of cells, over all tables incl. the catalog, that refer to it -/
def created_history_exact := @MsiProofs.Lifecycle.created_history_exact
/-- `create_table` / `drop_table` keep the counts exact (same slack) -/
def createTable_full := @MsiProofs.CreateTable.createTable_full
def dropTable_full := @MsiProofs.DropTable.dropTable_full
/-- releasing a dropped table's strings: the other tables' cells stay accounted with the same slack -/
def release_stage := @MsiProofs.DropTable.release_stage

/-- **the pool stays expressible in the format in every reachable state**: every count below
65,536, an entry empty only when unreferenced (no live empty string), every text satisfying what
the inputs satisfy, a supported code page — for every call of the API (`step_pt`), hence
`PoolOk` for ASCII text (`poolOk_of_pt`): the saved pool reads back as the in-memory pool -/
def step_pt := @MsiProofs.AsciiLifecycle.step_pt
def poolOk_of_pt := @MsiProofs.AsciiLifecycle.poolOk_of_pt
def incref_pt := @MsiProofs.PoolText.incref_pt
def decref_pt := @MsiProofs.PoolText.decref_pt

end MsiProofs.C08
