import MsiModel.PkgApi
/-
C04 — rejected operations change nothing.
In the model a step returns the state it leaves behind *also on error*.  Here: every
rejection that `create_table`, `drop_table`, the stream calls and `Insert::exec` /
`Delete::exec` decide for their arguments returns the state untouched; `create_table`
performs all of its own checks — including that the three catalog tables can hold the new
rows — before the first insert.
-/
namespace MsiProofs.C04
open MsiModel MsiModel.Pkg

/-- **a `create_table` refused by any of its checks leaves the package untouched** -/
theorem createTable_rejected_noop (s : Pkg) (name : List Char) (cols : List Column) (k : ErrKind)
    (h : createError s name cols = some k) : createTable s name cols = (s, .err k) := by
  unfold createTable; rw [h]

/-- the checks cover the late failures of the unrepaired code: names longer than the
`_Validation` columns, ranges holding the reserved integer, unstorable columns -/
theorem createError_covers (s : Pkg) (name : List Char) (cols : List Column)
    (h : createError s name cols = none) :
    Table.isValidName name = true ∧ isPoolName name = false ∧
    cols ≠ [] ∧ cols.length ≤ Gen.maxTableColumns ∧
    (∀ c ∈ cols, isStorable c = true) ∧ s.findTable name = none ∧
    rowsValidFor (Catalog.columnsTable false) (catalogRowsColumns name cols) = true ∧
    rowsValidFor (Catalog.tablesTable false) [[.str name]] = true ∧
    rowsValidFor (Catalog.validationTable false) (catalogRowsValidation name cols) = true := by
  unfold createError at h
  by_cases h1 : (!Table.isValidName name) = true
  · rw [if_pos h1] at h; cases h
  rw [if_neg h1] at h
  by_cases hres : isPoolName name = true
  · rw [if_pos hres] at h; cases h
  rw [if_neg hres] at h
  by_cases h2 : cols.isEmpty = true
  · rw [if_pos h2] at h; cases h
  rw [if_neg h2] at h
  by_cases h3 : cols.length > Gen.maxTableColumns
  · rw [if_pos h3] at h; cases h
  rw [if_neg h3] at h
  by_cases h4 : (!cols.any (·.isPrimaryKey)) = true
  · rw [if_pos h4] at h; cases h
  rw [if_neg h4] at h
  by_cases h5 : cols.any (fun c => !Category.validate .identifier c.name) = true
  · rw [if_pos h5] at h; cases h
  rw [if_neg h5] at h
  by_cases h6 : hasDuplicateNames (cols.map (·.name)) = true
  · rw [if_pos h6] at h; cases h
  rw [if_neg h6] at h
  by_cases h7 : (s.findTable name).isSome = true
  · rw [if_pos h7] at h; cases h
  rw [if_neg h7] at h
  by_cases h8 : cols.any (fun c => !isStorable c) = true
  · rw [if_pos h8] at h; cases h
  rw [if_neg h8] at h
  by_cases h9 : (!rowsValidFor (Catalog.columnsTable false) (catalogRowsColumns name cols)) = true
  · rw [if_pos h9] at h; cases h
  rw [if_neg h9] at h
  by_cases h10 : (!rowsValidFor (Catalog.tablesTable false) [[.str name]]) = true
  · rw [if_pos h10] at h; cases h
  rw [if_neg h10] at h
  by_cases h11 : (!rowsValidFor (Catalog.validationTable false) (catalogRowsValidation name cols)) = true
  · rw [if_pos h11] at h; cases h
  refine ⟨by simpa using h1, by simpa using hres, by simpa [List.isEmpty_iff] using h2, by omega, ?_, by simpa using h7,
    by simpa using h9, by simpa using h10, by simpa using h11⟩
  intro c hc
  simp only [List.any_eq_true, not_exists, not_and, Bool.not_eq_true', Bool.not_eq_false] at h8
  simpa using h8 c hc

/-- `drop_table`: reserved, invalid and unknown names are refused without any change -/
theorem dropTable_rejected_noop (s : Pkg) (name : List Char)
    (h : Catalog.isReserved name = true ∨ Table.isValidName name = false ∨ s.findTable name = none) :
    ∃ k, dropTable s name = (s, .err k) := by
  unfold dropTable
  split
  · exact ⟨_, rfl⟩
  split
  · exact ⟨_, rfl⟩
  · rcases h with h | h | h
    · simp_all
    · simp_all
    · simp [h]

/-- the stream calls check the name (and existence) first -/
theorem stream_rejected_noop (s : Pkg) (n : List Char) (data : Bytes.Bytes)
    (h : StreamName.isValid n false = false) :
    writeStream s n data = (s, .err .invalidInput) ∧ removeStream s n = (s, .err .invalidInput) ∧
    readStream s n = .err .invalidInput := by
  simp [writeStream, removeStream, readStream, h]

theorem removeStream_missing_noop (s : Pkg) (n : List Char)
    (h : Cont.exists_ s.cont (StreamName.encode n false) = false) :
    ∃ k, removeStream s n = (s, .err k) := by
  unfold removeStream
  split
  · exact ⟨_, rfl⟩
  · simp [h]

/-! ### `write_rows` fails only with InvalidInput, so the other kinds come from the checks -/

theorem writeValue_err (long : Bool) (t : ColType) (c : Cell) (k : ErrKind)
    (h : t.writeValue long c = .err k) : k = .invalidInput := by
  cases t <;> cases c <;> simp [ColType.writeValue] at h <;> first | exact h.symm | skip
  rename_i w r
  split at h
  · cases h
  · split at h
    · cases h
    · injection h with h; exact h.symm

theorem writeCol_err (long : Bool) (ty : ColType) (i : Nat) (rows : List (List Cell)) (acc : Bytes.Bytes)
    (k : ErrKind) (h : Table.writeCol long ty i rows acc = .err k) : k = .invalidInput := by
  induction rows generalizing acc with
  | nil => simp [Table.writeCol, pure] at h
  | cons r rest ih =>
    unfold Table.writeCol at h
    split at h
    · cases h
    · rename_i c _
      cases hw : ty.writeValue long c with
      | ok bs => simp only [hw, bind, Res.bind] at h; exact ih _ h
      | err k' =>
        simp only [hw, bind, Res.bind] at h
        injection h with h
        subst h
        exact writeValue_err long ty c _ hw
      | panic w => simp [hw, bind, Res.bind] at h

theorem writeCols_err (long : Bool) (rows : List (List Cell)) (cols : List Column) (i : Nat)
    (acc : Bytes.Bytes) (k : ErrKind) (h : Table.writeCols long rows cols i acc = .err k) :
    k = .invalidInput := by
  induction cols generalizing i acc with
  | nil => simp [Table.writeCols, pure] at h
  | cons c cs ih =>
    unfold Table.writeCols at h
    cases hc : Table.writeCol long c.coltype i rows acc with
    | ok acc' => simp only [hc, bind, Res.bind] at h; exact ih _ _ h
    | err k' =>
      simp only [hc, bind, Res.bind] at h
      injection h with h
      subst h
      exact writeCol_err _ _ _ _ _ _ hc
    | panic w => simp [hc, bind, Res.bind] at h

/-- **`Insert::exec`: a rejection for an unknown table, a duplicate key or malformed stored
data returns exactly the state it was given** (these kinds can only come from the checks
that precede the first change to the string pool or the stream) -/
theorem insert_rejected_noop (s : Pkg) (tname : List Char) (rows : List (List Value)) (k : ErrKind)
    (s' : Pkg) (h : insertExec s tname rows = (s', .err k))
    (hk : k = .notFound ∨ k = .alreadyExists ∨ k = .invalidData) : s' = s := by
  unfold insertExec at h
  split at h
  · exact (Prod.mk.inj h).1.symm
  · split at h
    · exact (Prod.mk.inj h).1.symm
    · split at h
      · exact (Prod.mk.inj h).1.symm
      · simp only at h
        split at h
        · exact (Prod.mk.inj h).1.symm
        · exact (Prod.mk.inj h).1.symm
        · split at h
          · exact (Prod.mk.inj h).1.symm
          · split at h
            · exact (Prod.mk.inj h).1.symm
            · split at h
              · exact (Prod.mk.inj h).1.symm
              · split at h
                · exact (Prod.mk.inj h).1.symm
                · exact (Prod.mk.inj h).1.symm
                · unfold storeRows at h
                  split at h
                  · cases (Prod.mk.inj h).2
                  · rename_i k' hk'
                    have e : k' = k := by injection (Prod.mk.inj h).2
                    subst e
                    have := writeCols_err _ _ _ _ _ _ hk'
                    subst this
                    rcases hk with h1 | h1 | h1 <;> cases h1
                  · cases (Prod.mk.inj h).2

/-- `Delete::exec`: unknown table or column, or unreadable rows: nothing changes -/
theorem delete_rejected_noop (s : Pkg) (tname : List Char) (cond : Option Ast) (k : ErrKind)
    (s' : Pkg) (h : deleteExec s tname cond = (s', .err k))
    (hk : k = .notFound ∨ k = .invalidData) : s' = s := by
  unfold deleteExec at h
  cases hf : s.findTable tname with
  | none => simp only [hf] at h; exact (Prod.mk.inj h).1.symm
  | some t =>
    simp only [hf] at h
    by_cases hm : condMissing t cond = true
    · rw [if_pos hm] at h; exact (Prod.mk.inj h).1.symm
    · rw [if_neg hm] at h
      cases hl : s.loadRows t with
      | err k1 => simp only [hl] at h; exact (Prod.mk.inj h).1.symm
      | panic w => simp only [hl] at h; exact (Prod.mk.inj h).1.symm
      | ok rows =>
        simp only [hl] at h
        cases hg : deleteGo t cond s.pool rows [] with
        | err k1 => simp only [hg] at h; exact (Prod.mk.inj h).1.symm
        | panic w => simp only [hg] at h; exact (Prod.mk.inj h).1.symm
        | ok pk =>
          obtain ⟨pool', kept⟩ := pk
          simp only [hg] at h
          unfold storeRows at h
          split at h
          · cases (Prod.mk.inj h).2
          · rename_i k' hk'
            have e : k' = k := by injection (Prod.mk.inj h).2
            subst e
            have := writeCols_err _ _ _ _ _ _ hk'
            subst this
            rcases hk with h1 | h1 <;> cases h1
          · cases (Prod.mk.inj h).2

/-- a failed `storeRows` fails with InvalidInput (the only error `write_rows` has) -/
theorem storeRows_err (s : Pkg) (t : Table) (rows : List (List Cell)) (s' : Pkg) (k : ErrKind)
    (h : storeRows s t rows = (s', .err k)) : k = .invalidInput := by
  unfold storeRows at h
  split at h
  · cases (Prod.mk.inj h).2
  · rename_i k' hk'
    have e : k' = k := by injection (Prod.mk.inj h).2
    subst e
    exact writeCols_err _ _ _ _ _ _ hk'
  · cases (Prod.mk.inj h).2

theorem upd_tail_noop (s : Pkg) (t : Table) (ups : List (Nat × Value))
    (rows : List (List Cell)) (planned : List (List Value × Bool)) (dup : Bool) (order : List Nat)
    (s' : Pkg) (k : ErrKind) (hk : k ≠ .invalidInput)
    (h : (if dup = true then (s, Res.err ErrKind.alreadyExists) else
      match updApply ups s.pool rows planned [] with
      | .err k => (s, .err k)
      | .panic w => (s, .panic w)
      | .ok (pool', rows') => storeRows { s with pool := pool' } t (order.map fun i => rows'.getD i [])) = (s', .err k)) :
    s' = s := by
  cases dup with
  | true => simp only [if_true] at h; exact (Prod.mk.inj h).1.symm
  | false =>
    simp only [Bool.false_eq_true, if_false] at h
    cases hu : updApply ups s.pool rows planned [] with
    | err k1 => simp only [hu] at h; exact (Prod.mk.inj h).1.symm
    | panic w => simp only [hu] at h; exact (Prod.mk.inj h).1.symm
    | ok x =>
      obtain ⟨pool', rows'⟩ := x
      simp only [hu] at h
      exact absurd (storeRows_err _ _ _ _ _ h) hk

/-- **`Update::exec`: a rejection other than InvalidInput — unknown table, a key collision, a
malformed stored table — returns exactly the state it was given**; the InvalidInput rejections of
the checks (unknown column, invalid value, condition naming an unknown column) are covered by
`update_invalid_noop` -/
theorem update_rejected_noop (s : Pkg) (tname : List Char) (ups : List (List Char × Value)) (cond : Option Ast)
    (k : ErrKind) (s' : Pkg) (h : updateExec s tname ups cond = (s', .err k)) (hk : k ≠ .invalidInput) :
    s' = s := by
  unfold updateExec at h
  cases hf : s.findTable tname with
  | none => simp only [hf] at h; exact (Prod.mk.inj h).1.symm
  | some t =>
    simp only [hf] at h
    cases hv : validateUpdates t ups with
    | some k1 => simp only [hv] at h; exact (Prod.mk.inj h).1.symm
    | none =>
      simp only [hv] at h
      by_cases hm : condMissing t cond = true
      · rw [if_pos hm] at h; exact (Prod.mk.inj h).1.symm
      · rw [if_neg hm] at h
        cases hl : s.loadRows t with
        | err k1 => simp only [hl] at h; exact (Prod.mk.inj h).1.symm
        | panic w => simp only [hl] at h; exact (Prod.mk.inj h).1.symm
        | ok rows =>
          simp only [hl] at h
          cases hp : updPlan t s.pool cond
              (List.filterMap (fun x => Option.map (fun i => (i, storable x.snd)) (t.indexOfColumn x.fst)) ups) rows [] with
          | err k1 => simp only [hp] at h; exact (Prod.mk.inj h).1.symm
          | panic w => simp only [hp] at h; exact (Prod.mk.inj h).1.symm
          | ok planned =>
            simp only [hp] at h
            exact upd_tail_noop s t _ _ _ _ _ s' k hk h

/-- the checks of `Update::exec` (assignments, then the condition) reject before anything changes -/
theorem update_invalid_noop (s : Pkg) (tname : List Char) (ups : List (List Char × Value)) (cond : Option Ast)
    (t : Table) (ht : s.findTable tname = some t)
    (h : validateUpdates t ups ≠ none ∨ condMissing t cond = true) :
    ∃ k, updateExec s tname ups cond = (s, .err k) := by
  unfold updateExec
  simp only [ht]
  cases hv : validateUpdates t ups with
  | some k1 => exact ⟨k1, rfl⟩
  | none =>
    simp only
    rcases h with h | h
    · exact absurd hv h
    · exact ⟨.invalidInput, by rw [if_pos h]⟩

/-- non-vacuity: a 40-character table name is caught by the checks (it fits the container
but not the `_Validation.Table` column) -/
example : createError (default : Pkg) (List.replicate 40 'T')
    [{ name := ['K'], coltype := .int16, isPrimaryKey := true }] = some .invalidInput := by decide

end MsiProofs.C04
