import MsiModel.Effects
/-
C15 — a successful flush means the data reached the medium, even when writes fail.
On the effect model (scripts of container actions under the `cfb` contract K1–K5, for every
fault assignment and every number of medium writes per action): a call whose script
flushes every stream before dropping it cannot return Ok after a failed medium write; the
four stream-writing functions of the library do flush (extracted from the source on every
run), so every DML call, the finisher and `flush` have that property.
What the model cannot exhibit: the order and number of cfb's own sector / FAT / directory
writes and partial writes (partial: tied by the fault sweep on the real code, every index k
of the medium's write/read/seek calls, transient and persistent).
-/
namespace MsiProofs.C15
open MsiModel MsiModel.Effects

theorem step_ok_mono (r : Run) (a : Act) (f : Bool) (h : r.ok = false) : (step r a f).ok = false := by
  cases a <;> simp [step, h] <;> (try split) <;> simp [h]

/-- once a call is returning an error it stays an error -/
theorem run_ok_mono (fails : Nat → Bool) (s : List Act) (i : Nat) (r : Run) (h : r.ok = false) :
    (run fails s i r).ok = false := by
  induction s generalizing i r with
  | nil => exact h
  | cons a rest ih => exact ih _ _ (step_ok_mono r a _ h)

/-- one well-flushed step that leaves the call Ok: no medium write failed during it, and
the flushed-flag evolves as `wellFlushed` assumes -/
theorem step_ok (r : Run) (a : Act) (f : Bool) (rest : List Act)
    (hw : wellFlushed (a :: rest) r.flushed = true) (hok : (step r a f).ok = true) :
    (step r a f).failed = r.failed ∧ r.ok = true ∧ wellFlushed rest (step r a f).flushed = true := by
  have hrok : r.ok = true := by
    cases h : r.ok
    · rw [step_ok_mono r a f h] at hok; cases hok
    · rfl
  cases a with
  | dropStream =>
    simp only [wellFlushed, Bool.and_eq_true] at hw
    simp [step, hw.1, hrok, hw.2]
  | read => simp only [wellFlushed] at hw; simp [step, hrok, hw]
  | createStream =>
    simp only [wellFlushed] at hw
    cases f <;> simp [step, hrok] at hok ⊢
    exact hw
  | write =>
    simp only [wellFlushed] at hw
    cases f <;> simp [step, hrok] at hok ⊢
    exact hw
  | flushStream =>
    simp only [wellFlushed] at hw
    cases f <;> simp [step, hrok] at hok ⊢
    exact hw
  | removeStream =>
    simp only [wellFlushed] at hw
    cases f <;> simp [step, hrok] at hok ⊢
    exact hw
  | flushFile =>
    simp only [wellFlushed] at hw
    cases f <;> simp [step, hrok] at hok ⊢
    exact hw

/-- **no swallowed error**: for a well-flushed script, every fault assignment and every
starting index: if the call returns Ok then no medium write failed during it -/
theorem no_swallow (fails : Nat → Bool) (s : List Act) (i : Nat) (r : Run)
    (hw : wellFlushed s r.flushed = true) (hok : (run fails s i r).ok = true) :
    (run fails s i r).failed = r.failed ∧ r.ok = true := by
  induction s generalizing i r with
  | nil => exact ⟨rfl, hok⟩
  | cons a rest ih =>
    simp only [run] at hok ⊢
    have hs : (step r a (fails i)).ok = true := by
      cases h : (step r a (fails i)).ok
      · rw [run_ok_mono fails rest (i + 1) _ h] at hok; cases hok
      · rfl
    obtain ⟨h1, h2, h3⟩ := step_ok r a (fails i) rest hw hs
    have := ih (i + 1) (step r a (fails i)) h3 hok
    exact ⟨this.1.trans h1, h2⟩

/-- the four stream writers flush explicitly (extracted from the current source) and
`flush` / `into_inner` propagate the finisher's result and flush the file -/
theorem writers_flush :
    Gen.flushDiscipline.all (·.2) = true ∧ Gen.flushPropagatesFinisher = true ∧
    Gen.flushFlushesFile = true ∧ Gen.intoInnerPropagatesFinisher = true := by decide

theorem writer_wellFlushed (name : String) (n : Nat) (h : flushes name = true) (fl : Bool) :
    wellFlushed (writer name n) fl = true := by
  unfold writer
  simp only [h, if_true, List.singleton_append, List.cons_append, List.nil_append, wellFlushed]
  induction n with
  | zero => simp [wellFlushed]
  | succ k ih => simpa [List.replicate_succ, wellFlushed] using ih

theorem wellFlushed_append (a b : List Act) (fl : Bool) (ha : wellFlushed a fl = true)
    (hb : ∀ fl', wellFlushed b fl' = true) : wellFlushed (a ++ b) fl = true := by
  induction a generalizing fl with
  | nil => exact hb fl
  | cons x rest ih =>
    cases x <;> simp only [List.cons_append, wellFlushed, Bool.and_eq_true] at ha ⊢
    · exact ih _ ha
    · exact ih _ ha
    · exact ih _ ha
    · exact ⟨ha.1, ih _ ha.2⟩
    · exact ih _ ha
    · exact ih _ ha
    · exact ih _ ha

/-- **every DML call, the finisher and `flush`**: whatever the number of buffer spills `n`,
whichever of summary / pool are pending, whichever medium writes fail: Ok ⇒ nothing failed -/
theorem api_no_swallow (fails : Nat → Bool) (n : Nat) (sum pool : Bool) :
    (∀ r0 : Run, r0.ok = true → (run fails (dmlScript n) 0 r0).ok = true →
        (run fails (dmlScript n) 0 r0).failed = r0.failed) ∧
    (∀ r0 : Run, r0.ok = true → (run fails (flushScript sum pool n) 0 r0).ok = true →
        (run fails (flushScript sum pool n) 0 r0).failed = r0.failed) := by
  have hwr : flushes "write_rows" = true := by decide
  have hps : flushes "propset_write" = true := by decide
  have hwp : flushes "write_pool" = true := by decide
  have hwd : flushes "write_data" = true := by decide
  constructor
  · intro r0 _ hok
    have hw : wellFlushed (dmlScript n) r0.flushed = true := by
      unfold dmlScript
      simp only [List.cons_append, List.nil_append, wellFlushed]
      exact writer_wellFlushed _ n hwr _
    exact (no_swallow fails _ 0 r0 hw hok).1
  · intro r0 _ hok
    have hw : ∀ fl, wellFlushed (flushScript sum pool n) fl = true := by
      intro fl
      unfold flushScript finishScript
      have hfile : ∀ fl', wellFlushed (if Gen.flushFlushesFile = true then [Act.flushFile] else []) fl' = true := by
        intro fl'; split <;> simp [wellFlushed]
      cases sum <;> cases pool <;> simp only [Bool.false_eq_true, if_false, if_true, List.nil_append, List.append_nil]
      · exact hfile fl
      · exact wellFlushed_append _ _ fl (wellFlushed_append _ _ fl (writer_wellFlushed _ n hwp fl)
          (fun fl' => writer_wellFlushed _ n hwd fl')) hfile
      · exact wellFlushed_append _ _ fl (writer_wellFlushed _ n hps fl) hfile
      · rw [List.append_assoc]
        exact wellFlushed_append _ _ fl (writer_wellFlushed _ n hps fl)
          (fun fl' => wellFlushed_append _ _ fl' (wellFlushed_append _ _ fl' (writer_wellFlushed _ n hwp fl')
            (fun fl'' => writer_wellFlushed _ n hwd fl'')) hfile)
    exact (no_swallow fails _ 0 r0 (hw _) hok).1

/-- the defect this replaced, as a theorem about the model: a writer that merely drops its
stream swallows the failure of the buffer spill that happens in the destructor -/
theorem unflushed_writer_swallows :
    let s : List Act := [.createStream, .write, .dropStream]
    let r := run (fun i => i == 2) s 0 ⟨true, 0, false⟩
    r.ok = true ∧ r.failed = 1 := by decide

end MsiProofs.C15
