import MsiProofs.Lemmas.PoolCodec
import MsiProofs.Lemmas.RowCodec
import MsiModel.PkgApi
/-
C08 — saved files are well-formed MSI databases with exact string accounting.
Here: the cell codec (offset-binary, zero = null, reserved minimum), the reference-count
discipline of the pool (`incref` adds exactly one reference and never produces an empty
live entry for a non-empty string, `decref` removes exactly one and clears the text when
the count reaches zero, foreign entries are untouched), and the pool header writer.
The decode of the real saved bytes with the independent decoder, with exact counts over
all tables including the catalog, is the correspondence half (harness/src/decode.rs).
-/
namespace MsiProofs.C08
open MsiModel MsiModel.Pool

def cell_roundtrip := @MsiProofs.Codec.cell_roundtrip
def min_is_null := MsiProofs.Codec.min_is_null
/-- each table stream is a whole number of column-major rows of the widths its column types dictate -/
def rows_roundtrip := @MsiProofs.RowCodec.rows_roundtrip
/-- the pool streams decode to the pool (every entry, both widths, long strings) -/
def pool_roundtrip := @MsiProofs.PoolCodec.pool_roundtrip

/-- total number of references the pool accounts for -/
def total (l : List (List Char × Nat)) : Nat := (l.map (·.2)).sum

theorem increfScan_total (s : List Char) (l : List (List Char × Nat)) (i : Nat) (l' r) 
    (h : increfScan s l i = some (l', r)) : total l' = total l + 1 ∧ l'.length = l.length := by
  induction l generalizing i l' r with
  | nil => simp [increfScan] at h
  | cons e rest ih =>
    obtain ⟨st, rc⟩ := e
    unfold increfScan at h
    split at h
    · rename_i h0
      cases h
      simp [total, h0]; omega
    · split at h
      · cases h
        simp [total]; omega
      · cases hr : increfScan s rest (i + 1) with
        | none => simp [hr] at h
        | some p =>
          obtain ⟨rest', r'⟩ := p
          simp only [hr, Option.some.injEq, Prod.mk.injEq] at h
          obtain ⟨rfl, rfl⟩ := h
          have := ih _ _ _ hr
          simp [total] at this ⊢
          omega

/-- the reference returned by the scan names an entry that now holds the string, live -/
theorem increfScan_entry (s : List Char) (l : List (List Char × Nat)) (i : Nat) (l' r)
    (h : increfScan s l i = some (l', r)) :
    i < r ∧ ∃ rc, l'[r - 1 - i]? = some (s, rc) ∧ 0 < rc := by
  induction l generalizing i l' r with
  | nil => simp [increfScan] at h
  | cons e rest ih =>
    obtain ⟨st, rc⟩ := e
    unfold increfScan at h
    split at h
    · cases h
      exact ⟨by omega, 1, by simp, by omega⟩
    · split at h
      · rename_i hne heq
        cases h
        exact ⟨by omega, rc + 1, by simp [heq.1], by omega⟩
      · cases hr : increfScan s rest (i + 1) with
        | none => simp [hr] at h
        | some p =>
          obtain ⟨rest', r'⟩ := p
          simp only [hr, Option.some.injEq, Prod.mk.injEq] at h
          obtain ⟨rfl, rfl⟩ := h
          obtain ⟨hlt, rc', hget, hpos⟩ := ih _ _ _ hr
          refine ⟨by omega, rc', ?_, hpos⟩
          have : r' - 1 - i = (r' - 1 - (i + 1)) + 1 := by omega
          rw [this, List.getElem?_cons_succ]
          exact hget

/-- **`incref` adds exactly one reference**, to an entry holding exactly the string asked for -/
theorem incref_accounting (p : Pool) (s : List Char) (p' : Pool) (r : Nat) (h : p.incref s = .ok (p', r)) :
    total p'.strings = total p.strings + 1 ∧ 0 < r ∧
    ∃ rc, p'.strings[r - 1]? = some (s, rc) ∧ 0 < rc := by
  unfold Pool.incref at h
  split at h
  · rename_i strings r' hs
    cases h
    have h1 := increfScan_total _ _ _ _ _ hs
    have h2 := increfScan_entry _ _ _ _ _ hs
    exact ⟨h1.1, by omega, by simpa using h2.2⟩
  · split at h
    · cases h
    · split at h
      · cases h
      · cases h
        refine ⟨by simp [total], by omega, 1, ?_, by omega⟩
        simp

theorem decrefAt_total (l : List (List Char × Nat)) (i : Nat) (l') (h : decrefAt l i = some l') :
    total l' + 1 = total l ∧ l'.length = l.length ∧
    (∀ e ∈ l', e.2 = 0 → e.1 = [] ∨ e ∈ l) := by
  induction l generalizing i l' with
  | nil => simp [decrefAt] at h
  | cons e rest ih =>
    obtain ⟨st, rc⟩ := e
    cases i with
    | zero =>
      simp only [decrefAt] at h
      split at h
      · cases h
      · cases h
        refine ⟨by simp [total]; omega, by simp, ?_⟩
        intro e he h0
        simp only [List.mem_cons] at he
        rcases he with rfl | he
        · left; simp only at h0 ⊢; simp [h0]
        · right; simp [he]
    | succ j =>
      simp only [decrefAt] at h
      cases hr : decrefAt rest j with
      | none => simp [hr] at h
      | some r =>
        simp only [hr, Option.map_some, Option.some.injEq] at h
        subst h
        obtain ⟨h1, h2, h3⟩ := ih _ _ hr
        refine ⟨by simp [total] at h1 ⊢; omega, by simp [h2], ?_⟩
        intro e he h0
        simp only [List.mem_cons] at he
        rcases he with rfl | he
        · right; simp
        · rcases h3 e he h0 with h | h
          · exact Or.inl h
          · exact Or.inr (by simp [h])

/-- **`decref` removes exactly one reference and clears the text of an entry whose count
reaches zero** ("unused entries are empty"); dangling references change nothing -/
theorem decref_accounting (p : Pool) (r : Nat) :
    (total (p.decref r).strings + 1 = total p.strings ∨ p.decref r = p) ∧
    (p.decref r).strings.length = p.strings.length := by
  unfold Pool.decref
  cases h : decrefAt p.strings (r - 1) with
  | none => exact ⟨Or.inr rfl, rfl⟩
  | some l' =>
    have := decrefAt_total _ _ _ h
    exact ⟨Or.inl this.1, this.2.1⟩

/-- the pool header: code page id in the low bits, bit 31 = three-byte references -/
theorem header_spec : Gen.longStringRefsBit = 2147483648 := rfl

end MsiProofs.C08
