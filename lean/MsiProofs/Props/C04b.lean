import MsiProofs.Props.C04
import MsiProofs.Lemmas.GlobalInv
import MsiProofs.Lemmas.GlobalInvUpd
/-
C04, under the package invariant — an insert or a delete that does not succeed, for whatever
reason (any error kind, or the capacity panic), leaves the whole state exactly as it was: under
the invariant there is no late failure, because the rows to be written always fit their columns.
-/
namespace MsiProofs.C04
open MsiModel MsiModel.Pkg

/-- **any insert that does not return Ok changes nothing** -/
def insert_refused_noop := @MsiProofs.GlobalInv.insert_refused_noop
/-- **any delete that does not return Ok changes nothing** -/
def delete_refused_noop := @MsiProofs.GlobalInv.delete_refused_noop

/-- **any update that does not return Ok changes nothing** -/
def update_refused_noop := @MsiProofs.GlobalInvUpd.update_refused_noop

end MsiProofs.C04
