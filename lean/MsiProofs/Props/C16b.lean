import MsiProofs.Props.C16
import MsiModel.Gen.Effects
/-
C16, tied to the source — `Gen/Effects.lean` is regenerated on every run from
`src/internal/package.rs` and `src/internal/query.rs`: for every function of the package its
receiver, whether its body installs the finisher, raises the summary's modified flag, calls a
writing method of the container or runs the finisher, and which other functions of the package it
calls.  The theorems below are evaluated on that table: nothing a read-only session can call
leaves anything pending or writes (directly or through a callee); the three ways of closing only
run a finisher that is already installed; the executors of `Select` and `Join` touch neither the
pool's counts nor the container's directory.  The model's read-only requests (`readonly_step_same`)
assume exactly this of the code.
-/
namespace MsiProofs.C16
open MsiModel

structure Meth where
  name : List Char
  recv : List Char
  setsFin : Bool
  marksSum : Bool
  writes : Bool
  runsFin : Bool
  calls : List (List Char)

def methods : List Meth :=
  Gen.pkgMethods.map fun (n, r, a, b, c, d, cs) => ⟨n.toList, r.toList, a, b, c, d, cs.map (·.toList)⟩

def find (n : List Char) : Option Meth := methods.find? (·.name == n)

/-- may calling `n` install the finisher, raise a modified flag or write to the container -
directly or through the functions it calls (`fuel` bounds the call depth followed) -/
def dirty : Nat → List Char → Bool
  | 0, _ => true
  | fuel + 1, n =>
    match find n with
    | none => true
    | some m => m.setsFin || m.marksSum || m.writes || m.calls.any (dirty fuel)

/-- what a session that only opens and reads can call -/
def readApi : List (List Char) :=
  ["open", "package_type", "summary_info", "database_codepage", "has_table", "get_table", "tables",
   "has_stream", "streams", "has_digital_signature", "select_rows", "read_stream"].map String.toList

/-- the mutating API -/
def writeApi : List (List Char) :=
  ["create", "summary_info_mut", "set_database_codepage", "create_table", "drop_table", "delete_rows",
   "insert_rows", "update_rows", "write_stream", "remove_stream", "remove_digital_signature"].map String.toList

/-- the three ways of closing -/
def closeApi : List (List Char) := ["flush", "into_inner", "drop"].map String.toList

/-- **nothing a read-only session calls can leave something pending or write**, at any call depth -/
theorem read_api_clean : ∀ n ∈ readApi, dirty 8 n = false := by decide +kernel

/-- every mutating call does leave something pending or writes (the model's `Step`s are these) -/
theorem write_api_dirty : ∀ n ∈ writeApi, dirty 8 n = true := by decide +kernel

/-- closing installs nothing and raises no flag: it only runs a finisher installed before -/
theorem close_api_only_runs : ∀ n ∈ closeApi, ∃ m, find n = some m ∧ m.setsFin = false ∧ m.marksSum = false ∧
    m.runsFin = true ∧ (m.calls.all fun c => !dirty 8 c) = true := by decide +kernel

/-- the finisher is run by the three ways of closing and by nothing else -/
theorem finisher_runs_only_at_close : ∀ m ∈ methods, m.runsFin = true → m.name ∈ closeApi := by decide +kernel

/-- helpers that are not part of the API -/
def helpers : List (List Char) :=
  ["comp", "comp_mut", "set_finisher", "create_table_with_name", "check_catalog_room", "clsid", "default_title", "next",
   "size_hint", "finish"].map String.toList

/-- the functions of package.rs that take the package (or build one), helpers aside -/
def apiNames : List (List Char) :=
  ((methods.filter fun m => m.recv != "none".toList || m.name == "open".toList || m.name == "create".toList).map
    (·.name)).filter fun n => !helpers.contains n

/-- the public functions of the package are exactly the three lists above: a new one has to be
placed (and the model's request list reviewed) before this holds again -/
theorem api_partition : apiNames =
    ["package_type", "summary_info", "database_codepage", "has_table", "get_table", "tables", "has_stream",
     "streams", "has_digital_signature", "into_inner", "open", "select_rows", "read_stream", "create",
     "summary_info_mut", "set_database_codepage", "create_table", "drop_table", "delete_rows", "insert_rows",
     "update_rows", "write_stream", "remove_stream", "remove_digital_signature", "flush", "drop"].map String.toList := by
  decide +kernel

/-- `Select::exec` and `Join::exec` take the string pool immutably, create or remove no stream and
change no reference count -/
theorem select_join_exec_pure : ∀ q ∈ Gen.queryExecs, (q.1 = "Select" ∨ q.1 = "Join") →
    q.2.1 = false ∧ q.2.2.1 = false ∧ q.2.2.2 = false := by decide +kernel

end MsiProofs.C16
