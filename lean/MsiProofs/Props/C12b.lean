import MsiProofs.Props.C12
import MsiProofs.Lemmas.SelectTree
/-
C12, whole query trees — for every tree of joins, projections and filters, over any package
state, `Select::exec` equals the comprehension reading of the tree (`denoteSelect`): inner join =
the concatenations on which the condition holds, left rows outermost, in order; left join =
additionally each unmatched left row once, padded with nulls; filter = the rows on which the
condition holds, in order; projection = the named columns; errors for unknown tables and columns.
Induction over the tree: no bound on depth.  And it never panics.
-/
namespace MsiProofs.C12
open MsiModel MsiModel.Pkg

/-- **`Select::exec` = the reading of the tree**, for every tree -/
theorem select_is_denotation (s : Pkg) (q : Select) : selectExec s q = MsiProofs.SelectTree.denoteSelect s q :=
  (MsiProofs.SelectTree.selectExec_eq s q).1
theorem join_is_denotation (s : Pkg) (j : Join) : joinExec s j = MsiProofs.SelectTree.denoteJoin s j :=
  (MsiProofs.SelectTree.joinExec_eq s j).1
/-- result rows have one cell per result column -/
theorem select_width (s : Pkg) (q : Select) (t : Table) (rows : List (List Cell))
    (h : selectExec s q = .ok (t, rows)) : ∀ r ∈ rows, r.length = t.columns.length := by
  rw [select_is_denotation] at h
  exact (MsiProofs.SelectTree.selectExec_eq s q).2 t rows h
/-- no panic outcome, whatever the state and the tree -/
def select_never_panics := @MsiProofs.SelectTree.select_never_panics

end MsiProofs.C12
